/- C05 part U: modulus switching / rescaling of the MODEL at ciphertext level
   (`modSwitchScaleNext`, `modSwitchDropNext`, `switchSteps`).  Helper names carry the prefix `c05u_`. -/
import Heathcliff.Model.Evaluator
import Heathcliff.Proofs.C01O
import Heathcliff.Proofs.C10H
import Heathcliff.Proofs.C10I
import Heathcliff.Proofs.C09G
import Heathcliff.Proofs.C07L
import Mathlib.Algebra.Order.BigOperators.Group.Finset
import Mathlib.Data.ZMod.Basic
import Mathlib.Tactic.Ring
import Mathlib.Tactic.Linarith
import Mathlib.Tactic.LinearCombination
import Mathlib.Tactic.NormNum
namespace HC
open Finset

/-! ## hypotheses: the level's tool is the tool of the level's moduli -/

/-- the part of `RNSTool::new` that modulus switching relies on: base q of the tool is the well-formed base of the level's moduli,
    the degree agrees, and `inv_q_last_mod_q[i]` is the (well-formed operand of the) inverse of the last prime modulo q_i -/
structure c05u_ToolOK (l : Level) : Prop where
  bwf : l.tool.baseQ.WF
  base : l.tool.baseQ.base = l.qs
  tn : l.tool.n = l.n
  inv : ∀ i, i < l.size - 1 → WFOp (l.q i) (l.tool.invQLastModQ.getD i default) ∧
      ((l.tool.invQLastModQ.getD i default).operand * (l.q (l.size - 1)).value) % (l.q i).value = 1

/-- the BGV constants: plain modulus of the tool = plain modulus of the level, `inv_q_last_mod_t` is the reduced inverse -/
structure c05u_BgvOK (l : Level) : Prop where
  tt : l.tool.t = l.t
  twf : l.t.WF
  invt_lt : l.tool.invQLastModT < l.t.value
  invt : (l.tool.invQLastModT * (l.q (l.size - 1)).value) % l.t.value = 1

/-- canonical ciphertext at level `l` (any number of polynomials) -/
def c05u_CtCanon (l : Level) (ct : Ct) : Prop := ∀ k, k < ct.polys.size → RnsCanon l (ct.polys.getD k #[])

/-- `l'` is the level below `l`: the last modulus is dropped -/
structure c05u_IsNext (l l' : Level) : Prop where
  size : l'.size + 1 = l.size
  n : l'.n = l.n
  q : ∀ i, i < l'.size → l'.q i = l.q i

theorem c05u_size {l : Level} (h : c05u_ToolOK l) : l.tool.baseQ.size = l.size := by
  unfold RNSBase.size Level.size; rw [h.base]

theorem c05u_q {l : Level} (h : c05u_ToolOK l) (i : Nat) : l.tool.baseQ.q i = l.q i := by
  unfold RNSBase.q Level.q; rw [h.base]; rfl

theorem c05u_qwf {l : Level} (h : c05u_ToolOK l) {i : Nat} (hi : i < l.size) : (l.q i).WF := by
  rw [← c05u_q h i]; exact h.bwf.mwf i (by rw [c05u_size h]; exact hi)

/-- the product of the level's moduli -/
def c05u_Q (l : Level) : Nat := l.tool.baseQ.prod

/-- `X` is the CRT value of coefficient `j` of the RNS polynomial `p` -/
def c05u_IsCrt (l : Level) (p : RnsPoly) (j X : Nat) : Prop :=
  X < c05u_Q l ∧ ∀ i, i < l.size → X % (l.q i).value = (p.getD i #[]).getD j 0

/-- a canonical polynomial has a CRT value in every coefficient (`compose_spec`) -/
theorem c05u_crt_exists {l : Level} (h : c05u_ToolOK l) {p : RnsPoly} (hp : RnsCanon l p) {j : Nat} (hj : j < l.n) :
    ∃ X, c05u_IsCrt l p j X := by
  have hs := c05u_size h
  obtain ⟨x, -, hx, hxr⟩ := compose_spec h.bwf
    (rs := ((List.range l.size).map (fun i => (p.getD i #[]).getD j 0)).toArray) (by simp [hs])
    (fun i hi => by
      rw [hs] at hi
      rw [getD_rangeMap _ _ hi, c05u_q h]; exact (hp.2 i hi).2 j hj)
  refine ⟨x, hx, fun i hi => ?_⟩
  have := hxr i (by rw [hs]; exact hi)
  rw [getD_rangeMap _ _ hi, c05u_q h] at this
  rw [this]; exact Nat.mod_eq_of_lt ((hp.2 i hi).2 j hj)

theorem c05u_crt_unique {l : Level} (h : c05u_ToolOK l) {p : RnsPoly} {j X Y : Nat}
    (hX : c05u_IsCrt l p j X) (hY : c05u_IsCrt l p j Y) : X = Y := by
  apply crt_unique h.bwf hX.1 hY.1
  intro i hi
  rw [c05u_size h] at hi
  rw [c05u_q h, hX.2 i hi, hY.2 i hi]

/-! ## U3: dropping the last component (`mod_switch_drop_to_next`) -/

theorem c05u_extract_size (p : RnsPoly) {m : Nat} (hm : m ≤ p.size) : (p.extract 0 m).size = m := by
  simp [Array.size_extract]; omega

theorem c05u_extract_getD (p : RnsPoly) {m i : Nat} (hm : m ≤ p.size) (hi : i < m) :
    (p.extract 0 m).getD i #[] = p.getD i #[] := by
  have h1 : i < (p.extract 0 m).size := by rw [c05u_extract_size p hm]; exact hi
  have h2 : i < p.size := by omega
  simp [Array.getD, h2, hi]

theorem c05u_map_getD {α β : Type} (a : Array α) (f : α → β) (d : α) (e : β) {k : Nat} (hk : k < a.size) :
    (a.map f).getD k e = f (a.getD k d) := by
  simp [Array.getD, hk]

/-- REFUSAL: no level below the last one -/
theorem c05u_drop_refuse_last {l : Level} (ct : Ct) (h : l.size < 2) : modSwitchDropNext l ct = .error .refused := by
  unfold modSwitchDropNext; rw [if_pos h]

/-- REFUSAL: CKKS ciphertexts must be in NTT form -/
theorem c05u_drop_refuse_ckks {l : Level} {ct : Ct} (hs : l.scheme = .ckks) (hn : ct.ntt = false) :
    modSwitchDropNext l ct = .error .refused := by
  unfold modSwitchDropNext
  split
  · rfl
  · rw [if_pos ⟨hs, by simp [hn]⟩]

/-- the value `modSwitchDropNext` returns -/
def c05u_dropCt (l : Level) (ct : Ct) : Ct := { ct with polys := ct.polys.map (fun p => p.extract 0 (l.size - 1)) }

theorem c05u_drop_ok {l : Level} {ct : Ct} (h2 : 2 ≤ l.size) (hs : l.scheme = .ckks → ct.ntt = true) :
    modSwitchDropNext l ct = .ok (c05u_dropCt l ct) := by
  unfold modSwitchDropNext
  rw [if_neg (by omega), if_neg]
  · rfl
  · rintro ⟨h1, h3⟩
    have := hs h1
    simp [this] at h3

/-- SHAPE and VALUES of the dropped ciphertext: same number of polynomials, same representation, same correction factor,
    one component fewer, every remaining residue unchanged -/
theorem c05u_dropCt_shape {l : Level} {ct : Ct} (hc : c05u_CtCanon l ct) (h2 : 2 ≤ l.size) :
    (c05u_dropCt l ct).polys.size = ct.polys.size ∧ (c05u_dropCt l ct).ntt = ct.ntt ∧ (c05u_dropCt l ct).cf = ct.cf ∧
    ∀ k, k < ct.polys.size → ((c05u_dropCt l ct).polys.getD k #[]).size = l.size - 1 ∧
      ∀ i, i < l.size - 1 → ((c05u_dropCt l ct).polys.getD k #[]).getD i #[] = (ct.polys.getD k #[]).getD i #[] := by
  refine ⟨by simp [c05u_dropCt], rfl, rfl, fun k hk => ?_⟩
  have hp := (hc k hk).1
  have e : (c05u_dropCt l ct).polys.getD k #[] = (ct.polys.getD k #[]).extract 0 (l.size - 1) :=
    c05u_map_getD ct.polys _ #[] #[] hk
  rw [e]
  exact ⟨c05u_extract_size _ (by omega), fun i hi => c05u_extract_getD _ (by omega) hi⟩

theorem c05u_dropCt_canon {l l' : Level} {ct : Ct} (hn : c05u_IsNext l l') (hc : c05u_CtCanon l ct) :
    c05u_CtCanon l' (c05u_dropCt l ct) := by
  have h2 : 2 ≤ l.size ∨ l.size = 1 := by have := hn.size; omega
  have hsz : l'.size = l.size - 1 := by have := hn.size; omega
  intro k hk
  have hk' : k < ct.polys.size := by simpa [c05u_dropCt] using hk
  have hp := hc k hk'
  have e : (c05u_dropCt l ct).polys.getD k #[] = (ct.polys.getD k #[]).extract 0 (l.size - 1) :=
    c05u_map_getD ct.polys _ #[] #[] hk'
  rw [e]
  refine ⟨by rw [c05u_extract_size _ (by rw [hp.1]; omega), hsz], fun i hi => ?_⟩
  rw [c05u_extract_getD _ (by rw [hp.1]; omega) (by omega), hn.q i hi, hn.n]
  exact hp.2 i (by omega)

/-- the products of two consecutive levels differ by the dropped prime -/
theorem c05u_Q_next {l l' : Level} (h : c05u_ToolOK l) (h' : c05u_ToolOK l') (hn : c05u_IsNext l l') :
    c05u_Q l = c05u_Q l' * (l.q (l.size - 1)).value := by
  unfold c05u_Q
  rw [h.bwf.prod_eq, h'.bwf.prod_eq, c05u_size h, c05u_size h', ← hn.size, List.range_succ, List.map_append, List.prod_append]
  simp only [List.map_cons, List.map_nil, List.prod_cons, List.prod_nil, Nat.mul_one, Nat.add_sub_cancel]
  rw [c05u_q h]
  congr 2
  apply List.map_congr_left
  intro i hi
  rw [c05u_q h, c05u_q h', hn.q i (List.mem_range.mp hi)]

/-- U3, VALUE: the CRT value of every coefficient of the dropped polynomial is the old CRT value reduced modulo the new product
    (so the phase, as an integer polynomial, is unchanged modulo Q'; cf. `C05.ckks_drop_phase`) -/
theorem c05u_drop_crt {l l' : Level} (h' : c05u_ToolOK l') (hn : c05u_IsNext l l')
    {p : RnsPoly} (hp : p.size = l.size) {j X : Nat} (hX : c05u_IsCrt l p j X) :
    c05u_IsCrt l' (p.extract 0 (l.size - 1)) j (X % c05u_Q l') := by
  have hQ' : 0 < c05u_Q l' := h'.bwf.prod_pos
  refine ⟨Nat.mod_lt _ hQ', fun i hi => ?_⟩
  have hsz : l'.size = l.size - 1 := by have := hn.size; omega
  rw [c05u_extract_getD _ (by omega) (by omega), ← hX.2 i (by omega), hn.q i hi]
  have hd : (l'.q i).value ∣ c05u_Q l' := by
    rw [← c05u_q h' i]; exact h'.bwf.q_dvd_prod (by rw [c05u_size h']; exact hi)
  rw [← hn.q i hi]
  exact Nat.mod_mod_of_dvd _ hd

/-! ## generic: `List.mapM` over the polynomials of a ciphertext -/

theorem c05u_mapM_exists {α β : Type} (F : α → R β) (P : α → β → Prop) (d : α) (e : β) (l : List α)
    (h : ∀ x ∈ l, ∃ y, F x = .ok y ∧ P x y) :
    ∃ ys, l.mapM F = .ok ys ∧ ys.length = l.length ∧ ∀ k, k < l.length → P (l.getD k d) (ys.getD k e) := by
  induction l with
  | nil => exact ⟨[], by simp [pure, Except.pure], rfl, fun k hk => by simp at hk⟩
  | cons a l ih =>
    obtain ⟨y, hy, hP⟩ := h a (by simp)
    obtain ⟨ys, hys, hl, hk⟩ := ih (fun x hx => h x (by simp [hx]))
    refine ⟨y :: ys, ?_, by simp [hl], ?_⟩
    · rw [List.mapM_cons, hy, hys]; rfl
    · intro k hk'
      cases k with
      | zero => simpa using hP
      | succ k => simpa using hk k (by simpa using hk')

theorem c05u_toList_getD {α : Type} (a : Array α) (k : Nat) (d : α) : a.toList.getD k d = a.getD k d := by
  by_cases hk : k < a.size <;> simp [Array.getD, List.getD, hk]

theorem c05u_toArray_getD {α : Type} (l : List α) (k : Nat) (d : α) : l.toArray.getD k d = l.getD k d := by
  by_cases hk : k < l.length <;> simp [Array.getD, List.getD, hk]

/-- every polynomial of the ciphertext is processed by `F`; the result has the same number of polynomials -/
theorem c05u_polys_mapM (F : RnsPoly → R RnsPoly) (P : RnsPoly → RnsPoly → Prop) (ct : Ct)
    (h : ∀ k, k < ct.polys.size → ∃ y, F (ct.polys.getD k #[]) = .ok y ∧ P (ct.polys.getD k #[]) y) :
    ∃ ps, ct.polys.toList.mapM F = .ok ps ∧ ps.toArray.size = ct.polys.size ∧
      ∀ k, k < ct.polys.size → P (ct.polys.getD k #[]) (ps.toArray.getD k #[]) := by
  obtain ⟨ys, h1, h2, h3⟩ := c05u_mapM_exists F P #[] #[] ct.polys.toList (fun x hx => by
    obtain ⟨k, hk, rfl⟩ := Array.mem_iff_getElem.mp (Array.mem_toList_iff.mp hx)
    have := h k hk
    simpa [Array.getD, hk] using this)
  refine ⟨ys, h1, by simpa using h2, fun k hk => ?_⟩
  have := h3 k (by simpa using hk)
  rw [c05u_toList_getD] at this
  rw [c05u_toArray_getD ys]; exact this

/-! ## U1 (BFV): `divide_and_round_q_last_inplace` on every polynomial -/

/-- the scratch (last) component after adding ⌊q_L/2⌋ -/
def c05u_lastc (r : RNSTool) (p : RnsPoly) : Array Nat :=
  (p.getD (r.baseQ.size - 1) #[]).map
    (fun x => (x + (r.baseQ.q (r.baseQ.size - 1)).value / 2) % (r.baseQ.q (r.baseQ.size - 1)).value)

/-- `divideAndRoundQLast` with its result as an explicit array (proof of `divideAndRoundQLast_spec`, C10I, keeping the witness) -/
theorem c05u_drq_eq {r : RNSTool} {p : RnsPoly}
    (hq : ∀ i, i < r.baseQ.size → (r.baseQ.q i).WF) (hs : 2 ≤ r.baseQ.size)
    (hinv : ∀ i, i < r.baseQ.size - 1 → WFOp (r.baseQ.q i) (r.invQLastModQ.getD i default))
    (hn : ∀ i, i < r.baseQ.size → (p.getD i #[]).size = r.n)
    (hc : ∀ i j, i < r.baseQ.size → j < r.n → (p.getD i #[]).getD j 0 < (r.baseQ.q i).value) :
    r.divideAndRoundQLast p =
      .ok (((List.range (r.baseQ.size - 1)).map (divRoundLastComp r p)).toArray.push (c05u_lastc r p)) := by
  have hlastWF := hq (r.baseQ.size - 1) (by omega)
  have hl2 := hlastWF.two_le
  have hl61 := hlastWF.lt
  have hmemL : ∀ x ∈ p.getD (r.baseQ.size - 1) #[], x < (r.baseQ.q (r.baseQ.size - 1)).value :=
    mem_lt_of_getD (fun j hj => hc _ j (by omega) (by rw [← hn (r.baseQ.size - 1) (by omega)]; exact hj))
  have h1 : mapM' (p.getD (r.baseQ.size - 1) #[])
      (fun x => addMod x ((r.baseQ.q (r.baseQ.size - 1)).value / 2) (r.baseQ.q (r.baseQ.size - 1)))
      = .ok ((p.getD (r.baseQ.size - 1) #[]).map
          (fun x => (x + (r.baseQ.q (r.baseQ.size - 1)).value / 2) % (r.baseQ.q (r.baseQ.size - 1)).value)) :=
    mapM'_ok _ (fun x hx => addMod_exact hlastWF (hmemL x hx) (by omega))
  unfold RNSTool.divideAndRoundQLast
  dsimp only
  rw [h1, ok_bind, listMapM_ok (G := divRoundLastComp r p), ok_bind]
  · rfl
  · intro i hi
    rw [List.mem_range] at hi
    have hb := hq i (by omega)
    have hb2 := hb.two_le
    have hb61 := hb.lt
    have hop := hinv i hi
    rw [barrett64_exact hb (by omega), ok_bind]
    have hb0 : 0 < (r.baseQ.q i).value := by omega
    rw [mapM'_ok (g := fun x => (x % (r.baseQ.q i).value + (r.baseQ.q i).value
          - (r.baseQ.q (r.baseQ.size - 1)).value / 2 % (r.baseQ.q i).value) % (r.baseQ.q i).value),
      ok_bind,
      zipM'_ok (g := fun x y => (x + (r.baseQ.q i).value - y) % (r.baseQ.q i).value),
      ok_bind,
      mapM'_ok (g := fun x => (x * (r.invQLastModQ.getD i default).operand) % (r.baseQ.q i).value)]
    · rfl
    · intro x hx
      have hx' : x < (r.baseQ.q i).value := by
        obtain ⟨k, hk, rfl⟩ := Array.mem_iff_getElem.mp hx
        simp only [List.getElem_toArray, List.getElem_map]
        exact Nat.mod_lt _ hb0
      exact mulOperandMod_exact hb (by omega) hop.1 (wfop_new hb hop)
    · intro k hk
      refine subMod_exact hb (hc i k (by omega) (by rw [← hn i (by omega)]; exact hk)) ?_
      apply getD_lt_of_forall _ hb0
      intro x hx
      obtain ⟨y, -, rfl⟩ := Array.mem_map.mp hx
      exact Nat.mod_lt _ hb0
    · intro x hx
      obtain ⟨y, hy, rfl⟩ := Array.mem_map.mp hx
      have hlt : (y + (r.baseQ.q (r.baseQ.size - 1)).value / 2) % (r.baseQ.q (r.baseQ.size - 1)).value
          < (r.baseQ.q (r.baseQ.size - 1)).value := Nat.mod_lt _ (by omega)
      rw [barrett64_exact hb (by omega), ok_bind]
      exact subMod_exact hb (Nat.mod_lt _ hb0) (Nat.mod_lt _ hb0)

theorem c05u_divRoundLastComp_size (r : RNSTool) (p : RnsPoly) (i : Nat) :
    (divRoundLastComp r p i).size = (p.getD i #[]).size := by
  simp [divRoundLastComp]

theorem c05u_push_extract {α : Type} (l : List α) (y : α) : (l.toArray.push y).extract 0 l.length = l.toArray := by
  apply Array.ext
  · simp
  · intro i h1 h2
    have h3 : i < l.length := by simpa using h2
    simp

theorem c05u_push_extract' {α : Type} (l : List α) (y : α) (m : Nat) (hm : m = l.length) :
    (l.toArray.push y).extract 0 m = l.toArray := by
  subst hm; exact c05u_push_extract l y

/-- `o` is the rounding division of the (coefficient-form) polynomial `p` by the last prime of `l`, on the remaining components -/
def c05u_RoundDivOf (l : Level) (p o : RnsPoly) : Prop :=
  o.size = l.size - 1 ∧ ∀ i, i < l.size - 1 → (o.getD i #[]).size = l.n ∧
    ∀ j, j < l.n → ∀ X, c05u_IsCrt l p j X →
      (o.getD i #[]).getD j 0 =
        ((X + (l.q (l.size - 1)).value / 2) / (l.q (l.size - 1)).value) % (l.q i).value

theorem c05u_bfv_poly {l : Level} (h : c05u_ToolOK l) (h2 : 2 ≤ l.size) {p : RnsPoly} (hp : RnsCanon l p) :
    ∃ o, (do let o ← l.tool.divideAndRoundQLast p; pure (o.extract 0 (l.size - 1))) = .ok o ∧ c05u_RoundDivOf l p o := by
  have hs := c05u_size h
  have hq := c05u_q h
  have e := c05u_drq_eq (r := l.tool) (p := p)
    (fun i hi => h.bwf.mwf i hi) (by rw [hs]; exact h2)
    (fun i hi => by rw [hs] at hi; rw [hq]; exact (h.inv i hi).1)
    (fun i hi => by rw [hs] at hi; rw [h.tn]; exact (hp.2 i hi).1)
    (fun i j hi hj => by rw [hs] at hi; rw [h.tn] at hj; rw [hq]; exact (hp.2 i hi).2 j hj)
  rw [e, ok_bind]
  refine ⟨_, rfl, ?_⟩
  rw [c05u_push_extract' _ _ _ (by simp [hs])]
  refine ⟨by simp [hs], fun i hi => ?_⟩
  have hi' : i < l.tool.baseQ.size - 1 := by rw [hs]; exact hi
  rw [getD_rangeMap' _ _ _ hi']
  refine ⟨by rw [c05u_divRoundLastComp_size]; exact (hp.2 i (by omega)).1, fun j hj X hX => ?_⟩
  rw [divRoundLastComp_getD (by rw [h.tn]; exact (hp.2 i (by omega)).1)
    (by rw [h.tn, hs]; exact (hp.2 _ (by omega)).1) (by rw [h.tn]; exact hj), hs, hq, hq,
    ← hX.2 i (by omega), ← hX.2 (l.size - 1) (by omega)]
  exact divRoundLast_scalar (c05u_qwf h (by omega)).two_le (c05u_qwf h (by omega)).two_le (h.inv i hi).2

/-- REFUSAL: there is no level below the last one -/
theorem c05u_scale_refuse_last {l : Level} (ct : Ct) (h : l.size < 2) : modSwitchScaleNext l ct = .error .refused := by
  unfold modSwitchScaleNext
  rw [if_pos h]

/-- REFUSAL: BFV ciphertexts are switched in coefficient form only -/
theorem c05u_scale_refuse_bfv_ntt {l : Level} {ct : Ct} (hs : l.scheme = .bfv) (hn : ct.ntt = true) :
    modSwitchScaleNext l ct = .error .refused := by
  unfold modSwitchScaleNext
  by_cases h2 : l.size < 2
  · rw [if_pos h2]
  · rw [if_neg h2]; simp only [hs]; rw [if_pos hn]

/-- REFUSAL: CKKS ciphertexts are rescaled in NTT form only -/
theorem c05u_scale_refuse_ckks_coeff {l : Level} {ct : Ct} (hs : l.scheme = .ckks) (hn : ct.ntt = false) :
    modSwitchScaleNext l ct = .error .refused := by
  unfold modSwitchScaleNext
  by_cases h2 : l.size < 2
  · rw [if_pos h2]
  · rw [if_neg h2]; simp only [hs]; rw [if_pos (by simp [hn])]

/-- REFUSAL: BGV ciphertexts are switched in NTT form only -/
theorem c05u_scale_refuse_bgv_coeff {l : Level} {ct : Ct} (hs : l.scheme = .bgv) (hn : ct.ntt = false) :
    modSwitchScaleNext l ct = .error .refused := by
  unfold modSwitchScaleNext
  by_cases h2 : l.size < 2
  · rw [if_pos h2]
  · rw [if_neg h2]; simp only [hs]; rw [if_pos (by simp [hn])]

theorem c05u_scale_bfv_eq {l : Level} {ct : Ct} (h2 : 2 ≤ l.size) (hs : l.scheme = .bfv) (hn : ct.ntt = false) :
    modSwitchScaleNext l ct = (do
      let ps ← ct.polys.toList.mapM (fun p => do let o ← l.tool.divideAndRoundQLast p; pure (o.extract 0 (l.size - 1)))
      pure { ct with polys := ps.toArray }) := by
  unfold modSwitchScaleNext
  rw [if_neg (by omega)]
  simp only [hs]
  rw [if_neg (by simp [hn])]

/-- U1 (BFV): the model returns a ciphertext with the same number of polynomials, still in coefficient form, same correction
    factor, one component fewer, and every coefficient is ⌊(X + q_L/2)/q_L⌋ mod q_i for the CRT value X of the source coefficient -/
theorem c05u_scale_bfv {l : Level} (h : c05u_ToolOK l) (h2 : 2 ≤ l.size) (hs : l.scheme = .bfv) {ct : Ct}
    (hn : ct.ntt = false) (hc : c05u_CtCanon l ct) :
    ∃ ct', modSwitchScaleNext l ct = .ok ct' ∧ ct'.polys.size = ct.polys.size ∧ ct'.ntt = false ∧ ct'.cf = ct.cf ∧
      ∀ k, k < ct.polys.size → c05u_RoundDivOf l (ct.polys.getD k #[]) (ct'.polys.getD k #[]) := by
  obtain ⟨ps, h1, h3, h4⟩ := c05u_polys_mapM
    (fun p => do let o ← l.tool.divideAndRoundQLast p; pure (o.extract 0 (l.size - 1)))
    (c05u_RoundDivOf l) ct (fun k hk => c05u_bfv_poly h h2 (hc k hk))
  rw [c05u_scale_bfv_eq h2 hs hn, h1, ok_bind]
  exact ⟨_, rfl, h3, hn, rfl, h4⟩

/-- the output of a rounding division of a canonical polynomial is canonical at the next level -/
theorem c05u_roundDiv_canon {l l' : Level} (h : c05u_ToolOK l) (hn : c05u_IsNext l l') {p o : RnsPoly}
    (hp : RnsCanon l p) (ho : c05u_RoundDivOf l p o) : RnsCanon l' o := by
  have hsz : l'.size = l.size - 1 := by have := hn.size; omega
  refine ⟨by rw [ho.1, hsz], fun i hi => ?_⟩
  rw [hsz] at hi
  obtain ⟨h1, h2⟩ := ho.2 i hi
  refine ⟨by rw [h1, hn.n], fun j hj => ?_⟩
  rw [hn.n] at hj
  obtain ⟨X, hX⟩ := c05u_crt_exists h hp hj
  rw [h2 j hj X hX, hn.q i (by omega)]
  exact Nat.mod_lt _ (by have := (c05u_qwf h (show i < l.size by omega)).two_le; omega)

/-! ## U4: the level walk (`mod_switch_to` / `rescale_to`) -/

/-- walk down the modulus chain along the model's `switchSteps`: the step that arrives at chain index `idx` is taken at the level
    with chain index `idx + 1` -/
def c05u_switchTo (step : Level → Ct → R Ct) (chain : Nat → Level) (cur tgt : Nat) (ct : Ct) : R Ct := do
  let steps ← switchSteps cur tgt
  steps.foldlM (fun c idx => step (chain (idx + 1)) c) ct

/-- REFUSAL: a target above the current level -/
theorem c05u_switchTo_up (step : Level → Ct → R Ct) (chain : Nat → Level) {cur tgt : Nat} (h : cur < tgt) (ct : Ct) :
    c05u_switchTo step chain cur tgt ct = .error .refused := by
  unfold c05u_switchTo switchSteps
  rw [if_pos h]; rfl

/-- switching to the current level is the identity -/
theorem c05u_switchTo_self (step : Level → Ct → R Ct) (chain : Nat → Level) (cur : Nat) (ct : Ct) :
    c05u_switchTo step chain cur cur ct = .ok ct := by
  unfold c05u_switchTo switchSteps
  rw [if_neg (by omega)]
  simp [pure, Except.pure, bind, Except.bind]

theorem c05u_steps_succ {cur tgt : Nat} (h : tgt < cur) :
    (List.range (cur - tgt)).map (fun i => cur - 1 - i) =
      (cur - 1) :: (List.range (cur - 1 - tgt)).map (fun i => cur - 1 - 1 - i) := by
  obtain ⟨d, hd⟩ : ∃ d, cur - tgt = d + 1 := ⟨cur - tgt - 1, by omega⟩
  rw [hd, List.range_succ_eq_map, List.map_cons, List.map_map]
  have e : cur - 1 - tgt = d := by omega
  rw [e]
  congr 1
  apply List.map_congr_left
  intro i _
  simp only [Function.comp]
  omega

/-- switching to a strictly lower level = one step at the current level, then switching from the level below
    ("iterating next") -/
theorem c05u_switchTo_step (step : Level → Ct → R Ct) (chain : Nat → Level) {cur tgt : Nat} (h : tgt < cur) (ct : Ct) :
    c05u_switchTo step chain cur tgt ct = (do
      let c ← step (chain cur) ct
      c05u_switchTo step chain (cur - 1) tgt c) := by
  unfold c05u_switchTo switchSteps
  rw [if_neg (by omega), if_neg (by omega)]
  simp only [pure, Except.pure, bind, Except.bind]
  rw [c05u_steps_succ h, List.foldlM_cons]
  have e : cur - 1 + 1 = cur := by omega
  rw [e]
  rfl

/-- U4: if every single step from chain index c+1 (tgt ≤ c < cur) succeeds on ciphertexts satisfying the invariant of index c+1 and
    establishes the invariant of index c, then the walk succeeds and ends exactly on the target level's invariant;
    it performs `cur - tgt` steps (`C05.switch_steps`) -/
theorem c05u_switchTo_inv (step : Level → Ct → R Ct) (chain : Nat → Level) (Inv : Nat → Ct → Prop) {tgt : Nat}
    (hstep : ∀ c ct, tgt ≤ c → Inv (c + 1) ct → ∃ ct', step (chain (c + 1)) ct = .ok ct' ∧ Inv c ct') :
    ∀ cur, tgt ≤ cur → ∀ ct, Inv cur ct → ∃ ct', c05u_switchTo step chain cur tgt ct = .ok ct' ∧ Inv tgt ct' := by
  intro cur
  induction cur with
  | zero =>
    intro h ct hi
    have : tgt = 0 := by omega
    subst this
    exact ⟨ct, c05u_switchTo_self _ _ _ _, hi⟩
  | succ c ih =>
    intro h ct hi
    by_cases he : tgt = c + 1
    · subst he; exact ⟨ct, c05u_switchTo_self _ _ _ _, hi⟩
    · have hle : tgt ≤ c := by omega
      obtain ⟨c1, h1, h2⟩ := hstep c ct hle hi
      obtain ⟨c2, h3, h4⟩ := ih hle c1 h2
      refine ⟨c2, ?_, h4⟩
      rw [c05u_switchTo_step _ _ (by omega), h1, ok_bind]
      exact h3

/-- a chain of levels: index c+1 is one modulus longer than index c, and every level's tool is well formed -/
structure c05u_ChainOK (chain : Nat → Level) (top : Nat) : Prop where
  next : ∀ c, c < top → c05u_IsNext (chain (c + 1)) (chain c)
  tool : ∀ c, c ≤ top → c05u_ToolOK (chain c)

theorem c05u_chain_size {chain : Nat → Level} {top : Nat} (hch : c05u_ChainOK chain top) {c : Nat} (hc : c < top) :
    2 ≤ (chain (c + 1)).size := by
  have h1 := (hch.next c hc).size
  have h2 := (hch.tool c (by omega)).bwf.pos
  rw [c05u_size (hch.tool c (by omega))] at h2
  omega

/-- U4 for the plain switch (drop): from any level down to any lower target the walk succeeds and ends canonical at the target
    level, with the representation and the correction factor unchanged -/
theorem c05u_switchTo_drop {chain : Nat → Level} {top : Nat} (hch : c05u_ChainOK chain top) {cur tgt : Nat}
    (hcur : cur ≤ top) (ht : tgt ≤ cur) {ct : Ct} (hc : c05u_CtCanon (chain cur) ct)
    (hs : ∀ c, c ≤ top → (chain c).scheme = .ckks → ct.ntt = true) :
    ∃ ct', c05u_switchTo modSwitchDropNext chain cur tgt ct = .ok ct' ∧ c05u_CtCanon (chain tgt) ct' ∧
      ct'.ntt = ct.ntt ∧ ct'.cf = ct.cf ∧ ct'.polys.size = ct.polys.size := by
  have key := c05u_switchTo_inv modSwitchDropNext chain
    (fun c x => c ≤ top ∧ c05u_CtCanon (chain c) x ∧ x.ntt = ct.ntt ∧ x.cf = ct.cf ∧ x.polys.size = ct.polys.size) (tgt := tgt)
    (fun c x _ hi => by
      obtain ⟨h1, h2, h3, h4, h5⟩ := hi
      refine ⟨c05u_dropCt (chain (c + 1)) x, c05u_drop_ok (c05u_chain_size hch (by omega)) (fun hck => ?_), by omega,
        c05u_dropCt_canon (hch.next c (by omega)) h2, h3, h4, ?_⟩
      · rw [h3]; exact hs (c + 1) h1 hck
      · simp [c05u_dropCt, h5])
    cur ht ct ⟨hcur, hc, rfl, rfl, rfl⟩
  obtain ⟨ct', h1, -, h2⟩ := key
  exact ⟨ct', h1, h2⟩

/-- U4 for BFV modulus switching with rescaling -/
theorem c05u_switchTo_scale_bfv {chain : Nat → Level} {top : Nat} (hch : c05u_ChainOK chain top) {cur tgt : Nat}
    (hcur : cur ≤ top) (ht : tgt ≤ cur) {ct : Ct} (hc : c05u_CtCanon (chain cur) ct) (hn : ct.ntt = false)
    (hs : ∀ c, c ≤ top → (chain c).scheme = .bfv) :
    ∃ ct', c05u_switchTo modSwitchScaleNext chain cur tgt ct = .ok ct' ∧ c05u_CtCanon (chain tgt) ct' ∧
      ct'.ntt = false ∧ ct'.cf = ct.cf ∧ ct'.polys.size = ct.polys.size := by
  have key := c05u_switchTo_inv modSwitchScaleNext chain
    (fun c x => c ≤ top ∧ c05u_CtCanon (chain c) x ∧ x.ntt = false ∧ x.cf = ct.cf ∧ x.polys.size = ct.polys.size) (tgt := tgt)
    (fun c x _ hi => by
      obtain ⟨h1, h2, h3, h4, h5⟩ := hi
      obtain ⟨x', e1, e2, e3, e4, e5⟩ := c05u_scale_bfv (hch.tool (c + 1) h1) (c05u_chain_size hch (by omega)) (hs _ h1) h3 h2
      refine ⟨x', e1, by omega, fun k hk => ?_, e3, by rw [e4, h4], by rw [e2, h5]⟩
      rw [e2] at hk
      exact c05u_roundDiv_canon (hch.tool (c + 1) h1) (hch.next c (by omega)) (h2 k hk) (e5 k hk))
    cur ht ct ⟨hcur, hc, hn, rfl, rfl⟩
  obtain ⟨ct', h1, -, h2⟩ := key
  exact ⟨ct', h1, h2⟩

/-! ## NTT-domain linear step: (x − NTT(w))·c in NTT form is (INTT(x) − w)·c in coefficient form -/

theorem c05u_ntt_lin {t : NTTTables} (hw : t.WF) {x w z : Array Nat} (c : Nat)
    (hx : x.size = 2^t.k) (hz : z.size = 2^t.k)
    (hxl : ∀ j, j < 2^t.k → x.getD j 0 < t.modulus.value)
    (hzl : ∀ j, j < 2^t.k → z.getD j 0 < t.modulus.value)
    (hzv : ∀ j, j < 2^t.k → ((z.getD j 0 : Nat) : ZMod t.modulus.value) =
      (((x.getD j 0 : Nat) : ZMod t.modulus.value) - ((evalSpec t w j : Nat) : ZMod t.modulus.value)) * (c : ZMod t.modulus.value)) :
    ∀ j, j < 2^t.k → (intt t z).getD j 0 < t.modulus.value ∧
      (((intt t z).getD j 0 : Nat) : ZMod t.modulus.value) =
        ((((intt t x).getD j 0 : Nat) : ZMod t.modulus.value) - ((w.getD j 0 : Nat) : ZMod t.modulus.value)) * (c : ZMod t.modulus.value) := by
  have hq2 := hw.mwf.two_le
  have hq0 : 0 < t.modulus.value := by omega
  have : NeZero t.modulus.value := ⟨by omega⟩
  obtain ⟨a1, a2⟩ := intt_sim hw x hx (fun j hj => by have := hxl j hj; omega)
  generalize hudef : ((List.range (2^t.k)).map fun j =>
      ZMod.val (((((intt t x).getD j 0 : Nat) : ZMod t.modulus.value) - ((w.getD j 0 : Nat) : ZMod t.modulus.value))
        * (c : ZMod t.modulus.value))).toArray = u
  have hus : u.size = 2^t.k := by rw [← hudef]; simp
  have huv : ∀ j, j < 2^t.k → u.getD j 0 =
      ZMod.val (((((intt t x).getD j 0 : Nat) : ZMod t.modulus.value) - ((w.getD j 0 : Nat) : ZMod t.modulus.value))
        * (c : ZMod t.modulus.value)) := by
    intro j hj; rw [← hudef]; exact getD_rangeMap _ _ hj
  have hul : ∀ j, j < 2^t.k → u.getD j 0 < t.modulus.value := by
    intro j hj; rw [huv j hj]; exact ZMod.val_lt _
  have huc : ∀ j, j < 2^t.k → ((u.getD j 0 : Nat) : ZMod t.modulus.value) =
      ((((intt t x).getD j 0 : Nat) : ZMod t.modulus.value) - ((w.getD j 0 : Nat) : ZMod t.modulus.value))
        * (c : ZMod t.modulus.value) := by
    intro j hj; rw [huv j hj, ZMod.natCast_zmod_val]
  have hnu : ntt t u = z := by
    obtain ⟨e1, e2⟩ := ntt_eval hw u hus (fun j hj => by have := hul j hj; omega)
    apply array_ext_getD e1 hz
    intro i hi
    have hxx := ntt_intt hw x hx hxl
    obtain ⟨_, ex⟩ := ntt_eval hw (intt t x) a1 (fun j hj => by have := (a2 j hj).1; omega)
    have hx' : x.getD i 0 = evalSpec t (intt t x) i := by rw [← ex i hi, hxx]
    rw [e2 i hi]
    apply cast_inj_lt (c01o_evalSpec_lt t hq0 _ _) (hzl i hi)
    rw [hzv i hi, hx', c01o_evalSpec_cast, c01o_evalSpec_cast, c01o_evalSpec_cast, ← Finset.sum_sub_distrib, Finset.sum_mul]
    apply Finset.sum_congr rfl
    intro j hj
    rw [huc j (mem_range.mp hj)]
    ring
  intro j hj
  rw [← hnu, intt_ntt hw u hus hul]
  exact ⟨hul j hj, huc j hj⟩

/-! ## U1 (CKKS): `divide_and_round_q_last_ntt_inplace` -/

/-- `temp1` of the NTT variant: (x + ⌊q_L/2⌋ mod q_L) reduced mod q_i (only if q_i < q_L) plus q_i − (⌊q_L/2⌋ mod q_i), unreduced -/
def c05u_temp1 (b last : Modulus) (lastc : Array Nat) : Array Nat :=
  (if b.value < last.value then lastc.map (fun x => x % b.value) else lastc).map
    (fun x => x + (b.value - last.value / 2 % b.value))

/-- output component of the NTT variant as an explicit array -/
def c05u_drqNttVal (b last : Modulus) (tbl : NTTTables) (inv : MulOperand) (lastc pi : Array Nat) : Array Nat :=
  ((List.range pi.size).map (fun k => pi.getD k 0 + (b.value * 4 - (nttLazy tbl (c05u_temp1 b last lastc)).getD k 0))).toArray.map
    (fun x => (x * inv.operand) % b.value)

theorem c05u_temp1_size (b last : Modulus) (lastc : Array Nat) : (c05u_temp1 b last lastc).size = lastc.size := by
  unfold c05u_temp1; split <;> simp

theorem c05u_temp1_getD (b last : Modulus) (lastc : Array Nat) {j : Nat} (hj : j < lastc.size) :
    (c05u_temp1 b last lastc).getD j 0 =
      (if b.value < last.value then lastc.getD j 0 % b.value else lastc.getD j 0) + (b.value - last.value / 2 % b.value) := by
  unfold c05u_temp1
  by_cases hc : b.value < last.value
  · rw [if_pos hc, if_pos hc, c10i_getD_map_lt _ _ (by simpa using hj), c10i_getD_map_lt _ _ hj]
  · rw [if_neg hc, if_neg hc, c10i_getD_map_lt _ _ hj]

theorem c05u_temp1_lt {b last : Modulus} (hb0 : 0 < b.value) {lastc : Array Nat} (hll : ∀ x ∈ lastc, x < last.value)
    {j : Nat} (hj : j < lastc.size) : (c05u_temp1 b last lastc).getD j 0 < 2 * b.value := by
  rw [c05u_temp1_getD _ _ _ hj]
  have h1 : lastc.getD j 0 < last.value := by
    have : lastc.getD j 0 = lastc[j] := by simp [Array.getD, hj]
    rw [this]; exact hll _ (Array.getElem_mem _)
  by_cases hc : b.value < last.value
  · rw [if_pos hc]; have := Nat.mod_lt (lastc.getD j 0) hb0; omega
  · rw [if_neg hc]; omega

theorem c05u_drqNtt_step {b last : Modulus} {tbl : NTTTables} {inv : MulOperand} {lastc pi : Array Nat} {N : Nat}
    (hb : b.WF) (hl : last.value < 2^61) (htw : tbl.WF) (htm : tbl.modulus = b) (htn : 2^tbl.k = N)
    (hop : WFOp b inv) (hls : lastc.size = N) (hll : ∀ x ∈ lastc, x < last.value) (hps : pi.size = N)
    (hpl : ∀ j, j < N → pi.getD j 0 < b.value) :
    (do let temp0 ← if b.value < last.value then mapM' lastc (fun x => barrett64 x b) else pure lastc
        let hm ← barrett64 (last.value / 2) b
        let negHalf ← ckSub b.value hm
        let temp1 ← mapM' temp0 (fun x => ckAdd x negHalf)
        let d ← zipM' pi (nttLazy tbl temp1) (fun x y => do let z ← ckSub (b.value * 4) y; ckAdd x z)
        mapM' d (fun x => mulOperandMod x inv b)) = .ok (c05u_drqNttVal b last tbl inv lastc pi) := by
  have hb2 := hb.two_le
  have hb61 := hb.lt
  have hb0 : 0 < b.value := by omega
  have hhm : last.value / 2 % b.value < b.value := Nat.mod_lt _ hb0
  have h0 : (if b.value < last.value then mapM' lastc (fun x => barrett64 x b) else pure lastc)
      = .ok (if b.value < last.value then lastc.map (fun x => x % b.value) else lastc) := by
    split
    · exact mapM'_ok _ (fun x hx => barrett64_exact hb (by have := hll x hx; omega))
    · rfl
  have ht0l : ∀ x ∈ (if b.value < last.value then lastc.map (fun x => x % b.value) else lastc), x < b.value := by
    intro x hx
    split at hx
    · obtain ⟨y, -, rfl⟩ := Array.mem_map.mp hx; exact Nat.mod_lt _ hb0
    · have := hll x hx; omega
  dsimp only
  rw [ite_bind_join, h0, ok_bind, barrett64_exact hb (by omega), ok_bind]
  unfold ckSub
  rw [if_pos hhm.le, ok_bind,
    mapM'_ok (g := fun x => x + (b.value - last.value / 2 % b.value)) (fun x hx => by
      unfold ckAdd; rw [if_pos (by rw [B64_eq]; have := ht0l x hx; omega)]), ok_bind]
  show (zipM' pi (nttLazy tbl (c05u_temp1 b last lastc)) _ >>= _) = _
  obtain ⟨n1, n2⟩ := nttLazy_spec htw (c05u_temp1 b last lastc) (by rw [c05u_temp1_size, hls, htn])
    (fun j hj => by rw [htm]; have := c05u_temp1_lt hb0 hll (show j < lastc.size by omega) (b := b); omega)
  rw [htm] at n2
  rw [zipM'_ok (g := fun x y => x + (b.value * 4 - y)) (fun k hk => by
      have hy := (n2 k (by omega)).1
      have hx := hpl k (by omega)
      rw [if_pos (by omega), ok_bind]
      unfold ckAdd; rw [if_pos (by rw [B64_eq]; omega)]), ok_bind,
    mapM'_ok (g := fun x => (x * inv.operand) % b.value) (fun x hx => by
      have hx' : x < 2^64 := by
        obtain ⟨k, hk, rfl⟩ := Array.mem_iff_getElem.mp hx
        simp only [List.getElem_toArray, List.getElem_map, List.getElem_range]
        have hk' : k < N := by simpa [hps] using hk
        have := hpl k hk'
        omega
      exact mulOperandMod_exact hb hx' hop.1 (wfop_new hb hop))]
  rfl

/-- tables of the level as the NTT variants see them -/
abbrev c05u_dflt : NTTTables := RNSTool.divideAndRoundQLastNtt.dflt

/-- the inverse transform of the last component, plus ⌊q_L/2⌋ mod q_L -/
def c05u_lastcNtt (r : RNSTool) (tables : Array NTTTables) (p : RnsPoly) : Array Nat :=
  (intt (tables.getD (r.baseQ.size - 1) c05u_dflt) (p.getD (r.baseQ.size - 1) #[])).map
    (fun x => (x + (r.baseQ.q (r.baseQ.size - 1)).value / 2) % (r.baseQ.q (r.baseQ.size - 1)).value)

/-- the tables handed to the NTT variants are the well-formed tables of the tool's base -/
def c05u_TablesOK (r : RNSTool) (tables : Array NTTTables) : Prop :=
  ∀ i, i < r.baseQ.size → (tables.getD i c05u_dflt).WF ∧ (tables.getD i c05u_dflt).modulus = r.baseQ.q i ∧
    2^(tables.getD i c05u_dflt).k = r.n

theorem c05u_lastcNtt_facts {r : RNSTool} {tables : Array NTTTables} {p : RnsPoly}
    (hs : 2 ≤ r.baseQ.size) (htb : c05u_TablesOK r tables)
    (hn : ∀ i, i < r.baseQ.size → (p.getD i #[]).size = r.n)
    (hc : ∀ i j, i < r.baseQ.size → j < r.n → (p.getD i #[]).getD j 0 < (r.baseQ.q i).value) :
    (intt (tables.getD (r.baseQ.size - 1) c05u_dflt) (p.getD (r.baseQ.size - 1) #[])).size = r.n ∧
    (∀ j, j < r.n → (intt (tables.getD (r.baseQ.size - 1) c05u_dflt) (p.getD (r.baseQ.size - 1) #[])).getD j 0
        < (r.baseQ.q (r.baseQ.size - 1)).value) ∧
    (c05u_lastcNtt r tables p).size = r.n ∧
    (∀ x ∈ c05u_lastcNtt r tables p, x < (r.baseQ.q (r.baseQ.size - 1)).value) := by
  obtain ⟨htw, htm, htn⟩ := htb (r.baseQ.size - 1) (by omega)
  have hq2 := htw.mwf.two_le
  rw [htm] at hq2
  obtain ⟨a1, a2⟩ := intt_sim htw (p.getD (r.baseQ.size - 1) #[]) (by rw [hn _ (by omega), htn])
    (fun j hj => by rw [htm]; have := hc (r.baseQ.size - 1) j (by omega) (by omega); omega)
  rw [htm] at a2
  refine ⟨by rw [a1, htn], fun j hj => (a2 j (by omega)).1, by unfold c05u_lastcNtt; rw [Array.size_map, a1, htn], fun x hx => ?_⟩
  obtain ⟨y, -, rfl⟩ := Array.mem_map.mp hx
  exact Nat.mod_lt _ (by omega)

theorem c05u_drqNtt_eq {r : RNSTool} {tables : Array NTTTables} {p : RnsPoly}
    (hq : ∀ i, i < r.baseQ.size → (r.baseQ.q i).WF) (hs : 2 ≤ r.baseQ.size) (htb : c05u_TablesOK r tables)
    (hinv : ∀ i, i < r.baseQ.size - 1 → WFOp (r.baseQ.q i) (r.invQLastModQ.getD i default))
    (hn : ∀ i, i < r.baseQ.size → (p.getD i #[]).size = r.n)
    (hc : ∀ i j, i < r.baseQ.size → j < r.n → (p.getD i #[]).getD j 0 < (r.baseQ.q i).value) :
    r.divideAndRoundQLastNtt tables p =
      .ok (((List.range (r.baseQ.size - 1)).map (fun i =>
        c05u_drqNttVal (r.baseQ.q i) (r.baseQ.q (r.baseQ.size - 1)) (tables.getD i c05u_dflt)
          (r.invQLastModQ.getD i default) (c05u_lastcNtt r tables p) (p.getD i #[]))).toArray.push
        (c05u_lastcNtt r tables p)) := by
  have hlastWF := hq (r.baseQ.size - 1) (by omega)
  have hl2 := hlastWF.two_le
  obtain ⟨f1, f2, f3, f4⟩ := c05u_lastcNtt_facts hs htb hn hc
  have h1 : mapM' (intt (tables.getD (r.baseQ.size - 1) c05u_dflt) (p.getD (r.baseQ.size - 1) #[]))
      (fun x => addMod x ((r.baseQ.q (r.baseQ.size - 1)).value / 2) (r.baseQ.q (r.baseQ.size - 1)))
      = .ok (c05u_lastcNtt r tables p) :=
    mapM'_ok _ (fun x hx => addMod_exact hlastWF
      (mem_lt_of_getD (fun j hj => f2 j (by rw [← f1]; exact hj)) x hx) (by omega))
  unfold RNSTool.divideAndRoundQLastNtt
  dsimp only
  rw [h1, ok_bind, listMapM_ok (G := fun i =>
        c05u_drqNttVal (r.baseQ.q i) (r.baseQ.q (r.baseQ.size - 1)) (tables.getD i c05u_dflt)
          (r.invQLastModQ.getD i default) (c05u_lastcNtt r tables p) (p.getD i #[])), ok_bind]
  · rfl
  · intro i hi
    rw [List.mem_range] at hi
    obtain ⟨htw, htm, htn⟩ := htb i (by omega)
    exact c05u_drqNtt_step (hq i (by omega)) hlastWF.lt htw htm htn (hinv i hi) f3 f4 (hn i (by omega))
      (fun j hj => hc i j (by omega) hj)

theorem c05u_cast_sub_mod (a h q : Nat) (hq : 0 < q) :
    (((a % q + q - h % q : Nat)) : ZMod q) = (a : ZMod q) - (h : ZMod q) := by
  have hlt := Nat.mod_lt h hq
  rw [Nat.cast_sub (by omega), Nat.cast_add, ZMod.natCast_self, ZMod.natCast_mod, ZMod.natCast_mod, add_zero]

/-- the value of `divRoundLastCoeff` modulo q_i as a ring expression -/
theorem c05u_drq_cast (qL qi inv xL xi : Nat) (hqi : 0 < qi) :
    ((divRoundLastCoeff qL qi inv xL xi : Nat) : ZMod qi) =
      ((xi : ZMod qi) - ((((xL + qL / 2) % qL : Nat) : ZMod qi) - ((qL / 2 : Nat) : ZMod qi))) * (inv : ZMod qi) := by
  unfold divRoundLastCoeff
  simp only []
  have hlt := Nat.mod_lt (((xL + qL / 2) % qL) % qi + qi - qL / 2 % qi) hqi
  rw [ZMod.natCast_mod, Nat.cast_mul, ZMod.natCast_mod, Nat.cast_sub (by omega), Nat.cast_add, ZMod.natCast_self,
    ZMod.natCast_mod, c05u_cast_sub_mod _ _ _ hqi, add_zero]

theorem c05u_drqNttVal_spec {b last : Modulus} {tbl : NTTTables} {inv : MulOperand} {lastI lastc pi : Array Nat} {N : Nat}
    (hb : b.WF) (htw : tbl.WF) (htm : tbl.modulus = b) (htn : 2^tbl.k = N)
    (hlI : lastI.size = N) (hlc : lastc = lastI.map (fun x => (x + last.value / 2) % last.value)) (hl0 : 0 < last.value)
    (hps : pi.size = N) (hpl : ∀ j, j < N → pi.getD j 0 < b.value) :
    (c05u_drqNttVal b last tbl inv lastc pi).size = N ∧
    (∀ j, j < N → (c05u_drqNttVal b last tbl inv lastc pi).getD j 0 < b.value) ∧
    ∀ j, j < N → (intt tbl (c05u_drqNttVal b last tbl inv lastc pi)).getD j 0 =
      divRoundLastCoeff last.value b.value inv.operand (lastI.getD j 0) ((intt tbl pi).getD j 0) := by
  subst htm
  have hb2 := hb.two_le
  have hb0 : 0 < tbl.modulus.value := by omega
  have hls : lastc.size = N := by rw [hlc, Array.size_map, hlI]
  have hll : ∀ x ∈ lastc, x < last.value := by
    intro x hx; rw [hlc] at hx
    obtain ⟨y, -, rfl⟩ := Array.mem_map.mp hx
    exact Nat.mod_lt _ hl0
  obtain ⟨n1, n2⟩ := nttLazy_spec htw (c05u_temp1 tbl.modulus last lastc) (by rw [c05u_temp1_size, hls, htn])
    (fun j hj => by have := c05u_temp1_lt hb0 hll (show j < lastc.size by omega) (b := tbl.modulus); omega)
  have hzs : (c05u_drqNttVal tbl.modulus last tbl inv lastc pi).size = N := by simp [c05u_drqNttVal, hps]
  have hzv : ∀ j, j < N → (c05u_drqNttVal tbl.modulus last tbl inv lastc pi).getD j 0 =
      ((pi.getD j 0 + (tbl.modulus.value * 4 - (nttLazy tbl (c05u_temp1 tbl.modulus last lastc)).getD j 0)) * inv.operand)
        % tbl.modulus.value := by
    intro j hj
    unfold c05u_drqNttVal
    rw [c10i_getD_map_lt _ _ (by simpa [hps] using hj), getD_rangeMap _ _ (by rw [hps]; exact hj)]
  have hzl : ∀ j, j < N → (c05u_drqNttVal tbl.modulus last tbl inv lastc pi).getD j 0 < tbl.modulus.value := by
    intro j hj; rw [hzv j hj]; exact Nat.mod_lt _ hb0
  refine ⟨hzs, hzl, fun j hj => ?_⟩
  have key := c05u_ntt_lin htw (x := pi) (w := c05u_temp1 tbl.modulus last lastc)
    (z := c05u_drqNttVal tbl.modulus last tbl inv lastc pi) inv.operand (by rw [hps, htn]) (by rw [hzs, htn])
    (fun j hj => hpl j (by omega)) (fun j hj => hzl j (by omega))
    (fun j hj => by
      have hy := n2 j hj
      rw [hzv j (by omega), ZMod.natCast_mod, Nat.cast_mul, Nat.cast_add, Nat.cast_sub (by omega), Nat.cast_mul,
        ZMod.natCast_self, zero_mul, ← hy.2, ZMod.natCast_mod]
      ring) j (by omega)
  apply cast_inj_lt key.1 (by unfold divRoundLastCoeff; exact Nat.mod_lt _ hb0)
  rw [key.2, c05u_drq_cast _ _ _ _ _ hb0, c05u_temp1_getD _ _ _ (by omega)]
  have hlj : lastc.getD j 0 = (lastI.getD j 0 + last.value / 2) % last.value := by
    rw [hlc, c10i_getD_map_lt _ _ (by omega)]
  have hlt := Nat.mod_lt (last.value / 2) hb0
  rw [Nat.cast_add, Nat.cast_sub hlt.le, ZMod.natCast_self, ZMod.natCast_mod, hlj]
  by_cases hc : tbl.modulus.value < last.value
  · rw [if_pos hc, ZMod.natCast_mod]; ring
  · rw [if_neg hc]; ring

theorem c05u_tables_ok {l : Level} (hl : l.WF) (h : c05u_ToolOK l) : c05u_TablesOK l.tool l.tables := by
  intro i hi
  rw [c05u_size h] at hi
  obtain ⟨h1, h2, h3, _⟩ := c01o_level_comp hl hi
  have e : l.tables.getD i c05u_dflt = l.tbl i := rfl
  rw [e, c05u_q h, h.tn]
  exact ⟨h1, (hl.twf i hi).2.1, h3⟩

/-- `o` (NTT form, canonical) is the rounding division by the last prime of the NTT-form polynomial `p`: stated on the coefficient
    forms, `X` being the CRT value of a coefficient of INTT(p) -/
def c05u_RoundDivOfNtt (l : Level) (p o : RnsPoly) : Prop :=
  o.size = l.size - 1 ∧ ∀ i, i < l.size - 1 → (o.getD i #[]).size = l.n ∧
    (∀ j, j < l.n → (o.getD i #[]).getD j 0 < (l.q i).value) ∧
    ∀ j, j < l.n → ∀ X, c05u_IsCrt l (rnsIntt l p) j X →
      (intt (l.tbl i) (o.getD i #[])).getD j 0 =
        ((X + (l.q (l.size - 1)).value / 2) / (l.q (l.size - 1)).value) % (l.q i).value

theorem c05u_ckks_poly {l : Level} (hl : l.WF) (h : c05u_ToolOK l) (h2 : 2 ≤ l.size) {p : RnsPoly} (hp : RnsCanon l p) :
    ∃ o, (do let o ← l.tool.divideAndRoundQLastNtt l.tables p; pure (o.extract 0 (l.size - 1))) = .ok o ∧
      c05u_RoundDivOfNtt l p o := by
  have hs := c05u_size h
  have hq := c05u_q h
  have htb := c05u_tables_ok hl h
  have hn : ∀ i, i < l.tool.baseQ.size → (p.getD i #[]).size = l.tool.n :=
    fun i hi => by rw [hs] at hi; rw [h.tn]; exact (hp.2 i hi).1
  have hc : ∀ i j, i < l.tool.baseQ.size → j < l.tool.n → (p.getD i #[]).getD j 0 < (l.tool.baseQ.q i).value :=
    fun i j hi hj => by rw [hs] at hi; rw [h.tn] at hj; rw [hq]; exact (hp.2 i hi).2 j hj
  have e := c05u_drqNtt_eq (r := l.tool) (tables := l.tables) (p := p)
    (fun i hi => h.bwf.mwf i hi) (by rw [hs]; exact h2) htb
    (fun i hi => by rw [hs] at hi; rw [hq]; exact (h.inv i hi).1) hn hc
  obtain ⟨f1, -, -, -⟩ := c05u_lastcNtt_facts (by rw [hs]; exact h2) htb hn hc
  rw [e, ok_bind]
  refine ⟨_, rfl, ?_⟩
  rw [c05u_push_extract' _ _ _ (by simp [hs])]
  refine ⟨by simp [hs], fun i hi => ?_⟩
  have hi' : i < l.tool.baseQ.size - 1 := by rw [hs]; exact hi
  rw [getD_rangeMap' _ _ _ hi']
  obtain ⟨htw, htm, htn⟩ := htb i (by omega)
  have hLwf := c05u_qwf h (show l.size - 1 < l.size by omega)
  obtain ⟨g1, g2, g3⟩ := c05u_drqNttVal_spec (inv := l.tool.invQLastModQ.getD i default)
    (last := l.tool.baseQ.q (l.tool.baseQ.size - 1)) (lastc := c05u_lastcNtt l.tool l.tables p)
    (h.bwf.mwf i (by omega)) htw htm htn f1 rfl
    (by rw [hs, hq]; have := hLwf.two_le; omega) (hn i (by omega)) (fun j hj => hc i j (by omega) hj)
  rw [h.tn] at g1 g2 g3
  refine ⟨g1, fun j hj => by rw [← hq]; exact g2 j hj, fun j hj X hX => ?_⟩
  have e1 : l.tables.getD i c05u_dflt = l.tbl i := rfl
  have e2 : l.tables.getD (l.size - 1) c05u_dflt = l.tbl (l.size - 1) := rfl
  rw [← e1, g3 j hj, hs, hq, hq, e1, e2]
  have x1 := hX.2 i (by omega)
  have x2 := hX.2 (l.size - 1) (by omega)
  rw [c01o_rnsIntt_getD l p (by omega)] at x1 x2
  rw [← x1, ← x2]
  exact divRoundLast_scalar hLwf.two_le (c05u_qwf h (by omega)).two_le (h.inv i hi).2

theorem c05u_scale_ckks_eq {l : Level} {ct : Ct} (h2 : 2 ≤ l.size) (hs : l.scheme = .ckks) (hn : ct.ntt = true) :
    modSwitchScaleNext l ct = (do
      let ps ← ct.polys.toList.mapM (fun p => do let o ← l.tool.divideAndRoundQLastNtt l.tables p; pure (o.extract 0 (l.size - 1)))
      pure { ct with polys := ps.toArray }) := by
  unfold modSwitchScaleNext
  rw [if_neg (by omega)]
  simp only [hs]
  rw [if_neg (by simp [hn])]

/-- U1 (CKKS rescale): same shape facts; the result is canonical in NTT form and the coefficient form of every polynomial is the
    rounding division ⌊(X + q_L/2)/q_L⌋ mod q_i of the CRT value X of the source's coefficient form -/
theorem c05u_scale_ckks {l : Level} (hl : l.WF) (h : c05u_ToolOK l) (h2 : 2 ≤ l.size) (hs : l.scheme = .ckks) {ct : Ct}
    (hn : ct.ntt = true) (hc : c05u_CtCanon l ct) :
    ∃ ct', modSwitchScaleNext l ct = .ok ct' ∧ ct'.polys.size = ct.polys.size ∧ ct'.ntt = true ∧ ct'.cf = ct.cf ∧
      ∀ k, k < ct.polys.size → c05u_RoundDivOfNtt l (ct.polys.getD k #[]) (ct'.polys.getD k #[]) := by
  obtain ⟨ps, h1, h3, h4⟩ := c05u_polys_mapM
    (fun p => do let o ← l.tool.divideAndRoundQLastNtt l.tables p; pure (o.extract 0 (l.size - 1)))
    (c05u_RoundDivOfNtt l) ct (fun k hk => c05u_ckks_poly hl h h2 (hc k hk))
  rw [c05u_scale_ckks_eq h2 hs hn, h1, ok_bind]
  exact ⟨_, rfl, h3, hn, rfl, h4⟩

theorem c05u_roundDivNtt_canon {l l' : Level} (hn : c05u_IsNext l l') {p o : RnsPoly}
    (ho : c05u_RoundDivOfNtt l p o) : RnsCanon l' o := by
  have hsz : l'.size = l.size - 1 := by have := hn.size; omega
  refine ⟨by rw [ho.1, hsz], fun i hi => ?_⟩
  rw [hsz] at hi
  obtain ⟨h1, h2, -⟩ := ho.2 i hi
  exact ⟨by rw [h1, hn.n], fun j hj => by rw [hn.q i (by omega)]; exact h2 j (by rw [← hn.n]; exact hj)⟩

/-! ## U2 (BGV): `mod_t_and_divide_q_last_ntt_inplace` -/

/-- δ-correction array: −x_L·q_L^{-1} mod t per coefficient of the (coefficient-form) last component -/
def c05u_negArr (t : Modulus) (invt : Nat) (lastc : Array Nat) : Array Nat :=
  lastc.map (fun x => (((t.value - x % t.value) % t.value) * invt) % t.value)

/-- `delta1` = (neg mod q_i)·q_L mod q_i + (x_L mod q_i), unreduced -/
def c05u_delta1 (b : Modulus) (lastv : Nat) (neg lastc : Array Nat) : Array Nat :=
  ((List.range neg.size).map (fun k => (neg.getD k 0 % b.value * lastv) % b.value + lastc.getD k 0 % b.value)).toArray

/-- output component of the BGV NTT variant as an explicit array -/
def c05u_mtdNttVal (b : Modulus) (lastv : Nat) (tbl : NTTTables) (inv : MulOperand) (neg lastc pi : Array Nat) : Array Nat :=
  ((List.range pi.size).map
    (fun k => (pi.getD k 0 + b.value - (ntt tbl (c05u_delta1 b lastv neg lastc)).getD k 0) % b.value)).toArray.map
    (fun x => (x * inv.operand) % b.value)

theorem c05u_delta1_getD (b : Modulus) (lastv : Nat) (neg lastc : Array Nat) {j : Nat} (hj : j < neg.size) :
    (c05u_delta1 b lastv neg lastc).getD j 0 = (neg.getD j 0 % b.value * lastv) % b.value + lastc.getD j 0 % b.value := by
  unfold c05u_delta1; exact getD_rangeMap _ _ hj

theorem c05u_mtdNtt_step {b : Modulus} {lastv : Nat} {tbl : NTTTables} {inv : MulOperand} {neg lastc pi : Array Nat} {N : Nat}
    (hb : b.WF) (hlv : lastv < 2^64) (htw : tbl.WF) (htm : tbl.modulus = b) (htn : 2^tbl.k = N)
    (hop : WFOp b inv) (hns : neg.size = N) (hnl : ∀ x ∈ neg, x < 2^64) (hll : ∀ j, j < N → lastc.getD j 0 < 2^64)
    (hps : pi.size = N) (hpl : ∀ j, j < N → pi.getD j 0 < b.value) :
    (do let delta0 ← mapM' neg (fun x => do let y ← barrett64 x b; mulMod y lastv b)
        let delta1 ← zipM' delta0 lastc (fun d c => do let cl ← barrett64 c b; ckAdd d cl)
        let d ← zipM' pi (ntt tbl delta1) (fun x y => subMod x y b)
        mapM' d (fun x => mulOperandMod x inv b)) = .ok (c05u_mtdNttVal b lastv tbl inv neg lastc pi) := by
  have hb2 := hb.two_le
  have hb61 := hb.lt
  have hb0 : 0 < b.value := by omega
  rw [mapM'_ok (g := fun x => (x % b.value * lastv) % b.value) (fun x hx => by
      rw [barrett64_exact hb (hnl x hx), ok_bind]
      exact mulMod_exact hb (by have := Nat.mod_lt x hb0; omega) hlv), ok_bind]
  have hd1 : zipM' (neg.map (fun x => (x % b.value * lastv) % b.value)) lastc
      (fun d c => do let cl ← barrett64 c b; ckAdd d cl) = .ok (c05u_delta1 b lastv neg lastc) := by
    rw [zipM'_ok (g := fun d c => d + c % b.value) (fun k hk => by
      have hk' : k < N := by simpa [hns] using hk
      rw [barrett64_exact hb (hll k hk'), ok_bind]
      unfold ckAdd
      have h1 : (neg.map (fun x => (x % b.value * lastv) % b.value)).getD k 0 < b.value := by
        rw [c10i_getD_map_lt _ _ (by omega)]; exact Nat.mod_lt _ hb0
      have h2 := Nat.mod_lt (lastc.getD k 0) hb0
      rw [if_pos (by rw [B64_eq]; omega)])]
    congr 1
    unfold c05u_delta1
    rw [Array.size_map]
    congr 1
    apply List.map_congr_left
    intro k hk
    rw [c10i_getD_map_lt _ _ (List.mem_range.mp hk)]
  rw [hd1, ok_bind]
  have hd1l : ∀ j, j < 2^tbl.k → (c05u_delta1 b lastv neg lastc).getD j 0 < 4 * tbl.modulus.value := by
    intro j hj
    rw [c05u_delta1_getD _ _ _ _ (by omega), htm]
    have h1 := Nat.mod_lt (neg.getD j 0 % b.value * lastv) hb0
    have h2 := Nat.mod_lt (lastc.getD j 0) hb0
    omega
  obtain ⟨n1, n2⟩ := ntt_sim htw (c05u_delta1 b lastv neg lastc) (by simp [c05u_delta1, hns, htn]) hd1l
  rw [htm] at n2
  rw [zipM'_ok (g := fun x y => (x + b.value - y) % b.value) (fun k hk =>
      subMod_exact hb (hpl k (by omega)) (n2 k (by omega)).2.1), ok_bind,
    mapM'_ok (g := fun x => (x * inv.operand) % b.value) (fun x hx => by
      have hx' : x < 2^64 := by
        obtain ⟨k, hk, rfl⟩ := Array.mem_iff_getElem.mp hx
        simp only [List.getElem_toArray, List.getElem_map, List.getElem_range]
        have := Nat.mod_lt (pi.getD k 0 + b.value - (ntt tbl (c05u_delta1 b lastv neg lastc)).getD k 0) hb0
        omega
      exact mulOperandMod_exact hb hx' hop.1 (wfop_new hb hop))]
  rfl

theorem c05u_dflt_eq : RNSTool.modTAndDivideQLastNtt.dflt = c05u_dflt := rfl

theorem c05u_neg_ok {t : Modulus} (ht : t.WF) {invt : Nat} (hinvt : invt < 2^64) {lastc : Array Nat}
    (hl : ∀ x ∈ lastc, x < 2^64) :
    (do let neg0 ← mapM' lastc (fun x => do let y ← barrett64 x t; negateMod y t)
        if invt ≠ 1 then mapM' neg0 (fun x => mulMod x invt t) else pure neg0) = .ok (c05u_negArr t invt lastc) := by
  have ht2 := ht.two_le
  have ht61 := ht.lt
  have ht0 : 0 < t.value := by omega
  have h0 : mapM' lastc (fun x => do let y ← barrett64 x t; negateMod y t)
      = .ok (lastc.map (fun x => (t.value - x % t.value) % t.value)) := by
    apply mapM'_ok
    intro x hx
    rw [barrett64_exact ht (hl x hx), ok_bind]
    exact negateMod_exact ht (Nat.mod_lt _ ht0).le
  rw [h0, ok_bind]
  unfold c05u_negArr
  by_cases h1 : invt ≠ 1
  · rw [if_pos h1, mapM'_ok (g := fun x => (x * invt) % t.value)]
    · rw [Array.map_map]; rfl
    · intro x hx
      obtain ⟨y, -, rfl⟩ := Array.mem_map.mp hx
      have := Nat.mod_lt (t.value - y % t.value) ht0
      exact mulMod_exact ht (by omega) hinvt
  · rw [if_neg h1]
    have h1' : invt = 1 := by omega
    show Except.ok _ = Except.ok _
    congr 1
    apply Array.map_congr_left
    intro x _
    rw [h1', Nat.mul_one, Nat.mod_mod]

theorem c05u_bind_ite {α β : Type} (A : R α) (c : Prop) [Decidable c] (B : α → R α) (K : α → R β) (v : α)
    (h : (do let x ← A; if c then B x else pure x) = .ok v) :
    (do let x ← A; if c then (B x >>= K) else (pure x >>= K)) = K v := by
  cases hA : A with
  | error e => rw [hA] at h; cases h
  | ok a =>
    rw [hA] at h
    rw [ok_bind] at h ⊢
    by_cases hc : c
    · rw [if_pos hc] at h ⊢; rw [h]; rfl
    · rw [if_neg hc] at h ⊢; rw [h]; rfl

theorem c05u_mtdNtt_eq {r : RNSTool} {tables : Array NTTTables} {p : RnsPoly}
    (hq : ∀ i, i < r.baseQ.size → (r.baseQ.q i).WF) (hs : 2 ≤ r.baseQ.size) (ht : r.t.WF) (hinvt : r.invQLastModT < 2^64)
    (htb : c05u_TablesOK r tables)
    (hinv : ∀ i, i < r.baseQ.size - 1 → WFOp (r.baseQ.q i) (r.invQLastModQ.getD i default))
    (hn : ∀ i, i < r.baseQ.size → (p.getD i #[]).size = r.n)
    (hc : ∀ i j, i < r.baseQ.size → j < r.n → (p.getD i #[]).getD j 0 < (r.baseQ.q i).value) :
    r.modTAndDivideQLastNtt tables p =
      .ok (((List.range (r.baseQ.size - 1)).map (fun i =>
        c05u_mtdNttVal (r.baseQ.q i) (r.baseQ.q (r.baseQ.size - 1)).value (tables.getD i c05u_dflt)
          (r.invQLastModQ.getD i default)
          (c05u_negArr r.t r.invQLastModT (intt (tables.getD (r.baseQ.size - 1) c05u_dflt) (p.getD (r.baseQ.size - 1) #[])))
          (intt (tables.getD (r.baseQ.size - 1) c05u_dflt) (p.getD (r.baseQ.size - 1) #[])) (p.getD i #[]))).toArray.push
        (intt (tables.getD (r.baseQ.size - 1) c05u_dflt) (p.getD (r.baseQ.size - 1) #[]))) := by
  have hlastWF := hq (r.baseQ.size - 1) (by omega)
  have hl61 := hlastWF.lt
  have ht61 := ht.lt
  have ht0 : 0 < r.t.value := by have := ht.two_le; omega
  obtain ⟨f1, f2, -, -⟩ := c05u_lastcNtt_facts hs htb hn hc
  have hl64 : ∀ x ∈ intt (tables.getD (r.baseQ.size - 1) c05u_dflt) (p.getD (r.baseQ.size - 1) #[]), x < 2^64 := by
    intro x hx
    have := mem_lt_of_getD (fun j hj => f2 j (by rw [← f1]; exact hj)) x hx
    omega
  have hneg := c05u_neg_ok ht hinvt hl64
  unfold RNSTool.modTAndDivideQLastNtt
  dsimp only
  rw [c05u_dflt_eq]
  refine (c05u_bind_ite _ _ _ _ _ hneg).trans ?_
  rw [listMapM_ok (G := fun i =>
        c05u_mtdNttVal (r.baseQ.q i) (r.baseQ.q (r.baseQ.size - 1)).value (tables.getD i c05u_dflt)
          (r.invQLastModQ.getD i default)
          (c05u_negArr r.t r.invQLastModT (intt (tables.getD (r.baseQ.size - 1) c05u_dflt) (p.getD (r.baseQ.size - 1) #[])))
          (intt (tables.getD (r.baseQ.size - 1) c05u_dflt) (p.getD (r.baseQ.size - 1) #[])) (p.getD i #[])), ok_bind]
  · rfl
  · intro i hi
    rw [List.mem_range] at hi
    obtain ⟨htw, htm, htn⟩ := htb i (by omega)
    refine c05u_mtdNtt_step (hq i (by omega)) (by omega) htw htm htn (hinv i hi)
      (by rw [c05u_negArr, Array.size_map, f1]) (fun x hx => ?_) (fun j hj => by have := f2 j hj; omega) (hn i (by omega))
      (fun j hj => hc i j (by omega) hj)
    unfold c05u_negArr at hx
    obtain ⟨y, -, rfl⟩ := Array.mem_map.mp hx
    have := Nat.mod_lt ((r.t.value - y % r.t.value) % r.t.value * r.invQLastModT) ht0
    omega

/-- the value of `modTDivLastCoeff` modulo q_i as a ring expression -/
theorem c05u_mtd_cast (t qL qi inv invt xL xi : Nat) (hqi : 0 < qi) :
    ((modTDivLastCoeff t qL qi inv invt xL xi : Nat) : ZMod qi) =
      ((xi : ZMod qi) - (xL : ZMod qi) - (((((t - xL % t) % t) * invt) % t : Nat) : ZMod qi) * (qL : ZMod qi)) * (inv : ZMod qi) := by
  unfold modTDivLastCoeff
  simp only []
  generalize (((t - xL % t) % t) * invt) % t = neg
  have h1 := Nat.mod_lt xL hqi
  have h2 := Nat.mod_lt ((neg % qi) * (qL % qi)) hqi
  rw [ZMod.natCast_mod, Nat.cast_mul, ZMod.natCast_mod, Nat.cast_sub (by omega), Nat.cast_sub (by omega)]
  simp only [Nat.cast_add, Nat.cast_mul, ZMod.natCast_mod, ZMod.natCast_self, Nat.cast_ofNat]
  ring

theorem c05u_mtdNttVal_spec {b t : Modulus} {lastv invt : Nat} {tbl : NTTTables} {inv : MulOperand} {lastI pi : Array Nat} {N : Nat}
    (hb : b.WF) (htw : tbl.WF) (htm : tbl.modulus = b) (htn : 2^tbl.k = N)
    (hlI : lastI.size = N) (hps : pi.size = N) (hpl : ∀ j, j < N → pi.getD j 0 < b.value) :
    (c05u_mtdNttVal b lastv tbl inv (c05u_negArr t invt lastI) lastI pi).size = N ∧
    (∀ j, j < N → (c05u_mtdNttVal b lastv tbl inv (c05u_negArr t invt lastI) lastI pi).getD j 0 < b.value) ∧
    ∀ j, j < N → (intt tbl (c05u_mtdNttVal b lastv tbl inv (c05u_negArr t invt lastI) lastI pi)).getD j 0 =
      modTDivLastCoeff t.value lastv b.value inv.operand invt (lastI.getD j 0) ((intt tbl pi).getD j 0) := by
  subst htm
  have hb2 := hb.two_le
  have hb0 : 0 < tbl.modulus.value := by omega
  have hns : (c05u_negArr t invt lastI).size = N := by rw [c05u_negArr, Array.size_map, hlI]
  generalize hneg : c05u_negArr t invt lastI = neg at hns ⊢
  have hd1l : ∀ j, j < 2^tbl.k → (c05u_delta1 tbl.modulus lastv neg lastI).getD j 0 < 4 * tbl.modulus.value := by
    intro j hj
    rw [c05u_delta1_getD _ _ _ _ (by omega)]
    have h1 := Nat.mod_lt (neg.getD j 0 % tbl.modulus.value * lastv) hb0
    have h2 := Nat.mod_lt (lastI.getD j 0) hb0
    omega
  obtain ⟨n1, n2⟩ := ntt_eval htw (c05u_delta1 tbl.modulus lastv neg lastI) (by simp [c05u_delta1, hns, htn]) hd1l
  have hzs : (c05u_mtdNttVal tbl.modulus lastv tbl inv neg lastI pi).size = N := by simp [c05u_mtdNttVal, hps]
  have hzv : ∀ j, j < N → (c05u_mtdNttVal tbl.modulus lastv tbl inv neg lastI pi).getD j 0 =
      (((pi.getD j 0 + tbl.modulus.value - (ntt tbl (c05u_delta1 tbl.modulus lastv neg lastI)).getD j 0) % tbl.modulus.value)
        * inv.operand) % tbl.modulus.value := by
    intro j hj
    unfold c05u_mtdNttVal
    rw [c10i_getD_map_lt _ _ (by simpa [hps] using hj), getD_rangeMap _ _ (by rw [hps]; exact hj)]
  have hzl : ∀ j, j < N → (c05u_mtdNttVal tbl.modulus lastv tbl inv neg lastI pi).getD j 0 < tbl.modulus.value := by
    intro j hj; rw [hzv j hj]; exact Nat.mod_lt _ hb0
  refine ⟨hzs, hzl, fun j hj => ?_⟩
  have key := c05u_ntt_lin htw (x := pi) (w := c05u_delta1 tbl.modulus lastv neg lastI)
    (z := c05u_mtdNttVal tbl.modulus lastv tbl inv neg lastI pi) inv.operand (by rw [hps, htn]) (by rw [hzs, htn])
    (fun j hj => hpl j (by omega)) (fun j hj => hzl j (by omega))
    (fun j hj => by
      have hy := n2 j hj
      have hyl : evalSpec tbl (c05u_delta1 tbl.modulus lastv neg lastI) j < tbl.modulus.value := c01o_evalSpec_lt tbl hb0 _ _
      rw [hzv j (by omega), hy, ZMod.natCast_mod, Nat.cast_mul, ZMod.natCast_mod, Nat.cast_sub (by omega), Nat.cast_add,
        ZMod.natCast_self, add_zero]) j (by omega)
  apply cast_inj_lt key.1 (by unfold modTDivLastCoeff; exact Nat.mod_lt _ hb0)
  rw [key.2, c05u_mtd_cast _ _ _ _ _ _ _ hb0, c05u_delta1_getD _ _ _ _ (by omega)]
  have hnj : neg.getD j 0 = (((t.value - lastI.getD j 0 % t.value) % t.value) * invt) % t.value := by
    rw [← hneg, c05u_negArr, c10i_getD_map_lt _ _ (by omega)]
  rw [Nat.cast_add, ZMod.natCast_mod, Nat.cast_mul, ZMod.natCast_mod, ZMod.natCast_mod, hnj]
  ring

/-- the integer the BGV division returns for the CRT value X: (X − [X]_{q_L})/q_L − [−X·q_L^{-1}]_t -/
def c05u_bgvY (t qL invt X : Nat) : Int :=
  (((X - X % qL) / qL : Nat) : Int) - (((((t - (X % qL) % t) % t) * invt) % t : Nat) : Int)

/-- `o` (NTT form, canonical) is the BGV division by the last prime of the NTT-form polynomial `p` -/
def c05u_BgvDivOfNtt (l : Level) (p o : RnsPoly) : Prop :=
  o.size = l.size - 1 ∧ ∀ i, i < l.size - 1 → (o.getD i #[]).size = l.n ∧
    (∀ j, j < l.n → (o.getD i #[]).getD j 0 < (l.q i).value) ∧
    ∀ j, j < l.n → ∀ X, c05u_IsCrt l (rnsIntt l p) j X →
      (((intt (l.tbl i) (o.getD i #[])).getD j 0 : Nat) : Int) =
        c05u_bgvY l.t.value (l.q (l.size - 1)).value l.tool.invQLastModT X % ((l.q i).value : Int)

theorem c05u_bgv_poly {l : Level} (hl : l.WF) (h : c05u_ToolOK l) (hg : c05u_BgvOK l) (h2 : 2 ≤ l.size) {p : RnsPoly}
    (hp : RnsCanon l p) :
    ∃ o, (do let o ← l.tool.modTAndDivideQLastNtt l.tables p; pure (o.extract 0 (l.size - 1))) = .ok o ∧
      c05u_BgvDivOfNtt l p o := by
  have hs := c05u_size h
  have hq := c05u_q h
  have htb := c05u_tables_ok hl h
  have ht61 := hg.twf.lt
  have hn : ∀ i, i < l.tool.baseQ.size → (p.getD i #[]).size = l.tool.n :=
    fun i hi => by rw [hs] at hi; rw [h.tn]; exact (hp.2 i hi).1
  have hc : ∀ i j, i < l.tool.baseQ.size → j < l.tool.n → (p.getD i #[]).getD j 0 < (l.tool.baseQ.q i).value :=
    fun i j hi hj => by rw [hs] at hi; rw [h.tn] at hj; rw [hq]; exact (hp.2 i hi).2 j hj
  have e := c05u_mtdNtt_eq (r := l.tool) (tables := l.tables) (p := p)
    (fun i hi => h.bwf.mwf i hi) (by rw [hs]; exact h2) (by rw [hg.tt]; exact hg.twf)
    (by have := hg.invt_lt; omega) htb
    (fun i hi => by rw [hs] at hi; rw [hq]; exact (h.inv i hi).1) hn hc
  obtain ⟨f1, -, -, -⟩ := c05u_lastcNtt_facts (by rw [hs]; exact h2) htb hn hc
  rw [e, ok_bind]
  refine ⟨_, rfl, ?_⟩
  rw [c05u_push_extract' _ _ _ (by simp [hs])]
  refine ⟨by simp [hs], fun i hi => ?_⟩
  have hi' : i < l.tool.baseQ.size - 1 := by rw [hs]; exact hi
  rw [getD_rangeMap' _ _ _ hi']
  obtain ⟨htw, htm, htn⟩ := htb i (by omega)
  have hLwf := c05u_qwf h (show l.size - 1 < l.size by omega)
  obtain ⟨g1, g2, g3⟩ := c05u_mtdNttVal_spec (inv := l.tool.invQLastModQ.getD i default) (t := l.tool.t)
    (lastv := (l.tool.baseQ.q (l.tool.baseQ.size - 1)).value) (invt := l.tool.invQLastModT)
    (h.bwf.mwf i (by omega)) htw htm htn f1 (hn i (by omega)) (fun j hj => hc i j (by omega) hj)
  rw [h.tn] at g1 g2 g3
  refine ⟨g1, fun j hj => by rw [← hq]; exact g2 j hj, fun j hj X hX => ?_⟩
  have e1 : l.tables.getD i c05u_dflt = l.tbl i := rfl
  have e2 : l.tables.getD (l.size - 1) c05u_dflt = l.tbl (l.size - 1) := rfl
  rw [← e1, g3 j hj, hs, hq, hq, e1, e2, hg.tt]
  have x1 := hX.2 i (by omega)
  have x2 := hX.2 (l.size - 1) (by omega)
  rw [c01o_rnsIntt_getD l p (by omega)] at x1 x2
  rw [← x1, ← x2]
  exact (modTDivLast_scalar hg.twf.two_le hLwf.two_le (c05u_qwf h (by omega)).two_le (h.inv i hi).2 hg.invt hg.invt_lt).1

theorem c05u_scale_bgv_eq {l : Level} {ct : Ct} (h2 : 2 ≤ l.size) (hs : l.scheme = .bgv) (hn : ct.ntt = true) :
    modSwitchScaleNext l ct = (do
      let ps ← ct.polys.toList.mapM (fun p => do let o ← l.tool.modTAndDivideQLastNtt l.tables p; pure (o.extract 0 (l.size - 1)))
      let cf ← mulMod ct.cf l.tool.invQLastModT l.t
      pure { ct with polys := ps.toArray, cf := cf }) := by
  unfold modSwitchScaleNext
  rw [if_neg (by omega)]
  simp only [hs]
  rw [if_neg (by simp [hn])]

/-- U2 (BGV): same shape facts, the new correction factor is cf·q_L^{-1} mod t, the result is canonical in NTT form and the
    coefficient form of every polynomial is Y mod q_i with Y = `c05u_bgvY` of the CRT value of the source's coefficient form -/
theorem c05u_scale_bgv {l : Level} (hl : l.WF) (h : c05u_ToolOK l) (hg : c05u_BgvOK l) (h2 : 2 ≤ l.size) (hs : l.scheme = .bgv)
    {ct : Ct} (hn : ct.ntt = true) (hcf : ct.cf < 2^64) (hc : c05u_CtCanon l ct) :
    ∃ ct', modSwitchScaleNext l ct = .ok ct' ∧ ct'.polys.size = ct.polys.size ∧ ct'.ntt = true ∧
      ct'.cf = (ct.cf * l.tool.invQLastModT) % l.t.value ∧
      ∀ k, k < ct.polys.size → c05u_BgvDivOfNtt l (ct.polys.getD k #[]) (ct'.polys.getD k #[]) := by
  obtain ⟨ps, h1, h3, h4⟩ := c05u_polys_mapM
    (fun p => do let o ← l.tool.modTAndDivideQLastNtt l.tables p; pure (o.extract 0 (l.size - 1)))
    (c05u_BgvDivOfNtt l) ct (fun k hk => c05u_bgv_poly hl h hg h2 (hc k hk))
  have ht61 := hg.twf.lt
  rw [c05u_scale_bgv_eq h2 hs hn, h1, ok_bind, mulMod_exact hg.twf hcf (by have := hg.invt_lt; omega), ok_bind]
  exact ⟨_, rfl, h3, hn, rfl, h4⟩

/-- the output of the BGV division is canonical at the next level -/
theorem c05u_bgvDivNtt_canon {l l' : Level} (hn : c05u_IsNext l l') {p o : RnsPoly}
    (ho : c05u_BgvDivOfNtt l p o) : RnsCanon l' o := by
  have hsz : l'.size = l.size - 1 := by have := hn.size; omega
  refine ⟨by rw [ho.1, hsz], fun i hi => ?_⟩
  rw [hsz] at hi
  obtain ⟨h1, h2, -⟩ := ho.2 i hi
  exact ⟨by rw [h1, hn.n], fun j hj => by rw [hn.q i (by omega)]; exact h2 j (by rw [← hn.n]; exact hj)⟩

/-! ## integer facts about the two divisions, and the phase -/

/-- rounding division: q_L·Y = X + ρ with |ρ| ≤ q_L/2 -/
theorem c05u_round_facts {qL : Nat} (hq : 0 < qL) (X : Nat) :
    ∃ ρ : Int, (qL : Int) * (((X + qL / 2) / qL : Nat) : Int) = X + ρ ∧ 2 * ρ.natAbs ≤ qL := by
  have hdiv : qL * ((X + qL / 2) / qL) + (X + qL / 2) % qL = X + qL / 2 := Nat.div_add_mod _ _
  have hlt := Nat.mod_lt (X + qL / 2) hq
  refine ⟨((qL / 2 : Nat) : Int) - (((X + qL / 2) % qL : Nat) : Int), ?_, ?_⟩
  · have : ((qL * ((X + qL / 2) / qL) + (X + qL / 2) % qL : Nat) : Int) = ((X + qL / 2 : Nat) : Int) := by rw [hdiv]
    push_cast at this ⊢
    linarith
  · omega

theorem c05u_neg_mod {t qL invt : Nat} (ht : 0 < t) (hinvt : (invt * qL) % t = 1) (xL : Nat) :
    (xL + ((((t - xL % t) % t) * invt) % t) * qL) % t = 0 := by
  have e1 : (((((t - xL % t) % t) * invt) % t) * qL) % t = ((t - xL % t) % t) % t := by
    rw [Nat.mod_mul_mod, Nat.mul_assoc, Nat.mul_mod, hinvt, Nat.mul_one, Nat.mod_mod]
  rw [Nat.add_mod, e1, Nat.mod_mod]
  have hlt := Nat.mod_lt xL ht
  by_cases h0 : xL % t = 0
  · rw [h0]; simp
  · rw [Nat.mod_eq_of_lt (show t - xL % t < t by omega)]
    have : xL % t + (t - xL % t) = t := by omega
    rw [this, Nat.mod_self]

/-- BGV division: q_L·Y = X + δ with t ∣ δ and −q_L·t < δ ≤ 0 -/
theorem c05u_bgvY_facts {t qL invt : Nat} (ht : 0 < t) (hqL : 0 < qL) (hinvt : (invt * qL) % t = 1) (X : Nat) :
    ∃ δ : Int, (qL : Int) * c05u_bgvY t qL invt X = X + δ ∧ (t : Int) ∣ δ ∧ δ ≤ 0 ∧ -((qL * t : Nat) : Int) < δ := by
  have hxL : X % qL ≤ X := Nat.mod_le _ _
  have hdiv : qL * (X / qL) + X % qL = X := Nat.div_add_mod _ _
  have hquo : (X - X % qL) / qL = X / qL := by
    have : X - X % qL = qL * (X / qL) := by omega
    rw [this, Nat.mul_div_cancel_left _ hqL]
  have hlt := Nat.mod_lt X hqL
  have hnlt := Nat.mod_lt (((t - (X % qL) % t) % t) * invt) ht
  have hmod := c05u_neg_mod ht hinvt (X % qL)
  generalize hneg : (((t - (X % qL) % t) % t) * invt) % t = neg at hnlt hmod
  refine ⟨-((X % qL : Nat) : Int) - (neg : Int) * qL, ?_, ?_, ?_, ?_⟩
  · unfold c05u_bgvY
    rw [hquo, hneg]
    have : ((qL * (X / qL) + X % qL : Nat) : Int) = (X : Int) := by rw [hdiv]
    push_cast at this ⊢
    linarith
  · have : ((X % qL + neg * qL : Nat) : Int) % (t : Int) = 0 := by exact_mod_cast hmod
    have h2 := Int.dvd_of_emod_eq_zero this
    push_cast at h2
    have e : -((X % qL : Nat) : Int) - (neg : Int) * qL = -(((X : Int) % qL) + neg * qL) := by push_cast; ring
    rw [e]
    exact (Int.dvd_neg).mpr h2
  · have h1 : (0 : Int) ≤ ((X % qL : Nat) : Int) := Int.natCast_nonneg _
    have h2 : (0 : Int) ≤ (neg : Int) * qL := by positivity
    linarith
  · have h1 : ((X % qL : Nat) : Int) < qL := by exact_mod_cast hlt
    have h2 : (neg : Int) + 1 ≤ t := by exact_mod_cast hnlt
    have h3 : (0 : Int) < qL := by exact_mod_cast hqL
    push_cast
    nlinarith

/-- negacyclic product is additive in the left argument -/
theorem c05u_negMul_add {R : Type} [CommRing R] (n : Nat) (a a' b : Nat → R) (c : Nat) :
    negMulR n (fun i => a i + a' i) b c = negMulR n a b c + negMulR n a' b c := by
  unfold negMulR
  rw [← Finset.sum_add_distrib]
  apply Finset.sum_congr rfl
  intro i _
  split <;> ring

theorem c05u_negMul_smul {R : Type} [CommRing R] (n : Nat) (k : R) (a b : Nat → R) (c : Nat) :
    negMulR n (fun i => k * a i) b c = k * negMulR n a b c := by
  unfold negMulR
  rw [Finset.mul_sum]
  apply Finset.sum_congr rfl
  intro i _
  split <;> ring

theorem c05u_negMul_congr {R : Type} [CommRing R] (n : Nat) (a a' b : Nat → R) (c : Nat) (h : ∀ i, i < n → a i = a' i) :
    negMulR n a b c = negMulR n a' b c := by
  unfold negMulR
  apply Finset.sum_congr rfl
  intro i hi
  rw [h i (mem_range.mp hi)]

theorem c05u_negMul_dvd (n : Nat) (t : Int) (a b : Nat → Int) (c : Nat) (h : ∀ i, i < n → t ∣ a i) :
    t ∣ negMulR n a b c := by
  unfold negMulR
  apply Finset.dvd_sum
  intro i hi
  have := h i (mem_range.mp hi)
  split
  · exact Dvd.dvd.mul_right this _
  · exact (Int.dvd_neg).mpr (Dvd.dvd.mul_right this _)

/-- the index map i ↦ c − i (resp. n + c − i) of the negacyclic product is a permutation of [0, n) -/
theorem c05u_sum_perm (n c : Nat) (hc : c < n) (f : Nat → Nat) :
    ∑ i ∈ range n, f (if i ≤ c then c - i else n + c - i) = ∑ k ∈ range n, f k := by
  apply Finset.sum_nbij' (fun i => if i ≤ c then c - i else n + c - i) (fun i => if i ≤ c then c - i else n + c - i)
  · intro i hi
    have := mem_range.mp hi
    simp only [mem_range]
    split <;> omega
  · intro i hi
    have := mem_range.mp hi
    simp only [mem_range]
    split <;> omega
  · intro i hi
    have := mem_range.mp hi
    split <;> split <;> omega
  · intro i hi
    have := mem_range.mp hi
    split <;> split <;> omega
  · intro i _; rfl

/-- ‖a ⋆ b‖∞ ≤ ‖a‖∞ · ‖b‖₁ for the negacyclic product -/
theorem c05u_negMul_bound (n : Nat) (a b : Nat → Int) (A c : Nat) (hc : c < n) (ha : ∀ i, i < n → (a i).natAbs ≤ A) :
    (negMulR n a b c).natAbs ≤ A * ∑ k ∈ range n, (b k).natAbs := by
  unfold negMulR
  have h1 : (∑ i ∈ range n, if i ≤ c then a i * b (c - i) else -(a i * b (n + c - i))).natAbs ≤
      ∑ i ∈ range n, A * (b (if i ≤ c then c - i else n + c - i)).natAbs := by
    refine le_trans (Int.natAbs_sum_le _ _) (Finset.sum_le_sum (fun i hi => ?_))
    have := ha i (mem_range.mp hi)
    split
    · rw [Int.natAbs_mul]; exact Nat.mul_le_mul_right _ this
    · rw [Int.natAbs_neg, Int.natAbs_mul]; exact Nat.mul_le_mul_right _ this
  rw [← Finset.mul_sum] at h1
  rw [c05u_sum_perm n c hc (fun k => (b k).natAbs)] at h1
  exact h1

/-- coefficient `c` of the phase c0 + c1 ⋆ s of a size-2 ciphertext over the integers (⋆ = negacyclic product, `negMulR`) -/
def c05u_phase2 (n : Nat) (c0 c1 s : Nat → Int) (c : Nat) : Int := c0 c + negMulR n c1 s c

/-- if q·Y_k = X_k + D_k coefficient-wise then q·phase(Y) = phase(X) + phase(D), for every secret -/
theorem c05u_phase2_switch (n : Nat) (q : Int) (X0 X1 Y0 Y1 D0 D1 s : Nat → Int)
    (h0 : ∀ j, j < n → q * Y0 j = X0 j + D0 j) (h1 : ∀ j, j < n → q * Y1 j = X1 j + D1 j) (c : Nat) (hc : c < n) :
    q * c05u_phase2 n Y0 Y1 s c = c05u_phase2 n X0 X1 s c + c05u_phase2 n D0 D1 s c := by
  unfold c05u_phase2
  rw [mul_add, h0 c hc, ← c05u_negMul_smul, c05u_negMul_congr n (fun i => q * Y1 i) (fun i => X1 i + D1 i) s c h1,
    c05u_negMul_add]
  ring

theorem c05u_phase2_bound (n : Nat) (D0 D1 s : Nat → Int) (A c : Nat) (hc : c < n)
    (h0 : ∀ j, j < n → (D0 j).natAbs ≤ A) (h1 : ∀ j, j < n → (D1 j).natAbs ≤ A) :
    (c05u_phase2 n D0 D1 s c).natAbs ≤ A * (1 + ∑ k ∈ range n, (s k).natAbs) := by
  unfold c05u_phase2
  refine le_trans (Int.natAbs_add_le _ _) ?_
  have := c05u_negMul_bound n D1 s A c hc h1
  have := h0 c hc
  rw [Nat.mul_add, Nat.mul_one]
  omega

theorem c05u_phase2_dvd (n : Nat) (t : Int) (D0 D1 s : Nat → Int) (c : Nat) (hc : c < n)
    (h0 : ∀ j, j < n → t ∣ D0 j) (h1 : ∀ j, j < n → t ∣ D1 j) : t ∣ c05u_phase2 n D0 D1 s c :=
  dvd_add (h0 c hc) (c05u_negMul_dvd n t D1 s c h1)

/-- the same linearity for any number of polynomials, in any commutative ring (e.g. ℤ[X]/(X^N+1)) -/
theorem c05u_phase_switch {R : Type} [CommRing R] (m : Nat) (q : R) (X Y D : Nat → R) (s : R)
    (h : ∀ k, k < m → q * Y k = X k + D k) :
    q * ∑ k ∈ range m, Y k * s^k = ∑ k ∈ range m, X k * s^k + ∑ k ∈ range m, D k * s^k := by
  rw [Finset.mul_sum, ← Finset.sum_add_distrib]
  apply Finset.sum_congr rfl
  intro k hk
  have := h k (mem_range.mp hk)
  linear_combination s^k * this

/-- U1, PHASE (BFV / CKKS, size 2): with Y_k = ⌊(X_k + q_L/2)/q_L⌋ coefficient-wise, q_L·phase(Y) = phase(X) + ρ with
    2‖ρ‖∞ ≤ q_L·(1 + ‖s‖₁) — the hypothesis `x = q_L·x' + ρ` of `C05.bfv_switch_noise` / `C05.ckks_rescale_error` -/
theorem c05u_round_phase2 (n qL : Nat) (hq : 0 < qL) (X0 X1 : Nat → Nat) (s : Nat → Int) (c : Nat) (hc : c < n) :
    ∃ ρ : Int,
      (qL : Int) * c05u_phase2 n (fun j => (((X0 j + qL / 2) / qL : Nat) : Int)) (fun j => (((X1 j + qL / 2) / qL : Nat) : Int)) s c
        = c05u_phase2 n (fun j => (X0 j : Int)) (fun j => (X1 j : Int)) s c + ρ ∧
      2 * ρ.natAbs ≤ qL * (1 + ∑ k ∈ range n, (s k).natAbs) := by
  have hD : ∀ X : Nat, ((qL : Int) * (((X + qL / 2) / qL : Nat) : Int) - X).natAbs ≤ qL / 2 := by
    intro X
    obtain ⟨ρ, h1, h2⟩ := c05u_round_facts hq X
    have : (qL : Int) * (((X + qL / 2) / qL : Nat) : Int) - X = ρ := by rw [h1]; ring
    rw [this]; omega
  refine ⟨c05u_phase2 n (fun j => (qL : Int) * (((X0 j + qL / 2) / qL : Nat) : Int) - X0 j)
      (fun j => (qL : Int) * (((X1 j + qL / 2) / qL : Nat) : Int) - X1 j) s c,
    c05u_phase2_switch n qL _ _ _ _ _ _ s (fun j _ => by ring) (fun j _ => by ring) c hc, ?_⟩
  have := c05u_phase2_bound n _ _ s (qL / 2) c hc (fun j _ => hD (X0 j)) (fun j _ => hD (X1 j))
  have h2 : 2 * (qL / 2 * (1 + ∑ k ∈ range n, (s k).natAbs)) ≤ qL * (1 + ∑ k ∈ range n, (s k).natAbs) := by
    rw [← Nat.mul_assoc]
    exact Nat.mul_le_mul_right _ (by omega)
  omega

/-- U2, PHASE (BGV, size 2): with Y_k = `c05u_bgvY` of X_k coefficient-wise, q_L·phase(Y) = phase(X) + δ with t ∣ δ and
    ‖δ‖∞ ≤ q_L·t·(1 + ‖s‖₁) -/
theorem c05u_bgv_phase2 (n : Nat) {t qL invt : Nat} (ht : 0 < t) (hqL : 0 < qL) (hinvt : (invt * qL) % t = 1)
    (X0 X1 : Nat → Nat) (s : Nat → Int) (c : Nat) (hc : c < n) :
    ∃ δ : Int,
      (qL : Int) * c05u_phase2 n (fun j => c05u_bgvY t qL invt (X0 j)) (fun j => c05u_bgvY t qL invt (X1 j)) s c
        = c05u_phase2 n (fun j => (X0 j : Int)) (fun j => (X1 j : Int)) s c + δ ∧
      (t : Int) ∣ δ ∧ δ.natAbs ≤ qL * t * (1 + ∑ k ∈ range n, (s k).natAbs) := by
  have hD : ∀ X : Nat, (t : Int) ∣ ((qL : Int) * c05u_bgvY t qL invt X - X) ∧
      ((qL : Int) * c05u_bgvY t qL invt X - X).natAbs ≤ qL * t := by
    intro X
    obtain ⟨δ, h1, h2, h3, h4⟩ := c05u_bgvY_facts ht hqL hinvt X
    have : (qL : Int) * c05u_bgvY t qL invt X - X = δ := by rw [h1]; ring
    rw [this]
    exact ⟨h2, by omega⟩
  exact ⟨c05u_phase2 n (fun j => (qL : Int) * c05u_bgvY t qL invt (X0 j) - X0 j)
      (fun j => (qL : Int) * c05u_bgvY t qL invt (X1 j) - X1 j) s c,
    c05u_phase2_switch n qL _ _ _ _ _ _ s (fun j _ => by ring) (fun j _ => by ring) c hc,
    c05u_phase2_dvd n t _ _ s c hc (fun j _ => (hD (X0 j)).1) (fun j _ => (hD (X1 j)).1),
    c05u_phase2_bound n _ _ s (qL * t) c hc (fun j _ => (hD (X0 j)).2) (fun j _ => (hD (X1 j)).2)⟩

/-- U2, MESSAGE (BGV, size 2): if the old phase is ≡ cf·m (mod t) then the new phase is ≡ cf'·m with the model's new correction
    factor cf' = cf·q_L^{-1} mod t (`C05.bgv_switch_message`) -/
theorem c05u_bgv_message2 (n : Nat) {t qL invt : Nat} (ht : 0 < t) (hqL : 0 < qL) (hinvt : (invt * qL) % t = 1)
    (X0 X1 : Nat → Nat) (s : Nat → Int) (c : Nat) (hc : c < n) (cf : Nat) (m : Int)
    (hm : c05u_phase2 n (fun j => (X0 j : Int)) (fun j => (X1 j : Int)) s c ≡ cf * m [ZMOD t]) :
    c05u_phase2 n (fun j => c05u_bgvY t qL invt (X0 j)) (fun j => c05u_bgvY t qL invt (X1 j)) s c
      ≡ (((cf * invt) % t : Nat) : Int) * m [ZMOD t] := by
  obtain ⟨δ, h1, h2, -⟩ := c05u_bgv_phase2 n ht hqL hinvt X0 X1 s c hc
  refine bgv_switch_message (qL := qL) (δ := δ) (f := cf) (iq := invt) ?_ h1.symm (inv_cast hinvt) ?_ hm
  · exact (Int.modEq_zero_iff_dvd).mpr h2
  · have := cast_mod_modEq (cf * invt) t
    push_cast at this ⊢
    exact this

/-! ## U4, instances for CKKS rescaling and BGV switching -/

/-- U4 for CKKS `rescale_to` -/
theorem c05u_switchTo_scale_ckks {chain : Nat → Level} {top : Nat} (hch : c05u_ChainOK chain top)
    (hwf : ∀ c, c ≤ top → (chain c).WF) {cur tgt : Nat}
    (hcur : cur ≤ top) (ht : tgt ≤ cur) {ct : Ct} (hc : c05u_CtCanon (chain cur) ct) (hn : ct.ntt = true)
    (hs : ∀ c, c ≤ top → (chain c).scheme = .ckks) :
    ∃ ct', c05u_switchTo modSwitchScaleNext chain cur tgt ct = .ok ct' ∧ c05u_CtCanon (chain tgt) ct' ∧
      ct'.ntt = true ∧ ct'.cf = ct.cf ∧ ct'.polys.size = ct.polys.size := by
  have key := c05u_switchTo_inv modSwitchScaleNext chain
    (fun c x => c ≤ top ∧ c05u_CtCanon (chain c) x ∧ x.ntt = true ∧ x.cf = ct.cf ∧ x.polys.size = ct.polys.size) (tgt := tgt)
    (fun c x _ hi => by
      obtain ⟨h1, h2, h3, h4, h5⟩ := hi
      obtain ⟨x', e1, e2, e3, e4, e5⟩ := c05u_scale_ckks (hwf _ h1) (hch.tool (c + 1) h1) (c05u_chain_size hch (by omega))
        (hs _ h1) h3 h2
      refine ⟨x', e1, by omega, fun k hk => ?_, e3, by rw [e4, h4], by rw [e2, h5]⟩
      rw [e2] at hk
      exact c05u_roundDivNtt_canon (hch.next c (by omega)) (e5 k hk))
    cur ht ct ⟨hcur, hc, hn, rfl, rfl⟩
  obtain ⟨ct', h1, -, h2⟩ := key
  exact ⟨ct', h1, h2⟩

/-- U4 for BGV `mod_switch_to`: the correction factor stays a reduced residue of t -/
theorem c05u_switchTo_scale_bgv {chain : Nat → Level} {top : Nat} (hch : c05u_ChainOK chain top)
    (hwf : ∀ c, c ≤ top → (chain c).WF) (hbg : ∀ c, c ≤ top → c05u_BgvOK (chain c)) {cur tgt : Nat}
    (hcur : cur ≤ top) (ht : tgt ≤ cur) {ct : Ct} (hc : c05u_CtCanon (chain cur) ct) (hn : ct.ntt = true) (hcf : ct.cf < 2^64)
    (hs : ∀ c, c ≤ top → (chain c).scheme = .bgv) :
    ∃ ct', c05u_switchTo modSwitchScaleNext chain cur tgt ct = .ok ct' ∧ c05u_CtCanon (chain tgt) ct' ∧
      ct'.ntt = true ∧ ct'.cf < 2^64 ∧ ct'.polys.size = ct.polys.size := by
  have key := c05u_switchTo_inv modSwitchScaleNext chain
    (fun c x => c ≤ top ∧ c05u_CtCanon (chain c) x ∧ x.ntt = true ∧ x.cf < 2^64 ∧ x.polys.size = ct.polys.size) (tgt := tgt)
    (fun c x _ hi => by
      obtain ⟨h1, h2, h3, h4, h5⟩ := hi
      obtain ⟨x', e1, e2, e3, e4, e5⟩ := c05u_scale_bgv (hwf _ h1) (hch.tool (c + 1) h1) (hbg _ h1)
        (c05u_chain_size hch (by omega)) (hs _ h1) h3 h4 h2
      refine ⟨x', e1, by omega, fun k hk => ?_, e3, ?_, by rw [e2, h5]⟩
      · rw [e2] at hk
        exact c05u_bgvDivNtt_canon (hch.next c (by omega)) (e5 k hk)
      · rw [e4]
        have h61 := (hbg _ h1).twf.lt
        have := Nat.mod_lt (x.cf * (chain (c + 1)).tool.invQLastModT) (show 0 < (chain (c + 1)).t.value by
          have := (hbg _ h1).twf.two_le; omega)
        omega)
    cur ht ct ⟨hcur, hc, hn, hcf, rfl⟩
  obtain ⟨ct', h1, -, h2⟩ := key
  exact ⟨ct', h1, h2⟩

/-! ## satisfiability of the hypothesis bundles: a concrete two-level chain q = (17, 41), t = 7 -/

def c05u_exMod (v bits : Nat) : Modulus := ⟨v, (2^128 / v) % B64, (2^128 / v) / B64, 2^128 % v, bits⟩

theorem c05u_exMod_wf (v bits : Nat) (h2 : 2 ≤ v) (h61 : v < 2^61) : (c05u_exMod v bits).WF :=
  ⟨h2, h61, Nat.mod_add_div _ _, Nat.mod_lt _ B64_pos, rfl⟩

def c05u_exOp (x q : Nat) : MulOperand := ⟨x, x * 2^64 / q⟩

def c05u_exBase2 : RNSBase :=
  ⟨#[c05u_exMod 17 5, c05u_exMod 41 6], 697, #[41, 17], #[c05u_exOp 5 17, c05u_exOp 29 41]⟩
def c05u_exBase1 : RNSBase := ⟨#[c05u_exMod 17 5], 17, #[1], #[c05u_exOp 1 17]⟩

theorem c05u_exBase2_wf : c05u_exBase2.WF := by
  have hsz : c05u_exBase2.size = 2 := rfl
  have hcases : ∀ i, i < c05u_exBase2.size → i = 0 ∨ i = 1 := by intro i hi; rw [hsz] at hi; omega
  refine ⟨by rw [hsz]; omega, by rw [hsz]; omega, ?_, rfl, rfl, ?_, ?_, ?_, ?_⟩
  · intro i hi
    rcases hcases i hi with rfl | rfl
    · exact c05u_exMod_wf 17 5 (by norm_num) (by norm_num)
    · exact c05u_exMod_wf 41 6 (by norm_num) (by norm_num)
  · intro i j hi hj hij
    rcases hcases i hi with rfl | rfl <;> rcases hcases j hj with rfl | rfl
    · exact absurd rfl hij
    · show Nat.Coprime 17 41; norm_num
    · show Nat.Coprime 41 17; norm_num
    · exact absurd rfl hij
  · rfl
  · intro i hi
    rcases hcases i hi with rfl | rfl <;> rfl
  · intro i hi
    rcases hcases i hi with rfl | rfl
    · exact ⟨⟨by show 5 < 17; omega, rfl⟩, by decide⟩
    · exact ⟨⟨by show 29 < 41; omega, rfl⟩, by decide⟩

theorem c05u_exBase1_wf : c05u_exBase1.WF := by
  have hsz : c05u_exBase1.size = 1 := rfl
  have hcases : ∀ i, i < c05u_exBase1.size → i = 0 := by intro i hi; rw [hsz] at hi; omega
  refine ⟨by rw [hsz]; omega, by rw [hsz]; omega, ?_, rfl, rfl, ?_, ?_, ?_, ?_⟩
  · intro i hi
    rw [hcases i hi]
    exact c05u_exMod_wf 17 5 (by norm_num) (by norm_num)
  · intro i j hi hj hij
    rw [hcases i hi, hcases j hj] at hij
    exact absurd rfl hij
  · rfl
  · intro i hi
    rw [hcases i hi]; rfl
  · intro i hi
    rw [hcases i hi]
    exact ⟨⟨by show 1 < 17; omega, rfl⟩, by decide⟩

def c05u_exTool (b : RNSBase) (ops : Array MulOperand) (invt : Nat) : RNSTool :=
  { (default : RNSTool) with baseQ := b, n := 4, t := c05u_exMod 7 3, invQLastModQ := ops, invQLastModT := invt }

/-- the two levels of the example chain (only the fields modulus switching reads are filled in) -/
def c05u_exLevel (s : Scheme) : Nat → Level
  | 0 => { scheme := s, n := 4, k := 2, qs := #[c05u_exMod 17 5], t := c05u_exMod 7 3, tables := #[],
           tool := c05u_exTool c05u_exBase1 #[] 5 }
  | _ => { scheme := s, n := 4, k := 2, qs := #[c05u_exMod 17 5, c05u_exMod 41 6], t := c05u_exMod 7 3, tables := #[],
           tool := c05u_exTool c05u_exBase2 #[c05u_exOp 5 17] 6 }

theorem c05u_exTool1 (s : Scheme) : c05u_ToolOK (c05u_exLevel s 1) := by
  refine ⟨c05u_exBase2_wf, rfl, rfl, ?_⟩
  intro i hi
  have : i = 0 := by have : (c05u_exLevel s 1).size = 2 := rfl; omega
  subst this
  exact ⟨⟨by show 5 < 17; omega, rfl⟩, by show (5 * 41) % 17 = 1; decide⟩

theorem c05u_exTool0 (s : Scheme) : c05u_ToolOK (c05u_exLevel s 0) := by
  refine ⟨c05u_exBase1_wf, rfl, rfl, ?_⟩
  intro i hi
  have : (c05u_exLevel s 0).size = 1 := rfl
  omega

/-- `c05u_ToolOK`, `c05u_IsNext`, `c05u_ChainOK` are satisfiable (a chain with two levels) -/
theorem c05u_exChain (s : Scheme) : c05u_ChainOK (c05u_exLevel s) 1 := by
  refine ⟨fun c hc => ?_, fun c hc => ?_⟩
  · have : c = 0 := by omega
    subst this
    refine ⟨rfl, rfl, fun i hi => ?_⟩
    have : i = 0 := by have : (c05u_exLevel s 0).size = 1 := rfl; omega
    subst this; rfl
  · have : c = 0 ∨ c = 1 := by omega
    rcases this with rfl | rfl
    · exact c05u_exTool0 s
    · exact c05u_exTool1 s

/-- `c05u_BgvOK` is satisfiable: t = 7, 41^{-1} = 6 (mod 7) -/
theorem c05u_exBgv (s : Scheme) : c05u_BgvOK (c05u_exLevel s 1) :=
  ⟨rfl, c05u_exMod_wf 7 3 (by norm_num) (by norm_num), by show 6 < 7; omega, by show (6 * 41) % 7 = 1; decide⟩

def c05u_exCt : Ct := ⟨#[#[#[1, 2, 3, 4], #[5, 6, 7, 40]], #[#[16, 0, 9, 4], #[0, 33, 7, 8]]], false, 1⟩

theorem c05u_exCt_canon : c05u_CtCanon (c05u_exLevel .bfv 1) c05u_exCt := by
  intro k hk
  have : k = 0 ∨ k = 1 := by have : c05u_exCt.polys.size = 2 := rfl; omega
  rcases this with rfl | rfl
  · unfold RnsCanon; decide
  · unfold RnsCanon; decide

/-- the hypotheses of the BFV theorem are simultaneously satisfiable: a concrete instance of `c05u_scale_bfv` -/
example : ∃ ct', modSwitchScaleNext (c05u_exLevel .bfv 1) c05u_exCt = .ok ct' ∧ ct'.polys.size = 2 ∧ ct'.ntt = false ∧ ct'.cf = 1 ∧
    ∀ k, k < 2 → c05u_RoundDivOf (c05u_exLevel .bfv 1) (c05u_exCt.polys.getD k #[]) (ct'.polys.getD k #[]) :=
  c05u_scale_bfv (c05u_exTool1 .bfv) (by decide) rfl rfl c05u_exCt_canon

/-! ## Property theorems -/

/-- U1 (BFV `mod_switch_to_next`): for a canonical coefficient-form ciphertext at a level with ≥ 2 moduli the model returns a
    ciphertext with the same number of polynomials, coefficient form, same correction factor, `l.size - 1` components of `l.n`
    coefficients, and coefficient j of component i of polynomial k equals ⌊(X + q_L/2)/q_L⌋ mod q_i for the CRT value X of the
    source coefficient (`c05u_RoundDivOf`); a CRT value exists and is unique (`c05u_crt_exists`, `c05u_crt_unique`) -/
theorem modSwitchScaleNext_bfv_spec {l : Level} (h : c05u_ToolOK l) (h2 : 2 ≤ l.size) (hs : l.scheme = .bfv) {ct : Ct}
    (hn : ct.ntt = false) (hc : c05u_CtCanon l ct) :
    ∃ ct', modSwitchScaleNext l ct = .ok ct' ∧ ct'.polys.size = ct.polys.size ∧ ct'.ntt = false ∧ ct'.cf = ct.cf ∧
      ∀ k, k < ct.polys.size → c05u_RoundDivOf l (ct.polys.getD k #[]) (ct'.polys.getD k #[]) :=
  c05u_scale_bfv h h2 hs hn hc

/-- U1 (CKKS `rescale_to_next`): NTT-form input and output; the output is canonical and its coefficient form (INTT) is the rounding
    division of the CRT value of the input's coefficient form (`c05u_RoundDivOfNtt`) -/
theorem modSwitchScaleNext_ckks_spec {l : Level} (hl : l.WF) (h : c05u_ToolOK l) (h2 : 2 ≤ l.size) (hs : l.scheme = .ckks) {ct : Ct}
    (hn : ct.ntt = true) (hc : c05u_CtCanon l ct) :
    ∃ ct', modSwitchScaleNext l ct = .ok ct' ∧ ct'.polys.size = ct.polys.size ∧ ct'.ntt = true ∧ ct'.cf = ct.cf ∧
      ∀ k, k < ct.polys.size → c05u_RoundDivOfNtt l (ct.polys.getD k #[]) (ct'.polys.getD k #[]) :=
  c05u_scale_ckks hl h h2 hs hn hc

/-- U2 (BGV `mod_switch_to_next`): NTT-form input and output, new correction factor cf·q_L^{-1} mod t, the output is canonical and
    its coefficient form is Y mod q_i, Y = (X − [X]_{q_L})/q_L − [−X·q_L^{-1}]_t (`c05u_BgvDivOfNtt`, `c05u_bgvY`) -/
theorem modSwitchScaleNext_bgv_spec {l : Level} (hl : l.WF) (h : c05u_ToolOK l) (hg : c05u_BgvOK l) (h2 : 2 ≤ l.size)
    (hs : l.scheme = .bgv) {ct : Ct} (hn : ct.ntt = true) (hcf : ct.cf < 2^64) (hc : c05u_CtCanon l ct) :
    ∃ ct', modSwitchScaleNext l ct = .ok ct' ∧ ct'.polys.size = ct.polys.size ∧ ct'.ntt = true ∧
      ct'.cf = (ct.cf * l.tool.invQLastModT) % l.t.value ∧
      ∀ k, k < ct.polys.size → c05u_BgvDivOfNtt l (ct.polys.getD k #[]) (ct'.polys.getD k #[]) :=
  c05u_scale_bgv hl h hg h2 hs hn hcf hc

/-- the results of the three divisions are canonical ciphertexts of the next level -/
theorem modSwitchScaleNext_next_canon {l l' : Level} (h : c05u_ToolOK l) (hn : c05u_IsNext l l') {p o : RnsPoly} :
    (RnsCanon l p → c05u_RoundDivOf l p o → RnsCanon l' o) ∧ (c05u_RoundDivOfNtt l p o → RnsCanon l' o) ∧
    (c05u_BgvDivOfNtt l p o → RnsCanon l' o) :=
  ⟨fun hp ho => c05u_roundDiv_canon h hn hp ho, fun ho => c05u_roundDivNtt_canon hn ho, fun ho => c05u_bgvDivNtt_canon hn ho⟩

/-- U1, phase level (size 2, integer polynomials, any secret s): q_L·phase(ct') = phase(ct) + ρ, 2‖ρ‖∞ ≤ q_L·(1 + ‖s‖₁) -/
theorem modSwitchScaleNext_round_phase (n qL : Nat) (hq : 0 < qL) (X0 X1 : Nat → Nat) (s : Nat → Int) (c : Nat) (hc : c < n) :
    ∃ ρ : Int,
      (qL : Int) * c05u_phase2 n (fun j => (((X0 j + qL / 2) / qL : Nat) : Int)) (fun j => (((X1 j + qL / 2) / qL : Nat) : Int)) s c
        = c05u_phase2 n (fun j => (X0 j : Int)) (fun j => (X1 j : Int)) s c + ρ ∧
      2 * ρ.natAbs ≤ qL * (1 + ∑ k ∈ range n, (s k).natAbs) :=
  c05u_round_phase2 n qL hq X0 X1 s c hc

/-- U2, phase level (size 2): q_L·phase(ct') = phase(ct) + δ with t ∣ δ, ‖δ‖∞ ≤ q_L·t·(1 + ‖s‖₁) -/
theorem modSwitchScaleNext_bgv_phase (n : Nat) {t qL invt : Nat} (ht : 0 < t) (hqL : 0 < qL) (hinvt : (invt * qL) % t = 1)
    (X0 X1 : Nat → Nat) (s : Nat → Int) (c : Nat) (hc : c < n) :
    ∃ δ : Int,
      (qL : Int) * c05u_phase2 n (fun j => c05u_bgvY t qL invt (X0 j)) (fun j => c05u_bgvY t qL invt (X1 j)) s c
        = c05u_phase2 n (fun j => (X0 j : Int)) (fun j => (X1 j : Int)) s c + δ ∧
      (t : Int) ∣ δ ∧ δ.natAbs ≤ qL * t * (1 + ∑ k ∈ range n, (s k).natAbs) :=
  c05u_bgv_phase2 n ht hqL hinvt X0 X1 s c hc

/-- U2, message preservation: phase ≡ cf·m (mod t) before ⇒ phase' ≡ cf'·m (mod t) after, cf' the model's new correction factor -/
theorem modSwitchScaleNext_bgv_message (n : Nat) {t qL invt : Nat} (ht : 0 < t) (hqL : 0 < qL) (hinvt : (invt * qL) % t = 1)
    (X0 X1 : Nat → Nat) (s : Nat → Int) (c : Nat) (hc : c < n) (cf : Nat) (m : Int)
    (hm : c05u_phase2 n (fun j => (X0 j : Int)) (fun j => (X1 j : Int)) s c ≡ cf * m [ZMOD t]) :
    c05u_phase2 n (fun j => c05u_bgvY t qL invt (X0 j)) (fun j => c05u_bgvY t qL invt (X1 j)) s c
      ≡ (((cf * invt) % t : Nat) : Int) * m [ZMOD t] :=
  c05u_bgv_message2 n ht hqL hinvt X0 X1 s c hc cf m hm

/-- REFUSALS of `modSwitchScaleNext`: last level; BFV in NTT form; CKKS / BGV in coefficient form -/
theorem modSwitchScaleNext_refusals {l : Level} (ct : Ct) :
    (l.size < 2 → modSwitchScaleNext l ct = .error .refused) ∧
    (l.scheme = .bfv → ct.ntt = true → modSwitchScaleNext l ct = .error .refused) ∧
    (l.scheme = .ckks → ct.ntt = false → modSwitchScaleNext l ct = .error .refused) ∧
    (l.scheme = .bgv → ct.ntt = false → modSwitchScaleNext l ct = .error .refused) :=
  ⟨c05u_scale_refuse_last ct, c05u_scale_refuse_bfv_ntt, c05u_scale_refuse_ckks_coeff, c05u_scale_refuse_bgv_coeff⟩

/-- U3 (`mod_switch_drop_to_next`): succeeds (for CKKS: on NTT form), same number of polynomials, representation and correction
    factor, one component fewer, every remaining residue unchanged, canonical at the next level -/
theorem modSwitchDropNext_spec {l : Level} {ct : Ct} (h2 : 2 ≤ l.size) (hs : l.scheme = .ckks → ct.ntt = true)
    (hc : c05u_CtCanon l ct) :
    ∃ ct', modSwitchDropNext l ct = .ok ct' ∧ ct'.polys.size = ct.polys.size ∧ ct'.ntt = ct.ntt ∧ ct'.cf = ct.cf ∧
      (∀ k, k < ct.polys.size → (ct'.polys.getD k #[]).size = l.size - 1 ∧
        ∀ i, i < l.size - 1 → (ct'.polys.getD k #[]).getD i #[] = (ct.polys.getD k #[]).getD i #[]) ∧
      ∀ l', c05u_IsNext l l' → c05u_CtCanon l' ct' :=
  ⟨c05u_dropCt l ct, c05u_drop_ok h2 hs, (c05u_dropCt_shape hc h2).1, (c05u_dropCt_shape hc h2).2.1,
    (c05u_dropCt_shape hc h2).2.2.1, (c05u_dropCt_shape hc h2).2.2.2, fun _ hn => c05u_dropCt_canon hn hc⟩

/-- U3, value: the CRT value of every coefficient after the drop is the old one modulo Q' = Q/q_L, so the phase is unchanged mod Q' -/
theorem modSwitchDropNext_crt {l l' : Level} (h' : c05u_ToolOK l') (hn : c05u_IsNext l l')
    {p : RnsPoly} (hp : p.size = l.size) {j X : Nat} (hX : c05u_IsCrt l p j X) :
    c05u_IsCrt l' (p.extract 0 (l.size - 1)) j (X % c05u_Q l') :=
  c05u_drop_crt h' hn hp hX

/-- REFUSALS of `modSwitchDropNext`: last level; CKKS in coefficient form -/
theorem modSwitchDropNext_refusals {l : Level} (ct : Ct) :
    (l.size < 2 → modSwitchDropNext l ct = .error .refused) ∧
    (l.scheme = .ckks → ct.ntt = false → modSwitchDropNext l ct = .error .refused) :=
  ⟨c05u_drop_refuse_last ct, c05u_drop_refuse_ckks⟩

/-- U4: the level walk along `switchSteps` refuses upward targets, is the identity on the current level, and otherwise is one
    step at the current level followed by the walk from the level below (iterating "next") -/
theorem switchTo_walk (step : Level → Ct → R Ct) (chain : Nat → Level) (cur tgt : Nat) (ct : Ct) :
    (cur < tgt → c05u_switchTo step chain cur tgt ct = .error .refused) ∧
    (c05u_switchTo step chain cur cur ct = .ok ct) ∧
    (tgt < cur → c05u_switchTo step chain cur tgt ct =
      (do let c ← step (chain cur) ct; c05u_switchTo step chain (cur - 1) tgt c)) :=
  ⟨fun h => c05u_switchTo_up step chain h ct, c05u_switchTo_self step chain cur ct,
    fun h => c05u_switchTo_step step chain h ct⟩

/-- U4: on a well-formed chain every downward walk succeeds and ends exactly on the target level (canonical there), for the plain
    drop and for the three scheme-specific switches -/
theorem switchTo_ends_on_target {chain : Nat → Level} {top : Nat} (hch : c05u_ChainOK chain top) {cur tgt : Nat}
    (hcur : cur ≤ top) (ht : tgt ≤ cur) {ct : Ct} (hc : c05u_CtCanon (chain cur) ct) :
    ((∀ c, c ≤ top → (chain c).scheme = .ckks → ct.ntt = true) →
      ∃ ct', c05u_switchTo modSwitchDropNext chain cur tgt ct = .ok ct' ∧ c05u_CtCanon (chain tgt) ct' ∧
        ct'.ntt = ct.ntt ∧ ct'.cf = ct.cf ∧ ct'.polys.size = ct.polys.size) ∧
    ((∀ c, c ≤ top → (chain c).scheme = .bfv) → ct.ntt = false →
      ∃ ct', c05u_switchTo modSwitchScaleNext chain cur tgt ct = .ok ct' ∧ c05u_CtCanon (chain tgt) ct' ∧
        ct'.ntt = false ∧ ct'.cf = ct.cf ∧ ct'.polys.size = ct.polys.size) ∧
    ((∀ c, c ≤ top → (chain c).WF) → (∀ c, c ≤ top → (chain c).scheme = .ckks) → ct.ntt = true →
      ∃ ct', c05u_switchTo modSwitchScaleNext chain cur tgt ct = .ok ct' ∧ c05u_CtCanon (chain tgt) ct' ∧
        ct'.ntt = true ∧ ct'.cf = ct.cf ∧ ct'.polys.size = ct.polys.size) ∧
    ((∀ c, c ≤ top → (chain c).WF) → (∀ c, c ≤ top → c05u_BgvOK (chain c)) → (∀ c, c ≤ top → (chain c).scheme = .bgv) →
      ct.ntt = true → ct.cf < 2^64 →
      ∃ ct', c05u_switchTo modSwitchScaleNext chain cur tgt ct = .ok ct' ∧ c05u_CtCanon (chain tgt) ct' ∧
        ct'.ntt = true ∧ ct'.cf < 2^64 ∧ ct'.polys.size = ct.polys.size) :=
  ⟨fun hs => c05u_switchTo_drop hch hcur ht hc hs,
   fun hs hn => c05u_switchTo_scale_bfv hch hcur ht hc hn hs,
   fun hwf hs hn => c05u_switchTo_scale_ckks hch hwf hcur ht hc hn hs,
   fun hwf hbg hs hn hcf => c05u_switchTo_scale_bgv hch hwf hbg hcur ht hc hn hcf hs⟩

end HC
