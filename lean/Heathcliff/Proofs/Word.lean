/-
  Helper lemmas for C08 (layers L0–L2 of DESIGN.md §5): the single-word modular primitives.
-/
import Heathcliff.Model.Word
import Mathlib.Tactic.Ring
import Mathlib.Tactic.Linarith
import Mathlib.Tactic.NormNum

namespace HC

theorem B64_eq : B64 = 2^64 := by norm_num [B64]
theorem B64_pos : 0 < B64 := by norm_num [B64]

/-- well-formed modulus: what `Modulus::new` establishes -/
structure Modulus.WF (m : Modulus) : Prop where
  two_le : 2 ≤ m.value
  lt : m.value < 2^61
  ratio : m.cr0 + B64 * m.cr1 = 2^128 / m.value
  cr0_lt : m.cr0 < B64
  cr2 : m.cr2 = 2^128 % m.value

theorem Modulus.mk?_wf {v : Nat} {m : Modulus} (h : Modulus.mk? v = .ok m) (hv : v ≠ 0) : m.WF ∧ m.value = v := by
  unfold Modulus.mk? at h
  rw [if_neg hv] at h
  split at h
  · cases h
  · rename_i hc
    have hc' : v / 2^61 = 0 ∧ v ≠ 1 := by
      constructor
      · by_contra h1; exact hc (Or.inl h1)
      · intro h1; exact hc (Or.inr h1)
    injection h with h
    subst h
    have hlt : v < 2^61 := by
      rcases Nat.div_eq_zero_iff.mp hc'.1 with h0 | h0
      · norm_num at h0
      · exact h0
    refine ⟨⟨by show 2 ≤ v; omega, hlt, ?_, ?_, rfl⟩, rfl⟩
    · show 2^128 / v % B64 + B64 * (2^128 / v / B64) = 2^128 / v
      exact Nat.mod_add_div _ _
    · exact Nat.mod_lt _ B64_pos

theorem Modulus.WF.cr1_eq {m : Modulus} (h : m.WF) : m.cr1 = 2^64 / m.value := by
  have h1 := h.ratio
  have h2 := h.cr0_lt
  have : m.cr1 = (2^128 / m.value) / B64 := by
    rw [← h1]
    rw [Nat.add_comm, Nat.mul_add_div B64_pos, Nat.div_eq_of_lt h2]; simp
  rw [this, B64_eq, Nat.div_div_eq_div_mul, Nat.mul_comm, ← Nat.div_div_eq_div_mul]
  norm_num

end HC
