import Heathcliff.Proofs.GenEval2

/-!
  Translator phase 4l (C05): NTT-form PLAINTEXTS down the modulus chain.  `Evaluator::mod_switch_drop_to_next_plain_internal` and
  `Evaluator::mod_switch_plain_to_inplace` are regenerated from src/evaluator.rs (Gen/EvalFns.lean, skeleton mode) and proved equal to
  `plainDropNextWords` / `plainSwitchToPlan` of Model/Evaluator.lean; the data of the walk is the truncation of the source to the target
  level's RNS components on EVERY chain whose prime counts do not grow downwards (in particular on short BFV / BGV chains, where the
  chain index of a level is not its prime count minus one).  Helper names start with `gq_`.
-/
namespace HC
open HC.GenW

/-- `Evaluator::mod_switch_drop_to_next_plain_internal` = `plainDropNextWords`: the three refusals in the code's order, then the word count -/
theorem gq_plain_drop_next_eq (ntt hasNext okNext : Bool) (n k : Nat) :
    GenE.mod_switch_drop_to_next_plain_internal ntt hasNext okNext n k = plainDropNextWords ntt hasNext okNext n k := by
  unfold GenE.mod_switch_drop_to_next_plain_internal plainDropNextWords
  cases ntt <;> cases hasNext <;> cases okNext <;> simp [gy_pure_eq, bind, Except.bind]
  cases ckMul n k <;> rfl

theorem gq_plain_walk_loop_eq (tgt : Nat) : ∀ (fuel cur : Nat) (trace : List Nat), tgt ≤ cur → cur - tgt < fuel →
    GenE.mod_switch_plain_to_inplace_loop1 true tgt trace fuel cur = .ok (trace ++ (List.range (cur - tgt)).map (fun i => cur - 1 - i)) := by
  intro fuel
  induction fuel with
  | zero => intro cur trace _ h; omega
  | succ n ih =>
    intro cur trace hle hf
    rw [GenE.mod_switch_plain_to_inplace_loop1]
    by_cases hc : cur = tgt
    · subst hc; simp [gy_pure_eq]
    · have h1 : 1 ≤ cur := by omega
      have h0 : cur ≠ 0 := by omega
      have hs : ckSub cur 1 = .ok (cur - 1) := by unfold ckSub; rw [if_pos h1]
      simp only [ne_eq, hc, not_false_eq_true, if_true, h0, hs, gy_ok_bind]
      rw [ih (cur - 1) _ (by omega) (by omega)]
      have : cur - tgt = (cur - 1 - tgt) + 1 := by omega
      rw [this, List.range_succ_eq_map, List.map_cons, List.map_map, List.append_assoc]
      rw [List.singleton_append, Nat.sub_zero]
      refine congrArg (fun l => (Except.ok (trace ++ (cur - 1) :: l) : R (List Nat))) ?_
      apply List.map_congr_left
      intro i _
      simp only [Function.comp]; omega

/-- with an INVALID object the loop refuses at its first iteration (and returns the empty trace when there is nothing to do) -/
theorem gq_plain_walk_loop_invalid (tgt fuel cur : Nat) (trace : List Nat) (hne : cur ≠ tgt) :
    GenE.mod_switch_plain_to_inplace_loop1 false tgt trace (fuel + 1) cur = .error .refused := by
  rw [GenE.mod_switch_plain_to_inplace_loop1]; simp [hne]

/-- `Evaluator::mod_switch_plain_to_inplace` (decision skeleton over chain indices) = `plainSwitchToPlan` -/
theorem gq_mod_switch_plain_to_eq (valid ntt : Bool) (cur tgt : Nat) (hc : cur < 2^64) :
    GenE.mod_switch_plain_to_inplace valid ntt cur tgt = plainSwitchToPlan valid ntt cur tgt := by
  unfold GenE.mod_switch_plain_to_inplace plainSwitchToPlan switchSteps
  cases ntt
  · simp
  · by_cases h : cur < tgt
    · simp [h]
    · by_cases he : cur = tgt
      · subst he
        simp only [Nat.lt_irrefl, if_false, if_true, Bool.true_eq_false, not_true_eq_false, not_false_eq_true, gy_pure_eq]
        rw [show (18446744073709551616 : Nat) = 18446744073709551615 + 1 from rfl, GenE.mod_switch_plain_to_inplace_loop1]
        simp [gy_pure_eq]
      · cases valid
        · simp only [h, he, if_false, if_true, Bool.true_eq_false, not_true_eq_false, not_false_eq_true]
          rw [show (18446744073709551616 : Nat) = 18446744073709551615 + 1 from rfl]
          exact gq_plain_walk_loop_invalid tgt _ cur [] he
        · simp only [h, he, if_false, if_true, Bool.true_eq_false, not_true_eq_false, not_false_eq_true, gy_pure_eq]
          rw [gq_plain_walk_loop_eq tgt _ cur _ (by omega) (by omega)]
          simp

/-! ### the data of the walk -/

theorem gq_resize_take (d : List Nat) (m : Nat) (h : m ≤ d.length) : resizeWords d m = d.take m := by
  unfold resizeWords; rw [Nat.sub_eq_zero_of_le h]; simp

/-- walking `j` levels down from `cur`: on a chain whose prime counts do not grow downwards (`kc i ≤ kc (i + 1)`), a buffer of
    `n · kc cur` words becomes its first `n · kc (cur − j)` words -/
theorem gq_plain_walk_data (kc : Nat → Nat) (n : Nat) (hmono : ∀ i, kc i ≤ kc (i + 1)) (cur : Nat) (d : List Nat)
    (hd : d.length = n * kc cur) : ∀ j, j ≤ cur →
    plainWalkData kc n d ((List.range j).map (fun i => cur - 1 - i)) = d.take (n * kc (cur - j)) := by
  have hle : ∀ a b, a ≤ b → kc a ≤ kc b := by
    intro a b hab
    induction hab with
    | refl => exact Nat.le_refl _
    | step _ ih => exact Nat.le_trans ih (hmono _)
  intro j
  induction j with
  | zero => intro _; simp [plainWalkData, ← hd]
  | succ j ih =>
    intro hj
    rw [List.range_succ, List.map_append, plainWalkData, List.foldl_append]
    have := ih (by omega)
    unfold plainWalkData at this
    rw [this]
    simp only [List.map_cons, List.map_nil, List.foldl_cons, List.foldl_nil]
    have e : cur - 1 - j = cur - (j + 1) := by omega
    rw [e]
    have h1 : n * kc (cur - (j + 1)) ≤ n * kc (cur - j) := Nat.mul_le_mul_left _ (hle _ _ (by omega))
    have h2 : n * kc (cur - j) ≤ d.length := by rw [hd]; exact Nat.mul_le_mul_left _ (hle _ _ (by omega))
    rw [gq_resize_take _ _ (by rw [List.length_take]; omega)]
    rw [List.take_take]
    congr 1; omega

/-- END TO END for the plaintext walk: whenever the plan of `mod_switch_plain_to_inplace` (= the generated code, `gq_mod_switch_plain_to_eq`)
    succeeds, the walk ends exactly on the target, has `cur − tgt` steps, and the data is the source truncated to the target's components -/
theorem gq_plain_switch_to_data (kc : Nat → Nat) (n : Nat) (hmono : ∀ i, kc i ≤ kc (i + 1)) (valid : Bool) (cur tgt : Nat)
    (d : List Nat) (hd : d.length = n * kc cur) (steps : List Nat) (h : plainSwitchToPlan valid true cur tgt = .ok steps) :
    tgt ≤ cur ∧ steps.length = cur - tgt ∧ (steps.getLast? = none ∨ steps.getLast? = some tgt) ∧
      plainWalkData kc n d steps = d.take (n * kc tgt) := by
  unfold plainSwitchToPlan switchSteps at h
  by_cases hlt : cur < tgt
  · simp [hlt] at h
  · by_cases he : cur = tgt
    · subst he
      simp only [Bool.true_eq_false, if_false, Nat.lt_irrefl, if_true] at h
      cases h
      refine ⟨Nat.le_refl _, by simp, Or.inl rfl, ?_⟩
      simp [plainWalkData, ← hd]
    · cases valid
      · simp [hlt, he] at h
      · simp only [Bool.true_eq_false, if_false, hlt, he] at h
        cases h
        refine ⟨by omega, by simp, Or.inr ?_, ?_⟩
        · have hpos : cur - tgt = (cur - tgt - 1) + 1 := by omega
          rw [hpos, List.range_succ, List.map_append, List.getLast?_append]
          simp; omega
        · have := gq_plain_walk_data kc n hmono cur d hd (cur - tgt) (by omega)
          have e : cur - (cur - tgt) = tgt := by omega
          rw [this, e]

end HC
