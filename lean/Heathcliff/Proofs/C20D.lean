/-
  C20, RNS-plaintext wrapper: evaluating component-wise (one BFV/BGV instance per plain modulus t_i) and merging with the
  CRT computes the operation modulo the product of the plain moduli.  Rests on the C10 theorems about `RNSBase`.
-/
import Heathcliff.Model.Matmul
import Heathcliff.Proofs.C10H

namespace HC
open HC.MM

/-- **CRT for the RNS-plaintext wrapper.**  `op` is any operation compatible with reduction (sum, difference representative,
    product, ...).  Splitting `u`, `v` (`rns_decompose`), applying `op` modulo each `t_i` and merging (`rns_compose`) yields
    `op u v mod Π t_i` — for all `k`-word inputs (they need not be reduced) when there are at least two plain moduli. -/
theorem c20_rnsp_crt {b : RNSBase} (hb : b.WF) (hk : 1 < b.size) (op : Nat → Nat → Nat)
    (hop : ∀ m x y, 0 < m → op (x % m) (y % m) % m = op x y % m)
    {u v : Nat} (hu : u < 2^(64 * b.size)) (hv : v < 2^(64 * b.size)) :
    ∃ ru rv, b.decompose u = .ok ru ∧ b.decompose v = .ok rv ∧
      ∀ rs : Array Nat, rs.size = b.size →
        (∀ i, i < b.size → rs.getD i 0 = op (ru.getD i 0) (rv.getD i 0) % (b.q i).value) →
        b.compose rs = .ok (op u v % b.prod) := by
  obtain ⟨ru, hru, _, hruv⟩ := decompose_spec_of hb hu (Or.inl hk)
  obtain ⟨rv, hrv, _, hrvv⟩ := decompose_spec_of hb hv (Or.inl hk)
  refine ⟨ru, rv, hru, hrv, ?_⟩
  intro rs hs hrs
  have hpos : ∀ i, i < b.size → 0 < (b.q i).value := fun i hi => by have := (hb.mwf i hi).two_le; omega
  obtain ⟨x, hx, hxlt, hxr⟩ := compose_spec hb hs (by
    intro i hi
    rw [hrs i hi]
    exact Nat.mod_lt _ (hpos i hi))
  have : x = op u v % b.prod := by
    apply crt_unique hb hxlt (Nat.mod_lt _ hb.prod_pos)
    intro i hi
    rw [hxr i hi, hrs i hi, hruv i hi, hrvv i hi, Nat.mod_mod, hop _ _ _ (hpos i hi),
      Nat.mod_mod_of_dvd _ (hb.q_dvd_prod hi)]
  rw [hx, this]

/-- the same for a unary operation (negation) -/
theorem c20_rnsp_crt1 {b : RNSBase} (hb : b.WF) (hk : 1 < b.size) (op : Nat → Nat)
    (hop : ∀ m x, 0 < m → op (x % m) % m = op x % m) {u : Nat} (hu : u < 2^(64 * b.size)) :
    ∃ ru, b.decompose u = .ok ru ∧
      ∀ rs : Array Nat, rs.size = b.size → (∀ i, i < b.size → rs.getD i 0 = op (ru.getD i 0) % (b.q i).value) →
        b.compose rs = .ok (op u % b.prod) := by
  obtain ⟨ru, _, hru, _, h⟩ := c20_rnsp_crt hb hk (fun x _ => op x) (fun m x _ hm => hop m x hm) hu hu
  exact ⟨ru, hru, h⟩

/-- split then merge is reduction modulo the product (values need not be reduced beforehand) -/
theorem c20_rnsp_split_merge {b : RNSBase} (hb : b.WF) (hk : 1 < b.size) {u : Nat} (hu : u < 2^(64 * b.size)) :
    ∃ ru, b.decompose u = .ok ru ∧ b.compose ru = .ok (u % b.prod) := by
  obtain ⟨ru, hru, hsz, hruv⟩ := decompose_spec_of hb hu (Or.inl hk)
  obtain ⟨ru', hru', h⟩ := c20_rnsp_crt1 hb hk (fun x => x) (fun m x _ => Nat.mod_mod _ _) hu
  rw [hru] at hru'
  cases hru'
  refine ⟨ru, hru, h ru hsz ?_⟩
  intro i hi
  have hpos : 0 < (b.q i).value := by have := (hb.mwf i hi).two_le; omega
  rw [hruv i hi, Nat.mod_mod]

end HC
