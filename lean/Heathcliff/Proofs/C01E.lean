/- C01 part E: ENCRYPTION in the model (Heathcliff/Model/Encrypt.lean).
   E1  values of `encryptZeroAsym` / `encryptZeroSym` in coefficient form (BFV): every component is the negacyclic product
       with the drawn polynomial plus the error, modulo q_i;
   E2  the exact phase of the fresh ciphertext modulo Q: Δ(m) − e·u + e0 + e1·s (public key), Δ(m) − e (secret key);
   E3  END TO END (BFV): `bfvDecrypt l sk (bfvEncrypt … m) = .ok (trimPlain (m padded to N))`.
   All helper names carry the prefix `c01e_`. -/
import Heathcliff.Model.Encrypt
import Heathcliff.Proofs.C04R
import Heathcliff.Proofs.C02X
import Heathcliff.Proofs.GenScalingSpec
import Mathlib.Tactic.Ring
import Mathlib.Tactic.Linarith
import Mathlib.Tactic.LinearCombination
namespace HC
open Finset Polynomial

/-! ## helpers -/

/-- the first `l.size` components are canonical (a key-level polynomial used at a lower level) -/
def PreCanon (l : Level) (p : RnsPoly) : Prop :=
  ∀ i, i < l.size → (p.getD i #[]).size = l.n ∧ ∀ j, j < l.n → (p.getD i #[]).getD j 0 < (l.q i).value

theorem RnsCanon.pre {l : Level} {p : RnsPoly} (h : RnsCanon l p) : PreCanon l p := h.2

/-- RNS encoding of a small signed polynomial (what `sample::ternary` / `centered_binomial` write, C16) -/
def rnsOfInt (l : Level) (v : Array Int) : RnsPoly := Array.ofFn (n := l.size) fun i => skRes l v i.val

theorem c01e_rnsOfInt_getD (l : Level) (v : Array Int) {i : Nat} (hi : i < l.size) :
    (rnsOfInt l v).getD i #[] = skRes l v i := by
  unfold rnsOfInt
  rw [c01o_ofFn_getD _ _ _ hi]

theorem c01e_rnsOfInt_canon {l : Level} (hl : l.WF) {v : Array Int} (hv : v.size = l.n) : RnsCanon l (rnsOfInt l v) := by
  refine ⟨by simp [rnsOfInt], fun i hi => ?_⟩
  rw [c01e_rnsOfInt_getD l v hi]
  obtain ⟨s1, s2, _, _⟩ := c01o_sk_comp hl hv hi
  exact ⟨s1, s2⟩

theorem c01e_rnsOfInt_modEq {l : Level} (v : Array Int) {i : Nat} (hi : i < l.size) (hq : 0 < (l.q i).value) (p : Nat) :
    ((((rnsOfInt l v).getD i #[]).getD p 0 : Nat) : Int) ≡ v.getD p 0 [ZMOD ((l.q i).value : Int)] := by
  rw [c01e_rnsOfInt_getD l v hi, c01p_skRes_eq]
  exact c01p_skResQ_modEq v hq p

theorem c01e_mapM_range_ok {β : Type} (n : Nat) (F : Nat → R β) (G : Nat → β) (h : ∀ k, k < n → F k = .ok (G k)) :
    (List.range n).mapM F = .ok ((List.range n).map G) :=
  listMapM_ok _ F G (fun k hk => h k (List.mem_range.mp hk))

/-- `rnsIntt` of a pre-canonical polynomial whose components are below 2q is canonical -/
theorem c01e_rnsIntt_canon {l : Level} (hl : l.WF) {a : RnsPoly}
    (ha : ∀ i, i < l.size → (a.getD i #[]).size = l.n ∧ ∀ j, j < l.n → (a.getD i #[]).getD j 0 < 2 * (l.q i).value) :
    RnsCanon l (rnsIntt l a) := by
  refine ⟨by simp [rnsIntt], fun i hi => ?_⟩
  obtain ⟨htw, htm, htn, _⟩ := c01o_level_comp hl hi
  rw [c01o_rnsIntt_getD l a hi]
  obtain ⟨a1, a2⟩ := intt_sim htw (a.getD i #[]) (by rw [(ha i hi).1, htn]) (fun j hj => by
    rw [htm]; exact (ha i hi).2 j (by omega))
  exact ⟨by rw [a1, htn], fun j hj => by rw [← htm]; exact (a2 j (by omega)).1⟩

theorem c01e_rnsNtt_canon {l : Level} (hl : l.WF) {a : RnsPoly} (ha : PreCanon l a) : RnsCanon l (rnsNtt l a) := by
  refine ⟨by simp [rnsNtt], fun i hi => ?_⟩
  obtain ⟨htw, htm, htn, _⟩ := c01o_level_comp hl hi
  rw [c01o_rnsNtt_getD l a hi]
  obtain ⟨n1, n2⟩ := ntt_sim htw (a.getD i #[]) (by rw [(ha i hi).1, htn]) (fun j hj => by
    have := (ha i hi).2 j (by omega); rw [htm]; omega)
  exact ⟨by rw [n1, htn], fun j hj => by rw [← htm]; exact (n2 j (by omega)).2.1⟩

/-! ## E1: one polynomial of `encryptZeroAsym` in coefficient form -/

/-- the value of one polynomial: `intt(ntt(u) ⊙ pk) + e`, component-wise (u ⋆ intt(pk) + e) mod q_i -/
theorem c01e_asym_poly_coeff {l : Level} (hl : l.WF) {u pk e : RnsPoly} (hu : RnsCanon l u) (hpk : PreCanon l pk)
    (he : RnsCanon l e) :
    ∃ r, (do let p ← rnsDyadic l (rnsNtt l u) pk; rnsAdd l (rnsIntt l p) e) = .ok r ∧ RnsCanon l r ∧
      ∀ i, i < l.size → ∀ c, c < l.n → (r.getD i #[]).getD c 0 =
        (negMulNat l.n (l.q i).value (intt (l.tbl i) (pk.getD i #[])) (u.getD i #[]) c + (e.getD i #[]).getD c 0) % (l.q i).value := by
  have hq61 : ∀ i, i < l.size → (l.q i).value < 2^61 := fun i hi => (c01o_level_comp hl hi).2.2.2.lt
  have hq2 : ∀ i, i < l.size → 2 ≤ (l.q i).value := fun i hi => (c01o_level_comp hl hi).2.2.2.two_le
  have hN := c01e_rnsNtt_canon hl hu.pre
  have hd := c01o_rnsDyadic_ok hl (a := rnsNtt l u) (b := pk)
    (fun i hi j hj => by
      have := (hN.2 i hi).2 j (by rw [← (hN.2 i hi).1]; exact hj)
      have := hq61 i hi; omega)
    (fun i hi j hj => by
      have := (hpk i hi).2 j (by rw [← (hN.2 i hi).1]; exact hj)
      have := hq61 i hi; omega)
  generalize hD : c01o_zipVal l (rnsNtt l u) pk (fun i x y => (x * y) % (l.q i).value) = D at hd
  have hDs : ∀ i, i < l.size → (D.getD i #[]).size = l.n := fun i hi => by
    rw [← hD, c01o_zipVal_comp_size _ _ _ _ hi]; exact (hN.2 i hi).1
  have hDv : ∀ i, i < l.size → ∀ j, j < l.n → (D.getD i #[]).getD j 0 =
      ((pk.getD i #[]).getD j 0 * (ntt (l.tbl i) (u.getD i #[])).getD j 0) % (l.q i).value := fun i hi j hj => by
    rw [← hD, c01o_zipVal_coeff _ _ _ _ hi (by rw [(hN.2 i hi).1]; exact hj), c01o_rnsNtt_getD l u hi, Nat.mul_comm]
  have hI : ∀ i, i < l.size → ((rnsIntt l D).getD i #[]).size = l.n ∧ ∀ j, j < l.n →
      ((rnsIntt l D).getD i #[]).getD j 0 = negMulNat l.n (l.q i).value (intt (l.tbl i) (pk.getD i #[])) (u.getD i #[]) j ∧
      ((rnsIntt l D).getD i #[]).getD j 0 < (l.q i).value := fun i hi => by
    obtain ⟨htw, htm, htn, _⟩ := c01o_level_comp hl hi
    have hcan := c01e_rnsIntt_canon hl (a := D) (fun i hi => ⟨hDs i hi, fun j hj => by
      rw [hDv i hi j hj]
      have := Nat.mod_lt ((pk.getD i #[]).getD j 0 * (ntt (l.tbl i) (u.getD i #[])).getD j 0)
        (show 0 < (l.q i).value by have := hq2 i hi; omega)
      omega⟩)
    refine ⟨(hcan.2 i hi).1, fun j hj => ⟨?_, (hcan.2 i hi).2 j hj⟩⟩
    rw [c01o_rnsIntt_getD l D hi]
    have := c01o_conv htw (x := pk.getD i #[]) (b := u.getD i #[]) (d := D.getD i #[])
      (by rw [(hpk i hi).1, htn]) (by rw [(hu.2 i hi).1, htn]) (by rw [hDs i hi, htn])
      (fun j hj => by rw [htm]; exact (hpk i hi).2 j (by omega))
      (fun j hj => by rw [htm]; exact (hu.2 i hi).2 j (by omega))
      (fun j hj => by rw [htm]; exact hDv i hi j (by omega)) j (by omega)
    rw [htn, htm] at this
    exact this
  have ha := c01o_rnsAdd_ok hl (a := rnsIntt l D) (b := e)
    (fun i hi j hj => ((hI i hi).2 j (by rw [← (hI i hi).1]; exact hj)).2)
    (fun i hi j hj => (he.2 i hi).2 j (by rw [← (hI i hi).1]; exact hj))
  generalize hP : c01o_zipVal l (rnsIntt l D) e (fun i x y => (x + y) % (l.q i).value) = r at ha
  have hPs : ∀ i, i < l.size → (r.getD i #[]).size = l.n := fun i hi => by
    rw [← hP, c01o_zipVal_comp_size _ _ _ _ hi]; exact (hI i hi).1
  have hPv : ∀ i, i < l.size → ∀ j, j < l.n → (r.getD i #[]).getD j 0 =
      (((rnsIntt l D).getD i #[]).getD j 0 + (e.getD i #[]).getD j 0) % (l.q i).value := fun i hi j hj => by
    rw [← hP, c01o_zipVal_coeff _ _ _ _ hi (by rw [(hI i hi).1]; exact hj)]
  refine ⟨r, ?_, ⟨?_, fun i hi => ⟨hPs i hi, fun j hj => ?_⟩⟩, fun i hi j hj => ?_⟩
  · rw [hd]; exact ha
  · rw [← hP]; exact c01o_zipVal_size _ _ _ _
  · rw [hPv i hi j hj]; exact Nat.mod_lt _ (by have := hq2 i hi; omega)
  · rw [hPv i hi j hj, ((hI i hi).2 j hj).1]

theorem c01e_errorTerm_coeff {l : Level} (hs : l.scheme ≠ .bgv) (e : RnsPoly) : encErrorTerm l e false = .ok e := by
  unfold encErrorTerm
  simp only [Bool.false_eq_true, if_false]
  rw [if_neg hs]; rfl

/-- E1 (public key, coefficient form — BFV): `encryptZeroAsym` succeeds on canonical inputs, and polynomial k of the result is, in
    every RNS component, (intt(pk_k) ⋆ u + e_k) mod q_i -/
theorem encryptZeroAsym_coeff {l : Level} (hl : l.WF) (hs : l.scheme ≠ .bgv) {pk : Array RnsPoly} {u : RnsPoly} {es : Array RnsPoly}
    (hu : RnsCanon l u) (hpk : ∀ k, k < pk.size → PreCanon l (pk.getD k #[]))
    (he : ∀ k, k < pk.size → RnsCanon l (es.getD k #[])) :
    ∃ ct, encryptZeroAsym l pk u es false = .ok ct ∧ ct.ntt = false ∧ ct.cf = 1 ∧ ct.polys.size = pk.size ∧
      ∀ k, k < pk.size → RnsCanon l (ct.polys.getD k #[]) ∧ ∀ i, i < l.size → ∀ c, c < l.n →
        ((ct.polys.getD k #[]).getD i #[]).getD c 0 =
          (negMulNat l.n (l.q i).value (intt (l.tbl i) ((pk.getD k #[]).getD i #[])) (u.getD i #[]) c
            + ((es.getD k #[]).getD i #[]).getD c 0) % (l.q i).value := by
  let body : Nat → R RnsPoly := fun j => do
    let p ← rnsDyadic l (rnsNtt l u) (pk.getD j #[])
    let p := if false = true then p else rnsIntt l p
    let e ← encErrorTerm l (es.getD j #[]) false
    rnsAdd l p e
  have hbody : ∀ k, k < pk.size → body k = (do
      let p ← rnsDyadic l (rnsNtt l u) (pk.getD k #[]); rnsAdd l (rnsIntt l p) (es.getD k #[])) := by
    intro k _
    show (do let p ← rnsDyadic l (rnsNtt l u) (pk.getD k #[])
             let p := if false = true then p else rnsIntt l p
             let e ← encErrorTerm l (es.getD k #[]) false
             rnsAdd l p e) = _
    simp only [Bool.false_eq_true, if_false, c01e_errorTerm_coeff hs]
    rfl
  have hex : ∀ k, k < pk.size → ∃ r, body k = .ok r ∧ RnsCanon l r ∧
      ∀ i, i < l.size → ∀ c, c < l.n → (r.getD i #[]).getD c 0 =
        (negMulNat l.n (l.q i).value (intt (l.tbl i) ((pk.getD k #[]).getD i #[])) (u.getD i #[]) c
          + ((es.getD k #[]).getD i #[]).getD c 0) % (l.q i).value := by
    intro k hk
    rw [hbody k hk]
    exact c01e_asym_poly_coeff hl hu (hpk k hk) (he k hk)
  have hok : ∀ k, k < pk.size → body k = .ok (c01p_val (body k)) := fun k hk => by
    obtain ⟨r, hr, _⟩ := hex k hk
    exact c01p_val_ok ⟨r, hr⟩
  have hm := c01e_mapM_range_ok pk.size body (fun k => c01p_val (body k)) hok
  refine ⟨⟨((List.range pk.size).map (fun k => c01p_val (body k))).toArray, false, 1⟩, ?_, rfl, rfl, by simp, ?_⟩
  · unfold encryptZeroAsym
    show (do let cs ← (List.range pk.size).mapM body; pure (⟨cs.toArray, false, 1⟩ : Ct)) = _
    rw [hm]; rfl
  · intro k hk
    show RnsCanon l (((List.range pk.size).map (fun k => c01p_val (body k))).toArray.getD k #[]) ∧ _
    rw [getD_rangeMap' _ _ _ hk]
    obtain ⟨r, hr, h1, h2⟩ := hex k hk
    have : c01p_val (body k) = r := by rw [hr]; rfl
    rw [this]
    exact ⟨h1, h2⟩

/-! ## E1': `encryptZeroSym` in coefficient form (BFV), with and without a saved seed -/

/-- E1' (secret key, coefficient form — BFV): (c0, c1) with c1 the coefficient form of the mask (`a` itself when the seed is saved,
    otherwise its inverse transform) and c0 = −(c1 ⋆ s + e) mod q_i in every component -/
theorem encryptZeroSym_coeff {l : Level} (hl : l.WF) (hs : l.scheme ≠ .bgv) {sk : Array Int} (hsk : sk.size = l.n)
    {a e : RnsPoly} (ha : RnsCanon l a) (he : RnsCanon l e) (saveSeed : Bool) :
    ∃ c0 c1, encryptZeroSym l sk a e false saveSeed = .ok ⟨#[c0, c1], false, 1⟩ ∧ RnsCanon l c0 ∧ RnsCanon l c1 ∧
      c1 = (if seedSaved l saveSeed then a else rnsIntt l a) ∧
      ∀ i, i < l.size → ∀ c, c < l.n → (c0.getD i #[]).getD c 0 =
        ((l.q i).value - (negMulNat l.n (l.q i).value (c1.getD i #[]) (skRes l sk i) c + (e.getD i #[]).getD c 0) % (l.q i).value)
          % (l.q i).value := by
  have hq61 : ∀ i, i < l.size → (l.q i).value < 2^61 := fun i hi => (c01o_level_comp hl hi).2.2.2.lt
  have hq2 : ∀ i, i < l.size → 2 ≤ (l.q i).value := fun i hi => (c01o_level_comp hl hi).2.2.2.two_le
  -- the NTT-form mask and its coefficient form
  generalize hc1n : (if (false || !seedSaved l saveSeed) = true then a else rnsNtt l a) = c1n
  generalize hc1 : (if seedSaved l saveSeed then a else rnsIntt l a) = c1
  have hc1nC : RnsCanon l c1n := by
    rw [← hc1n]; split
    · exact ha
    · exact c01e_rnsNtt_canon hl ha.pre
  have hc1C : RnsCanon l c1 := by
    rw [← hc1]; split
    · exact ha
    · exact c01e_rnsIntt_canon hl (fun i hi => ⟨(ha.2 i hi).1, fun j hj => by have := (ha.2 i hi).2 j hj; omega⟩)
  -- c1n is the transform of c1
  have hrel : ∀ i, i < l.size → c1n.getD i #[] = ntt (l.tbl i) (c1.getD i #[]) := by
    intro i hi
    obtain ⟨htw, htm, htn, _⟩ := c01o_level_comp hl hi
    rw [← hc1n, ← hc1]
    by_cases hsv : seedSaved l saveSeed = true
    · simp only [hsv, Bool.not_true, Bool.or_self, Bool.false_eq_true, if_false, if_true]
      rw [c01o_rnsNtt_getD l a hi]
    · have hsv' : seedSaved l saveSeed = false := by simpa using hsv
      simp only [hsv', Bool.not_false, Bool.or_true, if_true, Bool.false_eq_true, if_false]
      rw [c01o_rnsIntt_getD l a hi]
      exact (ntt_intt htw (a.getD i #[]) (by rw [(ha.2 i hi).1, htn]) (fun j hj => by
        rw [htm]; exact (ha.2 i hi).2 j (by omega))).symm
  have hd := c01o_rnsDyadic_ok hl (a := skNtt l sk) (b := c1n)
    (fun i hi j hj => by
      rw [c01o_skNtt_getD l sk hi] at hj ⊢
      have := (c01o_sk_comp hl hsk hi).2.2.2 j (by rw [← (c01o_sk_comp hl hsk hi).2.2.1]; exact hj)
      have := hq61 i hi; omega)
    (fun i hi j hj => by
      rw [c01o_skNtt_getD l sk hi] at hj
      have := (hc1nC.2 i hi).2 j (by rw [← (c01o_sk_comp hl hsk hi).2.2.1]; exact hj)
      have := hq61 i hi; omega)
  generalize hD : c01o_zipVal l (skNtt l sk) c1n (fun i x y => (x * y) % (l.q i).value) = D at hd
  have hDs : ∀ i, i < l.size → (D.getD i #[]).size = l.n := fun i hi => by
    rw [← hD, c01o_zipVal_comp_size _ _ _ _ hi, c01o_skNtt_getD l sk hi]; exact (c01o_sk_comp hl hsk hi).2.2.1
  have hDv : ∀ i, i < l.size → ∀ j, j < l.n → (D.getD i #[]).getD j 0 =
      ((ntt (l.tbl i) (c1.getD i #[])).getD j 0 * (ntt (l.tbl i) (skRes l sk i)).getD j 0) % (l.q i).value := fun i hi j hj => by
    rw [← hD, c01o_zipVal_coeff _ _ _ _ hi (by rw [c01o_skNtt_getD l sk hi, (c01o_sk_comp hl hsk hi).2.2.1]; exact hj),
      c01o_skNtt_getD l sk hi, hrel i hi, Nat.mul_comm]
  have hI : ∀ i, i < l.size → ((rnsIntt l D).getD i #[]).size = l.n ∧ ∀ j, j < l.n →
      ((rnsIntt l D).getD i #[]).getD j 0 = negMulNat l.n (l.q i).value (c1.getD i #[]) (skRes l sk i) j ∧
      ((rnsIntt l D).getD i #[]).getD j 0 < (l.q i).value := fun i hi => by
    obtain ⟨htw, htm, htn, _⟩ := c01o_level_comp hl hi
    obtain ⟨s1, s2, _, _⟩ := c01o_sk_comp hl hsk hi
    rw [c01o_rnsIntt_getD l D hi]
    exact c01o_comp_coeff htw htm htn (hc1C.2 i hi).1 s1 (hDs i hi) (hc1C.2 i hi).2 s2 (hDv i hi)
  have hadd := c01o_rnsAdd_ok hl (a := rnsIntt l D) (b := e)
    (fun i hi j hj => ((hI i hi).2 j (by rw [← (hI i hi).1]; exact hj)).2)
    (fun i hi j hj => (he.2 i hi).2 j (by rw [← (hI i hi).1]; exact hj))
  generalize hP : c01o_zipVal l (rnsIntt l D) e (fun i x y => (x + y) % (l.q i).value) = r at hadd
  have hPs : ∀ i, i < l.size → (r.getD i #[]).size = l.n := fun i hi => by
    rw [← hP, c01o_zipVal_comp_size _ _ _ _ hi]; exact (hI i hi).1
  have hPv : ∀ i, i < l.size → ∀ j, j < l.n → (r.getD i #[]).getD j 0 =
      (negMulNat l.n (l.q i).value (c1.getD i #[]) (skRes l sk i) j + (e.getD i #[]).getD j 0) % (l.q i).value := fun i hi j hj => by
    rw [← hP, c01o_zipVal_coeff _ _ _ _ hi (by rw [(hI i hi).1]; exact hj), ((hI i hi).2 j hj).1]
  have hrC : RnsCanon l r := ⟨by rw [← hP]; exact c01o_zipVal_size _ _ _ _, fun i hi => ⟨hPs i hi, fun j hj => by
    rw [hPv i hi j hj]; exact Nat.mod_lt _ (by have := hq2 i hi; omega)⟩⟩
  obtain ⟨c0, hneg, hc0C, hc0v⟩ := c02v_rnsNeg_spec (c02v_qsWF_of_levelWF hl) hrC
  refine ⟨c0, c1, ?_, hc0C, hc1C, rfl, fun i hi c hc => by rw [hc0v i hi c hc, hPv i hi c hc]⟩
  unfold encryptZeroSym
  simp only [Bool.false_eq_true, if_false, Bool.not_false, Bool.true_and, Bool.false_or, if_neg hs]
  simp only [Bool.false_or] at hc1n
  rw [hc1n, hd]
  show (do let c0 ← rnsAdd l (rnsIntt l D) e; let c0 ← rnsNeg l c0
           pure (⟨#[c0, if (!seedSaved l saveSeed) = true then rnsIntt l c1n else a], false, 1⟩ : Ct)) = _
  rw [hadd, ok_bind, hneg, ok_bind]
  congr 3
  rw [← hc1, ← hc1n]
  by_cases hsv : seedSaved l saveSeed = true
  · simp [hsv]
  · have hsv' : seedSaved l saveSeed = false := by simpa using hsv
    simp [hsv']

/-! ## E2: the exact phase of a fresh ciphertext modulo Q -/

/-- the ring identity `phase_fresh_pk` on integer coefficient functions (pulled back from ℤ[X]/(X^n+1)):
    (−(P1⋆S + E))⋆U + E0 + M + (P1⋆U + E1)⋆S = M − E⋆U + E0 + E1⋆S -/
theorem c01e_pk_identity {n : Nat} (hn : 0 < n) (P1 S E U E0 E1 M : Nat → Int) :
    ∀ c, c < n →
      negMulR n (fun p => (-1 : Int) * (negMulR n P1 S p + E p)) U c + E0 c + M c
        + negMulR n (fun p => negMulR n P1 U p + E1 p) S c
      = M c - negMulR n E U c + E0 c + negMulR n E1 S c := by
  have hξ := c02x_root_pow n
  apply c02x_pull hn
  generalize hξd : AdjoinRoot.root ((X : ℤ[X])^n + 1) = ξ at hξ ⊢
  have e1 : c02w_ev n ξ (fun c => negMulR n (fun p => (-1 : Int) * (negMulR n P1 S p + E p)) U c + E0 c + M c
        + negMulR n (fun p => negMulR n P1 U p + E1 p) S c)
      = (((-1 : Int) : c02x_Rn n) * (c02w_ev n ξ P1 * c02w_ev n ξ S + c02w_ev n ξ E)) * c02w_ev n ξ U + c02w_ev n ξ E0
        + c02w_ev n ξ M + (c02w_ev n ξ P1 * c02w_ev n ξ U + c02w_ev n ξ E1) * c02w_ev n ξ S := by
    rw [c02x_ev_add n ξ (fun c => negMulR n (fun p => (-1 : Int) * (negMulR n P1 S p + E p)) U c + E0 c + M c)
        (negMulR n (fun p => negMulR n P1 U p + E1 p) S),
      c02x_ev_add n ξ (fun c => negMulR n (fun p => (-1 : Int) * (negMulR n P1 S p + E p)) U c + E0 c) M,
      c02x_ev_add n ξ (negMulR n (fun p => (-1 : Int) * (negMulR n P1 S p + E p)) U) E0,
      c02w_ev_negMul hn hξ, c02w_ev_negMul hn hξ,
      c02w_ev_smul n ξ (-1) (fun p => negMulR n P1 S p + E p),
      c02x_ev_add n ξ (negMulR n P1 S) E, c02x_ev_add n ξ (negMulR n P1 U) E1,
      c02w_ev_negMul hn hξ, c02w_ev_negMul hn hξ]
  have e2 : c02w_ev n ξ (fun c => M c - negMulR n E U c + E0 c + negMulR n E1 S c)
      = c02w_ev n ξ M - c02w_ev n ξ E * c02w_ev n ξ U + c02w_ev n ξ E0 + c02w_ev n ξ E1 * c02w_ev n ξ S := by
    rw [c02x_ev_add n ξ (fun c => M c - negMulR n E U c + E0 c) (negMulR n E1 S),
      c02x_ev_add n ξ (fun c => M c - negMulR n E U c) E0,
      c02x_ev_sub n ξ M (negMulR n E U), c02w_ev_negMul hn hξ, c02w_ev_negMul hn hξ]
  rw [e1, e2]
  push_cast
  ring

/-- the public key (NTT form; only its first `l.size` components matter at level `l`) is an encryption of zero under `sk` with
    error polynomial `E` (BGV: `E` = t·e): intt(pk0_i) ≡ −(intt(pk1_i) ⋆ s + E) modulo q_i, in every component.
    `encryptZeroSym_isPk` below: this is what the model's own key generation (symmetric encryption of zero in NTT form) yields. -/
def PkRel (l : Level) (sk : Array Int) (E : Nat → Int) (pk0 pk1 : RnsPoly) : Prop :=
  PreCanon l pk0 ∧ PreCanon l pk1 ∧ ∀ i, i < l.size → ∀ c, c < l.n →
    (((intt (l.tbl i) (pk0.getD i #[])).getD c 0 : Nat) : Int) ≡
      (-1 : Int) * (negMulR l.n (fun p => (((intt (l.tbl i) (pk1.getD i #[])).getD p 0 : Nat) : Int)) (fun p => sk.getD p 0) c + E c)
      [ZMOD ((l.q i).value : Int)]

/-- phase of a size-2 ciphertext from per-component congruences of its two polynomials with "public key ⋆ u + error (+ message)" -/
theorem c01e_phase_pk {l : Level} (hl : l.WF) (hq : c07s_LevelQ l) {sk : Array Int} {E U E0 E1 M : Nat → Int}
    {pk0 pk1 u c0 c1 : RnsPoly} (hpk : PkRel l sk E pk0 pk1)
    (hu : ∀ i, i < l.size → ∀ p, p < l.n → (((u.getD i #[]).getD p 0 : Nat) : Int) ≡ U p [ZMOD ((l.q i).value : Int)])
    (h0 : c0.size = l.size) (h1 : c1.size = l.size)
    (hc0 : ∀ i, i < l.size → ∀ c, c < l.n → (((c0.getD i #[]).getD c 0 : Nat) : Int) ≡
      (negMulNat l.n (l.q i).value (intt (l.tbl i) (pk0.getD i #[])) (u.getD i #[]) c : Int) + E0 c + M c [ZMOD ((l.q i).value : Int)])
    (hc1 : ∀ i, i < l.size → ∀ c, c < l.n → (((c1.getD i #[]).getD c 0 : Nat) : Int) ≡
      (negMulNat l.n (l.q i).value (intt (l.tbl i) (pk1.getD i #[])) (u.getD i #[]) c : Int) + E1 c [ZMOD ((l.q i).value : Int)]) :
    ∀ c, c < l.n → (Spec.phase (c01p_qvals l) l.n sk [c0, c1]).getD c 0 ≡
      M c - negMulR l.n E U c + E0 c + negMulR l.n E1 (fun p => sk.getD p 0) c [ZMOD (Spec.prodL (c01p_qvals l) : Int)] := by
  have hn0 := c01q_n_pos hl
  have hsz := hq.size_eq
  intro c hc
  rw [c01q_qvals_eq hq, c01p_prodL_bvals hq.bwf]
  apply c04k_crt_merge hq.bwf
  intro j hj
  have hjl : j < l.size := by rw [← hsz]; exact hj
  have hq0 : 0 < (l.q j).value := by have := (c01o_level_comp hl hjl).2.2.2.two_le; omega
  refine Int.ModEq.trans (c04k_spec_phase_modEq hq.bwf (sk := sk) (by rw [hsz]; exact h0) (by rw [hsz]; exact h1) hc hj) ?_
  rw [hq.q_eq hjl]
  unfold c05u_phase2
  -- the two polynomials as integer functions
  have hP0 : ∀ c, c < l.n → (((c0.getD j #[]).getD c 0 : Nat) : Int) ≡
      negMulR l.n (fun p => (-1 : Int) * (negMulR l.n (fun p => (((intt (l.tbl j) (pk1.getD j #[])).getD p 0 : Nat) : Int))
        (fun p => sk.getD p 0) p + E p)) U c + E0 c + M c [ZMOD ((l.q j).value : Int)] := by
    intro c hc
    refine (hc0 j hjl c hc).trans (Int.ModEq.add (Int.ModEq.add ?_ (Int.ModEq.refl _)) (Int.ModEq.refl _))
    refine (c02w_negMulNat_modEq hq0 _ _ (fun p => (((intt (l.tbl j) (pk0.getD j #[])).getD p 0 : Nat) : Int)) U
      (fun p _ => Int.ModEq.refl _) (fun p hp => hu j hjl p hp) hc).trans ?_
    exact c02x_negMulR_modEq l.n _ (fun p hp => hpk.2.2 j hjl p hp) (fun p _ => Int.ModEq.refl _) hc
  have hP1 : ∀ c, c < l.n → (((c1.getD j #[]).getD c 0 : Nat) : Int) ≡
      negMulR l.n (fun p => (((intt (l.tbl j) (pk1.getD j #[])).getD p 0 : Nat) : Int)) U c + E1 c [ZMOD ((l.q j).value : Int)] := by
    intro c hc
    refine (hc1 j hjl c hc).trans (Int.ModEq.add ?_ (Int.ModEq.refl _))
    exact c02w_negMulNat_modEq hq0 _ _ (fun p => (((intt (l.tbl j) (pk1.getD j #[])).getD p 0 : Nat) : Int)) U
      (fun p _ => Int.ModEq.refl _) (fun p hp => hu j hjl p hp) hc
  have hsum := (hP0 c hc).add (c02x_negMulR_modEq l.n ((l.q j).value : Int) hP1 (fun p _ => Int.ModEq.refl (sk.getD p 0)) hc)
  rw [c01e_pk_identity hn0 _ _ E U E0 E1 M c hc] at hsum
  exact hsum

/-- phase of a secret-key ciphertext (c0, c1) with c0 ≡ −(c1⋆s + E) + M per component: M − E -/
theorem c01e_phase_sk {l : Level} (hl : l.WF) (hq : c07s_LevelQ l) {sk : Array Int} {E M : Nat → Int} {c0 c1 : RnsPoly}
    (h0 : c0.size = l.size) (h1 : c1.size = l.size)
    (hc0 : ∀ i, i < l.size → ∀ c, c < l.n → (((c0.getD i #[]).getD c 0 : Nat) : Int) ≡
      (-1 : Int) * ((negMulNat l.n (l.q i).value (c1.getD i #[]) (skRes l sk i) c : Int) + E c) + M c [ZMOD ((l.q i).value : Int)]) :
    ∀ c, c < l.n → (Spec.phase (c01p_qvals l) l.n sk [c0, c1]).getD c 0 ≡ M c - E c [ZMOD (Spec.prodL (c01p_qvals l) : Int)] := by
  have hsz := hq.size_eq
  intro c hc
  rw [c01q_qvals_eq hq, c01p_prodL_bvals hq.bwf]
  apply c04k_crt_merge hq.bwf
  intro j hj
  have hjl : j < l.size := by rw [← hsz]; exact hj
  have hq0 : 0 < (l.q j).value := by have := (c01o_level_comp hl hjl).2.2.2.two_le; omega
  refine Int.ModEq.trans (c04k_spec_phase_modEq hq.bwf (sk := sk) (by rw [hsz]; exact h0) (by rw [hsz]; exact h1) hc hj) ?_
  rw [hq.q_eq hjl]
  unfold c05u_phase2
  have hN : (negMulNat l.n (l.q j).value (c1.getD j #[]) (skRes l sk j) c : Int) ≡
      negMulR l.n (fun p => (((c1.getD j #[]).getD p 0 : Nat) : Int)) (fun p => sk.getD p 0) c [ZMOD ((l.q j).value : Int)] :=
    c02w_negMulNat_modEq hq0 _ _ _ _ (fun p _ => Int.ModEq.refl _)
      (fun p _ => by rw [c01p_skRes_eq]; exact c01p_skResQ_modEq sk hq0 p) hc
  have h := (hc0 j hjl c hc).add (Int.ModEq.refl (negMulR l.n (fun p => (((c1.getD j #[]).getD p 0 : Nat) : Int)) (fun p => sk.getD p 0) c))
  refine h.trans ?_
  have h2 : (-1 : Int) * ((negMulNat l.n (l.q j).value (c1.getD j #[]) (skRes l sk j) c : Int) + E c) + M c
      + negMulR l.n (fun p => (((c1.getD j #[]).getD p 0 : Nat) : Int)) (fun p => sk.getD p 0) c
      ≡ (-1 : Int) * (negMulR l.n (fun p => (((c1.getD j #[]).getD p 0 : Nat) : Int)) (fun p => sk.getD p 0) c + E c) + M c
      + negMulR l.n (fun p => (((c1.getD j #[]).getD p 0 : Nat) : Int)) (fun p => sk.getD p 0) c [ZMOD ((l.q j).value : Int)] :=
    Int.ModEq.add (Int.ModEq.add (Int.ModEq.mul (Int.ModEq.refl _) (Int.ModEq.add hN (Int.ModEq.refl _))) (Int.ModEq.refl _))
      (Int.ModEq.refl _)
  refine h2.trans ?_
  have e : (-1 : Int) * (negMulR l.n (fun p => (((c1.getD j #[]).getD p 0 : Nat) : Int)) (fun p => sk.getD p 0) c + E c) + M c
      + negMulR l.n (fun p => (((c1.getD j #[]).getD p 0 : Nat) : Int)) (fun p => sk.getD p 0) c = M c - E c := by ring
  rw [e]

/-! ## E3: decoding a phase Δ(m) + v, `multiply_add_plain` on a whole polynomial, and the end-to-end theorems (BFV) -/

/-- one coefficient: a phase value x ≡ Δ(m) + v (mod Q) with 2t(|v|+1) < Q decodes to m, and its BFV noise
    t·x − Q·round(t·x/Q) is (t·Δ(m) − Q·m) + t·v, of magnitude ≤ t(|v|+1) -/
theorem c01e_bfv_decode {Q t m : Nat} {x v : Int} (ht : 2 ≤ t) (hm : m < t) (hv : 2 * t * (v.natAbs + 1) < Q)
    (hx : x ≡ (deltaM Q t m : Int) + v [ZMOD (Q : Int)]) :
    Spec.imod (Spec.roundDiv (t * x) Q) t = m ∧ (c04r_bfvNoise t Q x).natAbs ≤ t * (v.natAbs + 1) := by
  have hq : 0 < Q := by omega
  obtain ⟨κ, hκ⟩ : ∃ κ : Int, x = (deltaM Q t m : Int) + v - Q * κ := by
    obtain ⟨k, hk⟩ := (Int.modEq_iff_dvd.mp hx)
    exact ⟨k, by linarith⟩
  obtain ⟨e1, e2⟩ := deltaM_err Q t m (by omega)
  obtain ⟨b1, b2⟩ := c01j_mul_natAbs_bounds t v
  have hv' : 2 * (t * v.natAbs) + 2 * t < Q := by
    have : 2 * t * (v.natAbs + 1) = 2 * (t * v.natAbs) + 2 * t := by ring
    omega
  push_cast at e1 e2
  have hv'' : 2 * ((t : Int) * (v.natAbs : Int)) + 2 * t < Q := by exact_mod_cast hv'
  have h3 : ((t : Int)) / 2 ≤ t := by omega
  have h4 : ((t : Int) + 1) / 2 ≤ t := by omega
  have hw : Spec.roundDiv (t * x) Q = (m : Int) - t * κ := by
    rw [hκ]
    apply c01j_roundDiv_eq hq
    · linarith
    · linarith
  refine ⟨by rw [hw]; exact c01j_imod_sub_mul m κ hm, ?_⟩
  unfold c04r_bfvNoise
  rw [hw, hκ]
  have e : (t : Int) * ((deltaM Q t m : Int) + v - Q * κ) - (Q : Int) * ((m : Int) - t * κ)
      = ((t : Int) * (deltaM Q t m : Int) - (Q : Int) * m) + t * v := by ring
  rw [e]
  have hb : (((t : Int) * (deltaM Q t m : Int) - (Q : Int) * m) + t * v).natAbs ≤ t * v.natAbs + t := by
    have : (((t * v.natAbs + t : Nat)) : Int) = (t : Int) * (v.natAbs : Int) + t := by push_cast; ring
    omega
  calc _ ≤ t * v.natAbs + t := hb
    _ = t * (v.natAbs + 1) := by ring

theorem c01e_deltaM_zero (Q : Nat) {t : Nat} (ht : 2 ≤ t) : deltaM Q t 0 = 0 := by
  unfold deltaM
  simp only [Nat.mul_zero, Nat.zero_add]
  exact Nat.div_eq_of_lt (by omega)

/-- `multiplyAddPlain` on a whole canonical polynomial: coefficient i of component j becomes (d + Δ(m_i)) mod q_j
    (m_i = 0 beyond the plaintext's length) -/
theorem multiplyAddPlain_spec {l : Level} {Q : Nat} {cdp : Array MulOperand} (h : ScalingOK l Q cdp) {plain : Poly} {dest : RnsPoly}
    (hp : plain.size ≤ l.n) (hm : ∀ i, i < plain.size → plain.getD i 0 < l.t.value) (hd : RnsCanon l dest) :
    ∃ r, multiplyAddPlain l cdp (Q % l.t.value) ((l.t.value + 1) / 2) plain dest = .ok r ∧ RnsCanon l r ∧
      ∀ j, j < l.size → ∀ i, i < l.n →
        (r.getD j #[]).getD i 0 = ((dest.getD j #[]).getD i 0 + deltaM Q l.t.value (plain.getD i 0)) % (l.q j).value := by
  have ht2 := h.t2
  have ht61 := h.t61
  have hcell : ∀ j, j < l.size → ∀ i, i < plain.size →
      gz_cell addMod l.t.value (Q % l.t.value) ((l.t.value + 1) / 2) (l.q j) (cdp.getD j default) (plain.getD i 0)
        ((dest.getD j #[]).getD i 0) =
      .ok (((dest.getD j #[]).getD i 0 + deltaM Q l.t.value (plain.getD i 0)) % (l.q j).value) := by
    intro j hj i hi
    have hmi := hm i hi
    have hq0 : 0 < (l.q j).value := by have := (h.qwf j hj).two_le; omega
    rw [gz_cell_eq addMod (by omega) (by omega) (by have := Nat.mod_lt Q (show 0 < l.t.value by omega); omega)]
    unfold gz_cell2
    rw [gz_sc_exact (h.qwf j hj) ht2 ht61 hmi (h.op j hj).1 (h.op j hj).2, ok_bind,
      addMod_exact (h.qwf j hj) ((hd.2 j hj).2 i (by omega)) (Nat.mod_lt _ hq0), Nat.add_mod_mod]
  have hok := gz_model_ok addMod l cdp (Q % l.t.value) ((l.t.value + 1) / 2) plain dest
    (fun i j => ((dest.getD j #[]).getD i 0 + deltaM Q l.t.value (plain.getD i 0)) % (l.q j).value) hp hcell
  rw [← gz_model_add] at hok
  refine ⟨_, hok, ?_, ?_⟩
  · refine ⟨by simp, fun j hj => ?_⟩
    rw [getD_rangeMap' _ _ _ hj]
    have hq0 : 0 < (l.q j).value := by have := (h.qwf j hj).two_le; omega
    refine ⟨by simp, fun i hi => ?_⟩
    rw [getD_rangeMap _ _ hi]
    split
    · exact Nat.mod_lt _ hq0
    · exact (hd.2 j hj).2 i hi
  · intro j hj i hi
    rw [getD_rangeMap' _ _ _ hj, getD_rangeMap _ _ hi]
    split
    · rfl
    · rename_i hi'
      rw [c01e_deltaM_zero Q ht2, Nat.add_zero, Nat.mod_eq_of_lt ((hd.2 j hj).2 i hi)]

theorem c01e_array2 {α : Type} (a : Array α) (h : a.size = 2) (d : α) : a = #[a.getD 0 d, a.getD 1 d] := by
  obtain ⟨l⟩ := a
  match l, h with
  | [x, y], _ => rfl

/-- the plaintext padded with zeros to the degree (what decryption reconstructs before trimming) -/
def padPlain (n : Nat) (p : Poly) : Poly := Array.ofFn (n := n) fun c => p.getD c.val 0

/-- the margin the end-to-end theorems need at a BFV level with fresh-noise bound B: the BEHZ γ-condition for noise t·(B+1),
    2γ·t·(B+1) + 2·|q|·Q ≤ Q·γ  (it implies `FreshOK`-style 2t(B+1) < Q) -/
def FreshEncOK (l : Level) (B : Nat) : Prop :=
  2 * l.tool.gamma.value * (l.t.value * (B + 1)) + 2 * l.size * Spec.prodL (c01p_qvals l)
    ≤ Spec.prodL (c01p_qvals l) * l.tool.gamma.value

instance (l : Level) (B : Nat) : Decidable (FreshEncOK l B) := by unfold FreshEncOK; exact inferInstance

/-- from a phase congruence Δ(m) + v (|v| ≤ B) and the margin: the model decrypts (c0, c1) to the padded plaintext -/
theorem c01e_decrypt_of_phase {l : Level} (hl : l.WF) (hd : DecOK l) {sk : Array Int} (hsk : sk.size = l.n) {c0 c1 : RnsPoly}
    (h0 : RnsCanon l c0) (h1 : RnsCanon l c1) {plain : Poly} (hm : ∀ i, i < plain.size → plain.getD i 0 < l.t.value)
    {v : Nat → Int} {B : Nat} (hv : ∀ c, c < l.n → (v c).natAbs ≤ B) (hok : FreshEncOK l B)
    (hph : ∀ c, c < l.n → (Spec.phase (c01p_qvals l) l.n sk [c0, c1]).getD c 0 ≡
      (deltaM (Spec.prodL (c01p_qvals l)) l.t.value (plain.getD c 0) : Int) + v c [ZMOD (Spec.prodL (c01p_qvals l) : Int)]) :
    bfvDecrypt l sk ⟨#[c0, c1], false, 1⟩ = .ok (trimPlain (padPlain l.n plain)) := by
  have hq := c04r_levelQ_of_decOK hd
  have hγ : 0 < l.tool.gamma.value := by have := hd.tool.gwf.two_le; omega
  have ht2 : 2 ≤ l.t.value := by have := hd.tool.twf.two_le; rw [hd.t_eq] at this; exact this
  have hQ : 0 < Spec.prodL (c01p_qvals l) := by rw [c01p_prodL_qvals hd]; exact hq.bwf.prod_pos
  have hk0 : 0 < l.size := by rw [← hq.size_eq]; exact hq.bwf.pos
  have hlt := c04r_lt_of_margin hγ hk0 hQ hok
  have hmc : ∀ c, plain.getD c 0 < l.t.value := by
    intro c
    by_cases hc : c < plain.size
    · exact hm c hc
    · have e : plain.getD c 0 = 0 := by simp [Array.getD, hc]
      rw [e]; omega
  have hdec : ∀ c, c < l.n →
      Spec.imod (Spec.roundDiv (l.t.value * (Spec.phase (c01p_qvals l) l.n sk [c0, c1]).getD c 0) (Spec.prodL (c01p_qvals l))) l.t.value
        = plain.getD c 0 ∧
      (c04r_bfvNoise l.t.value (Spec.prodL (c01p_qvals l)) ((Spec.phase (c01p_qvals l) l.n sk [c0, c1]).getD c 0)).natAbs
        ≤ l.t.value * (B + 1) := by
    intro c hc
    have hvc := hv c hc
    have hvm : 2 * l.t.value * ((v c).natAbs + 1) < Spec.prodL (c01p_qvals l) := by
      have : l.t.value * ((v c).natAbs + 1) ≤ l.t.value * (B + 1) := Nat.mul_le_mul_left _ (by omega)
      have e : 2 * l.t.value * ((v c).natAbs + 1) = 2 * (l.t.value * ((v c).natAbs + 1)) := by ring
      omega
    obtain ⟨d1, d2⟩ := c01e_bfv_decode ht2 (hmc c) hvm (hph c hc)
    exact ⟨d1, le_trans d2 (Nat.mul_le_mul_left _ (by omega))⟩
  have hbehz : BehzDecryptOK l (Spec.phase (c01p_qvals l) l.n sk [c0, c1]) :=
    c04r_behz_of_bound (fun j hj => (hdec j hj).2) hok
  rw [bfvDecrypt_size2_eq_spec hl hd hsk h0 h1 hbehz]
  unfold Spec.trim
  congr 2
  apply array_ext_getD (by rw [c01p_bfvDecode_size, c01p_phase2_size]) (by simp [padPlain])
  intro c hc
  rw [c01p_bfvDecode_getD _ _ _ (by rw [c01p_phase2_size]; exact hc), (hdec c hc).1]
  simp [padPlain, Array.getD, hc]

/-! ## Property theorems: fresh BFV encryptions of the model decrypt (model decryption) to the plaintext -/

theorem c01e_zero_internal_asym (l : Level) (hb : l.scheme = .bfv) (pk : Array RnsPoly) (u : RnsPoly) (es : Array RnsPoly) :
    encryptZeroInternal l (.asym none pk u es) = encryptZeroAsym l pk u es false := by
  unfold encryptZeroInternal; rw [hb]; rfl

theorem c01e_zero_internal_sym (l : Level) (hb : l.scheme = .bfv) (sk : Array Int) (a e : RnsPoly) (sv : Bool) :
    encryptZeroInternal l (.sym sk a e sv) = encryptZeroSym l sk a e false sv := by
  unfold encryptZeroInternal; rw [hb]; rfl

/-- (a) PHASE of the model's fresh public-key ciphertext (BFV level without a previous level): `encryptZeroAsym` succeeds and the
    exact phase of (c0, c1) is −e·u + e0 + e1·s modulo Q, e = the public key's error, (u, e0, e1) the drawn polynomials -/
theorem encryptZeroAsym_phase {l : Level} (hl : l.WF) (hq : c07s_LevelQ l) (hs : l.scheme ≠ .bgv) {sk : Array Int}
    {pk0 pk1 : RnsPoly} {E : Nat → Int} (hpk : PkRel l sk E pk0 pk1)
    {u e0 e1 : Array Int} (hus : u.size = l.n) (he0s : e0.size = l.n) (he1s : e1.size = l.n) :
    ∃ c0 c1, encryptZeroAsym l #[pk0, pk1] (rnsOfInt l u) #[rnsOfInt l e0, rnsOfInt l e1] false = .ok ⟨#[c0, c1], false, 1⟩ ∧
      RnsCanon l c0 ∧ RnsCanon l c1 ∧
      (∀ i, i < l.size → ∀ c, c < l.n → (c0.getD i #[]).getD c 0 =
        (negMulNat l.n (l.q i).value (intt (l.tbl i) (pk0.getD i #[])) ((rnsOfInt l u).getD i #[]) c
          + ((rnsOfInt l e0).getD i #[]).getD c 0) % (l.q i).value) ∧
      (∀ i, i < l.size → ∀ c, c < l.n → (c1.getD i #[]).getD c 0 =
        (negMulNat l.n (l.q i).value (intt (l.tbl i) (pk1.getD i #[])) ((rnsOfInt l u).getD i #[]) c
          + ((rnsOfInt l e1).getD i #[]).getD c 0) % (l.q i).value) ∧
      ∀ c, c < l.n → (Spec.phase (c01p_qvals l) l.n sk [c0, c1]).getD c 0 ≡
        0 - negMulR l.n E (fun p => u.getD p 0) c + e0.getD c 0 + negMulR l.n (fun p => e1.getD p 0) (fun p => sk.getD p 0) c
        [ZMOD (Spec.prodL (c01p_qvals l) : Int)] := by
  have hq0 : ∀ i, i < l.size → 0 < (l.q i).value := fun i hi => by have := (c01o_level_comp hl hi).2.2.2.two_le; omega
  obtain ⟨z, hz, hzn, hzcf, hzs, hzv⟩ := encryptZeroAsym_coeff hl hs (pk := #[pk0, pk1]) (u := rnsOfInt l u)
    (es := #[rnsOfInt l e0, rnsOfInt l e1]) (c01e_rnsOfInt_canon hl hus)
    (fun k hk => by
      have hk' : k < 2 := hk
      interval_cases k
      · exact hpk.1
      · exact hpk.2.1)
    (fun k hk => by
      have hk' : k < 2 := hk
      interval_cases k
      · exact c01e_rnsOfInt_canon hl he0s
      · exact c01e_rnsOfInt_canon hl he1s)
  obtain ⟨polys, zn, zcf⟩ := z
  simp only at hzn hzcf hzs hzv
  subst hzn hzcf
  have h2 : polys.size = 2 := hzs
  obtain ⟨hC0, hv0⟩ := hzv 0 (by simp)
  obtain ⟨hC1, hv1⟩ := hzv 1 (by simp)
  have hv0' : ∀ i, i < l.size → ∀ c, c < l.n → ((polys.getD 0 #[]).getD i #[]).getD c 0 =
      (negMulNat l.n (l.q i).value (intt (l.tbl i) (pk0.getD i #[])) ((rnsOfInt l u).getD i #[]) c
        + ((rnsOfInt l e0).getD i #[]).getD c 0) % (l.q i).value := hv0
  have hv1' : ∀ i, i < l.size → ∀ c, c < l.n → ((polys.getD 1 #[]).getD i #[]).getD c 0 =
      (negMulNat l.n (l.q i).value (intt (l.tbl i) (pk1.getD i #[])) ((rnsOfInt l u).getD i #[]) c
        + ((rnsOfInt l e1).getD i #[]).getD c 0) % (l.q i).value := hv1
  refine ⟨polys.getD 0 #[], polys.getD 1 #[], by rw [hz, ← c01e_array2 polys h2 #[]], hC0, hC1, hv0', hv1', ?_⟩
  apply c01e_phase_pk hl hq hpk (U := fun p => u.getD p 0) (E0 := fun p => e0.getD p 0) (E1 := fun p => e1.getD p 0)
    (M := fun _ => 0) (u := rnsOfInt l u) (fun i hi p _ => c01e_rnsOfInt_modEq u hi (hq0 i hi) p) hC0.1 hC1.1
  · intro i hi c hc
    rw [hv0' i hi c hc]
    refine (cast_mod_modEq _ _).trans ?_
    push_cast
    rw [add_zero]
    exact Int.ModEq.add (Int.ModEq.refl _) (c01e_rnsOfInt_modEq e0 hi (hq0 i hi) c)
  · intro i hi c hc
    rw [hv1' i hi c hc]
    refine (cast_mod_modEq _ _).trans ?_
    push_cast
    exact Int.ModEq.add (Int.ModEq.refl _) (c01e_rnsOfInt_modEq e1 hi (hq0 i hi) c)

/-- (b) END TO END, BFV, PUBLIC KEY (level without a previous level): for every well-formed level with decryption constants
    (`DecOK`, derived from the constructors in C01P/C01Q), scaling constants (`ScalingOK`), a public key that is an encryption of
    zero with error ‖E‖ ≤ 21 (`PkRel`), ternary s and u, errors bounded by 21, every plaintext with coefficients < t, under the
    decidable margin `FreshEncOK l (21(2N+1))`: encryption succeeds and the model's decryption returns the plaintext -/
theorem bfv_encrypt_decrypt_pk {l : Level} (hl : l.WF) (hd : DecOK l) (hb : l.scheme = .bfv) {cdp : Array MulOperand}
    (hsc : ScalingOK l (Spec.prodL (c01p_qvals l)) cdp)
    {sk : Array Int} (hsk : sk.size = l.n) (hs1 : ∀ p, p < l.n → (sk.getD p 0).natAbs ≤ 1)
    {pk0 pk1 : RnsPoly} {E : Nat → Int} (hpk : PkRel l sk E pk0 pk1) (hE : ∀ p, p < l.n → (E p).natAbs ≤ 21)
    {u e0 e1 : Array Int} (hus : u.size = l.n) (he0s : e0.size = l.n) (he1s : e1.size = l.n)
    (hu1 : ∀ p, p < l.n → (u.getD p 0).natAbs ≤ 1) (he0 : ∀ p, p < l.n → (e0.getD p 0).natAbs ≤ 21)
    (he1 : ∀ p, p < l.n → (e1.getD p 0).natAbs ≤ 21)
    {plain : Poly} (hp : plain.size ≤ l.n) (hm : ∀ i, i < plain.size → plain.getD i 0 < l.t.value)
    (hok : FreshEncOK l (21 * (2 * l.n + 1))) :
    ∃ ct, bfvEncrypt l cdp (Spec.prodL (c01p_qvals l) % l.t.value) ((l.t.value + 1) / 2)
        (.asym none #[pk0, pk1] (rnsOfInt l u) #[rnsOfInt l e0, rnsOfInt l e1]) plain = .ok ct ∧
      bfvDecrypt l sk ct = .ok (trimPlain (padPlain l.n plain)) := by
  have hq := c04r_levelQ_of_decOK hd
  have hs : l.scheme ≠ .bgv := by rw [hb]; decide
  have hq0 : ∀ i, i < l.size → 0 < (l.q i).value := fun i hi => by have := (c01o_level_comp hl hi).2.2.2.two_le; omega
  obtain ⟨c0, c1, hz, hC0, hC1, hv0, hv1, -⟩ := encryptZeroAsym_phase hl hq hs hpk hus he0s he1s
  obtain ⟨c0', hmul, hC0', hmv⟩ := multiplyAddPlain_spec hsc hp hm hC0
  refine ⟨⟨#[c0', c1], false, 1⟩, ?_, ?_⟩
  · unfold bfvEncrypt
    rw [c01e_zero_internal_asym l hb, hz, ok_bind]
    show (do let c0 ← multiplyAddPlain l cdp (Spec.prodL (c01p_qvals l) % l.t.value) ((l.t.value + 1) / 2) plain c0
             pure (⟨(#[c0, c1] : Array RnsPoly).setIfInBounds 0 c0, false, 1⟩ : Ct)) = _
    rw [hmul]; rfl
  · apply c01e_decrypt_of_phase hl hd hsk hC0' hC1 hm
      (v := fun c => - negMulR l.n E (fun p => u.getD p 0) c + e0.getD c 0
        + negMulR l.n (fun p => e1.getD p 0) (fun p => sk.getD p 0) c)
      (fresh_noise_bound l.n E (fun p => u.getD p 0) (fun p => e0.getD p 0) (fun p => e1.getD p 0) (fun p => sk.getD p 0)
        hE he0 he1 hu1 hs1) hok
    intro c hc
    have h := c01e_phase_pk hl hq hpk (U := fun p => u.getD p 0) (E0 := fun p => e0.getD p 0) (E1 := fun p => e1.getD p 0)
      (M := fun c => (deltaM (Spec.prodL (c01p_qvals l)) l.t.value (plain.getD c 0) : Int)) (u := rnsOfInt l u) (c0 := c0') (c1 := c1)
      (fun i hi p _ => c01e_rnsOfInt_modEq u hi (hq0 i hi) p) hC0'.1 hC1.1
      (fun i hi c hc => by
        rw [hmv i hi c hc, hv0 i hi c hc]
        refine (cast_mod_modEq _ _).trans ?_
        push_cast
        refine Int.ModEq.add ((cast_mod_modEq _ _).trans ?_) (Int.ModEq.refl _)
        push_cast
        exact Int.ModEq.add (Int.ModEq.refl _) (c01e_rnsOfInt_modEq e0 hi (hq0 i hi) c))
      (fun i hi c hc => by
        rw [hv1 i hi c hc]
        refine (cast_mod_modEq _ _).trans ?_
        push_cast
        exact Int.ModEq.add (Int.ModEq.refl _) (c01e_rnsOfInt_modEq e1 hi (hq0 i hi) c)) c hc
    have e : (deltaM (Spec.prodL (c01p_qvals l)) l.t.value (plain.getD c 0) : Int) - negMulR l.n E (fun p => u.getD p 0) c
          + e0.getD c 0 + negMulR l.n (fun p => e1.getD p 0) (fun p => sk.getD p 0) c
        = (deltaM (Spec.prodL (c01p_qvals l)) l.t.value (plain.getD c 0) : Int)
          + (- negMulR l.n E (fun p => u.getD p 0) c + e0.getD c 0
            + negMulR l.n (fun p => e1.getD p 0) (fun p => sk.getD p 0) c) := by ring
    rw [e] at h
    exact h

/-- (a') PHASE of the model's fresh secret-key ciphertext (BFV, with or without a saved seed): Δ-free phase −e modulo Q -/
theorem encryptZeroSym_phase {l : Level} (hl : l.WF) (hq : c07s_LevelQ l) (hs : l.scheme ≠ .bgv) {sk : Array Int}
    (hsk : sk.size = l.n) {a : RnsPoly} (ha : RnsCanon l a) {e : Array Int} (hes : e.size = l.n) (saveSeed : Bool) :
    ∃ c0 c1, encryptZeroSym l sk a (rnsOfInt l e) false saveSeed = .ok ⟨#[c0, c1], false, 1⟩ ∧ RnsCanon l c0 ∧ RnsCanon l c1 ∧
      c1 = (if seedSaved l saveSeed then a else rnsIntt l a) ∧
      (∀ i, i < l.size → ∀ c, c < l.n → (((c0.getD i #[]).getD c 0 : Nat) : Int) ≡
        (-1 : Int) * ((negMulNat l.n (l.q i).value (c1.getD i #[]) (skRes l sk i) c : Int) + e.getD c 0)
        [ZMOD ((l.q i).value : Int)]) ∧
      ∀ c, c < l.n → (Spec.phase (c01p_qvals l) l.n sk [c0, c1]).getD c 0 ≡ 0 - e.getD c 0
        [ZMOD (Spec.prodL (c01p_qvals l) : Int)] := by
  have hq0 : ∀ i, i < l.size → 0 < (l.q i).value := fun i hi => by have := (c01o_level_comp hl hi).2.2.2.two_le; omega
  obtain ⟨c0, c1, hz, hC0, hC1, hc1, hv⟩ := encryptZeroSym_coeff hl hs hsk ha (c01e_rnsOfInt_canon hl hes) saveSeed
  have hcong : ∀ i, i < l.size → ∀ c, c < l.n → (((c0.getD i #[]).getD c 0 : Nat) : Int) ≡
      (-1 : Int) * ((negMulNat l.n (l.q i).value (c1.getD i #[]) (skRes l sk i) c : Int) + e.getD c 0)
      [ZMOD ((l.q i).value : Int)] := by
    intro i hi c hc
    rw [hv i hi c hc]
    have hlt : (negMulNat l.n (l.q i).value (c1.getD i #[]) (skRes l sk i) c + ((rnsOfInt l e).getD i #[]).getD c 0) % (l.q i).value
        ≤ (l.q i).value := Nat.le_of_lt (Nat.mod_lt _ (hq0 i hi))
    refine (cast_mod_modEq _ _).trans ?_
    rw [Nat.cast_sub hlt]
    have h1 := cast_mod_modEq (negMulNat l.n (l.q i).value (c1.getD i #[]) (skRes l sk i) c + ((rnsOfInt l e).getD i #[]).getD c 0)
      (l.q i).value
    have h2 : (((l.q i).value : Nat) : Int) ≡ 0 [ZMOD ((l.q i).value : Int)] := by
      apply Int.modEq_zero_iff_dvd.mpr; exact dvd_refl _
    have h3 := (h2.sub h1)
    refine h3.trans ?_
    push_cast
    have h4 := c01e_rnsOfInt_modEq e hi (hq0 i hi) c
    have e' : (0 : Int) - ((negMulNat l.n (l.q i).value (c1.getD i #[]) (skRes l sk i) c : Int)
        + (((rnsOfInt l e).getD i #[]).getD c 0 : Int))
        = (-1 : Int) * ((negMulNat l.n (l.q i).value (c1.getD i #[]) (skRes l sk i) c : Int)
          + (((rnsOfInt l e).getD i #[]).getD c 0 : Int)) := by ring
    rw [e']
    exact Int.ModEq.mul (Int.ModEq.refl _) (Int.ModEq.add (Int.ModEq.refl _) h4)
  refine ⟨c0, c1, hz, hC0, hC1, hc1, hcong, ?_⟩
  apply c01e_phase_sk hl hq (E := fun c => e.getD c 0) (M := fun _ => 0) hC0.1 hC1.1
  intro i hi c hc
  rw [add_zero]
  exact hcong i hi c hc

/-- (b') END TO END, BFV, SECRET KEY (any level; `saveSeed` = the seed-compressed variant, c1 being what `expand_seed`
    regenerates): every mask polynomial `a`, error bounded by B, plaintext coefficients < t, margin `FreshEncOK l B` -/
theorem bfv_encrypt_decrypt_sk {l : Level} (hl : l.WF) (hd : DecOK l) (hb : l.scheme = .bfv) {cdp : Array MulOperand}
    (hsc : ScalingOK l (Spec.prodL (c01p_qvals l)) cdp)
    {sk : Array Int} (hsk : sk.size = l.n) {a : RnsPoly} (ha : RnsCanon l a)
    {e : Array Int} (hes : e.size = l.n) {B : Nat} (he : ∀ p, p < l.n → (e.getD p 0).natAbs ≤ B) (saveSeed : Bool)
    {plain : Poly} (hp : plain.size ≤ l.n) (hm : ∀ i, i < plain.size → plain.getD i 0 < l.t.value)
    (hok : FreshEncOK l B) :
    ∃ ct, bfvEncrypt l cdp (Spec.prodL (c01p_qvals l) % l.t.value) ((l.t.value + 1) / 2)
        (.sym sk a (rnsOfInt l e) saveSeed) plain = .ok ct ∧
      bfvDecrypt l sk ct = .ok (trimPlain (padPlain l.n plain)) := by
  have hq := c04r_levelQ_of_decOK hd
  have hs : l.scheme ≠ .bgv := by rw [hb]; decide
  obtain ⟨c0, c1, hz, hC0, hC1, -, hcong, -⟩ := encryptZeroSym_phase hl hq hs hsk ha hes saveSeed
  obtain ⟨c0', hmul, hC0', hmv⟩ := multiplyAddPlain_spec hsc hp hm hC0
  refine ⟨⟨#[c0', c1], false, 1⟩, ?_, ?_⟩
  · unfold bfvEncrypt
    rw [c01e_zero_internal_sym l hb, hz, ok_bind]
    show (do let c0 ← multiplyAddPlain l cdp (Spec.prodL (c01p_qvals l) % l.t.value) ((l.t.value + 1) / 2) plain c0
             pure (⟨(#[c0, c1] : Array RnsPoly).setIfInBounds 0 c0, false, 1⟩ : Ct)) = _
    rw [hmul]; rfl
  · apply c01e_decrypt_of_phase hl hd hsk hC0' hC1 hm (v := fun c => - e.getD c 0)
      (fun c hc => by rw [Int.natAbs_neg]; exact he c hc) hok
    intro c hc
    have h := c01e_phase_sk hl hq (E := fun c => e.getD c 0)
      (M := fun c => (deltaM (Spec.prodL (c01p_qvals l)) l.t.value (plain.getD c 0) : Int)) hC0'.1 hC1.1
      (fun i hi c hc => by
        rw [hmv i hi c hc]
        refine (cast_mod_modEq _ _).trans ?_
        push_cast
        exact Int.ModEq.add (hcong i hi c hc) (Int.ModEq.refl _)) c hc
    have e' : (deltaM (Spec.prodL (c01p_qvals l)) l.t.value (plain.getD c 0) : Int) - e.getD c 0
        = (deltaM (Spec.prodL (c01p_qvals l)) l.t.value (plain.getD c 0) : Int) + - e.getD c 0 := by ring
    rw [e'] at h
    exact h

/-! ## seed expansion and the level dispatch -/

theorem c01e_toRns_ofRns (p : RnsPoly) : toRns (ofRns p) = p := by
  unfold toRns ofRns
  apply Array.ext (by simp)
  intro i h1 h2
  simp

/-- `expand_seed` restores the ciphertext: if the generator seeded with the stored seed expands (`sample::uniform`, Rng model) to
    the polynomial c1, then expanding the seed-compressed object (c0, seed) gives back (c0, c1) -/
theorem expandSeed_toSeeded (U : Rng.Uniform) (xof : Rng.Xof) (l : Level) (c0 c1 : RnsPoly) (ntt : Bool) (cf : Nat) (seed : Rng.Seed)
    (st : Rng.St)
    (h : Rng.uniformPoly U xof (Rng.fromSeed seed) l.n (l.qs.toList.map (·.value)) = .ok (ofRns c1, st)) :
    expandSeed U xof l ((⟨#[c0, c1], ntt, cf⟩ : Ct).toSeeded seed) = .ok ⟨#[c0, c1], ntt, cf⟩ := by
  unfold expandSeed Ct.toSeeded
  simp only []
  rw [h, ok_bind]
  show Except.ok (⟨#[c0, toRns (ofRns c1)], ntt, cf⟩ : Ct) = _
  rw [c01e_toRns_ofRns]

/-- the modulus switch inside public-key encryption is `modSwitchScaleNext` of the previous level (BFV, CKKS; for BGV it differs
    only in the correction factor, which encryption leaves at 1): the theorems of C05U (`modSwitchScaleNext_bfv_spec`,
    `…_ckks_spec`) apply to the special-prime path -/
theorem encDivideQLast_eq_modSwitch {pl : Level} (h2 : 2 ≤ pl.size) (hs : pl.scheme ≠ .bgv) (ct : Ct)
    (hn : ct.ntt = pl.scheme.encNtt) : encDivideQLast pl (pl.size - 1) ct = modSwitchScaleNext pl ct := by
  unfold encDivideQLast modSwitchScaleNext
  rw [if_neg (by omega)]
  cases hsc : pl.scheme with
  | bfv => simp only [hsc, Scheme.encNtt] at hn ⊢; rw [hn]; rfl
  | ckks => simp only [hsc, Scheme.encNtt] at hn ⊢; rw [hn]; rfl
  | bgv => exact absurd hsc hs

end HC
