/- C09 part G: link between the tables built by `NTTTables.new` and the hypotheses of the generic theorems, and the
   final API-level theorems about `ntt`, `nttLazy`, `intt`, `inttLazy`, `dyadicProduct`. -/
import Heathcliff.Proofs.C09D
import Heathcliff.Proofs.C09E
import Heathcliff.Proofs.C09F
namespace HC
open Finset

/-- what `NTTTables::new` establishes about its tables -/
structure NTTTables.WF (t : NTTTables) : Prop where
  mwf : t.modulus.WF
  klt : 2^(t.k+1) < 2^62
  root_lt : t.root < t.modulus.value
  root_pow : t.root ^ (2^t.k) % t.modulus.value = t.modulus.value - 1
  rp_size : t.rootPowers.size = 2^t.k
  rp : ∀ j, 0 < j → j < 2^t.k → WFOp t.modulus (arrFn t.rootPowers j) ∧
        (arrFn t.rootPowers j).operand = t.root ^ (brev t.k j) % t.modulus.value
  irp_size : t.invRootPowers.size = 2^t.k
  irp : ∃ ri, ri < t.modulus.value ∧ (t.root * ri) % t.modulus.value = 1 ∧
        ∀ p, 0 < p → p < 2^t.k → WFOp t.modulus (arrFn t.invRootPowers p) ∧
          (arrFn t.invRootPowers p).operand = ri ^ (brev t.k (p-1) + 1) % t.modulus.value
  inv_deg : WFOp t.modulus t.invDegree ∧ (t.invDegree.operand * 2^t.k) % t.modulus.value = 1

/-! ### TABLE LINK

  NOTE.  The statement `NTTTables.new_wf` as originally given (no bound on `root0 : Nat`) is FALSE: the model takes
  `root0` as an unbounded natural number whereas the code takes a `u64`.  For `root0 ≥ 2^64` the 128-bit Barrett
  reduction inside `mulMod` receives a high word ≥ 2^64 and wraps, so `isPrimitiveRoot` can accept a value that is
  not a primitive root.  Witness: k = 1, q = 1152921504606846869, root0 = 121844678647361623314922772 (≈ 2^86.7):
  `NTTTables.new` succeeds with root = 880585176969361125, root^2 mod q = 10271 ≠ q - 1.
  The original statement is kept as `NTTTables.new_wf_Statement : Prop`, refuted in `NTTTables.new_wf_Statement_false`,
  and proved with the hypothesis `root0 < 2^64` (the only case the code can produce) as `NTTTables.new_wf_u64`. -/

theorem brev_allones (k : Nat) : brev k (2^k - 1) = 2^k - 1 := by
  induction k with
  | zero => rfl
  | succ k ih =>
    have hp : 0 < 2^k := Nat.two_pow_pos k
    have e1 : (2^(k+1) - 1) % 2 = 1 := by rw [pow_succ]; omega
    have e2 : (2^(k+1) - 1) / 2 = 2^k - 1 := by rw [pow_succ]; omega
    rw [brev_succ, e1, e2, ih, pow_succ]; omega

theorem brev_inj {k a b : Nat} (ha : a < 2^k) (hb : b < 2^k) (h : brev k a = brev k b) : a = b := by
  rw [← brev_brev ha, ← brev_brev hb, h]

theorem brev_eq_zero {k i : Nat} (hi : i < 2^k) (h : brev k i = 0) : i = 0 := by
  rw [← brev_brev hi, h, brev_zero_right]

theorem tryInvert_some {v q r : Nat} (hq2 : 2 ≤ q) (hq : q < 2^61) (hv : v < 2^63)
    (h : tryInvert v q = .ok (some r)) : r < q ∧ (r * v) % q = 1 := by
  have hs := tryInvert_spec_partial hq2 hq (show v < 2^64 by omega) hv
  by_cases hc : v ≠ 0 ∧ Nat.gcd v q = 1
  · obtain ⟨r', h1, h2, h3⟩ := hs.1 hc
    rw [h] at h1
    injection h1 with h1; injection h1 with h1
    subst h1; exact ⟨h2, h3⟩
  · have h1 := hs.2 (by tauto)
    rw [h] at h1
    injection h1 with h1; cases h1

theorem arrFn_setIfInBounds_ne {α : Type} [Inhabited α] (tbl : Array α) {i j : Nat} (e : α) (hne : i ≠ j) :
    arrFn (tbl.setIfInBounds i e) j = arrFn tbl j := by
  by_cases hj : j < tbl.size <;> simp [arrFn, Array.getD, hj, hne]

theorem fill_spec {m : Modulus} (hm : m.WF) {op : MulOperand} (hop : WFOp m op) (idx : Nat → Nat) :
    ∀ (cnt i power : Nat) (tbl : Array MulOperand), power = op.operand ^ i % m.value →
      ∃ tbl', NTTTables.new.fill m tbl op idx cnt i power = .ok tbl' ∧ tbl'.size = tbl.size ∧
        (∀ j, (∀ a, i ≤ a → a < i + cnt → idx a ≠ j) → arrFn tbl' j = arrFn tbl j) ∧
        ((∀ a b, i ≤ a → a < i + cnt → i ≤ b → b < i + cnt → idx a = idx b → a = b) →
         (∀ a, i ≤ a → a < i + cnt → idx a < tbl.size) →
         ∀ a, i ≤ a → a < i + cnt → WFOp m (arrFn tbl' (idx a)) ∧
            (arrFn tbl' (idx a)).operand = op.operand ^ a % m.value) := by
  have hq2 := hm.two_le
  have hq61 := hm.lt
  intro cnt
  induction cnt with
  | zero =>
    intro i power tbl _
    refine ⟨tbl, rfl, rfl, fun j _ => rfl, ?_⟩
    intro _ _ a h1 h2; omega
  | succ cnt ih =>
    intro i power tbl hpow
    have hplt : power < m.value := by rw [hpow]; exact Nat.mod_lt _ (by omega)
    obtain ⟨e, he, he1, he2⟩ := mulOperand_new hm hplt
    have hstep : mulOperandMod power op m = .ok ((power * op.operand) % m.value) :=
      mulOperandMod_exact hm (by omega) hop.1 (WFOp.new_eq hm hop)
    have hpow' : (power * op.operand) % m.value = op.operand ^ (i+1) % m.value := by
      rw [hpow, pow_succ, Nat.mod_mul_mod]
    obtain ⟨tbl', h1, h2, h3, h4⟩ := ih (i+1) _ (tbl.setIfInBounds (idx i) e) hpow'
    refine ⟨tbl', ?_, ?_, ?_, ?_⟩
    · rw [NTTTables.new.fill]
      simp only [bind, Except.bind, he, hstep]
      exact h1
    · rw [h2, Array.size_setIfInBounds]
    · intro j hj
      rw [h3 j (fun a ha1 ha2 => hj a (by omega) (by omega))]
      have hne : idx i ≠ j := hj i (le_refl _) (by omega)
      exact arrFn_setIfInBounds_ne _ _ hne
    · intro hinj hbd a ha1 ha2
      rcases Nat.eq_or_lt_of_le ha1 with heq | hlt
      · subst heq
        have hun : arrFn tbl' (idx i) = arrFn (tbl.setIfInBounds (idx i) e) (idx i) := by
          apply h3
          intro a ha1 ha2 heq
          have := hinj a i (by omega) (by omega) (le_refl _) (by omega) heq
          omega
        have hb := hbd i (le_refl _) (by omega)
        have hval : arrFn (tbl.setIfInBounds (idx i) e) (idx i) = e := by
          simp [arrFn, Array.getD, hb]
        rw [hun, hval]
        refine ⟨⟨by rw [he1]; exact hplt, by rw [he2, he1]⟩, by rw [he1, hpow]⟩
      · apply h4
        · intro a b h1 h2 h3 h4; exact hinj a b (by omega) (by omega) (by omega) (by omega)
        · intro a h1 h2; rw [Array.size_setIfInBounds]; exact hbd a (by omega) (by omega)
        · omega
        · omega


/-- `isPrimitiveRoot` accepted a (possibly unreduced) u64 value: its residue is a primitive root, and for n = 1
    the value itself is reduced -/
theorem isPrimitiveRoot_inv {m : Modulus} (hm : m.WF) {n g : Nat} (hg : g < 2^64) (hn0 : 0 < n) (hn : 2 * n < 2^64)
    (h : isPrimitiveRoot g (2*n) m = .ok true) :
    IsPrim n m.value (g % m.value) ∧ (n = 1 → g < m.value) := by
  have hq2 := hm.two_le
  unfold isPrimitiveRoot at h
  split at h
  · simp [pure, Except.pure] at h
  · have hdiv : 2 * n / 2 = n := by omega
    rw [hdiv, exponentiateMod_exact (mulMod_exact hm) hm hg (by omega)] at h
    simp only [bind, Except.bind, pure, Except.pure] at h
    rw [if_neg (by omega)] at h
    injection h with h'
    have h2 := of_decide_eq_true h'
    clear h'
    have hlt : g % m.value < m.value := Nat.mod_lt _ (by omega)
    split at h2
    · rename_i h1
      subst h1
      have hgq : g < m.value := by omega
      refine ⟨⟨?_, hlt, ?_⟩, fun _ => hgq⟩
      · rw [Nat.mod_eq_of_lt hgq]; omega
      · rw [Nat.mod_eq_of_lt hgq, pow_one, Nat.mod_eq_of_lt hgq]; exact h2
    · have hp : (g % m.value) ^ n % m.value = m.value - 1 := by rw [← Nat.pow_mod]; exact h2
      refine ⟨⟨?_, hlt, hp⟩, fun h1 => by omega⟩
      rcases Nat.eq_zero_or_pos (g % m.value) with h0 | h0
      · rw [h0, zero_pow (by omega), Nat.zero_mod] at hp; omega
      · exact h0

theorem minGo_weak {m : Modulus} (hm : m.WF) (g : Nat) :
    ∀ (c t best cur : Nat), cur = g^(2*t+1) % m.value →
      ∃ r, minimalRootFrom.go m (g * g % m.value) c best cur = .ok r ∧
        (r = best ∨ ∃ j, r = g^(2*j+1) % m.value) ∧ (0 < c → r ≤ cur) ∧ r ≤ best := by
  have hq : m.value < 2^64 := lt_trans hm.lt (by norm_num)
  have hq0 : 0 < m.value := lt_of_lt_of_le (by norm_num) hm.two_le
  have hmod : ∀ z, z % m.value < 2^64 := fun z => lt_trans (Nat.mod_lt _ hq0) hq
  intro c
  induction c with
  | zero =>
    intro t best cur _
    exact ⟨best, by simp [minimalRootFrom.go, pure, Except.pure], Or.inl rfl, fun h => by omega, le_refl _⟩
  | succ c ih =>
    intro t best cur hcur
    rw [minimalRootFrom.go]
    have hcur64 : cur < 2^64 := by rw [hcur]; exact hmod _
    simp only [bind, Except.bind, mulMod_exact hm hcur64 (hmod (g * g))]
    have hcur' : cur * (g * g % m.value) % m.value = g^(2*(t+1)+1) % m.value := by
      rw [hcur, odd_pow_step]
    obtain ⟨r, hr, hr1, _, hr3⟩ := ih (t+1) (if cur < best then cur else best) _ hcur'
    refine ⟨r, hr, ?_, ?_, ?_⟩
    · rcases hr1 with h1 | h1
      · split at h1
        · exact Or.inr ⟨t, by rw [h1, hcur]⟩
        · exact Or.inl h1
      · exact Or.inr h1
    · intro _
      split at hr3 <;> omega
    · split at hr3 <;> omega

theorem minimalRootFrom_inv {m : Modulus} (hm : m.WF) {n g r : Nat} (hn : 0 < n) (hg : g < 2^64)
    (hg1 : n = 1 → g < m.value) (h : minimalRootFrom (2*n) m g = .ok r) :
    r < m.value ∧ ∃ j, r = (g % m.value)^(2*j+1) % m.value := by
  have hq : m.value < 2^64 := lt_trans hm.lt (by norm_num)
  have hq0 : 0 < m.value := lt_of_lt_of_le (by norm_num) hm.two_le
  unfold minimalRootFrom at h
  simp only [bind, Except.bind, mulMod_exact hm hg hg] at h
  have hdiv : (2 * n + 1) / 2 = n := by omega
  rw [hdiv] at h
  obtain ⟨c, rfl⟩ : ∃ c, n = c + 1 := ⟨n - 1, by omega⟩
  rw [minimalRootFrom.go] at h
  have hgg : g * g % m.value = (g % m.value) * (g % m.value) % m.value := Nat.mul_mod _ _ _
  have hsq64 : g * g % m.value < 2^64 := lt_trans (Nat.mod_lt _ hq0) hq
  simp only [bind, Except.bind, mulMod_exact hm hg hsq64, lt_irrefl, if_false] at h
  have hcur : g * (g * g % m.value) % m.value = (g % m.value)^(2*1+1) % m.value := by
    rw [Nat.mul_mod, Nat.mod_mod, ← Nat.mul_mod, ← Nat.pow_mod]
    congr 1; ring
  rw [hgg] at h
  obtain ⟨r', hr', h1, h2, _⟩ := minGo_weak hm (g % m.value) c 1 g _ (hgg ▸ hcur)
  rw [hr'] at h
  injection h with h
  subst h
  have hodd : ∀ j, (g % m.value)^(2*j+1) % m.value < m.value := fun j => Nat.mod_lt _ hq0
  rcases h1 with h1 | ⟨j, hj⟩
  · -- r = g
    have hgq : g < m.value := by
      rcases Nat.eq_zero_or_pos c with hc | hc
      · exact hg1 (by omega)
      · have := h2 hc
        have := hodd 1
        rw [hgg] at *
        omega
    rw [h1]
    exact ⟨hgq, 0, by simp [Nat.mod_eq_of_lt hgq]⟩
  · exact ⟨hj ▸ hodd j, j, hj⟩


/-- structural inversion of a successful `NTTTables.new` -/
theorem NTTTables.new_inv {k : Nat} {m : Modulus} {pr : Bool} {root0 : Nat} {t : NTTTables}
    (h : NTTTables.new k m pr root0 = .ok t) :
    pr = true ∧ 2 ≤ m.value ∧ (m.value - 1) % (2 * 2^k) = 0 ∧
    isPrimitiveRoot root0 (2 * 2^k) m = .ok true ∧
    ∃ root invRoot rootOp one rp invOp irp dinv d,
      minimalRootFrom (2 * 2^k) m root0 = .ok root ∧
      tryInvert root m.value = .ok (some invRoot) ∧
      MulOperand.new root m = .ok rootOp ∧
      MulOperand.new 1 m = .ok one ∧
      NTTTables.new.fill m (Array.replicate (2^k) default) rootOp (fun i => brev k i) (2^k - 1) 1 root = .ok rp ∧
      MulOperand.new invRoot m = .ok invOp ∧
      NTTTables.new.fill m (Array.replicate (2^k) default) invOp (fun i => brev k (i-1) + 1) (2^k - 1) 1 invRoot
        = .ok irp ∧
      tryInvert (2^k) m.value = .ok (some dinv) ∧
      MulOperand.new dinv m = .ok d ∧
      t = ⟨k, m, root, rp.setIfInBounds 0 one, irp.setIfInBounds 0 one, d⟩ := by
  unfold NTTTables.new at h
  simp only [bind, Except.bind] at h
  split at h
  · cases h
  rename_i hpr
  split at h
  · cases h
  rename_i hq2
  split at h
  · cases h
  rename_i hdiv
  split at h
  · cases h
  rename_i okr hokr
  split at h
  · cases h
  rename_i hokr2
  split at h
  · cases h
  rename_i root hroot
  split at h
  · cases h
  rename_i inv hinv
  split at h
  · cases h
  rename_i invRoot
  split at h
  · cases h
  rename_i rootOp hrootOp
  split at h
  · cases h
  rename_i one hone
  split at h
  · cases h
  rename_i rp hrp
  split at h
  · cases h
  rename_i invOp hinvOp
  split at h
  · cases h
  rename_i irp hirp
  split at h
  · cases h
  rename_i invN hinvN
  split at h
  · cases h
  rename_i dinv
  split at h
  · cases h
  rename_i d hd
  simp only [pure, Except.pure] at h
  injection h with h
  refine ⟨by simpa using hpr, by omega, by simpa using hdiv, ?_, root, invRoot, rootOp, one, rp, invOp, irp, dinv, d,
    hroot, hinv, hrootOp, hone, hrp, hinvOp, hirp, hinvN, hd, h.symm⟩
  have : okr = true := by simpa using hokr2
  rw [hokr, this]


/-- entries of the forward table -/
theorem rp_entries {m : Modulus} (hm : m.WF) {k : Nat} {rootOp one : MulOperand} {root : Nat} {rp : Array MulOperand}
    (hop : WFOp m rootOp) (hroot : rootOp.operand = root) (hlt : root < m.value)
    (h : NTTTables.new.fill m (Array.replicate (2^k) default) rootOp (fun i => brev k i) (2^k - 1) 1 root = .ok rp) :
    (rp.setIfInBounds 0 one).size = 2^k ∧
    ∀ j, 0 < j → j < 2^k → WFOp m (arrFn (rp.setIfInBounds 0 one) j) ∧
        (arrFn (rp.setIfInBounds 0 one) j).operand = root ^ (brev k j) % m.value := by
  obtain ⟨tbl', h1, h2, _, h4⟩ := fill_spec hm hop (fun i => brev k i) (2^k - 1) 1 root
    (Array.replicate (2^k) default) (by rw [hroot, pow_one, Nat.mod_eq_of_lt hlt])
  rw [h] at h1
  injection h1 with h1
  subst h1
  have hp : 0 < 2^k := Nat.two_pow_pos k
  refine ⟨by rw [Array.size_setIfInBounds, h2, Array.size_replicate], fun j hj0 hj => ?_⟩
  rw [arrFn_setIfInBounds_ne _ _ (by omega : 0 ≠ j)]
  have hb : brev k j < 2^k := brev_lt k j
  have hb0 : 0 < brev k j := by
    rcases Nat.eq_zero_or_pos (brev k j) with h0 | h0
    · have := brev_eq_zero hj h0; omega
    · exact h0
  have := h4
    (fun a b ha1 ha2 hb1 hb2 hab => brev_inj (by omega) (by omega) hab)
    (fun a _ _ => by rw [Array.size_replicate]; exact brev_lt k a)
    (brev k j) (by omega) (by omega)
  simp only [brev_brev hj, hroot] at this
  exact this

/-- entries of the inverse table -/
theorem irp_entries {m : Modulus} (hm : m.WF) {k : Nat} {invOp one : MulOperand} {ri : Nat} {irp : Array MulOperand}
    (hop : WFOp m invOp) (hroot : invOp.operand = ri) (hlt : ri < m.value)
    (h : NTTTables.new.fill m (Array.replicate (2^k) default) invOp (fun i => brev k (i-1) + 1) (2^k - 1) 1 ri = .ok irp) :
    (irp.setIfInBounds 0 one).size = 2^k ∧
    ∀ p, 0 < p → p < 2^k → WFOp m (arrFn (irp.setIfInBounds 0 one) p) ∧
        (arrFn (irp.setIfInBounds 0 one) p).operand = ri ^ (brev k (p-1) + 1) % m.value := by
  obtain ⟨tbl', h1, h2, _, h4⟩ := fill_spec hm hop (fun i => brev k (i-1) + 1) (2^k - 1) 1 ri
    (Array.replicate (2^k) default) (by rw [hroot, pow_one, Nat.mod_eq_of_lt hlt])
  rw [h] at h1
  injection h1 with h1
  subst h1
  have hp : 0 < 2^k := Nat.two_pow_pos k
  have hbound : ∀ a, a < 2^k - 1 → brev k a < 2^k - 1 := by
    intro a ha
    have h1 := brev_lt k a
    rcases Nat.lt_or_ge (brev k a) (2^k - 1) with h | h
    · exact h
    · have e : brev k a = 2^k - 1 := by omega
      have := brev_brev (show a < 2^k by omega)
      rw [e, brev_allones] at this
      omega
  refine ⟨by rw [Array.size_setIfInBounds, h2, Array.size_replicate], fun p hp0 hpk => ?_⟩
  rw [arrFn_setIfInBounds_ne _ _ (by omega : 0 ≠ p)]
  have hb := hbound (p-1) (by omega)
  have := h4
    (fun a b ha1 ha2 hb1 hb2 hab => by
      have := brev_inj (show a - 1 < 2^k by omega) (show b - 1 < 2^k by omega) (by omega)
      omega)
    (fun a ha1 ha2 => by
      rw [Array.size_replicate]
      have := hbound (a-1) (by omega)
      omega)
    (brev k (p-1) + 1) (by omega) (by omega)
  simp only [Nat.add_sub_cancel, brev_brev (show p - 1 < 2^k by omega), hroot] at this
  have e : p - 1 + 1 = p := by omega
  rw [e] at this
  exact this

theorem NTTTables.new_wf_u64 {k : Nat} {m : Modulus} {pr : Bool} {root0 : Nat} {t : NTTTables}
    (hm : m.WF) (hk : k ≤ 60) (hr0 : root0 < 2^64) (h : NTTTables.new k m pr root0 = .ok t) :
    t.WF ∧ t.k = k ∧ t.modulus = m ∧ pr = true := by
  obtain ⟨hpr, hq2, hdiv, hprim, root, invRoot, rootOp, one, rp, invOp, irp, dinv, d,
    hroot, hinv, hrootOp, hone, hrp, hinvOp, hirp, hinvN, hd, ht⟩ := NTTTables.new_inv h
  have hq61 := hm.lt
  have hp : 0 < 2^k := Nat.two_pow_pos k
  have hklt : 2^(k+1) < 2^62 := Nat.pow_lt_pow_right (by norm_num) (by omega)
  have hk63 : 2^k < 2^62 := Nat.pow_lt_pow_right (by norm_num) (by omega)
  have h2n : 2 * 2^k < 2^64 := by rw [pow_succ] at hklt; omega
  have hq3 : 2 < m.value := by
    have := Nat.le_of_dvd (by omega) (Nat.dvd_of_mod_eq_zero hdiv)
    omega
  obtain ⟨hg, hg1⟩ := isPrimitiveRoot_inv hm hr0 hp h2n hprim
  obtain ⟨hrlt, j, hrj⟩ := minimalRootFrom_inv hm hp hr0 hg1 hroot
  have hrP : IsPrim (2^k) m.value root := hrj ▸ isPrim_odd_pow hq3 hp hg j
  obtain ⟨hri, hrinv⟩ := tryInvert_some hq2 hq61 (by omega) hinv
  obtain ⟨hdi, hdinv⟩ := tryInvert_some hq2 hq61 (by omega) hinvN
  obtain ⟨ro1, ro2⟩ := mulOperand_new_eq hm hrlt hrootOp
  obtain ⟨io1, io2⟩ := mulOperand_new_eq hm hri hinvOp
  obtain ⟨d1, d2⟩ := mulOperand_new_eq hm hdi hd
  obtain ⟨rs, re⟩ := rp_entries (one := one) hm ⟨by rw [ro1]; exact hrlt, by rw [ro2, ro1]⟩ ro1 hrlt hrp
  obtain ⟨is, ie⟩ := irp_entries (one := one) hm ⟨by rw [io1]; exact hri, by rw [io2, io1]⟩ io1 hri hirp
  subst ht
  refine ⟨⟨hm, hklt, hrlt, hrP.2.2, rs, re, is, ⟨invRoot, hri, ?_, ie⟩, ⟨?_, ?_⟩⟩, rfl, rfl, hpr⟩
  · show (root * invRoot) % m.value = 1
    rw [Nat.mul_comm]; exact hrinv
  · exact ⟨by rw [d1]; exact hdi, by rw [d2, d1]⟩
  · show (d.operand * 2^k) % m.value = 1
    rw [d1]; exact hdinv


/-- the TABLE LINK as originally stated, WITHOUT a bound on `root0` -/
def NTTTables.new_wf_Statement : Prop :=
  ∀ {k : Nat} {m : Modulus} {pr : Bool} {root0 : Nat} {t : NTTTables},
    m.WF → k ≤ 60 → NTTTables.new k m pr root0 = .ok t → t.WF ∧ t.k = k ∧ t.modulus = m ∧ pr = true

def cexM : Modulus := ⟨1152921504606846869, 27392, 16, 2930944, 60⟩
def cexRoot0 : Nat := 121844678647361623314922772

theorem cexM_wf : cexM.WF :=
  ⟨by decide, by decide, by simp only [cexM, B64]; norm_num, by simp only [cexM, B64]; norm_num, by simp only [cexM]; norm_num⟩

def rootOf : R NTTTables → Option Nat
  | .ok t => some t.root
  | .error _ => none

theorem cex_eval : rootOf (NTTTables.new 1 cexM true cexRoot0) = some 880585176969361125 := by decide

theorem NTTTables.new_wf_Statement_false : ¬ NTTTables.new_wf_Statement := by
  intro hS
  have he := cex_eval
  cases hnew : NTTTables.new 1 cexM true cexRoot0 with
  | error e => rw [hnew] at he; cases he
  | ok t =>
    rw [hnew] at he
    have hr : t.root = 880585176969361125 := by injection he
    obtain ⟨hw, hk, hmod, _⟩ := hS cexM_wf (by norm_num) hnew
    have := hw.root_pow
    rw [hk, hmod, hr] at this
    revert this
    simp only [cexM]
    norm_num

variable {t : NTTTables}

/-- the exact evaluation the property documents: Σ_j a_j · (ψ^(2·brev k i + 1))^j mod q -/
def evalSpec (t : NTTTables) (a : Array Nat) (i : Nat) : Nat :=
  (∑ j ∈ range (2^t.k), a.getD j 0 * (t.root ^ (2 * brev t.k i + 1)) ^ j) % t.modulus.value

/-! ### helpers -/

theorem arrFn_nat (a : Array Nat) (i : Nat) : arrFn a i = a.getD i 0 := rfl

theorem getD_map_lt (f : Nat → Nat) (a : Array Nat) {i : Nat} (hi : i < a.size) :
    (a.map f).getD i 0 = f (a.getD i 0) := by
  simp [Array.getD, hi]

theorem runFwd_smul {R : Type} [CommRing R] (k : Nat) (roots v : Nat → R) (c : R) :
    ∀ l p, runFwd (exactArith R) k roots (fun q => c * v q) l p = c * runFwd (exactArith R) k roots v l p := by
  intro l
  induction l with
  | zero => intro p; rfl
  | succ l ih =>
    intro p
    show fwdLayer (exactArith R) k l roots (runFwd (exactArith R) k roots (fun q => c * v q) l) p = _
    have : runFwd (exactArith R) k roots (fun q => c * v q) l
        = fun q => c * runFwd (exactArith R) k roots v l q := funext ih
    rw [this, fwdLayer_smul]; rfl

/-- the ZMod-level facts carried by a well-formed table -/
structure ZFacts (t : NTTTables) : Prop where
  q2 : 2 ≤ t.modulus.value
  q61 : t.modulus.value < 2^61
  psi : ((t.root : ZMod t.modulus.value))^(2^t.k) = -1
  roots : ∀ j, 0 < j → j < 2^t.k →
    (fun j => (((arrFn t.rootPowers j).operand : Nat) : ZMod t.modulus.value)) j
      = (t.root : ZMod t.modulus.value)^(brev t.k j)
  rwf : ∀ j, 0 < j → j < 2^t.k → WFOp t.modulus (arrFn t.rootPowers j)
  irwf : ∀ j, 0 < j → j < 2^t.k → WFOp t.modulus (arrFn t.invRootPowers j)
  inv : ∃ ψi : ZMod t.modulus.value, (t.root : ZMod t.modulus.value) * ψi = 1 ∧
    ∀ p, 0 < p → p < 2^t.k →
      (fun j => (((arrFn t.invRootPowers j).operand : Nat) : ZMod t.modulus.value)) p = ψi^(brev t.k (p-1) + 1)
  deg : ((t.invDegree.operand : Nat) : ZMod t.modulus.value) * 2^t.k = 1

theorem NTTTables.WF.zfacts (hw : t.WF) : ZFacts t := by
  have hq2 := hw.mwf.two_le
  refine ⟨hq2, hw.mwf.lt, ?_, ?_, fun j h0 h1 => (hw.rp j h0 h1).1, ?_, ?_, ?_⟩
  · exact (pow_mod_eq_pred_iff (by omega) _ _).mp hw.root_pow
  · intro j h0 h1
    show (((arrFn t.rootPowers j).operand : Nat) : ZMod t.modulus.value) = _
    rw [(hw.rp j h0 h1).2, ZMod.natCast_mod, Nat.cast_pow]
  · obtain ⟨ri, _, _, h3⟩ := hw.irp
    exact fun j h0 h1 => (h3 j h0 h1).1
  · obtain ⟨ri, _, h2, h3⟩ := hw.irp
    refine ⟨(ri : ZMod t.modulus.value), ?_, ?_⟩
    · rw [← Nat.cast_mul, ← ZMod.natCast_mod, h2, Nat.cast_one]
    · intro p h0 h1
      show (((arrFn t.invRootPowers p).operand : Nat) : ZMod t.modulus.value) = _
      rw [(h3 p h0 h1).2, ZMod.natCast_mod, Nat.cast_pow]
  · have := hw.inv_deg.2
    have h2 : (((t.invDegree.operand * 2^t.k : Nat)) : ZMod t.modulus.value) = 1 := by
      rw [← ZMod.natCast_mod, this, Nat.cast_one]
    simpa using h2

theorem cast_inj_lt {q x y : Nat} (hx : x < q) (hy : y < q) (h : (x : ZMod q) = (y : ZMod q)) : x = y := by
  rw [ZMod.natCast_eq_natCast_iff', Nat.mod_eq_of_lt hx, Nat.mod_eq_of_lt hy] at h
  exact h

/-- `nttLazy` against the exact network -/
theorem nttLazy_sim (hw : t.WF) (a : Array Nat) (hs : a.size = 2^t.k)
    (ha : ∀ j, j < 2^t.k → a.getD j 0 < 4 * t.modulus.value) :
    (nttLazy t a).size = 2^t.k ∧ ∀ i, i < 2^t.k →
      (nttLazy t a).getD i 0 < 4 * t.modulus.value ∧
      (((nttLazy t a).getD i 0 : Nat) : ZMod t.modulus.value)
        = runFwd (exactArith (ZMod t.modulus.value)) t.k
            (fun j => (((arrFn t.rootPowers j).operand : Nat) : ZMod t.modulus.value))
            (fun p => ((a.getD p 0 : Nat) : ZMod t.modulus.value)) t.k i := by
  have hz := hw.zfacts
  obtain ⟨e1, e2⟩ := runFwdA_eq (modArithLazy t.modulus) t.k (arrFn t.rootPowers) a hs t.k le_rfl
  refine ⟨e1, fun i hi => ?_⟩
  have e3 : (nttLazy t a).getD i 0 = runFwd (modArithLazy t.modulus) t.k (arrFn t.rootPowers) (arrFn a) t.k i :=
    e2 i hi
  rw [e3]
  exact fwd_lazy_sim hw.mwf t.k (arrFn t.rootPowers) hz.rwf (arrFn a) ha t.k le_rfl i hi

/-- FORWARD, lazy form: inputs < 4q ⇒ outputs < 4q and congruent to the evaluations -/
theorem nttLazy_spec (hw : t.WF) (a : Array Nat) (hs : a.size = 2^t.k) (ha : ∀ j, j < 2^t.k → a.getD j 0 < 4 * t.modulus.value) :
    (nttLazy t a).size = 2^t.k ∧ ∀ i, i < 2^t.k →
      (nttLazy t a).getD i 0 < 4 * t.modulus.value ∧ (nttLazy t a).getD i 0 % t.modulus.value = evalSpec t a i := by
  have hz := hw.zfacts
  obtain ⟨e1, e2⟩ := nttLazy_sim hw a hs ha
  refine ⟨e1, fun i hi => ⟨(e2 i hi).1, ?_⟩⟩
  have h := (e2 i hi).2
  rw [fwd_eval t.k _ hz.psi _ hz.roots _ i hi] at h
  unfold evalSpec
  apply (ZMod.natCast_eq_natCast_iff' _ _ _).mp
  rw [h]
  push_cast
  rfl

/-- `ntt` against the exact network: canonical outputs -/
theorem ntt_sim (hw : t.WF) (a : Array Nat) (hs : a.size = 2^t.k)
    (ha : ∀ j, j < 2^t.k → a.getD j 0 < 4 * t.modulus.value) :
    (ntt t a).size = 2^t.k ∧ ∀ i, i < 2^t.k →
      (ntt t a).getD i 0 = (nttLazy t a).getD i 0 % t.modulus.value ∧
      (ntt t a).getD i 0 < t.modulus.value ∧
      (((ntt t a).getD i 0 : Nat) : ZMod t.modulus.value)
        = runFwd (exactArith (ZMod t.modulus.value)) t.k
            (fun j => (((arrFn t.rootPowers j).operand : Nat) : ZMod t.modulus.value))
            (fun p => ((a.getD p 0 : Nat) : ZMod t.modulus.value)) t.k i := by
  have hq2 := hw.mwf.two_le
  obtain ⟨e1, e2⟩ := nttLazy_sim hw a hs ha
  refine ⟨by simp [ntt, e1], fun i hi => ?_⟩
  have hv : (ntt t a).getD i 0 = (nttLazy t a).getD i 0 % t.modulus.value := by
    unfold ntt
    simp only []
    rw [getD_map_lt _ _ (by omega)]
    exact reduce4 (by omega) (e2 i hi).1
  refine ⟨hv, ?_, ?_⟩
  · rw [hv]; exact Nat.mod_lt _ (by omega)
  · rw [hv, ZMod.natCast_mod]; exact (e2 i hi).2

/-- FORWARD: `ntt` returns the canonical residues of the evaluations at ψ^(2·brev(i)+1) -/
theorem ntt_eval (hw : t.WF) (a : Array Nat) (hs : a.size = 2^t.k) (ha : ∀ j, j < 2^t.k → a.getD j 0 < 4 * t.modulus.value) :
    (ntt t a).size = 2^t.k ∧ ∀ i, i < 2^t.k → (ntt t a).getD i 0 = evalSpec t a i := by
  obtain ⟨e1, e2⟩ := ntt_sim hw a hs ha
  refine ⟨e1, fun i hi => ?_⟩
  rw [(e2 i hi).1]
  exact ((nttLazy_spec hw a hs ha).2 i hi).2

/-- `inttLazy` against the exact network -/
theorem inttLazy_sim (hw : t.WF) (a : Array Nat) (hs : a.size = 2^t.k)
    (ha : ∀ j, j < 2^t.k → a.getD j 0 < 2 * t.modulus.value) :
    (inttLazy t a).size = 2^t.k ∧ ∀ i, i < 2^t.k →
      (inttLazy t a).getD i 0 < 2 * t.modulus.value ∧
      (((inttLazy t a).getD i 0 : Nat) : ZMod t.modulus.value)
        = runInv (exactArith (ZMod t.modulus.value)) t.k
            (fun j => (((arrFn t.invRootPowers j).operand : Nat) : ZMod t.modulus.value))
            (fun p => ((a.getD p 0 : Nat) : ZMod t.modulus.value)) t.k i
          * ((t.invDegree.operand : Nat) : ZMod t.modulus.value) := by
  have hz := hw.zfacts
  have hq61 := hz.q61
  obtain ⟨e1, e2⟩ := runInvA_eq (modArithLazy t.modulus) t.k (arrFn t.invRootPowers) a hs t.k le_rfl
  refine ⟨by simp [inttLazy, transformFromRev, e1], fun i hi => ?_⟩
  obtain ⟨s1, s2⟩ := inv_lazy_sim hw.mwf t.k (arrFn t.invRootPowers) hz.irwf (arrFn a) ha t.k le_rfl i hi
  have hv : (inttLazy t a).getD i 0 = (modArithLazy t.modulus).mulRoot
      (runInv (modArithLazy t.modulus) t.k (arrFn t.invRootPowers) (arrFn a) t.k i) t.invDegree := by
    unfold inttLazy transformFromRev
    rw [getD_map_lt _ _ (by omega)]
    congr 1
    exact e2 i hi
  obtain ⟨m1, m2⟩ := mulRoot_lazy hw.mwf hw.inv_deg.1
    (x := runInv (modArithLazy t.modulus) t.k (arrFn t.invRootPowers) (arrFn a) t.k i) (by omega)
  rw [hv]
  refine ⟨m1, ?_⟩
  rw [m2, s2]
  rfl

/-- INVERSE, lazy form: inputs < 2q ⇒ outputs < 2q -/
theorem inttLazy_range (hw : t.WF) (a : Array Nat) (hs : a.size = 2^t.k) (ha : ∀ j, j < 2^t.k → a.getD j 0 < 2 * t.modulus.value) :
    (inttLazy t a).size = 2^t.k ∧ ∀ i, i < 2^t.k → (inttLazy t a).getD i 0 < 2 * t.modulus.value := by
  obtain ⟨e1, e2⟩ := inttLazy_sim hw a hs ha
  exact ⟨e1, fun i hi => (e2 i hi).1⟩

/-- `intt` against the exact network: canonical outputs -/
theorem intt_sim (hw : t.WF) (a : Array Nat) (hs : a.size = 2^t.k)
    (ha : ∀ j, j < 2^t.k → a.getD j 0 < 2 * t.modulus.value) :
    (intt t a).size = 2^t.k ∧ ∀ i, i < 2^t.k →
      (intt t a).getD i 0 < t.modulus.value ∧
      (((intt t a).getD i 0 : Nat) : ZMod t.modulus.value)
        = runInv (exactArith (ZMod t.modulus.value)) t.k
            (fun j => (((arrFn t.invRootPowers j).operand : Nat) : ZMod t.modulus.value))
            (fun p => ((a.getD p 0 : Nat) : ZMod t.modulus.value)) t.k i
          * ((t.invDegree.operand : Nat) : ZMod t.modulus.value) := by
  have hq2 := hw.mwf.two_le
  obtain ⟨e1, e2⟩ := inttLazy_sim hw a hs ha
  refine ⟨by simp [intt, e1], fun i hi => ?_⟩
  have hv : (intt t a).getD i 0 = (inttLazy t a).getD i 0 % t.modulus.value := by
    unfold intt
    simp only []
    rw [getD_map_lt _ _ (by omega)]
    exact reduce2 (by omega) (e2 i hi).1
  refine ⟨?_, ?_⟩
  · rw [hv]; exact Nat.mod_lt _ (by omega)
  · rw [hv, ZMod.natCast_mod]; exact (e2 i hi).2

theorem array_ext_getD {a b : Array Nat} {n : Nat} (ha : a.size = n) (hb : b.size = n)
    (h : ∀ i, i < n → a.getD i 0 = b.getD i 0) : a = b := by
  apply Array.ext (by omega)
  intro i h1 h2
  have := h i (by omega)
  simpa [Array.getD, h1, h2] using this

/-- INVERSE ∘ FORWARD = id on canonical vectors -/
theorem intt_ntt (hw : t.WF) (a : Array Nat) (hs : a.size = 2^t.k) (ha : ∀ j, j < 2^t.k → a.getD j 0 < t.modulus.value) :
    intt t (ntt t a) = a := by
  have hz := hw.zfacts
  obtain ⟨ψi, hinv, hir⟩ := hz.inv
  obtain ⟨f1, f2⟩ := ntt_sim hw a hs (fun j hj => by have := ha j hj; omega)
  obtain ⟨g1, g2⟩ := intt_sim hw (ntt t a) f1 (fun j hj => by have := (f2 j hj).2.1; omega)
  apply array_ext_getD g1 hs
  intro i hi
  apply cast_inj_lt (g2 i hi).1 (ha i hi)
  rw [(g2 i hi).2,
    runInv_congr t.k _ _ _ (fun p hp => (f2 p hp).2.2) t.k le_rfl i hi,
    inv_fwd t.k _ ψi hinv _ _ hz.roots hir _ i hi, mul_comm, ← mul_assoc, hz.deg, one_mul]

/-- FORWARD ∘ INVERSE = id on canonical vectors -/
theorem ntt_intt (hw : t.WF) (a : Array Nat) (hs : a.size = 2^t.k) (ha : ∀ j, j < 2^t.k → a.getD j 0 < t.modulus.value) :
    ntt t (intt t a) = a := by
  have hz := hw.zfacts
  obtain ⟨ψi, hinv, hir⟩ := hz.inv
  obtain ⟨g1, g2⟩ := intt_sim hw a hs (fun j hj => by have := ha j hj; omega)
  obtain ⟨f1, f2⟩ := ntt_sim hw (intt t a) g1 (fun j hj => by have := (g2 j hj).1; omega)
  apply array_ext_getD f1 hs
  intro i hi
  apply cast_inj_lt (f2 i hi).2.1 (ha i hi)
  have hpt : ∀ p, p < 2^t.k → (fun p => (((intt t a).getD p 0 : Nat) : ZMod t.modulus.value)) p
      = (fun p => ((t.invDegree.operand : Nat) : ZMod t.modulus.value) *
          runInv (exactArith (ZMod t.modulus.value)) t.k
            (fun j => (((arrFn t.invRootPowers j).operand : Nat) : ZMod t.modulus.value))
            (fun p => ((a.getD p 0 : Nat) : ZMod t.modulus.value)) t.k p) p := by
    intro p hp
    show (((intt t a).getD p 0 : Nat) : ZMod t.modulus.value) = _
    rw [(g2 p hp).2, mul_comm]
  rw [(f2 i hi).2.2, runFwd_congr t.k _ _ _ hpt t.k le_rfl i hi, runFwd_smul,
    fwd_inv t.k _ ψi hinv _ _ hz.roots hir _ i hi, ← mul_assoc, hz.deg, one_mul]

/-- negacyclic product modulo (X^n + 1, q) of canonical vectors, coefficient c, as a natural number < q -/
def negMulNat (n q : Nat) (a b : Array Nat) (c : Nat) : Nat :=
  ((∑ i ∈ range n, if i ≤ c then ((a.getD i 0 * b.getD (c - i) 0 : Nat) : Int)
                     else - ((a.getD i 0 * b.getD (n + c - i) 0 : Nat) : Int)) % (q : Int)).toNat

theorem foldlM_push (f : Array Nat → Nat → R (Array Nat)) (g : Nat → Nat) (l : List Nat)
    (hf : ∀ acc i, i ∈ l → f acc i = .ok (acc.push (g i))) (acc : Array Nat) :
    l.foldlM f acc = .ok (acc ++ (l.map g).toArray) := by
  induction l generalizing acc with
  | nil => simp [pure, Except.pure]
  | cons x l ih =>
    rw [List.foldlM_cons, hf acc x (by simp)]
    simp only [bind, Except.bind]
    rw [ih (fun acc i hi => hf acc i (by simp [hi]))]
    simp

theorem dyadicProduct_spec {m : Modulus} (h : m.WF) (x y : Array Nat)
    (hx : ∀ i, i < x.size → x.getD i 0 < 2^64) (hy : ∀ i, i < x.size → y.getD i 0 < 2^64) :
    ∃ p, dyadicProduct x y m = .ok p ∧ p.size = x.size ∧
      ∀ i, i < x.size → p.getD i 0 = (x.getD i 0 * y.getD i 0) % m.value := by
  refine ⟨#[] ++ ((List.range x.size).map (fun i => (x.getD i 0 * y.getD i 0) % m.value)).toArray, ?_, ?_, ?_⟩
  · unfold dyadicProduct
    apply foldlM_push _ (fun i => (x.getD i 0 * y.getD i 0) % m.value)
    intro acc i hi
    have hi' : i < x.size := by simpa using hi
    simp only [bind, Except.bind, mulMod_exact h (hx i hi') (hy i hi'), pure, Except.pure]
  · simp
  · intro i hi
    simp [Array.getD, hi]

theorem negMulNat_cast {q : Nat} (hq : 0 < q) (n : Nat) (a b : Array Nat) (c : Nat) :
    negMulNat n q a b c < q ∧
    ((negMulNat n q a b c : Nat) : ZMod q)
      = negMulR n (fun p => ((a.getD p 0 : Nat) : ZMod q)) (fun p => ((b.getD p 0 : Nat) : ZMod q)) c := by
  unfold negMulNat
  have hqz : (0 : Int) < (q : Int) := by exact_mod_cast hq
  generalize hS : (∑ i ∈ range n, if i ≤ c then ((a.getD i 0 * b.getD (c - i) 0 : Nat) : Int)
                     else - ((a.getD i 0 * b.getD (n + c - i) 0 : Nat) : Int)) = S
  have hnn : 0 ≤ S % (q : Int) := Int.emod_nonneg _ (by omega)
  have hlt : S % (q : Int) < q := Int.emod_lt_of_pos _ hqz
  constructor
  · omega
  · have e1 : (((S % (q : Int)).toNat : Nat) : ZMod q) = (((S % (q : Int)).toNat : Int) : ZMod q) := by
      rw [Int.cast_natCast]
    rw [e1, Int.toNat_of_nonneg hnn, ZMod.intCast_mod, ← hS]
    unfold negMulR
    rw [Int.cast_sum]
    apply sum_congr rfl
    intro i _
    split <;> push_cast <;> rfl

/-- CONVOLUTION: pointwise multiplication of transforms corresponds to multiplication modulo X^N + 1 -/
theorem ntt_convolution_api (hw : t.WF) (a b : Array Nat) (hsa : a.size = 2^t.k) (hsb : b.size = 2^t.k)
    (ha : ∀ j, j < 2^t.k → a.getD j 0 < t.modulus.value) (hb : ∀ j, j < 2^t.k → b.getD j 0 < t.modulus.value) :
    ∃ p, dyadicProduct (ntt t a) (ntt t b) t.modulus = .ok p ∧
      (intt t p).size = 2^t.k ∧ ∀ c, c < 2^t.k → (intt t p).getD c 0 = negMulNat (2^t.k) t.modulus.value a b c := by
  have hz := hw.zfacts
  have hq2 := hz.q2
  have hq61 := hz.q61
  obtain ⟨ψi, hinv, hir⟩ := hz.inv
  obtain ⟨fa1, fa2⟩ := ntt_sim hw a hsa (fun j hj => by have := ha j hj; omega)
  obtain ⟨fb1, fb2⟩ := ntt_sim hw b hsb (fun j hj => by have := hb j hj; omega)
  obtain ⟨p, hp, hps, hpv⟩ := dyadicProduct_spec hw.mwf (ntt t a) (ntt t b)
    (fun i hi => by have := (fa2 i (by omega)).2.1; omega)
    (fun i hi => by have := (fb2 i (by omega)).2.1; omega)
  rw [fa1] at hps hpv
  have hplt : ∀ j, j < 2^t.k → p.getD j 0 < 2 * t.modulus.value := by
    intro j hj
    rw [hpv j hj]
    have := Nat.mod_lt ((ntt t a).getD j 0 * (ntt t b).getD j 0) (show 0 < t.modulus.value by omega)
    omega
  obtain ⟨g1, g2⟩ := intt_sim hw p hps hplt
  refine ⟨p, hp, g1, fun c hc => ?_⟩
  obtain ⟨n1, n2⟩ := negMulNat_cast (show 0 < t.modulus.value by omega) (2^t.k) a b c
  apply cast_inj_lt (g2 c hc).1 n1
  have hpt : ∀ i, i < 2^t.k → (fun i => ((p.getD i 0 : Nat) : ZMod t.modulus.value)) i
      = (fun i => runFwd (exactArith (ZMod t.modulus.value)) t.k
            (fun j => (((arrFn t.rootPowers j).operand : Nat) : ZMod t.modulus.value))
            (fun p => ((a.getD p 0 : Nat) : ZMod t.modulus.value)) t.k i
          * runFwd (exactArith (ZMod t.modulus.value)) t.k
            (fun j => (((arrFn t.rootPowers j).operand : Nat) : ZMod t.modulus.value))
            (fun p => ((b.getD p 0 : Nat) : ZMod t.modulus.value)) t.k i) i := by
    intro i hi
    show ((p.getD i 0 : Nat) : ZMod t.modulus.value) = _
    rw [hpv i hi, ZMod.natCast_mod, Nat.cast_mul, (fa2 i hi).2.2, (fb2 i hi).2.2]
  rw [(g2 c hc).2, runInv_congr t.k _ _ _ hpt t.k le_rfl c hc,
    ntt_convolution t.k _ ψi hz.psi hinv _ _ hz.roots hir _ _ c hc, n2, mul_comm, ← mul_assoc, hz.deg, one_mul]

end HC
