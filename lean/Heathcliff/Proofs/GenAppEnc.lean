/-
  Translator phase 4h, second round: the positions written by `MatmulHelper::encode_weight_small_bfv` and by the block loop of
  `MatmulHelper::encode_inputs_bfv` (src/app/matmul/cheetah.rs, fragments; plan = position, source index, position, source index, …)
  = the write lists of the model's `encWeightSmall` / `encInputBlock` (`wPos`, `inPos` of Model/Matmul.lean).  Helper prefix `ga_`.
-/
import Heathcliff.Proofs.GenAppC20

namespace HC
open HC.MM HC.GenApp

/-- a `for j in lo..lo+k { … }` loop whose body appends a list per iteration -/
theorem ga_forUp_pushL (f : Nat → List Nat → R (Ctl (List Nat))) (val : Nat → List Nat) (lo k : Nat) (l : List Nat)
    (h : ∀ j l, lo ≤ j → j < lo + k → f j l = .ok (.next (l ++ val j))) :
    forUp lo k l f = .ok (l ++ (List.range k).flatMap fun a => val (lo + a)) := by
  have := ga_forUp_eq' id (fun (l : List Nat) j => l ++ val j) f k lo l (fun j t h1 h2 => h j t h1 h2)
  simp only [id] at this
  rw [this, ga_foldl_append val, List.range'_eq_map_range, List.flatMap_map]

/-- a flat plan `p0, s0, p1, s1, …` as (position, source index) pairs -/
def ga_unflat2 : List Nat → List (Nat × Nat)
  | a :: b :: rest => (a, b) :: ga_unflat2 rest
  | _ => []

theorem ga_unflat2_flat {β : Type} (xs : List β) (P S : β → Nat) :
    ga_unflat2 (xs.flatMap fun x => [P x, S x]) = xs.map fun x => (P x, S x) := by
  induction xs with
  | nil => rfl
  | cons x xs ih => simp [List.flatMap_cons, ga_unflat2, ih]

theorem ga_pairs_flat (A C : Nat) (P S : Nat → Nat → Nat) :
    ((List.range A).flatMap fun a => (List.range C).flatMap fun c => [P a c, S a c])
      = (pairs A C).flatMap fun p => [P p.1 p.2, S p.1 p.2] := by
  simp [pairs, List.flatMap_assoc, List.flatMap_map]

/-! ### `encode_inputs_bfv`: the block loop -/

/-- **generated positions of one input block = `inPos`** : rows `li..ui` (at most `batch_block`), columns `lj..uj` (at most `input_block`) -/
theorem ga_mm_input_positions_eq (H : MatmulHelper) (li ui lj uj : Nat) (hfit : H.batch_block * H.input_block * H.output_block ≤ H.poly_degree)
    (hn : H.poly_degree < 2^64) (hob : 1 ≤ H.output_block) (hrows : ui - li ≤ H.batch_block) (hcols : uj - lj ≤ H.input_block)
    (hsrc : ui * H.input_dims + uj < 2^64) :
    mm_input_positions H li ui lj uj = .ok ((pairs (ui - li) (uj - lj)).flatMap fun p =>
      [inPos (ga_toHelper H) p.1 p.2, (li + p.1) * H.input_dims + (lj + p.2)]) := by
  have inner : ∀ a, a < ui - li → ∀ j l, lj ≤ j → j < lj + (uj - lj) →
      mm_input_positions_loop1 H li lj (li + a) j l
        = .ok (.next (l ++ [inPos (ga_toHelper H) a (j - lj), (li + a) * H.input_dims + j])) := by
    intro a ha j l h1 h2
    have e2 : a * (H.input_block * H.output_block) + H.input_block * H.output_block ≤ H.batch_block * (H.input_block * H.output_block) :=
      ga_succ_mul_le (show a < H.batch_block by omega)
    rw [← Nat.mul_assoc, ← Nat.mul_assoc] at e2
    have e1 : a * H.input_block ≤ a * H.input_block * H.output_block := Nat.le_mul_of_pos_right _ (by omega)
    have e3 : H.input_block ≤ H.input_block * H.output_block := Nat.le_mul_of_pos_right _ (by omega)
    have e4 : (li + a) * H.input_dims ≤ ui * H.input_dims := Nat.mul_le_mul_right _ (by omega)
    simp only [mm_input_positions_loop1, ga_ckSub (show li ≤ li + a by omega), Nat.add_sub_cancel_left,
      ga_ckMul (show a * H.input_block < 2^64 by omega), ga_ckMul (show a * H.input_block * H.output_block < 2^64 by omega),
      ga_ckSub h1, ga_ckAdd (show a * H.input_block * H.output_block + (j - lj) < 2^64 by omega), ga_ok_bind,
      if_pos (show a * H.input_block * H.output_block + (j - lj) < H.poly_degree by omega),
      ga_ckMul (show (li + a) * H.input_dims < 2^64 by omega), ga_ckAdd (show (li + a) * H.input_dims + j < 2^64 by omega)]
    simp [pure, Except.pure, inPos, ga_toHelper]
  have outer : ∀ i l, li ≤ i → i < li + (ui - li) →
      mm_input_positions_loop2 H li lj uj i l
        = .ok (.next (l ++ (List.range (uj - lj)).flatMap fun b => [inPos (ga_toHelper H) (i - li) b, i * H.input_dims + (lj + b)])) := by
    intro i l h1 h2
    obtain ⟨a, rfl⟩ : ∃ a, i = li + a := ⟨i - li, by omega⟩
    simp only [mm_input_positions_loop2,
      ga_forUp_pushL _ (fun j => [inPos (ga_toHelper H) a (j - lj), (li + a) * H.input_dims + j]) lj (uj - lj) l
        (fun j l h1 h2 => inner a (by omega) j l h1 h2), ga_ok_bind, Nat.add_sub_cancel_left]
    rfl
  simp only [mm_input_positions,
    ga_forUp_pushL _ (fun i => (List.range (uj - lj)).flatMap fun b => [inPos (ga_toHelper H) (i - li) b, i * H.input_dims + (lj + b)])
      li (ui - li) [] (fun i l h1 h2 => outer i l h1 h2), ga_ok_bind, List.nil_append, Nat.add_sub_cancel_left]
  rw [ga_pairs_flat (ui - li) (uj - lj) (fun a b => inPos (ga_toHelper H) a b) (fun a b => (li + a) * H.input_dims + (lj + b))]

/-- ... hence the model's input-block encoder writes exactly at the generated positions, reading the generated source indices -/
theorem ga_encInputBlock_plan {α : Type} (H : MatmulHelper) (zero : α) (x : Nat → α) (li ui lj uj : Nat)
    (hfit : H.batch_block * H.input_block * H.output_block ≤ H.poly_degree)
    (hn : H.poly_degree < 2^64) (hob : 1 ≤ H.output_block) (hrows : ui - li ≤ H.batch_block) (hcols : uj - lj ≤ H.input_block)
    (hsrc : ui * H.input_dims + uj < 2^64) :
    ∃ plan, mm_input_positions H li ui lj uj = .ok plan ∧
      encInputBlock (ga_toHelper H) zero x li ui lj uj
        = scatterA zero H.poly_degree H.poly_degree ((ga_unflat2 plan).map fun ps => (ps.1, x ps.2)) := by
  refine ⟨_, ga_mm_input_positions_eq H li ui lj uj hfit hn hob hrows hcols hsrc, ?_⟩
  rw [ga_unflat2_flat]
  simp only [encInputBlock, List.map_map, Function.comp_def, ga_toHelper]

/-! ### `encode_weight_small_bfv` -/

/-- **generated positions of one weight block = `wPos`** (rows reversed): input rows `li..ui` (at most `input_block`), output columns
    `lj..uj` (at most `output_block`); the function's own `assert!(r < slots && r < vec.len())` passes -/
theorem ga_mm_weight_positions_eq (H : MatmulHelper) (li ui lj uj : Nat) (hfit : H.input_block * H.output_block ≤ H.poly_degree)
    (hn : H.poly_degree < 2^64) (hrows : ui - li ≤ H.input_block) (hcols : uj - lj ≤ H.output_block)
    (hsrc : ui * H.output_dims + uj < 2^64) :
    mm_weight_positions H li ui lj uj = .ok ((pairs (uj - lj) (ui - li)).flatMap fun p =>
      [wPos (ga_toHelper H) p.1 p.2, (li + p.2) * H.output_dims + (lj + p.1)]) := by
  have inner : ∀ b, b < uj - lj → ∀ i l, li ≤ i → i < li + (ui - li) →
      mm_weight_positions_loop1 H li lj H.poly_degree (List.replicate (H.input_block * H.output_block) 0) (lj + b) i l
        = .ok (.next (l ++ [wPos (ga_toHelper H) b (i - li), i * H.output_dims + (lj + b)])) := by
    intro b hb i l h1 h2
    have e2 : b * H.input_block + H.input_block ≤ H.output_block * H.input_block := ga_succ_mul_le (show b < H.output_block by omega)
    rw [Nat.mul_comm H.output_block H.input_block] at e2
    have e4 : i * H.output_dims ≤ ui * H.output_dims := Nat.mul_le_mul_right _ (by omega)
    simp only [mm_weight_positions_loop1, ga_ckSub (show lj ≤ lj + b by omega), Nat.add_sub_cancel_left,
      ga_ckMul (show b * H.input_block < 2^64 by omega), ga_ckAdd (show b * H.input_block + H.input_block < 2^64 by omega),
      ga_ckSub h1, ga_ckSub (show i - li ≤ b * H.input_block + H.input_block by omega),
      ga_ckSub (show 1 ≤ b * H.input_block + H.input_block - (i - li) by omega), ga_ok_bind, List.length_replicate,
      if_pos (show b * H.input_block + H.input_block - (i - li) - 1 < H.poly_degree
        ∧ b * H.input_block + H.input_block - (i - li) - 1 < H.input_block * H.output_block by omega),
      ga_ckMul (show i * H.output_dims < 2^64 by omega), ga_ckAdd (show i * H.output_dims + (lj + b) < 2^64 by omega)]
    simp [pure, Except.pure, wPos, ga_toHelper]
  have outer : ∀ j l, lj ≤ j → j < lj + (uj - lj) →
      mm_weight_positions_loop2 H li ui lj H.poly_degree (List.replicate (H.input_block * H.output_block) 0) j l
        = .ok (.next (l ++ (List.range (ui - li)).flatMap fun a => [wPos (ga_toHelper H) (j - lj) a, (li + a) * H.output_dims + j])) := by
    intro j l h1 h2
    obtain ⟨b, rfl⟩ : ∃ b, j = lj + b := ⟨j - lj, by omega⟩
    simp only [mm_weight_positions_loop2,
      ga_forUp_pushL _ (fun i => [wPos (ga_toHelper H) b (i - li), i * H.output_dims + (lj + b)]) li (ui - li) l
        (fun i l h1 h2 => inner b (by omega) i l h1 h2), ga_ok_bind, Nat.add_sub_cancel_left]
    rfl
  simp only [mm_weight_positions, ga_ckMul (show H.input_block * H.output_block < 2^64 by omega), ga_ok_bind,
    ga_forUp_pushL _ (fun j => (List.range (ui - li)).flatMap fun a => [wPos (ga_toHelper H) (j - lj) a, (li + a) * H.output_dims + j])
      lj (uj - lj) [] (fun j l h1 h2 => outer j l h1 h2), List.nil_append, Nat.add_sub_cancel_left]
  rw [ga_pairs_flat (uj - lj) (ui - li) (fun b a => wPos (ga_toHelper H) b a) (fun b a => (li + a) * H.output_dims + (lj + b))]

/-- ... hence the model's weight-block encoder writes exactly at the generated positions -/
theorem ga_encWeightSmall_plan {α : Type} (H : MatmulHelper) (zero : α) (w : Nat → α) (li ui lj uj : Nat)
    (hfit : H.input_block * H.output_block ≤ H.poly_degree) (hn : H.poly_degree < 2^64) (hrows : ui - li ≤ H.input_block)
    (hcols : uj - lj ≤ H.output_block) (hsrc : ui * H.output_dims + uj < 2^64) :
    ∃ plan, mm_weight_positions H li ui lj uj = .ok plan ∧
      encWeightSmall (ga_toHelper H) zero w li ui lj uj
        = scatterA zero (H.input_block * H.output_block) H.poly_degree ((ga_unflat2 plan).map fun ps => (ps.1, w ps.2)) := by
  refine ⟨_, ga_mm_weight_positions_eq H li ui lj uj hfit hn hrows hcols hsrc, ?_⟩
  rw [ga_unflat2_flat]
  simp only [encWeightSmall, List.map_map, Function.comp_def, ga_toHelper]

/-! ### `decrypt_outputs_bfv`: the read loop of one (batch block, output block) polynomial -/

/-- **generated (destination index, read position) pairs of one output block = `outPos`**: rows `li..ui` (at most `batch_block`), output columns
    `lj..uj` (at most `output_block`); the read `buffer[POS]` (buffer resized to `poly_degree`) is kept as `assert!(POS < poly_degree)` -/
theorem ga_mm_output_positions_eq (H : MatmulHelper) (li ui lj uj : Nat) (hfit : H.batch_block * H.input_block * H.output_block ≤ H.poly_degree)
    (hn : H.poly_degree < 2^64) (hib : 1 ≤ H.input_block) (hrows : ui - li ≤ H.batch_block) (hcols : uj - lj ≤ H.output_block)
    (hsrc : ui * H.output_dims + uj < 2^64) :
    mm_output_positions H li ui lj uj = .ok ((pairs (ui - li) (uj - lj)).flatMap fun p =>
      [(li + p.1) * H.output_dims + (lj + p.2), outPos (ga_toHelper H) p.1 p.2]) := by
  have inner : ∀ a, a < ui - li → ∀ j l, lj ≤ j → j < lj + (uj - lj) →
      mm_output_positions_loop1 H li lj (li + a) j l
        = .ok (.next (l ++ [(li + a) * H.output_dims + j, outPos (ga_toHelper H) a (j - lj)])) := by
    intro a ha j l h1 h2
    have hb := ga_block_le (ib := H.input_block) (show a < H.batch_block by omega) (show j - lj < H.output_block by omega)
    have e1 : a * H.input_block ≤ a * H.input_block * H.output_block := Nat.le_mul_of_pos_right _ (by omega)
    have e4 : (li + a) * H.output_dims ≤ ui * H.output_dims := Nat.mul_le_mul_right _ (by omega)
    simp only [mm_output_positions_loop1, ga_ckSub (show li ≤ li + a by omega), Nat.add_sub_cancel_left,
      ga_ckMul (show a * H.input_block < 2^64 by omega), ga_ckMul (show a * H.input_block * H.output_block < 2^64 by omega),
      ga_ckSub h1, ga_ckMul (show (j - lj) * H.input_block < 2^64 by omega),
      ga_ckAdd (show a * H.input_block * H.output_block + (j - lj) * H.input_block < 2^64 by omega),
      ga_ckAdd (show a * H.input_block * H.output_block + (j - lj) * H.input_block + H.input_block < 2^64 by omega),
      ga_ckSub (show 1 ≤ a * H.input_block * H.output_block + (j - lj) * H.input_block + H.input_block by omega), ga_ok_bind,
      if_pos (show a * H.input_block * H.output_block + (j - lj) * H.input_block + H.input_block - 1 < H.poly_degree by omega),
      ga_ckMul (show (li + a) * H.output_dims < 2^64 by omega), ga_ckAdd (show (li + a) * H.output_dims + j < 2^64 by omega)]
    simp [pure, Except.pure, outPos, ga_toHelper]
  have outer : ∀ i l, li ≤ i → i < li + (ui - li) →
      mm_output_positions_loop2 H li lj uj i l
        = .ok (.next (l ++ (List.range (uj - lj)).flatMap fun b => [i * H.output_dims + (lj + b), outPos (ga_toHelper H) (i - li) b])) := by
    intro i l h1 h2
    obtain ⟨a, rfl⟩ : ∃ a, i = li + a := ⟨i - li, by omega⟩
    simp only [mm_output_positions_loop2,
      ga_forUp_pushL _ (fun j => [(li + a) * H.output_dims + j, outPos (ga_toHelper H) a (j - lj)]) lj (uj - lj) l
        (fun j l h1 h2 => inner a (by omega) j l h1 h2), ga_ok_bind, Nat.add_sub_cancel_left]
    rfl
  simp only [mm_output_positions,
    ga_forUp_pushL _ (fun i => (List.range (uj - lj)).flatMap fun b => [i * H.output_dims + (lj + b), outPos (ga_toHelper H) (i - li) b])
      li (ui - li) [] (fun i l h1 h2 => outer i l h1 h2), ga_ok_bind, List.nil_append, Nat.add_sub_cancel_left]
  rw [ga_pairs_flat (ui - li) (uj - lj) (fun a b => (li + a) * H.output_dims + (lj + b)) (fun a b => outPos (ga_toHelper H) a b)]

end HC
