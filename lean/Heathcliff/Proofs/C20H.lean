/-
  C20H: whole-matrix statements for the coefficient-packing (Cheetah) matrix product of `Model/Matmul.lean`, composed from the block
  theorems of C20B / C20G (helpers tagged `c20_`).

    encode inputs (`encodeInputs`), encode weights (`encodeWeights`), multiply every (batch block, input block) polynomial with the
    (input block, output block) polynomial in S[X]/(X^n + 1) and accumulate over the input blocks (`c20_mmEval`: what `matmul` does with
    `multiply_plain` + `add_inplace`), decode (`decodeOutputs`)   =   the plaintext matrix product,

  for EVERY shape and EVERY block triple with `b·i·o ≤ n` and positive blocks (in particular the triple the model's block search
  returns: `c20_cheetah_matmul_search`), in an ARBITRARY commutative ring S (S = ZMod t: the product modulo t).  Also the whole-matrix
  form of "outputs re-encoding is the inverse of outputs decoding" without LWE packing.
-/
import Heathcliff.Proofs.C20B
import Heathcliff.Proofs.C20C
import Heathcliff.Proofs.C20G
import Mathlib.Data.ZMod.Basic
namespace HC
open Finset HC.MM

/-! ### generic helpers -/

theorem c20_mapM_eq {α β : Type} (f : α → R β) (g : α → β) :
    ∀ (l : List α), (∀ a ∈ l, f a = .ok (g a)) → l.mapM f = .ok (l.map g)
  | [], _ => by simp [pure, Except.pure]
  | a :: l, h => by
    rw [List.mapM_cons, h a (by simp), c20_mapM_eq f g l (fun b hb => h b (by simp [hb]))]
    rfl

/-- the value of a successful computation (default otherwise) -/
def c20_val {α : Type} (d : α) : R α → α
  | .ok a => a
  | .error _ => d

theorem c20_val_ok {α : Type} (d : α) {r : R α} {a : α} (h : r = .ok a) : r = .ok (c20_val d r) := by
  subst h; rfl

theorem c20_range_map_getD {β : Type} (f : Nat → β) (A i : Nat) (d : β) (hi : i < A) :
    ((List.range A).map f).getD i d = f i := by
  simp [List.getD, List.getElem?_map, List.getElem?_range hi]

theorem c20_range_map_getElem? {β : Type} (f : Nat → β) (A i : Nat) (hi : i < A) :
    ((List.range A).map f)[i]? = some (f i) := by
  simp [List.getElem?_map, List.getElem?_range hi]

theorem c20_le_ceilDiv_mul (total blk : Nat) (hblk : 0 < blk) : total ≤ ceilDiv total blk * blk := by
  unfold ceilDiv
  have h1 := Nat.div_add_mod (total + blk - 1) blk
  have h2 := Nat.mod_lt (total + blk - 1) hblk
  rw [Nat.mul_comm] at h1
  omega

theorem c20_div_lt_ceilDiv {total blk r : Nat} (hblk : 0 < blk) (hr : r < total) : r / blk < ceilDiv total blk := by
  rw [Nat.div_lt_iff_lt_mul hblk]
  exact lt_of_lt_of_le hr (c20_le_ceilDiv_mul total blk hblk)

theorem c20_blocks_eq {β : Type} (f : Nat → Nat → β) (t1 b1 t2 b2 : Nat) :
    ((blockStarts t1 b1).map fun li => (blockStarts t2 b2).map fun lj => f li lj)
      = (List.range (ceilDiv t1 b1)).map fun i => (List.range (ceilDiv t2 b2)).map fun j => f (i * b1) (j * b2) := by
  simp only [blockStarts, List.map_map]
  rfl

theorem c20_getPoly_grid {β : Type} (f : Nat → Nat → Array β) (A C d1 d2 : Nat) (h1 : d1 < A) (h2 : d2 < C) :
    getPoly ((List.range A).map fun i => (List.range C).map fun j => f i j) d1 d2 = .ok (f d1 d2) := by
  unfold getPoly
  rw [c20_range_map_getElem? _ _ _ h1]
  dsimp only
  rw [c20_range_map_getElem? _ _ _ h2]

/-! ### the encoders over all blocks -/

variable {S : Type}

/-- encoded input polynomial of the block starting at batch row `li`, input column `lj` -/
def c20_inBlk (zero : S) (h : Helper) (x : Nat → S) (li lj : Nat) : Array S :=
  c20_val #[] (encInputBlock h zero x li (min h.bs (li + h.bb)) lj (min h.id (lj + h.ib)))

/-- encoded weight polynomial of the block starting at input row `li`, output column `lk` -/
def c20_wBlk (zero : S) (h : Helper) (w : Nat → S) (li lk : Nat) : Array S :=
  c20_val #[] (encWeightSmall h zero w li (min h.id (li + h.ib)) lk (min h.od (lk + h.ob)))

/-- encoded output polynomial of the block starting at batch row `li`, output column `lk` -/
def c20_outBlk (zero : S) (h : Helper) (y : Nat → S) (li lk : Nat) : Array S :=
  c20_val #[] (encOutputBlock h zero y li (min h.bs (li + h.bb)) lk (min h.od (lk + h.ob)))

theorem c20_fitW {h : Helper} (hbb : 0 < h.bb) (hfit : h.bb * h.ib * h.ob ≤ h.n) : h.ib * h.ob ≤ h.n := by
  have := Nat.le_mul_of_pos_left (h.ib * h.ob) hbb
  rw [← Nat.mul_assoc] at this; omega

/-- `encode_inputs_*` over all blocks: total, `[batch block][input block]` -/
theorem c20_encodeInputs_ok (zero : S) (h : Helper) (x : Nat → S) (hbb : 0 < h.bb) (hib : 0 < h.ib) (hob : 0 < h.ob)
    (hfit : h.bb * h.ib * h.ob ≤ h.n) :
    encodeInputs h zero x (h.bs * h.id)
      = .ok ((blockStarts h.bs h.bb).map fun li => (blockStarts h.id h.ib).map fun lj => c20_inBlk zero h x li lj) := by
  unfold encodeInputs
  rw [if_neg (by simp), if_neg (by omega)]
  apply c20_mapM_eq
  intro li _
  apply c20_mapM_eq
  intro lj _
  obtain ⟨px, hpx, _⟩ := c20_encInput_spec zero h x hfit hob li (min h.bs (li + h.bb)) lj (min h.id (lj + h.ib))
    (by omega) (by omega)
  exact c20_val_ok #[] hpx

/-- `encode_weights_*` over all blocks: total (the `encode_polynomial` size check passes), `[input block][output block]` -/
theorem c20_encodeWeights_ok (zero : S) (h : Helper) (w : Nat → S) (hbb : 0 < h.bb) (hib : 0 < h.ib) (hob : 0 < h.ob)
    (hfit : h.bb * h.ib * h.ob ≤ h.n) :
    encodeWeights h zero w (h.id * h.od)
      = .ok ((blockStarts h.id h.ib).map fun li => (blockStarts h.od h.ob).map fun lk => c20_wBlk zero h w li lk) := by
  unfold encodeWeights
  rw [if_neg (by simp), if_neg (by omega)]
  apply c20_mapM_eq
  intro li _
  apply c20_mapM_eq
  intro lk _
  obtain ⟨pw, hpw, hsz, _⟩ := c20_encWeight_spec zero h w (c20_fitW hbb hfit) li (min h.id (li + h.ib)) lk (min h.od (lk + h.ob))
    (by omega) (by omega)
  have e : c20_wBlk zero h w li lk = pw := by unfold c20_wBlk; rw [hpw]; rfl
  rw [hpw, e]
  show (if pw.size > h.n then (Except.error Err.refused : R (Array S)) else pure pw) = .ok pw
  rw [if_neg (by rw [hsz]; have := c20_fitW hbb hfit; omega)]
  rfl

theorem c20_blocks_getD {β : Type} (f : Nat → Nat → β) (t1 b1 t2 b2 i j : Nat) (d : β)
    (hi : i < ceilDiv t1 b1) (hj : j < ceilDiv t2 b2) :
    ((((blockStarts t1 b1).map fun li => (blockStarts t2 b2).map fun lj => f li lj).getD i []).getD j d) = f (i * b1) (j * b2) := by
  rw [c20_blocks_eq, c20_range_map_getD _ _ _ _ hi, c20_range_map_getD _ _ _ _ hj]

/-! ### decoding over all blocks -/

/-- the index map of `decrypt_outputs_*` in BOTH packing modes (the polynomial looked up and the position read are the model's own
    expressions), for ANY family of decoded polynomials that carries the value `F row col` at the read position of every entry: the
    result is the `bs × od` matrix `F`, row major -/
theorem c20_decodeOutputs_gen (zero : S) (h : Helper) (bufs : List (List (Array S))) (F : Nat → Nat → S)
    (hbb : 0 < h.bb) (hob : 0 < h.ob)
    (hbufs : ∀ d1 d2, d1 < ceilDiv h.bs h.bb → d2 < ceilDiv h.od h.ob → ∃ buf,
      (if !h.pack then getPoly bufs d1 d2
       else (if h.ib = 0 then .error .other else getPoly bufs 0 ((d1 * ceilDiv h.od h.ob + d2) / h.ib))) = .ok buf ∧
      ∀ p1 p2, p1 < min h.bs (d1 * h.bb + h.bb) - d1 * h.bb → p2 < min h.od (d2 * h.ob + h.ob) - d2 * h.ob →
        readAt buf (if !h.pack then outPos h p1 p2 else outPosPacked h p1 p2 ((d1 * ceilDiv h.od h.ob + d2) % h.ib))
          = .ok (F (d1 * h.bb + p1) (d2 * h.ob + p2))) :
    ∃ Y, decodeOutputs h zero bufs = .ok Y ∧ Y.size = h.bs * h.od ∧
      ∀ row col, row < h.bs → col < h.od → Y.getD (row * h.od + col) zero = F row col := by
  -- the list of writes, in program order
  let ws : List (List (Nat × S)) := (pairs (ceilDiv h.bs h.bb) (ceilDiv h.od h.ob)).map fun d =>
    (pairs (min h.bs (d.1 * h.bb + h.bb) - d.1 * h.bb) (min h.od (d.2 * h.ob + h.ob) - d.2 * h.ob)).map fun p =>
      ((d.1 * h.bb + p.1) * h.od + (d.2 * h.ob + p.2), F (d.1 * h.bb + p.1) (d.2 * h.ob + p.2))
  have hmem : ∀ pv, pv ∈ ws.flatten ↔ ∃ d ∈ pairs (ceilDiv h.bs h.bb) (ceilDiv h.od h.ob),
      ∃ p ∈ pairs (min h.bs (d.1 * h.bb + h.bb) - d.1 * h.bb) (min h.od (d.2 * h.ob + h.ob) - d.2 * h.ob),
        pv = ((d.1 * h.bb + p.1) * h.od + (d.2 * h.ob + p.2), F (d.1 * h.bb + p.1) (d.2 * h.ob + p.2)) := by
    intro pv
    simp only [ws, List.mem_flatten, List.mem_map]
    constructor
    · rintro ⟨l, ⟨d, hd, rfl⟩, hpv⟩
      obtain ⟨p, hp, rfl⟩ := List.mem_map.mp hpv
      exact ⟨d, hd, p, hp, rfl⟩
    · rintro ⟨d, hd, p, hp, rfl⟩
      exact ⟨_, ⟨d, hd, rfl⟩, List.mem_map.mpr ⟨p, hp, rfl⟩⟩
  have hrun : decodeOutputs h zero bufs = scatterA zero (h.bs * h.od) (h.bs * h.od) ws.flatten := by
    unfold decodeOutputs
    rw [if_neg (by omega)]
    cases hpk : h.pack with
    | false =>
      simp only [hpk, Bool.not_false, if_true] at hbufs ⊢
      have hw : (pairs (ceilDiv h.bs h.bb) (ceilDiv h.od h.ob)).mapM (fun (d : Nat × Nat) => do
          let buf ← getPoly bufs d.1 d.2
          (pairs (min h.bs (d.1 * h.bb + h.bb) - d.1 * h.bb) (min h.od (d.2 * h.ob + h.ob) - d.2 * h.ob)).mapM fun (p : Nat × Nat) => do
            let v ← readAt buf (outPos h p.1 p.2)
            (pure ((d.1 * h.bb + p.1) * h.od + (d.2 * h.ob + p.2), v) : R (Nat × S))) = .ok ws := by
        apply c20_mapM_eq
        intro d hd
        obtain ⟨hd1, hd2⟩ := c20_mem_pairs.mp hd
        obtain ⟨buf, hbuf, hread⟩ := hbufs d.1 d.2 hd1 hd2
        rw [hbuf]
        show (pairs _ _).mapM _ = _
        apply c20_mapM_eq
        intro p hp
        obtain ⟨hp1, hp2⟩ := c20_mem_pairs.mp hp
        rw [hread p.1 p.2 hp1 hp2]
        rfl
      rw [hw]
      rfl
    | true =>
      simp only [hpk, Bool.not_true, Bool.false_eq_true, if_false] at hbufs ⊢
      have hw : (pairs (ceilDiv h.bs h.bb) (ceilDiv h.od h.ob)).mapM (fun (d : Nat × Nat) => do
          let buf ← (if h.ib = 0 then (Except.error Err.other : R (Array S))
                     else getPoly bufs 0 ((d.1 * ceilDiv h.od h.ob + d.2) / h.ib))
          (pairs (min h.bs (d.1 * h.bb + h.bb) - d.1 * h.bb) (min h.od (d.2 * h.ob + h.ob) - d.2 * h.ob)).mapM fun (p : Nat × Nat) => do
            let v ← readAt buf (outPosPacked h p.1 p.2 ((d.1 * ceilDiv h.od h.ob + d.2) % h.ib))
            (pure ((d.1 * h.bb + p.1) * h.od + (d.2 * h.ob + p.2), v) : R (Nat × S))) = .ok ws := by
        apply c20_mapM_eq
        intro d hd
        obtain ⟨hd1, hd2⟩ := c20_mem_pairs.mp hd
        obtain ⟨buf, hbuf, hread⟩ := hbufs d.1 d.2 hd1 hd2
        rw [hbuf]
        show (pairs _ _).mapM _ = _
        apply c20_mapM_eq
        intro p hp
        obtain ⟨hp1, hp2⟩ := c20_mem_pairs.mp hp
        rw [hread p.1 p.2 hp1 hp2]
        rfl
      rw [hw]
      rfl
  have hb : ∀ pv ∈ ws.flatten, pv.1 < h.bs * h.od ∧ pv.1 < (Array.replicate (h.bs * h.od) zero).size := by
    intro pv hpv
    obtain ⟨d, hd, p, hp, rfl⟩ := (hmem pv).mp hpv
    obtain ⟨hp1, hp2⟩ := c20_mem_pairs.mp hp
    have h1 : d.1 * h.bb + p.1 < h.bs := by omega
    have h2 : d.2 * h.ob + p.2 < h.od := by omega
    have h3 : (d.1 * h.bb + p.1) * h.od + h.od ≤ h.bs * h.od := by
      have := Nat.mul_le_mul_right h.od (Nat.succ_le_of_lt h1)
      rw [Nat.succ_mul] at this; exact this
    simp only [Array.size_replicate]
    constructor <;> omega
  obtain ⟨Y, hY, hsz, _, hval⟩ := c20_scatter_fold (h.bs * h.od) ws.flatten (Array.replicate (h.bs * h.od) zero) hb
  refine ⟨Y, ?_, by simpa using hsz, ?_⟩
  · rw [hrun]; exact hY
  · intro row col hrow hcol
    have hd1 : row / h.bb < ceilDiv h.bs h.bb := c20_div_lt_ceilDiv hbb hrow
    have hd2 : col / h.ob < ceilDiv h.od h.ob := c20_div_lt_ceilDiv hob hcol
    have er : row / h.bb * h.bb + row % h.bb = row := Nat.div_add_mod' row h.bb
    have ec : col / h.ob * h.ob + col % h.ob = col := Nat.div_add_mod' col h.ob
    have hmr := Nat.mod_lt row hbb
    have hmc := Nat.mod_lt col hob
    have hin : (row * h.od + col, F row col) ∈ ws.flatten := by
      rw [hmem]
      refine ⟨(row / h.bb, col / h.ob), c20_mem_pairs.mpr ⟨hd1, hd2⟩, (row % h.bb, col % h.ob),
        c20_mem_pairs.mpr ⟨by show row % h.bb < min h.bs (row / h.bb * h.bb + h.bb) - row / h.bb * h.bb; omega,
          by show col % h.ob < min h.od (col / h.ob * h.ob + h.ob) - col / h.ob * h.ob; omega⟩, ?_⟩
      show _ = ((row / h.bb * h.bb + row % h.bb) * h.od + (col / h.ob * h.ob + col % h.ob),
        F (row / h.bb * h.bb + row % h.bb) (col / h.ob * h.ob + col % h.ob))
      rw [er, ec]
    have huniq : ∀ pv ∈ ws.flatten, pv.1 = row * h.od + col → pv.2 = F row col := by
      intro pv hpv heq
      obtain ⟨d, hd, p, hp, rfl⟩ := (hmem pv).mp hpv
      obtain ⟨hp1, hp2⟩ := c20_mem_pairs.mp hp
      have h2 : d.2 * h.ob + p.2 < h.od := by omega
      obtain ⟨e2, e1⟩ := c20_digit_unique (W := h.od) hcol h2 heq
      show F (d.1 * h.bb + p.1) (d.2 * h.ob + p.2) = F row col
      rw [e1, e2]
    have := hval (row * h.od + col) (F row col) hin huniq
    rw [Array.getD_eq_getD_getElem?, this]; rfl

/-- ... without LWE packing -/
theorem c20_decodeOutputs_spec (zero : S) (h : Helper) (bufs : List (List (Array S))) (F : Nat → Nat → S)
    (hbb : 0 < h.bb) (hob : 0 < h.ob) (hpack : h.pack = false)
    (hbufs : ∀ d1 d2, d1 < ceilDiv h.bs h.bb → d2 < ceilDiv h.od h.ob → ∃ buf, getPoly bufs d1 d2 = .ok buf ∧
      ∀ p1 p2, p1 < min h.bs (d1 * h.bb + h.bb) - d1 * h.bb → p2 < min h.od (d2 * h.ob + h.ob) - d2 * h.ob →
        readAt buf (outPos h p1 p2) = .ok (F (d1 * h.bb + p1) (d2 * h.ob + p2))) :
    ∃ Y, decodeOutputs h zero bufs = .ok Y ∧ Y.size = h.bs * h.od ∧
      ∀ row col, row < h.bs → col < h.od → Y.getD (row * h.od + col) zero = F row col := by
  apply c20_decodeOutputs_gen zero h bufs F hbb hob
  intro d1 d2 hd1 hd2
  obtain ⟨buf, hbuf, hread⟩ := hbufs d1 d2 hd1 hd2
  refine ⟨buf, by simp only [hpack, Bool.not_false, if_true]; exact hbuf, fun p1 p2 hp1 hp2 => ?_⟩
  simp only [hpack, Bool.not_false, if_true]
  exact hread p1 p2 hp1 hp2

/-- ... with LWE packing: output block `c = d1·obc + d2` lives in packed polynomial `c / ib` at slot offset `c mod ib` -/
theorem c20_decodeOutputs_spec_packed (zero : S) (h : Helper) (bufs : List (List (Array S))) (F : Nat → Nat → S)
    (hbb : 0 < h.bb) (hib : 0 < h.ib) (hob : 0 < h.ob) (hpack : h.pack = true)
    (hbufs : ∀ d1 d2, d1 < ceilDiv h.bs h.bb → d2 < ceilDiv h.od h.ob → ∃ buf,
      getPoly bufs 0 ((d1 * ceilDiv h.od h.ob + d2) / h.ib) = .ok buf ∧
      ∀ p1 p2, p1 < min h.bs (d1 * h.bb + h.bb) - d1 * h.bb → p2 < min h.od (d2 * h.ob + h.ob) - d2 * h.ob →
        readAt buf (outPosPacked h p1 p2 ((d1 * ceilDiv h.od h.ob + d2) % h.ib)) = .ok (F (d1 * h.bb + p1) (d2 * h.ob + p2))) :
    ∃ Y, decodeOutputs h zero bufs = .ok Y ∧ Y.size = h.bs * h.od ∧
      ∀ row col, row < h.bs → col < h.od → Y.getD (row * h.od + col) zero = F row col := by
  apply c20_decodeOutputs_gen zero h bufs F hbb hob
  intro d1 d2 hd1 hd2
  obtain ⟨buf, hbuf, hread⟩ := hbufs d1 d2 hd1 hd2
  refine ⟨buf, by simp only [hpack, Bool.not_true, Bool.false_eq_true, if_false]; rw [if_neg (by omega)]; exact hbuf,
    fun p1 p2 hp1 hp2 => ?_⟩
  simp only [hpack, Bool.not_true, Bool.false_eq_true, if_false]
  exact hread p1 p2 hp1 hp2

/-! ### the plaintext-level evaluation and the whole-matrix theorem -/

/-- what `matmul` computes at plaintext level: output polynomial `[batch block bi][output block oi]` is
    `Σ_ii X[bi][ii] ⋆ W[ii][oi]` in S[X]/(X^n + 1) (`multiply_plain` for each input block, accumulated with `add_inplace`) -/
def c20_mmEvalPoly [CommRing S] (h : Helper) (X W : List (List (Array S))) (bi oi : Nat) : Array S :=
  Array.ofFn (n := h.n) fun p => ∑ ii ∈ range (ceilDiv h.id h.ib),
    negMulR h.n (fun q => ((X.getD bi []).getD ii #[]).getD q 0) (fun q => ((W.getD ii []).getD oi #[]).getD q 0) p.val

def c20_mmEval [CommRing S] (h : Helper) (X W : List (List (Array S))) : List (List (Array S)) :=
  (List.range (ceilDiv h.bs h.bb)).map fun bi => (List.range (ceilDiv h.od h.ob)).map fun oi => c20_mmEvalPoly h X W bi oi

theorem c20_outPos_lt {h : Helper} (hib : 0 < h.ib) (hfit : h.bb * h.ib * h.ob ≤ h.n) {db dk : Nat} (hdb : db < h.bb)
    (hdk : dk < h.ob) : outPos h db dk < h.n := by
  have hM : h.bb * (h.ob * h.ib) ≤ h.n := by rw [Nat.mul_comm h.ob h.ib, ← Nat.mul_assoc]; exact hfit
  have a1 := c20_succ_mul_le (ib := h.ob * h.ib) hdb
  have a2 := c20_succ_mul_le (ib := h.ib) hdk
  rw [c20_outPos_eq h _ _ hib]; omega

/-- **Cheetah matrix product, whole matrix** (any commutative ring, all shapes, all positive block triples with `b·i·o ≤ n`):
    encoding the inputs and the weights with the model's encoders, multiplying and accumulating over the input blocks in
    S[X]/(X^n + 1), and decoding with the model's decoder returns the plaintext matrix product `x · w` (row major `bs × od`). -/
theorem c20_cheetah_matmul_whole [CommRing S] (h : Helper) (x w : Nat → S) (hbb : 0 < h.bb) (hib : 0 < h.ib) (hob : 0 < h.ob)
    (hfit : h.bb * h.ib * h.ob ≤ h.n) (hpack : h.pack = false) :
    ∃ X W Y, encodeInputs h 0 x (h.bs * h.id) = .ok X ∧ encodeWeights h 0 w (h.id * h.od) = .ok W ∧
      decodeOutputs h 0 (c20_mmEval h X W) = .ok Y ∧ Y.size = h.bs * h.od ∧
      ∀ row col, row < h.bs → col < h.od →
        Y.getD (row * h.od + col) 0 = ∑ j ∈ range h.id, x (row * h.id + j) * w (j * h.od + col) := by
  obtain ⟨Y, hY, hsz, hval⟩ := c20_decodeOutputs_spec (0 : S) h
    (c20_mmEval h ((blockStarts h.bs h.bb).map fun li => (blockStarts h.id h.ib).map fun lj => c20_inBlk 0 h x li lj)
      ((blockStarts h.id h.ib).map fun li => (blockStarts h.od h.ob).map fun lk => c20_wBlk 0 h w li lk))
    (fun row col => ∑ j ∈ range h.id, x (row * h.id + j) * w (j * h.od + col)) hbb hob hpack
    (by
      intro d1 d2 hd1 hd2
      unfold c20_mmEval
      refine ⟨_, c20_getPoly_grid _ _ _ _ _ hd1 hd2, ?_⟩
      · intro p1 p2 hp1 hp2
        have hlt : outPos h p1 p2 < h.n := c20_outPos_lt hib hfit (by omega) (by omega)
        unfold readAt c20_mmEvalPoly
        rw [Array.getElem?_eq_getElem (by simpa using hlt), Array.getElem_ofFn]
        show Except.ok _ = Except.ok _
        congr 1
        rw [← c20_sum_blocks (fun j => x ((d1 * h.bb + p1) * h.id + j) * w (j * h.od + (d2 * h.ob + p2))) h.ib h.id hib]
        apply Finset.sum_congr rfl
        intro ii hii
        have hii' : ii < ceilDiv h.id h.ib := Finset.mem_range.mp hii
        obtain ⟨px, pw, hpx, hpw, heq⟩ := c20_cheetah_coeff h x w hfit (d1 * h.bb) (min h.bs (d1 * h.bb + h.bb)) (ii * h.ib)
          (min h.id (ii * h.ib + h.ib)) (d2 * h.ob) (min h.od (d2 * h.ob + h.ob)) (by omega) (by omega) (by omega) p1 p2 hp1 hp2
        rw [c20_blocks_getD _ _ _ _ _ _ _ _ hd1 hii', c20_blocks_getD _ _ _ _ _ _ _ _ hii' hd2]
        have e1 : c20_inBlk 0 h x (d1 * h.bb) (ii * h.ib) = px := by unfold c20_inBlk; rw [hpx]; rfl
        have e2 : c20_wBlk 0 h w (ii * h.ib) (d2 * h.ob) = pw := by unfold c20_wBlk; rw [hpw]; rfl
        rw [e1, e2]
        exact heq)
  exact ⟨_, _, Y, c20_encodeInputs_ok 0 h x hbb hib hob hfit, c20_encodeWeights_ok 0 h w hbb hib hob hfit, hY, hsz, hval⟩

/-- **... for the blocks the model's search returns**: every admissible shape (positive dimensions below 2^20, `N ≥ 2`), every
    objective: `Helper.new` succeeds and the pipeline computes the matrix product -/
theorem c20_cheetah_matmul_search [CommRing S] (bs id od N : Nat) (obj : Objective) (hN : 2 ≤ N) (hbs : 1 ≤ bs) (hid : 1 ≤ id)
    (hodd : 1 ≤ od) (hsz : bs < 2^20 ∧ id < 2^20 ∧ od < 2^20) (x w : Nat → S) :
    ∃ h X W Y, Helper.new bs id od N obj false = .ok h ∧ encodeInputs h 0 x (bs * id) = .ok X ∧
      encodeWeights h 0 w (id * od) = .ok W ∧ decodeOutputs h 0 (c20_mmEval h X W) = .ok Y ∧ Y.size = bs * od ∧
      ∀ row col, row < bs → col < od → Y.getD (row * od + col) 0 = ∑ j ∈ range id, x (row * id + j) * w (j * od + col) := by
  obtain ⟨b1, _, i1, _, o1, _, hfit⟩ := c20_mmSearch_sound N bs id od obj hN hbs hid hodd hsz
  have hnew : Helper.new bs id od N obj false
      = .ok ⟨bs, id, od, (mmSearch N bs id od obj).b, (mmSearch N bs id od obj).i, (mmSearch N bs id od obj).o, N, false⟩ := by
    unfold Helper.new
    rw [if_neg (by omega)]
    rfl
  obtain ⟨X, W, Y, hX, hW, hY, hs, hv⟩ := c20_cheetah_matmul_whole
    (⟨bs, id, od, (mmSearch N bs id od obj).b, (mmSearch N bs id od obj).i, (mmSearch N bs id od obj).o, N, false⟩ : Helper)
    x w b1 i1 o1 hfit rfl
  exact ⟨_, X, W, Y, hnew, hX, hW, hY, hs, hv⟩

/-- **modulo t**: the same over `ZMod t` — for integer matrices reduced modulo the plain modulus, the decoded result is the matrix
    product modulo t -/
theorem c20_cheetah_matmul_mod_t (t : Nat) (bs id od N : Nat) (obj : Objective) (hN : 2 ≤ N) (hbs : 1 ≤ bs) (hid : 1 ≤ id)
    (hodd : 1 ≤ od) (hsz : bs < 2^20 ∧ id < 2^20 ∧ od < 2^20) (x w : Nat → Int) :
    ∃ h X W Y, Helper.new bs id od N obj false = .ok h ∧
      encodeInputs h (0 : ZMod t) (fun k => (x k : ZMod t)) (bs * id) = .ok X ∧
      encodeWeights h (0 : ZMod t) (fun k => (w k : ZMod t)) (id * od) = .ok W ∧
      decodeOutputs h 0 (c20_mmEval h X W) = .ok Y ∧
      ∀ row col, row < bs → col < od →
        Y.getD (row * od + col) 0 = ((∑ j ∈ range id, x (row * id + j) * w (j * od + col) : Int) : ZMod t) := by
  obtain ⟨h, X, W, Y, h1, h2, h3, h4, _, h6⟩ := c20_cheetah_matmul_search (S := ZMod t) bs id od N obj hN hbs hid hodd hsz
    (fun k => (x k : ZMod t)) (fun k => (w k : ZMod t))
  refine ⟨h, X, W, Y, h1, h2, h3, h4, fun row col hr hc => ?_⟩
  rw [h6 row col hr hc]
  push_cast
  rfl

/-! ### outputs re-encoding / decoding over the whole matrix (no LWE packing) -/

/-- `encode_outputs_*` over all blocks without LWE packing: total, `[batch block][output block]` -/
theorem c20_encodeOutputs_ok (zero : S) (h : Helper) (y : Nat → S) (hbb : 0 < h.bb) (hib : 0 < h.ib) (hob : 0 < h.ob)
    (hfit : h.bb * h.ib * h.ob ≤ h.n) (hpack : h.pack = false) :
    encodeOutputs h zero y (h.bs * h.od)
      = .ok ((blockStarts h.bs h.bb).map fun li => (blockStarts h.od h.ob).map fun lk => c20_outBlk zero h y li lk) := by
  unfold encodeOutputs
  rw [if_neg (by simp), if_neg (by omega)]
  simp only [hpack, Bool.not_false, if_true]
  apply c20_mapM_eq
  intro li _
  apply c20_mapM_eq
  intro lk _
  obtain ⟨p, hp, _⟩ := c20_encOutput_spec zero h y hfit hib li (min h.bs (li + h.bb)) lk (min h.od (lk + h.ob))
    (by omega) (by omega)
  exact c20_val_ok #[] hp

/-- **outputs: decode ∘ encode = id over the whole matrix** (no LWE packing; every shape, every positive block triple with
    `b·i·o ≤ n`, any coefficient type): the non-packed half of `OutputsEncodeDecodeStatement` -/
theorem c20_outputs_encode_decode (zero : S) (h : Helper) (y : Nat → S) (hbb : 0 < h.bb) (hib : 0 < h.ib) (hob : 0 < h.ob)
    (hfit : h.bb * h.ib * h.ob ≤ h.n) (hpack : h.pack = false) :
    ∃ polys dec, encodeOutputs h zero y (h.bs * h.od) = .ok polys ∧ decodeOutputs h zero polys = .ok dec ∧
      dec.size = h.bs * h.od ∧ ∀ k, k < h.bs * h.od → dec.getD k zero = y k := by
  obtain ⟨Y, hY, hsz, hval⟩ := c20_decodeOutputs_spec zero h
    ((blockStarts h.bs h.bb).map fun li => (blockStarts h.od h.ob).map fun lk => c20_outBlk zero h y li lk)
    (fun row col => y (row * h.od + col)) hbb hob hpack
    (by
      intro d1 d2 hd1 hd2
      obtain ⟨p, hp, _, _, hread⟩ := c20_encOutput_spec zero h y hfit hib (d1 * h.bb) (min h.bs (d1 * h.bb + h.bb)) (d2 * h.ob)
        (min h.od (d2 * h.ob + h.ob)) (by omega) (by omega)
      have e : c20_outBlk zero h y (d1 * h.bb) (d2 * h.ob) = p := by unfold c20_outBlk; rw [hp]; rfl
      refine ⟨p, ?_, fun p1 p2 hp1 hp2 => hread p1 p2 hp1 hp2⟩
      rw [c20_blocks_eq, c20_getPoly_grid _ _ _ _ _ hd1 hd2, e])
  refine ⟨_, Y, c20_encodeOutputs_ok zero h y hbb hib hob hfit hpack, hY, hsz, fun k hk => ?_⟩
  have hod : 0 < h.od := by
    rcases Nat.eq_zero_or_pos h.od with h0 | h0
    · rw [h0] at hk; simp at hk
    · exact h0
  have hkd : k / h.od < h.bs := by
    rw [Nat.div_lt_iff_lt_mul hod]; exact hk
  have := hval (k / h.od) (k % h.od) hkd (Nat.mod_lt k hod)
  rw [Nat.div_add_mod' k h.od] at this
  exact this

end HC
