/- C02 (task P): non-vacuity of the RELINEARISATION hypotheses of `hom_program_bgv_levelled` together with the level bundles: ciphertext level
   `mkLevel .bgv 4 [97, 113] 17` (Q = 10961), key level = the moduli / tables / constants of `mkLevel .bgv 4 [97, 113, 193] 17` (special prime
   P = 193), a genuine relinearisation key for s² (s = 1 − X + X³, s² = 3 − 2X + 2X³; digits 2; gadget elements 10283, 679; errors 17·ε_i),
   program relin(x0·x1): bookkeeping (0, 1, 2, 1747), 2·1747 < Q, decrypts to (1, 5, 14, 16) = m0·m1 mod (X^4 + 1, 17). -/
import Heathcliff.Proofs.C02PGW
namespace HC
open Finset
attribute [local instance] nv_decModulus nv_decNTTTables
set_option maxRecDepth 8000

def c02p_rKL : KeyLevel :=
  ⟨4, c02p_wL2.qs, c02p_wL2.tables, c02p_wL2.tool.invQLastModQ, c02p_wL2.tool.invQLastModT, c02p_wL2.t⟩

def c02p_rKey : KSKey :=
  #[#[#[#[9, 3, 2, 3], #[72, 74, 8, 4], #[62, 61, 23, 172]], #[#[85, 35, 22, 64], #[59, 76, 44, 59], #[46, 129, 138, 85]]],
    #[#[#[24, 93, 15, 65], #[91, 64, 100, 78], #[126, 177, 68, 113]], #[#[70, 77, 69, 24], #[36, 66, 7, 18], #[92, 102, 63, 176]]]]

def c02p_rS : Nat → Int := c02p_sk c02p_wSk
def c02p_rE (i c : Nat) : Int :=
  17 * (if i = 0 then (#[1, 0, -1, 1] : Array Int).getD c 0 else (#[0, -1, 1, 0] : Array Int).getD c 0)
def c02p_rG (i : Nat) : Int := if i = 0 then 10283 else 679

theorem c02p_rFacts : c02p_wL2.size = 3 ∧ c02p_wL1.size = 2 ∧ c02p_wL1.n = 4 ∧ c02p_wL1.t.value = 17 ∧ c02p_wL2.n = 4 ∧
    c02p_wL2.t.value = 17 ∧ c02p_wL1.k = 2 := by
  obtain ⟨_, _, _, _, _, a6, a7, _, a9⟩ := mkLevel_ok c02p_wL1_mk
  refine ⟨by decide +kernel, by decide +kernel, a6, a9, c02p_wFacts.1, c02p_wFacts.2.1, by rw [a7]; decide⟩

theorem c02p_rKL_wf : c02p_rKL.WF := by
  have hl := (c02p_wLevelOK c02p_wL2_mk).1.wf
  refine ⟨hl.tsize, fun i hi => ?_⟩
  have hi' : i < c02p_wL2.size := hi
  obtain ⟨h1, h2, h3⟩ := hl.twf i hi'
  refine ⟨h1, h2, ?_⟩
  show 2^(c02p_wL2.tbl i).k = 4
  rw [h3, ← hl.npow, c02p_rFacts.2.2.2.2.1]

theorem c02p_rKeyLevelOf : c02p_KeyLevelOf c02p_rKL c02p_wL1 :=
  ⟨⟨c02p_rFacts.2.2.1, by rw [c02p_rFacts.2.2.2.2.2.2]; rfl, fun i hi => c02p_wNext.q i hi⟩,
    fun j hj => (c02p_wNext.tbl j hj).symm, c02p_wNext.t.symm⟩

theorem c02p_rKeyCoef :
    c04k_keyCoef c02p_rKL c02p_rKey 0 0 0 = #[77, 59, 10, 35] ∧ c04k_keyCoef c02p_rKL c02p_rKey 0 0 1 = #[3, 50, 7, 81] ∧
    c04k_keyCoef c02p_rKL c02p_rKey 0 1 0 = #[25, 35, 39, 17] ∧ c04k_keyCoef c02p_rKL c02p_rKey 0 1 1 = #[60, 2, 91, 14] ∧
    c04k_keyCoef c02p_rKL c02p_rKey 1 0 0 = #[96, 73, 107, 53] ∧ c04k_keyCoef c02p_rKL c02p_rKey 1 0 1 = #[3, 50, 7, 81] ∧
    c04k_keyCoef c02p_rKL c02p_rKey 1 1 0 = #[55, 85, 55, 64] ∧ c04k_keyCoef c02p_rKL c02p_rKey 1 1 1 = #[60, 2, 91, 14] ∧
    c04k_keyCoef c02p_rKL c02p_rKey 2 0 0 = #[176, 153, 107, 133] ∧ c04k_keyCoef c02p_rKL c02p_rKey 2 0 1 = #[3, 50, 7, 81] ∧
    c04k_keyCoef c02p_rKL c02p_rKey 2 1 0 = #[121, 132, 135, 17] ∧ c04k_keyCoef c02p_rKL c02p_rKey 2 1 1 = #[60, 2, 91, 14] := by
  decide +kernel

theorem c02p_rMods : (c02p_rKL.m 0).value = 97 ∧ (c02p_rKL.m 1).value = 113 ∧ (c02p_rKL.m 2).value = 193 ∧ c02p_rKL.c04t_P = 193 := by
  decide +kernel

theorem c02p_rKeyEq : c04k_KeyEq c02p_rKL 2 c02p_rKey c02p_rS (fun p => negMulR c02p_rKL.n c02p_rS c02p_rS p) c02p_rE c02p_rG := by
  obtain ⟨k000, k001, k010, k011, k100, k101, k110, k111, k200, k201, k210, k211⟩ := c02p_rKeyCoef
  obtain ⟨hm0, hm1, hm2, hP⟩ := c02p_rMods
  have hn : c02p_rKL.n = 4 := rfl
  have h3 : c02p_rKL.ms.size = 3 := c02p_rFacts.1
  refine ⟨fun j hj i hi => ?_, fun idx hu i hi c hc => ?_⟩
  · interval_cases j <;> interval_cases i
    · rw [hm0]; decide
    · rw [hm0]; decide
    · rw [hm1]; decide
    · rw [hm1]; decide
  · rw [hn] at hc
    have hidx : idx = 0 ∨ idx = 1 ∨ idx = 2 := by
      rcases hu with h | h
      · omega
      · rw [h3] at h; omega
    rcases hidx with rfl | rfl | rfl
    · rw [hm0, hP, hn]
      unfold c04k_keyI
      interval_cases i
      · rw [k000, k001]
        interval_cases c <;>
          simp [negMulR, Finset.sum_range_succ, c02p_rS, c02p_sk, c02p_wSk, c02p_rE, c02p_rG] <;> decide
      · rw [k010, k011]
        interval_cases c <;>
          simp [negMulR, Finset.sum_range_succ, c02p_rS, c02p_sk, c02p_wSk, c02p_rE, c02p_rG] <;> decide
    · rw [hm1, hP, hn]
      unfold c04k_keyI
      interval_cases i
      · rw [k100, k101]
        interval_cases c <;>
          simp [negMulR, Finset.sum_range_succ, c02p_rS, c02p_sk, c02p_wSk, c02p_rE, c02p_rG] <;> decide
      · rw [k110, k111]
        interval_cases c <;>
          simp [negMulR, Finset.sum_range_succ, c02p_rS, c02p_sk, c02p_wSk, c02p_rE, c02p_rG] <;> decide
    · rw [hm2, hP, hn]
      unfold c04k_keyI
      interval_cases i
      · rw [k200, k201]
        interval_cases c <;>
          simp [negMulR, Finset.sum_range_succ, c02p_rS, c02p_sk, c02p_wSk, c02p_rE, c02p_rG] <;> decide
      · rw [k210, k211]
        interval_cases c <;>
          simp [negMulR, Finset.sum_range_succ, c02p_rS, c02p_sk, c02p_wSk, c02p_rE, c02p_rG] <;> decide

/-- `c04t_KeyCanonAt` at the three used key-level moduli, and the no-overflow condition of the lazy accumulation, spelled out -/
theorem c02p_rKeyCanon : ∀ i, i ≤ 2 → ∀ j, j < 2 → ∀ k, k < 2 →
    (((c02p_rKey.getD j #[]).getD k #[]).getD (if i = 2 then c02p_rKL.ms.size - 1 else i) #[]).size = c02p_rKL.n ∧
    ∀ l, l < c02p_rKL.n → (((c02p_rKey.getD j #[]).getD k #[]).getD (if i = 2 then c02p_rKL.ms.size - 1 else i) #[]).getD l 0
      < (c02p_rKL.m (if i = 2 then c02p_rKL.ms.size - 1 else i)).value := by decide +kernel

theorem c02p_rNoOverflow : ∀ i, i ≤ 2 → 2 * (4 * (c02p_rKL.m (if i = 2 then c02p_rKL.ms.size - 1 else i)).value
    * (c02p_rKL.m (if i = 2 then c02p_rKL.ms.size - 1 else i)).value) < 2^128 := by decide +kernel

theorem c02p_rRelinOK : c02p_RelinOK c02p_rKL c02p_wL1.size c02p_rKey (c02p_sk c02p_wSk) c02p_rE c02p_rG 113 17 := by
  have hto := (c02p_wLevelOK c02p_wL2_mk).2.1
  have hbg := (c02p_wLevelOK c02p_wL2_mk).2.2
  have h3 : c02p_rKL.ms.size = 3 := c02p_rFacts.1
  rw [c02p_rFacts.2.1]
  refine ⟨c02p_rKL_wf, by rw [h3]; decide, by rw [h3], by decide, by decide, ?_, ?_, ?_, ?_, c02p_rKeyEq, ?_, ?_, by decide +kernel⟩
  · exact fun i hi => c02p_rKeyCanon i hi
  · exact fun i hi => c02p_rNoOverflow i hi
  · intro j hj
    exact hto.inv j (by rw [c02p_rFacts.1]; omega)
  · refine ⟨hbg.twf, ?_, hbg.invt⟩
    have := hbg.invt_lt
    have := hbg.twf.lt
    show c02p_wL2.tool.invQLastModT < 2^64
    omega
  · intro i _ p _
    show ((c02p_wL2.t.value : Nat) : Int) ∣ c02p_rE i p
    rw [c02p_rFacts.2.2.2.2.2.1]
    exact ⟨_, rfl⟩
  · intro i hi p hp
    have hp' : p < 4 := hp
    revert i p
    decide


/-! ### the program relin(x0·x1) at the level {97, 113} -/

def c02p_rChain (_ : Nat) : Level := c02p_wL1
def c02p_rCts (i : Nat) : Nat × Ct := (0, if i = 0 then c02p_exCt0 else c02p_exCt1)
def c02p_rProg : LProg := .relin (.mul (.inp 0) (.inp 1))

theorem c02p_rChainOK : c02p_ChainOK c02p_rChain 0 := by
  refine ⟨fun c _ => (c02p_wLevelOK c02p_wL1_mk).1, fun c _ => (c02p_wLevelOK c02p_wL1_mk).2.1, fun c h0 hc => ?_, fun c hc => ?_⟩
  · omega
  · omega

theorem c02p_rGood (i : Nat) : c02p_Good c02p_wL1 (c02p_rCts i).2 := by
  have hc : ∀ p ∈ [c02p_exCt0.polys.getD 0 #[], c02p_exCt0.polys.getD 1 #[], c02p_exCt1.polys.getD 0 #[], c02p_exCt1.polys.getD 1 #[]],
      RnsCanon c02p_wL1 p := by
    intro p hp
    simp only [List.mem_cons, List.mem_nil_iff, or_false] at hp
    rcases hp with rfl | rfl | rfl | rfl <;> (unfold RnsCanon; decide +kernel)
  have hs : c02p_wL1.scheme = .bgv := (mkLevel_ok c02p_wL1_mk).2.2.2.2.1
  have hcf : c02v_cfOk c02p_wL1 1 := by
    unfold c02v_cfOk
    rw [hs]
    simp only
    rw [c02p_rFacts.2.2.2.1]
    decide
  have hun : Nat.Coprime 1 c02p_wL1.t.value := Nat.coprime_one_left _
  unfold c02p_rCts
  dsimp only
  split
  · refine ⟨⟨⟨Nat.le_refl 2, (by decide : 2 ≤ 16), fun k hk => ?_⟩, hcf⟩, rfl, hun⟩
    have hk' : k < 2 := hk
    interval_cases k
    · exact hc _ (by simp)
    · exact hc _ (by simp)
  · refine ⟨⟨⟨Nat.le_refl 2, (by decide : 2 ≤ 16), fun k hk => ?_⟩, hcf⟩, rfl, hun⟩
    have hk' : k < 2 := hk
    interval_cases k
    · exact hc _ (by simp)
    · exact hc _ (by simp)

theorem c02p_rPhase : ∀ i, i < 2 → ∀ j, j < 4 →
    c02p_ph c02p_wL1 c02p_wSk (c02p_rCts i).2 j = ((c02p_rCts i).2.cf : Int) * c02p_exM i j + 17 * c02p_exE i j := by decide +kernel

theorem c02p_rEnc (i : Nat) (hi : i < 2) : c02p_Enc c02p_wL1 c02p_wSk (c02p_rCts i).2 (c02p_exM i) 20 := by
  have h := c02p_enc_of_fresh (sk := c02p_wSk) (c02p_rGood i) (c02p_exM i) (c02p_exE i) 3 1
    (fun j hj => by rw [c02p_rFacts.2.2.1] at hj; rw [c02p_rFacts.2.2.2.1]; exact c02p_rPhase i hi j hj)
    (fun j hj => by rw [c02p_rFacts.2.2.1] at hj; revert i j; decide)
    (fun j hj => by rw [c02p_rFacts.2.2.1] at hj; revert i j; decide)
  have hcf : (c02p_rCts i).2.cf = 1 := by interval_cases i <;> rfl
  rw [hcf, c02p_rFacts.2.2.2.1] at h
  exact h

def c02p_rR : Nat × Ct := (c02p_rProg.eval c02p_rChain c02p_rKL c02p_rKey c02p_rCts (fun _ => (0, #[]))).toOption.getD default
theorem c02p_rEval : c02p_rProg.eval c02p_rChain c02p_rKL c02p_rKey c02p_rCts (fun _ => (0, #[])) = .ok c02p_rR :=
  nv_ok_of_isOk default (by decide +kernel)
theorem c02p_rR_val : (c02p_rR.1, c02p_rR.2.polys.size, c02p_rR.2.cf) = (0, 2, 1) := by decide +kernel

/-- bookkeeping: product 4·20·20 = 1600, relinearisation ⌊(2·113·4·17 + 193·17·(1 + 3)) / 193⌋ = 147 -/
theorem c02p_rUB : c02p_rProg.noiseUB c02p_rChain c02p_rKL 113 17 3 (fun _ => (0, 1, 2, 20)) (fun _ => (0, 0)) = some (0, 1, 2, 1747) := by
  decide +kernel

/-- NON-VACUITY of the relinearisation hypotheses of `hom_program_bgv_levelled` -/
theorem hom_program_bgv_relin_example :
    bgvDecrypt (c02p_rChain c02p_rR.1) c02p_wSk c02p_rR.2 =
      .ok (Spec.trim (Array.ofFn (n := (c02p_rChain c02p_rR.1).n) fun j =>
        Spec.imod (c02p_rProg.shadow (c02p_rChain 0).n c02p_exM (fun _ _ => 0) j.val) (c02p_rChain c02p_rR.1).t.value)) :=
  hom_program_bgv_levelled c02p_rChainOK (sk := c02p_wSk) (by rw [show c02p_rChain 0 = c02p_wL1 from rfl, c02p_rFacts.2.2.1]; rfl)
    (S := 3) (by rw [show c02p_rChain 0 = c02p_wL1 from rfl, c02p_rFacts.2.2.1]; decide)
    c02p_rKL c02p_rKey c02p_rE c02p_rG 113 17
    c02p_rCts (fun _ => (0, #[])) c02p_exM (fun _ _ => 0) (fun _ => (0, 1, 2, 20)) (fun _ => (0, 0)) c02p_rProg
    (fun _ c _ => ⟨c02p_rKeyLevelOf, c02p_rRelinOK⟩)
    (fun i hi => by
      have hi2 : i < 2 := by
        simp [c02p_rProg, LProg.ctInputs] at hi
        omega
      refine ⟨Nat.le_refl 0, c02p_rEnc i hi2, ?_⟩
      interval_cases i <;> rfl)
    (fun k hk => by simp [c02p_rProg, LProg.plInputs] at hk)
    (lv := c02p_rR.1) (r := c02p_rR.2) c02p_rEval (st := (0, 1, 2)) c02p_rUB (by decide +kernel)

/-- … evaluated: m0·m1 mod (X^4 + 1, 17) = (1, 5, 14, 16) -/
theorem hom_program_bgv_relin_example_val :
    (bgvDecrypt (c02p_rChain c02p_rR.1) c02p_wSk c02p_rR.2).toOption = some #[1, 5, 14, 16] := by decide +kernel

end HC
