/-
  Translator phase 4i (stream mode), key containers: `PublicKey`, the context-dependent `Vec<I>`, `KSwitchKeys`, `RelinKeys`,
  `GaloisKeys` writers (Gen/SerFns.lean) are the chunk programs of the model's `ctC`, `vecC`, `kswitchC`.  The generated functions
  work on VIEWS (`CtV`) of the model objects (`Ct`), hence the relational statements (`List.Forall₂`).  Helper prefix `gk_`.
-/
import Heathcliff.Proofs.GenSerD
namespace HC.GS
open HC HC.Codec HC.GenS

variable {S E : Type}

theorem gk_pk_serialize (st : WStream S E) (ctx : Ctx) (v : CtV) : pk_serialize st ctx v = ct_serialize st ctx v := rfl

theorem gk_forall₂_length {α β} {R : α → β → Prop} : ∀ {l₁ : List α} {l₂ : List β}, List.Forall₂ R l₁ l₂ → l₁.length = l₂.length
  | _, _, .nil => rfl
  | _, _, .cons _ h => by simp [gk_forall₂_length h]

theorem gk_cvec_loop {α β} (st : WStream S E) (item : α → W S E Nat) (c : Codec β) (vs : List α) (xs : List β)
    (h : List.Forall₂ (fun v x => item v = runChunks st (c.chunks x)) vs xs) (acc : Nat) :
    cvec_serialize_loop1 st item vs acc
      = wbind (runChunks st (seqChunks (List.replicate xs.length c) xs)) fun n => wpure (acc + n) := by
  induction h generalizing acc with
  | nil => simp [cvec_serialize_loop1, seqChunks, runChunks, wbind_wpure]
  | cons hx _ ih =>
    simp only [cvec_serialize_loop1, List.length_cons, List.replicate_succ, seqChunks, runChunks_append, hx, ih, wbind_assoc, wbind_wpure]
    congr 1; funext n; congr 1; funext m; rw [Nat.add_assoc]

/-- the context-dependent `Vec<I>::serialize`: length prefix, then the items — relationally: the views' writers are the items' chunk programs -/
theorem gk_cvec_serialize {α β} (st : WStream S E) (item : α → W S E Nat) (c : Codec β) (vs : List α) (xs : List β)
    (h : List.Forall₂ (fun v x => item v = runChunks st (c.chunks x)) vs xs) :
    cvec_serialize st item vs = runChunks st ((vecC c).chunks xs) := by
  have hc : (vecC c).chunks xs = usizeC.chunks xs.length ++ seqChunks (List.replicate xs.length c) xs := rfl
  have hl : vs.length = xs.length := gk_forall₂_length h
  rw [hc, runChunks_append]
  simp only [cvec_serialize, gs_usize_serialize, gk_cvec_loop st item c vs xs h, hl, wbind_assoc, wbind_wpure, Nat.zero_add]

/-- "the view `v` is a view of the model ciphertext `x` whose writer hypotheses hold" -/
def PkView (ctx : Ctx) (v : CtV) (x : Ct) : Prop :=
  ∃ lv, ctx.find x.pid = some lv ∧ (∀ q ∈ lv.moduli, q < 2 ^ 64) ∧ x.pid.length = 4 ∧
    (lv.scheme = 1 ∨ lv.scheme = 2 ∨ lv.scheme = 3) ∧ CtShape lv x ∧ v = ctvOfCt lv x

theorem gk_pk_of_view (st : WStream S E) (ctx : Ctx) (expand : List Nat → Level → Poly) (v : CtV) (x : Ct) (h : PkView ctx v x) :
    pk_serialize st ctx v = runChunks st ((ctC ctx expand).chunks x) := by
  obtain ⟨lv, hf, hq, hl, hs, hw, rfl⟩ := h
  exact gd_ct_serialize_view st ctx expand x lv hf hq hl hs hw

theorem gk_forall₂_imp {α β} {R Q : α → β → Prop} (h : ∀ a b, R a b → Q a b) :
    ∀ {l₁ l₂}, List.Forall₂ R l₁ l₂ → List.Forall₂ Q l₁ l₂
  | _, _, .nil => .nil
  | _, _, .cons h1 h2 => .cons (h _ _ h1) (gk_forall₂_imp h h2)

/-- `KSwitchKeys::serialize` (= `RelinKeys`, `GaloisKeys`): parms id, then `Vec<Vec<PublicKey>>`; a missing key is an empty inner vector -/
theorem gk_kswitch_serialize (st : WStream S E) (ctx : Ctx) (expand : List Nat → Level → Poly) (kv : KSwitch CtV) (k : KSwitch Ct)
    (hpid : kv.pid = k.pid) (hl : k.pid.length = 4)
    (hkeys : List.Forall₂ (List.Forall₂ (PkView ctx)) kv.keys k.keys) :
    kswitch_serialize st ctx kv = runChunks st ((kswitchC (ctC ctx expand)).chunks k) := by
  have hc : (kswitchC (ctC ctx expand)).chunks k = pidC.chunks k.pid ++ (vecC (vecC (ctC ctx expand))).chunks k.keys := rfl
  have hin : List.Forall₂ (fun vs xs => cvec_serialize st (pk_serialize st ctx) vs = runChunks st ((vecC (ctC ctx expand)).chunks xs))
      kv.keys k.keys :=
    gk_forall₂_imp (fun vs xs h => gk_cvec_serialize st _ (ctC ctx expand) vs xs
      (gk_forall₂_imp (fun v x hv => gk_pk_of_view st ctx expand v x hv) h)) hkeys
  have hv := gk_cvec_serialize st (cvec_serialize st (pk_serialize st ctx)) (vecC (ctC ctx expand)) kv.keys k.keys hin
  rw [hc, runChunks_append]
  simp only [kswitch_serialize, hpid, gs_pid_serialize st _ hl, hv, wbind_assoc, wbind_wpure, Nat.zero_add]

theorem gk_relin_serialize (st : WStream S E) (ctx : Ctx) (kv : KSwitch CtV) : relin_serialize st ctx kv = kswitch_serialize st ctx kv := rfl
theorem gk_galois_serialize (st : WStream S E) (ctx : Ctx) (kv : KSwitch CtV) : galois_serialize st ctx kv = kswitch_serialize st ctx kv := rfl

/-! ### property-level statements -/

/-- C14: generated `KSwitchKeys` / `RelinKeys` / `GaloisKeys` writers on an in-memory stream append exactly `kswitchC.enc` -/
theorem c14g_kswitch_serialize (ctx : Ctx) (expand : List Nat → Level → Poly) (kv : KSwitch CtV) (k : KSwitch Ct)
    (hpid : kv.pid = k.pid) (hl : k.pid.length = 4) (hkeys : List.Forall₂ (List.Forall₂ (PkView ctx)) kv.keys k.keys) (s : Bytes) :
    kswitch_serialize idealStream ctx kv s = (.ok ((kswitchC (ctC ctx expand)).enc k).length, s ++ (kswitchC (ctC ctx expand)).enc k) ∧
    relin_serialize idealStream ctx kv s = kswitch_serialize idealStream ctx kv s ∧
    galois_serialize idealStream ctx kv s = kswitch_serialize idealStream ctx kv s :=
  ⟨gs_ideal (kswitchC (ctC ctx expand)) k _ (gk_kswitch_serialize idealStream ctx expand kv k hpid hl hkeys) s, rfl, rfl⟩

/-- C15: … and fail cleanly on every faulty sink -/
theorem c15g_kswitch_serialize_fails_cleanly (ctx : Ctx) (expand : List Nat → Level → Poly) (kv : KSwitch CtV) (k : KSwitch Ct)
    (hpid : kv.pid = k.pid) (hl : k.pid.length = 4) (hkeys : List.Forall₂ (List.Forall₂ (PkView ctx)) kv.keys k.keys) (s : Sink) :
    let w := kswitch_serialize sinkStream ctx kv
    (∀ n, (w s).1 = .ok n → n = ((kswitchC (ctC ctx expand)).enc k).length ∧ (w s).2.out = s.out ++ (kswitchC (ctC ctx expand)).enc k) ∧
    (∀ e, (w s).1 = .error e → (∃ io, e = .io io) ∧
      ∃ j, j ≤ ((kswitchC (ctC ctx expand)).enc k).length ∧ (w s).2.out = s.out ++ ((kswitchC (ctC ctx expand)).enc k).take j) :=
  gs_writer_clean (kswitchC (ctC ctx expand)) k _ (gk_kswitch_serialize sinkStream ctx expand kv k hpid hl hkeys) s

end HC.GS

namespace HC.GS
open HC HC.Codec HC.GenS

/-! ### streams that also answer `ErrorKind::Interrupted` (C15 `SinkI`) -/

/-- an interrupting sink as a stream: `write_all` is the retry loop `writeAllI` -/
def sinkIStream : WStream SinkI IOErrI :=
  ⟨fun b w => w.write b, fun b w => match writeAllI w b with
    | (.ok (), w') => (.ok (), w')
    | (.error e, w') => (.error (.io e), w')⟩

def liftIOI {α} (r : Except IOErrI α × SinkI) : Except (WErr IOErrI) α × SinkI :=
  match r with
  | (.ok a, s) => (.ok a, s)
  | (.error e, s) => (.error (.io e), s)

/-- on an interrupting sink the chunk program IS the model's `serializeI` in `write_all` mode — so every generated writer proved equal to
    a chunk program inherits `serialize_interrupts_invisible` / `serialize_faulty_interrupting` -/
theorem runChunks_sinkI (cs : List Chunk) (w : SinkI) :
    runChunks sinkIStream cs w = liftIOI (serializeI (fun _ => .writeAll) cs w) := by
  induction cs generalizing w with
  | nil => rfl
  | cons c cs ih =>
    simp only [runChunks, serializeI, scalarWriteI, wbind, wio]
    have hw : sinkIStream.writeAll c.bytes w = (match writeAllI w c.bytes with
      | (.ok (), w') => (.ok (), w')
      | (.error e, w') => (.error (.io e), w')) := rfl
    rw [hw]
    rcases h : writeAllI w c.bytes with ⟨r, w'⟩
    cases r with
    | error e => simp [liftIOI]
    | ok u =>
      simp only [ih w']
      rcases h2 : serializeI (fun _ => WMode.writeAll) cs w' with ⟨r2, w''⟩
      cases r2 <;> simp [liftIOI, wpure]

/-- generated `EncryptionParameters` / `Plaintext` writers on an interrupting, short-writing, failing stream -/
theorem c15g_source_writers_interrupting (w : SinkI) :
    (∀ p : Params, p.scheme < 256 →
      params_serialize sinkIStream p w = liftIOI (serializeI (fun _ => .writeAll) (paramsC.chunks p) w)) ∧
    (∀ p : Plain, p.pid.length = 4 →
      plain_serialize sinkIStream p w = liftIOI (serializeI (fun _ => .writeAll) (plainC.chunks p) w)) :=
  ⟨fun p hp => by rw [gs_params_serialize _ p hp, runChunks_sinkI], fun p hp => by rw [gs_plain_serialize _ p hp, runChunks_sinkI]⟩

end HC.GS
