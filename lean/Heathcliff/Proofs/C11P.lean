/-
  C11P: the batching round trip of the MODEL (`batchEncode` / `batchDecode` of Model/Galois.lean) for tables produced by the MODEL's
  constructor `NTTTables.new` — i.e. for every degree N = 2^k (1 ≤ k ≤ 60) and every plain modulus the constructor accepts (it
  accepts only primes t ≡ 1 mod 2N: `NTTTables.new_inv`), with any admissible starting root.  Composition of `NTTTables.new_wf_u64`
  (C09G) with the round-trip theorems of C11N (which use `intt_ntt` / `ntt_intt` and the index-map permutation theorem).
-/
import Heathcliff.Proofs.C11N
namespace HC

/-- **model encode, then model decode = identity with zero padding**, tables from the constructor: for every k in [1, 60], every
    well-formed modulus m and every table `NTTTables.new k m pr root0` returns, every vector of at most N = 2^k residues encodes to a
    canonical plaintext of N coefficients whose decoding returns the vector, followed by zeros (`getD`) -/
theorem batch_round_trip_of_new {k : Nat} {m : Modulus} {pr : Bool} {root0 : Nat} {t : NTTTables}
    (hm : m.WF) (hk1 : 1 ≤ k) (hk : k ≤ 60) (hr0 : root0 < 2^64) (h : NTTTables.new k m pr root0 = .ok t)
    (v : Array Nat) (hs : v.size ≤ 2^k) (hv : ∀ j, j < v.size → v.getD j 0 < m.value) :
    ∃ p, batchEncode t v = .ok p ∧ p.size = 2^k ∧ (∀ j, j < 2^k → p.getD j 0 < m.value) ∧
      (∀ i, i < 2^k → (batchDecode t p).getD i 0 = v.getD i 0) ∧
      (∀ i, v.size ≤ i → i < 2^k → (batchDecode t p).getD i 0 = 0) := by
  obtain ⟨hw, htk, htm, _⟩ := NTTTables.new_wf_u64 hm hk hr0 h
  obtain ⟨p, hp, hsz, hlt, hrt⟩ := batch_decode_encode hw (by rw [htk]; exact hk1) v (by rw [htk]; exact hs)
    (by rw [htm]; exact hv)
  rw [htk] at hsz hlt hrt
  rw [htm] at hlt
  refine ⟨p, hp, hsz, hlt, hrt, fun i hi hlt' => ?_⟩
  rw [hrt i hlt']
  simp [Array.getD, Nat.not_lt.mpr hi]

/-- ... and model decode, then model encode = identity on canonical plaintexts of full length (so the pair is a bijection between
    canonical plaintexts and slot vectors) -/
theorem batch_encode_decode_of_new {k : Nat} {m : Modulus} {pr : Bool} {root0 : Nat} {t : NTTTables}
    (hm : m.WF) (hk1 : 1 ≤ k) (hk : k ≤ 60) (hr0 : root0 < 2^64) (h : NTTTables.new k m pr root0 = .ok t)
    (p : Array Nat) (hs : p.size = 2^k) (hp : ∀ j, j < 2^k → p.getD j 0 < m.value) :
    batchEncode t (batchDecode t p) = .ok p := by
  obtain ⟨hw, htk, htm, _⟩ := NTTTables.new_wf_u64 hm hk hr0 h
  exact batch_encode_decode hw (by rw [htk]; exact hk1) p (by rw [htk]; exact hs) (by rw [htk, htm]; exact hp)

/-- the constructor accepts only batching primes: a table exists only for a prime modulus with 2N | t − 1 -/
theorem batch_tables_only_for_batching_primes {k : Nat} {m : Modulus} {pr : Bool} {root0 : Nat} {t : NTTTables}
    (h : NTTTables.new k m pr root0 = .ok t) : pr = true ∧ (m.value - 1) % (2 * 2^k) = 0 := by
  obtain ⟨hpr, _, hdiv, _⟩ := NTTTables.new_inv h
  exact ⟨hpr, hdiv⟩

end HC
