/- C02 (task P, part 6): BGV relinearisation (size 3 → 2) on EXACT phases, from `relinearize_phase_bgv`, `switchKey_noise_bound_bgv`,
   `switchKey_noise_bgv_mod_t` of C04K: phase(r) ≡ phase(a) + ν (mod Q), t ∣ ν, P·‖ν‖∞ ≤ dsz·A·N·Be + P·t·(1 + ‖s‖₁). -/
import Heathcliff.Proofs.C02PH
namespace HC
open Finset Polynomial

theorem c02p_phZ_two {n : Nat} (hn : 0 < n) (s : Nat → Int) (A : Nat → Nat → Int) :
    ∀ c, c < n → c02x_phZ n s 2 A c = c05u_phase2 n (A 0) (A 1) s c := by
  apply c02x_pull hn
  have hξ := c02x_root_pow n
  have e : c05u_phase2 n (A 0) (A 1) s = fun c => A 0 c + negMulR n (A 1) s c := rfl
  rw [c02x_ev_phZ hn hξ, e, c02x_ev_add, c02w_ev_negMul hn hξ]
  unfold ctPhase
  rw [Finset.sum_range_succ, Finset.sum_range_one]
  ring

theorem c02p_phZ_three {n : Nat} (hn : 0 < n) (s : Nat → Int) (A : Nat → Nat → Int) :
    ∀ c, c < n → c02x_phZ n s 3 A c = c04k_phase3 n (A 0) (A 1) (A 2) s c := by
  apply c02x_pull hn
  have hξ := c02x_root_pow n
  have e : c04k_phase3 n (A 0) (A 1) (A 2) s = fun c => (A 0 c + negMulR n (A 1) s c) + negMulR n (A 2) (negMulR n s s) c := rfl
  rw [c02x_ev_phZ hn hξ, e, c02x_ev_add, c02x_ev_add, c02w_ev_negMul hn hξ, c02w_ev_negMul hn hξ, c02w_ev_negMul hn hξ]
  unfold ctPhase
  rw [Finset.sum_range_succ, Finset.sum_range_succ, Finset.sum_range_one]
  ring

/-- the key level seen from the ciphertext level `l`: `l`'s moduli are the first `l.size` key-level moduli, with the same tables and plain
    modulus -/
structure c02p_KeyLevelOf (kl : KeyLevel) (l : Level) : Prop extends c04k_LevelOf kl l where
  tb : ∀ j, j < l.size → kl.tb j = l.tbl j
  t : kl.t = l.t

/-- the relinearisation key (for s², `dsz` digits) and the key level: the key-dependent fields of `c04t_KSInput`, the BGV constants, the KEY
    EQUATION k0_i + k1_i ⋆ s ≡ e_i + P·g_i·s² with errors `e_i = t·(…)`, `‖e_i‖∞ ≤ Be`, and a bound `A` on the moduli -/
structure c02p_RelinOK (kl : KeyLevel) (dsz : Nat) (key : KSKey) (s : Nat → Int) (e : Nat → Nat → Int) (G : Nat → Int) (A Be : Nat) : Prop where
  hkl : kl.WF
  hsz : 2 ≤ kl.ms.size
  hd : dsz + 1 ≤ kl.ms.size
  hks : dsz ≤ key.size
  hkcc : (key.getD 0 #[]).size = 2
  hkey : ∀ i, i ≤ dsz → c04t_KeyCanonAt kl dsz 2 key (c04t_keyIndex kl dsz i)
  hov : ∀ i, i ≤ dsz → dsz * (4 * (kl.m (c04t_keyIndex kl dsz i)).value * (kl.m (c04t_keyIndex kl dsz i)).value) < 2^128
  hinv : c04t_InvP kl dsz
  bgv : c04t_BgvData kl
  keq : c04k_KeyEq kl dsz key s (fun p => negMulR kl.n s s p) e G
  het : ∀ i, i < dsz → ∀ p, p < kl.n → (kl.t.value : Int) ∣ e i p
  heB : ∀ i, i < dsz → ∀ p, p < kl.n → (e i p).natAbs ≤ Be
  hA : ∀ i, i < dsz → (kl.m i).value ≤ A

theorem c02p_canon_of_level {kl : KeyLevel} {l : Level} (hk : c02p_KeyLevelOf kl l) {p : RnsPoly} (hp : RnsCanon l p) :
    c04t_Canon kl l.size p := fun j hj => by
  obtain ⟨h1, h2⟩ := hp.2 j hj
  exact ⟨by rw [h1, hk.n], fun c hc => by rw [← hk.q j hj]; exact h2 c (by rw [hk.n]; exact hc)⟩

theorem c02p_relin_ph {l : Level} (h : c02p_LevelOK l) {kl : KeyLevel} (hk : c02p_KeyLevelOf kl l) {key : KSKey} {sk : Array Int}
    (hsk : sk.size = l.n) {e : Nat → Nat → Int} {G : Nat → Int} {A Be : Nat}
    (hr : c02p_RelinOK kl l.size key (c02p_sk sk) e G A Be) {a r : Ct} (ha : c02p_Good l a) (h3 : a.polys.size = 3)
    (keys : Nat → Option KSKey) (hk2 : keys 2 = some key) (fuel : Nat)
    (hrel : relinearize kl .bgv l.size keys (fuel + 2) a = .ok r) :
    c02p_Good l r ∧ r.cf = a.cf ∧ r.polys.size = 2 ∧ ∃ ν : Nat → Int,
      (∀ j, j < l.n → c02p_ph l sk r j ≡ c02p_ph l sk a j + ν j [ZMOD l.tool.baseQ.prod]) ∧
      ∀ j, j < l.n → (l.t.value : Int) ∣ ν j ∧
        (ν j).natAbs * kl.c04t_P ≤ l.size * (A * (l.n * Be)) + kl.c04t_P * l.t.value * (1 + ∑ p ∈ range l.n, (c02p_sk sk p).natAbs) := by
  have hcan2 : ∀ k, k < 3 → c04t_Canon kl l.size (a.polys.getD k #[]) :=
    fun k hk' => c02p_canon_of_level hk (ha.canon.canon k (by omega))
  have hKS : c04t_KSInput kl l.size a (a.polys.getD 2 #[]) key :=
    ⟨hr.hkl, hr.hsz, hr.hd, hr.hks, hcan2 2 (by omega), by rw [hr.hkcc]; exact hr.hkey, hr.hov,
      by rw [hr.hkcc]; exact fun k hk' => hcan2 k (by omega), hr.hinv⟩
  obtain ⟨r', hok, hsz2, hntt, hcf, hcanr, hph⟩ := relinearize_phase_bgv keys fuel h3 hk2 hKS hr.bgv ha.ntt hr.hkcc hr.keq
  rw [hrel] at hok
  obtain rfl := Except.ok.inj hok
  have hrcan : ∀ k, k < r.polys.size → RnsCanon l (r.polys.getD k #[]) := by
    intro k hk'
    rw [hsz2] at hk'
    obtain ⟨s1, s2⟩ := hcanr k hk'
    exact ⟨s1, fun j hj => ⟨by rw [(s2 j hj).1, hk.n], fun c hc => by rw [hk.q j hj]; exact (s2 j hj).2 c (by rw [← hk.n]; exact hc)⟩⟩
  have hgood : c02p_Good l r := by
    refine ⟨⟨⟨by rw [hsz2], by rw [hsz2]; decide, hrcan⟩, by rw [hcf]; exact ha.canon.cf⟩, by rw [hntt]; exact ha.ntt, by rw [hcf]; exact ha.unit⟩
  refine ⟨hgood, hcf, hsz2, c04k_nuBgv kl l.size a.ntt (a.polys.getD 2 #[]) key e (c02p_sk sk), fun j hj => ?_, fun j hj => ?_⟩
  · obtain ⟨Aa, hAa⟩ := c02p_lift_exists h.lq a
    obtain ⟨Br, hBr⟩ := c02p_lift_exists h.lq r
    have hpa := c02p_phase_of_lift h.wf h.lq hsk ha.canon.toc02v_PolysCanon hAa (sk := sk) hj
    have hpr := c02p_phase_of_lift h.wf h.lq hsk hgood.canon.toc02v_PolysCanon hBr (sk := sk) hj
    rw [h3, c02p_phZ_three h.npos _ _ j hj] at hpa
    rw [hsz2, c02p_phZ_two h.npos _ _ j hj] at hpr
    refine hpr.trans (Int.ModEq.trans ?_ (hpa.symm.add_right _))
    -- per modulus, then CRT
    apply c02x_crt_int h.lq.bwf
    intro i hi
    have hi' : i < l.size := by rw [← h.lq.size_eq]; exact hi
    rw [h.lq.q_eq hi']
    have hj' : j < kl.n := by rw [← hk.n]; exact hj
    have hmain := hph i hi' j hj'
    rw [← hk.q i hi'] at hmain
    -- rewrite the coefficient readings of C04K into `c02p_coef`
    have hco : ∀ (ct : Ct) (k : Nat), c04k_polyI (kl.tb i) a.ntt ((ct.polys.getD k #[]).getD i #[]) = fun c => ((c02p_coef l ct k i c : Nat) : Int) := by
      intro ct k
      funext c
      unfold c04k_polyI c04t_coefOf c02p_coef
      rw [ha.ntt, if_pos rfl, hk.tb i hi']
    rw [hco r 0, hco r 1, hco a 0, hco a 1, hco a 2] at hmain
    have hn' : kl.n = l.n := hk.n.symm
    rw [hn'] at hmain
    have hA' : ∀ k, k < 3 → ∀ c, c < l.n → Aa k c ≡ ((c02p_coef l a k i c : Nat) : Int) [ZMOD ((l.q i).value : Int)] :=
      fun k hk' c hc => (hAa k (by omega) i hi' c hc).symm
    have hB' : ∀ k, k < 2 → ∀ c, c < l.n → Br k c ≡ ((c02p_coef l r k i c : Nat) : Int) [ZMOD ((l.q i).value : Int)] :=
      fun k hk' c hc => (hBr k (by omega) i hi' c hc).symm
    have e1 : c05u_phase2 l.n (Br 0) (Br 1) (c02p_sk sk) j ≡
        c05u_phase2 l.n (fun c => ((c02p_coef l r 0 i c : Nat) : Int)) (fun c => ((c02p_coef l r 1 i c : Nat) : Int)) (c02p_sk sk) j
        [ZMOD ((l.q i).value : Int)] := by
      unfold c05u_phase2
      exact (hB' 0 (by omega) j hj).add (c02x_negMulR_modEq l.n _ (hB' 1 (by omega)) (fun _ _ => Int.ModEq.refl _) hj)
    have e2 : c04k_phase3 l.n (fun c => ((c02p_coef l a 0 i c : Nat) : Int)) (fun c => ((c02p_coef l a 1 i c : Nat) : Int))
          (fun c => ((c02p_coef l a 2 i c : Nat) : Int)) (c02p_sk sk) j ≡
        c04k_phase3 l.n (Aa 0) (Aa 1) (Aa 2) (c02p_sk sk) j [ZMOD ((l.q i).value : Int)] := by
      unfold c04k_phase3
      exact (((hA' 0 (by omega) j hj).symm).add (c02x_negMulR_modEq l.n _ (fun c hc => (hA' 1 (by omega) c hc).symm)
        (fun _ _ => Int.ModEq.refl _) hj)).add (c02x_negMulR_modEq l.n _ (fun c hc => (hA' 2 (by omega) c hc).symm)
        (fun _ _ => Int.ModEq.refl _) hj)
    exact (e1.trans hmain).trans (e2.add_right _)
  · have hj' : j < kl.n := by rw [← hk.n]; exact hj
    have d := switchKey_noise_bgv_mod_t hKS hr.bgv hr.keq hr.het j hj'
    have b := switchKey_noise_bound_bgv hKS hr.bgv hr.keq hr.hA hr.heB j hj'
    rw [hk.t] at d b
    rw [← hk.n] at b
    exact ⟨d, b⟩

/-- the a-priori bound on the relinearisation noise: ⌊(dsz·A·N·Be + P·t·(1 + S)) / P⌋ -/
theorem c02p_step_relin {l : Level} (h : c02p_LevelOK l) {kl : KeyLevel} (hk : c02p_KeyLevelOf kl l) {key : KSKey} {sk : Array Int}
    (hsk : sk.size = l.n) {e : Nat → Nat → Int} {G : Nat → Int} {A Be S : Nat}
    (hr : c02p_RelinOK kl l.size key (c02p_sk sk) e G A Be) (hS : ∑ p ∈ range l.n, (c02p_sk sk p).natAbs ≤ S)
    {a r : Ct} {m : Nat → Int} {V : Nat} (ha : c02p_Enc l sk a m V) (h3 : a.polys.size = 3)
    (keys : Nat → Option KSKey) (hk2 : keys 2 = some key) (fuel : Nat)
    (hrel : relinearize kl .bgv l.size keys (fuel + 2) a = .ok r) :
    r.cf = a.cf ∧ r.polys.size = 2 ∧
      c02p_Enc l sk r m (V + (l.size * (A * (l.n * Be)) + kl.c04t_P * l.t.value * (1 + S)) / kl.c04t_P) := by
  obtain ⟨ga, va, a1, a2, a3⟩ := ha
  obtain ⟨gr, hcf, hsz, ν, p1, p2⟩ := c02p_relin_ph h hk hsk hr ga h3 keys hk2 fuel hrel
  have hP0 : 0 < kl.c04t_P := by
    have := (c04t_kl_comp hr.hkl (show kl.ms.size - 1 < kl.ms.size by have := hr.hsz; omega)).2.2.2.two_le
    unfold KeyLevel.c04t_P; omega
  refine ⟨hcf, hsz, gr, fun j => va j + ν j, fun j hj => (p1 j hj).trans ((a1 j hj).add_right _), fun j hj => ?_, fun j hj => ?_⟩
  · rw [hcf]
    have := (Int.modEq_zero_iff_dvd).mpr (p2 j hj).1
    have := (a2 j hj).add this
    rwa [add_zero] at this
  · refine le_trans (Int.natAbs_add_le _ _) (Nat.add_le_add (a3 j hj) ?_)
    rw [Nat.le_div_iff_mul_le hP0]
    refine le_trans (p2 j hj).2 (Nat.add_le_add_left (Nat.mul_le_mul_left _ (Nat.add_le_add_left hS _)) _)

end HC
