import Heathcliff.Proofs.GenRns6

/-!
  Phase 4k of the translator tie, list level: `RNSTool::fastbconv_sk` (Shenoy–Kumaresan conversion Bsk → q, src/util/rns.rs) as generated into
  `Heathcliff/Gen/RnsFns.lean`: two conversions (abstract function inputs), the α_sk loop into a scratch vector, the correction loop that rewrites the
  destination in place through an element borrow (`let dest = &mut destination[i * coeff_count + j]`).  Helper names start with `gr_`.
-/
namespace HC
open HC.GenW HC.GenR

/-- `gr_idxloop` for a top-level loop: the code after the loop (`cont`) is emitted inside its definition at exhaustion -/
theorem gr_idxloopK (loop : Nat → Nat → List Nat → R (List Nat)) (G : Nat → Nat → R Nat) (N : Nat) (cont : List Nat → R (List Nat))
    (h0 : ∀ i l, loop 0 i l = cont l)
    (hs : ∀ n i (l : List Nat) (h : i < l.length), i < N → loop (n+1) i l = (G i l[i] >>= fun y => loop n (i+1) (l.set i y))) :
    ∀ n i (l : List Nat), i + n = l.length → l.length ≤ N →
      loop n i l = ((List.range' i n).mapM (fun j => G j (l.getD j 0)) >>= fun ys => cont (l.take i ++ ys)) := by
  intro n
  induction n with
  | zero =>
    intro i l h _
    rw [h0, List.range'_zero, gr_mapM_nil, gr_ok_bind, List.append_nil, List.take_of_length_le (by omega)]
  | succ n ih =>
    intro i l h hN
    have hi : i < l.length := by omega
    rw [hs n i l hi (by omega), List.range'_succ, gr_mapM_cons]
    have hg : l.getD i 0 = l[i] := by rw [List.getD_eq_getElem?_getD, List.getElem?_eq_getElem hi]; rfl
    rw [hg]
    cases hG : G i l[i] with
    | error e => rfl
    | ok y =>
      rw [gr_ok_bind, gr_ok_bind, ih (i+1) (l.set i y) (by rw [List.length_set]; omega) (by rw [List.length_set]; omega)]
      have hc : (List.range' (i+1) n).mapM (fun j => G j ((l.set i y).getD j 0)) = (List.range' (i+1) n).mapM (fun j => G j (l.getD j 0)) := by
        apply gr_mapM_congr
        intro j hj
        rw [List.mem_range'_1] at hj
        rw [List.getD_eq_getElem?_getD, List.getD_eq_getElem?_getD, List.getElem?_set_ne (by omega)]
      rw [hc]
      cases hm : (List.range' (i+1) n).mapM (fun j => G j (l.getD j 0)) with
      | error e => rfl
      | ok ys =>
        rw [gr_ok_bind, gr_ok_bind, gr_ok_bind, gx_take_set _ _ _ hi, List.append_assoc]; rfl

/-- α_sk of one coefficient: `(temp + (m_sk − x_sk)) · B⁻¹ mod m_sk` with the checked `−`, `+` -/
def gr_skAlpha (msk : Modulus) (inv : MulOperand) (tv x : Nat) : R Nat :=
  ckSub msk.value x >>= fun d => ckAdd tv d >>= fun s => mulOperandMod s inv msk

/-- one coefficient of the correction: `a` = α_sk, `d` = the converted value -/
def gr_skElt (b msk : Modulus) (pb npb : MulOperand) (half a d : Nat) : R Nat :=
  if a > half then (negateMod a msk >>= fun na => mulOperandAddMod na pb d b) else mulOperandAddMod a npb d b

/-- one component of the correction (the two `MultiplyU64ModOperand::new` may trap) -/
def gr_skComp (b msk : Modulus) (pqv half n : Nat) (alpha ci : List Nat) : R (List Nat) :=
  MulOperand.new pqv b >>= fun pb => ckSub b.value pqv >>= fun v => MulOperand.new v b >>= fun npb =>
    (List.range' 0 n).mapM (fun j => gr_skElt b msk pb npb half (alpha.getD j 0) (ci.getD j 0))

theorem gr_sk_loop3 (cs : List (List Nat)) (sq n i half : Nat) (alpha : List Nat) (b msk : Modulus) (pb npb : MulOperand)
    (hi : i < sq) (hsn : sq * n < 2^64) (hcs : cs.length = sq) (hcn : ∀ c ∈ cs, c.length = n) (ha : alpha.length = n) :
    GenR.fastbconv_sk_loop3 n alpha half i b pb npb msk n 0 cs.flatten
      = ((List.range' 0 n).mapM (fun j => gr_skElt b msk pb npb half (alpha.getD j 0) ((cs.getD i []).getD j 0))
          >>= fun d => .ok (cs.set i d).flatten) := by
  have hfd := gr_flat_length n cs hcn
  rw [hcs] at hfd
  have hin1 : i * n + n ≤ sq * n := by
    have := Nat.mul_le_mul_right n (Nat.succ_le_of_lt hi); rw [Nat.succ_mul] at this; exact this
  rw [gr_offloop (GenR.fastbconv_sk_loop3 n alpha half i b pb npb msk)
      (fun j old => gr_skElt b msk pb npb half (alpha.getD j 0) old) (i * n) n (fun _ _ => rfl) (by
      intro k j l hl hj
      have e1 : ckMul i n = .ok (i * n) := gr_ckMul_ok (by omega)
      have e2 : ckAdd (i * n) j = .ok (i * n + j) := gr_ckAdd_ok (by omega)
      have haj : j < alpha.length := by omega
      rw [GenR.fastbconv_sk_loop3]
      simp only [e1, e2, gw_idx_eq _ _ hl, gw_idx_eq _ _ haj, gr_getD_of_lt _ _ haj, gr_ok_bind, gw_negate_u64_mod_eq,
        gw_multiply_u64operand_add_u64_mod_eq]
      unfold gr_skElt
      by_cases hg : alpha[j] > half
      · simp only [if_pos hg]
        cases negateMod alpha[j] msk with
        | error e => rfl
        | ok na =>
          simp only [gr_ok_bind]
          cases mulOperandAddMod na pb l[i * n + j] b with
          | error e => rfl
          | ok y => simp only [gr_ok_bind, gx_setIdx_ok _ _ _ hl]
      · simp only [if_neg hg]
        cases mulOperandAddMod alpha[j] npb l[i * n + j] b with
        | error e => rfl
        | ok y => simp only [gr_ok_bind, gx_setIdx_ok _ _ _ hl])
    n 0 cs.flatten (by omega) (by omega)]
  have hcg : (List.range' 0 n).mapM (fun j' => gr_skElt b msk pb npb half (alpha.getD j' 0) (cs.flatten.getD (i * n + j') 0))
      = (List.range' 0 n).mapM (fun j => gr_skElt b msk pb npb half (alpha.getD j 0) ((cs.getD i []).getD j 0)) := by
    apply gr_mapM_congr
    intro j hj
    rw [List.mem_range'_1] at hj
    rw [gr_flat_getD n cs i j hcn (by omega) (by omega)]
  rw [hcg]
  cases hm : (List.range' 0 n).mapM (fun j => gr_skElt b msk pb npb half (alpha.getD j 0) ((cs.getD i []).getD j 0)) with
  | error e => rfl
  | ok d =>
    have hdl : d.length = n := by rw [gr_mapM_length _ _ _ hm, List.length_range']
    rw [gr_ok_bind, gr_ok_bind, Nat.add_zero, ← gr_splice_flat n cs i d hcn (by omega) hdl]
    unfold GenR.splice
    rw [hdl]

/-- the correction loop over the components of the destination -/
theorem gr_sk_loop2 (cs : List (List Nat)) (sq n half : Nat) (alpha : List Nat) (qs : List Modulus) (pqs : List Nat) (msk : Modulus)
    (hsn : sq * n < 2^64) (hcs : cs.length = sq) (hcn : ∀ c ∈ cs, c.length = n) (ha : alpha.length = n)
    (hqs : qs.length = sq) (hpq : pqs.length = sq) (hpqw : ∀ x ∈ pqs, x < 2^64) (hqw : ∀ i, i < sq → (qs.getD i gr_dflt).value < 2^64) :
    GenR.fastbconv_sk_loop2 sq n alpha half qs pqs msk sq 0 cs.flatten
      = ((List.range' 0 sq).mapM (fun i => gr_skComp (qs.getD i gr_dflt) msk (pqs.getD i 0) half n alpha (cs.getD i []))
          >>= fun outs => .ok outs.flatten) := by
  rw [gr_comploop (GenR.fastbconv_sk_loop2 sq n alpha half qs pqs msk)
    (fun i c => gr_skComp (qs.getD i gr_dflt) msk (pqs.getD i 0) half n alpha c) (fun l => .ok l) sq n (fun _ _ => rfl) (by
      intro k i cs hi hcs hcn
      have e1 : GenR.idxMod qs i = .ok (qs.getD i gr_dflt) := gr_idxMod_ok qs i _ (by omega)
      have hpi : i < pqs.length := by omega
      have e2 : GenW.idx pqs i = .ok (pqs.getD i 0) := by rw [gw_idx_eq _ _ hpi, gr_getD_of_lt _ _ hpi]
      have e3 : GenW.mulop_new (pqs.getD i 0) (qs.getD i gr_dflt) = MulOperand.new (pqs.getD i 0) (qs.getD i gr_dflt) :=
        gx_mulop_new_eq _ _ (gr_getD_mem_lt hpqw (by norm_num) i)
      rw [GenR.fastbconv_sk_loop2]
      simp only [e1, e2, e3, gr_ok_bind]
      unfold gr_skComp
      cases MulOperand.new (pqs.getD i 0) (qs.getD i gr_dflt) with
      | error e => rfl
      | ok pb =>
        simp only [gr_ok_bind]
        cases hv : ckSub (qs.getD i gr_dflt).value (pqs.getD i 0) with
        | error e => rfl
        | ok v =>
          have hvw : v < 2^64 := by
            unfold ckSub at hv
            split at hv
            · cases hv; have := hqw i hi; omega
            · cases hv
          simp only [gr_ok_bind, gx_mulop_new_eq _ _ hvw]
          cases MulOperand.new v (qs.getD i gr_dflt) with
          | error e => rfl
          | ok npb =>
            simp only [gr_ok_bind]
            rw [gr_sk_loop3 cs sq n i half alpha (qs.getD i gr_dflt) msk pb npb hi hsn hcs hcn ha]
            cases (List.range' 0 n).mapM (fun j => gr_skElt (qs.getD i gr_dflt) msk pb npb half (alpha.getD j 0) ((cs.getD i []).getD j 0)) with
            | error e => rfl
            | ok d => rfl)
    (by
      intro i c y _ _ hy
      unfold gr_skComp at hy
      cases h1 : MulOperand.new (pqs.getD i 0) (qs.getD i gr_dflt) with
      | error e => rw [h1] at hy; cases hy
      | ok pb =>
        rw [h1, gr_ok_bind] at hy
        cases h2 : ckSub (qs.getD i gr_dflt).value (pqs.getD i 0) with
        | error e => rw [h2] at hy; cases hy
        | ok v =>
          rw [h2, gr_ok_bind] at hy
          cases h3 : MulOperand.new v (qs.getD i gr_dflt) with
          | error e => rw [h3] at hy; cases hy
          | ok npb =>
            rw [h3, gr_ok_bind] at hy
            rw [gr_mapM_length _ _ _ hy, List.length_range'])
    sq 0 cs (by omega) hcs hcn,
    gr_foldM_self (fun i c => gr_skComp (qs.getD i gr_dflt) msk (pqs.getD i 0) half n alpha c) sq 0 cs (by omega)]
  cases (List.range' 0 sq).mapM (fun i => gr_skComp (qs.getD i gr_dflt) msk (pqs.getD i 0) half n alpha (cs.getD i [])) with
  | error e => rfl
  | ok outs =>
    simp only [gr_ok_bind]
    rw [List.take_zero, List.nil_append, Nat.zero_add, List.drop_eq_nil_of_le (by omega), List.append_nil]

/-- the generated `fastbconv_sk` on flat buffers: input `sB + 1` components (base B, then m_sk), destination `sq` components; `F1` = the conversion
    B → q (into the destination), `F2` = the conversion B → {m_sk} (into a zeroed scratch vector) -/
theorem gr_sk_list (inp ds : List (List Nat)) (sq sB n : Nat) (qs : List Modulus) (pqs : List Nat) (msk : Modulus) (inv : MulOperand)
    (F1 F2 : List Nat → List Nat → R (List Nat)) (dest : List (List Nat)) (temp : List Nat)
    (hinp : inp.length = sB + 1) (hin : ∀ c ∈ inp, c.length = n)
    (hqs : qs.length = sq) (hpq : pqs.length = sq) (hpqw : ∀ x ∈ pqs, x < 2^64) (hqw : ∀ i, i < sq → (qs.getD i gr_dflt).value < 2^64)
    (hsn : sq * n < 2^64) (hbn : (sB + 1) * n < 2^64)
    (hd1 : dest.length = sq) (hd2 : ∀ c ∈ dest, c.length = n) (ht : temp.length = n)
    (hF1 : F1 (inp.take sB).flatten ds.flatten = .ok dest.flatten)
    (hF2 : F2 (inp.take sB).flatten (List.replicate n 0) = .ok temp) :
    GenR.fastbconv_sk inp.flatten ds.flatten sq sB n msk inv qs pqs F1 F2
      = ((List.range' 0 n).mapM (fun j => gr_skAlpha msk inv (temp.getD j 0) ((inp.getD sB []).getD j 0)) >>= fun alpha =>
          (List.range' 0 sq).mapM (fun i => gr_skComp (qs.getD i gr_dflt) msk (pqs.getD i 0) (msk.value / 2) n alpha (dest.getD i []))
            >>= fun outs => .ok outs.flatten) := by
  have hfi := gr_flat_length n inp hin
  rw [hinp] at hfi
  have hsb : (sB + 1) * n = sB * n + n := Nat.succ_mul sB n
  have e1 : ckMul sB n = .ok (sB * n) := gr_ckMul_ok (by omega)
  have e2 : GenR.slice inp.flatten 0 (sB * n) = .ok (inp.take sB).flatten := gr_slice_take n inp sB hin (by omega)
  unfold GenR.fastbconv_sk
  simp only [e1, e2, hF1, hF2, gr_ok_bind]
  rw [gr_idxloopK (GenR.fastbconv_sk_loop1 inp.flatten dest.flatten sq sB n temp msk inv qs pqs)
      (fun j _ => gr_skAlpha msk inv (temp.getD j 0) ((inp.getD sB []).getD j 0)) n
      (fun l => GenR.fastbconv_sk_loop1 inp.flatten dest.flatten sq sB n temp msk inv qs pqs 0 0 l) (fun _ _ => rfl) (by
      intro k j l hl hj
      have htj : j < temp.length := by omega
      have e3 : ckAdd (sB * n) j = .ok (sB * n + j) := gr_ckAdd_ok (by omega)
      have hlt : sB * n + j < inp.flatten.length := by omega
      have e4 : GenW.idx inp.flatten (sB * n + j) = .ok ((inp.getD sB []).getD j 0) := by
        rw [gw_idx_eq _ _ hlt, ← gr_getD_of_lt _ _ hlt, gr_flat_getD n inp sB j hin (by omega) hj]
      rw [GenR.fastbconv_sk_loop1]
      simp only [e1, e3, e4, gw_idx_eq _ _ htj, gr_getD_of_lt _ _ htj, gr_ok_bind, gw_multiply_u64operand_mod_eq]
      unfold gr_skAlpha
      cases ckSub msk.value ((inp.getD sB []).getD j 0) with
      | error e => rfl
      | ok d =>
        simp only [gr_ok_bind]
        cases ckAdd temp[j] d with
        | error e => rfl
        | ok s => simp only [gr_ok_bind, gr_mulOperandMod, gx_setIdx_ok _ _ _ hl])
    n 0 (List.replicate n 0) (by simp) (by simp)]
  cases hm : (List.range' 0 n).mapM (fun j => gr_skAlpha msk inv (temp.getD j 0) ((inp.getD sB []).getD j 0)) with
  | error e => rfl
  | ok alpha =>
    have hal : alpha.length = n := by rw [gr_mapM_length _ _ _ hm, List.length_range']
    simp only [gr_ok_bind, List.take_zero, List.nil_append]
    rw [GenR.fastbconv_sk_loop1]
    have hhalf : msk.value >>> 1 = msk.value / 2 := by rw [Nat.shiftRight_eq_div_pow]
    simp only [hhalf]
    exact gr_sk_loop2 dest sq n _ alpha qs pqs msk hsn hd1 hd2 hal hqs hpq hpqw hqw

end HC
