import Heathcliff.Proofs.GenEvalCt
import Heathcliff.Proofs.GenEval2

/-!
  Translator phase 4g, flat-buffer level: `Evaluator::multiply_plain_ntt` (generated as a skeleton over the flat ciphertext / plaintext
  buffers into Gen/EvalCtFns.lean) = `ctMultiplyPlainNtt` of Model/Evaluator.lean followed by the CKKS scale rule `mulPlainScaleRule`.
  Helper names start with `gc_`.
-/
namespace HC
open HC.GenW HC.GenP HC.GenC

theorem gc_dyadic_inplace_p_len (x y : List Nat) (n : Nat) (mods : List Modulus) (o : List Nat)
    (h : GenP.poly_dyadic_product_inplace_p x y n mods = .ok o) : o.length = x.length := by
  unfold GenP.poly_dyadic_product_inplace_p at h
  simp only [] at h
  rw [gp_dyadic_inplace_p_loop_eq] at h
  exact gp_bloop_length _ _ (gp_stepI_length _ _ (fun _ p x o h => gp_dyadic_inplace_len x p.1 p.2 o h)) _ _ _ _ _ h

/-- what the generated loop does once all polynomials are multiplied: the CKKS scale bookkeeping -/
def gc_mpn_tail (s : Scheme) (okOwn okProd : Bool) (sc : Nat) (a0 : List Nat) : R (List Nat × Nat) :=
  if s = Scheme.ckks then
    (do
      let v1 ← ckAdd sc 1
      let t8 := if v1 = 0 then (okOwn = true) else (okProd = true)
      if ¬ t8 then .error .refused else pure (a0, v1))
  else pure (a0, sc)

theorem gc_mpn_loop_blocks (pd : List Nat) (mods : List Modulus) (n : Nat) (s : Scheme) (okOwn okProd : Bool) (sc cc sz : Nat)
    (hD : n * mods.length < B64) :
    ∀ cnt i pre rest, pre.length = i * (n * mods.length) → cnt * (n * mods.length) ≤ rest.length → (pre ++ rest).length < B64 →
      i + cnt < B64 →
    GenC.ct_multiply_plain_ntt_loop1 pd mods n s okOwn okProd sc cc sz cnt i (pre ++ rest) =
      (do let x ← gp_blocks (fun _ x => GenP.poly_dyadic_product_inplace_p x pd cc mods) (n * mods.length) cnt i rest
          gc_mpn_tail s okOwn okProd sc (pre ++ x)) := by
  intro cnt
  induction cnt with
  | zero =>
    intro i pre rest _ _ _ _
    simp only [GenC.ct_multiply_plain_ntt_loop1, gp_blocks, gc_mpn_tail, pure, Except.pure, bind, Except.bind]
  | succ c ih =>
    intro i pre rest hp hr hB hi
    have hn : n * mods.length ≤ rest.length := by rw [Nat.succ_mul] at hr; omega
    have hck0 : ckMul n mods.length = .ok (n * mods.length) := by unfold ckMul; rw [if_pos hD]
    have hlen : (pre ++ rest).length = i * (n * mods.length) + rest.length := by rw [List.length_append, hp]
    have hck1 : ckMul i (n * mods.length) = .ok (i * (n * mods.length)) := by unfold ckMul; rw [if_pos (by omega)]
    have hck2 : ckAdd i 1 = .ok (i + 1) := by unfold ckAdd; rw [if_pos (by omega)]
    have hck3 : ckMul (i + 1) (n * mods.length) = .ok (i * (n * mods.length) + n * mods.length) := by
      unfold ckMul; rw [Nat.succ_mul, if_pos (by omega)]
    rw [GenC.ct_multiply_plain_ntt_loop1, gp_blocks]
    simp only [hck0, hck1, hck2, hck3, gy_ok_bind, gp_slice_block pre rest i _ hp hn]
    cases hb : GenP.poly_dyadic_product_inplace_p (rest.take (n * mods.length)) pd cc mods with
    | error e => rfl
    | ok o =>
      have hol : o.length = n * mods.length := by
        have := gc_dyadic_inplace_p_len _ _ _ _ _ hb
        rw [this, List.length_take, Nat.min_eq_left hn]
      simp only [gy_ok_bind, gp_splice_block pre rest o i _ hp hol]
      rw [List.append_assoc pre o, ← List.append_assoc pre o (rest.drop _)]
      rw [ih (i + 1) (pre ++ o) (rest.drop (n * mods.length)) (by rw [List.length_append, hp, hol, Nat.succ_mul])
        (by rw [List.length_drop]; rw [Nat.succ_mul] at hr; omega)
        (by simp only [List.length_append, List.length_drop] at hB ⊢; omega) (by omega)]
      cases gp_blocks (fun _ x => GenP.poly_dyadic_product_inplace_p x pd cc mods) (n * mods.length) c (i + 1) (rest.drop (n * mods.length)) with
      | error e => rfl
      | ok tl => simp [bind, Except.bind, pure, Except.pure]

theorem gc_mpn_tail_eq (s : Scheme) (okOwn okProd : Bool) (a : List Nat) :
    gc_mpn_tail s okOwn okProd 0 a = Except.map (fun sc => (a, sc)) (mulPlainScaleRule s okProd) := by
  unfold gc_mpn_tail mulPlainScaleRule
  have hadd : ckAdd 0 1 = .ok 1 := by unfold ckAdd; rw [if_pos (by simp [B64])]
  cases s <;> cases okProd <;> simp [hadd, Except.map, bind, Except.bind, pure, Except.pure]

/-- `Evaluator::multiply_plain_ntt` (generated from src/evaluator.rs as a skeleton over the flat buffers; checks passed) IS the hand model:
    every polynomial of the ciphertext times the NTT-form plaintext (`ctMultiplyPlainNtt`), THEN the scale rule (`mulPlainScaleRule`:
    CKKS records the product scale and refuses it when it is out of the bounds of the ciphertext's level - verdict `okProd`; the verdict about
    the ciphertext's own scale is not consulted).  Both sides walk the polynomials left to right, so they agree on failures too. -/
theorem gc_multiply_plain_ntt_eq (l : Level) (d pd : List Nat) (size cf : Nat) (s : Scheme) (okOwn okProd : Bool)
    (hd : d.length = size * (l.size * l.n)) (hp : l.size * l.n ≤ pd.length) (hpl : l.n * l.size < B64) (hB : d.length < B64)
    (hsz : size < B64) :
    GenC.ct_multiply_plain_ntt d size pd true true l.qs.toList l.n s okOwn okProd =
      (do let c ← ctMultiplyPlainNtt l (unflattenCt l size d true cf) (unflattenRns l.size l.n pd)
          let sc ← mulPlainScaleRule s okProd
          pure (flattenCt l c, sc)) := by
  have hlen : l.qs.toList.length = l.size := by simp [Level.size]
  have hDc : l.n * l.size = l.size * l.n := Nat.mul_comm _ _
  unfold GenC.ct_multiply_plain_ntt
  simp only [not_true_eq_false, if_false]
  have h := gc_mpn_loop_blocks pd l.qs.toList l.n s okOwn okProd 0 l.n size (by rw [hlen]; exact hpl) size 0 [] d (by simp)
    (by rw [hlen, hDc, hd]) (by simpa using hB) (by omega)
  simp only [List.nil_append] at h
  rw [h, hlen, hDc]
  have hb := gp_blocks_mapM (fun _ x => GenP.poly_dyadic_product_inplace_p x pd l.n l.qs.toList) (l.size * l.n) d size 0
  simp only [Nat.zero_mul, List.drop_zero, Nat.zero_add] at hb
  rw [hb, ← List.range_eq_range', ← hd, List.drop_length]
  rw [gp_mapM_congr' _ (fun j => Except.map (flattenRns l.size l.n)
      (rnsDyadic l (unflattenRns l.size l.n (gp_blk (l.size * l.n) d j)) (unflattenRns l.size l.n pd))) _ (by
    intro j hj
    have hj := List.mem_range.mp hj
    have hjd : j * (l.size * l.n) + l.size * l.n ≤ d.length := by rw [hd]; exact gp_blk_bound hj
    exact gp_poly_dyadic_product_inplace_p_model l _ pd (gp_blk_length _ _ _ hjd) hp (by rw [gp_blk_length _ _ _ hjd]; omega)),
    gp_mapM_map]
  unfold ctMultiplyPlainNtt
  have hpol : (unflattenCt l size d true cf).polys.toList = (List.range size).map fun i => unflattenRns l.size l.n (gp_blk (l.size * l.n) d i) := by
    simp [unflattenCt]
  have hntt : (unflattenCt l size d true cf).ntt = true := rfl
  simp only [hntt, Bool.not_true, Bool.false_eq_true, if_false]
  rw [hpol, gc_mapM_comp]
  cases (List.range size).mapM (fun i => rnsDyadic l (unflattenRns l.size l.n (gp_blk (l.size * l.n) d i)) (unflattenRns l.size l.n pd)) with
  | error e => rfl
  | ok outs =>
    simp only [Except.map, bind, Except.bind, pure, Except.pure, List.append_nil, gc_mpn_tail_eq, flattenCt]

/-- refusals of `multiply_plain_ntt`: a coefficient-form plaintext, operands at different levels -/
theorem gc_multiply_plain_ntt_refuses (d pd : List Nat) (size : Nat) (pn sp : Bool) (mods : List Modulus) (n : Nat) (s : Scheme) (o1 o2 : Bool)
    (h : pn = false ∨ sp = false) : GenC.ct_multiply_plain_ntt d size pd pn sp mods n s o1 o2 = .error .refused := by
  unfold GenC.ct_multiply_plain_ntt
  rcases h with h | h
  · subst h; simp
  · subst h; cases pn <;> simp

end HC
