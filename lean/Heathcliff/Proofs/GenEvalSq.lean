import Heathcliff.Proofs.GenEvalCt3
import Heathcliff.Proofs.C02S

/-!
  Translator tie (task S): the DATA of `Evaluator::bgv_square` / `Evaluator::ckks_square` (src/evaluator.rs), generated as skeletons over the
  flat ciphertext buffer into Gen/EvalCtFns.lean (`GenC.ct_bgv_square`, `GenC.ct_ckks_square`; tables in tools/rs2lean_sq.py), against
  `bgvSquare` / `ckksSquare` of Model/Evaluator.lean on `unflattenCt` / `flattenCt`.
  First the out-of-place wrapper `dyadic_product_p` of src/util/polysmallmod.rs (generated in phase 4b', no equality until now) =
  `rnsDyadic`.  Helper names start with `gs_`.
-/
namespace HC
open HC.GenW HC.GenP HC.GenC

/-! ### `dyadic_product_p(poly1, poly2, degree, moduli, result)` on the flat layout = `rnsDyadic` -/

/-- the other arguments of one iteration of the out-of-place wrapper: the blocks of both operands and `&moduli[i]` -/
def gs_binPre (x y : List Nat) (mods : List Modulus) (i off up : Nat) : R (List Nat × List Nat × Modulus) := do
  let t1 ← GenP.slice x off up
  let t2 ← GenP.slice y off up
  let t3 ← GenP.idxT mods i
  pure (t1, t2, t3)

theorem gs_dyadic_len (a b : List Nat) (m : Modulus) (r o : List Nat) (h : GenP.poly_dyadic_product a b m r = .ok o) :
    o.length = r.length := by
  unfold GenP.poly_dyadic_product at h
  simp only [] at h
  exact gp_loop_length _ _ _ _ _ (by rw [← gp_dyadic_loop_eq]; exact h)

theorem gs_dyadic_p_loop_eq (x y : List Nat) (n : Nat) (mods : List Modulus) : ∀ cnt i r off,
    GenP.poly_dyadic_product_p_loop1 x y n mods cnt i r off =
      gp_bloop (gp_step (gs_binPre x y mods) (fun _ p t => GenP.poly_dyadic_product p.1 p.2.1 p.2.2 t)) n cnt i r off := by
  intro cnt
  induction cnt with
  | zero => intro i r off; rfl
  | succ c ih =>
    intro i r off
    rw [GenP.poly_dyadic_product_p_loop1, gp_bloop]
    simp only [gp_step, gs_binPre, bind_assoc, pure_bind, ih]

/-- `dyadic_product_p` = the hand model's `rnsDyadic` (inputs at least as long as the result: shorter ones are an index panic) -/
theorem gs_poly_dyadic_product_p_model (l : Level) (x y r : List Nat) (hr : r.length = l.size * l.n) (hx : l.size * l.n ≤ x.length)
    (hy : l.size * l.n ≤ y.length) (hB : r.length < B64) :
    GenP.poly_dyadic_product_p x y l.n l.qs.toList r =
      Except.map (flattenRns l.size l.n) (rnsDyadic l (unflattenRns l.size l.n x) (unflattenRns l.size l.n y)) := by
  unfold GenP.poly_dyadic_product_p rnsDyadic
  simp only []
  rw [gs_dyadic_p_loop_eq, gp_compsZip_eq, show l.qs.toList.length = l.size by simp [Level.size]]
  rw [gp_step_blocks _ _ l.n (fun _ p t o h => gs_dyadic_len p.1 p.2.1 p.2.2 t o h) l.size r (by omega) hB]
  unfold compsZip
  apply gp_blocks_model _ (fun j => zipM' ((unflattenRns l.size l.n x).getD j #[]) ((unflattenRns l.size l.n y).getD j #[])
    (fun u v => mulMod u v (l.qs.getD j default))) l.n l.size r hr
  · intro j hj
    have hjr : j * l.n + l.n ≤ r.length := by rw [hr]; exact gp_blk_bound hj
    have hjx : j * l.n + l.n ≤ x.length := by omega
    have hjy : j * l.n + l.n ≤ y.length := by omega
    simp only [gs_binPre, gp_slice_blk x j l.n hjx, gp_slice_blk y j l.n hjy, gp_idxT_getD l.qs.toList j (by simpa [Level.size] using hj),
      bind, Except.bind, pure, Except.pure]
    rw [gp_poly_dyadic_product_eq _ _ _ _ (by rw [gp_blk_length _ _ _ hjr, gp_blk_length _ _ _ hjx])
      (by rw [gp_blk_length _ _ _ hjr, gp_blk_length _ _ _ hjy]), gp_unflatten_blk _ _ _ _ hj hjx, gp_unflatten_blk _ _ _ _ hj hjy,
      gp_blk_length _ _ _ hjr, gz_toList_getD,
      List.take_of_length_le (by rw [gp_blk_length _ _ _ hjx]), List.take_of_length_le (by rw [gp_blk_length _ _ _ hjy])]
    rfl
  · intro j o hj h
    have hjx : j * l.n + l.n ≤ x.length := by have := gp_blk_bound (n := l.n) hj; omega
    rw [gp_zipM'_size _ _ _ _ h, gp_unflatten_blk _ _ _ _ hj hjx]
    simp only [List.size_toArray]
    exact gp_blk_length _ _ _ hjx

/-! ### list plumbing -/

theorem gs_slice_mid (A B C : List Nat) (a b : Nat) (ha : a = A.length) (hb : b = A.length + B.length) :
    GenP.slice (A ++ B ++ C) a b = .ok B := by
  subst ha hb
  unfold GenP.slice
  rw [if_pos ⟨by omega, by simp only [List.length_append]; omega⟩, List.append_assoc, List.drop_left, Nat.add_sub_cancel_left,
    List.take_left]

theorem gs_splice_mid (A B C N : List Nat) (a : Nat) (ha : a = A.length) (h : N.length = B.length) :
    GenP.splice (A ++ B ++ C) a N = A ++ N ++ C := by
  subst ha
  unfold GenP.splice
  have h1 : (A ++ B ++ C).take A.length = A := by rw [List.append_assoc, List.take_left]
  have h2 : (A ++ B ++ C).drop (A.length + N.length) = C := by rw [h, ← List.length_append, List.drop_left]
  rw [h1, h2]

theorem gs_slice_head (B C1 C2 : List Nat) (b : Nat) (hb : b = B.length) : GenP.slice (B ++ C1 ++ C2) 0 b = .ok B := by
  have := gs_slice_mid [] B (C1 ++ C2) 0 b rfl (by simpa using hb)
  simpa [List.append_assoc] using this

theorem gs_splice_head (B C1 C2 N : List Nat) (h : N.length = B.length) : GenP.splice (B ++ C1 ++ C2) 0 N = N ++ C1 ++ C2 := by
  have := gs_splice_mid [] B (C1 ++ C2) N 0 rfl h
  simpa [List.append_assoc] using this

theorem gs_slice_tail (A B : List Nat) (a b : Nat) (ha : a = A.length) (hb : b = A.length + B.length) : GenP.slice (A ++ B) a b = .ok B := by
  subst ha hb; exact gt_slice_app A B

theorem gs_splice_tail (A B N : List Nat) (a : Nat) (ha : a = A.length) (h : N.length = B.length) : GenP.splice (A ++ B) a N = A ++ N := by
  subst ha; exact gt_splice_app A B N h

theorem gs_copy_whole (X V : List Nat) (b : Nat) (hX : X.length = b) (hV : V.length = b) : GenP.copySlice X 0 b V = .ok V := by
  unfold GenP.copySlice GenP.splice
  rw [if_pos (by omega)]
  simp [hV, ← hX]

theorem gs_ckMul (a b : Nat) (h : a * b < B64) : ckMul a b = .ok (a * b) := by unfold ckMul; rw [if_pos h]
theorem gs_ckAdd (a b : Nat) (h : a + b < B64) : ckAdd a b = .ok (a + b) := by unfold ckAdd; rw [if_pos h]

/-- shape of what `rnsZip` (`rnsDyadic`, `rnsAdd`, …) returns: `l.size` components, each as long as the first operand's -/
theorem gs_rnsZip_shape (l : Level) (a b : RnsPoly) (f : Nat → Nat → Modulus → R Nat) (o : RnsPoly) (h : rnsZip l a b f = .ok o) :
    o.size = l.size ∧ ∀ j, j < l.size → (o.getD j #[]).size = (a.getD j #[]).size := by
  unfold rnsZip at h
  rw [gp_foldl_pushG] at h
  cases hm : (List.range l.size).mapM (fun i => zipM' (a.getD i #[]) (b.getD i #[]) (fun x y => f x y (l.q i))) with
  | error e => rw [hm] at h; cases h
  | ok vs =>
    rw [hm] at h
    have ho : o = vs.toArray := by
      simp only [bind, Except.bind, pure, Except.pure] at h
      cases h; simp
    have hl : vs.length = l.size := by rw [gp_mapM_lengthG _ _ _ hm, List.length_range]
    refine ⟨by rw [ho]; simpa using hl, ?_⟩
    intro j hj
    have := gt_mapM_getD _ 0 #[] _ _ hm j (by simpa using hj)
    have hr : (List.range l.size).getD j 0 = j := by simp [List.getD, hj]
    rw [hr] at this
    rw [ho, gz_toArray_getD]
    exact gp_zipM'_size _ _ _ _ this

theorem gs_unflatten_shape (size n : Nat) (d : List Nat) : (unflattenRns size n d).size = size ∧
    ∀ j, j < size → ((unflattenRns size n d).getD j #[]).size = n := by
  unfold unflattenRns
  refine ⟨by simp, fun j hj => ?_⟩
  rw [gz_toArray_getD, gz_getD_map_range _ _ _ _ hj]
  simp

/-! ### `bgv_square` -/

/-- the fast path of the generated `bgv_square` on a buffer of two polynomial blocks `e0 ++ e1`: the four kernel calls of the model in the
    same order, on the blocks, the results concatenated -/
theorem gs_bgv_square_core (l : Level) (e0 e1 : List Nat) (cf : Nat) (h0 : e0.length = l.size * l.n) (h1 : e1.length = l.size * l.n)
    (hk : 1 ≤ l.size) (hB : 3 * (l.size * l.n) < B64) :
    GenC.ct_bgv_square (e0 ++ e1) 2 cf true l.qs.toList l.t l.n = (do
      let d0 ← rnsDyadic l (unflattenRns l.size l.n e0) (unflattenRns l.size l.n e0)
      let m ← rnsDyadic l (unflattenRns l.size l.n e0) (unflattenRns l.size l.n e1)
      let d1 ← rnsAdd l m m
      let d2 ← rnsDyadic l (unflattenRns l.size l.n e1) (unflattenRns l.size l.n e1)
      let f ← mulMod cf cf l.t
      pure (flattenRns l.size l.n d0 ++ flattenRns l.size l.n d1 ++ flattenRns l.size l.n d2, 3, f, 0)) := by
  have hlen : l.qs.toList.length = l.size := by simp [Level.size]
  have hPD : l.n * l.size = l.size * l.n := Nat.mul_comm _ _
  generalize hD : l.size * l.n = D at *
  have hn : l.n ≤ D := by rw [← hD]; exact Nat.le_mul_of_pos_left _ hk
  let Z := List.replicate D 0
  have hZ : Z.length = D := by simp [Z]
  unfold GenC.ct_bgv_square
  simp only [hlen, not_true_eq_false, if_false, ne_eq, not_true]
  have a1 : ckAdd 2 2 = .ok 4 := gs_ckAdd 2 2 (by simp [B64])
  have a2 : ckSub 4 1 = .ok 3 := by unfold ckSub; rw [if_pos (by omega)]
  have a3 : ckMul 3 l.n = .ok (3 * l.n) := gs_ckMul _ _ (by omega)
  have a4 : ckMul (3 * l.n) l.size = .ok (3 * D) := by rw [gs_ckMul _ _ (by rw [Nat.mul_assoc, hPD]; omega), Nat.mul_assoc, hPD]
  have a5 : ckMul l.n l.size = .ok D := by rw [gs_ckMul _ _ (by rw [hPD]; omega), hPD]
  have a6 : ckMul 0 D = .ok 0 := by rw [gs_ckMul _ _ (by simp [B64])]; simp
  have a7 : ckMul 1 D = .ok D := by rw [gs_ckMul _ _ (by omega)]; simp
  have a8 : ckMul 2 D = .ok (2 * D) := gs_ckMul _ _ (by omega)
  have a9 : ckMul 3 D = .ok (3 * D) := gs_ckMul _ _ (by omega)
  have a10 : ckAdd D D = .ok (D + D) := gs_ckAdd _ _ (by omega)
  have hres : GenC.resizeL (e0 ++ e1) (3 * D) 0 = e0 ++ e1 ++ Z := by
    rw [gt_resizeL_grow _ _ (by simp [h0, h1]; omega)]
    congr 2
    simp [h0, h1]; omega
  have hrep : List.replicate (3 * D) 0 = Z ++ Z ++ Z := by
    simp only [Z, List.replicate_append_replicate]; congr 1; omega
  simp only [a1, a2, a3, a4, a5, a6, a7, a8, a9, a10, gy_ok_bind, hres, hrep]
  rw [if_pos (by omega)]
  have hfl : ∀ p : RnsPoly, (flattenRns l.size l.n p).length = D := fun p => by rw [gt_flattenRns_length, hD]
  have s1 : GenP.slice (e0 ++ e1 ++ Z) 0 D = .ok e0 := gs_slice_head e0 e1 Z D h0.symm
  have s2 : GenP.slice (e0 ++ e1 ++ Z) D (2 * D) = .ok e1 := gs_slice_mid e0 e1 Z D (2 * D) h0.symm (by omega)
  have s3 : GenP.slice (Z ++ Z ++ Z) 0 D = .ok Z := gs_slice_head Z Z Z D hZ.symm
  have k00 := gs_poly_dyadic_product_p_model l e0 e0 Z (by rw [hD]; exact hZ) (by rw [hD]; omega) (by rw [hD]; omega) (by omega)
  have k01 := gs_poly_dyadic_product_p_model l e0 e1 Z (by rw [hD]; exact hZ) (by rw [hD]; omega) (by rw [hD]; omega) (by omega)
  have k11 := gs_poly_dyadic_product_p_model l e1 e1 Z (by rw [hD]; exact hZ) (by rw [hD]; omega) (by rw [hD]; omega) (by omega)
  simp only [s1, s2, s3, gy_ok_bind, k00, k01, k11]
  cases hd0 : rnsDyadic l (unflattenRns l.size l.n e0) (unflattenRns l.size l.n e0) with
  | error e => rfl
  | ok d0 =>
    simp only [Except.map, gy_ok_bind]
    rw [gs_splice_head Z Z Z _ (by rw [hfl, hZ])]
    rw [gs_slice_mid (flattenRns l.size l.n d0) Z Z D (2 * D) (hfl d0).symm (by rw [hfl, hZ]; omega)]
    simp only [gy_ok_bind, k01]
    cases hm : rnsDyadic l (unflattenRns l.size l.n e0) (unflattenRns l.size l.n e1) with
    | error e => rfl
    | ok m =>
      simp only [Except.map, gy_ok_bind]
      rw [gs_splice_mid (flattenRns l.size l.n d0) Z Z _ D (hfl d0).symm (by rw [hfl, hZ])]
      rw [gs_slice_mid (flattenRns l.size l.n d0) (flattenRns l.size l.n m) Z D (D + D) (hfl d0).symm (by rw [hfl, hfl]),
        gs_slice_mid (flattenRns l.size l.n d0) (flattenRns l.size l.n m) Z D (2 * D) (hfl d0).symm (by rw [hfl, hfl]; omega)]
      simp only [gy_ok_bind]
      have hmshape := gs_rnsZip_shape l _ _ _ _ hm
      have hum : unflattenRns l.size l.n (flattenRns l.size l.n m) = m :=
        gt_unflatten_flatten _ _ _ hmshape.1 (fun j hj => by rw [hmshape.2 j hj]; exact (gs_unflatten_shape _ _ _).2 j hj)
      rw [gp_poly_add_inplace_p_model l _ _ (by rw [hfl, hD]) (by rw [hfl, hD]) (by rw [hfl]; omega), hum]
      cases hd1 : rnsAdd l m m with
      | error e => rfl
      | ok d1 =>
        simp only [Except.map, gy_ok_bind]
        rw [gs_splice_mid (flattenRns l.size l.n d0) (flattenRns l.size l.n m) Z _ D (hfl d0).symm (by rw [hfl, hfl])]
        rw [gs_slice_tail (flattenRns l.size l.n d0 ++ flattenRns l.size l.n d1) Z (2 * D) (3 * D)
          (by rw [List.length_append, hfl, hfl]; omega) (by rw [List.length_append, hfl, hfl, hZ]; omega)]
        simp only [gy_ok_bind, k11]
        cases hd2 : rnsDyadic l (unflattenRns l.size l.n e1) (unflattenRns l.size l.n e1) with
        | error e => rfl
        | ok d2 =>
          simp only [Except.map, gy_ok_bind]
          rw [gs_splice_tail (flattenRns l.size l.n d0 ++ flattenRns l.size l.n d1) Z _ (2 * D)
            (by rw [List.length_append, hfl, hfl]; omega) (by rw [hfl, hZ])]
          have hX : (e0 ++ e1 ++ Z).length = 3 * D := by simp only [List.length_append, h0, h1, hZ]; omega
          have hV : (flattenRns l.size l.n d0 ++ flattenRns l.size l.n d1 ++ flattenRns l.size l.n d2).length = 3 * D := by
            simp only [List.length_append, hfl]; omega
          rw [gt_slice_drop _ 0 (3 * D) hX (by omega), gs_copy_whole _ _ _ hX hV, gw_multiply_u64_mod_eq]
          rfl

theorem gs_split2 (D : Nat) (d : List Nat) (hd : d.length = 2 * D) :
    d = gp_blk D d 0 ++ gp_blk D d 1 ∧ (gp_blk D d 0).length = D ∧ (gp_blk D d 1).length = D := by
  refine ⟨?_, gp_blk_length _ _ _ (by omega), gp_blk_length _ _ _ (by omega)⟩
  unfold gp_blk
  simp only [Nat.zero_mul, List.drop_zero, Nat.one_mul]
  rw [List.take_of_length_le (l := d.drop D) (by rw [List.length_drop]; omega), List.take_append_drop]

/-- GENERATED = MODEL (`bgv_square`, fast path): on the flat buffer of a size-2 NTT-form ciphertext the code generated from
    `Evaluator::bgv_square` returns the flattened `bgvSquare` of the model, size 3, the model's correction factor, route 0 (computed here) -
    successes and arithmetic traps alike (both sides run `c0·c0`, `c0·c1`, the doubling, `c1·c1`, `cf·cf mod t` in this order) -/
theorem gs_bgv_square_eq (l : Level) (d : List Nat) (cf : Nat) (hd : d.length = 2 * (l.size * l.n)) (hk : 1 ≤ l.size)
    (hB : 3 * (l.size * l.n) < B64) :
    GenC.ct_bgv_square d 2 cf true l.qs.toList l.t l.n =
      Except.map (fun c => (flattenCt l c, 3, c.cf, 0)) (bgvSquare l (unflattenCt l 2 d true cf)) := by
  obtain ⟨hsplit, h0, h1⟩ := gs_split2 (l.size * l.n) d hd
  have hcore := gs_bgv_square_core l _ _ cf h0 h1 hk hB
  rw [← hsplit] at hcore
  rw [hcore]
  unfold bgvSquare
  have hntt : (unflattenCt l 2 d true cf).ntt = true := rfl
  have hcf : (unflattenCt l 2 d true cf).cf = cf := rfl
  simp only [hntt, hcf, gc_polys_size, gc_polys_getD l 2 d true cf 0 (by omega), gc_polys_getD l 2 d true cf 1 (by omega),
    Bool.not_true, Bool.false_eq_true, if_false, ne_eq, not_true_eq_false]
  rw [if_neg (by decide)]
  cases rnsDyadic l (unflattenRns l.size l.n (gp_blk (l.size * l.n) d 0)) (unflattenRns l.size l.n (gp_blk (l.size * l.n) d 0)) with
  | error e => rfl
  | ok d0 =>
    simp only [gy_ok_bind]
    cases rnsDyadic l (unflattenRns l.size l.n (gp_blk (l.size * l.n) d 0)) (unflattenRns l.size l.n (gp_blk (l.size * l.n) d 1)) with
    | error e => rfl
    | ok m =>
      simp only [gy_ok_bind]
      cases rnsAdd l m m with
      | error e => rfl
      | ok d1 =>
        simp only [gy_ok_bind]
        cases rnsDyadic l (unflattenRns l.size l.n (gp_blk (l.size * l.n) d 1)) (unflattenRns l.size l.n (gp_blk (l.size * l.n) d 1)) with
        | error e => rfl
        | ok d2 =>
          simp only [gy_ok_bind]
          cases mulMod cf cf l.t with
          | error e => rfl
          | ok f =>
            simp only [gy_ok_bind, Except.map, pure, Except.pure, flattenCt, List.map_cons, List.map_nil, List.flatten_cons,
              List.flatten_nil, List.append_nil, List.append_assoc]

/-- the dispatch of the generated `bgv_square`: coefficient form is refused; every size but 2 is handed to `bgv_multiply(x, &x.clone())`
    (route 1, buffer / size / factor untouched) - the model does the same BY DEFINITION (`bgvSquare_fallback`) -/
theorem gs_bgv_square_dispatch (d : List Nat) (size cf : Nat) (ntt : Bool) (mods : List Modulus) (t : Modulus) (n : Nat) :
    GenC.ct_bgv_square d size cf ntt mods t n =
      if ntt = false then .error .refused else if size ≠ 2 then .ok (d, size, cf, 1) else GenC.ct_bgv_square d 2 cf true mods t n := by
  cases ntt
  · unfold GenC.ct_bgv_square; simp
  · by_cases hs : size = 2
    · subst hs; simp
    · unfold GenC.ct_bgv_square; simp [hs, pure, Except.pure]

theorem bgvSquare_fallback (l : Level) (a : Ct) (hn : a.ntt = true) (hs : a.polys.size ≠ 2) : bgvSquare l a = bgvMultiply l a a := by
  unfold bgvSquare
  rw [if_neg (by simp [hn]), if_pos hs]

theorem ckksSquare_fallback (l : Level) (a : Ct) (hn : a.ntt = true) (hs : a.polys.size ≠ 2) : ckksSquare l a = ctMultiplyDyadic l a a := by
  unfold ckksSquare
  rw [if_neg (by simp [hn]), if_pos hs]

/-! ### `ckks_square` -/

/-- the fast path of the generated `ckks_square` on a buffer of two polynomial blocks `e0 ++ e1`: IN PLACE, in the order of the code
    (`c2 = c1·c1`, `c1 = c0·c1`, `c1 += c1`, `c0 = c0·c0`), then the scale bookkeeping (product recorded, verdict `okProd`) -/
theorem gs_ckks_square_core (l : Level) (e0 e1 : List Nat) (okOwn okProd o3 o4 : Bool) (h0 : e0.length = l.size * l.n)
    (h1 : e1.length = l.size * l.n) (hk : 1 ≤ l.size) (hB : 3 * (l.size * l.n) < B64) :
    GenC.ct_ckks_square (e0 ++ e1) 2 true l.qs.toList l.n okOwn okProd o3 o4 = (do
      let d2 ← rnsDyadic l (unflattenRns l.size l.n e1) (unflattenRns l.size l.n e1)
      let m ← rnsDyadic l (unflattenRns l.size l.n e0) (unflattenRns l.size l.n e1)
      let d1 ← rnsAdd l m m
      let d0 ← rnsDyadic l (unflattenRns l.size l.n e0) (unflattenRns l.size l.n e0)
      if okProd = true then pure (flattenRns l.size l.n d0 ++ flattenRns l.size l.n d1 ++ flattenRns l.size l.n d2, 3, 1, 0)
      else .error .refused) := by
  have hlen : l.qs.toList.length = l.size := by simp [Level.size]
  have hPD : l.n * l.size = l.size * l.n := Nat.mul_comm _ _
  generalize hD : l.size * l.n = D at *
  have hn : l.n ≤ D := by rw [← hD]; exact Nat.le_mul_of_pos_left _ hk
  let Z := List.replicate D 0
  have hZ : Z.length = D := by simp [Z]
  unfold GenC.ct_ckks_square
  simp only [hlen, not_true_eq_false, if_false, ne_eq]
  have a1 : ckAdd 2 2 = .ok 4 := gs_ckAdd 2 2 (by simp [B64])
  have a2 : ckSub 4 1 = .ok 3 := by unfold ckSub; rw [if_pos (by omega)]
  have a3 : ckMul 3 l.n = .ok (3 * l.n) := gs_ckMul _ _ (by omega)
  have a4 : ckMul (3 * l.n) l.size = .ok (3 * D) := by rw [gs_ckMul _ _ (by rw [Nat.mul_assoc, hPD]; omega), Nat.mul_assoc, hPD]
  have a5 : ckMul l.n l.size = .ok D := by rw [gs_ckMul _ _ (by rw [hPD]; omega), hPD]
  have a6 : ckMul 0 D = .ok 0 := by rw [gs_ckMul _ _ (by simp [B64])]; simp
  have a7 : ckMul 1 D = .ok D := by rw [gs_ckMul _ _ (by omega)]; simp
  have a8 : ckMul 2 D = .ok (2 * D) := gs_ckMul _ _ (by omega)
  have a9 : ckAdd 0 D = .ok D := by rw [gs_ckAdd _ _ (by omega)]; simp
  have a10 : ckAdd D D = .ok (D + D) := gs_ckAdd _ _ (by omega)
  have a11 : ckAdd (2 * D) D = .ok (2 * D + D) := gs_ckAdd _ _ (by omega)
  have a12 : ckAdd 0 1 = .ok 1 := gs_ckAdd _ _ (by simp [B64])
  have hres : GenC.resizeL (e0 ++ e1) (3 * D) 0 = e0 ++ e1 ++ Z := by
    rw [gt_resizeL_grow _ _ (by simp [h0, h1]; omega)]
    congr 2
    simp [h0, h1]; omega
  simp only [a1, a2, a3, a4, a5, a6, a7, a8, a9, a10, a11, a12, gy_ok_bind, hres]
  rw [if_pos (by omega)]
  have hfl : ∀ p : RnsPoly, (flattenRns l.size l.n p).length = D := fun p => by rw [gt_flattenRns_length, hD]
  have k (x y r : List Nat) (hr : r.length = D) (hx : x.length = D) (hy : y.length = D) :=
    gs_poly_dyadic_product_p_model l x y r (by rw [hD]; exact hr) (by rw [hD]; omega) (by rw [hD]; omega) (by omega)
  rw [gs_slice_mid e0 e1 Z D (D + D) h0.symm (by omega)]
  simp only [gy_ok_bind]
  rw [gs_slice_tail (e0 ++ e1) Z (2 * D) (2 * D + D) (by rw [List.length_append]; omega) (by rw [List.length_append]; omega)]
  simp only [gy_ok_bind, k e1 e1 Z hZ h1 h1]
  cases hd2 : rnsDyadic l (unflattenRns l.size l.n e1) (unflattenRns l.size l.n e1) with
  | error e => rfl
  | ok d2 =>
    simp only [Except.map, gy_ok_bind]
    rw [gs_splice_tail (e0 ++ e1) Z _ (2 * D) (by rw [List.length_append]; omega) (by rw [hfl, hZ])]
    rw [gs_slice_head e0 e1 _ D h0.symm, gs_slice_mid e0 e1 _ D (D + D) h0.symm (by omega)]
    simp only [gy_ok_bind, k e0 e1 e1 h1 h0 h1]
    cases hm : rnsDyadic l (unflattenRns l.size l.n e0) (unflattenRns l.size l.n e1) with
    | error e => rfl
    | ok m =>
      simp only [Except.map, gy_ok_bind]
      rw [gs_splice_mid e0 e1 _ _ D h0.symm (by rw [hfl, h1])]
      rw [gs_slice_mid e0 (flattenRns l.size l.n m) _ D (D + D) h0.symm (by rw [hfl]; omega)]
      simp only [gy_ok_bind]
      have hmshape := gs_rnsZip_shape l _ _ _ _ hm
      have hum : unflattenRns l.size l.n (flattenRns l.size l.n m) = m :=
        gt_unflatten_flatten _ _ _ hmshape.1 (fun j hj => by rw [hmshape.2 j hj]; exact (gs_unflatten_shape _ _ _).2 j hj)
      rw [gp_poly_add_inplace_p_model l _ _ (by rw [hfl, hD]) (by rw [hfl, hD]) (by rw [hfl]; omega), hum]
      cases hd1 : rnsAdd l m m with
      | error e => rfl
      | ok d1 =>
        simp only [Except.map, gy_ok_bind]
        rw [gs_splice_mid e0 (flattenRns l.size l.n m) _ _ D h0.symm (by rw [hfl, hfl])]
        rw [gs_slice_head e0 _ _ D h0.symm]
        simp only [gy_ok_bind, k e0 e0 e0 h0 h0 h0]
        cases hd0 : rnsDyadic l (unflattenRns l.size l.n e0) (unflattenRns l.size l.n e0) with
        | error e => rfl
        | ok d0 =>
          simp only [Except.map, gy_ok_bind]
          rw [gs_splice_head e0 _ _ _ (by rw [hfl, h0])]
          cases okProd <;> simp [pure, Except.pure]

/-- GENERATED = MODEL (`ckks_square`, fast path): the flattened `ckksSquare` of the model, then the bookkeeping of a ciphertext product
    (`ckksProductBookkeeping`: size 2 + 2 − 1, one product recorded, verdict about the PRODUCT scale at the operand's level) -/
theorem gs_ckks_square_eq (l : Level) (d : List Nat) (cf : Nat) (okOwn okProd o3 o4 : Bool) (hd : d.length = 2 * (l.size * l.n))
    (hk : 1 ≤ l.size) (hB : 3 * (l.size * l.n) < B64) :
    GenC.ct_ckks_square d 2 true l.qs.toList l.n okOwn okProd o3 o4 = (do
      let c ← ckksSquare l (unflattenCt l 2 d true cf)
      let b ← ckksProductBookkeeping true true 2 2 okProd
      pure (flattenCt l c, b.1, b.2, 0)) := by
  obtain ⟨hsplit, h0, h1⟩ := gs_split2 (l.size * l.n) d hd
  have hcore := gs_ckks_square_core l _ _ okOwn okProd o3 o4 h0 h1 hk hB
  rw [← hsplit] at hcore
  rw [hcore]
  unfold ckksSquare
  have hntt : (unflattenCt l 2 d true cf).ntt = true := rfl
  simp only [hntt, gc_polys_size, gc_polys_getD l 2 d true cf 0 (by omega), gc_polys_getD l 2 d true cf 1 (by omega),
    Bool.not_true, Bool.false_eq_true, if_false, ne_eq, not_true_eq_false]
  rw [if_neg (by decide)]
  have hbk : ckksProductBookkeeping true true 2 2 okProd = if okProd = true then .ok (3, 1) else .error .refused := by
    unfold ckksProductBookkeeping
    rw [if_neg (by simp), if_neg (by decide)]
    cases okProd <;> rfl
  rw [hbk]
  cases rnsDyadic l (unflattenRns l.size l.n (gp_blk (l.size * l.n) d 1)) (unflattenRns l.size l.n (gp_blk (l.size * l.n) d 1)) with
  | error e => rfl
  | ok d2 =>
    simp only [gy_ok_bind]
    cases rnsDyadic l (unflattenRns l.size l.n (gp_blk (l.size * l.n) d 0)) (unflattenRns l.size l.n (gp_blk (l.size * l.n) d 1)) with
    | error e => rfl
    | ok m =>
      simp only [gy_ok_bind]
      cases rnsAdd l m m with
      | error e => rfl
      | ok d1 =>
        simp only [gy_ok_bind]
        cases rnsDyadic l (unflattenRns l.size l.n (gp_blk (l.size * l.n) d 0)) (unflattenRns l.size l.n (gp_blk (l.size * l.n) d 0)) with
        | error e => rfl
        | ok d0 =>
          cases okProd <;>
            simp [gy_ok_bind, pure, Except.pure, bind, Except.bind, flattenCt]

theorem gs_ckks_square_dispatch (d : List Nat) (size : Nat) (ntt : Bool) (mods : List Modulus) (n : Nat) (o1 o2 o3 o4 : Bool) :
    GenC.ct_ckks_square d size ntt mods n o1 o2 o3 o4 =
      if ntt = false then .error .refused else if size ≠ 2 then .ok (d, size, 0, 1) else GenC.ct_ckks_square d 2 true mods n o1 o2 o3 o4 := by
  cases ntt
  · unfold GenC.ct_ckks_square; simp
  · by_cases hs : size = 2
    · subst hs; simp
    · unfold GenC.ct_ckks_square; simp [hs, pure, Except.pure]

end HC
