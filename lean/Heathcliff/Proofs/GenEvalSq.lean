import Heathcliff.Proofs.GenEvalCt3
import Heathcliff.Proofs.C02S

/-!
  Translator tie (task S): the DATA of `Evaluator::bgv_square` / `Evaluator::ckks_square` (src/evaluator.rs), generated as skeletons over the
  flat ciphertext buffer into Gen/EvalCtFns.lean (`GenC.ct_bgv_square`, `GenC.ct_ckks_square`; tables in tools/rs2lean_sq.py), against
  `bgvSquare` / `ckksSquare` of Model/Evaluator.lean on `unflattenCt` / `flattenCt`.
  First the out-of-place wrapper `dyadic_product_p` of src/util/polysmallmod.rs (generated in phase 4b', no equality until now) =
  `rnsDyadic`.  Helper names start with `gs_`.
-/
namespace HC
open HC.GenW HC.GenP HC.GenC

/-! ### `dyadic_product_p(poly1, poly2, degree, moduli, result)` on the flat layout = `rnsDyadic` -/

/-- the other arguments of one iteration of the out-of-place wrapper: the blocks of both operands and `&moduli[i]` -/
def gs_binPre (x y : List Nat) (mods : List Modulus) (i off up : Nat) : R (List Nat × List Nat × Modulus) := do
  let t1 ← GenP.slice x off up
  let t2 ← GenP.slice y off up
  let t3 ← GenP.idxT mods i
  pure (t1, t2, t3)

theorem gs_dyadic_len (a b : List Nat) (m : Modulus) (r o : List Nat) (h : GenP.poly_dyadic_product a b m r = .ok o) :
    o.length = r.length := by
  unfold GenP.poly_dyadic_product at h
  simp only [] at h
  exact gp_loop_length _ _ _ _ _ (by rw [← gp_dyadic_loop_eq]; exact h)

theorem gs_dyadic_p_loop_eq (x y : List Nat) (n : Nat) (mods : List Modulus) : ∀ cnt i r off,
    GenP.poly_dyadic_product_p_loop1 x y n mods cnt i r off =
      gp_bloop (gp_step (gs_binPre x y mods) (fun _ p t => GenP.poly_dyadic_product p.1 p.2.1 p.2.2 t)) n cnt i r off := by
  intro cnt
  induction cnt with
  | zero => intro i r off; rfl
  | succ c ih =>
    intro i r off
    rw [GenP.poly_dyadic_product_p_loop1, gp_bloop]
    simp only [gp_step, gs_binPre, bind_assoc, pure_bind, ih]

/-- `dyadic_product_p` = the hand model's `rnsDyadic` (inputs at least as long as the result: shorter ones are an index panic) -/
theorem gs_poly_dyadic_product_p_model (l : Level) (x y r : List Nat) (hr : r.length = l.size * l.n) (hx : l.size * l.n ≤ x.length)
    (hy : l.size * l.n ≤ y.length) (hB : r.length < B64) :
    GenP.poly_dyadic_product_p x y l.n l.qs.toList r =
      Except.map (flattenRns l.size l.n) (rnsDyadic l (unflattenRns l.size l.n x) (unflattenRns l.size l.n y)) := by
  unfold GenP.poly_dyadic_product_p rnsDyadic
  simp only []
  rw [gs_dyadic_p_loop_eq, gp_compsZip_eq, show l.qs.toList.length = l.size by simp [Level.size]]
  rw [gp_step_blocks _ _ l.n (fun _ p t o h => gs_dyadic_len p.1 p.2.1 p.2.2 t o h) l.size r (by omega) hB]
  unfold compsZip
  apply gp_blocks_model _ (fun j => zipM' ((unflattenRns l.size l.n x).getD j #[]) ((unflattenRns l.size l.n y).getD j #[])
    (fun u v => mulMod u v (l.qs.getD j default))) l.n l.size r hr
  · intro j hj
    have hjr : j * l.n + l.n ≤ r.length := by rw [hr]; exact gp_blk_bound hj
    have hjx : j * l.n + l.n ≤ x.length := by omega
    have hjy : j * l.n + l.n ≤ y.length := by omega
    simp only [gs_binPre, gp_slice_blk x j l.n hjx, gp_slice_blk y j l.n hjy, gp_idxT_getD l.qs.toList j (by simpa [Level.size] using hj),
      bind, Except.bind, pure, Except.pure]
    rw [gp_poly_dyadic_product_eq _ _ _ _ (by rw [gp_blk_length _ _ _ hjr, gp_blk_length _ _ _ hjx])
      (by rw [gp_blk_length _ _ _ hjr, gp_blk_length _ _ _ hjy]), gp_unflatten_blk _ _ _ _ hj hjx, gp_unflatten_blk _ _ _ _ hj hjy,
      gp_blk_length _ _ _ hjr, gz_toList_getD,
      List.take_of_length_le (by rw [gp_blk_length _ _ _ hjx]), List.take_of_length_le (by rw [gp_blk_length _ _ _ hjy])]
    rfl
  · intro j o hj h
    have hjx : j * l.n + l.n ≤ x.length := by have := gp_blk_bound (n := l.n) hj; omega
    rw [gp_zipM'_size _ _ _ _ h, gp_unflatten_blk _ _ _ _ hj hjx]
    simp only [List.size_toArray]
    exact gp_blk_length _ _ _ hjx

/-! ### list plumbing -/

theorem gs_slice_mid (A B C : List Nat) (a b : Nat) (ha : a = A.length) (hb : b = A.length + B.length) :
    GenP.slice (A ++ B ++ C) a b = .ok B := by
  subst ha hb
  unfold GenP.slice
  rw [if_pos ⟨by omega, by simp only [List.length_append]; omega⟩, List.append_assoc, List.drop_left, Nat.add_sub_cancel_left,
    List.take_left]

theorem gs_splice_mid (A B C N : List Nat) (a : Nat) (ha : a = A.length) (h : N.length = B.length) :
    GenP.splice (A ++ B ++ C) a N = A ++ N ++ C := by
  subst ha
  unfold GenP.splice
  have h1 : (A ++ B ++ C).take A.length = A := by rw [List.append_assoc, List.take_left]
  have h2 : (A ++ B ++ C).drop (A.length + N.length) = C := by rw [h, ← List.length_append, List.drop_left]
  rw [h1, h2]

theorem gs_slice_head (B C1 C2 : List Nat) (b : Nat) (hb : b = B.length) : GenP.slice (B ++ C1 ++ C2) 0 b = .ok B := by
  have := gs_slice_mid [] B (C1 ++ C2) 0 b rfl (by simpa using hb)
  simpa [List.append_assoc] using this

theorem gs_splice_head (B C1 C2 N : List Nat) (h : N.length = B.length) : GenP.splice (B ++ C1 ++ C2) 0 N = N ++ C1 ++ C2 := by
  have := gs_splice_mid [] B (C1 ++ C2) N 0 rfl h
  simpa [List.append_assoc] using this

theorem gs_slice_tail (A B : List Nat) (a b : Nat) (ha : a = A.length) (hb : b = A.length + B.length) : GenP.slice (A ++ B) a b = .ok B := by
  subst ha hb; exact gt_slice_app A B

theorem gs_splice_tail (A B N : List Nat) (a : Nat) (ha : a = A.length) (h : N.length = B.length) : GenP.splice (A ++ B) a N = A ++ N := by
  subst ha; exact gt_splice_app A B N h

theorem gs_copy_whole (X V : List Nat) (b : Nat) (hX : X.length = b) (hV : V.length = b) : GenP.copySlice X 0 b V = .ok V := by
  unfold GenP.copySlice GenP.splice
  rw [if_pos (by omega)]
  simp [hV, ← hX]

theorem gs_ckMul (a b : Nat) (h : a * b < B64) : ckMul a b = .ok (a * b) := by unfold ckMul; rw [if_pos h]
theorem gs_ckAdd (a b : Nat) (h : a + b < B64) : ckAdd a b = .ok (a + b) := by unfold ckAdd; rw [if_pos h]

/-- shape of what `rnsZip` (`rnsDyadic`, `rnsAdd`, …) returns: `l.size` components, each as long as the first operand's -/
theorem gs_rnsZip_shape (l : Level) (a b : RnsPoly) (f : Nat → Nat → Modulus → R Nat) (o : RnsPoly) (h : rnsZip l a b f = .ok o) :
    o.size = l.size ∧ ∀ j, j < l.size → (o.getD j #[]).size = (a.getD j #[]).size := by
  unfold rnsZip at h
  rw [gp_foldl_pushG] at h
  cases hm : (List.range l.size).mapM (fun i => zipM' (a.getD i #[]) (b.getD i #[]) (fun x y => f x y (l.q i))) with
  | error e => rw [hm] at h; cases h
  | ok vs =>
    rw [hm] at h
    have ho : o = vs.toArray := by
      simp only [bind, Except.bind, pure, Except.pure] at h
      cases h; simp
    have hl : vs.length = l.size := by rw [gp_mapM_lengthG _ _ _ hm, List.length_range]
    refine ⟨by rw [ho]; simpa using hl, ?_⟩
    intro j hj
    have := gt_mapM_getD _ 0 #[] _ _ hm j (by simpa using hj)
    have hr : (List.range l.size).getD j 0 = j := by simp [List.getD, hj]
    rw [hr] at this
    rw [ho, gz_toArray_getD]
    exact gp_zipM'_size _ _ _ _ this

theorem gs_unflatten_shape (size n : Nat) (d : List Nat) : (unflattenRns size n d).size = size ∧
    ∀ j, j < size → ((unflattenRns size n d).getD j #[]).size = n := by
  unfold unflattenRns
  refine ⟨by simp, fun j hj => ?_⟩
  rw [gz_toArray_getD, gz_getD_map_range _ _ _ _ hj]
  simp

/-! ### `bgv_square` -/

/-- the fast path of the generated `bgv_square` on a buffer of two polynomial blocks `e0 ++ e1`: the four kernel calls of the model in the
    same order, on the blocks, the results concatenated -/
theorem gs_bgv_square_core (l : Level) (e0 e1 : List Nat) (cf : Nat) (h0 : e0.length = l.size * l.n) (h1 : e1.length = l.size * l.n)
    (hk : 1 ≤ l.size) (hB : 3 * (l.size * l.n) < B64) :
    GenC.ct_bgv_square (e0 ++ e1) 2 cf true l.qs.toList l.t l.n = (do
      let d0 ← rnsDyadic l (unflattenRns l.size l.n e0) (unflattenRns l.size l.n e0)
      let m ← rnsDyadic l (unflattenRns l.size l.n e0) (unflattenRns l.size l.n e1)
      let d1 ← rnsAdd l m m
      let d2 ← rnsDyadic l (unflattenRns l.size l.n e1) (unflattenRns l.size l.n e1)
      let f ← mulMod cf cf l.t
      pure (flattenRns l.size l.n d0 ++ flattenRns l.size l.n d1 ++ flattenRns l.size l.n d2, 3, f, 0)) := by
  have hlen : l.qs.toList.length = l.size := by simp [Level.size]
  have hPD : l.n * l.size = l.size * l.n := Nat.mul_comm _ _
  generalize hD : l.size * l.n = D at *
  have hn : l.n ≤ D := by rw [← hD]; exact Nat.le_mul_of_pos_left _ hk
  let Z := List.replicate D 0
  have hZ : Z.length = D := by simp [Z]
  unfold GenC.ct_bgv_square
  simp only [hlen, not_true_eq_false, if_false, ne_eq, not_true]
  have a1 : ckAdd 2 2 = .ok 4 := gs_ckAdd 2 2 (by simp [B64])
  have a2 : ckSub 4 1 = .ok 3 := by unfold ckSub; rw [if_pos (by omega)]
  have a3 : ckMul 3 l.n = .ok (3 * l.n) := gs_ckMul _ _ (by omega)
  have a4 : ckMul (3 * l.n) l.size = .ok (3 * D) := by rw [gs_ckMul _ _ (by rw [Nat.mul_assoc, hPD]; omega), Nat.mul_assoc, hPD]
  have a5 : ckMul l.n l.size = .ok D := by rw [gs_ckMul _ _ (by rw [hPD]; omega), hPD]
  have a6 : ckMul 0 D = .ok 0 := by rw [gs_ckMul _ _ (by simp [B64])]; simp
  have a7 : ckMul 1 D = .ok D := by rw [gs_ckMul _ _ (by omega)]; simp
  have a8 : ckMul 2 D = .ok (2 * D) := gs_ckMul _ _ (by omega)
  have a9 : ckMul 3 D = .ok (3 * D) := gs_ckMul _ _ (by omega)
  have a10 : ckAdd D D = .ok (D + D) := gs_ckAdd _ _ (by omega)
  have hres : GenC.resizeL (e0 ++ e1) (3 * D) 0 = e0 ++ e1 ++ Z := by
    rw [gt_resizeL_grow _ _ (by simp [h0, h1]; omega)]
    congr 2
    simp [h0, h1]; omega
  have hrep : List.replicate (3 * D) 0 = Z ++ Z ++ Z := by
    simp only [Z, List.replicate_append_replicate]; congr 1; omega
  simp only [a1, a2, a3, a4, a5, a6, a7, a8, a9, a10, gy_ok_bind, hres, hrep]
  rw [if_pos (by omega)]
  have hfl : ∀ p : RnsPoly, (flattenRns l.size l.n p).length = D := fun p => by rw [gt_flattenRns_length, hD]
  have s1 : GenP.slice (e0 ++ e1 ++ Z) 0 D = .ok e0 := gs_slice_head e0 e1 Z D h0.symm
  have s2 : GenP.slice (e0 ++ e1 ++ Z) D (2 * D) = .ok e1 := gs_slice_mid e0 e1 Z D (2 * D) h0.symm (by omega)
  have s3 : GenP.slice (Z ++ Z ++ Z) 0 D = .ok Z := gs_slice_head Z Z Z D hZ.symm
  have k00 := gs_poly_dyadic_product_p_model l e0 e0 Z (by rw [hD]; exact hZ) (by rw [hD]; omega) (by rw [hD]; omega) (by omega)
  have k01 := gs_poly_dyadic_product_p_model l e0 e1 Z (by rw [hD]; exact hZ) (by rw [hD]; omega) (by rw [hD]; omega) (by omega)
  have k11 := gs_poly_dyadic_product_p_model l e1 e1 Z (by rw [hD]; exact hZ) (by rw [hD]; omega) (by rw [hD]; omega) (by omega)
  simp only [s1, s2, s3, gy_ok_bind, k00, k01, k11]
  cases hd0 : rnsDyadic l (unflattenRns l.size l.n e0) (unflattenRns l.size l.n e0) with
  | error e => rfl
  | ok d0 =>
    simp only [Except.map, gy_ok_bind]
    rw [gs_splice_head Z Z Z _ (by rw [hfl, hZ])]
    rw [gs_slice_mid (flattenRns l.size l.n d0) Z Z D (2 * D) (hfl d0).symm (by rw [hfl, hZ]; omega)]
    simp only [gy_ok_bind, k01]
    cases hm : rnsDyadic l (unflattenRns l.size l.n e0) (unflattenRns l.size l.n e1) with
    | error e => rfl
    | ok m =>
      simp only [Except.map, gy_ok_bind]
      rw [gs_splice_mid (flattenRns l.size l.n d0) Z Z _ D (hfl d0).symm (by rw [hfl, hZ])]
      rw [gs_slice_mid (flattenRns l.size l.n d0) (flattenRns l.size l.n m) Z D (D + D) (hfl d0).symm (by rw [hfl, hfl]),
        gs_slice_mid (flattenRns l.size l.n d0) (flattenRns l.size l.n m) Z D (2 * D) (hfl d0).symm (by rw [hfl, hfl]; omega)]
      simp only [gy_ok_bind]
      have hmshape := gs_rnsZip_shape l _ _ _ _ hm
      have hum : unflattenRns l.size l.n (flattenRns l.size l.n m) = m :=
        gt_unflatten_flatten _ _ _ hmshape.1 (fun j hj => by rw [hmshape.2 j hj]; exact (gs_unflatten_shape _ _ _).2 j hj)
      rw [gp_poly_add_inplace_p_model l _ _ (by rw [hfl, hD]) (by rw [hfl, hD]) (by rw [hfl]; omega), hum]
      cases hd1 : rnsAdd l m m with
      | error e => rfl
      | ok d1 =>
        simp only [Except.map, gy_ok_bind]
        rw [gs_splice_mid (flattenRns l.size l.n d0) (flattenRns l.size l.n m) Z _ D (hfl d0).symm (by rw [hfl, hfl])]
        rw [gs_slice_tail (flattenRns l.size l.n d0 ++ flattenRns l.size l.n d1) Z (2 * D) (3 * D)
          (by rw [List.length_append, hfl, hfl]; omega) (by rw [List.length_append, hfl, hfl, hZ]; omega)]
        simp only [gy_ok_bind, k11]
        cases hd2 : rnsDyadic l (unflattenRns l.size l.n e1) (unflattenRns l.size l.n e1) with
        | error e => rfl
        | ok d2 =>
          simp only [Except.map, gy_ok_bind]
          rw [gs_splice_tail (flattenRns l.size l.n d0 ++ flattenRns l.size l.n d1) Z _ (2 * D)
            (by rw [List.length_append, hfl, hfl]; omega) (by rw [hfl, hZ])]
          have hX : (e0 ++ e1 ++ Z).length = 3 * D := by simp only [List.length_append, h0, h1, hZ]; omega
          have hV : (flattenRns l.size l.n d0 ++ flattenRns l.size l.n d1 ++ flattenRns l.size l.n d2).length = 3 * D := by
            simp only [List.length_append, hfl]; omega
          rw [gt_slice_drop _ 0 (3 * D) hX (by omega), gs_copy_whole _ _ _ hX hV, gw_multiply_u64_mod_eq]
          rfl

theorem gs_split2 (D : Nat) (d : List Nat) (hd : d.length = 2 * D) :
    d = gp_blk D d 0 ++ gp_blk D d 1 ∧ (gp_blk D d 0).length = D ∧ (gp_blk D d 1).length = D := by
  refine ⟨?_, gp_blk_length _ _ _ (by omega), gp_blk_length _ _ _ (by omega)⟩
  unfold gp_blk
  simp only [Nat.zero_mul, List.drop_zero, Nat.one_mul]
  rw [List.take_of_length_le (l := d.drop D) (by rw [List.length_drop]; omega), List.take_append_drop]

/-- GENERATED = MODEL (`bgv_square`, fast path): on the flat buffer of a size-2 NTT-form ciphertext the code generated from
    `Evaluator::bgv_square` returns the flattened `bgvSquare` of the model, size 3, the model's correction factor, route 0 (computed here) -
    successes and arithmetic traps alike (both sides run `c0·c0`, `c0·c1`, the doubling, `c1·c1`, `cf·cf mod t` in this order) -/
theorem gs_bgv_square_eq (l : Level) (d : List Nat) (cf : Nat) (hd : d.length = 2 * (l.size * l.n)) (hk : 1 ≤ l.size)
    (hB : 3 * (l.size * l.n) < B64) :
    GenC.ct_bgv_square d 2 cf true l.qs.toList l.t l.n =
      Except.map (fun c => (flattenCt l c, 3, c.cf, 0)) (bgvSquare l (unflattenCt l 2 d true cf)) := by
  obtain ⟨hsplit, h0, h1⟩ := gs_split2 (l.size * l.n) d hd
  have hcore := gs_bgv_square_core l _ _ cf h0 h1 hk hB
  rw [← hsplit] at hcore
  rw [hcore]
  unfold bgvSquare
  have hntt : (unflattenCt l 2 d true cf).ntt = true := rfl
  have hcf : (unflattenCt l 2 d true cf).cf = cf := rfl
  simp only [hntt, hcf, gc_polys_size, gc_polys_getD l 2 d true cf 0 (by omega), gc_polys_getD l 2 d true cf 1 (by omega),
    Bool.not_true, Bool.false_eq_true, if_false, ne_eq, not_true_eq_false]
  rw [if_neg (by decide)]
  cases rnsDyadic l (unflattenRns l.size l.n (gp_blk (l.size * l.n) d 0)) (unflattenRns l.size l.n (gp_blk (l.size * l.n) d 0)) with
  | error e => rfl
  | ok d0 =>
    simp only [gy_ok_bind]
    cases rnsDyadic l (unflattenRns l.size l.n (gp_blk (l.size * l.n) d 0)) (unflattenRns l.size l.n (gp_blk (l.size * l.n) d 1)) with
    | error e => rfl
    | ok m =>
      simp only [gy_ok_bind]
      cases rnsAdd l m m with
      | error e => rfl
      | ok d1 =>
        simp only [gy_ok_bind]
        cases rnsDyadic l (unflattenRns l.size l.n (gp_blk (l.size * l.n) d 1)) (unflattenRns l.size l.n (gp_blk (l.size * l.n) d 1)) with
        | error e => rfl
        | ok d2 =>
          simp only [gy_ok_bind]
          cases mulMod cf cf l.t with
          | error e => rfl
          | ok f =>
            simp only [gy_ok_bind, Except.map, pure, Except.pure, flattenCt, List.map_cons, List.map_nil, List.flatten_cons,
              List.flatten_nil, List.append_nil, List.append_assoc]

/-- the dispatch of the generated `bgv_square`: coefficient form is refused; every size but 2 is handed to `bgv_multiply(x, &x.clone())`
    (route 1, buffer / size / factor untouched) - the model does the same BY DEFINITION (`bgvSquare_fallback`) -/
theorem gs_bgv_square_dispatch (d : List Nat) (size cf : Nat) (ntt : Bool) (mods : List Modulus) (t : Modulus) (n : Nat) :
    GenC.ct_bgv_square d size cf ntt mods t n =
      if ntt = false then .error .refused else if size ≠ 2 then .ok (d, size, cf, 1) else GenC.ct_bgv_square d 2 cf true mods t n := by
  cases ntt
  · unfold GenC.ct_bgv_square; simp
  · by_cases hs : size = 2
    · subst hs; simp
    · unfold GenC.ct_bgv_square; simp [hs, pure, Except.pure]

theorem bgvSquare_fallback (l : Level) (a : Ct) (hn : a.ntt = true) (hs : a.polys.size ≠ 2) : bgvSquare l a = bgvMultiply l a a := by
  unfold bgvSquare
  rw [if_neg (by simp [hn]), if_pos hs]

theorem ckksSquare_fallback (l : Level) (a : Ct) (hn : a.ntt = true) (hs : a.polys.size ≠ 2) : ckksSquare l a = ctMultiplyDyadic l a a := by
  unfold ckksSquare
  rw [if_neg (by simp [hn]), if_pos hs]

/-! ### `ckks_square` -/

/-- the fast path of the generated `ckks_square` on a buffer of two polynomial blocks `e0 ++ e1`: IN PLACE, in the order of the code
    (`c2 = c1·c1`, `c1 = c0·c1`, `c1 += c1`, `c0 = c0·c0`), then the scale bookkeeping (product recorded, verdict `okProd`) -/
theorem gs_ckks_square_core (l : Level) (e0 e1 : List Nat) (okOwn okProd o3 o4 : Bool) (h0 : e0.length = l.size * l.n)
    (h1 : e1.length = l.size * l.n) (hk : 1 ≤ l.size) (hB : 3 * (l.size * l.n) < B64) :
    GenC.ct_ckks_square (e0 ++ e1) 2 true l.qs.toList l.n okOwn okProd o3 o4 = (do
      let d2 ← rnsDyadic l (unflattenRns l.size l.n e1) (unflattenRns l.size l.n e1)
      let m ← rnsDyadic l (unflattenRns l.size l.n e0) (unflattenRns l.size l.n e1)
      let d1 ← rnsAdd l m m
      let d0 ← rnsDyadic l (unflattenRns l.size l.n e0) (unflattenRns l.size l.n e0)
      if okProd = true then pure (flattenRns l.size l.n d0 ++ flattenRns l.size l.n d1 ++ flattenRns l.size l.n d2, 3, 1, 0)
      else .error .refused) := by
  have hlen : l.qs.toList.length = l.size := by simp [Level.size]
  have hPD : l.n * l.size = l.size * l.n := Nat.mul_comm _ _
  generalize hD : l.size * l.n = D at *
  have hn : l.n ≤ D := by rw [← hD]; exact Nat.le_mul_of_pos_left _ hk
  let Z := List.replicate D 0
  have hZ : Z.length = D := by simp [Z]
  unfold GenC.ct_ckks_square
  simp only [hlen, not_true_eq_false, if_false, ne_eq]
  have a1 : ckAdd 2 2 = .ok 4 := gs_ckAdd 2 2 (by simp [B64])
  have a2 : ckSub 4 1 = .ok 3 := by unfold ckSub; rw [if_pos (by omega)]
  have a3 : ckMul 3 l.n = .ok (3 * l.n) := gs_ckMul _ _ (by omega)
  have a4 : ckMul (3 * l.n) l.size = .ok (3 * D) := by rw [gs_ckMul _ _ (by rw [Nat.mul_assoc, hPD]; omega), Nat.mul_assoc, hPD]
  have a5 : ckMul l.n l.size = .ok D := by rw [gs_ckMul _ _ (by rw [hPD]; omega), hPD]
  have a6 : ckMul 0 D = .ok 0 := by rw [gs_ckMul _ _ (by simp [B64])]; simp
  have a7 : ckMul 1 D = .ok D := by rw [gs_ckMul _ _ (by omega)]; simp
  have a8 : ckMul 2 D = .ok (2 * D) := gs_ckMul _ _ (by omega)
  have a9 : ckAdd 0 D = .ok D := by rw [gs_ckAdd _ _ (by omega)]; simp
  have a10 : ckAdd D D = .ok (D + D) := gs_ckAdd _ _ (by omega)
  have a11 : ckAdd (2 * D) D = .ok (2 * D + D) := gs_ckAdd _ _ (by omega)
  have a12 : ckAdd 0 1 = .ok 1 := gs_ckAdd _ _ (by simp [B64])
  have hres : GenC.resizeL (e0 ++ e1) (3 * D) 0 = e0 ++ e1 ++ Z := by
    rw [gt_resizeL_grow _ _ (by simp [h0, h1]; omega)]
    congr 2
    simp [h0, h1]; omega
  simp only [a1, a2, a3, a4, a5, a6, a7, a8, a9, a10, a11, a12, gy_ok_bind, hres]
  rw [if_pos (by omega)]
  have hfl : ∀ p : RnsPoly, (flattenRns l.size l.n p).length = D := fun p => by rw [gt_flattenRns_length, hD]
  have k (x y r : List Nat) (hr : r.length = D) (hx : x.length = D) (hy : y.length = D) :=
    gs_poly_dyadic_product_p_model l x y r (by rw [hD]; exact hr) (by rw [hD]; omega) (by rw [hD]; omega) (by omega)
  rw [gs_slice_mid e0 e1 Z D (D + D) h0.symm (by omega)]
  simp only [gy_ok_bind]
  rw [gs_slice_tail (e0 ++ e1) Z (2 * D) (2 * D + D) (by rw [List.length_append]; omega) (by rw [List.length_append]; omega)]
  simp only [gy_ok_bind, k e1 e1 Z hZ h1 h1]
  cases hd2 : rnsDyadic l (unflattenRns l.size l.n e1) (unflattenRns l.size l.n e1) with
  | error e => rfl
  | ok d2 =>
    simp only [Except.map, gy_ok_bind]
    rw [gs_splice_tail (e0 ++ e1) Z _ (2 * D) (by rw [List.length_append]; omega) (by rw [hfl, hZ])]
    rw [gs_slice_head e0 e1 _ D h0.symm, gs_slice_mid e0 e1 _ D (D + D) h0.symm (by omega)]
    simp only [gy_ok_bind, k e0 e1 e1 h1 h0 h1]
    cases hm : rnsDyadic l (unflattenRns l.size l.n e0) (unflattenRns l.size l.n e1) with
    | error e => rfl
    | ok m =>
      simp only [Except.map, gy_ok_bind]
      rw [gs_splice_mid e0 e1 _ _ D h0.symm (by rw [hfl, h1])]
      rw [gs_slice_mid e0 (flattenRns l.size l.n m) _ D (D + D) h0.symm (by rw [hfl]; omega)]
      simp only [gy_ok_bind]
      have hmshape := gs_rnsZip_shape l _ _ _ _ hm
      have hum : unflattenRns l.size l.n (flattenRns l.size l.n m) = m :=
        gt_unflatten_flatten _ _ _ hmshape.1 (fun j hj => by rw [hmshape.2 j hj]; exact (gs_unflatten_shape _ _ _).2 j hj)
      rw [gp_poly_add_inplace_p_model l _ _ (by rw [hfl, hD]) (by rw [hfl, hD]) (by rw [hfl]; omega), hum]
      cases hd1 : rnsAdd l m m with
      | error e => rfl
      | ok d1 =>
        simp only [Except.map, gy_ok_bind]
        rw [gs_splice_mid e0 (flattenRns l.size l.n m) _ _ D h0.symm (by rw [hfl, hfl])]
        rw [gs_slice_head e0 _ _ D h0.symm]
        simp only [gy_ok_bind, k e0 e0 e0 h0 h0 h0]
        cases hd0 : rnsDyadic l (unflattenRns l.size l.n e0) (unflattenRns l.size l.n e0) with
        | error e => rfl
        | ok d0 =>
          simp only [Except.map, gy_ok_bind]
          rw [gs_splice_head e0 _ _ _ (by rw [hfl, h0])]
          cases okProd <;> simp [pure, Except.pure]

/-- GENERATED = MODEL (`ckks_square`, fast path): the flattened `ckksSquare` of the model, then the bookkeeping of a ciphertext product
    (`ckksProductBookkeeping`: size 2 + 2 − 1, one product recorded, verdict about the PRODUCT scale at the operand's level) -/
theorem gs_ckks_square_eq (l : Level) (d : List Nat) (cf : Nat) (okOwn okProd o3 o4 : Bool) (hd : d.length = 2 * (l.size * l.n))
    (hk : 1 ≤ l.size) (hB : 3 * (l.size * l.n) < B64) :
    GenC.ct_ckks_square d 2 true l.qs.toList l.n okOwn okProd o3 o4 = (do
      let c ← ckksSquare l (unflattenCt l 2 d true cf)
      let b ← ckksProductBookkeeping true true 2 2 okProd
      pure (flattenCt l c, b.1, b.2, 0)) := by
  obtain ⟨hsplit, h0, h1⟩ := gs_split2 (l.size * l.n) d hd
  have hcore := gs_ckks_square_core l _ _ okOwn okProd o3 o4 h0 h1 hk hB
  rw [← hsplit] at hcore
  rw [hcore]
  unfold ckksSquare
  have hntt : (unflattenCt l 2 d true cf).ntt = true := rfl
  simp only [hntt, gc_polys_size, gc_polys_getD l 2 d true cf 0 (by omega), gc_polys_getD l 2 d true cf 1 (by omega),
    Bool.not_true, Bool.false_eq_true, if_false, ne_eq, not_true_eq_false]
  rw [if_neg (by decide)]
  have hbk : ckksProductBookkeeping true true 2 2 okProd = if okProd = true then .ok (3, 1) else .error .refused := by
    unfold ckksProductBookkeeping
    rw [if_neg (by simp), if_neg (by decide)]
    cases okProd <;> rfl
  rw [hbk]
  cases rnsDyadic l (unflattenRns l.size l.n (gp_blk (l.size * l.n) d 1)) (unflattenRns l.size l.n (gp_blk (l.size * l.n) d 1)) with
  | error e => rfl
  | ok d2 =>
    simp only [gy_ok_bind]
    cases rnsDyadic l (unflattenRns l.size l.n (gp_blk (l.size * l.n) d 0)) (unflattenRns l.size l.n (gp_blk (l.size * l.n) d 1)) with
    | error e => rfl
    | ok m =>
      simp only [gy_ok_bind]
      cases rnsAdd l m m with
      | error e => rfl
      | ok d1 =>
        simp only [gy_ok_bind]
        cases rnsDyadic l (unflattenRns l.size l.n (gp_blk (l.size * l.n) d 0)) (unflattenRns l.size l.n (gp_blk (l.size * l.n) d 0)) with
        | error e => rfl
        | ok d0 =>
          cases okProd <;>
            simp [gy_ok_bind, pure, Except.pure, bind, Except.bind, flattenCt]

theorem gs_ckks_square_dispatch (d : List Nat) (size : Nat) (ntt : Bool) (mods : List Modulus) (n : Nat) (o1 o2 o3 o4 : Bool) :
    GenC.ct_ckks_square d size ntt mods n o1 o2 o3 o4 =
      if ntt = false then .error .refused else if size ≠ 2 then .ok (d, size, 0, 1) else GenC.ct_ckks_square d 2 true mods n o1 o2 o3 o4 := by
  cases ntt
  · unfold GenC.ct_ckks_square; simp
  · by_cases hs : size = 2
    · subst hs; simp
    · unfold GenC.ct_ckks_square; simp [hs, pure, Except.pure]


/-! ### `bgv_multiply`: the data loops (also the fallback route of `bgv_square`) -/

/-- shape of a model polynomial whose flattening can be read back -/
def gs_Shape (l : Level) (p : RnsPoly) : Prop := p.size = l.size ∧ ∀ j, j < l.size → (p.getD j #[]).size = l.n

theorem gs_shape_unflatten (l : Level) (d : List Nat) : gs_Shape l (unflattenRns l.size l.n d) := gs_unflatten_shape _ _ _

theorem gs_shape_zip (l : Level) (a b : RnsPoly) (f : Nat → Nat → Modulus → R Nat) (o : RnsPoly) (h : rnsZip l a b f = .ok o)
    (ha : gs_Shape l a) : gs_Shape l o := by
  obtain ⟨h1, h2⟩ := gs_rnsZip_shape l a b f o h
  exact ⟨h1, fun j hj => by rw [h2 j hj]; exact ha.2 j hj⟩

theorem gs_uf (l : Level) (p : RnsPoly) (h : gs_Shape l p) : unflattenRns l.size l.n (flattenRns l.size l.n p) = p :=
  gt_unflatten_flatten _ _ _ h.1 h.2

/-- one accumulation step of the model's product, on blocks of the flat operands -/
def gs_mulStep (l : Level) (A B : List Nat) (acc : RnsPoly) (p : Nat × Nat) : R RnsPoly := do
  let pr ← rnsDyadic l (unflattenRns l.size l.n (gp_blk (l.size * l.n) A p.1)) (unflattenRns l.size l.n (gp_blk (l.size * l.n) B p.2))
  rnsAdd l acc pr

theorem gs_map_fst_bind {α β γ : Type} (x : R (α × β)) (f : α → R γ) :
    (x >>= fun p => f p.1) = (Except.map Prod.fst x >>= f) := by
  cases x <;> rfl

/-- the inner loop (`for j in 0..steps`): the accumulator block `i` of `temp` runs through the model's fold over the visited pairs -/
theorem gs_mul_inner (l : Level) (A B pre post : List Nat) (i first1 first2 s1 s2 steps : Nat)
    (hpre : pre.length = i * (l.size * l.n)) (hA : s1 * (l.size * l.n) ≤ A.length) (hB : s2 * (l.size * l.n) ≤ B.length)
    (hAB : A.length < B64) (hBB : B.length < B64) (h2 : first2 < s2) (hs1B : s1 < B64)
    (hT : pre.length + l.size * l.n + post.length < B64) :
    ∀ cnt j acc prod, gs_Shape l acc → prod.length = l.size * l.n → first1 + j + cnt ≤ s1 → j + cnt ≤ first2 + 1 →
    Except.map Prod.fst (GenC.ct_bgv_multiply_loop2 A B l.n l.qs.toList i first2 first1 steps (l.size * l.n) cnt j
        (pre ++ flattenRns l.size l.n acc ++ post) prod) =
      Except.map (fun acc' => pre ++ flattenRns l.size l.n acc' ++ post)
        (((List.range' j cnt).map fun j => (first1 + j, first2 - j)).foldlM (gs_mulStep l A B) acc) := by
  generalize hD : l.size * l.n = D at *
  have hfl : ∀ p : RnsPoly, (flattenRns l.size l.n p).length = D := fun p => by rw [gt_flattenRns_length, hD]
  intro cnt
  induction cnt with
  | zero => intro j acc prod _ _ _ _; rfl
  | succ c ih =>
    intro j acc prod hacc hprod hj1 hj2
    have hs1 : (first1 + j) * D + D ≤ A.length := by
      have : (first1 + j + 1) * D ≤ s1 * D := Nat.mul_le_mul_right _ (by omega)
      rw [Nat.succ_mul] at this; omega
    have hs2 : (first2 - j) * D + D ≤ B.length := by
      have : (first2 - j + 1) * D ≤ s2 * D := Nat.mul_le_mul_right _ (by omega)
      rw [Nat.succ_mul] at this; omega
    rw [GenC.ct_bgv_multiply_loop2]
    simp only [gs_ckAdd first1 j (by omega), gs_ckMul (first1 + j) D (by omega), gy_ok_bind,
      show ckSub first2 j = .ok (first2 - j) from (by unfold ckSub; rw [if_pos (by omega)]), gs_ckMul (first2 - j) D (by omega),
      gs_ckMul i D (by rw [← hpre]; omega), gs_ckAdd ((first1 + j) * D) D (by omega), gs_ckAdd ((first2 - j) * D) D (by omega),
      gs_ckAdd (i * D) D (by rw [← hpre]; omega), gp_slice_blk A (first1 + j) D hs1, gp_slice_blk B (first2 - j) D hs2,
      List.range'_succ, List.map_cons, List.foldlM_cons, gs_mulStep]
    rw [gs_poly_dyadic_product_p_model l _ _ prod (by rw [hD]; exact hprod) (by rw [hD, gp_blk_length _ _ _ hs1])
      (by rw [hD, gp_blk_length _ _ _ hs2]) (by rw [hprod]; omega)]
    rw [hD]
    cases hpr : rnsDyadic l (unflattenRns l.size l.n (gp_blk D A (first1 + j))) (unflattenRns l.size l.n (gp_blk D B (first2 - j))) with
    | error e => rfl
    | ok pr =>
      have hprs : gs_Shape l pr := gs_shape_zip l _ _ _ _ hpr (gs_shape_unflatten l _)
      simp only [Except.map, gy_ok_bind]
      rw [gs_slice_mid pre (flattenRns l.size l.n acc) post (i * D) (i * D + D) hpre.symm (by rw [hfl, hpre])]
      simp only [gy_ok_bind]
      rw [gp_poly_add_inplace_p_model l _ _ (by rw [hfl, hD]) (by rw [hfl, hD]) (by rw [hfl]; omega), gs_uf l acc hacc, gs_uf l pr hprs]
      cases hadd : rnsAdd l acc pr with
      | error e => rfl
      | ok acc' =>
        have hacc' : gs_Shape l acc' := gs_shape_zip l _ _ _ _ hadd hacc
        simp only [Except.map, gy_ok_bind]
        rw [gs_splice_mid pre (flattenRns l.size l.n acc) post _ (i * D) hpre.symm (by rw [hfl, hfl])]
        exact ih (j + 1) acc' (flattenRns l.size l.n pr) hacc' (hfl pr) (by omega) (by omega)


theorem gs_fold_shape (l : Level) (A B : List Nat) : ∀ (ps : List (Nat × Nat)) (acc r : RnsPoly), gs_Shape l acc →
    ps.foldlM (gs_mulStep l A B) acc = .ok r → gs_Shape l r := by
  intro ps
  induction ps with
  | nil => intro acc r h hr; cases hr; exact h
  | cons p ps ih =>
    intro acc r h hr
    rw [List.foldlM_cons] at hr
    cases hs : gs_mulStep l A B acc p with
    | error e => rw [hs] at hr; cases hr
    | ok acc' =>
      rw [hs] at hr
      refine ih acc' r ?_ hr
      unfold gs_mulStep at hs
      cases hpr : rnsDyadic l (unflattenRns l.size l.n (gp_blk (l.size * l.n) A p.1)) (unflattenRns l.size l.n (gp_blk (l.size * l.n) B p.2)) with
      | error e => rw [hpr] at hs; cases hs
      | ok pr => rw [hpr] at hs; exact gs_shape_zip l _ _ _ _ hs h

theorem gs_flatten_zero (l : Level) : flattenRns l.size l.n (rnsZero l) = List.replicate (l.size * l.n) 0 := by
  apply List.ext_getElem
  · simp [flattenRns]
  · intro k h1 h2
    have hk : k < l.size * l.n := by simpa [flattenRns] using h1
    have hn : 0 < l.n := by
      rcases Nat.eq_zero_or_pos l.n with h | h
      · rw [h] at hk; simp at hk
      · exact h
    have hd : k / l.n < l.size := gz_div_lt hk
    simp [flattenRns, rnsZero, Array.getD, hd, Nat.mod_lt _ hn]

theorem gs_zero_shape (l : Level) : gs_Shape l (rnsZero l) := by
  refine ⟨by simp [rnsZero], fun j hj => ?_⟩
  simp [rnsZero, Array.getD, hj]

theorem gs_mulPairs_range' (s1 s2 i : Nat) :
    mulPairs s1 s2 i = (List.range' 0 (min i (s1 - 1) - (i - min i (s2 - 1)) + 1)).map
      fun j => (i - min i (s2 - 1) + j, min i (s2 - 1) - j) := by
  unfold mulPairs
  simp only [List.range_eq_range']

/-- flat buffer of a list of model polynomials -/
def gs_flat (l : Level) (ps : List RnsPoly) : List Nat := (ps.map (flattenRns l.size l.n)).flatten

theorem gs_flat_length (l : Level) (ps : List RnsPoly) : (gs_flat l ps).length = ps.length * (l.size * l.n) := gt_flatten_length _ _ _

theorem gs_flat_snoc (l : Level) (ps : List RnsPoly) (p : RnsPoly) : gs_flat l (ps ++ [p]) = gs_flat l ps ++ flattenRns l.size l.n p := by
  simp [gs_flat]

/-- the outer loop (`for i in 0..dest_size`) followed by the copy back and the factor: the model's `mapM` over the output polynomials -/
theorem gs_mul_outer (l : Level) (A B : List Nat) (s1 s2 v1 cf1 cf2 : Nat) (h1 : 1 ≤ s1) (h2 : 1 ≤ s2) (hk : 1 ≤ l.size)
    (hA : A.length = (s1 + s2 - 1) * (l.size * l.n)) (hB : s2 * (l.size * l.n) ≤ B.length)
    (hAB : A.length < B64) (hBB : B.length < B64) (hsB : s1 + s2 < B64) :
    ∀ cnt i (done : List RnsPoly), done.length = i → i + cnt = s1 + s2 - 1 →
    GenC.ct_bgv_multiply_loop1 A B cf2 l.qs.toList l.t l.n v1 cf1 l.n l.size s1 s2 (s1 + s2 - 1) cnt i
        (gs_flat l done ++ List.replicate (cnt * (l.size * l.n)) 0) = (do
      let rest ← (List.range' i cnt).mapM (fun i => (mulPairs s1 s2 i).foldlM (gs_mulStep l A B) (rnsZero l))
      let f ← mulMod cf1 cf2 l.t
      pure (gs_flat l (done ++ rest), v1, f)) := by
  have hlen : l.qs.toList.length = l.size := by simp [Level.size]
  have hPD : l.n * l.size = l.size * l.n := Nat.mul_comm _ _
  have hs1A : s1 * (l.size * l.n) ≤ A.length := by rw [hA]; exact Nat.mul_le_mul_right _ (by omega)
  intro cnt
  induction cnt with
  | zero =>
    intro i done hdone hi
    rw [GenC.ct_bgv_multiply_loop1]
    have hX : A.length = (s1 + s2 - 1) * (l.n * l.size) := by rw [hPD]; exact hA
    have hV : (gs_flat l done ++ List.replicate (0 * (l.size * l.n)) 0).length = (s1 + s2 - 1) * (l.n * l.size) := by
      simp only [Nat.zero_mul, List.replicate_zero, List.append_nil, gs_flat_length, hdone, hPD]; rw [← hi]; simp
    simp only [hlen, gs_ckMul l.n l.size (by rw [hPD]; have := Nat.le_mul_of_pos_left (l.size * l.n) (show 0 < s1 + s2 - 1 by omega); omega),
      gy_ok_bind, gs_ckMul 0 (l.n * l.size) (by simp [B64]), Nat.zero_mul, gs_ckMul (s1 + s2 - 1) (l.n * l.size) (by rw [← hX]; exact hAB),
      gt_slice_drop A 0 _ hX (by omega), gs_copy_whole A _ _ hX hV, gw_multiply_u64_mod_eq, List.range'_zero, List.mapM_nil,
      pure, Except.pure, List.append_nil, List.replicate_zero]
    rw [gs_copy_whole A (gs_flat l done) _ hX (by simpa using hV)]
    rfl
  | succ c ih =>
    intro i done hdone hi
    have hD0 : 0 < s1 + s2 - 1 := by omega
    have hDle : l.size * l.n ≤ A.length := by rw [hA]; exact Nat.le_mul_of_pos_left _ hD0
    rw [GenC.ct_bgv_multiply_loop1]
    have e1 : ckSub s1 1 = .ok (s1 - 1) := by unfold ckSub; rw [if_pos (by omega)]
    have e2 : ckSub s2 1 = .ok (s2 - 1) := by unfold ckSub; rw [if_pos (by omega)]
    have e3 : ckSub i (min i (s2 - 1)) = .ok (i - min i (s2 - 1)) := by unfold ckSub; rw [if_pos (by omega)]
    have e4 : ckSub (min i (s1 - 1)) (i - min i (s2 - 1)) = .ok (min i (s1 - 1) - (i - min i (s2 - 1))) := by
      unfold ckSub; rw [if_pos (by omega)]
    have e5 : ckAdd (min i (s1 - 1) - (i - min i (s2 - 1))) 1 = .ok (min i (s1 - 1) - (i - min i (s2 - 1)) + 1) := gs_ckAdd _ _ (by omega)
    have e6 : ckMul l.n l.size = .ok (l.size * l.n) := by rw [gs_ckMul _ _ (by rw [hPD]; omega), hPD]
    simp only [e1, e2, e3, e4, e5, e6, gy_ok_bind]
    -- the buffer: finished polynomials, the zero block of polynomial i, the remaining zeros
    have hsplit : gs_flat l done ++ List.replicate ((c + 1) * (l.size * l.n)) 0 =
        gs_flat l done ++ flattenRns l.size l.n (rnsZero l) ++ List.replicate (c * (l.size * l.n)) 0 := by
      rw [gs_flatten_zero, List.append_assoc, List.replicate_append_replicate, Nat.succ_mul, Nat.add_comm]
    rw [hsplit]
    have hin := gs_mul_inner l A B (gs_flat l done) (List.replicate (c * (l.size * l.n)) 0) i (i - min i (s2 - 1)) (min i (s2 - 1)) s1 s2
      (min i (s1 - 1) - (i - min i (s2 - 1)) + 1) (by rw [gs_flat_length, hdone]) hs1A hB hAB hBB (by omega) (by omega)
      (by
        have : (i + (c + 1)) * (l.size * l.n) = A.length := by rw [hi, hA]
        rw [gs_flat_length, hdone, List.length_replicate]
        have e : (i + (c + 1)) * (l.size * l.n) = i * (l.size * l.n) + l.size * l.n + c * (l.size * l.n) := by
          rw [Nat.add_mul, Nat.succ_mul]; omega
        omega)
      (min i (s1 - 1) - (i - min i (s2 - 1)) + 1) 0 (rnsZero l) (List.replicate (l.size * l.n) 0) (gs_zero_shape l) (by simp)
      (by omega) (by omega)
    rw [← gs_mulPairs_range'] at hin
    simp only [List.range'_succ, List.mapM_cons]
    cases hL : GenC.ct_bgv_multiply_loop2 A B l.n l.qs.toList i (min i (s2 - 1)) (i - min i (s2 - 1))
        (min i (s1 - 1) - (i - min i (s2 - 1)) + 1) (l.size * l.n) (min i (s1 - 1) - (i - min i (s2 - 1)) + 1) 0
        (gs_flat l done ++ flattenRns l.size l.n (rnsZero l) ++ List.replicate (c * (l.size * l.n)) 0)
        (List.replicate (l.size * l.n) 0) with
    | error e =>
      rw [hL] at hin
      cases hf : (mulPairs s1 s2 i).foldlM (gs_mulStep l A B) (rnsZero l) with
      | error e' => rw [hf] at hin; cases hin; rfl
      | ok r => rw [hf] at hin; cases hin
    | ok pr =>
      rw [hL] at hin
      cases hf : (mulPairs s1 s2 i).foldlM (gs_mulStep l A B) (rnsZero l) with
      | error e' => rw [hf] at hin; cases hin
      | ok r =>
        rw [hf] at hin
        have hpr : pr.1 = gs_flat l done ++ flattenRns l.size l.n r ++ List.replicate (c * (l.size * l.n)) 0 := Except.ok.inj hin
        obtain ⟨v8', prod'⟩ := pr
        simp only at hpr
        subst hpr
        simp only [gy_ok_bind]
        rw [← gs_flat_snoc, ih (i + 1) (done ++ [r]) (by simp [hdone]) (by omega)]
        cases (List.range' (i + 1) c).mapM (fun i => (mulPairs s1 s2 i).foldlM (gs_mulStep l A B) (rnsZero l)) with
        | error e => rfl
        | ok rest => simp [gy_ok_bind, List.append_assoc]


theorem gs_foldlM_congr {α β : Type} (f g : β → α → R β) : ∀ (ps : List α) (acc : β), (∀ p, p ∈ ps → ∀ acc, f acc p = g acc p) →
    ps.foldlM f acc = ps.foldlM g acc := by
  intro ps
  induction ps with
  | nil => intro acc _; rfl
  | cons p ps ih =>
    intro acc h
    rw [List.foldlM_cons, List.foldlM_cons, h p (by simp) acc]
    cases g acc p with
    | error e => rfl
    | ok acc' => exact ih acc' (fun q hq => h q (by simp [hq]))

/-- GENERATED = MODEL (`bgv_multiply`, data and factor): on the flat buffers of two NTT-form ciphertexts of ANY sizes s1, s2 ≥ 1 the code generated from
    `Evaluator::bgv_multiply` (resize, nested loops over the visited pairs with `dyadic_product_p` / `add_inplace_p`, copy back, factor product) returns the
    flattened `bgvMultiply` of the model, the size s1 + s2 − 1 and the model's factor - successes, the `resize` refusal and arithmetic traps alike -/
theorem gs_bgv_multiply_eq (l : Level) (d1 d2 : List Nat) (s1 s2 cf1 cf2 : Nat) (hd1 : d1.length = s1 * (l.size * l.n))
    (hd2 : d2.length = s2 * (l.size * l.n)) (h1 : 1 ≤ s1) (h2 : 1 ≤ s2) (hk : 1 ≤ l.size)
    (hB : (s1 + s2 - 1) * (l.size * l.n) < B64) (hB2 : d2.length < B64) (hsB : s1 + s2 < B64) :
    GenC.ct_bgv_multiply d1 s1 cf1 d2 s2 cf2 true true l.qs.toList l.t l.n =
      Except.map (fun c => (flattenCt l c, s1 + s2 - 1, c.cf))
        (bgvMultiply l (unflattenCt l s1 d1 true cf1) (unflattenCt l s2 d2 true cf2)) := by
  have hlen : l.qs.toList.length = l.size := by simp [Level.size]
  have hPD : l.n * l.size = l.size * l.n := Nat.mul_comm _ _
  have hn : l.n ≤ l.size * l.n := Nat.le_mul_of_pos_left _ hk
  unfold GenC.ct_bgv_multiply bgvMultiply ctMultiplyDyadic
  have hntt1 : (unflattenCt l s1 d1 true cf1).ntt = true := rfl
  have hntt2 : (unflattenCt l s2 d2 true cf2).ntt = true := rfl
  have hcf1 : (unflattenCt l s1 d1 true cf1).cf = cf1 := rfl
  have hcf2 : (unflattenCt l s2 d2 true cf2).cf = cf2 := rfl
  simp only [hlen, hntt1, hntt2, hcf1, hcf2, gc_polys_size, not_true_eq_false, or_self, if_false, Bool.not_true, Bool.false_eq_true,
    gs_ckAdd s1 s2 hsB, gy_ok_bind, show ckSub (s1 + s2) 1 = .ok (s1 + s2 - 1) from (by unfold ckSub; rw [if_pos (by omega)])]
  rw [if_neg (show ¬(s1 < 1 ∨ s2 < 1) by omega)]
  by_cases hrz : ctResizeRefuses (s1 + s2 - 1) = true
  · have hr := (ctResizeRefuses_eq_true_iff _).mp hrz
    rw [if_pos hrz, if_neg (show ¬¬((s1 + s2 - 1 < 2 ∧ s1 + s2 - 1 ≠ 0) ∨ s1 + s2 - 1 > 16) by omega)]
    rfl
  · have hr := (ctResizeRefuses_eq_false_iff _).mp (by simpa using hrz)
    rw [if_neg hrz, if_pos (show ¬((s1 + s2 - 1 < 2 ∧ s1 + s2 - 1 ≠ 0) ∨ s1 + s2 - 1 > 16) by omega)]
    have hmul : (s1 + s2 - 1) * l.n * l.size = (s1 + s2 - 1) * (l.size * l.n) := by rw [Nat.mul_assoc, hPD]
    have hdn : (s1 + s2 - 1) * l.n < B64 := by
      have : (s1 + s2 - 1) * l.n ≤ (s1 + s2 - 1) * (l.size * l.n) := Nat.mul_le_mul_left _ hn
      omega
    simp only [gs_ckMul (s1 + s2 - 1) l.n hdn, gs_ckMul ((s1 + s2 - 1) * l.n) l.size (by rw [hmul]; exact hB), gy_ok_bind, hmul]
    have hle : d1.length ≤ (s1 + s2 - 1) * (l.size * l.n) := by rw [hd1]; exact Nat.mul_le_mul_right _ (by omega)
    rw [gt_resizeL_grow _ _ hle]
    generalize hZ : List.replicate ((s1 + s2 - 1) * (l.size * l.n) - d1.length) 0 = Z
    have hA : (d1 ++ Z).length = (s1 + s2 - 1) * (l.size * l.n) := by rw [List.length_append, ← hZ, List.length_replicate]; omega
    have hout := gs_mul_outer l (d1 ++ Z) d2 s1 s2 (s1 + s2 - 1) cf1 cf2 h1 h2 hk hA (by rw [hd2]) (by rw [hA]; exact hB) hB2 hsB
      (s1 + s2 - 1) 0 [] rfl (by omega)
    simp only [gs_flat, List.map_nil, List.flatten_nil, List.nil_append] at hout
    rw [hout, ← List.range_eq_range']
    -- the model's fold, on the blocks of the resized first buffer
    rw [gp_mapM_congr' (fun i => (mulPairs s1 s2 i).foldlM (gs_mulStep l (d1 ++ Z) d2) (rnsZero l))
      (fun i => (mulPairs s1 s2 i).foldlM (fun acc p => do
        let pr ← rnsDyadic l ((unflattenCt l s1 d1 true cf1).polys.getD p.1 #[]) ((unflattenCt l s2 d2 true cf2).polys.getD p.2 #[])
        rnsAdd l acc pr) (rnsZero l)) _ (fun i hi => by
      have hi := List.mem_range.mp hi
      obtain ⟨_, hmem⟩ := mulPairs_spec h1 h2 hi
      apply gs_foldlM_congr
      intro p hp acc
      obtain ⟨hp1, hp2, _⟩ := (hmem p.1 p.2).mp hp
      have hb1 : p.1 * (l.size * l.n) + l.size * l.n ≤ d1.length := by rw [hd1]; exact gp_blk_bound hp1
      unfold gs_mulStep
      rw [gc_polys_getD l s1 d1 true cf1 p.1 hp1, gc_polys_getD l s2 d2 true cf2 p.2 hp2, gt_blk_app _ _ _ _ hb1])]
    cases (List.range (s1 + s2 - 1)).mapM (fun i => (mulPairs s1 s2 i).foldlM (fun acc p => do
        let pr ← rnsDyadic l ((unflattenCt l s1 d1 true cf1).polys.getD p.1 #[]) ((unflattenCt l s2 d2 true cf2).polys.getD p.2 #[])
        rnsAdd l acc pr) (rnsZero l)) with
    | error e => rfl
    | ok ps =>
      simp only [gy_ok_bind, pure, Except.pure]
      cases mulMod cf1 cf2 l.t with
      | error e => rfl
      | ok f => simp [gy_ok_bind, Except.map, flattenCt]


/-- `bgv_square` as the code runs it: the generated dispatch / fast path, and on route 1 the generated `bgv_multiply` on the ciphertext and
    its clone (`self.bgv_multiply(encrypted, &encrypted.clone())`: same buffer, size, factor and representation for both operands) -/
def gs_bgv_square_run (d : List Nat) (size cf : Nat) (ntt : Bool) (mods : List Modulus) (t : Modulus) (n : Nat) : R (List Nat × Nat × Nat) := do
  let r ← GenC.ct_bgv_square d size cf ntt mods t n
  if r.2.2.2 = 1 then GenC.ct_bgv_multiply r.1 r.2.1 r.2.2.1 r.1 r.2.1 r.2.2.1 ntt ntt mods t n
  else pure (r.1, r.2.1, r.2.2.1)

/-- GENERATED = MODEL (`bgv_square`, EVERY size ≥ 1, both representations): the generated code, with the fallback route resolved by the generated
    `bgv_multiply`, returns the flattened `bgvSquare` of the model, the size 2s − 1 and the model's factor; refusals (coefficient form, result
    size > 16) and arithmetic traps included.  With `bgvSquare_eq`: = the flattened product of the ciphertext with itself. -/
theorem gs_bgv_square_run_eq (l : Level) (d : List Nat) (s cf : Nat) (ntt : Bool) (hd : d.length = s * (l.size * l.n)) (h1 : 1 ≤ s)
    (hk : 1 ≤ l.size) (hB : (2 * s - 1) * (l.size * l.n) < B64) (hsB : s + s < B64) :
    gs_bgv_square_run d s cf ntt l.qs.toList l.t l.n =
      Except.map (fun c => (flattenCt l c, 2 * s - 1, c.cf)) (bgvSquare l (unflattenCt l s d ntt cf)) := by
  unfold gs_bgv_square_run
  rw [gs_bgv_square_dispatch]
  cases ntt
  · rw [if_pos rfl, bgvSquare_refuse l _ rfl]; rfl
  · rw [if_neg (by simp)]
    by_cases hs : s = 2
    · subst hs
      rw [if_neg (by simp), gs_bgv_square_eq l d cf hd hk (by omega)]
      cases bgvSquare l (unflattenCt l 2 d true cf) with
      | error e => rfl
      | ok c => rfl
    · rw [if_pos hs]
      simp only [gy_ok_bind, if_true]
      have hle : s * (l.size * l.n) ≤ (2 * s - 1) * (l.size * l.n) := Nat.mul_le_mul_right _ (by omega)
      rw [gs_bgv_multiply_eq l d d s s cf cf hd hd h1 h1 hk (by rw [show s + s - 1 = 2 * s - 1 by omega]; exact hB) (by omega) hsB,
        bgvSquare_fallback l _ rfl (by rw [gc_polys_size]; exact hs), show s + s - 1 = 2 * s - 1 by omega]

/-! ### `ckks_multiply`: the same data loops, then the scale bookkeeping -/

theorem gs_ckks_loop2_eq (A B : List Nat) (n : Nat) (mods : List Modulus) (i f2 f1 st D : Nat) : ∀ cnt j t p,
    GenC.ct_ckks_multiply_loop2 A B n mods i f2 f1 st D cnt j t p = GenC.ct_bgv_multiply_loop2 A B n mods i f2 f1 st D cnt j t p := by
  intro cnt
  induction cnt with
  | zero => intro j t p; rfl
  | succ c ih =>
    intro j t p
    rw [GenC.ct_ckks_multiply_loop2, GenC.ct_bgv_multiply_loop2]
    simp only [ih]

/-- the outer loop of `ckks_multiply`, the copy over the whole buffer and the scale bookkeeping (one product recorded, verdict `okProd`) -/
theorem gs_ckks_mul_outer (l : Level) (A B : List Nat) (s1 s2 v1 : Nat) (okOwn okProd : Bool) (h1 : 1 ≤ s1) (h2 : 1 ≤ s2) (hk : 1 ≤ l.size)
    (hA : A.length = (s1 + s2 - 1) * (l.size * l.n)) (hB : s2 * (l.size * l.n) ≤ B.length)
    (hAB : A.length < B64) (hBB : B.length < B64) (hsB : s1 + s2 < B64) :
    ∀ cnt i (done : List RnsPoly), done.length = i → i + cnt = s1 + s2 - 1 →
    GenC.ct_ckks_multiply_loop1 A B okOwn okProd v1 0 l.n l.qs.toList l.size s1 s2 (s1 + s2 - 1) cnt i
        (gs_flat l done ++ List.replicate (cnt * (l.size * l.n)) 0) = (do
      let rest ← (List.range' i cnt).mapM (fun i => (mulPairs s1 s2 i).foldlM (gs_mulStep l A B) (rnsZero l))
      if okProd = true then pure (gs_flat l (done ++ rest), v1, 1) else .error .refused) := by
  have hlen : l.qs.toList.length = l.size := by simp [Level.size]
  have hPD : l.n * l.size = l.size * l.n := Nat.mul_comm _ _
  have hs1A : s1 * (l.size * l.n) ≤ A.length := by rw [hA]; exact Nat.mul_le_mul_right _ (by omega)
  intro cnt
  induction cnt with
  | zero =>
    intro i done hdone hi
    rw [GenC.ct_ckks_multiply_loop1]
    have hV : (gs_flat l done).length = A.length := by
      rw [gs_flat_length, hdone, hA, ← hi]; simp
    simp only [Nat.zero_mul, List.replicate_zero, List.append_nil, gt_slice_drop A 0 _ rfl (by omega), gy_ok_bind,
      gs_copy_whole A _ _ rfl hV, gs_ckAdd 0 1 (by simp [B64]), List.range'_zero, List.mapM_nil]
    cases okProd <;> simp [pure, Except.pure, gy_ok_bind]
  | succ c ih =>
    intro i done hdone hi
    have hD0 : 0 < s1 + s2 - 1 := by omega
    have hDle : l.size * l.n ≤ A.length := by rw [hA]; exact Nat.le_mul_of_pos_left _ hD0
    rw [GenC.ct_ckks_multiply_loop1]
    have e1 : ckSub s1 1 = .ok (s1 - 1) := by unfold ckSub; rw [if_pos (by omega)]
    have e2 : ckSub s2 1 = .ok (s2 - 1) := by unfold ckSub; rw [if_pos (by omega)]
    have e3 : ckSub i (min i (s2 - 1)) = .ok (i - min i (s2 - 1)) := by unfold ckSub; rw [if_pos (by omega)]
    have e4 : ckSub (min i (s1 - 1)) (i - min i (s2 - 1)) = .ok (min i (s1 - 1) - (i - min i (s2 - 1))) := by
      unfold ckSub; rw [if_pos (by omega)]
    have e5 : ckAdd (min i (s1 - 1) - (i - min i (s2 - 1))) 1 = .ok (min i (s1 - 1) - (i - min i (s2 - 1)) + 1) := gs_ckAdd _ _ (by omega)
    have e6 : ckMul l.n l.size = .ok (l.size * l.n) := by rw [gs_ckMul _ _ (by rw [hPD]; omega), hPD]
    simp only [e1, e2, e3, e4, e5, e6, gy_ok_bind]
    -- the buffer: finished polynomials, the zero block of polynomial i, the remaining zeros
    have hsplit : gs_flat l done ++ List.replicate ((c + 1) * (l.size * l.n)) 0 =
        gs_flat l done ++ flattenRns l.size l.n (rnsZero l) ++ List.replicate (c * (l.size * l.n)) 0 := by
      rw [gs_flatten_zero, List.append_assoc, List.replicate_append_replicate, Nat.succ_mul, Nat.add_comm]
    rw [hsplit]
    have hin := gs_mul_inner l A B (gs_flat l done) (List.replicate (c * (l.size * l.n)) 0) i (i - min i (s2 - 1)) (min i (s2 - 1)) s1 s2
      (min i (s1 - 1) - (i - min i (s2 - 1)) + 1) (by rw [gs_flat_length, hdone]) hs1A hB hAB hBB (by omega) (by omega)
      (by
        have : (i + (c + 1)) * (l.size * l.n) = A.length := by rw [hi, hA]
        rw [gs_flat_length, hdone, List.length_replicate]
        have e : (i + (c + 1)) * (l.size * l.n) = i * (l.size * l.n) + l.size * l.n + c * (l.size * l.n) := by
          rw [Nat.add_mul, Nat.succ_mul]; omega
        omega)
      (min i (s1 - 1) - (i - min i (s2 - 1)) + 1) 0 (rnsZero l) (List.replicate (l.size * l.n) 0) (gs_zero_shape l) (by simp)
      (by omega) (by omega)
    rw [← gs_mulPairs_range'] at hin
    simp only [List.range'_succ, List.mapM_cons, gs_ckks_loop2_eq]
    cases hL : GenC.ct_bgv_multiply_loop2 A B l.n l.qs.toList i (min i (s2 - 1)) (i - min i (s2 - 1))
        (min i (s1 - 1) - (i - min i (s2 - 1)) + 1) (l.size * l.n) (min i (s1 - 1) - (i - min i (s2 - 1)) + 1) 0
        (gs_flat l done ++ flattenRns l.size l.n (rnsZero l) ++ List.replicate (c * (l.size * l.n)) 0)
        (List.replicate (l.size * l.n) 0) with
    | error e =>
      rw [hL] at hin
      cases hf : (mulPairs s1 s2 i).foldlM (gs_mulStep l A B) (rnsZero l) with
      | error e' => rw [hf] at hin; cases hin; rfl
      | ok r => rw [hf] at hin; cases hin
    | ok pr =>
      rw [hL] at hin
      cases hf : (mulPairs s1 s2 i).foldlM (gs_mulStep l A B) (rnsZero l) with
      | error e' => rw [hf] at hin; cases hin
      | ok r =>
        rw [hf] at hin
        have hpr : pr.1 = gs_flat l done ++ flattenRns l.size l.n r ++ List.replicate (c * (l.size * l.n)) 0 := Except.ok.inj hin
        obtain ⟨v8', prod'⟩ := pr
        simp only at hpr
        subst hpr
        simp only [gy_ok_bind]
        rw [← gs_flat_snoc, ih (i + 1) (done ++ [r]) (by simp [hdone]) (by omega)]
        cases (List.range' (i + 1) c).mapM (fun i => (mulPairs s1 s2 i).foldlM (gs_mulStep l A B) (rnsZero l)) with
        | error e => rfl
        | ok rest => cases okProd <;> simp [gy_ok_bind, List.append_assoc]




/-- GENERATED = MODEL (`ckks_multiply`, data loops + bookkeeping): NTT-form operands of ANY sizes s1, s2 ≥ 1: the flattened `ctMultiplyDyadic` of the
    model, THEN the bookkeeping of a ciphertext product (`ckksProductBookkeeping`: size s1 + s2 − 1, one product recorded, verdict `okProd`) -/
theorem gs_ckks_multiply_eq (l : Level) (d1 d2 : List Nat) (s1 s2 cf1 cf2 : Nat) (okOwn okProd o3 o4 : Bool)
    (hd1 : d1.length = s1 * (l.size * l.n)) (hd2 : d2.length = s2 * (l.size * l.n)) (h1 : 1 ≤ s1) (h2 : 1 ≤ s2) (hk : 1 ≤ l.size)
    (hB : (s1 + s2 - 1) * (l.size * l.n) < B64) (hB2 : d2.length < B64) (hsB : s1 + s2 < B64) :
    GenC.ct_ckks_multiply d1 s1 d2 s2 true true l.qs.toList l.n okOwn okProd o3 o4 = (do
      let c ← ctMultiplyDyadic l (unflattenCt l s1 d1 true cf1) (unflattenCt l s2 d2 true cf2)
      let b ← ckksProductBookkeeping true true s1 s2 okProd
      pure (flattenCt l c, b.1, b.2)) := by
  have hlen : l.qs.toList.length = l.size := by simp [Level.size]
  have hPD : l.n * l.size = l.size * l.n := Nat.mul_comm _ _
  have hn : l.n ≤ l.size * l.n := Nat.le_mul_of_pos_left _ hk
  unfold GenC.ct_ckks_multiply ctMultiplyDyadic ckksProductBookkeeping
  have hntt1 : (unflattenCt l s1 d1 true cf1).ntt = true := rfl
  have hntt2 : (unflattenCt l s2 d2 true cf2).ntt = true := rfl
  simp only [hlen, hntt1, hntt2, gc_polys_size, not_true_eq_false, or_self, if_false, Bool.not_true, Bool.false_eq_true,
    gs_ckAdd s1 s2 hsB, gy_ok_bind, show ckSub (s1 + s2) 1 = .ok (s1 + s2 - 1) from (by unfold ckSub; rw [if_pos (by omega)]),
    Bool.true_eq_false]
  rw [if_neg (show ¬(s1 < 1 ∨ s2 < 1) by omega)]
  by_cases hrz : ctResizeRefuses (s1 + s2 - 1) = true
  · have hr := (ctResizeRefuses_eq_true_iff _).mp hrz
    rw [if_pos hrz, if_neg (show ¬¬((s1 + s2 - 1 < 2 ∧ s1 + s2 - 1 ≠ 0) ∨ s1 + s2 - 1 > 16) by omega)]
    rfl
  · have hr := (ctResizeRefuses_eq_false_iff _).mp (by simpa using hrz)
    rw [if_neg hrz, if_neg hrz, if_pos (show ¬((s1 + s2 - 1 < 2 ∧ s1 + s2 - 1 ≠ 0) ∨ s1 + s2 - 1 > 16) by omega)]
    have hmul : (s1 + s2 - 1) * l.n * l.size = (s1 + s2 - 1) * (l.size * l.n) := by rw [Nat.mul_assoc, hPD]
    have hdn : (s1 + s2 - 1) * l.n < B64 := by
      have : (s1 + s2 - 1) * l.n ≤ (s1 + s2 - 1) * (l.size * l.n) := Nat.mul_le_mul_left _ hn
      omega
    simp only [gs_ckMul (s1 + s2 - 1) l.n hdn, gs_ckMul ((s1 + s2 - 1) * l.n) l.size (by rw [hmul]; exact hB), gy_ok_bind, hmul]
    have hle : d1.length ≤ (s1 + s2 - 1) * (l.size * l.n) := by rw [hd1]; exact Nat.mul_le_mul_right _ (by omega)
    rw [gt_resizeL_grow _ _ hle]
    generalize hZ : List.replicate ((s1 + s2 - 1) * (l.size * l.n) - d1.length) 0 = Z
    have hA : (d1 ++ Z).length = (s1 + s2 - 1) * (l.size * l.n) := by rw [List.length_append, ← hZ, List.length_replicate]; omega
    have hout := gs_ckks_mul_outer l (d1 ++ Z) d2 s1 s2 (s1 + s2 - 1) okOwn okProd h1 h2 hk hA (by rw [hd2]) (by rw [hA]; exact hB) hB2 hsB
      (s1 + s2 - 1) 0 [] rfl (by omega)
    simp only [gs_flat, List.map_nil, List.flatten_nil, List.nil_append] at hout
    rw [hout, ← List.range_eq_range']
    rw [gp_mapM_congr' (fun i => (mulPairs s1 s2 i).foldlM (gs_mulStep l (d1 ++ Z) d2) (rnsZero l))
      (fun i => (mulPairs s1 s2 i).foldlM (fun acc p => do
        let pr ← rnsDyadic l ((unflattenCt l s1 d1 true cf1).polys.getD p.1 #[]) ((unflattenCt l s2 d2 true cf2).polys.getD p.2 #[])
        rnsAdd l acc pr) (rnsZero l)) _ (fun i hi => by
      have hi := List.mem_range.mp hi
      obtain ⟨_, hmem⟩ := mulPairs_spec h1 h2 hi
      apply gs_foldlM_congr
      intro p hp acc
      obtain ⟨hp1, hp2, _⟩ := (hmem p.1 p.2).mp hp
      have hb1 : p.1 * (l.size * l.n) + l.size * l.n ≤ d1.length := by rw [hd1]; exact gp_blk_bound hp1
      unfold gs_mulStep
      rw [gc_polys_getD l s1 d1 true cf1 p.1 hp1, gc_polys_getD l s2 d2 true cf2 p.2 hp2, gt_blk_app _ _ _ _ hb1])]
    cases (List.range (s1 + s2 - 1)).mapM (fun i => (mulPairs s1 s2 i).foldlM (fun acc p => do
        let pr ← rnsDyadic l ((unflattenCt l s1 d1 true cf1).polys.getD p.1 #[]) ((unflattenCt l s2 d2 true cf2).polys.getD p.2 #[])
        rnsAdd l acc pr) (rnsZero l)) with
    | error e => rfl
    | ok ps => cases okProd <;> simp [gy_ok_bind, pure, Except.pure, flattenCt, bind, Except.bind]

/-- `ckks_square` as the code runs it: the generated dispatch / fast path, on route 1 the generated `ckks_multiply` on the ciphertext and its clone -/
def gs_ckks_square_run (d : List Nat) (size : Nat) (ntt : Bool) (mods : List Modulus) (n : Nat) (o1 o2 o3 o4 : Bool) : R (List Nat × Nat × Nat) := do
  let r ← GenC.ct_ckks_square d size ntt mods n o1 o2 o3 o4
  if r.2.2.2 = 1 then GenC.ct_ckks_multiply r.1 r.2.1 r.1 r.2.1 ntt ntt mods n o1 o2 o3 o4
  else pure (r.1, r.2.1, r.2.2.1)

/-- GENERATED = MODEL (`ckks_square`, EVERY size ≥ 1, both representations): the flattened `ckksSquare`, then the product bookkeeping -/
theorem gs_ckks_square_run_eq (l : Level) (d : List Nat) (s cf : Nat) (ntt okOwn okProd o3 o4 : Bool) (hd : d.length = s * (l.size * l.n))
    (h1 : 1 ≤ s) (hk : 1 ≤ l.size) (hB : (2 * s - 1) * (l.size * l.n) < B64) (hsB : s + s < B64) :
    gs_ckks_square_run d s ntt l.qs.toList l.n okOwn okProd o3 o4 = (do
      let c ← ckksSquare l (unflattenCt l s d ntt cf)
      let b ← ckksProductBookkeeping true true s s okProd
      pure (flattenCt l c, b.1, b.2)) := by
  unfold gs_ckks_square_run
  rw [gs_ckks_square_dispatch]
  cases ntt
  · rw [if_pos rfl, ckksSquare_refuse l _ rfl]; rfl
  · rw [if_neg (by simp)]
    by_cases hs : s = 2
    · subst hs
      rw [if_neg (by simp), gs_ckks_square_eq l d cf okOwn okProd o3 o4 hd hk (by omega)]
      cases ckksSquare l (unflattenCt l 2 d true cf) with
      | error e => rfl
      | ok c =>
        simp only [gy_ok_bind]
        cases ckksProductBookkeeping true true 2 2 okProd with
        | error e => rfl
        | ok b => rfl
    · rw [if_pos hs]
      simp only [gy_ok_bind, if_true]
      rw [gs_ckks_multiply_eq l d d s s cf cf okOwn okProd o3 o4 hd hd h1 h1 hk (by rw [show s + s - 1 = 2 * s - 1 by omega]; exact hB)
        (by have : s * (l.size * l.n) ≤ (2 * s - 1) * (l.size * l.n) := Nat.mul_le_mul_right _ (by omega)
            omega) hsB,
        ckksSquare_fallback l _ rfl (by rw [gc_polys_size]; exact hs)]

end HC
