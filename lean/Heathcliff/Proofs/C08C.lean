/- C08 part C: multi-word helpers agree with arbitrary-precision arithmetic for ALL operand lengths.
   `toNat` is the little-endian value, `Limbs l` says every limb is a u64. -/
import Heathcliff.Proofs.Word
import Mathlib.Tactic.Linarith
import Mathlib.Tactic.LinearCombination
import Mathlib.Tactic.NormNum
import Mathlib.Tactic.Ring
namespace HC

def Limbs (l : List Nat) : Prop := ∀ x ∈ l, x < 2^64

/-! ### basic list/value lemmas -/

theorem Limbs.nil : Limbs [] := by intro x hx; cases hx
theorem limbs_cons {x : Nat} {l : List Nat} : Limbs (x :: l) ↔ x < 2^64 ∧ Limbs l := by
  unfold Limbs; simp
theorem Limbs.tail {l : List Nat} (h : Limbs l) : Limbs l.tail := by
  intro x hx; exact h x (List.mem_of_mem_tail hx)
theorem Limbs.take {l : List Nat} (h : Limbs l) (n : Nat) : Limbs (l.take n) := by
  intro x hx; exact h x (List.mem_of_mem_take hx)
theorem Limbs.drop {l : List Nat} (h : Limbs l) (n : Nat) : Limbs (l.drop n) := by
  intro x hx; exact h x (List.mem_of_mem_drop hx)
theorem Limbs.append {l1 l2 : List Nat} (h1 : Limbs l1) (h2 : Limbs l2) : Limbs (l1 ++ l2) := by
  intro x hx; rcases List.mem_append.mp hx with h | h
  · exact h1 x h
  · exact h2 x h
theorem limbs_append {l1 l2 : List Nat} : Limbs (l1 ++ l2) ↔ Limbs l1 ∧ Limbs l2 := by
  constructor
  · intro h; exact ⟨fun x hx => h x (List.mem_append_left _ hx), fun x hx => h x (List.mem_append_right _ hx)⟩
  · intro h; exact h.1.append h.2
theorem Limbs.replicate_zero (n : Nat) : Limbs (List.replicate n 0) := by
  intro x hx; rw [List.eq_of_mem_replicate hx]; norm_num
theorem Limbs.headD {l : List Nat} (h : Limbs l) : l.headD 0 < 2^64 := by
  cases l with
  | nil => simp
  | cons x xs => exact h x (by simp)
theorem Limbs.getD {l : List Nat} (h : Limbs l) (i : Nat) : l.getD i 0 < 2^64 := by
  rw [List.getD_eq_getElem?_getD]
  by_cases hi : i < l.length
  · rw [List.getElem?_eq_getElem hi]; exact h _ (List.getElem_mem hi)
  · rw [List.getElem?_eq_none (by omega)]; simp

@[simp] theorem toNat_nil : toNat [] = 0 := rfl
@[simp] theorem toNat_cons (x : Nat) (xs : List Nat) : toNat (x :: xs) = x + B64 * toNat xs := rfl

theorem pow64_succ (n : Nat) : 2^(64*(n+1)) = B64 * 2^(64*n) := by
  rw [B64_eq, ← pow_add]; congr 1; ring

theorem toNat_appendC (l1 l2 : List Nat) : toNat (l1 ++ l2) = toNat l1 + 2^(64*l1.length) * toNat l2 := by
  induction l1 with
  | nil => simp
  | cons x xs ih =>
    simp only [List.cons_append, toNat_cons, List.length_cons, ih, pow64_succ]; ring

theorem toNat_replicate_zero (n : Nat) : toNat (List.replicate n 0) = 0 := by
  induction n with
  | zero => rfl
  | succ k ih => simp [List.replicate_succ, ih]

theorem toNat_lt' {l : List Nat} (h : Limbs l) : toNat l < 2^(64 * l.length) := by
  induction l with
  | nil => simp
  | cons x xs ih =>
    have hx : x < B64 := by rw [B64_eq]; exact (limbs_cons.mp h).1
    have ih' := ih (limbs_cons.mp h).2
    simp only [toNat_cons, List.length_cons, pow64_succ]
    have : B64 * (toNat xs + 1) ≤ B64 * 2 ^ (64 * xs.length) := Nat.mul_le_mul_left _ ih'
    rw [Nat.mul_succ] at this
    linarith

theorem toNat_take_succ (l : List Nat) (n : Nat) :
    toNat (l.take (n+1)) = l.headD 0 + B64 * toNat (l.tail.take n) := by
  cases l <;> simp

theorem toNat_take_of_le {l : List Nat} {n : Nat} (h : l.length ≤ n) : toNat (l.take n) = toNat l := by
  rw [List.take_of_length_le h]

theorem toNat_split (l : List Nat) (k : Nat) :
    toNat l = toNat (l.take k) + 2^(64 * min k l.length) * toNat (l.drop k) := by
  conv_lhs => rw [← List.take_append_drop k l]
  rw [toNat_appendC, List.length_take]

theorem toNat_take_mod {l : List Nat} (h : Limbs l) (k : Nat) : toNat (l.take k) = toNat l % 2^(64*k) := by
  by_cases hk : k ≤ l.length
  · rw [toNat_split l k, Nat.min_eq_left hk, Nat.add_mul_mod_self_left]
    have := toNat_lt' (h.take k)
    rw [List.length_take, Nat.min_eq_left hk] at this
    exact (Nat.mod_eq_of_lt this).symm
  · rw [toNat_take_of_le (by omega)]
    have := toNat_lt' h
    have h2 : 2^(64*l.length) ≤ 2^(64*k) := Nat.pow_le_pow_right (by norm_num) (by omega)
    exact (Nat.mod_eq_of_lt (by omega)).symm

theorem toNat_drop_div {l : List Nat} (h : Limbs l) (k : Nat) : toNat (l.drop k) = toNat l / 2^(64*k) := by
  by_cases hk : k ≤ l.length
  · conv_rhs => rw [toNat_split l k, Nat.min_eq_left hk]
    have := toNat_lt' (h.take k)
    rw [List.length_take, Nat.min_eq_left hk] at this
    rw [Nat.add_mul_div_left _ _ (by positivity), Nat.div_eq_of_lt this, Nat.zero_add]
  · rw [List.drop_of_length_le (by omega)]
    have := toNat_lt' h
    have h2 : 2^(64*l.length) ≤ 2^(64*k) := Nat.pow_le_pow_right (by norm_num) (by omega)
    rw [Nat.div_eq_of_lt (by omega)]; rfl

theorem toNat_getD_split (l : List Nat) (i : Nat) :
    toNat (l.take (i+1)) = toNat (l.take i) + 2^(64*i) * l.getD i 0 := by
  induction l generalizing i with
  | nil => simp
  | cons x xs ih =>
    cases i with
    | zero => simp
    | succ j =>
      simp only [List.take_succ_cons, toNat_cons, List.getD_cons_succ, ih j, pow64_succ]
      ring

/-- equality of values with equal length and limbs -> equality of lists is not needed; we need the converse direction:
    a list of length n with limbs whose value is known. -/
theorem toNat_eq_zero_iff {l : List Nat} : toNat l = 0 ↔ ∀ x ∈ l, x = 0 := by
  induction l with
  | nil => simp
  | cons x xs ih =>
    simp only [toNat_cons, List.mem_cons, forall_eq_or_imp]
    rw [← ih]
    constructor
    · intro h
      have h1 : x = 0 := by omega
      have h2 : B64 * toNat xs = 0 := by omega
      rcases Nat.mul_eq_zero.mp h2 with h3 | h3
      · exact absurd h3 (by norm_num [B64])
      · exact ⟨h1, h3⟩
    · rintro ⟨h1, h2⟩; simp [h1, h2]

/-! ### fromNat -/

theorem fromNat_length (n v : Nat) : (fromNat n v).length = n := by
  induction n generalizing v with
  | zero => rfl
  | succ k ih => simp [fromNat, ih]

theorem fromNat_limbs (n v : Nat) : Limbs (fromNat n v) := by
  induction n generalizing v with
  | zero => exact Limbs.nil
  | succ k ih =>
    simp only [fromNat]
    exact limbs_cons.mpr ⟨by rw [← B64_eq]; exact Nat.mod_lt _ B64_pos, ih _⟩

theorem toNat_fromNat' (n v : Nat) : toNat (fromNat n v) = v % 2^(64*n) := by
  induction n generalizing v with
  | zero => simp [fromNat, Nat.mod_one]
  | succ k ih =>
    simp only [fromNat, toNat_cons, ih, pow64_succ]
    rw [Nat.mod_mul]

/-! ### single-word primitives -/

theorem addU64Carry_spec' {a b c : Nat} (ha : a < 2^64) (hb : b < 2^64) (hc : c ≤ 1) :
    (addU64Carry a b c).1 + 2^64 * (addU64Carry a b c).2 = a + b + c ∧ (addU64Carry a b c).1 < 2^64 ∧ (addU64Carry a b c).2 ≤ 1 := by
  unfold addU64Carry wAdd notW B64
  norm_num at ha hb ⊢
  split <;> omega

theorem addU64_spec {a b : Nat} (ha : a < 2^64) (hb : b < 2^64) :
    (addU64 a b).1 + 2^64 * (addU64 a b).2 = a + b ∧ (addU64 a b).1 < 2^64 ∧ (addU64 a b).2 ≤ 1 := by
  unfold addU64 wAdd B64
  norm_num at ha hb ⊢
  split <;> omega

theorem subU64_spec {a b : Nat} (ha : a < 2^64) (hb : b < 2^64) :
    (subU64 a b).1 + b = a + 2^64 * (subU64 a b).2 ∧ (subU64 a b).1 < 2^64 ∧ (subU64 a b).2 ≤ 1 := by
  unfold subU64 wSub B64
  norm_num at ha hb ⊢
  split <;> omega

theorem subU64Borrow_spec' {a b c : Nat} (ha : a < 2^64) (hb : b < 2^64) (hc : c ≤ 1) :
    (subU64Borrow a b c).1 + b + c = a + 2^64 * (subU64Borrow a b c).2 ∧ (subU64Borrow a b c).1 < 2^64 ∧ (subU64Borrow a b c).2 ≤ 1 := by
  unfold subU64Borrow wSub B64
  norm_num at ha hb ⊢
  split <;> split <;> omega

/-! ### ripple loops -/

theorem addLimbs_succ (n : Nat) (a b : List Nat) (c : Nat) : addLimbs (n+1) a b c =
    ((addU64Carry (a.headD 0) (b.headD 0) c).1 :: (addLimbs n a.tail b.tail (addU64Carry (a.headD 0) (b.headD 0) c).2).1,
     (addLimbs n a.tail b.tail (addU64Carry (a.headD 0) (b.headD 0) c).2).2) := rfl
theorem addLimbs_zero (a b : List Nat) (c : Nat) : addLimbs 0 a b c = ([], c) := rfl
theorem subLimbs_succ (n : Nat) (a b : List Nat) (c : Nat) : subLimbs (n+1) a b c =
    ((subU64Borrow (a.headD 0) (b.headD 0) c).1 :: (subLimbs n a.tail b.tail (subU64Borrow (a.headD 0) (b.headD 0) c).2).1,
     (subLimbs n a.tail b.tail (subU64Borrow (a.headD 0) (b.headD 0) c).2).2) := rfl
theorem subLimbs_zero (a b : List Nat) (c : Nat) : subLimbs 0 a b c = ([], c) := rfl

theorem addLimbs_spec (n : Nat) : ∀ (a b : List Nat) (c : Nat), Limbs a → Limbs b → c ≤ 1 →
    (addLimbs n a b c).1.length = n ∧ Limbs (addLimbs n a b c).1 ∧ (addLimbs n a b c).2 ≤ 1 ∧
    toNat (addLimbs n a b c).1 + 2^(64*n) * (addLimbs n a b c).2 = toNat (a.take n) + toNat (b.take n) + c := by
  induction n with
  | zero => intro a b c _ _ hc; rw [addLimbs_zero]; exact ⟨rfl, Limbs.nil, hc, by simp⟩
  | succ k ih =>
    intro a b c ha hb hc
    obtain ⟨h1, h2, h3⟩ := addU64Carry_spec' ha.headD hb.headD hc
    obtain ⟨i1, i2, i3, i4⟩ := ih a.tail b.tail _ ha.tail hb.tail h3
    rw [addLimbs_succ]
    refine ⟨by simp only [List.length_cons, i1], limbs_cons.mpr ⟨h2, i2⟩, i3, ?_⟩
    simp only [toNat_cons, toNat_take_succ, pow64_succ]
    rw [← B64_eq] at h1
    linear_combination h1 + B64 * i4

theorem subLimbs_spec (n : Nat) : ∀ (a b : List Nat) (c : Nat), Limbs a → Limbs b → c ≤ 1 →
    (subLimbs n a b c).1.length = n ∧ Limbs (subLimbs n a b c).1 ∧ (subLimbs n a b c).2 ≤ 1 ∧
    toNat (subLimbs n a b c).1 + toNat (b.take n) + c = toNat (a.take n) + 2^(64*n) * (subLimbs n a b c).2 := by
  induction n with
  | zero => intro a b c _ _ hc; rw [subLimbs_zero]; exact ⟨rfl, Limbs.nil, hc, by simp⟩
  | succ k ih =>
    intro a b c ha hb hc
    obtain ⟨h1, h2, h3⟩ := subU64Borrow_spec' ha.headD hb.headD hc
    obtain ⟨i1, i2, i3, i4⟩ := ih a.tail b.tail _ ha.tail hb.tail h3
    rw [subLimbs_succ]
    refine ⟨by simp only [List.length_cons, i1], limbs_cons.mpr ⟨h2, i2⟩, i3, ?_⟩
    simp only [toNat_cons, toNat_take_succ, pow64_succ]
    rw [← B64_eq] at h1
    linear_combination h1 + B64 * i4

theorem toNat_lt {l : List Nat} (h : Limbs l) : toNat l < 2^(64 * l.length) := toNat_lt' h
theorem toNat_fromNat (n v : Nat) : toNat (fromNat n v) = v % 2^(64*n) ∧ (fromNat n v).length = n ∧ Limbs (fromNat n v) :=
  ⟨toNat_fromNat' n v, fromNat_length n v, fromNat_limbs n v⟩

/-- single-word carry primitives -/
theorem addU64Carry_spec {a b c : Nat} (ha : a < 2^64) (hb : b < 2^64) (hc : c ≤ 1) :
    (addU64Carry a b c).1 + 2^64 * (addU64Carry a b c).2 = a + b + c ∧ (addU64Carry a b c).1 < 2^64 ∧ (addU64Carry a b c).2 ≤ 1 :=
  addU64Carry_spec' ha hb hc
theorem subU64Borrow_spec {a b c : Nat} (ha : a < 2^64) (hb : b < 2^64) (hc : c ≤ 1) :
    (subU64Borrow a b c).1 + b + c = a + 2^64 * (subU64Borrow a b c).2 ∧ (subU64Borrow a b c).1 < 2^64 ∧ (subU64Borrow a b c).2 ≤ 1 :=
  subU64Borrow_spec' ha hb hc

theorem addUint_eq (a b : List Nat) (n : Nat) : addUint a b n =
    if n = 0 ∨ a.length < n ∨ b.length < n then .error .oob
    else .ok ((addU64 (a.headD 0) (b.headD 0)).1 ::
        (addLimbs (n-1) a.tail b.tail (addU64 (a.headD 0) (b.headD 0)).2).1,
        (addLimbs (n-1) a.tail b.tail (addU64 (a.headD 0) (b.headD 0)).2).2) := rfl

theorem subUint_eq (a b : List Nat) (n : Nat) : subUint a b n =
    if n = 0 ∨ a.length < 1 ∨ b.length < 1 then .error .oob
    else .ok ((subU64 (a.headD 0) (b.headD 0)).1 ::
        (subLimbs (n-1) a.tail b.tail (subU64 (a.headD 0) (b.headD 0)).2).1,
        (subLimbs (n-1) a.tail b.tail (subU64 (a.headD 0) (b.headD 0)).2).2) := rfl

theorem addUintU64_eq (a : List Nat) (w n : Nat) : addUintU64 a w n =
    if n = 0 ∨ a.length < n then .error .oob
    else .ok ((addU64 (a.headD 0) w).1 ::
        (addLimbs (n-1) a.tail [] (addU64 (a.headD 0) w).2).1,
        (addLimbs (n-1) a.tail [] (addU64 (a.headD 0) w).2).2) := rfl

theorem subUintU64_eq (a : List Nat) (w n : Nat) : subUintU64 a w n =
    if n = 0 ∨ a.length < n then .error .oob
    else .ok ((subU64 (a.headD 0) w).1 ::
        (subLimbs (n-1) a.tail [] (subU64 (a.headD 0) w).2).1,
        (subLimbs (n-1) a.tail [] (subU64 (a.headD 0) w).2).2) := rfl

theorem negateUint_eq (a : List Nat) (n : Nat) : negateUint a n =
    if n = 0 ∨ a.length < n then .error .oob
    else .ok ((addU64 (notW (a.headD 0)) 1).1 ::
        (addLimbs (n-1) ((a.tail.take (n-1)).map notW) [] (addU64 (notW (a.headD 0)) 1).2).1) := rfl

theorem addUint_spec {a b : List Nat} {n : Nat} (hn : 1 ≤ n) (ha : Limbs a) (hb : Limbs b)
    (hla : n ≤ a.length) (hlb : n ≤ b.length) :
    ∃ r c, addUint a b n = .ok (r, c) ∧ r.length = n ∧ Limbs r ∧ c ≤ 1 ∧
      toNat r + 2^(64*n) * c = toNat (a.take n) + toNat (b.take n) := by
  obtain ⟨m, rfl⟩ : ∃ m, n = m + 1 := ⟨n - 1, by omega⟩
  rw [addUint_eq, if_neg (by omega)]
  obtain ⟨h1, h2, h3⟩ := addU64_spec ha.headD hb.headD
  obtain ⟨i1, i2, i3, i4⟩ := addLimbs_spec m a.tail b.tail _ ha.tail hb.tail h3
  refine ⟨_, _, rfl, by simp only [List.length_cons, Nat.add_sub_cancel, i1], ?_, i3, ?_⟩
  · exact limbs_cons.mpr ⟨h2, i2⟩
  · simp only [toNat_cons, toNat_take_succ, pow64_succ, Nat.add_sub_cancel] at i4 ⊢
    rw [← B64_eq] at h1
    linear_combination h1 + B64 * i4

theorem subUint_spec {a b : List Nat} {n : Nat} (hn : 1 ≤ n) (ha : Limbs a) (hb : Limbs b)
    (hla : n ≤ a.length) (hlb : n ≤ b.length) :
    ∃ r c, subUint a b n = .ok (r, c) ∧ r.length = n ∧ Limbs r ∧ c ≤ 1 ∧
      toNat r + toNat (b.take n) = toNat (a.take n) + 2^(64*n) * c := by
  obtain ⟨m, rfl⟩ : ∃ m, n = m + 1 := ⟨n - 1, by omega⟩
  rw [subUint_eq, if_neg (by omega)]
  obtain ⟨h1, h2, h3⟩ := subU64_spec ha.headD hb.headD
  obtain ⟨i1, i2, i3, i4⟩ := subLimbs_spec m a.tail b.tail _ ha.tail hb.tail h3
  refine ⟨_, _, rfl, by simp only [List.length_cons, Nat.add_sub_cancel, i1], ?_, i3, ?_⟩
  · exact limbs_cons.mpr ⟨h2, i2⟩
  · simp only [toNat_cons, toNat_take_succ, pow64_succ, Nat.add_sub_cancel] at i4 ⊢
    rw [← B64_eq] at h1
    linear_combination h1 + B64 * i4

theorem addUintU64_spec {a : List Nat} {w n : Nat} (hn : 1 ≤ n) (ha : Limbs a) (hw : w < 2^64) (hla : n ≤ a.length) :
    ∃ r c, addUintU64 a w n = .ok (r, c) ∧ r.length = n ∧ Limbs r ∧ c ≤ 1 ∧
      toNat r + 2^(64*n) * c = toNat (a.take n) + w := by
  obtain ⟨m, rfl⟩ : ∃ m, n = m + 1 := ⟨n - 1, by omega⟩
  rw [addUintU64_eq, if_neg (by omega)]
  obtain ⟨h1, h2, h3⟩ := addU64_spec ha.headD hw
  obtain ⟨i1, i2, i3, i4⟩ := addLimbs_spec m a.tail [] _ ha.tail Limbs.nil h3
  refine ⟨_, _, rfl, by simp only [List.length_cons, Nat.add_sub_cancel, i1], ?_, i3, ?_⟩
  · exact limbs_cons.mpr ⟨h2, i2⟩
  · simp only [toNat_cons, toNat_take_succ, pow64_succ, Nat.add_sub_cancel, List.take_nil, toNat_nil] at i4 ⊢
    rw [← B64_eq] at h1
    linear_combination h1 + B64 * i4

theorem subUintU64_spec {a : List Nat} {w n : Nat} (hn : 1 ≤ n) (ha : Limbs a) (hw : w < 2^64) (hla : n ≤ a.length) :
    ∃ r c, subUintU64 a w n = .ok (r, c) ∧ r.length = n ∧ Limbs r ∧ c ≤ 1 ∧
      toNat r + w = toNat (a.take n) + 2^(64*n) * c := by
  obtain ⟨m, rfl⟩ : ∃ m, n = m + 1 := ⟨n - 1, by omega⟩
  rw [subUintU64_eq, if_neg (by omega)]
  obtain ⟨h1, h2, h3⟩ := subU64_spec ha.headD hw
  obtain ⟨i1, i2, i3, i4⟩ := subLimbs_spec m a.tail [] _ ha.tail Limbs.nil h3
  refine ⟨_, _, rfl, by simp only [List.length_cons, Nat.add_sub_cancel, i1], ?_, i3, ?_⟩
  · exact limbs_cons.mpr ⟨h2, i2⟩
  · simp only [toNat_cons, toNat_take_succ, pow64_succ, Nat.add_sub_cancel, List.take_nil, toNat_nil] at i4 ⊢
    rw [← B64_eq] at h1
    linear_combination h1 + B64 * i4

theorem notW_add {x : Nat} (hx : x < 2^64) : notW x + x + 1 = B64 := by
  unfold notW B64; norm_num at hx ⊢; omega
theorem notW_lt {x : Nat} : notW x < 2^64 := by
  unfold notW B64; norm_num; omega

theorem limbs_map_notW (l : List Nat) : Limbs (l.map notW) := by
  intro x hx
  obtain ⟨y, _, rfl⟩ := List.mem_map.mp hx
  exact notW_lt

theorem toNat_map_notW {l : List Nat} (h : Limbs l) : toNat (l.map notW) + toNat l + 1 = 2^(64*l.length) := by
  induction l with
  | nil => simp
  | cons x xs ih =>
    have h1 := notW_add (limbs_cons.mp h).1
    have h2 := ih (limbs_cons.mp h).2
    simp only [List.map_cons, toNat_cons, List.length_cons, pow64_succ]
    linear_combination h1 + B64 * h2

theorem negateUint_spec {a : List Nat} {n : Nat} (hn : 1 ≤ n) (ha : Limbs a) (hla : n ≤ a.length) :
    ∃ r, negateUint a n = .ok r ∧ r.length = n ∧ Limbs r ∧
      toNat r = (2^(64*n) - toNat (a.take n)) % 2^(64*n) := by
  obtain ⟨m, rfl⟩ : ∃ m, n = m + 1 := ⟨n - 1, by omega⟩
  rw [negateUint_eq, if_neg (by omega)]
  simp only [Nat.add_sub_cancel]
  obtain ⟨h1, h2, h3⟩ := addU64_spec (notW_lt (x := a.headD 0)) (show 1 < 2^64 by norm_num)
  have hlen : (a.tail.take m).length = m := by
    rw [List.length_take, List.length_tail]; omega
  obtain ⟨i1, i2, i3, i4⟩ := addLimbs_spec m ((a.tail.take m).map notW) [] _ (limbs_map_notW _) Limbs.nil h3
  have hN := toNat_map_notW (ha.tail.take m)
  have hna := notW_add ha.headD
  rw [hlen] at hN
  have ht : ((a.tail.take m).map notW).take m = (a.tail.take m).map notW :=
    List.take_of_length_le (by rw [List.length_map, hlen])
  rw [ht] at i4
  refine ⟨_, rfl, by simp only [List.length_cons, i1], limbs_cons.mpr ⟨h2, i2⟩, ?_⟩
  have hr : Limbs ((addU64 (notW (a.headD 0)) 1).1 :: (addLimbs m ((a.tail.take m).map notW) [] (addU64 (notW (a.headD 0)) 1).2).1) :=
    limbs_cons.mpr ⟨h2, i2⟩
  have hlt := toNat_lt' hr
  simp only [List.length_cons, i1] at hlt
  generalize hR : toNat ((addU64 (notW (a.headD 0)) 1).1 :: (addLimbs m ((a.tail.take m).map notW) [] (addU64 (notW (a.headD 0)) 1).2).1) = R at hlt ⊢
  have key : R + 2^(64*(m+1)) * (addLimbs m ((a.tail.take m).map notW) [] (addU64 (notW (a.headD 0)) 1).2).2 + toNat (a.take (m+1)) = 2^(64*(m+1)) := by
    rw [← hR]
    simp only [toNat_cons, toNat_take_succ, pow64_succ, List.take_nil, toNat_nil] at i4 ⊢
    rw [← B64_eq] at h1
    linear_combination h1 + hna + B64 * i4 + B64 * hN
  have : 2^(64*(m+1)) - toNat (a.take (m+1)) = R + 2^(64*(m+1)) * (addLimbs m ((a.tail.take m).map notW) [] (addU64 (notW (a.headD 0)) 1).2).2 := by
    omega
  rw [this, Nat.add_mul_mod_self_left, Nat.mod_eq_of_lt hlt]

theorem ckAdd_ok {a b : Nat} (h : a + b < B64) : ckAdd a b = .ok (a + b) := by
  unfold ckAdd; rw [if_pos h]

theorem mul_step_bound {B x w carry r : Nat} (hx : x < B) (hw : w < B) (hc : carry < B) (hr : r < B) :
    x * w + carry + r < B * B := by
  obtain ⟨b, rfl⟩ : ∃ b, B = b + 1 := ⟨B - 1, by omega⟩
  have := Nat.mul_le_mul (Nat.le_of_lt_succ hx) (Nat.le_of_lt_succ hw)
  nlinarith

theorem mulLo_add_mulHi (x w : Nat) : mulLo x w + B64 * mulHi x w = x * w := by
  unfold mulLo mulHi; exact Nat.mod_add_div _ _

theorem mulLimbsU64_zero (a : List Nat) (w carry : Nat) : mulLimbsU64 a w 0 carry = .ok ([], carry) := by
  cases a <;> rfl
theorem mulLimbsU64_cons (x : Nat) (xs : List Nat) (w k carry : Nat) :
    mulLimbsU64 (x :: xs) w (k+1) carry =
      (ckAdd (mulHi x w) (addU64Carry (mulLo x w) carry 0).2 >>= fun carry' =>
        mulLimbsU64 xs w k carry' >>= fun p => pure ((addU64Carry (mulLo x w) carry 0).1 :: p.1, p.2)) := rfl

theorem mulLimbsU64_spec (a : List Nat) : ∀ (w k carry : Nat), Limbs a → w < 2^64 → carry < 2^64 → k ≤ a.length →
    ∃ rs cf, mulLimbsU64 a w k carry = .ok (rs, cf) ∧ rs.length = k ∧ Limbs rs ∧ cf < 2^64 ∧
      toNat rs + 2^(64*k) * cf = toNat (a.take k) * w + carry := by
  induction a with
  | nil =>
    intro w k carry _ _ hc hk
    have : k = 0 := by simpa using hk
    subst this
    exact ⟨[], carry, rfl, rfl, Limbs.nil, hc, by simp⟩
  | cons x xs ih =>
    intro w k carry ha hw hc hk
    cases k with
    | zero => exact ⟨[], carry, rfl, rfl, Limbs.nil, hc, by simp⟩
    | succ k =>
      have hx := (limbs_cons.mp ha).1
      have hlo : mulLo x w < 2^64 := by unfold mulLo; rw [← B64_eq]; exact Nat.mod_lt _ B64_pos
      obtain ⟨e2, ht, hc1⟩ := addU64Carry_spec' hlo hc (Nat.zero_le 1)
      have e1 := mulLo_add_mulHi x w
      rw [← B64_eq] at e2 hx hw hc ht
      have hb := mul_step_bound hx hw hc (Nat.zero_lt_of_lt hx)
      have hsum : mulHi x w + (addU64Carry (mulLo x w) carry 0).2 < B64 := by
        apply Nat.lt_of_mul_lt_mul_left (a := B64)
        nlinarith
      obtain ⟨rs, cf, hrec, hl, hlimbs, hcf, hval⟩ := ih w k _ (limbs_cons.mp ha).2 (by rw [← B64_eq]; exact hw) (by rw [← B64_eq]; exact hsum) (by simpa using hk)
      refine ⟨(addU64Carry (mulLo x w) carry 0).1 :: rs, cf, ?_, by simp [hl], limbs_cons.mpr ⟨by rw [← B64_eq]; exact ht, hlimbs⟩, hcf, ?_⟩
      · rw [mulLimbsU64_cons, ckAdd_ok hsum]
        show (mulLimbsU64 xs w k _ >>= _) = _
        rw [hrec]; rfl
      · simp only [toNat_cons, List.take_succ_cons, pow64_succ]
        linear_combination e1 + e2 + B64 * hval

theorem multiplyUintU64_eq (a : List Nat) (w n : Nat) : multiplyUintU64 a w n =
    if a.isEmpty ∨ w = 0 then .ok (List.replicate n 0)
    else if n = 1 then .ok [wMul (a.headD 0) w]
    else mulLimbsU64 a w (min a.length n) 0 >>= fun p =>
      if min a.length n < n then .ok (padTo (p.1 ++ [p.2]) n) else .ok p.1 := rfl

theorem toNat_mul_mod_B64 {a : List Nat} (w : Nat) : (toNat a * w) % B64 = (a.headD 0 * w) % B64 := by
  cases a with
  | nil => simp
  | cons x xs =>
    simp only [toNat_cons, List.headD_cons]
    rw [Nat.add_mul, Nat.mul_assoc, Nat.add_mul_mod_self_left]

theorem multiplyUintU64_spec {a : List Nat} {w n : Nat} (hn : 1 ≤ n) (ha : Limbs a) (hw : w < 2^64) :
    ∃ r, multiplyUintU64 a w n = .ok r ∧ r.length = n ∧ Limbs r ∧
      toNat r = (toNat a * w) % 2^(64*n) := by
  rw [multiplyUintU64_eq]
  by_cases h0 : a.isEmpty ∨ w = 0
  · rw [if_pos h0]
    refine ⟨_, rfl, List.length_replicate, Limbs.replicate_zero n, ?_⟩
    rw [toNat_replicate_zero]
    rcases h0 with h0 | h0
    · rw [List.isEmpty_iff.mp h0]; simp
    · rw [h0]; simp
  rw [if_neg h0]
  by_cases h1 : n = 1
  · rw [if_pos h1]
    subst h1
    refine ⟨_, rfl, rfl, ?_, ?_⟩
    · apply limbs_cons.mpr ⟨?_, Limbs.nil⟩
      unfold wMul; rw [← B64_eq]; exact Nat.mod_lt _ B64_pos
    · simp only [toNat_cons, toNat_nil, Nat.mul_zero, Nat.add_zero, Nat.mul_one]
      unfold wMul
      rw [← B64_eq, toNat_mul_mod_B64]
  rw [if_neg h1]
  obtain ⟨rs, cf, hrec, hl, hlimbs, hcf, hval⟩ := mulLimbsU64_spec a w (min a.length n) 0 ha hw (by norm_num) (Nat.min_le_left _ _)
  rw [hrec]
  show ∃ r, (if min a.length n < n then Except.ok (padTo (rs ++ [cf]) n) else Except.ok rs) = Except.ok r ∧ _
  by_cases hk : min a.length n < n
  · rw [if_pos hk]
    have hkl : min a.length n = a.length := by omega
    rw [hkl] at hl hval
    have hlen : (padTo (rs ++ [cf]) n).length = n := by
      unfold padTo; simp only [List.length_append, List.length_replicate, List.length_cons, List.length_nil, hl]; omega
    have hlim : Limbs (padTo (rs ++ [cf]) n) := by
      unfold padTo
      exact (hlimbs.append (limbs_cons.mpr ⟨hcf, Limbs.nil⟩)).append (Limbs.replicate_zero _)
    refine ⟨_, rfl, hlen, hlim, ?_⟩
    have hlt := toNat_lt' hlim
    rw [hlen] at hlt
    have hv : toNat (padTo (rs ++ [cf]) n) = toNat a * w := by
      unfold padTo
      rw [toNat_appendC, toNat_appendC, toNat_replicate_zero, hl]
      simp only [toNat_cons, toNat_nil, Nat.mul_zero, Nat.add_zero]
      rw [List.take_of_length_le (Nat.le_refl _)] at hval
      rw [hval, Nat.add_zero]
    rw [← hv, Nat.mod_eq_of_lt hlt]
  · rw [if_neg hk]
    have hkl : min a.length n = n := by omega
    rw [hkl] at hl hval
    refine ⟨_, rfl, hl, hlimbs, ?_⟩
    have hlt := toNat_lt' hlimbs
    rw [hl] at hlt
    have : toNat rs = (toNat rs + 2^(64*n) * cf) % 2^(64*n) := by
      rw [Nat.add_mul_mod_self_left, Nat.mod_eq_of_lt hlt]
    rw [this, hval, Nat.add_zero, toNat_take_mod ha, Nat.mod_mul_mod]

theorem toNat_take_lt {l : List Nat} (h : Limbs l) (i : Nat) : toNat (l.take i) < 2^(64*i) := by
  rw [toNat_take_mod h]; exact Nat.mod_lt _ (by positivity)

theorem cmp_go_zero (a b : List Nat) : compareUint.go a b 0 = 0 := rfl
theorem cmp_go_succ (a b : List Nat) (i : Nat) : compareUint.go a b (i+1) =
    if a.getD i 0 < b.getD i 0 then -1 else if a.getD i 0 > b.getD i 0 then 1 else compareUint.go a b i := rfl

theorem cmp_arith {A B P x y : Nat} (hA : A < P) (hB : B < P) :
    (if x < y then (-1 : Int) else if x > y then 1 else (if A < B then -1 else if A > B then 1 else 0)) =
    (if A + P * x < B + P * y then -1 else if A + P * x > B + P * y then 1 else 0) := by
  have h1 : x < y → P * x + P ≤ P * y := fun h => by
    rw [← Nat.mul_succ]; exact Nat.mul_le_mul_left _ h
  have h2 : y < x → P * y + P ≤ P * x := fun h => by
    rw [← Nat.mul_succ]; exact Nat.mul_le_mul_left _ h
  rcases Nat.lt_trichotomy x y with h | h | h
  · have := h1 h
    rw [if_pos h, if_pos (by omega)]
  · subst h
    rw [if_neg (Nat.lt_irrefl _), if_neg (Nat.lt_irrefl _)]
    split_ifs <;> omega
  · have := h2 h
    rw [if_neg (by omega), if_pos h, if_neg (by omega), if_pos (by omega)]

theorem cmp_go_spec {a b : List Nat} (ha : Limbs a) (hb : Limbs b) (i : Nat) :
    compareUint.go a b i = (if toNat (a.take i) < toNat (b.take i) then -1
      else if toNat (a.take i) > toNat (b.take i) then 1 else 0) := by
  induction i with
  | zero => simp [cmp_go_zero]
  | succ i ih =>
    rw [cmp_go_succ, ih, toNat_getD_split a i, toNat_getD_split b i]
    exact cmp_arith (toNat_take_lt ha i) (toNat_take_lt hb i)

theorem compareUint_eq (a b : List Nat) : compareUint a b = compareUint.go a b (max a.length b.length) := rfl

theorem compareUint_spec {a b : List Nat} (ha : Limbs a) (hb : Limbs b) :
    compareUint a b = (if toNat a < toNat b then -1 else if toNat a > toNat b then 1 else 0) := by
  rw [compareUint_eq, cmp_go_spec ha hb, List.take_of_length_le (Nat.le_max_left _ _),
    List.take_of_length_le (Nat.le_max_right _ _)]

theorem addUintMod_eq (a b m : List Nat) : addUintMod a b m =
    (addUint a b m.length >>= fun p =>
      if p.2 ≠ 0 ∨ geUint p.1 m then (subUint p.1 m m.length >>= fun q => pure q.1) else pure p.1) := rfl

theorem subUintMod_eq (a b m : List Nat) : subUintMod a b m =
    (subUint a b m.length >>= fun p =>
      if p.2 ≠ 0 then (addUint p.1 m m.length >>= fun q => pure q.1) else pure p.1) := rfl

theorem negateUintMod_eq (a m : List Nat) : negateUintMod a m =
    if a.all (· = 0) then pure (List.replicate m.length 0)
    else (subUint m a m.length >>= fun q => pure q.1) := rfl

theorem geUint_iff {a b : List Nat} (ha : Limbs a) (hb : Limbs b) : geUint a b = true ↔ toNat b ≤ toNat a := by
  unfold geUint
  rw [compareUint_spec ha hb]
  split_ifs <;> simp <;> omega

theorem addUintMod_spec {a b md : List Nat} (hn : 1 ≤ md.length) (ha : Limbs a) (hb : Limbs b) (hm : Limbs md)
    (hla : a.length = md.length) (hlb : b.length = md.length) (hax : toNat a < toNat md) (hbx : toNat b < toNat md) :
    ∃ r, addUintMod a b md = .ok r ∧ r.length = md.length ∧ Limbs r ∧ toNat r = (toNat a + toNat b) % toNat md := by
  obtain ⟨s, c, hs, hsl, hslim, hc, hsv⟩ := addUint_spec hn ha hb (by omega) (by omega)
  rw [addUintMod_eq, hs]
  show ∃ r, (if c ≠ 0 ∨ geUint s md then (subUint s md md.length >>= fun q => pure q.1) else pure s) = Except.ok r ∧ _
  rw [List.take_of_length_le (l := a) (by omega), List.take_of_length_le (l := b) (by omega)] at hsv
  have hM := toNat_lt' hm
  have hS := toNat_lt' hslim
  rw [hsl] at hS
  by_cases hcond : c ≠ 0 ∨ geUint s md
  · rw [if_pos hcond]
    obtain ⟨d, c', hd, hdl, hdlim, hc', hdv⟩ := subUint_spec hn hslim hm (by omega) (Nat.le_refl _)
    rw [hd]
    refine ⟨d, rfl, hdl, hdlim, ?_⟩
    rw [List.take_of_length_le (l := s) (by omega), List.take_of_length_le (l := md) (Nat.le_refl _)] at hdv
    have hD := toNat_lt' hdlim
    rw [hdl] at hD
    have hge : toNat md ≤ toNat a + toNat b := by
      rcases hcond with h | h
      · have : c = 1 := by omega
        subst this; omega
      · have := (geUint_iff hslim hm).mp h
        have : 0 ≤ 2 ^ (64 * md.length) * c := Nat.zero_le _
        omega
    have hval : toNat d = toNat a + toNat b - toNat md := by
      have hc1 : c = 0 ∨ c = 1 := by omega
      have hc2 : c' = 0 ∨ c' = 1 := by omega
      rcases hc1 with rfl | rfl <;> rcases hc2 with rfl | rfl <;> omega
    rw [hval, Nat.mod_eq_sub_mod hge, Nat.mod_eq_of_lt (by omega)]
  · rw [if_neg hcond]
    have hc0 : c = 0 := by
      by_contra h; exact hcond (Or.inl h)
    have hlt : toNat s < toNat md := by
      by_contra h
      exact hcond (Or.inr ((geUint_iff hslim hm).mpr (by omega)))
    subst hc0
    refine ⟨s, rfl, hsl, hslim, ?_⟩
    rw [Nat.mod_eq_of_lt (by omega)]; omega

theorem subUintMod_spec {a b md : List Nat} (hn : 1 ≤ md.length) (ha : Limbs a) (hb : Limbs b) (hm : Limbs md)
    (hla : a.length = md.length) (hlb : b.length = md.length) (hax : toNat a < toNat md) (hbx : toNat b < toNat md) :
    ∃ r, subUintMod a b md = .ok r ∧ r.length = md.length ∧ Limbs r ∧ toNat r = (toNat a + toNat md - toNat b) % toNat md := by
  obtain ⟨d, c, hd, hdl, hdlim, hc, hdv⟩ := subUint_spec hn ha hb (by omega) (by omega)
  rw [subUintMod_eq, hd]
  show ∃ r, (if c ≠ 0 then (addUint d md md.length >>= fun q => pure q.1) else pure d) = Except.ok r ∧ _
  rw [List.take_of_length_le (l := a) (by omega), List.take_of_length_le (l := b) (by omega)] at hdv
  have hM := toNat_lt' hm
  have hD := toNat_lt' hdlim
  rw [hdl] at hD
  by_cases hcond : c ≠ 0
  · rw [if_pos hcond]
    obtain ⟨s, c', hs, hsl, hslim, hc', hsv⟩ := addUint_spec hn hdlim hm (by omega) (Nat.le_refl _)
    rw [hs]
    refine ⟨s, rfl, hsl, hslim, ?_⟩
    rw [List.take_of_length_le (l := d) (by omega), List.take_of_length_le (l := md) (Nat.le_refl _)] at hsv
    have hS := toNat_lt' hslim
    rw [hsl] at hS
    have hc1 : c = 1 := by omega
    subst hc1
    have hval : toNat s = toNat a + toNat md - toNat b := by
      have hc2 : c' = 0 ∨ c' = 1 := by omega
      rcases hc2 with rfl | rfl <;> omega
    rw [hval, Nat.mod_eq_of_lt (by omega)]
  · rw [if_neg hcond]
    have hc0 : c = 0 := by omega
    subst hc0
    refine ⟨d, rfl, hdl, hdlim, ?_⟩
    have hge : toNat md ≤ toNat a + toNat md - toNat b := by omega
    rw [Nat.mod_eq_sub_mod hge, Nat.mod_eq_of_lt (by omega)]; omega

theorem all_zero_iff (a : List Nat) : a.all (· = 0) = true ↔ toNat a = 0 := by
  rw [toNat_eq_zero_iff]; simp

theorem negateUintMod_spec {a md : List Nat} (hn : 1 ≤ md.length) (ha : Limbs a) (hm : Limbs md)
    (hla : a.length = md.length) (hax : toNat a < toNat md) :
    ∃ r, negateUintMod a md = .ok r ∧ r.length = md.length ∧ Limbs r ∧ toNat r = (toNat md - toNat a) % toNat md := by
  rw [negateUintMod_eq]
  by_cases h0 : a.all (· = 0) = true
  · rw [if_pos h0]
    refine ⟨_, rfl, List.length_replicate, Limbs.replicate_zero _, ?_⟩
    rw [toNat_replicate_zero, (all_zero_iff a).mp h0, Nat.sub_zero, Nat.mod_self]
  · rw [if_neg h0]
    have hne : toNat a ≠ 0 := fun h => h0 ((all_zero_iff a).mpr h)
    obtain ⟨d, c, hd, hdl, hdlim, hc, hdv⟩ := subUint_spec hn hm ha (Nat.le_refl _) (by omega)
    rw [hd]
    refine ⟨d, rfl, hdl, hdlim, ?_⟩
    rw [List.take_of_length_le (l := a) (by omega), List.take_of_length_le (l := md) (Nat.le_refl _)] at hdv
    have hM := toNat_lt' hm
    have hD := toNat_lt' hdlim
    rw [hdl] at hD
    have hc1 : c = 0 ∨ c = 1 := by omega
    rw [Nat.mod_eq_of_lt (by omega)]
    rcases hc1 with rfl | rfl <;> omega

theorem mulManyLoop_nil (k i : Nat) (res : List Nat) : mulManyLoop k [] i res = .ok res := rfl
theorem mulManyLoop_cons (k w : Nat) (ws : List Nat) (i : Nat) (res : List Nat) :
    mulManyLoop k (w :: ws) i res =
      (multiplyUintU64 res w k >>= fun tmp => mulManyLoop k ws (i+1) (tmp.take (i+1) ++ res.drop (i+1))) := rfl

theorem mulManyLoop_spec (k n : Nat) (ws : List Nat) : ∀ (i : Nat) (res : List Nat),
    i + ws.length = k → k ≤ n → 1 ≤ i → res.length = n → Limbs res → Limbs ws → toNat res < 2^(64*i) →
    ∃ r, mulManyLoop k ws i res = .ok r ∧ r.length = n ∧ Limbs r ∧ toNat r = ws.foldl (· * ·) (toNat res) := by
  induction ws with
  | nil => intro i res _ _ _ hl hlim _ _; exact ⟨res, rfl, hl, hlim, rfl⟩
  | cons w ws ih =>
    intro i res hik hkn hi hl hlim hws hV
    have hw := (limbs_cons.mp hws).1
    simp only [List.length_cons] at hik
    obtain ⟨tmp, htmp, htl, htlim, htv⟩ := multiplyUintU64_spec (a := res) (w := w) (n := k) (by omega) hlim hw
    rw [mulManyLoop_cons, htmp]
    show ∃ r, mulManyLoop k ws (i+1) (tmp.take (i+1) ++ res.drop (i+1)) = .ok r ∧ _
    have hVw : toNat res * w < 2^(64*(i+1)) := by
      rw [pow64_succ, Nat.mul_comm B64, B64_eq]
      exact Nat.mul_lt_mul'' hV hw
    have hle : 2^(64*(i+1)) ≤ 2^(64*k) := Nat.pow_le_pow_right (by norm_num) (by omega)
    rw [Nat.mod_eq_of_lt (by omega)] at htv
    have hdrop : toNat (res.drop (i+1)) = 0 := by
      rw [toNat_drop_div hlim]
      apply Nat.div_eq_of_lt
      have : 2^(64*i) ≤ 2^(64*(i+1)) := Nat.pow_le_pow_right (by norm_num) (by omega)
      omega
    have hnew : toNat (tmp.take (i+1) ++ res.drop (i+1)) = toNat res * w := by
      rw [toNat_appendC, hdrop, Nat.mul_zero, Nat.add_zero, toNat_take_mod htlim, htv, Nat.mod_eq_of_lt hVw]
    obtain ⟨r, hr, hrl, hrlim, hrv⟩ := ih (i+1) (tmp.take (i+1) ++ res.drop (i+1)) (by omega) hkn (by omega)
      (by rw [List.length_append, List.length_take, List.length_drop]; omega)
      ((htlim.take _).append (hlim.drop _)) (limbs_cons.mp hws).2 (by rw [hnew]; exact hVw)
    refine ⟨r, hr, hrl, hrlim, ?_⟩
    rw [hrv, hnew, List.foldl_cons]

theorem multiplyManyU64_cons (o0 : Nat) (rest : List Nat) (n : Nat) : multiplyManyU64 (o0 :: rest) n =
    if n < (o0 :: rest).length then .error .oob
    else mulManyLoop (o0 :: rest).length rest 1 (o0 :: List.replicate (n-1) 0) := rfl

theorem multiplyManyU64_spec {ops : List Nat} {n : Nat} (hne : ops ≠ []) (ho : Limbs ops) (hn : ops.length ≤ n) :
    ∃ r, multiplyManyU64 ops n = .ok r ∧ r.length = n ∧ Limbs r ∧ toNat r = ops.foldl (· * ·) 1 := by
  cases ops with
  | nil => exact absurd rfl hne
  | cons o0 rest =>
    rw [multiplyManyU64_cons, if_neg (by omega)]
    have ho0 := (limbs_cons.mp ho).1
    simp only [List.length_cons] at hn
    have hv : toNat (o0 :: List.replicate (n-1) 0) = o0 := by
      rw [toNat_cons, toNat_replicate_zero, Nat.mul_zero, Nat.add_zero]
    obtain ⟨r, hr, hrl, hrlim, hrv⟩ := mulManyLoop_spec (o0 :: rest).length n rest 1 (o0 :: List.replicate (n-1) 0)
      (by simp only [List.length_cons]; omega) (by simp only [List.length_cons]; omega) (Nat.le_refl _)
      (by simp only [List.length_cons, List.length_replicate]; omega)
      (limbs_cons.mpr ⟨ho0, Limbs.replicate_zero _⟩) (limbs_cons.mp ho).2 (by rw [hv]; simpa using ho0)
    refine ⟨r, hr, hrl, hrlim, ?_⟩
    rw [hrv, hv, List.foldl_cons, Nat.one_mul]

theorem sh_B64_split {bs : Nat} (h : bs < 64) : B64 = 2^(64-bs) * 2^bs := by
  rw [B64_eq, ← pow_add]; congr 1; omega

theorem sh_mul_div {x bs : Nat} (h : bs < 64) : x * 2^bs / B64 = x / 2^(64-bs) := by
  rw [sh_B64_split h, Nat.mul_div_mul_right _ _ (by positivity)]

theorem sh_mul_mod {x bs : Nat} (h : bs < 64) : x * 2^bs % B64 = x % 2^(64-bs) * 2^bs := by
  rw [sh_B64_split h, Nat.mul_mod_mul_right]

theorem sh_shl_limb {x p bs : Nat} (hb : bs < 64) (hp : p < B64) :
    x * 2^bs % B64 + p / 2^(64-bs) < 2^64 := by
  rw [sh_mul_mod hb, ← B64_eq]
  have h1 : p / 2^(64-bs) < 2^bs := by
    rw [Nat.div_lt_iff_lt_mul (by positivity)]; rw [sh_B64_split hb] at hp; rw [Nat.mul_comm]; exact hp
  have h2 : x % 2^(64-bs) + 1 ≤ 2^(64-bs) := Nat.mod_lt _ (by positivity)
  have h3 := Nat.mul_le_mul_right (2^bs) h2
  rw [← sh_B64_split hb, Nat.add_mul] at h3
  omega

theorem sh_shl_split {x bs : Nat} (hb : bs < 64) :
    x * 2^bs = x * 2^bs % B64 + B64 * (x / 2^(64-bs)) := by
  rw [← sh_mul_div hb]; exact (Nat.mod_add_div _ _).symm

def sh_shl (bs : Nat) : Nat → List Nat → List Nat
  | _, [] => []
  | p, x :: xs => ((x * 2^bs) % B64 + p / 2^(64-bs)) :: sh_shl bs x xs

theorem sh_shl_length (bs : Nat) (l : List Nat) : ∀ p, (sh_shl bs p l).length = l.length := by
  induction l with
  | nil => intro p; rfl
  | cons x xs ih => intro p; simp only [sh_shl, List.length_cons, ih]

theorem sh_shl_limbs {bs : Nat} (hb : bs < 64) {l : List Nat} (hl : Limbs l) :
    ∀ p, p < B64 → Limbs (sh_shl bs p l) := by
  induction l with
  | nil => intro p _; exact Limbs.nil
  | cons x xs ih =>
    intro p hp
    have hx : x < B64 := by rw [B64_eq]; exact (limbs_cons.mp hl).1
    simp only [sh_shl]
    exact limbs_cons.mpr ⟨sh_shl_limb hb hp, ih (limbs_cons.mp hl).2 x hx⟩

theorem sh_shl_val {bs : Nat} (hb : bs < 64) (l : List Nat) :
    ∀ p, ∃ c, toNat (sh_shl bs p l) + 2^(64*l.length) * c = toNat l * 2^bs + p / 2^(64-bs) := by
  induction l with
  | nil => intro p; exact ⟨p / 2^(64-bs), by simp [sh_shl]⟩
  | cons x xs ih =>
    intro p
    obtain ⟨c, hc⟩ := ih x
    refine ⟨c, ?_⟩
    have hx := (sh_shl_split (x := x) hb).symm
    simp only [sh_shl, toNat_cons, List.length_cons, pow64_succ]
    linear_combination B64 * hc + hx

theorem sh_shl_spec {bs : Nat} (hb : bs < 64) {l : List Nat} (hl : Limbs l) :
    toNat (sh_shl bs 0 l) = (toNat l * 2^bs) % 2^(64*l.length) := by
  obtain ⟨c, hc⟩ := sh_shl_val hb l 0
  have hlt := toNat_lt' (sh_shl_limbs hb hl 0 B64_pos)
  rw [sh_shl_length] at hlt
  rw [Nat.zero_div, Nat.add_zero] at hc
  rw [← hc, Nat.add_mul_mod_self_left, Nat.mod_eq_of_lt hlt]
theorem sh_B64_split2 {bs : Nat} (h : bs < 64) : B64 = 2^bs * 2^(64-bs) := by
  rw [sh_B64_split h, Nat.mul_comm]

theorem sh_shr_mod {y bs : Nat} (h : bs < 64) : y * 2^(64-bs) % B64 = y % 2^bs * 2^(64-bs) := by
  rw [sh_B64_split2 h, Nat.mul_mod_mul_right]

theorem sh_headD_mod {bs : Nat} (h : bs < 64) (l : List Nat) : toNat l % 2^bs = l.headD 0 % 2^bs := by
  cases l with
  | nil => rfl
  | cons x xs =>
    simp only [toNat_cons, List.headD_cons]
    rw [sh_B64_split2 h, Nat.mul_assoc, Nat.add_mul_mod_self_left]

theorem sh_shr_limb {x y bs : Nat} (hb : bs < 64) (hx : x < B64) :
    x / 2^bs + y * 2^(64-bs) % B64 < 2^64 := by
  rw [sh_shr_mod hb, ← B64_eq]
  have h1 : x / 2^bs < 2^(64-bs) := by
    rw [Nat.div_lt_iff_lt_mul (by positivity)]; rw [sh_B64_split hb] at hx; exact hx
  have h2 : y % 2^bs + 1 ≤ 2^bs := Nat.mod_lt _ (by positivity)
  have h3 := Nat.mul_le_mul_right (2^(64-bs)) h2
  rw [← sh_B64_split2 hb, Nat.add_mul] at h3
  omega

def sh_shr (bs : Nat) : List Nat → List Nat
  | [] => []
  | x :: xs => (x / 2^bs + (xs.headD 0 * 2^(64-bs)) % B64) :: sh_shr bs xs

theorem sh_shr_length (bs : Nat) (l : List Nat) : (sh_shr bs l).length = l.length := by
  induction l with
  | nil => rfl
  | cons x xs ih => simp only [sh_shr, List.length_cons, ih]

theorem sh_shr_limbs {bs : Nat} (hb : bs < 64) {l : List Nat} (hl : Limbs l) : Limbs (sh_shr bs l) := by
  induction l with
  | nil => exact Limbs.nil
  | cons x xs ih =>
    have hx : x < B64 := by rw [B64_eq]; exact (limbs_cons.mp hl).1
    simp only [sh_shr]
    exact limbs_cons.mpr ⟨sh_shr_limb hb hx, ih (limbs_cons.mp hl).2⟩

theorem sh_shr_spec {bs : Nat} (hb : bs < 64) (l : List Nat) : toNat (sh_shr bs l) = toNat l / 2^bs := by
  induction l with
  | nil => simp [sh_shr]
  | cons x xs ih =>
    simp only [sh_shr, toNat_cons, ih]
    have e1 : (x + B64 * toNat xs) / 2^bs = x / 2^bs + 2^(64-bs) * toNat xs := by
      rw [sh_B64_split2 hb, Nat.mul_assoc, Nat.add_mul_div_left _ _ (by positivity)]
    rw [e1, sh_shr_mod hb, ← sh_headD_mod hb]
    have hdm := Nat.div_add_mod (toNat xs) (2^bs)
    have hB := sh_B64_split hb
    linear_combination 2^(64-bs) * hdm + (toNat xs / 2^bs) * hB

theorem sh_range_shl (bs : Nat) (l : List Nat) : ∀ p,
    (List.range l.length).map (fun i => (l.getD i 0 * 2^bs) % B64 +
      (if i = 0 then p else l.getD (i-1) 0) / 2^(64-bs)) = sh_shl bs p l := by
  induction l with
  | nil => intro p; rfl
  | cons x xs ih =>
    intro p
    rw [List.length_cons, List.range_succ_eq_map, List.map_cons, List.map_map, sh_shl, ← ih x]
    congr 1
    apply List.map_congr_left
    intro i _
    cases i with
    | zero => simp
    | succ j => simp

theorem sh_range_shr (bs : Nat) : ∀ (n : Nat) (l : List Nat), n ≤ l.length →
    (List.range n).map (fun i => l.getD i 0 / 2^bs +
      (if i + 1 < n then (l.getD (i+1) 0 * 2^(64-bs)) % B64 else 0)) = sh_shr bs (l.take n) := by
  intro n
  induction n with
  | zero => intro l _; rfl
  | succ n ih =>
    intro l hl
    cases l with
    | nil => simp at hl
    | cons x xs =>
      have hl' : n ≤ xs.length := by simpa using hl
      rw [List.range_succ_eq_map, List.map_cons, List.map_map, List.take_succ_cons, sh_shr, ← ih xs hl']
      congr 1
      · cases n with
        | zero => simp
        | succ m => cases xs with
          | nil => simp at hl'
          | cons y ys => simp
      · apply List.map_congr_left
        intro i _
        simp

theorem sh_lsu_eq (a : List Nat) (s cnt : Nat) (h1 : ¬ a.length < cnt) (h2 : ¬ s / 64 > cnt) :
    leftShiftUint a s cnt =
      if s % 64 = 0 then .ok (List.replicate (s/64) 0 ++ a.take (cnt - s/64))
      else .ok ((List.range cnt).map (fun i =>
        ((List.replicate (s/64) 0 ++ a.take (cnt - s/64)).getD i 0 * 2^(s%64)) % B64 +
          (if i = 0 then 0 else (List.replicate (s/64) 0 ++ a.take (cnt - s/64)).getD (i-1) 0) / 2^(64 - s%64))) := by
  unfold leftShiftUint
  rw [if_neg h1, if_neg h2]
  rfl

theorem sh_rsu_eq (a : List Nat) (s cnt : Nat) (h1 : ¬ a.length < cnt) (h2 : ¬ s / 64 > cnt) (h3 : ¬ cnt = 0) :
    rightShiftUint a s cnt =
      if s % 64 = 0 then .ok ((a.take cnt).drop (s/64) ++ List.replicate (s/64) 0)
      else .ok ((List.range cnt).map (fun i =>
        ((a.take cnt).drop (s/64) ++ List.replicate (s/64) 0).getD i 0 / 2^(s%64) +
          (if i + 1 < cnt then (((a.take cnt).drop (s/64) ++ List.replicate (s/64) 0).getD (i+1) 0 * 2^(64 - s%64)) % B64 else 0))) := by
  unfold rightShiftUint
  rw [if_neg h1, if_neg h2]
  simp only [if_neg h3]
  rfl

theorem sh_moved_left {a : List Nat} (ha : Limbs a) {cnt ws : Nat} (hl : cnt ≤ a.length) (hws : ws ≤ cnt) :
    (List.replicate ws 0 ++ a.take (cnt - ws)).length = cnt ∧
    Limbs (List.replicate ws 0 ++ a.take (cnt - ws)) ∧
    toNat (List.replicate ws 0 ++ a.take (cnt - ws)) = (toNat (a.take cnt) * 2^(64*ws)) % 2^(64*cnt) := by
  refine ⟨?_, (Limbs.replicate_zero ws).append (ha.take _), ?_⟩
  · rw [List.length_append, List.length_replicate, List.length_take]; omega
  · rw [toNat_appendC, toNat_replicate_zero, List.length_replicate, toNat_take_mod ha, toNat_take_mod ha,
      Nat.zero_add, Nat.mod_mul_mod]
    have e : 2^(64*cnt) = 2^(64*ws) * 2^(64*(cnt-ws)) := by
      rw [← pow_add]; congr 1; omega
    rw [e, Nat.mul_comm (toNat a), Nat.mul_mod_mul_left]

theorem sh_moved_right {a : List Nat} (ha : Limbs a) {cnt ws : Nat} (hl : cnt ≤ a.length) (hws : ws ≤ cnt) :
    ((a.take cnt).drop ws ++ List.replicate ws 0).length = cnt ∧
    Limbs ((a.take cnt).drop ws ++ List.replicate ws 0) ∧
    toNat ((a.take cnt).drop ws ++ List.replicate ws 0) = toNat (a.take cnt) / 2^(64*ws) := by
  refine ⟨?_, ((ha.take _).drop _).append (Limbs.replicate_zero ws), ?_⟩
  · rw [List.length_append, List.length_replicate, List.length_drop, List.length_take]; omega
  · rw [toNat_appendC, toNat_replicate_zero, Nat.mul_zero, Nat.add_zero, toNat_drop_div (ha.take _)]

theorem sh_pow_s (s : Nat) : 2^s = 2^(64*(s/64)) * 2^(s%64) := by
  rw [← pow_add, Nat.div_add_mod]

theorem leftShiftUint_spec {a : List Nat} {s cnt : Nat} (ha : Limbs a) (hl : cnt ≤ a.length) (hs : s < 64 * cnt) :
    ∃ r, leftShiftUint a s cnt = .ok r ∧ r.length = cnt ∧ Limbs r ∧
      toNat r = (toNat (a.take cnt) * 2^s) % 2^(64*cnt) := by
  have hws : s / 64 ≤ cnt := by omega
  obtain ⟨m1, m2, m3⟩ := sh_moved_left ha hl hws
  rw [sh_lsu_eq a s cnt (by omega) (by omega)]
  by_cases hb : s % 64 = 0
  · rw [if_pos hb]
    refine ⟨_, rfl, m1, m2, ?_⟩
    rw [m3, sh_pow_s s, hb, pow_zero, Nat.mul_one]
  · rw [if_neg hb]
    have hb64 : s % 64 < 64 := Nat.mod_lt _ (by norm_num)
    have hr := sh_range_shl (s % 64) (List.replicate (s/64) 0 ++ a.take (cnt - s/64)) 0
    rw [m1] at hr
    refine ⟨_, rfl, ?_, ?_, ?_⟩
    · rw [List.length_map, List.length_range]
    · rw [hr]; exact sh_shl_limbs hb64 m2 0 B64_pos
    · rw [hr, sh_shl_spec hb64 m2, m1, m3, Nat.mod_mul_mod, sh_pow_s s, Nat.mul_assoc]

theorem rightShiftUint_spec {a : List Nat} {s cnt : Nat} (ha : Limbs a) (hl : cnt ≤ a.length) (hs : s < 64 * cnt) :
    ∃ r, rightShiftUint a s cnt = .ok r ∧ r.length = cnt ∧ Limbs r ∧
      toNat r = toNat (a.take cnt) / 2^s := by
  have hws : s / 64 ≤ cnt := by omega
  obtain ⟨m1, m2, m3⟩ := sh_moved_right ha hl hws
  rw [sh_rsu_eq a s cnt (by omega) (by omega) (by omega)]
  by_cases hb : s % 64 = 0
  · rw [if_pos hb]
    refine ⟨_, rfl, m1, m2, ?_⟩
    rw [m3, sh_pow_s s, hb, pow_zero, Nat.mul_one]
  · rw [if_neg hb]
    have hb64 : s % 64 < 64 := Nat.mod_lt _ (by norm_num)
    have hr := sh_range_shr (s % 64) cnt ((a.take cnt).drop (s/64) ++ List.replicate (s/64) 0) (Nat.le_of_eq m1.symm)
    rw [List.take_of_length_le (l := (a.take cnt).drop (s/64) ++ List.replicate (s/64) 0) (Nat.le_of_eq m1)] at hr
    refine ⟨_, rfl, ?_, ?_, ?_⟩
    · rw [List.length_map, List.length_range]
    · rw [hr]; exact sh_shr_limbs hb64 m2
    · rw [hr, sh_shr_spec hb64, m3, Nat.div_div_eq_div_mul, ← sh_pow_s s]
def sh_lbody (r0 r1 r2 bs : Nat) : R (List Nat) :=
  if bs = 0 then .ok [r0, r1, r2]
  else .ok [ (r0 * 2^bs) % B64, (r1 * 2^bs) % B64 + r0 / 2^(64-bs), (r2 * 2^bs) % B64 + r1 / 2^(64-bs) ]

def sh_rbody (r0 r1 r2 bs : Nat) : R (List Nat) :=
  if bs = 0 then .ok [r0, r1, r2]
  else .ok [ r0 / 2^bs + (r1 * 2^(64-bs)) % B64, r1 / 2^bs + (r2 * 2^(64-bs)) % B64, r2 / 2^bs ]

theorem sh_l192_eq (a0 a1 a2 s : Nat) : leftShiftU192 [a0, a1, a2] s =
    if s / 128 % 2 = 1 then sh_lbody 0 0 a0 (s % 64)
    else if s / 64 % 2 = 1 then sh_lbody 0 a0 a1 (s % 64)
    else sh_lbody a0 a1 a2 (s % 64) := by
  unfold leftShiftU192
  rw [if_neg (by simp)]
  split_ifs <;> rfl

theorem sh_r192_eq (a0 a1 a2 s : Nat) : rightShiftU192 [a0, a1, a2] s =
    if s / 128 % 2 = 1 then sh_rbody a2 0 0 (s % 64)
    else if s / 64 % 2 = 1 then sh_rbody a1 a2 0 (s % 64)
    else sh_rbody a0 a1 a2 (s % 64) := by
  unfold rightShiftU192
  rw [if_neg (by simp)]
  split_ifs <;> rfl

theorem sh_lbody_spec {r0 r1 r2 bs ws s V : Nat} (hL : Limbs [r0, r1, r2])
    (hv : toNat [r0, r1, r2] = (V * 2^(64*ws)) % 2^(64*3)) (hs : s = 64 * ws + bs) (hb : bs < 64) :
    ∃ r, sh_lbody r0 r1 r2 bs = .ok r ∧ r.length = 3 ∧ Limbs r ∧ toNat r = (V * 2^s) % 2^(64*3) := by
  unfold sh_lbody
  have hp : 2^s = 2^(64*ws) * 2^bs := by rw [hs, pow_add]
  by_cases h0 : bs = 0
  · rw [if_pos h0]
    refine ⟨_, rfl, rfl, hL, ?_⟩
    rw [hv, hp, h0, pow_zero, Nat.mul_one]
  · rw [if_neg h0]
    have e : [ (r0 * 2^bs) % B64, (r1 * 2^bs) % B64 + r0 / 2^(64-bs), (r2 * 2^bs) % B64 + r1 / 2^(64-bs) ]
        = sh_shl bs 0 [r0, r1, r2] := by simp [sh_shl]
    rw [e]
    refine ⟨_, rfl, by rw [sh_shl_length]; rfl, sh_shl_limbs hb hL 0 B64_pos, ?_⟩
    rw [sh_shl_spec hb hL, hv, hp]
    show (V * 2 ^ (64 * ws) % 2 ^ (64 * 3) * 2 ^ bs) % 2 ^ (64 * 3) = _
    rw [Nat.mod_mul_mod, Nat.mul_assoc]

theorem sh_rbody_spec {r0 r1 r2 bs ws s V : Nat} (hL : Limbs [r0, r1, r2])
    (hv : toNat [r0, r1, r2] = V / 2^(64*ws)) (hs : s = 64 * ws + bs) (hb : bs < 64) :
    ∃ r, sh_rbody r0 r1 r2 bs = .ok r ∧ r.length = 3 ∧ Limbs r ∧ toNat r = V / 2^s := by
  unfold sh_rbody
  have hp : 2^s = 2^(64*ws) * 2^bs := by rw [hs, pow_add]
  by_cases h0 : bs = 0
  · rw [if_pos h0]
    refine ⟨_, rfl, rfl, hL, ?_⟩
    rw [hv, hp, h0, pow_zero, Nat.mul_one]
  · rw [if_neg h0]
    have e : [ r0 / 2^bs + (r1 * 2^(64-bs)) % B64, r1 / 2^bs + (r2 * 2^(64-bs)) % B64, r2 / 2^bs ]
        = sh_shr bs [r0, r1, r2] := by simp [sh_shr]
    rw [e]
    refine ⟨_, rfl, by rw [sh_shr_length]; rfl, sh_shr_limbs hb hL, ?_⟩
    rw [sh_shr_spec hb, hv, hp, Nat.div_div_eq_div_mul]

theorem sh_len3 {a : List Nat} (hl : a.length = 3) : ∃ a0 a1 a2, a = [a0, a1, a2] := by
  match a, hl with
  | [a0, a1, a2], _ => exact ⟨a0, a1, a2, rfl⟩

theorem leftShiftU192_spec {a : List Nat} {s : Nat} (ha : Limbs a) (hl : a.length = 3) (hs : s < 192) :
    ∃ r, leftShiftU192 a s = .ok r ∧ r.length = 3 ∧ Limbs r ∧ toNat r = (toNat a * 2^s) % 2^192 := by
  obtain ⟨a0, a1, a2, rfl⟩ := sh_len3 hl
  have hs' : s = 64 * (s / 64) + s % 64 := (Nat.div_add_mod s 64).symm
  have hb : s % 64 < 64 := Nat.mod_lt _ (by norm_num)
  rw [sh_l192_eq]
  have hc : s / 64 = 0 ∨ s / 64 = 1 ∨ s / 64 = 2 := by omega
  have e192 : (2:Nat)^192 = 2^(64*3) := by norm_num
  rw [e192]
  rcases hc with h | h | h
  · rw [if_neg (by omega), if_neg (by omega)]
    obtain ⟨_, m2, m3⟩ := sh_moved_left ha (cnt := 3) (ws := 0) (by simp) (by norm_num)
    rw [h] at hs'
    exact sh_lbody_spec m2 m3 hs' hb
  · rw [if_neg (by omega), if_pos (by omega)]
    obtain ⟨_, m2, m3⟩ := sh_moved_left ha (cnt := 3) (ws := 1) (by simp) (by norm_num)
    rw [h] at hs'
    exact sh_lbody_spec m2 m3 hs' hb
  · rw [if_pos (by omega)]
    obtain ⟨_, m2, m3⟩ := sh_moved_left ha (cnt := 3) (ws := 2) (by simp) (by norm_num)
    rw [h] at hs'
    exact sh_lbody_spec m2 m3 hs' hb

theorem rightShiftU192_spec {a : List Nat} {s : Nat} (ha : Limbs a) (hl : a.length = 3) (hs : s < 192) :
    ∃ r, rightShiftU192 a s = .ok r ∧ r.length = 3 ∧ Limbs r ∧ toNat r = toNat a / 2^s := by
  obtain ⟨a0, a1, a2, rfl⟩ := sh_len3 hl
  have hs' : s = 64 * (s / 64) + s % 64 := (Nat.div_add_mod s 64).symm
  have hb : s % 64 < 64 := Nat.mod_lt _ (by norm_num)
  rw [sh_r192_eq]
  have hc : s / 64 = 0 ∨ s / 64 = 1 ∨ s / 64 = 2 := by omega
  rcases hc with h | h | h
  · rw [if_neg (by omega), if_neg (by omega)]
    obtain ⟨_, m2, m3⟩ := sh_moved_right ha (cnt := 3) (ws := 0) (by simp) (by norm_num)
    rw [h] at hs'
    exact sh_rbody_spec m2 m3 hs' hb
  · rw [if_neg (by omega), if_pos (by omega)]
    obtain ⟨_, m2, m3⟩ := sh_moved_right ha (cnt := 3) (ws := 1) (by simp) (by norm_num)
    rw [h] at hs'
    exact sh_rbody_spec m2 m3 hs' hb
  · rw [if_pos (by omega)]
    obtain ⟨_, m2, m3⟩ := sh_moved_right ha (cnt := 3) (ws := 2) (by simp) (by norm_num)
    rw [h] at hs'
    exact sh_rbody_spec m2 m3 hs' hb

def sh_hsh (a : List Nat) (n : Nat) : List Nat :=
  (List.range n).map fun i =>
    a.getD i 0 / 2 + (if i + 1 < n then (a.getD (i+1) 0 % 2) * 2^63 else 0)

theorem sh_hru_eq (a : List Nat) (n : Nat) (h1 : ¬ n = 0) (h2 : ¬ a.length < n) :
    halfRoundUp a n =
      if a.headD 0 % 2 = 1 then (do let (r, _) ← addUintU64 (sh_hsh a n) 1 n; pure r)
      else pure (sh_hsh a n) := by
  unfold halfRoundUp
  rw [if_neg h1, if_neg h2]
  rfl

theorem sh_hsh_eq {a : List Nat} {n : Nat} (hl : n ≤ a.length) : sh_hsh a n = sh_shr 1 (a.take n) := by
  rw [← sh_range_shr 1 n a hl]
  unfold sh_hsh
  apply List.map_congr_left
  intro i _
  rw [sh_shr_mod (by norm_num : 1 < 64), pow_one]

theorem sh_head_take {a : List Nat} {n : Nat} (hn : 1 ≤ n) : (a.take n).headD 0 = a.headD 0 := by
  cases n with
  | zero => omega
  | succ m => cases a <;> simp

theorem halfRoundUp_spec {a : List Nat} {n : Nat} (hn : 1 ≤ n) (ha : Limbs a) (hl : n ≤ a.length) :
    ∃ r, halfRoundUp a n = .ok r ∧ r.length = n ∧ Limbs r ∧
      toNat r = ((toNat (a.take n) + 1) / 2) % 2^(64*n) := by
  rw [sh_hru_eq a n (by omega) (by omega)]
  have hlen : (sh_hsh a n).length = n := by
    rw [sh_hsh_eq hl, sh_shr_length, List.length_take]; omega
  have hlim : Limbs (sh_hsh a n) := by
    rw [sh_hsh_eq hl]; exact sh_shr_limbs (by norm_num) (ha.take n)
  have hval : toNat (sh_hsh a n) = toNat (a.take n) / 2 := by
    rw [sh_hsh_eq hl, sh_shr_spec (by norm_num), pow_one]
  have hlt := toNat_lt' hlim
  rw [hlen] at hlt
  have hlow : a.headD 0 % 2 = toNat (a.take n) % 2 := by
    have := sh_headD_mod (bs := 1) (by norm_num) (a.take n)
    rw [pow_one, sh_head_take hn] at this
    exact this.symm
  by_cases hb : a.headD 0 % 2 = 1
  · rw [if_pos hb]
    obtain ⟨r, c, e, r1, r2, _, r4⟩ := addUintU64_spec (a := sh_hsh a n) (w := 1) (n := n) hn hlim (by norm_num)
      (Nat.le_of_eq hlen.symm)
    rw [e]
    refine ⟨r, rfl, r1, r2, ?_⟩
    have rlt := toNat_lt' r2
    rw [r1] at rlt
    rw [List.take_of_length_le (Nat.le_of_eq hlen), hval] at r4
    have e2 : (toNat (a.take n) + 1) / 2 = toNat (a.take n) / 2 + 1 := by omega
    rw [e2, ← r4, Nat.add_mul_mod_self_left, Nat.mod_eq_of_lt rlt]
  · rw [if_neg hb]
    refine ⟨_, rfl, hlen, hlim, ?_⟩
    have e2 : (toNat (a.take n) + 1) / 2 = toNat (a.take n) / 2 := by omega
    rw [e2, ← hval, Nat.mod_eq_of_lt hlt]

theorem mu_ckAdd_ok {a b : Nat} (h : a + b < B64) : ckAdd a b = .ok (a + b) := by
  unfold ckAdd; rw [if_pos h]

theorem mu_mulRow_nil (x k carry : Nat) : mulRow x [] [] k carry = .ok ([], carry) := rfl

theorem mu_mulRow_cons (x y r k carry : Nat) (ys rs : List Nat) :
    mulRow x (y :: ys) (r :: rs) (k+1) carry = (do
      let carry1 ← ckAdd (mulHi x y) (addU64Carry (mulLo x y) carry 0).2
      let carry2 ← ckAdd carry1 (addU64Carry r (addU64Carry (mulLo x y) carry 0).1 0).2
      let (rest, cf) ← mulRow x ys rs k carry2
      pure ((addU64Carry r (addU64Carry (mulLo x y) carry 0).1 0).1 :: rest, cf)) := rfl

theorem mu_step_arith {x y r carry : Nat} (hx : x < 2^64) (hy : y < 2^64) (hr : r < 2^64) (hc : carry < 2^64) :
    mulHi x y + (addU64Carry (mulLo x y) carry 0).2 < B64 ∧
    mulHi x y + (addU64Carry (mulLo x y) carry 0).2 + (addU64Carry r (addU64Carry (mulLo x y) carry 0).1 0).2 < B64 ∧
    (addU64Carry r (addU64Carry (mulLo x y) carry 0).1 0).1 < 2^64 ∧
    (addU64Carry r (addU64Carry (mulLo x y) carry 0).1 0).1 +
      B64 * (mulHi x y + (addU64Carry (mulLo x y) carry 0).2 + (addU64Carry r (addU64Carry (mulLo x y) carry 0).1 0).2)
      = r + x * y + carry := by
  have hlo : mulLo x y < 2^64 := by unfold mulLo; rw [← B64_eq]; exact Nat.mod_lt _ B64_pos
  obtain ⟨a1, a2, a3⟩ := addU64Carry_spec' hlo hc (Nat.zero_le 1)
  obtain ⟨b1, b2, b3⟩ := addU64Carry_spec' hr a2 (Nat.zero_le 1)
  generalize (addU64Carry r (addU64Carry (mulLo x y) carry 0).1 0) = p1 at *
  generalize (addU64Carry (mulLo x y) carry 0) = p0 at *
  have hP : x * y ≤ 18446744073709551615 * 18446744073709551615 :=
    Nat.mul_le_mul (by omega) (by omega)
  unfold mulLo mulHi B64 at *
  generalize x * y = P at *
  omega

theorem mu_mulRow_spec {x : Nat} (hx : x < 2^64) : ∀ (ys rs : List Nat) (k carry : Nat),
    ys.length = k → rs.length = k → Limbs ys → Limbs rs → carry < 2^64 →
    ∃ done cf, mulRow x ys rs k carry = .ok (done, cf) ∧ done.length = k ∧ Limbs done ∧ cf < 2^64 ∧
      toNat done + 2^(64*k) * cf = toNat rs + x * toNat ys + carry := by
  intro ys
  induction ys with
  | nil =>
    intro rs k carry hy hr _ _ hc
    simp only [List.length_nil] at hy
    subst hy
    have : rs = [] := List.length_eq_zero_iff.mp hr
    subst this
    exact ⟨[], carry, rfl, rfl, Limbs.nil, hc, by simp⟩
  | cons y ys ih =>
    intro rs k carry hy hr hly hlr hc
    cases rs with
    | nil => simp only [List.length_nil, List.length_cons] at hy hr; omega
    | cons r rs =>
      cases k with
      | zero => simp only [List.length_cons] at hy; omega
      | succ k =>
        simp only [List.length_cons, Nat.add_right_cancel_iff] at hy hr
        obtain ⟨hy0, hly'⟩ := limbs_cons.mp hly
        obtain ⟨hr0, hlr'⟩ := limbs_cons.mp hlr
        obtain ⟨s1, s2, s3, s4⟩ := mu_step_arith hx hy0 hr0 hc
        obtain ⟨done, cf, e1, e2, e3, e4, e5⟩ := ih rs k _ hy hr hly' hlr' (by rw [← B64_eq]; exact s2)
        refine ⟨_ :: done, cf, ?_, by simp only [List.length_cons, e2], limbs_cons.mpr ⟨s3, e3⟩, e4, ?_⟩
        · rw [mu_mulRow_cons, mu_ckAdd_ok s1]
          simp only [bind, Except.bind]
          rw [mu_ckAdd_ok s2]
          simp only [e1]
          rfl
        · simp only [toNat_cons, pow64_succ]
          linear_combination s4 + B64 * e5

theorem mu_pow_add (i j : Nat) : 2^(64*(i+j)) = 2^(64*i) * 2^(64*j) := by
  rw [Nat.mul_add, pow_add]

theorem mu_outer_step {b res : List Nat} {n i x j : Nat} (hi : i < n) (hlen : res.length = n)
    (hres : Limbs res) (hb : Limbs b) (hx : x < 2^64) (hj : min b.length (n - i) = j)
    (hsmall : toNat res < 2^(64*(i + b.length))) :
    ∃ done cf, mulRow x (b.take j) ((res.drop i).take j) j 0 = .ok (done, cf) ∧
      (res.take i ++ done ++ (if i + j < n then cf :: ((res.drop i).drop j).drop 1 else (res.drop i).drop j)).length = n ∧
      Limbs (res.take i ++ done ++ (if i + j < n then cf :: ((res.drop i).drop j).drop 1 else (res.drop i).drop j)) ∧
      ∃ q, toNat (res.take i ++ done ++ (if i + j < n then cf :: ((res.drop i).drop j).drop 1 else (res.drop i).drop j))
        + 2^(64*n) * q = toNat res + 2^(64*i) * (x * toNat b) := by
  have hmidlen : ((res.drop i).take j).length = j := by
    rw [List.length_take, List.length_drop, hlen]; omega
  have hbtlen : (b.take j).length = j := by rw [List.length_take]; omega
  obtain ⟨done, cf, e1, e2, e3, e4, e5⟩ := mu_mulRow_spec hx (b.take j) ((res.drop i).take j) j 0
    hbtlen hmidlen (hb.take j) ((hres.drop i).take j) (by norm_num)
  refine ⟨done, cf, e1, ?_⟩
  have hsplit1 : toNat res = toNat (res.take i) + 2^(64*i) * toNat (res.drop i) := by
    have := toNat_split res i; rwa [Nat.min_eq_left (by omega)] at this
  have hsplit2 : toNat (res.drop i) = toNat ((res.drop i).take j) + 2^(64*j) * toNat ((res.drop i).drop j) := by
    have := toNat_split (res.drop i) j
    rwa [Nat.min_eq_left (by rw [List.length_drop]; omega)] at this
  have hprelen : (res.take i).length = i := by rw [List.length_take]; omega
  have htaillen : ((res.drop i).drop j).length = n - i - j := by
    rw [List.length_drop, List.length_drop, hlen]
  have htl : Limbs ((res.drop i).drop j) := (hres.drop i).drop j
  have hpl : Limbs (res.take i) := hres.take i
  generalize hpre : res.take i = pre at *
  generalize hmid : (res.drop i).take j = mid at *
  generalize htail : (res.drop i).drop j = tail at *
  rw [List.append_assoc, toNat_appendC, toNat_appendC, hprelen, e2, List.length_append, List.length_append,
    hprelen, e2]
  by_cases hcase : i + j < n
  · simp only [if_pos hcase]
    have hjb : j = b.length := by omega
    have hbt : b.take j = b := by rw [hjb]; exact List.take_length
    rw [hbt] at e5
    cases tail with
    | nil => simp only [List.length_nil] at htaillen; omega
    | cons z rest =>
      have hT : toNat (z :: rest) = 0 := by
        by_contra hne
        have h1 : 1 ≤ toNat (z :: rest) := Nat.one_le_iff_ne_zero.mpr hne
        have h2 : 2^(64*i) * (2^(64*j) * 1) ≤ 2^(64*i) * (2^(64*j) * toNat (z :: rest)) :=
          Nat.mul_le_mul_left _ (Nat.mul_le_mul_left _ h1)
        rw [← hjb, mu_pow_add] at hsmall
        rw [hsplit1, hsplit2] at hsmall
        have h3 : 2^(64*i) * (toNat mid + 2^(64*j) * toNat (z :: rest)) =
          2^(64*i) * toNat mid + 2^(64*i) * (2^(64*j) * toNat (z :: rest)) := by ring
        rw [h3] at hsmall
        rw [Nat.mul_one] at h2
        omega
      rw [toNat_cons] at hT
      have hz : z = 0 := by omega
      have hR : B64 * toNat rest = 0 := by omega
      simp only [List.drop_succ_cons, List.drop_zero, List.length_cons, toNat_cons]
      simp only [List.length_cons] at htaillen
      refine ⟨by omega, hpl.append
        (e3.append (limbs_cons.mpr ⟨e4, (limbs_cons.mp htl).2⟩)), 0, ?_⟩
      rw [hsplit1, hsplit2, toNat_cons, hR, hz]
      linear_combination 2^(64*i) * e5
  · simp only [if_neg hcase]
    have hjn : i + j = n := by omega
    have : tail = [] := List.length_eq_zero_iff.mp (by omega)
    subst this
    have hbs : toNat b = toNat (b.take j) + 2^(64*j) * toNat (b.drop j) := by
      have := toNat_split b j; rwa [Nat.min_eq_left (by omega)] at this
    refine ⟨by simp only [List.length_nil]; omega, hpl.append
        (e3.append Limbs.nil), cf + x * toNat (b.drop j), ?_⟩
    rw [hsplit1, hsplit2, hbs, ← hjn, mu_pow_add]
    simp only [toNat_nil]
    linear_combination 2^(64*i) * e5

theorem mu_mulOuter_nil (b : List Nat) (n i : Nat) (res : List Nat) : mulOuter b n [] i res = .ok res := rfl

theorem mu_mulOuter_cons (b : List Nat) (n x i : Nat) (xs res : List Nat) :
    mulOuter b n (x :: xs) i res = if i ≥ n then pure res else (do
      let (done, carry) ← mulRow x (b.take (min b.length (n - i))) ((res.drop i).take (min b.length (n - i)))
        (min b.length (n - i)) 0
      mulOuter b n xs (i+1) (res.take i ++ done ++
        (if i + min b.length (n - i) < n then carry :: ((res.drop i).drop (min b.length (n - i))).drop 1
         else (res.drop i).drop (min b.length (n - i))))) := rfl

theorem mu_mod_of_add {N M q R : Nat} (h : N + M * q = R) (hlt : N < M) : N = R % M := by
  rw [← h, Nat.add_mul_mod_self_left, Nat.mod_eq_of_lt hlt]

theorem mu_mulOuter_spec {b : List Nat} {n : Nat} (hb : Limbs b) : ∀ (xs : List Nat) (i : Nat) (res : List Nat) (A : Nat),
    Limbs xs → res.length = n → Limbs res → A < 2^(64*i) → toNat res = (A * toNat b) % 2^(64*n) →
    ∃ r, mulOuter b n xs i res = .ok r ∧ r.length = n ∧ Limbs r ∧
      toNat r = ((A + 2^(64*i) * toNat xs) * toNat b) % 2^(64*n) := by
  intro xs
  induction xs with
  | nil =>
    intro i res A _ hlen hres _ hval
    exact ⟨res, rfl, hlen, hres, by simpa using hval⟩
  | cons x xs ih =>
    intro i res A hxs hlen hres hA hval
    obtain ⟨hx, hxs'⟩ := limbs_cons.mp hxs
    rw [mu_mulOuter_cons]
    by_cases hin : i ≥ n
    · rw [if_pos hin]
      refine ⟨res, rfl, hlen, hres, ?_⟩
      rw [hval]
      obtain ⟨d, rfl⟩ := Nat.exists_eq_add_of_le hin
      rw [mu_pow_add]
      have : (A + 2 ^ (64 * n) * 2 ^ (64 * d) * toNat (x :: xs)) * toNat b =
          A * toNat b + 2^(64*n) * (2 ^ (64 * d) * toNat (x :: xs) * toNat b) := by ring
      rw [this, Nat.add_mul_mod_self_left]
    · rw [if_neg hin]
      have hsmall : toNat res < 2^(64*(i + b.length)) := by
        rw [hval, mu_pow_add]
        exact lt_of_le_of_lt (Nat.mod_le _ _) (Nat.mul_lt_mul'' hA (toNat_lt' hb))
      obtain ⟨done, cf, e1, e2, e3, q, e4⟩ := mu_outer_step (x := x) (by omega : i < n) hlen hres hb hx rfl hsmall
      rw [e1]
      have hA' : A + 2^(64*i) * x < 2^(64*(i+1)) := by
        rw [pow64_succ, B64_eq]
        have : 2^(64*i) * (x + 1) ≤ 2^(64*i) * 2^64 := Nat.mul_le_mul_left _ hx
        rw [Nat.mul_succ] at this
        rw [Nat.mul_comm (2^64)]
        omega
      have hlt := toNat_lt' e3
      rw [e2] at hlt
      have hval' := mu_mod_of_add e4 hlt
      have hval'' : toNat (List.take i res ++ done ++
          if i + min b.length (n - i) < n then cf :: List.drop 1 (List.drop (min b.length (n - i)) (List.drop i res))
          else List.drop (min b.length (n - i)) (List.drop i res)) = ((A + 2^(64*i) * x) * toNat b) % 2^(64*n) := by
        rw [hval', hval, Nat.mod_add_mod]
        congr 1; ring
      obtain ⟨r, r1, r2, r3, r4⟩ := ih (i+1) _ (A + 2^(64*i) * x) hxs' e2 e3 hA' hval''
      refine ⟨r, r1, r2, r3, ?_⟩
      rw [r4, toNat_cons, pow64_succ]
      congr 2; ring

theorem mu_dropWhile_nil {p : Nat → Bool} {l : List Nat} (h : l.dropWhile p = []) : ∀ x ∈ l, p x = true := by
  induction l with
  | nil => intro x hx; cases hx
  | cons y t ih =>
    rw [List.dropWhile_cons] at h
    by_cases hp : p y = true
    · rw [if_pos hp] at h
      intro x hx
      rcases List.mem_cons.mp hx with rfl | hx
      · exact hp
      · exact ih h x hx
    · rw [if_neg hp] at h; cases h

theorem mu_sigWords_one {l : List Nat} (h : sigWords l = 1) : toNat l = l.headD 0 := by
  cases l with
  | nil => simp [sigWords] at h
  | cons x t =>
    unfold sigWords at h
    rw [List.reverse_cons, List.dropWhile_append] at h
    have ht : toNat t = 0 := by
      rw [toNat_eq_zero_iff]
      split at h
      · rename_i he
        rw [List.isEmpty_iff] at he
        intro y hy
        have := mu_dropWhile_nil he y (List.mem_reverse.mpr hy)
        simpa using this
      · rename_i he
        rw [List.length_append, List.length_singleton] at h
        have h0 : (List.dropWhile (fun x => decide (x = 0)) t.reverse) = [] :=
          List.length_eq_zero_iff.mp (by omega)
        rw [h0] at he
        exact absurd rfl he
    rw [toNat_cons, ht]; simp

theorem mu_multiplyUint_eq (a b : List Nat) (n : Nat) : multiplyUint a b n =
    if a.isEmpty ∨ b.isEmpty then pure (List.replicate n 0)
    else if n = 1 then pure [wMul (a.headD 0) (b.headD 0)]
    else if sigWords a = 1 then multiplyUintU64 b (a.headD 0) n
    else if sigWords b = 1 then multiplyUintU64 a (b.headD 0) n
    else mulOuter b n a 0 (List.replicate n 0) := rfl

theorem mu_mul_low (a0 b0 ta tb : Nat) :
    ((a0 + B64 * ta) * (b0 + B64 * tb)) % B64 = (a0 * b0) % B64 := by
  have : (a0 + B64 * ta) * (b0 + B64 * tb) = a0 * b0 + B64 * (a0 * tb + ta * b0 + B64 * ta * tb) := by ring
  rw [this, Nat.add_mul_mod_self_left]

theorem multiplyUint_spec {a b : List Nat} {n : Nat} (hn : 1 ≤ n) (ha : Limbs a) (hb : Limbs b) :
    ∃ r, multiplyUint a b n = .ok r ∧ r.length = n ∧ Limbs r ∧
      toNat r = (toNat a * toNat b) % 2^(64*n) := by
  rw [mu_multiplyUint_eq]
  by_cases h1 : a.isEmpty ∨ b.isEmpty
  · rw [if_pos h1]
    refine ⟨List.replicate n 0, rfl, List.length_replicate, Limbs.replicate_zero n, ?_⟩
    rw [toNat_replicate_zero]
    rcases h1 with h | h
    · rw [List.isEmpty_iff] at h; subst h; simp
    · rw [List.isEmpty_iff] at h; subst h; simp
  rw [if_neg h1]
  by_cases h2 : n = 1
  · rw [if_pos h2]
    subst h2
    have hlt : wMul (a.headD 0) (b.headD 0) < B64 := Nat.mod_lt _ B64_pos
    refine ⟨[wMul (a.headD 0) (b.headD 0)], rfl, rfl, limbs_cons.mpr ⟨by rw [← B64_eq]; exact hlt, Limbs.nil⟩, ?_⟩
    cases a with
    | nil => simp at h1
    | cons a0 ta =>
      cases b with
      | nil => simp at h1
      | cons b0 tb =>
        simp only [toNat_cons, toNat_nil, List.headD_cons, Nat.mul_zero, Nat.add_zero, Nat.mul_one]
        rw [← B64_eq, mu_mul_low]; rfl
  rw [if_neg h2]
  by_cases h3 : sigWords a = 1
  · rw [if_pos h3]
    obtain ⟨r, r1, r2, r3, r4⟩ := multiplyUintU64_spec (a := b) (w := a.headD 0) hn hb ha.headD
    exact ⟨r, r1, r2, r3, by rw [r4, mu_sigWords_one h3, Nat.mul_comm]⟩
  rw [if_neg h3]
  by_cases h4 : sigWords b = 1
  · rw [if_pos h4]
    obtain ⟨r, r1, r2, r3, r4⟩ := multiplyUintU64_spec (a := a) (w := b.headD 0) hn ha hb.headD
    exact ⟨r, r1, r2, r3, by rw [r4, mu_sigWords_one h4]⟩
  rw [if_neg h4]
  obtain ⟨r, r1, r2, r3, r4⟩ := mu_mulOuter_spec (n := n) hb a 0 (List.replicate n 0) 0 ha List.length_replicate
    (Limbs.replicate_zero n) (by norm_num) (by rw [toNat_replicate_zero]; simp)
  exact ⟨r, r1, r2, r3, by rw [r4]; simp⟩

/-- division with remainder (shift-subtract loop).  STRETCH GOAL: if it does not close, leave it out of the
    proof file and report; do not weaken it. -/
def DivideUintStatement : Prop :=
  ∀ {a d : List Nat} {n : Nat}, 1 ≤ n → Limbs a → Limbs d → a.length = n → d.length = n → toNat d ≠ 0 →
    ∃ r q, divideUint a d n = .ok (r, q) ∧ r.length = n ∧ q.length = n ∧ Limbs r ∧ Limbs q ∧
      toNat a = toNat q * toNat d + toNat r ∧ toNat r < toNat d

/-! ### bitCount -/

theorem dv_bc_zero : bitCount 0 = 0 := by unfold bitCount; simp

theorem dv_bc_pos {v : Nat} (h : v ≠ 0) : bitCount v = Nat.log2 v + 1 := by
  unfold bitCount; rw [if_neg h]

theorem dv_bc_eq_zero {v : Nat} : bitCount v = 0 ↔ v = 0 := by
  constructor
  · intro h
    by_contra hv
    rw [dv_bc_pos hv] at h; omega
  · intro h; rw [h]; exact dv_bc_zero

theorem dv_bc_lt (v : Nat) : v < 2^(bitCount v) := by
  by_cases hv : v = 0
  · rw [hv, dv_bc_zero]; norm_num
  · rw [dv_bc_pos hv]; exact Nat.lt_log2_self

theorem dv_bc_ge {v : Nat} (hv : v ≠ 0) : 2^(bitCount v - 1) ≤ v := by
  rw [dv_bc_pos hv, Nat.add_sub_cancel]; exact Nat.log2_self_le hv

theorem dv_bc_le_iff {v k : Nat} : bitCount v ≤ k ↔ v < 2^k := by
  by_cases hv : v = 0
  · rw [hv, dv_bc_zero]; simp
  · rw [dv_bc_pos hv, Nat.succ_le_iff, Nat.log2_lt hv]

theorem dv_bc_unique {v k : Nat} (h1 : 2^(k-1) ≤ v) (h2 : v < 2^k) (hk : 1 ≤ k) : bitCount v = k := by
  have h3 : bitCount v ≤ k := dv_bc_le_iff.mpr h2
  have h4 : ¬ bitCount v ≤ k - 1 := by
    intro h; have := dv_bc_le_iff.mp h; omega
  omega

theorem dv_bc_mul_pow {v : Nat} (hv : v ≠ 0) (s : Nat) : bitCount (v * 2^s) = bitCount v + s := by
  have hb : 1 ≤ bitCount v := by
    rcases Nat.eq_zero_or_pos (bitCount v) with h | h
    · exact absurd (dv_bc_eq_zero.mp h) hv
    · exact h
  apply dv_bc_unique
  · have h1 := dv_bc_ge hv
    have : bitCount v + s - 1 = (bitCount v - 1) + s := by omega
    rw [this, pow_add]
    exact Nat.mul_le_mul_right _ h1
  · rw [pow_add]
    exact Nat.mul_lt_mul_of_pos_right (dv_bc_lt v) (by positivity)
  · omega

theorem dv_bc_mono {a b : Nat} (h : a ≤ b) : bitCount a ≤ bitCount b :=
  dv_bc_le_iff.mpr (lt_of_le_of_lt h (dv_bc_lt b))

/-! ### pure arithmetic -/

/-- bound on the partial quotient -/
theorem dv_quot_bound {A S Q N b e : Nat} (hA : A < 2^b) (hS : 2^(b-1) ≤ S) (hb : 1 ≤ b)
    (h : A * 2^e = Q * S + N) : Q < 2^(e+1) := by
  have h1 : Q * 2^(b-1) ≤ Q * S := Nat.mul_le_mul_left _ hS
  have h2 : A * 2^e < 2^b * 2^e := Nat.mul_lt_mul_of_pos_right hA (by positivity)
  have h3 : 2^b * 2^e = 2^(e+1) * 2^(b-1) := by
    rw [← pow_add, ← pow_add]; congr 1; omega
  have h4 : Q * 2^(b-1) < 2^(e+1) * 2^(b-1) := by omega
  exact Nat.lt_of_mul_lt_mul_right h4

/-- final un-shifting -/
theorem dv_exit {A D Q N s : Nat} (h : A * 2^s = Q * (D * 2^s) + N) (hN : N < D * 2^s) :
    A = Q * D + N / 2^s ∧ N / 2^s < D := by
  have hp : 0 < 2^s := by positivity
  have h1 : N = (A - Q * D) * 2^s := by
    rw [Nat.sub_mul]; rw [h]; rw [Nat.mul_assoc]; omega
  have h2 : Q * D ≤ A := by
    have : (Q * D) * 2^s ≤ A * 2^s := by rw [h, Nat.mul_assoc]; omega
    exact Nat.le_of_mul_le_mul_right this hp
  have h3 : N / 2^s = A - Q * D := by
    rw [h1]; exact Nat.mul_div_cancel _ hp
  refine ⟨by omega, ?_⟩
  exact (Nat.div_lt_iff_lt_mul hp).mpr hN

theorem dv_B64_even : B64 = 2 * 2^63 := by rw [B64_eq]; norm_num

/-! ### the shift-subtract loop -/

def dv_setLow : List Nat → List Nat
  | [] => []
  | q0 :: qs => (q0 - q0 % 2 + 1) :: qs

/-- the part of the loop body after the borrow handling -/
def dv_tail (cnt : Nat) (sden : List Nat) (denBits fuel : Nat) (diff quot1 : List Nat) (rem1 : Nat) :
    R (List Nat × List Nat × Nat) := do
  let quot2 := dv_setLow quot1
  let nb := bitCount (toNat (diff.take cnt))
  let sh0 ← ckSub denBits nb
  let sh := if sh0 > rem1 then rem1 else sh0
  let (num', nb') ←
    if nb > 0 then do
      let s ← leftShiftUint diff sh cnt
      pure (s, nb + sh)
    else pure (List.replicate cnt 0, nb)
  let quot3 ← leftShiftUint quot2 sh cnt
  let rem2 ← ckSub rem1 sh
  divLoop cnt sden denBits fuel num' quot3 nb' rem2

def dv_step (cnt : Nat) (diff0 : List Nat) (bw : Nat) (num quot : List Nat) (rem : Nat) :
    R (Option (List Nat × List Nat × Nat)) :=
  if bw ≠ 0 then
    if rem = 0 then pure none
    else do
      let (d, _) ← addUint diff0 num cnt
      let q ← leftShiftUint quot 1 cnt
      pure (some (d, q, rem - 1))
  else pure (some (diff0, quot, rem))

theorem dv_divLoop_zero (cnt : Nat) (sden : List Nat) (denBits : Nat) (num quot : List Nat) (numBits rem : Nat) :
    divLoop cnt sden denBits 0 num quot numBits rem = .error .other := rfl

theorem dv_divLoop_succ (cnt : Nat) (sden : List Nat) (denBits fuel : Nat) (num quot : List Nat) (numBits rem : Nat) :
    divLoop cnt sden denBits (fuel+1) num quot numBits rem =
      (if numBits ≠ denBits then pure (num, quot, numBits) else do
        let (diff0, bw) ← subUint num sden cnt
        match ← dv_step cnt diff0 bw num quot rem with
        | none => pure (num, quot, numBits)
        | some (diff, quot1, rem1) => dv_tail cnt sden denBits fuel diff quot1 rem1) := rfl


theorem dv_ckSub {a b : Nat} (h : b ≤ a) : ckSub a b = .ok (a - b) := by
  unfold ckSub; rw [if_pos h]

theorem dv_pow_le {a b : Nat} (h : a ≤ b) : 2^a ≤ 2^b := Nat.pow_le_pow_right (by norm_num) h

theorem dv_setLow_spec {l : List Nat} (hl : 1 ≤ l.length) (hL : Limbs l) (hev : toNat l % 2 = 0) :
    (dv_setLow l).length = l.length ∧ Limbs (dv_setLow l) ∧ toNat (dv_setLow l) = toNat l + 1 := by
  cases l with
  | nil => simp at hl
  | cons q0 qs =>
    obtain ⟨h0, hs⟩ := limbs_cons.mp hL
    simp only [toNat_cons] at hev
    have hq : q0 % 2 = 0 := by
      have := dv_B64_even
      rw [this] at hev
      omega
    refine ⟨rfl, limbs_cons.mpr ⟨?_, hs⟩, ?_⟩
    · omega
    · simp only [dv_setLow, toNat_cons]; omega

structure dv_Ctx (cnt S denBits shift A : Nat) (sden : List Nat) : Prop where
  hcnt : 1 ≤ cnt
  hlen : sden.length = cnt
  hlimbs : Limbs sden
  hval : toNat sden = S
  hbits : bitCount S = denBits
  hA : A < 2^denBits
  hsd : shift < denBits
  hdc : denBits ≤ 64*cnt

theorem dv_Ctx.S_ne {cnt S denBits shift A : Nat} {sden : List Nat} (C : dv_Ctx cnt S denBits shift A sden) : S ≠ 0 := by
  intro h
  have := C.hbits; rw [h, dv_bc_zero] at this
  have := C.hsd; omega

theorem dv_Ctx.S_ge {cnt S denBits shift A : Nat} {sden : List Nat} (C : dv_Ctx cnt S denBits shift A sden) :
    2^(denBits-1) ≤ S := by
  have := dv_bc_ge C.S_ne; rwa [C.hbits] at this

theorem dv_Ctx.S_lt {cnt S denBits shift A : Nat} {sden : List Nat} (C : dv_Ctx cnt S denBits shift A sden) :
    S < 2^denBits := by
  have := dv_bc_lt S; rwa [C.hbits] at this

structure dv_Inv (cnt S denBits shift A : Nat) (num quot : List Nat) (numBits rem e : Nat) : Prop where
  hnl : num.length = cnt
  hql : quot.length = cnt
  hnL : Limbs num
  hqL : Limbs quot
  he : e + rem = shift
  heq : A * 2^e = toNat quot * S + toNat num
  hnb : numBits = bitCount (toNat num)
  hle : numBits ≤ denBits
  hev : numBits = denBits → S ≤ toNat num → toNat quot % 2 = 0
  hrem : numBits ≠ denBits → rem = 0

def dv_Post (cnt S shift A : Nat) (res : R (List Nat × List Nat × Nat)) : Prop :=
  ∃ num' quot' nb', res = .ok (num', quot', nb') ∧ num'.length = cnt ∧ quot'.length = cnt ∧
    Limbs num' ∧ Limbs quot' ∧ toNat num' < S ∧ A * 2^shift = toNat quot' * S + toNat num' ∧
    nb' = bitCount (toNat num')

theorem dv_tail_spec {cnt S denBits shift A : Nat} {sden : List Nat} (C : dv_Ctx cnt S denBits shift A sden)
    (fuel : Nat) {diff quot1 : List Nat} {rem1 e1 : Nat}
    (hdl : diff.length = cnt) (hql : quot1.length = cnt) (hdL : Limbs diff) (hqL : Limbs quot1)
    (hev : toNat quot1 % 2 = 0) (he : e1 + rem1 = shift)
    (heq : A * 2^e1 = (toNat quot1 + 1) * S + toNat diff)
    (hbits : bitCount (toNat diff) ≤ denBits)
    (hor : toNat diff < S ∨ bitCount (toNat diff) < denBits) :
    ∃ num' quot3 nb' rem2 e2,
      dv_tail cnt sden denBits fuel diff quot1 rem1 = divLoop cnt sden denBits fuel num' quot3 nb' rem2
      ∧ dv_Inv cnt S denBits shift A num' quot3 nb' rem2 e2 ∧ rem2 ≤ rem1
      ∧ (bitCount (toNat diff) < denBits → nb' = denBits → rem2 < rem1) := by
  have htk : diff.take cnt = diff := List.take_of_length_le (by omega)
  obtain ⟨h2l, h2L, h2v⟩ := dv_setLow_spec (l := quot1) (by have := C.hcnt; omega) hqL hev
  rw [hql] at h2l
  have hcnt := C.hcnt
  have hsd := C.hsd
  have hdc := C.hdc
  obtain ⟨nbits, hnbits⟩ : ∃ nbits, nbits = bitCount (toNat diff) := ⟨_, rfl⟩
  rw [← hnbits] at hbits hor ⊢
  obtain ⟨sh, hsh_def, hsh1, hsh2, hsh3⟩ : ∃ sh, sh = (if denBits - nbits > rem1 then rem1 else denBits - nbits)
      ∧ sh ≤ rem1 ∧ sh ≤ denBits - nbits ∧ (sh = rem1 ∨ sh = denBits - nbits) := by
    refine ⟨_, rfl, ?_, ?_, ?_⟩ <;> split <;> omega
  have hQ : toNat quot1 + 1 < 2^(e1+1) := dv_quot_bound C.hA C.S_ge (by omega) heq
  have hQ2 : (toNat quot1 + 1) * 2^sh < 2^(64*cnt) := by
    have h1 : (toNat quot1 + 1) * 2^sh < 2^(e1+1) * 2^sh := Nat.mul_lt_mul_of_pos_right hQ (by positivity)
    rw [← pow_add] at h1
    have h2 : 2^(e1+1+sh) ≤ 2^(64*cnt) := dv_pow_le (by omega)
    omega
  obtain ⟨quot3, hq3, hq3l, hq3L, hq3v⟩ := leftShiftUint_spec (a := dv_setLow quot1) (s := sh) (cnt := cnt)
    h2L (by omega) (by omega)
  rw [List.take_of_length_le (by omega), h2v, Nat.mod_eq_of_lt hQ2] at hq3v
  have hI2 : A * 2^(e1+sh) = toNat quot3 * S + toNat diff * 2^sh := by
    rw [hq3v, pow_add]; linear_combination 2^sh * heq
  unfold dv_tail
  rw [htk, ← hnbits]
  dsimp only
  rw [dv_ckSub hbits]
  simp only [bind, Except.bind, pure, Except.pure]
  rw [← hsh_def, hq3, dv_ckSub hsh1]
  by_cases hpos : nbits > 0
  · have hD : toNat diff ≠ 0 := by
      intro h; rw [h, dv_bc_zero] at hnbits; omega
    have hD2 : toNat diff * 2^sh < 2^(64*cnt) := by
      have h1 : toNat diff * 2^sh < 2^nbits * 2^sh := by
        apply Nat.mul_lt_mul_of_pos_right _ (by positivity)
        rw [hnbits]; exact dv_bc_lt _
      rw [← pow_add] at h1
      have h2 : 2^(nbits+sh) ≤ 2^(64*cnt) := dv_pow_le (by omega)
      omega
    obtain ⟨s, hs, hsl, hsL, hsv⟩ := leftShiftUint_spec (a := diff) (s := sh) (cnt := cnt) hdL (by omega) (by omega)
    rw [htk, Nat.mod_eq_of_lt hD2] at hsv
    rw [if_pos hpos, hs]
    dsimp only
    refine ⟨s, quot3, nbits + sh, rem1 - sh, e1 + sh, rfl, ?_, by omega, by omega⟩
    refine ⟨hsl, hq3l, hsL, hq3L, by omega, by rw [hsv]; exact hI2, ?_, by omega, ?_, by omega⟩
    · rw [hsv, dv_bc_mul_pow hD, ← hnbits]
    · intro h1 h2
      rw [hsv] at h2
      rcases Nat.eq_zero_or_pos sh with h0 | h0
      · rw [h0, pow_zero, Nat.mul_one] at h2
        omega
      · obtain ⟨k, hk⟩ : ∃ k, sh = k + 1 := ⟨sh - 1, by omega⟩
        rw [hq3v, hk, pow_succ, ← Nat.mul_assoc]
        exact Nat.mul_mod_left _ _
  · have hn0 : nbits = 0 := by omega
    have hD : toNat diff = 0 := by
      apply dv_bc_eq_zero.mp; rw [← hnbits]; exact hn0
    rw [if_neg hpos]
    dsimp only
    refine ⟨List.replicate cnt 0, quot3, nbits, rem1 - sh, e1 + sh, rfl, ?_, by omega, by omega⟩
    refine ⟨List.length_replicate, hq3l, Limbs.replicate_zero _, hq3L, by omega, ?_, ?_, by omega, by omega, by omega⟩
    · rw [toNat_replicate_zero, hI2, hD]; ring
    · rw [toNat_replicate_zero, dv_bc_zero]; exact hn0

theorem dv_step_nb (cnt : Nat) (diff0 num quot : List Nat) (rem : Nat) :
    dv_step cnt diff0 0 num quot rem = .ok (some (diff0, quot, rem)) := by
  unfold dv_step; rw [if_neg (by simp)]; rfl

theorem dv_step_b0 (cnt : Nat) (diff0 num quot : List Nat) :
    dv_step cnt diff0 1 num quot 0 = .ok none := by
  unfold dv_step; rw [if_pos (by simp), if_pos rfl]; rfl

theorem dv_step_b1 (cnt : Nat) (diff0 num quot : List Nat) {rem : Nat} (hrem : rem ≠ 0) {d q : List Nat} {c : Nat}
    (h1 : addUint diff0 num cnt = .ok (d, c)) (h2 : leftShiftUint quot 1 cnt = .ok q) :
    dv_step cnt diff0 1 num quot rem = .ok (some (d, q, rem - 1)) := by
  unfold dv_step; rw [if_pos (by simp), if_neg hrem, h1, h2]; rfl

theorem dv_loop {cnt S denBits shift A : Nat} {sden : List Nat} (C : dv_Ctx cnt S denBits shift A sden) :
    ∀ (fuel : Nat) (num quot : List Nat) (numBits rem e : Nat),
      dv_Inv cnt S denBits shift A num quot numBits rem e →
      (if numBits = denBits then rem + 2 else 1) ≤ fuel →
      dv_Post cnt S shift A (divLoop cnt sden denBits fuel num quot numBits rem) := by
  intro fuel
  induction fuel with
  | zero => intro num quot numBits rem e _ hf; split at hf <;> omega
  | succ fuel ih =>
    intro num quot numBits rem e I hf
    have hcnt := C.hcnt
    have hsd := C.hsd
    have hdc := C.hdc
    have hSge := C.S_ge
    have hSlt := C.S_lt
    rw [dv_divLoop_succ]
    by_cases h : numBits = denBits
    · rw [if_neg (not_not.mpr h)]
      rw [if_pos h] at hf
      have hN1 : toNat num < 2^denBits := by rw [← h, I.hnb]; exact dv_bc_lt _
      have hN0 : toNat num ≠ 0 := by
        intro h0; have := I.hnb; rw [h0, dv_bc_zero] at this; omega
      have hN2 : 2^(denBits-1) ≤ toNat num := by
        have := dv_bc_ge hN0; rwa [← I.hnb, h] at this
      have hpw : 2^denBits = 2 * 2^(denBits-1) := by
        rw [← pow_succ']; congr 1; omega
      have hM : 2^denBits ≤ 2^(64*cnt) := dv_pow_le hdc
      obtain ⟨diff0, bw, hsub, hl0, hL0, hbw, hv0⟩ := subUint_spec (a := num) (b := sden) (n := cnt) hcnt I.hnL C.hlimbs
        (by rw [I.hnl]) (by rw [C.hlen])
      rw [List.take_of_length_le (by rw [C.hlen]), List.take_of_length_le (by rw [I.hnl]), C.hval] at hv0
      have hd0 : toNat diff0 < 2^(64*cnt) := by have := toNat_lt' hL0; rwa [hl0] at this
      rw [hsub]
      simp only [bind, Except.bind]
      rcases (show bw = 0 ∨ bw = 1 by omega) with hb | hb
      · subst hb
        rw [Nat.mul_zero, Nat.add_zero] at hv0
        rw [dv_step_nb]
        dsimp only
        have hbc : bitCount (toNat diff0) < denBits := by
          have : bitCount (toNat diff0) ≤ denBits - 1 := dv_bc_le_iff.mpr (by omega)
          omega
        obtain ⟨num', quot3, nb', rem2, e2, heq, I', hle, hlt⟩ := dv_tail_spec C fuel hl0 I.hql hL0 I.hqL
          (I.hev h (by omega)) I.he (by have := I.heq; rw [← hv0] at this; rw [this]; ring) (by omega) (Or.inr hbc)
        rw [heq]
        apply ih _ _ _ _ _ I'
        split
        · have := hlt hbc (by assumption); omega
        · omega
      · subst hb
        rw [Nat.mul_one] at hv0
        by_cases hr : rem = 0
        · subst hr
          rw [dv_step_b0]
          dsimp only
          have he : e = shift := by have := I.he; omega
          refine ⟨num, quot, numBits, rfl, I.hnl, I.hql, I.hnL, I.hqL, by omega, ?_, I.hnb⟩
          rw [← he]; exact I.heq
        · obtain ⟨d, c, hadd, hdl, hdL, hc, hdv⟩ := addUint_spec (a := diff0) (b := num) (n := cnt) hcnt hL0 I.hnL
            (by rw [hl0]) (by rw [I.hnl])
          rw [List.take_of_length_le (by rw [hl0]), List.take_of_length_le (by rw [I.hnl])] at hdv
          have hd : toNat d < 2^(64*cnt) := by have := toNat_lt' hdL; rwa [hdl] at this
          have hdS : toNat d + S = 2 * toNat num := by
            rcases (show c = 0 ∨ c = 1 by omega) with hc0 | hc1
            · subst hc0; omega
            · subst hc1; omega
          have hQ : toNat quot < 2^(e+1) := dv_quot_bound C.hA hSge (by omega) I.heq
          have hQ2 : toNat quot * 2^1 < 2^(64*cnt) := by
            have h1 : 2^(e+1+1) ≤ 2^denBits := dv_pow_le (by have := I.he; omega)
            rw [pow_succ] at h1
            omega
          obtain ⟨q, hq, hql, hqL, hqv⟩ := leftShiftUint_spec (a := quot) (s := 1) (cnt := cnt) I.hqL
            (by rw [I.hql]) (by omega)
          rw [List.take_of_length_le (by rw [I.hql]), Nat.mod_eq_of_lt hQ2, pow_one] at hqv
          rw [dv_step_b1 cnt diff0 num quot hr hadd hq]
          dsimp only
          obtain ⟨num', quot3, nb', rem2, e2, heq, I', hle, hlt⟩ := dv_tail_spec (e1 := e + 1) (rem1 := rem - 1) C fuel hdl hql hdL hqL
            (by rw [hqv]; exact Nat.mul_mod_left _ _) (by have := I.he; omega)
            (by have := I.heq; rw [hqv, pow_succ]; linear_combination 2 * this + hdS.symm)
            (dv_bc_le_iff.mpr (by omega)) (Or.inl (by omega))
          rw [heq]
          apply ih _ _ _ _ _ I'
          split <;> omega
    · rw [if_pos h]
      have hr := I.hrem h
      have he : e = shift := by have := I.he; omega
      refine ⟨num, quot, numBits, rfl, I.hnl, I.hql, I.hnL, I.hqL, ?_, ?_, I.hnb⟩
      · have h1 : toNat num < 2^numBits := by rw [I.hnb]; exact dv_bc_lt _
        have h2 : 2^numBits ≤ 2^(denBits-1) := dv_pow_le (by have := I.hle; omega)
        omega
      · rw [← he]; exact I.heq

/-! ### divideUint -/

def dv_general (num den : List Nat) (n nb db : Nat) : R (List Nat × List Nat) := do
  let cnt := (nb + 63) / 64
  let shift := nb - db
  let sden ← leftShiftUint den shift cnt
  let (num', quot', nb') ← divLoop cnt sden (db + shift) (64 * cnt + 2)
                             (num.take cnt) ((List.replicate n 0).take cnt) nb shift
  let num'' ← if nb' > 0 then rightShiftUint num' shift cnt else pure num'
  pure (num'' ++ num.drop cnt, quot' ++ (List.replicate n 0).drop cnt)

theorem dv_divideUint_eq (num den : List Nat) (n : Nat) : divideUint num den n =
    (if n = 0 then pure (num, [])
     else if num.isEmpty ∨ den.isEmpty then .error .overflow
     else if bitCount (toNat num) < bitCount (toNat den) then pure (num, List.replicate n 0)
     else if (bitCount (toNat num) + 63) / 64 = 1 then
       (if den.headD 0 = 0 then .error .other
        else pure ((num.headD 0 - (num.headD 0 / den.headD 0) * den.headD 0) :: num.tail,
                   (num.headD 0 / den.headD 0) :: (List.replicate n 0).tail))
     else if den.length < (bitCount (toNat num) + 63) / 64 ∨ num.length < (bitCount (toNat num) + 63) / 64
          ∨ n < (bitCount (toNat num) + 63) / 64 then .error .oob
     else dv_general num den n (bitCount (toNat num)) (bitCount (toNat den))) := rfl

/-- a value below one word lives in the head limb -/
theorem dv_small {l : List Nat} (h : toNat l < B64) : l.headD 0 = toNat l ∧ toNat l.tail = 0 := by
  cases l with
  | nil => exact ⟨rfl, rfl⟩
  | cons x xs =>
    simp only [toNat_cons, List.headD_cons, List.tail_cons] at h ⊢
    have ht : toNat xs = 0 := by
      by_contra hne
      have : B64 * 1 ≤ B64 * toNat xs := Nat.mul_le_mul_left _ (Nat.pos_of_ne_zero hne)
      omega
    rw [ht]; exact ⟨by omega, rfl⟩

theorem dv_head_tail {l : List Nat} (h : 1 ≤ l.length) : l = l.headD 0 :: l.tail := by
  cases l with
  | nil => simp at h
  | cons x xs => rfl

theorem dv_single {a d : List Nat} {n : Nat} (hn : 1 ≤ n) (ha : Limbs a)
    (hla : a.length = n) (hld : d.length = n) (hD0 : toNat d ≠ 0)
    (hA : toNat a < B64) (hD : toNat d < B64) :
    ∃ r q, (if d.headD 0 = 0 then (.error .other : R (List Nat × List Nat))
        else pure ((a.headD 0 - (a.headD 0 / d.headD 0) * d.headD 0) :: a.tail,
                   (a.headD 0 / d.headD 0) :: (List.replicate n 0).tail)) = .ok (r, q) ∧
      r.length = n ∧ q.length = n ∧ Limbs r ∧ Limbs q ∧
      toNat a = toNat q * toNat d + toNat r ∧ toNat r < toNat d := by
  obtain ⟨ha0, hat⟩ := dv_small hA
  obtain ⟨hd0, _⟩ := dv_small hD
  have hah : a.headD 0 < 2^64 := ha.headD
  rw [if_neg (by rw [hd0]; exact hD0)]
  refine ⟨_, _, rfl, ?_, ?_, ?_, ?_, ?_, ?_⟩
  · rw [List.length_cons, List.length_tail, hla]; omega
  · rw [List.length_cons, List.length_tail, List.length_replicate]; omega
  · exact limbs_cons.mpr ⟨by omega, ha.tail⟩
  · refine limbs_cons.mpr ⟨?_, (Limbs.replicate_zero n).tail⟩
    have := Nat.div_le_self (a.headD 0) (d.headD 0); omega
  · rw [toNat_cons, toNat_cons, hat, List.tail_replicate, toNat_replicate_zero, hd0, ha0]
    have h1 := Nat.div_mul_le_self (toNat a) (toNat d)
    simp only [Nat.mul_zero, Nat.add_zero]
    omega
  · rw [toNat_cons, hat, hd0, ha0, Nat.mul_zero, Nat.add_zero]
    have h1 := Nat.div_add_mod (toNat a) (toNat d)
    have h2 := Nat.mod_lt (toNat a) (Nat.pos_of_ne_zero hD0)
    rw [Nat.mul_comm] at h1
    omega

theorem dv_general_spec {a d : List Nat} {n nb db : Nat} (ha : Limbs a) (hd : Limbs d)
    (hla : a.length = n) (hld : d.length = n) (hD0 : toNat d ≠ 0)
    (hnb : nb = bitCount (toNat a)) (hdb : db = bitCount (toNat d)) (hle : db ≤ nb)
    (hcn : (nb + 63) / 64 ≤ n) :
    ∃ r q, dv_general a d n nb db = .ok (r, q) ∧
      r.length = n ∧ q.length = n ∧ Limbs r ∧ Limbs q ∧
      toNat a = toNat q * toNat d + toNat r ∧ toNat r < toNat d := by
  obtain ⟨cnt, hcnt⟩ : ∃ cnt, cnt = (nb + 63) / 64 := ⟨_, rfl⟩
  obtain ⟨shift, hshift⟩ : ∃ shift, shift = nb - db := ⟨_, rfl⟩
  have hdb1 : 1 ≤ db := by
    rcases Nat.eq_zero_or_pos db with h | h
    · rw [h] at hdb; exact absurd (dv_bc_eq_zero.mp hdb.symm) hD0
    · exact h
  have hc1 : 1 ≤ cnt := by omega
  have hnc : nb ≤ 64 * cnt := by omega
  have hM : 2^nb ≤ 2^(64*cnt) := dv_pow_le hnc
  have hA : toNat a < 2^nb := by rw [hnb]; exact dv_bc_lt _
  have hD : toNat d < 2^db := by rw [hdb]; exact dv_bc_lt _
  have hdn : 2^db ≤ 2^nb := dv_pow_le hle
  have hS : toNat d * 2^shift < 2^(64*cnt) := by
    have h1 : toNat d * 2^shift < 2^db * 2^shift := Nat.mul_lt_mul_of_pos_right hD (by positivity)
    rw [← pow_add, show db + shift = nb by omega] at h1
    omega
  obtain ⟨sden, hsd, hsl, hsL, hsv⟩ := leftShiftUint_spec (a := d) (s := shift) (cnt := cnt) hd (by omega) (by omega)
  rw [toNat_take_mod hd, Nat.mod_eq_of_lt (show toNat d < 2^(64*cnt) by omega), Nat.mod_eq_of_lt hS] at hsv
  have C : dv_Ctx cnt (toNat d * 2^shift) (db + shift) shift (toNat a) sden :=
    ⟨hc1, hsl, hsL, hsv, by rw [dv_bc_mul_pow hD0, ← hdb], by rw [show db + shift = nb by omega]; exact hA,
      by omega, by omega⟩
  have hq0 : toNat ((List.replicate n 0).take cnt) = 0 := by
    rw [toNat_take_mod (Limbs.replicate_zero n), toNat_replicate_zero, Nat.zero_mod]
  have ha0 : toNat (a.take cnt) = toNat a := by
    rw [toNat_take_mod ha, Nat.mod_eq_of_lt (by omega)]
  have I : dv_Inv cnt (toNat d * 2^shift) (db + shift) shift (toNat a) (a.take cnt)
      ((List.replicate n 0).take cnt) nb shift 0 :=
    ⟨by rw [List.length_take, hla]; omega, by rw [List.length_take, List.length_replicate]; omega,
      ha.take _, (Limbs.replicate_zero n).take _, by omega, by rw [hq0, ha0]; ring, by rw [ha0]; exact hnb,
      by omega, by intro _ _; rw [hq0], by omega⟩
  obtain ⟨num', quot', nb', hloop, hnl, hql, hnL, hqL, hlt, heq, hnb'⟩ :=
    dv_loop C (64 * cnt + 2) _ _ _ _ _ I (by split <;> omega)
  obtain ⟨hfin, hrlt⟩ := dv_exit heq hlt
  have hrs : ∃ num'', (if nb' > 0 then rightShiftUint num' shift cnt else pure num') = .ok num'' ∧
      num''.length = cnt ∧ Limbs num'' ∧ toNat num'' = toNat num' / 2^shift := by
    by_cases hp : nb' > 0
    · obtain ⟨r, hr, hrl, hrL, hrv⟩ := rightShiftUint_spec (a := num') (s := shift) (cnt := cnt) hnL (by omega) (by omega)
      rw [List.take_of_length_le (by omega)] at hrv
      exact ⟨r, by rw [if_pos hp, hr], hrl, hrL, hrv⟩
    · have h0 : toNat num' = 0 := dv_bc_eq_zero.mp (by omega)
      exact ⟨num', by rw [if_neg hp]; rfl, hnl, hnL, by rw [h0, Nat.zero_div]⟩
  obtain ⟨num'', hrs1, hrl, hrL, hrv⟩ := hrs
  have hdrop : toNat (a.drop cnt) = 0 := by
    rw [toNat_drop_div ha, Nat.div_eq_of_lt (by omega)]
  have hqdrop : toNat ((List.replicate n 0).drop cnt) = 0 := by
    rw [toNat_drop_div (Limbs.replicate_zero n), toNat_replicate_zero, Nat.zero_div]
  unfold dv_general
  dsimp only
  rw [← hcnt, ← hshift, hsd]
  simp only [bind, Except.bind]
  rw [hloop]
  dsimp only
  have hfinal : ∀ res : R (List Nat × List Nat),
      res = .ok (num'' ++ a.drop cnt, quot' ++ (List.replicate n 0).drop cnt) →
      ∃ r q, res = .ok (r, q) ∧ r.length = n ∧ q.length = n ∧ Limbs r ∧ Limbs q ∧
        toNat a = toNat q * toNat d + toNat r ∧ toNat r < toNat d := by
    intro res hres
    refine ⟨_, _, hres, ?_, ?_, hrL.append (ha.drop _), hqL.append ((Limbs.replicate_zero n).drop _), ?_, ?_⟩
    · rw [List.length_append, List.length_drop, hrl, hla]; omega
    · rw [List.length_append, List.length_drop, hql, List.length_replicate]; omega
    · rw [toNat_appendC, toNat_appendC, hdrop, hqdrop, hrv, Nat.mul_zero, Nat.mul_zero, Nat.add_zero, Nat.add_zero]
      exact hfin
    · rw [toNat_appendC, hdrop, hrv, Nat.mul_zero, Nat.add_zero]
      exact hrlt
  apply hfinal
  by_cases hp : nb' > 0
  · rw [if_pos hp] at hrs1 ⊢; rw [hrs1]; rfl
  · rw [if_neg hp] at hrs1 ⊢; rw [hrs1]; rfl

theorem divideUint_spec : DivideUintStatement := by
  intro a d n hn ha hd hla hld hD0
  have hae : a.isEmpty = false := by cases a with
    | nil => simp at hla; omega
    | cons _ _ => rfl
  have hde : d.isEmpty = false := by cases d with
    | nil => simp at hld; omega
    | cons _ _ => rfl
  rw [dv_divideUint_eq, if_neg (by omega), hae, hde, if_neg (by simp)]
  obtain ⟨nb, hnb⟩ : ∃ nb, nb = bitCount (toNat a) := ⟨_, rfl⟩
  obtain ⟨db, hdb⟩ : ∃ db, db = bitCount (toNat d) := ⟨_, rfl⟩
  rw [← hnb, ← hdb]
  have hA : toNat a < 2^nb := by rw [hnb]; exact dv_bc_lt _
  have hD : toNat d < 2^db := by rw [hdb]; exact dv_bc_lt _
  by_cases h1 : nb < db
  · rw [if_pos h1]
    refine ⟨a, List.replicate n 0, rfl, hla, List.length_replicate, ha, Limbs.replicate_zero n, ?_, ?_⟩
    · rw [toNat_replicate_zero]; omega
    · by_contra hlt
      have := dv_bc_mono (Nat.le_of_not_lt hlt); omega
  · rw [if_neg h1]
    by_cases h2 : (nb + 63) / 64 = 1
    · rw [if_pos h2]
      have h3 : 2^nb ≤ 2^64 := dv_pow_le (by omega)
      have h4 : 2^db ≤ 2^nb := dv_pow_le (by omega)
      exact dv_single hn ha hla hld hD0 (by rw [B64_eq]; omega) (by rw [B64_eq]; omega)
    · have hAn : toNat a < 2^(64*n) := by have := toNat_lt' ha; rwa [hla] at this
      have h5 : nb ≤ 64 * n := by rw [hnb]; exact dv_bc_le_iff.mpr hAn
      rw [if_neg h2, if_neg (by rw [hla, hld]; omega)]
      exact dv_general_spec ha hd hla hld hD0 hnb hdb (by omega) (by omega)

end HC
