/- Translator phase 4j: the GENERATED `ternary` and `uniform` samplers (Gen/RngFns.lean) = `Rng.ternary`, `Rng.uniformPoly` (Model/Rng.lean),
   and totality of `centered_binomial`.  Helper prefix `gs_`.  No Mathlib. -/
import Heathcliff.Proofs.GenRng2
namespace HC.GenRng
open HC HC.Rng

/-! ### `ternary` -/

/-- `match sampled { -1 => q_j - 1, 0 => 0, 1 => 1, _ => unreachable!() }` as coded (`q_j` is read only in the first arm) -/
def gs_encT (qs : List Nat) (v : Int) (j : Nat) : R Nat :=
  (if v = (-1) then (do let t3 ← idx qs j; let t4 ← ckSub t3 1; pure t4) else if v = 0 then (pure 0) else if v = 1 then (pure 1) else .error .other)

theorem gs_encT_eq {qs : List Nat} {j : Nat} (h : j < qs.length) (v : Int) : gs_encT qs v j = encTernary (qs.getD j 0) v := by
  have e := gs_idx h
  generalize qs.getD j 0 = q at e ⊢
  simp only [gs_encT, e, bind, Except.bind, encTernary, pure, Except.pure]

theorem gs_t_loop2 {σ : Type} (G : RngOps σ) (qs : List Nat) (n i : Nat) (v : Int) :
    ∀ (c j : Nat) (d : List Nat), ternary_loop2 G qs n i v c j d = gs_refCol (gs_encT qs v) n i c j d := by
  intro c
  induction c with
  | zero => intro j d; rfl
  | succ c ih => intro j d; simp only [ternary_loop2, gs_refCol, gs_encT, ih]

theorem gs_t_loop1 {σ : Type} (G : RngOps σ) (qs : List Nat) (n : Nat) (dist : Int × Int) :
    ∀ (c i : Nat) (g : σ) (d : List Nat), ternary_loop1 G qs n qs.length dist c i g d =
      gs_refOuter (fun g => G.sample_i32 dist.1 dist.2 g) (gs_encT qs) qs.length n c i g d := by
  intro c
  induction c with
  | zero => intro i g d; rfl
  | succ c ih => intro i g d; simp only [ternary_loop1, gs_refOuter, gs_t_loop2, Nat.sub_zero, ih]

theorem gs_sample_i32 (U : Uniform) (xof : Xof) (lo hi : Int) (s : St) (v : Int) (s1 : St) (h : U.i32 lo hi xof s = .ok (v, s1)) :
    (blakeOps U xof).sample_i32 lo hi (ofSt s) = .ok (ofSt s1, v) := by
  simp only [blakeOps, toSt_ofSt, h]

theorem gs_sample_u64 (U : Uniform) (xof : Xof) (lo hi : Nat) (s : St) (v : Nat) (s1 : St) (h : U.u64 lo hi xof s = .ok (v, s1)) :
    (blakeOps U xof).sample_u64 lo hi (ofSt s) = .ok (ofSt s1, v) := by
  simp only [blakeOps, toSt_ofSt, h]

theorem gs_sampleMany_length {α : Type} (draw : St → R (α × St)) : ∀ (n : Nat) (s : St) (vs : List α) (s' : St),
    sampleMany draw n s = .ok (vs, s') → vs.length = n := by
  intro n
  induction n with
  | zero => intro s vs s' h; simp only [sampleMany, Except.ok.injEq, Prod.mk.injEq] at h; rw [← h.1]; rfl
  | succ n ih =>
    intro s vs s' h
    simp only [sampleMany] at h
    split at h
    · simp at h
    · split at h
      · simp at h
      · rename_i vs2 s2 h2
        simp only [Except.ok.injEq, Prod.mk.injEq] at h
        rw [← h.1]; simp [ih _ _ _ h2]

/-- forward direction: whenever the model returns, the generated `ternary` run on the same generator state returns the same polynomial (flat) and state -/
theorem gs_ternary_fwd (U : Uniform) (xof : Xof) (s : St) (n : Nat) (moduli dest : List Nat)
    (hd : dest.length = moduli.length * n) (hB : moduli.length * n < B64)
    (c : List (List Nat)) (s' : St) (h : Rng.ternary U xof s n moduli = .ok (c, s')) :
    GenRng.ternary (blakeOps U xof) (ofSt s) moduli n dest = .ok (ofSt s', flatCM moduli.length n c) := by
  unfold Rng.ternary at h
  split at h
  · simp at h
  · rename_i vs s1 h1
    split at h
    · simp at h
    · rename_i c' h2
      simp only [Except.ok.injEq, Prod.mk.injEq] at h
      obtain ⟨rfl, rfl⟩ := h
      have hget := gs_encodeAll_get encTernary moduli vs c' h2
      have hlen := gs_sampleMany_length _ n s vs s1 h1
      obtain ⟨_, hdr, _⟩ := gs_draws_of_sampleMany (U.i32 Gen.TERNARY_LOW Gen.TERNARY_HIGH xof)
        (fun g => (blakeOps U xof).sample_i32 (-1) 1 g) (fun _ => True)
        (fun s v s1 _ he => ⟨gs_sample_i32 U xof (-1) 1 s v s1 he, trivial⟩)
        (gs_encT moduli) moduli.length (fun t j => (c'.getD j []).getD t 0) n 0 s s1 vs trivial h1
        (fun t ht j hj => by rw [gs_encT_eq hj, Nat.zero_add]; exact hget t j (by omega) hj)
      obtain ⟨d', o1, o2, o3, _⟩ := gs_refOuter_ok (fun g => (blakeOps U xof).sample_i32 (-1) 1 g) (gs_encT moduli)
        (fun t j => (c'.getD j []).getD t 0) moduli.length n hB n 0 (ofSt s) (ofSt s1) dest (by omega) hd hdr
      have hflat := gs_flat_of_pointwise moduli.length n c' d' o2 (fun t j ht hj => o3 t j (Nat.zero_le _) (by omega) hj)
      unfold GenRng.ternary
      have hu : uniformNewI32 (-1) 1 = .ok (-1, 1) := rfl
      simp only [hu, bind, Except.bind, gs_t_loop1, Nat.sub_zero]
      rw [o1, hflat]
      rfl

/-! ### `uniform`: component by component, one draw per coefficient -/

/-- `for i in 0..n { destination[i + j * n] = draw(rng) }` -/
def gs_refRow {σ : Type} (draw : σ → R (σ × Nat)) (n j : Nat) : Nat → Nat → σ → List Nat → R (σ × List Nat)
  | 0, _, g, d => pure (g, d)
  | c + 1, i, g, d => do
      let (g, v) ← draw g
      let t ← ckMul j n
      let p ← ckAdd i t
      let d ← setIdx d p v
      gs_refRow draw n j c (i + 1) g d

theorem gs_u_loop2 {σ : Type} (G : RngOps σ) (n j : Nat) (dist : Nat × Nat) :
    ∀ (c i : Nat) (g : σ) (d : List Nat), uniform_loop2 G n j dist c i g d = gs_refRow (fun g => G.sample_u64 dist.1 dist.2 g) n j c i g d := by
  intro c
  induction c with
  | zero => intro i g d; rfl
  | succ c ih => intro i g d; simp only [uniform_loop2, gs_refRow, ih]

theorem gs_refRow_ok (drawM : St → R (Nat × St)) (drawG : BlakeRNG → R (BlakeRNG × Nat))
    (hstep : ∀ s v s1, drawM s = .ok (v, s1) → drawG (ofSt s) = .ok (ofSt s1, v)) (k n j : Nat) (hj : j < k) (hB : k * n < B64) :
    ∀ (c i : Nat) (s s' : St) (vs : List Nat) (d : List Nat), i + c ≤ n → d.length = k * n → sampleMany drawM c s = .ok (vs, s') →
      ∃ d', gs_refRow drawG n j c i (ofSt s) d = .ok (ofSt s', d') ∧ d'.length = k * n ∧
        (∀ t, t < c → d'.getD (i + t + j * n) 0 = vs.getD t 0) ∧
        (∀ p, (∀ t, t < c → p ≠ i + t + j * n) → d'.getD p 0 = d.getD p 0) := by
  intro c
  induction c with
  | zero =>
    intro i s s' vs d _ hd h
    simp only [sampleMany, Except.ok.injEq, Prod.mk.injEq] at h
    obtain ⟨rfl, rfl⟩ := h
    exact ⟨d, rfl, hd, fun t ht => by omega, fun _ _ => rfl⟩
  | succ c ih =>
    intro i s s' vs d hin hd h
    simp only [sampleMany] at h
    split at h
    · simp at h
    · rename_i v s1 h1
      split at h
      · simp at h
      · rename_i vs2 s2 h2
        simp only [Except.ok.injEq, Prod.mk.injEq] at h
        obtain ⟨rfl, rfl⟩ := h
        have hi : i < n := by omega
        have hpos := gs_pos_lt hi hj
        have hmul : j * n < B64 := by omega
        obtain ⟨d', o1, o2, o3, o4⟩ := ih (i + 1) s1 s2 vs2 (d.set (i + j * n) v) (by omega) (by simp [hd]) h2
        refine ⟨d', ?_, o2, ?_, ?_⟩
        · simp only [gs_refRow, hstep _ _ _ h1, bind, Except.bind, gn_ckMul hmul, gn_ckAdd (by omega : i + j * n < B64),
            gs_setIdx (by rw [hd]; exact hpos : i + j * n < d.length)]
          exact o1
        · intro t ht
          rcases t with _ | t
          · rw [o4 _ (fun t' ht' heq => by have := (gs_pos_inj hi (by omega) heq).1; omega)]
            simpa using gs_getD_set_eq (by rw [hd]; exact hpos)
          · have := o3 t (by omega)
            have e : i + (t + 1) + j * n = i + 1 + t + j * n := by omega
            rw [e, this]; simp
        · intro p hp
          rw [o4 p (fun t ht => by have := hp (t + 1) (by omega); omega)]
          exact gs_getD_set_ne (Ne.symm (by have := hp 0 (by omega); simpa using this))

theorem gs_uniform_loop1 (U : Uniform) (xof : Xof) (qs : List Nat) (n : Nat) (hB : qs.length * n < B64) :
    ∀ (c j : Nat) (s s' : St) (C : List (List Nat)) (d : List Nat), j + c = qs.length → d.length = qs.length * n →
      uniformPoly U xof s n (qs.drop j) = .ok (C, s') →
      ∃ d', uniform_loop1 (blakeOps U xof) qs n c j (ofSt s) d = .ok (ofSt s', d') ∧ d'.length = qs.length * n ∧
        (∀ t i, t < c → i < n → d'.getD (i + (j + t) * n) 0 = (C.getD t []).getD i 0) ∧
        (∀ p, (∀ t i, t < c → i < n → p ≠ i + (j + t) * n) → d'.getD p 0 = d.getD p 0) := by
  intro c
  induction c with
  | zero =>
    intro j s s' C d hj hd h
    have : qs.drop j = [] := List.drop_eq_nil_of_le (by omega)
    rw [this] at h
    simp only [uniformPoly, Except.ok.injEq, Prod.mk.injEq] at h
    obtain ⟨rfl, rfl⟩ := h
    exact ⟨d, rfl, hd, fun t i ht => by omega, fun _ _ => rfl⟩
  | succ c ih =>
    intro j s s' C d hj hd h
    have hjl : j < qs.length := by omega
    have hdrop : qs.drop j = qs.getD j 0 :: qs.drop (j + 1) := by
      rw [List.drop_eq_getElem_cons hjl]; simp [List.getD_eq_getElem?_getD, List.getElem?_eq_getElem hjl]
    rw [hdrop] at h
    have hidx := gs_idx hjl
    generalize qs.getD j 0 = q at h hidx
    simp only [uniformPoly] at h
    split at h
    · simp at h
    · rename_i hi hsub
      split at h
      · simp at h
      · rename_i vs s1 h1
        split at h
        · simp at h
        · rename_i rest s2 h2
          simp only [Except.ok.injEq, Prod.mk.injEq] at h
          obtain ⟨rfl, rfl⟩ := h
          obtain ⟨d1, r1, r2, r3, r4⟩ := gs_refRow_ok (U.u64 0 hi xof) (fun g => (blakeOps U xof).sample_u64 0 hi g)
            (fun s v s1 he => gs_sample_u64 U xof 0 hi s v s1 he) qs.length n j hjl hB n 0 s s1 vs d (by omega) hd h1
          obtain ⟨d', o1, o2, o3, o4⟩ := ih (j + 1) s1 s2 rest d1 (by omega) r2 h2
          have hlen := gs_sampleMany_length _ n s vs s1 h1
          refine ⟨d', ?_, o2, ?_, ?_⟩
          · have hu : uniformNewU64 0 hi = .ok (0, hi) := by simp [uniformNewU64]
            simp only [uniform_loop1, hidx, hsub, hu, bind, Except.bind, gs_u_loop2, Nat.sub_zero, r1]
            exact o1
          · intro t i ht hi'
            rcases t with _ | t
            · rw [o4 _ (fun t' i' ht' hi'' heq => by have := (gs_pos_inj hi' hi'' heq).2; omega)]
              have := r3 i hi'
              simpa using this
            · have := o3 t i (by omega) hi'
              have e : j + (t + 1) = j + 1 + t := by omega
              rw [e, this]; simp
          · intro p hp
            rw [o4 p (fun t i ht hi' => by have := hp (t + 1) i (by omega) hi'; have e : j + (t + 1) = j + 1 + t := (by omega); rw [e] at this; exact this)]
            exact r4 p (fun t ht => by have := hp 0 t (by omega) ht; simpa using this)

/-- forward direction for `uniform` -/
theorem gs_uniform_fwd (U : Uniform) (xof : Xof) (s : St) (n : Nat) (moduli dest : List Nat)
    (hd : dest.length = moduli.length * n) (hB : moduli.length * n < B64)
    (c : List (List Nat)) (s' : St) (h : uniformPoly U xof s n moduli = .ok (c, s')) :
    GenRng.uniform (blakeOps U xof) (ofSt s) moduli n dest = .ok (ofSt s', flatCM moduli.length n c) := by
  obtain ⟨d', o1, o2, o3, _⟩ := gs_uniform_loop1 U xof moduli n hB moduli.length 0 s s' c dest (by omega) hd (by simpa using h)
  have hflat := gs_flat_of_pointwise moduli.length n c d' o2 (fun t j ht hj => by have := o3 j t hj ht; simpa using this)
  unfold GenRng.uniform
  simp only [Nat.sub_zero, bind, Except.bind]
  rw [o1, hflat]
  rfl

/-! ### `centered_binomial` never panics on positive moduli -/

theorem gs_centeredBinomial_total (xof : Xof) (s : St) (n : Nat) (moduli : List Nat) (hq : ∀ q ∈ moduli, 0 < q) :
    ∃ c s', centeredBinomial xof s n moduli = .ok (c, s') := by
  unfold centeredBinomial
  rw [if_neg (by decide), if_neg (by decide)]
  have hs : ∀ (n : Nat) (s : St), ∃ vs s', sampleMany (cbdDraw xof) n s = .ok (vs, s') := by
    intro n
    induction n with
    | zero => intro s; exact ⟨[], s, rfl⟩
    | succ n ih =>
      intro s
      obtain ⟨vs, s', h⟩ := ih (fillBytes xof s Gen.CBD_BYTES).2
      exact ⟨cbdValue (fillBytes xof s Gen.CBD_BYTES).1 :: vs, s', by simp only [sampleMany, cbdDraw, h]⟩
  obtain ⟨vs, s', h⟩ := hs n s
  rw [h]
  have he := encodeAll_eq encError (fun q v => (v % (q : Int)).toNat) moduli vs (fun q hq' v _ => encError_eq (hq q hq') v)
  simp only [he]
  exact ⟨_, _, rfl⟩

end HC.GenRng
