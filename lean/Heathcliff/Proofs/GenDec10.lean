/-
  Phase 4m, part 10: `half_round_up_uint` (and `add_uint_u64_inplace` / `increment_uint_inplace` it calls; src/util/basic.rs) regenerated in
  Gen/DecFns.lean = the hand model `halfRoundUp` (Model/Word.lean, specified by `halfRoundUp_spec`, C08): the negative threshold of
  `poly_infty_norm` is `(Q + 1) / 2`.
-/
import Heathcliff.Proofs.GenDec9
import Heathcliff.Proofs.GenWord5
namespace HC
open HC.GenDec

theorem gd_shift_or (x y : Nat) (hx : x < 2^64) : (x >>> 1) ||| ((y <<< 63) % B64) = x / 2 + (y % 2) * 2^63 := by
  have h1 : x >>> 1 = x / 2 := by rw [Nat.shiftRight_eq_div_pow]
  have h2 : (y <<< 63) % B64 = (y % 2) <<< 63 := by
    rw [Nat.shiftLeft_eq, Nat.shiftLeft_eq]
    have : B64 = 2 * 2^63 := by decide
    rw [this, Nat.mul_mod_mul_right]
  rw [h1, h2, Nat.or_comm, ← Nat.shiftLeft_add_eq_or_of_lt (by omega), Nat.shiftLeft_eq, Nat.add_comm]

theorem gd_and_one (x : Nat) : decide ((x &&& 1) ≠ 0) = decide (x % 2 = 1) := by
  rw [Nat.and_one_is_mod]; congr 1; apply propext; omega

theorem gd_add_u64_inplace_loop (a : List Nat) : ∀ cnt i (r : List Nat) c, r.drop i = a.drop i →
    add_uint_u64_inplace_loop1 cnt i r c = GenW.add_uint_u64_loop1 a cnt i r c := by
  intro cnt
  induction cnt with
  | zero => intro i r c _; rfl
  | succ n ih =>
    intro i r c h
    rw [add_uint_u64_inplace_loop1, GenW.add_uint_u64_loop1, gq_idx_congr r a i h]
    cases GenW.idx a i with
    | error e => rfl
    | ok x =>
      simp only [gq_ok_bind]
      unfold GenW.setIdx
      by_cases hi : i < r.length
      · simp only [if_pos hi, gq_ok_bind]
        exact ih (i+1) _ _ (gq_drop_set_succ r a i _ h)
      · simp only [if_neg hi]; rfl

/-- `add_uint_u64_inplace(operand, w)` = `addUintU64 operand w operand.len()` (new contents, carry) -/
theorem gd_add_uint_u64_inplace_eq (a : List Nat) (w : Nat) : add_uint_u64_inplace a w = addUintU64 a w a.length := by
  rw [← gx_add_uint_u64_eq]
  unfold add_uint_u64_inplace GenW.add_uint_u64
  cases GenW.idx a 0 with
  | error e => rfl
  | ok x =>
    simp only [gq_ok_bind]
    exact gd_add_u64_inplace_loop a _ 1 _ _ (gq_drop_set_succ a a 0 _ rfl)

theorem gd_increment_uint_inplace_eq (a : List Nat) : increment_uint_inplace a = addUintU64 a 1 a.length := by
  unfold increment_uint_inplace
  rw [gd_add_uint_u64_inplace_eq]
  cases addUintU64 a 1 a.length with
  | error e => rfl
  | ok p => rfl

/-- word `i` of the halved value (as in `halfRoundUp`) -/
def gd_sh (a : List Nat) (n i : Nat) : Nat := a.getD i 0 / 2 + (if i + 1 < n then (a.getD (i+1) 0 % 2) * 2^63 else 0)

theorem gd_getD (a : List Nat) (i : Nat) (h : i < a.length) : a.getD i 0 = a[i] := by
  rw [List.getD_eq_getElem?_getD, List.getElem?_eq_getElem h]; rfl

theorem gd_half_loop (a : List Nat) (ha : Limbs a) (low : Bool) (n : Nat) (hn : 1 ≤ n) (hla : n ≤ a.length) (hl64 : a.length < 2^64) :
    ∀ (f i : Nat) (r : List Nat), i + f = n - 1 → r.length = n →
      half_round_up_uint_loop1 a low n f i r =
        (let r' := r.take i ++ (List.range' i (f + 1)).map (gd_sh a n)
         if low = true then (do let (x, _) ← addUintU64 r' 1 r'.length; pure x) else pure r') := by
  intro f
  induction f with
  | zero =>
    intro i r hi hr
    have hi' : i = n - 1 := by omega
    subst hi'
    have hsub : ckSub n 1 = .ok (n - 1) := by unfold ckSub; rw [if_pos hn]
    have hlt : n - 1 < a.length := by omega
    have hltr : n - 1 < r.length := by omega
    rw [half_round_up_uint_loop1]
    simp only [hsub, gw_idx_eq a (n - 1) hlt, gx_setIdx_ok r (n - 1) _ hltr, bind, Except.bind, pure, Except.pure, gd_increment_uint_inplace_eq]
    have hset : r.set (n - 1) (a[n - 1] >>> 1) = r.take (n - 1) ++ (List.range' (n - 1) (0 + 1)).map (gd_sh a n) := by
      have := gx_take_set r (n - 1) (a[n - 1] >>> 1) hltr
      rw [List.take_of_length_le (by rw [List.length_set]; omega)] at this
      rw [this]
      simp only [Nat.zero_add, List.range'_one, List.map_cons, List.map_nil, gd_sh]
      rw [if_neg (by omega), gd_getD a _ hlt, Nat.shiftRight_eq_div_pow]; rfl
    rw [hset]
  | succ f ih =>
    intro i r hi hr
    have hlt : i < a.length := by omega
    have hlt1 : i + 1 < a.length := by omega
    have hltr : i < r.length := by omega
    have hadd : ckAdd i 1 = .ok (i + 1) := by
      unfold ckAdd; rw [if_pos (by simp only [B64]; omega)]
    rw [half_round_up_uint_loop1]
    simp only [gw_idx_eq a i hlt, hadd, gw_idx_eq a (i + 1) hlt1, gx_setIdx_ok r i _ hltr, bind, Except.bind]
    rw [ih (i + 1) _ (by omega) (by rw [List.length_set]; exact hr), gx_take_set r i _ hltr]
    have hw : a[i] < 2^64 := ha _ (List.getElem_mem hlt)
    rw [gd_shift_or _ _ hw]
    have hsh : gd_sh a n i = a[i] / 2 + a[i + 1] % 2 * 2 ^ 63 := by
      unfold gd_sh; rw [if_pos (by omega), gd_getD a i hlt, gd_getD a (i + 1) hlt1]
    rw [← hsh, List.range'_succ (s := i) (n := f + 1) (step := 1), List.map_cons, List.append_assoc]
    rfl

/-- `half_round_up_uint(operand, result)` on a zeroed result of `n ≤ operand.len()` words = the hand model `halfRoundUp operand n` -/
theorem gd_half_round_up_uint_eq (a : List Nat) (ha : Limbs a) (n : Nat) (hla : n ≤ a.length) (hl64 : a.length < 2^64) :
    half_round_up_uint a (List.replicate n 0) = halfRoundUp a n := by
  unfold half_round_up_uint halfRoundUp
  by_cases hn : n = 0
  · subst hn; rfl
  · have hn1 : 1 ≤ n := by omega
    have h0 : 0 < a.length := by omega
    have hsub : ckSub n 1 = .ok (n - 1) := by unfold ckSub; rw [if_pos hn1]
    simp only [List.length_replicate, hn, if_false, gw_idx_eq a 0 h0, hsub, bind, Except.bind, show ¬ a.length < n by omega]
    rw [gd_half_loop a ha _ n hn1 hla hl64 (n - 1) 0 (List.replicate n 0) (by omega) (by simp)]
    have hrange : List.range' 0 (n - 1 + 1) = List.range n := by rw [Nat.sub_add_cancel hn1, List.range_eq_range']
    have hhead : a.headD 0 = a[0] := by cases a with | nil => simp at h0 | cons x xs => rfl
    simp only [List.take_zero, List.nil_append, hrange, List.length_map, List.length_range, gd_and_one, hhead, decide_eq_true_eq]
    rfl

/-- the negative threshold of `poly_infty_norm` as the generated code computes it: `(Q + 1) / 2`, `k` canonical words -/
theorem gd_threshold_spec (Q : List Nat) (k : Nat) (hk : 1 ≤ k) (hQ : Limbs Q) (lQ : Q.length = k) (hk64 : k < 2^64) :
    ∃ thr, half_round_up_uint Q (List.replicate k 0) = .ok thr ∧ thr.length = k ∧ Limbs thr ∧ toNat thr = (toNat Q + 1) / 2 := by
  obtain ⟨r, hr, lr, hrL, hrv⟩ := halfRoundUp_spec (a := Q) (n := k) hk hQ (by omega)
  refine ⟨r, ?_, lr, hrL, ?_⟩
  · rw [gd_half_round_up_uint_eq Q hQ k (by omega) (by omega), hr]
  · have hQt : Q.take k = Q := by rw [← lQ]; exact List.take_length
    have hlt : toNat Q < 2^(64 * k) := by have := toNat_lt hQ; rw [lQ] at this; exact this
    have hpos : 2 ≤ 2^(64 * k) := by
      calc 2 = 2^1 := rfl
        _ ≤ 2^(64 * k) := Nat.pow_le_pow_right (by omega) (by omega)
    rw [hrv, hQt, Nat.mod_eq_of_lt (by omega)]

/-- SOURCE → MODEL, no hypothesis on the threshold: the generated `invariant_noise_budget` = plan + the model's budget
    `bits(Q) − bits(norm) − 1` (clamped) with `norm` the centred infinity norm (lift at `≥ (Q+1)/2`) of the coefficient values. -/
theorem gd_budget_source_spec_full (size : Nat) (scheme : Scheme) (k n : Nat) (Q : List Nat) (tb : Nat) (composed plan : List Nat)
    (hsize : 2 ≤ size) (hs : scheme = .bfv ∨ scheme = .bgv) (hk : 1 ≤ k) (hk64 : 64 * k < 2^63)
    (hQ : Limbs Q) (lQ : Q.length = k) (hp : Limbs composed) (hlen : composed.length = n * k) (hnk : n * k < 2^64)
    (hcQ : ∀ j, j < n → toNat (coefW composed k j) ≤ toNat Q) (htb : tb < 2^63) :
    dec_invariant_noise_budget true size scheme false k n Q tb composed plan =
      .ok (plan ++ [1] ++ (if scheme = .bfv then [2] else []) ++ [3],
           budgetOfBits tb (bitCount (normFoldV (toNat Q) ((toNat Q + 1) / 2) ((List.range' 0 n).map (fun j => toNat (coefW composed k j))) 0))) := by
  obtain ⟨thr, hthr, _, hthrL, hv⟩ := gd_threshold_spec Q k hk hQ lQ (by omega)
  rw [gd_budget_source_spec size scheme k n Q tb composed plan thr hsize hs hk hk64 hQ lQ hp hlen hnk hcQ htb hthr hthrL, hv]

end HC
