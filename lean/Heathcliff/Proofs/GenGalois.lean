import Heathcliff.Gen.GaloisFns
import Heathcliff.Model.Galois
import Heathcliff.Proofs.GenWord
import Heathcliff.Proofs.C08B

/-!
  Translator tie for src/util/galois.rs: `GaloisTool::get_elt_from_step`, `get_elts_all`, `get_index_from_elt`, generated into
  `Heathcliff/Gen/GaloisFns.lean` (namespace `HC.GenG`; the fields `coeff_count`, `coeff_count_power` of the tool are inputs),
  against `eltFromStep` / `eltsAll` of `Heathcliff/Model/Galois.lean`.  Helper names start with `gx_`.
-/
namespace HC
open HC.GenG

theorem gx_B64 : B64 = 2^64 := by decide

/-- a fold over `List.range` whose step ignores the index: peel the first step -/
theorem gx_foldl_range_succ {α : Type} (F : α → α) (x : α) (n : Nat) :
    (List.range (n+1)).foldl (fun a _ => F a) x = (List.range n).foldl (fun a _ => F a) (F x) := by
  rw [List.range_succ_eq_map, List.foldl_cons, List.foldl_map]

theorem gx_and_mask (x j : Nat) : x &&& (2^j - 1) = x % 2^j := Nat.and_two_pow_sub_one_eq_mod x j

theorem gx_pow_lt {a b : Nat} (h : a ≤ b) (hb : b < 64) : 2^a < 2^64 := Nat.pow_lt_pow_right (by decide) (by omega)

/-! ### get_elt_from_step -/
theorem gx_elt_loop_eq (s j : Nat) (hj : j ≤ 62) : ∀ cnt i e, e < 2^j →
    GenG.get_elt_from_step_loop1 s (2^j) 3 cnt i e =
      pure ((List.range cnt).foldl (fun e _ => (e * galoisGenerator) % 2^j) e) := by
  intro cnt
  induction cnt with
  | zero => intro i e _; rfl
  | succ n ih =>
    intro i e he
    have hpos : 1 ≤ 2^j := Nat.one_le_two_pow
    have hm : 2^j ≤ 2^62 := Nat.pow_le_pow_right (by decide) hj
    have h3 : e * 3 < B64 := by rw [gx_B64]; omega
    rw [GenG.get_elt_from_step_loop1, gx_foldl_range_succ (fun e => (e * galoisGenerator) % 2^j)]
    unfold ckMul ckSub
    rw [if_pos h3, if_pos hpos]
    simp only [bind, Except.bind, gx_and_mask]
    exact ih _ _ (Nat.mod_lt _ (by omega))

/-- `get_elt_from_step(step)` of a tool with `coeff_count = 2^k` is the hand model's `eltFromStep k step`
    (`k ≤ 61`: `n * 2` and `galois_elt * 3` are overflow-checked in the code, unbounded in the model; the library has k ≤ 17) -/
theorem gx_get_elt_from_step_eq (k : Nat) (hk : k ≤ 61) (step : Int) :
    GenG.get_elt_from_step step (2^k) = eltFromStep k step := by
  unfold GenG.get_elt_from_step eltFromStep
  have hn : 2^k ≤ 2^61 := Nat.pow_le_pow_right (by decide) hk
  have hn1 : 1 ≤ 2^k := Nat.one_le_two_pow
  have hm : 2^k * 2 = 2^(k+1) := by rw [Nat.pow_succ]
  have hmul : ckMul (2^k) 2 = .ok (2^(k+1)) := by
    unfold ckMul; rw [if_pos (by rw [gx_B64]; omega), hm]
  have hm2 : 2 * 2^k = 2^(k+1) := by rw [Nat.pow_succ, Nat.mul_comm]
  have hsub : ckSub (2^(k+1)) 1 = .ok (2^(k+1) - 1) := by
    unfold ckSub; rw [if_pos Nat.one_le_two_pow]
  simp only [hmul, bind, Except.bind, hm2, hsub, Nat.shiftRight_eq_div_pow, Nat.pow_one]
  by_cases h0 : step = 0
  · simp only [h0, if_true]; rfl
  · simp only [h0, if_false]
    by_cases hp : step.natAbs < 2^k / 2
    · have hge : ¬ step.natAbs ≥ 2^k / 2 := by omega
      have hlt : step.natAbs < 2^(k+1) := by omega
      simp only [hp, hge, if_true, if_false, gx_and_mask, Nat.mod_eq_of_lt hlt]
      by_cases hs : step < 0
      · have hck : ckSub (2^k / 2) step.natAbs = .ok (2^k / 2 - step.natAbs) := by
          unfold ckSub; rw [if_pos (Nat.le_of_lt hp)]
        simp only [hs, decide_true, if_true, hck]
        exact gx_elt_loop_eq _ (k+1) (by omega) _ 0 1 (Nat.one_lt_two_pow (by omega))
      · simp only [hs, decide_false, if_false, Bool.false_eq_true]
        exact gx_elt_loop_eq _ (k+1) (by omega) _ 0 1 (Nat.one_lt_two_pow (by omega))
    · have hge : step.natAbs ≥ 2^k / 2 := by omega
      simp only [hp, hge, if_true, if_false]

/-! ### get_elts_all -/
/-- the step of the hand model's fold -/
def gx_eltsF (m : Nat) (acc : List Nat × Nat × Nat) : List Nat × Nat × Nat :=
  (acc.1 ++ [acc.2.1, acc.2.2], (acc.2.1 * acc.2.1) % m, (acc.2.2 * acc.2.2) % m)

theorem gx_elts_loop_eq (j : Nat) (hj : j ≤ 32) : ∀ cnt i l p q, p < 2^j → q < 2^j →
    GenG.get_elts_all_loop1 (2^j) l cnt i p q =
      pure ((List.range cnt).foldl (fun acc _ => gx_eltsF (2^j) acc) (l, p, q)).1 := by
  intro cnt
  induction cnt with
  | zero => intro i l p q _ _; rfl
  | succ n ih =>
    intro i l p q hp hq
    have hpos : 1 ≤ 2^j := Nat.one_le_two_pow
    have hm : 2^j ≤ 2^32 := Nat.pow_le_pow_right (by decide) hj
    have hpp : p * p < B64 := by
      rw [gx_B64]
      calc p * p ≤ (2^32 - 1) * (2^32 - 1) := Nat.mul_le_mul (by omega) (by omega)
        _ < 2^64 := by decide
    have hqq : q * q < B64 := by
      rw [gx_B64]
      calc q * q ≤ (2^32 - 1) * (2^32 - 1) := Nat.mul_le_mul (by omega) (by omega)
        _ < 2^64 := by decide
    rw [GenG.get_elts_all_loop1, gx_foldl_range_succ (gx_eltsF (2^j))]
    unfold ckMul ckSub
    rw [if_pos hpp, if_pos hqq, if_pos hpos]
    simp only [bind, Except.bind, gx_and_mask]
    rw [ih _ _ _ _ (Nat.mod_lt _ (by omega)) (Nat.mod_lt _ (by omega))]
    simp only [gx_eltsF, List.append_assoc, List.cons_append, List.nil_append]

theorem gx_eltsAll_unfold (k : Nat) : eltsAll k =
    (tryInvert galoisGenerator (2 * 2^k) >>= fun o => match o with
      | none => .error .refused
      | some inv => pure ((List.range (k - 1)).foldl (fun acc _ => gx_eltsF (2 * 2^k) acc) ([2 * 2^k - 1], galoisGenerator, inv)).1) := by
  unfold eltsAll
  dsimp only
  generalize tryInvert galoisGenerator (2 * 2^k) = t
  cases t with
  | error e => rfl
  | ok o =>
    cases o with
    | none => rfl
    | some inv => rfl

/-- `get_elts_all()` of a tool with `coeff_count = 2^k`, `coeff_count_power = k` is the hand model's `eltsAll k`.
    `1 ≤ k`: the code evaluates `k * 2 - 1` and `k - 1` (checked: traps at k = 0, where the model truncates);
    `k ≤ 31`: the squarings `p * p` are overflow-checked in the code (the library has 1 ≤ k ≤ 17). -/
theorem gx_get_elts_all_eq (k : Nat) (hk1 : 1 ≤ k) (hk : k ≤ 31) : GenG.get_elts_all (2^k) k = eltsAll k := by
  rw [gx_eltsAll_unfold]
  unfold GenG.get_elts_all
  have hn : 2^k ≤ 2^31 := Nat.pow_le_pow_right (by decide) hk
  have hm2 : 2 * 2^k = 2^(k+1) := by rw [Nat.pow_succ, Nat.mul_comm]
  have hshift : (2^k <<< 1) % B64 = 2^(k+1) := by
    rw [Nat.shiftLeft_eq, Nat.pow_one, gx_B64, Nat.mod_eq_of_lt (by omega), Nat.pow_succ]
  have hge2 : 2 ≤ 2^(k+1) := by
    calc 2 = 2^1 := rfl
      _ ≤ 2^(k+1) := Nat.pow_le_pow_right (by decide) (by omega)
  have hlt61 : 2^(k+1) < 2^61 := Nat.pow_lt_pow_right (by decide) (by omega)
  have hsub : ckSub (2^(k+1)) 1 = .ok (2^(k+1) - 1) := by unfold ckSub; rw [if_pos Nat.one_le_two_pow]
  have hk2 : ckMul k 2 = .ok (k * 2) := by unfold ckMul; rw [if_pos (by rw [gx_B64]; omega)]
  have hk3 : ckSub (k * 2) 1 = .ok (k * 2 - 1) := by unfold ckSub; rw [if_pos (by omega)]
  have hk4 : ckSub k 1 = .ok (k - 1) := by unfold ckSub; rw [if_pos hk1]
  have hcop : Nat.gcd 3 (2^(k+1)) = 1 := Nat.Coprime.pow_right _ (by decide)
  obtain ⟨r, hr, hrlt, -⟩ := (tryInvert_spec_partial (v := 3) hge2 hlt61 (by decide) (by decide)).1 ⟨by decide, hcop⟩
  simp only [hshift, hm2, hsub, hk2, hk3, hk4, bind, Except.bind,
    gw_try_invert_u64_mod_u64_eq 3 (2^(k+1)) 0 (by decide) hge2 hlt61]
  have hg : galoisGenerator = 3 := rfl
  rw [hg, hr]
  simp only [pure, Except.pure]
  have h3 : 3 < 2^(k+1) := by
    calc 3 < 2^2 := by decide
      _ ≤ 2^(k+1) := Nat.pow_le_pow_right (by decide) (by omega)
  exact gx_elts_loop_eq (k+1) (by omega) _ 0 _ 3 r h3 hrlt

/-! ### get_index_from_elt -/
/-- `get_index_from_elt(g)`: refused (assertion) for even `g`, `(g - 1) / 2` for odd `g` — the table index `apply_ntt` uses -/
theorem gx_get_index_from_elt_eq (g : Nat) :
    GenG.get_index_from_elt g = if g % 2 = 1 then .ok ((g - 1) / 2) else .error .refused := by
  unfold GenG.get_index_from_elt
  rw [Nat.and_one_is_mod]
  by_cases h : g % 2 = 1
  · have hpos : g % 2 > 0 := by omega
    have h1 : 1 ≤ g := by omega
    simp only [h, if_true]
    unfold ckSub; rw [if_pos h1]
    simp only [bind, Except.bind, Nat.shiftRight_eq_div_pow, Nat.pow_one]; rfl
  · have hpos : ¬ g % 2 > 0 := by omega
    simp only [h, hpos, if_false]

end HC
