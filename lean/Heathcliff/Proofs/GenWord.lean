import Heathcliff.Gen.WordFns
import Heathcliff.Model.Word
import Heathcliff.Proofs.C08B

/-!
  Kernel-checked equalities `generated function = hand-model function` for the word layer.
  `Heathcliff/Gen/WordFns.lean` is regenerated from the Rust sources on every run (tools/rs2lean.py); the theorems below
  are what ties it to `Heathcliff/Model/Word.lean`, about which the C08 theorems are stated.  All helper names start with `gw_`.
-/
namespace HC
open HC.GenW

theorem gw_add_u64_eq (a b : Nat) : GenW.add_u64 a b = addU64 a b := rfl
theorem gw_add_u64_carry_eq (a b c : Nat) : GenW.add_u64_carry a b c = addU64Carry a b c := rfl
theorem gw_sub_u64_eq (a b : Nat) : GenW.sub_u64 a b = subU64 a b := rfl
theorem gw_sub_u64_borrow_eq (a b c : Nat) : GenW.sub_u64_borrow a b c = subU64Borrow a b c := rfl

theorem gw_increment_u64_mod_eq (x : Nat) (m : Modulus) : GenW.increment_u64_mod x m = incrementMod x m := rfl
theorem gw_decrement_u64_mod_eq (x : Nat) (m : Modulus) : GenW.decrement_u64_mod x m = decrementMod x m := rfl
theorem gw_negate_u64_mod_eq (x : Nat) (m : Modulus) : GenW.negate_u64_mod x m = negateMod x m := rfl
theorem gw_add_u64_mod_eq (a b : Nat) (m : Modulus) : GenW.add_u64_mod a b m = addMod a b m := rfl
theorem gw_sub_u64_mod_eq (a b : Nat) (m : Modulus) : GenW.sub_u64_mod a b m = subMod a b m := rfl

/-! ### u128 products (`(a as u128) * (b as u128)`, `>> 64`, `as u64`) -/
theorem gw_shr64 (x : Nat) : x >>> 64 = x / B64 := by
  rw [Nat.shiftRight_eq_div_pow]; rfl

theorem gw_multiply_u64_high_word_eq (a b : Nat) : GenW.multiply_u64_high_word a b = mulHi a b := by
  unfold GenW.multiply_u64_high_word mulHi; exact gw_shr64 _

theorem gw_multiply_u64_u64_eq (a b : Nat) : GenW.multiply_u64_u64 a b = (mulLo a b, mulHi a b) := by
  unfold GenW.multiply_u64_u64 mulHi mulLo; simp only [gw_shr64]

/-! ### Barrett reductions and products -/
theorem gw_barrett_reduce_u128_eq (x0 x1 : Nat) (m : Modulus) : GenW.barrett_reduce_u128 x0 x1 m = barrett128 x0 x1 m := by
  unfold GenW.barrett_reduce_u128 barrett128
  simp only [gw_multiply_u64_high_word_eq, gw_multiply_u64_u64_eq, gw_add_u64_eq]

theorem gw_barrett_reduce_u64_eq (x : Nat) (m : Modulus) : GenW.barrett_reduce_u64 x m = barrett64 x m := by
  unfold GenW.barrett_reduce_u64 barrett64
  simp only [gw_multiply_u64_high_word_eq]

theorem gw_multiply_u64_mod_eq (a b : Nat) (m : Modulus) : GenW.multiply_u64_mod a b m = mulMod a b m := by
  unfold GenW.multiply_u64_mod mulMod
  simp only [gw_multiply_u64_u64_eq, gw_barrett_reduce_u128_eq]

theorem gw_multiply_u64operand_mod_lazy_eq (x : Nat) (y : MulOperand) (m : Modulus) :
    GenW.multiply_u64operand_mod_lazy x y m = mulOperandModLazy x y m := by
  unfold GenW.multiply_u64operand_mod_lazy mulOperandModLazy
  simp only [gw_multiply_u64_high_word_eq]

theorem gw_multiply_u64operand_mod_eq (x : Nat) (y : MulOperand) (m : Modulus) :
    GenW.multiply_u64operand_mod x y m = mulOperandMod x y m := by
  unfold GenW.multiply_u64operand_mod mulOperandMod mulOperandModLazy
  simp only [gw_multiply_u64_high_word_eq]

theorem gw_multiply_add_u64_mod_eq (a b c : Nat) (m : Modulus) : GenW.multiply_add_u64_mod a b c m = mulAddMod a b c m := by
  unfold GenW.multiply_add_u64_mod mulAddMod
  simp only [gw_multiply_u64_u64_eq, gw_add_u64_eq, gw_barrett_reduce_u128_eq]

theorem gw_multiply_u64operand_add_u64_mod_eq (a : Nat) (b : MulOperand) (c : Nat) (m : Modulus) :
    GenW.multiply_u64operand_add_u64_mod a b c m = mulOperandAddMod a b c m := by
  unfold GenW.multiply_u64operand_add_u64_mod mulOperandAddMod
  simp only [gw_multiply_u64operand_mod_eq, gw_barrett_reduce_u64_eq, gw_add_u64_mod_eq]

/-! ### halving (`operand | (1 << 63)`) -/
theorem gw_or_pow_clear (r n : Nat) (h : r / 2^n % 2 = 0) : r ||| 2^n = r + 2^n := by
  have hs : r % 2^(n+1) = r % 2^n := by rw [Nat.mod_pow_succ, h]; simp
  have hlt : r % 2^(n+1) < 2^n := by rw [hs]; exact Nat.mod_lt _ (Nat.two_pow_pos n)
  have hlt1 : r % 2^(n+1) < 2^(n+1) := Nat.mod_lt _ (Nat.two_pow_pos _)
  have hp : 2^(n+1) = 2 * 2^n := by rw [Nat.pow_succ, Nat.mul_comm]
  have hlt2 : r % 2^(n+1) + 2^n < 2^(n+1) := by omega
  have hr : 2^(n+1) * (r / 2^(n+1)) + r % 2^(n+1) = r := Nat.div_add_mod r _
  calc r ||| 2^n = (2^(n+1) * (r / 2^(n+1)) + r % 2^(n+1)) ||| 2^n := by rw [hr]
    _ = (2^(n+1) * (r / 2^(n+1)) ||| r % 2^(n+1)) ||| 2^n := by rw [Nat.two_pow_add_eq_or_of_lt hlt1]
    _ = 2^(n+1) * (r / 2^(n+1)) ||| (r % 2^(n+1) + 2^n) := by rw [Nat.or_assoc, Nat.or_two_pow_eq_add_of_lt hlt]
    _ = 2^(n+1) * (r / 2^(n+1)) + (r % 2^(n+1) + 2^n) := by rw [← Nat.two_pow_add_eq_or_of_lt hlt2]
    _ = r + 2^n := by omega

theorem gw_or_pow_set (r n : Nat) (h : r / 2^n % 2 = 1) : r ||| 2^n = r := by
  apply Nat.eq_of_testBit_eq; intro i
  have hb : r.testBit n = true := by rw [Nat.testBit_eq_decide_div_mod_eq]; simpa using h
  rw [Nat.testBit_or, Nat.testBit_two_pow]
  by_cases hi : n = i
  · subst hi; simp [hb]
  · simp [hi]

theorem gw_or_bit63 (r : Nat) : r ||| 2^63 = r + 2^63 - (r / 2^63 % 2) * 2^63 := by
  rcases Nat.mod_two_eq_zero_or_one (r / 2^63) with h | h
  · rw [gw_or_pow_clear r 63 h, h]; omega
  · rw [gw_or_pow_set r 63 h, h]; omega

theorem gw_bit63 : (1 <<< 63) % B64 = 2^63 := by decide

theorem gw_div2_u64_mod_eq (x : Nat) (m : Modulus) : GenW.div2_u64_mod x m = div2Mod x m := by
  unfold GenW.div2_u64_mod div2Mod
  simp only [gw_add_u64_eq, Nat.and_one_is_mod, gw_bit63, gw_or_bit63]
  by_cases h : x % 2 = 1
  · have h' : x % 2 > 0 := by omega
    simp only [h, (by decide : (1:Nat) > 0), if_true, Nat.shiftRight_eq_div_pow, Nat.pow_one]
  · have h' : ¬ x % 2 > 0 := by omega
    simp only [h, h', if_false, Nat.shiftRight_eq_div_pow, Nat.pow_one]

/-! ### exponentiation: the fuel loop -/
theorem gw_bind_pure {α : Type} (x : R α) : (x >>= fun v => pure v) = x := by
  cases x <;> rfl

theorem gw_exp_loop_eq (m : Modulus) : ∀ fuel e p i,
    GenW.exponentiate_u64_mod_loop1 m fuel e p i = expLoop m fuel p e i := by
  intro fuel
  induction fuel with
  | zero => intro e p i; rfl
  | succ n ih =>
    intro e p i
    rw [GenW.exponentiate_u64_mod_loop1, expLoop]
    simp only [gw_multiply_u64_mod_eq, Nat.and_one_is_mod, Nat.shiftRight_eq_div_pow, Nat.pow_one, ih, gw_bind_pure]
    by_cases h : e % 2 = 1
    · simp only [h, (by decide : (1:Nat) > 0), if_true]
    · have h0 : e % 2 = 0 := by omega
      simp only [h0, (by decide : ¬ (0:Nat) > 0), (by decide : ¬ (0:Nat) = 1), if_false]

theorem gw_exponentiate_u64_mod_eq (x e : Nat) (m : Modulus) : GenW.exponentiate_u64_mod x e m = exponentiateMod x e m := by
  unfold GenW.exponentiate_u64_mod exponentiateMod
  simp only [gw_exp_loop_eq]

/-! ### bit count, gcd (recursion with fuel) -/
/-- `u64::leading_zeros` is modelled by `64 - bitlength`, which is only meaningful for values below 2^64: hence the hypothesis -/
theorem gw_get_significant_bit_count_eq (v : Nat) (hv : v < 2^64) :
    GenW.get_significant_bit_count v = pure (bitCount v) := by
  unfold GenW.get_significant_bit_count bitCount GenW.clz64
  by_cases h : v = 0
  · simp only [h, if_true]
  · have hl : Nat.log2 v < 64 := (Nat.log2_lt h).2 hv
    simp only [h, if_false, ckSub]
    rw [if_pos (Nat.sub_le _ _)]
    have : 64 - (64 - (Nat.log2 v + 1)) = Nat.log2 v + 1 := by omega
    rw [this]; rfl

theorem gw_gcd_rec_eq : ∀ fuel x y, GenW.gcd_rec fuel x y = pure (gcdLoop fuel x y) := by
  intro fuel
  induction fuel with
  | zero => intro x y; rfl
  | succ n ih =>
    intro x y
    rw [GenW.gcd_rec, gcdLoop]
    by_cases h1 : x < y
    · simp only [h1, if_true, ih]
    · by_cases h2 : y = 0
      · subst h2
        simp only [Nat.not_lt_zero, if_false, if_true]
      · simp only [h1, h2, if_false, GenW.ckMod, ih]
        by_cases h3 : x % y = 0
        · simp only [bind, Except.bind, h3, if_true]
        · simp only [bind, Except.bind, h3, if_false]

theorem gw_gcd_eq (x y : Nat) : GenW.gcd x y = pure (gcdU64 x y) := gw_gcd_rec_eq 200 x y

/-! ### modulo_uint: slice as list, reversed `for` loop -/
theorem gw_idx_eq (l : List Nat) (i : Nat) (h : i < l.length) : GenW.idx l i = .ok l[i] := by
  unfold GenW.idx; rw [List.getElem?_eq_getElem h]

theorem gw_modulo_uint_loop_eq (v : List Nat) (m : Modulus) : ∀ n, n ≤ v.length → ∀ x acc,
    GenW.modulo_uint_loop1 v m n x acc = ((v.take n).reverse).foldlM (fun acc lo => barrett128 lo acc m) acc := by
  intro n
  induction n with
  | zero => intro _ x acc; rfl
  | succ n ih =>
    intro hn x acc
    have hlt : n < v.length := hn
    rw [GenW.modulo_uint_loop1, List.take_succ_eq_append_getElem hlt, List.reverse_concat, List.foldlM_cons]
    simp only [gw_idx_eq v n hlt, gw_barrett_reduce_u128_eq, bind, Except.bind]
    cases barrett128 v[n] acc m with
    | error e => rfl
    | ok a => exact ih (Nat.le_of_lt hlt) _ _

/-- for the empty slice the code panics on `value.len() - 1` (`overflow`), the hand model says `oob`: hence `v ≠ []` -/
theorem gw_modulo_uint_eq (v : List Nat) (m : Modulus) (hv : v ≠ []) : GenW.modulo_uint v m = moduloUint v m := by
  match v, hv with
  | [x], _ =>
    unfold GenW.modulo_uint moduloUint
    simp only [List.length_singleton, if_true, gw_idx_eq [x] 0 (by simp), bind, Except.bind, List.getElem_cons_zero,
      gw_barrett_reduce_u64_eq]
    by_cases h : x < m.value <;> simp only [h, if_true, if_false] <;> rfl
  | x :: y :: t, _ =>
    have hlen : (x :: y :: t).length = t.length + 2 := by simp
    have hne : ¬ (x :: y :: t).length = 1 := by rw [hlen]; omega
    have hsub : ckSub (x :: y :: t).length 1 = .ok (t.length + 1) := by
      unfold ckSub; rw [if_pos (by rw [hlen]; omega), hlen]; rfl
    have hlast : t.length + 1 < (x :: y :: t).length := by rw [hlen]; omega
    unfold GenW.modulo_uint
    simp only [hne, if_false, hsub, bind, Except.bind, gw_idx_eq _ _ hlast]
    rw [gw_modulo_uint_loop_eq _ _ _ (Nat.le_of_lt hlast)]
    have hrev : (x :: y :: t).reverse = (x :: y :: t)[t.length + 1] :: ((x :: y :: t).take (t.length + 1)).reverse := by
      rw [← List.reverse_concat, ← List.take_succ_eq_append_getElem hlast, List.take_of_length_le (Nat.le_of_eq hlen)]
    unfold moduloUint
    simp only [hrev]

/-! ### dot_product_mod: two slices, forward `for` loop -/
theorem gw_add_u128_inplace_eq (a0 a1 b0 b1 : Nat) :
    GenW.add_u128_inplace a0 a1 b0 b1 =
      ((addU128 a0 a1 b0 b1).1, (addU128 a0 a1 b0 b1).2, (addU64Carry a1 b1 (addU64 a0 b0).2).2) := rfl

/-- the accumulation step of the hand model -/
def gw_dotF (acc : Nat × Nat) (p : Nat × Nat) : Nat × Nat := addU128 acc.1 acc.2 (mulLo p.1 p.2) (mulHi p.1 p.2)

theorem gw_dot_loop_ok (xs ys : List Nat) (m : Modulus) (hl : xs.length ≤ ys.length) : ∀ n i a0 a1 q0 q1,
    i + n = xs.length →
    GenW.dot_product_mod_loop1 xs ys m n i a0 a1 q0 q1 =
      barrett128 (((xs.drop i).zip (ys.drop i)).foldl gw_dotF (a0, a1)).1 (((xs.drop i).zip (ys.drop i)).foldl gw_dotF (a0, a1)).2 m := by
  intro n
  induction n with
  | zero =>
    intro i a0 a1 q0 q1 h
    have : xs.drop i = [] := List.drop_eq_nil_of_le (by omega)
    rw [GenW.dot_product_mod_loop1, this, gw_barrett_reduce_u128_eq]; rfl
  | succ n ih =>
    intro i a0 a1 q0 q1 h
    have hx : i < xs.length := by omega
    have hy : i < ys.length := by omega
    rw [GenW.dot_product_mod_loop1, List.drop_eq_getElem_cons hx, List.drop_eq_getElem_cons hy, List.zip_cons_cons, List.foldl_cons]
    simp only [gw_idx_eq _ _ hx, gw_idx_eq _ _ hy, bind, Except.bind, gw_multiply_u64_u64_eq, gw_add_u128_inplace_eq]
    exact ih (i + 1) _ _ _ _ (by omega)

theorem gw_dot_loop_oob (xs ys : List Nat) (m : Modulus) (hl : ys.length < xs.length) : ∀ n i a0 a1 q0 q1,
    i + n = xs.length → i ≤ ys.length →
    GenW.dot_product_mod_loop1 xs ys m n i a0 a1 q0 q1 = .error .oob := by
  intro n
  induction n with
  | zero => intro i a0 a1 q0 q1 h h2; omega
  | succ n ih =>
    intro i a0 a1 q0 q1 h h2
    have hx : i < xs.length := by omega
    rw [GenW.dot_product_mod_loop1]
    by_cases hy : i < ys.length
    · simp only [gw_idx_eq _ _ hx, gw_idx_eq _ _ hy, bind, Except.bind, gw_multiply_u64_u64_eq, gw_add_u128_inplace_eq]
      exact ih (i + 1) _ _ _ _ (by omega) (by omega)
    · have : GenW.idx ys i = .error .oob := by
        unfold GenW.idx; rw [List.getElem?_eq_none (by omega)]
      simp only [gw_idx_eq _ _ hx, this, bind, Except.bind]

theorem gw_dot_product_mod_eq (xs ys : List Nat) (m : Modulus) : GenW.dot_product_mod xs ys m = dotProductMod xs ys m := by
  unfold GenW.dot_product_mod dotProductMod
  by_cases hl : ys.length < xs.length
  · rw [if_pos hl]; exact gw_dot_loop_oob xs ys m hl _ 0 _ _ _ _ (by omega) (by omega)
  · rw [if_neg hl]
    have := gw_dot_loop_ok xs ys m (by omega) xs.length 0 0 0 0 0 (by omega)
    rw [List.drop_zero, List.drop_zero] at this
    exact this

/-! ### xgcd: `while` loop with fuel, i64 arithmetic -/
theorem gw_asU64_asI64 (v : Nat) (h : v < 2^64) : GenW.asU64 (asI64 v) = v := by
  unfold GenW.asU64 asI64
  split
  · simp only [Int.ofNat_eq_natCast]; omega
  · simp only [Int.ofNat_eq_natCast]; omega

/-- `(x % y) as i64 as u64` is the identity only for values below 2^64: hence `y < 2^64` -/
theorem gw_xgcd_loop_eq : ∀ fuel x y pa a pb b, y < 2^64 →
    GenW.xgcd_loop1 fuel x y pa a pb b = xgcdLoop fuel x y pa a pb b := by
  intro fuel
  induction fuel with
  | zero => intro x y pa a pb b _; rfl
  | succ n ih =>
    intro x y pa a pb b hy
    rw [GenW.xgcd_loop1, xgcdLoop]
    by_cases h : y = 0
    · simp only [h, ne_eq, not_true_eq_false, if_false, if_true]
    · have hm : x % y < 2^64 := Nat.lt_trans (Nat.mod_lt _ (Nat.pos_of_ne_zero h)) hy
      simp only [h, ne_eq, not_false_eq_true, if_true, if_false, GenW.ckDiv, GenW.ckMod, bind, Except.bind,
        gw_asU64_asI64 _ hm]
      cases ckI64 (asI64 (x / y) * a) with
      | error e => rfl
      | ok qa =>
        simp only []
        cases ckI64 (pa - qa) with
        | error e => rfl
        | ok a' =>
          simp only []
          cases ckI64 (asI64 (x / y) * b) with
          | error e => rfl
          | ok qb =>
            simp only []
            cases ckI64 (pb - qb) with
            | error e => rfl
            | ok b' => exact ih _ _ _ _ _ _ hm

theorem gw_xgcd_eq (x y : Nat) (hy : y < 2^64) : GenW.xgcd x y = HC.xgcd x y := gw_xgcd_loop_eq 200 x y 1 0 0 1 hy

/-! ### try_invert_u64_mod_u64 (uses `xgcd_spec` of Proofs/C08B for the range of the Bezout coefficient) -/
theorem gw_asI64_small (m : Nat) (h : m < 2^63) : asI64 m = (m : Int) := by
  unfold asI64; rw [if_pos h]; rfl

theorem gw_asU64_nonneg (s : Int) (h0 : 0 ≤ s) (h1 : s < 2^64) : GenW.asU64 s = s.toNat := by
  unfold GenW.asU64; omega

/-- result of `try_invert_u64_mod_u64` as (new `*result`, returned bool), against the hand model's `Option`.
    Domain: the one of `xgcd_spec` (operand below 2^63, modulus 2 ≤ m < 2^61), where the Bezout coefficient lies in [-m, m];
    outside it `(m as i64 + a) as u64` (two's complement) and the hand model's `toNat` may differ. -/
theorem gw_try_invert_u64_mod_u64_eq (v m r0 : Nat) (hv : v < 2^63) (hm2 : 2 ≤ m) (hm : m < 2^61) :
    GenW.try_invert_u64_mod_u64 v m r0 =
      (tryInvert v m >>= fun o => pure (match o with | none => (r0, false) | some r => (r, true))) := by
  unfold GenW.try_invert_u64_mod_u64 tryInvert
  by_cases h0 : v = 0
  · simp only [h0, if_true]; rfl
  · obtain ⟨pa, pb, hx, -, hlo, hhi⟩ := xgcd_spec h0 hv hm2 hm
    have hm64 : m < 2^64 := by omega
    simp only [h0, if_false, gw_xgcd_eq v m hm64, hx, bind, Except.bind]
    by_cases hg : Nat.gcd v m = 1
    · simp only [hg, ne_eq, not_true_eq_false, if_false]
      by_cases ha : pa < 0
      · have hs0 : 0 ≤ (m : Int) + pa := by omega
        have hs1 : (m : Int) + pa < 2^64 := by omega
        have hck : ckI64 ((m : Int) + pa) = .ok ((m : Int) + pa) := by
          unfold ckI64; rw [if_pos (by constructor <;> omega)]; rfl
        simp only [ha, if_true, gw_asI64_small m (by omega), Int.ofNat_eq_natCast, hck, gw_asU64_nonneg _ hs0 hs1]
        rfl
      · have hs1 : pa < 2^64 := by omega
        simp only [ha, if_false, gw_asU64_nonneg _ (by omega) hs1]
        rfl
    · simp only [hg, ne_eq, not_false_eq_true, if_true]; rfl

end HC
