import Heathcliff.Gen.DwtFns
import Heathcliff.Model.NTT

/-!
  Translator tie for the butterfly NETWORK (translator phase 4e): `DWTHandler::transform_to_rev` / `transform_from_rev`
  (src/util/dwthandler.rs), generated into `Heathcliff/Gen/DwtFns.lean` (`HC.GenD`) as functions of a structure of possibly
  panicking operations `GenD.Arithmetic α ρ σ`, against the hand model `runFwdA` / `runInvA` of `Heathcliff/Model/NTT.lean`
  (gather form, one `Array.ofFn` per layer).  Generic part: no Mathlib.  Helper names start with `gd_`.

  `RealFwd A' A P Q` / `RealInv A' A P Q`: the generated operations `A'` do not trap and return the values of the total model
  arithmetic `A` on one butterfly whose inputs satisfy the invariant `P` (roots: `Q`), and the butterfly preserves `P`.
  For total operations `P = Q = True`; for the lazy modular instance `P = (· < 4q)` resp. `(· < 2q)` (Proofs/GenDwt2.lean).
-/
namespace HC
open HC.GenD

variable {α ρ σ : Type}

/-! ### the prelude of the generated file on its success domain -/
theorem gd_idxG_ok {τ : Type} {l : List τ} {i : Nat} {x : τ} (h : l[i]? = some x) : idxG l i = .ok x := by
  unfold idxG; rw [h]

theorem gd_setIdxG_ok {τ : Type} {l : List τ} {i : Nat} (v : τ) (h : i < l.length) : setIdxG l i v = .ok (l.set i v) := by
  unfold setIdxG; rw [if_pos h]

theorem gd_sliceG_ok {τ : Type} {l : List τ} {a b : Nat} (h1 : a ≤ b) (h2 : b ≤ l.length) :
    sliceG l a b = .ok ((l.drop a).take (b - a)) := by
  unfold sliceG; rw [if_pos ⟨h1, h2⟩]

theorem gd_splitAtG_ok {τ : Type} {l : List τ} {mid : Nat} (h : mid ≤ l.length) : splitAtG l mid = .ok (l.take mid, l.drop mid) := by
  unfold splitAtG; rw [if_pos h]

theorem gd_ckAdd_ok {a b : Nat} (h : a + b < 2^64) : ckAdd a b = .ok (a + b) := by
  unfold ckAdd; have hB : B64 = 2^64 := by decide
  rw [if_pos (by rw [hB]; exact h)]

theorem gd_ckMul_ok {a b : Nat} (h : a * b < 2^64) : ckMul a b = .ok (a * b) := by
  unfold ckMul; have hB : B64 = 2^64 := by decide
  rw [if_pos (by rw [hB]; exact h)]

theorem gd_ckSub_ok {a b : Nat} (h : b ≤ a) : ckSub a b = .ok (a - b) := by
  unfold ckSub; rw [if_pos h]

theorem gd_ckShl_ok {x v : Nat} (h : v < 64) : GenW.ckShl 64 x v = .ok ((x <<< v) % 2^64) := by
  unfold GenW.ckShl; rw [if_pos h]

theorem gd_ckShr_ok {x v : Nat} (h : v < 64) : GenW.ckShr 64 x v = .ok (x >>> v) := by
  unfold GenW.ckShr; rw [if_pos h]

/-- the butterfly of `transform_to_rev` realised without traps -/
structure RealFwd (A' : GenD.Arithmetic α ρ σ) (A : Arith α ρ) (P : α → Prop) (Q : ρ → Prop) : Prop where
  guard : ∀ x, P x → A'.guard x = .ok (A.guard x)
  mul : ∀ y r, P y → Q r → A'.mul_root y r = .ok (A.mulRoot y r)
  add : ∀ x y r, P x → P y → Q r → A'.add (A.guard x) (A.mulRoot y r) = .ok (A.add (A.guard x) (A.mulRoot y r))
  sub : ∀ x y r, P x → P y → Q r → A'.sub (A.guard x) (A.mulRoot y r) = .ok (A.sub (A.guard x) (A.mulRoot y r))

/-- the butterfly of `transform_from_rev` realised without traps -/
structure RealInv (A' : GenD.Arithmetic α ρ σ) (A : Arith α ρ) (P : α → Prop) (Q : ρ → Prop) : Prop where
  add : ∀ x y, P x → P y → A'.add x y = .ok (A.add x y)
  guard : ∀ x y, P x → P y → A'.guard (A.add x y) = .ok (A.guard (A.add x y))
  sub : ∀ x y, P x → P y → A'.sub x y = .ok (A.sub x y)
  mul : ∀ x y r, P x → P y → Q r → A'.mul_root (A.sub x y) r = .ok (A.mulRoot (A.sub x y) r)

/-! ### the inner loop: `for (x, y) in left.iter_mut().zip(right.iter_mut())` -/

theorem gd_fwd_loop3 {A' : GenD.Arithmetic α ρ σ} {A : Arith α ρ} {P : α → Prop} {Q : ρ → Prop} (h : RealFwd A' A P Q)
    (r : ρ) (hr : Q r) (g : Nat) (l0 r0 : Nat → α) (hl : ∀ t, t < g → P (l0 t)) (hr0 : ∀ t, t < g → P (r0 t)) :
    ∀ fuel j (L R : List α), j + fuel = g →
      (∀ t, t < g → L[t]? = some (if t < j then A.add (A.guard (l0 t)) (A.mulRoot (r0 t) r) else l0 t)) →
      (∀ t, t < g → R[t]? = some (if t < j then A.sub (A.guard (l0 t)) (A.mulRoot (r0 t) r) else r0 t)) →
      L.length = g → R.length = g →
      ∃ L' R', transform_to_rev_loop3 A' r fuel j L R = .ok (L', R') ∧ L'.length = g ∧ R'.length = g ∧
        (∀ t, t < g → L'[t]? = some (A.add (A.guard (l0 t)) (A.mulRoot (r0 t) r))) ∧
        (∀ t, t < g → R'[t]? = some (A.sub (A.guard (l0 t)) (A.mulRoot (r0 t) r))) := by
  intro fuel
  induction fuel with
  | zero =>
    intro j L R hj hL hR hlen hrlen
    refine ⟨L, R, rfl, hlen, hrlen, fun t ht => ?_, fun t ht => ?_⟩
    · rw [hL t ht, if_pos (by omega)]
    · rw [hR t ht, if_pos (by omega)]
  | succ fuel ih =>
    intro j L R hj hL hR hlen hrlen
    have hjg : j < g := by omega
    have e1 : idxG L j = .ok (l0 j) := gd_idxG_ok (by rw [hL j hjg, if_neg (Nat.lt_irrefl j)])
    have e2 : idxG R j = .ok (r0 j) := gd_idxG_ok (by rw [hR j hjg, if_neg (Nat.lt_irrefl j)])
    have pl := hl j hjg; have pr := hr0 j hjg
    unfold transform_to_rev_loop3
    simp only [e1, e2, h.guard _ pl, h.mul _ _ pr hr, h.add _ _ _ pl pr hr, h.sub _ _ _ pl pr hr,
      gd_setIdxG_ok _ (show j < L.length by omega), gd_setIdxG_ok _ (show j < R.length by omega), bind, Except.bind]
    apply ih (j + 1) _ _ (by omega)
    · intro t ht
      rw [List.getElem?_set]
      by_cases hjt : j = t
      · subst hjt; rw [if_pos rfl, if_pos (by omega), if_pos (by omega)]
      · rw [if_neg hjt, hL t ht]
        by_cases h2 : t < j
        · rw [if_pos h2, if_pos (by omega)]
        · rw [if_neg h2, if_neg (by omega)]
    · intro t ht
      rw [List.getElem?_set]
      by_cases hjt : j = t
      · subst hjt; rw [if_pos rfl, if_pos (by omega), if_pos (by omega)]
      · rw [if_neg hjt, hR t ht]
        by_cases h2 : t < j
        · rw [if_pos h2, if_pos (by omega)]
        · rw [if_neg h2, if_neg (by omega)]
    · rw [List.length_set]; exact hlen
    · rw [List.length_set]; exact hrlen

theorem gd_inv_loop3 {A' : GenD.Arithmetic α ρ σ} {A : Arith α ρ} {P : α → Prop} {Q : ρ → Prop} (h : RealInv A' A P Q)
    (r : ρ) (hr : Q r) (g : Nat) (l0 r0 : Nat → α) (hl : ∀ t, t < g → P (l0 t)) (hr0 : ∀ t, t < g → P (r0 t)) :
    ∀ fuel j (L R : List α), j + fuel = g →
      (∀ t, t < g → L[t]? = some (if t < j then A.guard (A.add (l0 t) (r0 t)) else l0 t)) →
      (∀ t, t < g → R[t]? = some (if t < j then A.mulRoot (A.sub (l0 t) (r0 t)) r else r0 t)) →
      L.length = g → R.length = g →
      ∃ L' R', transform_from_rev_loop3 A' r fuel j L R = .ok (L', R') ∧ L'.length = g ∧ R'.length = g ∧
        (∀ t, t < g → L'[t]? = some (A.guard (A.add (l0 t) (r0 t)))) ∧
        (∀ t, t < g → R'[t]? = some (A.mulRoot (A.sub (l0 t) (r0 t)) r)) := by
  intro fuel
  induction fuel with
  | zero =>
    intro j L R hj hL hR hlen hrlen
    refine ⟨L, R, rfl, hlen, hrlen, fun t ht => ?_, fun t ht => ?_⟩
    · rw [hL t ht, if_pos (by omega)]
    · rw [hR t ht, if_pos (by omega)]
  | succ fuel ih =>
    intro j L R hj hL hR hlen hrlen
    have hjg : j < g := by omega
    have e1 : idxG L j = .ok (l0 j) := gd_idxG_ok (by rw [hL j hjg, if_neg (Nat.lt_irrefl j)])
    have e2 : idxG R j = .ok (r0 j) := gd_idxG_ok (by rw [hR j hjg, if_neg (Nat.lt_irrefl j)])
    have pl := hl j hjg; have pr := hr0 j hjg
    unfold transform_from_rev_loop3
    simp only [e1, e2, h.add _ _ pl pr, h.guard _ _ pl pr, h.sub _ _ pl pr, h.mul _ _ _ pl pr hr,
      gd_setIdxG_ok _ (show j < L.length by omega), gd_setIdxG_ok _ (show j < R.length by omega), bind, Except.bind]
    apply ih (j + 1) _ _ (by omega)
    · intro t ht
      rw [List.getElem?_set]
      by_cases hjt : j = t
      · subst hjt; rw [if_pos rfl, if_pos (by omega), if_pos (by omega)]
      · rw [if_neg hjt, hL t ht]
        by_cases h2 : t < j
        · rw [if_pos h2, if_pos (by omega)]
        · rw [if_neg h2, if_neg (by omega)]
    · intro t ht
      rw [List.getElem?_set]
      by_cases hjt : j = t
      · subst hjt; rw [if_pos rfl, if_pos (by omega), if_pos (by omega)]
      · rw [if_neg hjt, hR t ht]
        by_cases h2 : t < j
        · rw [if_pos h2, if_pos (by omega)]
        · rw [if_neg h2, if_neg (by omega)]
    · rw [List.length_set]; exact hlen
    · rw [List.length_set]; exact hrlen

/-! ### one layer: `roots[a..b].iter().enumerate().for_each(|(_i, r)| { split_at_mut; inner loop; offset += gap << 1 })` -/

theorem gd_slice_left {τ : Type} (a : List τ) (off g t : Nat) (ht : t < g) :
    (((a.drop off).take (off + 2*g - off)).take g)[t]? = a[off + t]? := by
  rw [List.getElem?_take, if_pos ht, List.getElem?_take, if_pos (by omega), List.getElem?_drop]

theorem gd_slice_right {τ : Type} (a : List τ) (off g t : Nat) (ht : t < g) :
    (((a.drop off).take (off + 2*g - off)).drop g)[t]? = a[off + g + t]? := by
  rw [List.getElem?_drop, List.getElem?_take, if_pos (by omega), List.getElem?_drop]
  congr 1; omega

theorem gd_splice_get {τ : Type} (a : List τ) (off : Nat) (L R : List τ) (g : Nat) (hL : L.length = g) (hR : R.length = g)
    (h : off + 2*g ≤ a.length) (p : Nat) :
    (spliceG a off (L ++ R))[p]? = if p < off then a[p]? else if p < off + g then L[p - off]? else
      if p < off + 2*g then R[p - off - g]? else a[p]? := by
  unfold spliceG
  have hlen : (List.take off a).length = off := by rw [List.length_take]; omega
  rw [List.getElem?_append, List.getElem?_append, List.getElem?_append]
  simp only [List.length_append, hlen, hL, hR]
  by_cases h1 : p < off
  · have c1 : p < off + (g + g) := by omega
    simp only [c1, h1, ↓reduceIte, List.getElem?_take]
  · by_cases h2 : p < off + g
    · have c1 : p < off + (g + g) := by omega
      have c2 : p - off < g := by omega
      simp only [c1, c2, h1, h2, ↓reduceIte]
    · by_cases h3 : p < off + 2*g
      · have c1 : p < off + (g + g) := by omega
        have c2 : ¬ p - off < g := by omega
        simp only [c1, c2, h1, h2, h3, ↓reduceIte]
      · have c1 : ¬ p < off + (g + g) := by omega
        simp only [c1, h1, h2, h3, ↓reduceIte, List.getElem?_drop]
        congr 1; omega

/-- the generated layer loop with the inner loop abstract (the two generated copies differ only in the inner loop they call) -/
def gd_loop2 (inner : ρ → Nat → Nat → List α → List α → R (List α × List α)) (g : Nat) (rs : List ρ) :
    Nat → Nat → List α → Nat → R (List α × Nat)
  | 0, _, a0, v5 => pure (a0, v5)
  | fuel + 1, v6, a0, v5 => do
    let v7 ← idxG rs v6
    let t7 := v5
    let t8 ← ckMul 2 g
    let t9 ← ckAdd v5 t8
    let t10 ← sliceG a0 t7 t9
    let (v8, v9) ← splitAtG t10 g
    let (v8, v9) ← inner v7 (min v8.length v9.length) 0 v8 v9
    let a0 := spliceG a0 t7 (v8 ++ v9)
    let v5 ← ckAdd v5 ((g <<< 1) % B64)
    gd_loop2 inner g rs fuel (v6 + 1) a0 v5

theorem gd_fwd_loop2_eq (A : GenD.Arithmetic α ρ σ) (g : Nat) (rs : List ρ) : ∀ fuel i a o,
    transform_to_rev_loop2 A g rs fuel i a o = gd_loop2 (transform_to_rev_loop3 A) g rs fuel i a o := by
  intro fuel
  induction fuel with
  | zero => intros; rfl
  | succ n ih => intro i a o; unfold transform_to_rev_loop2 gd_loop2; simp only [ih]

theorem gd_inv_loop2_eq (A : GenD.Arithmetic α ρ σ) (g : Nat) (rs : List ρ) : ∀ fuel i a o,
    transform_from_rev_loop2 A g rs fuel i a o = gd_loop2 (transform_from_rev_loop3 A) g rs fuel i a o := by
  intro fuel
  induction fuel with
  | zero => intros; rfl
  | succ n ih => intro i a o; unfold transform_from_rev_loop2 gd_loop2; simp only [ih]

/-- one layer in gather form: block `p / 2gap` uses root `rsf (p / 2gap)`; upper half `f`, lower half `g'` -/
def gd_layer (f g' : α → α → ρ → α) (gap : Nat) (rsf : Nat → ρ) (v : Nat → α) (p : Nat) : α :=
  if p % (2*gap) < gap then f (v p) (v (p+gap)) (rsf (p / (2*gap))) else g' (v (p-gap)) (v p) (rsf (p / (2*gap)))

theorem gd_divmod {G i p off : Nat} (hoff : off = i * G) (h1 : off ≤ p) (h2 : p < off + G) : p / G = i ∧ p % G = p - off := by
  have hG : 0 < G := by omega
  have e : p = (p - off) + G * i := by rw [Nat.mul_comm, ← hoff]; omega
  have hlt : p - off < G := by omega
  constructor
  · rw [e, Nat.add_mul_div_left _ _ hG, Nat.div_eq_of_lt hlt, Nat.zero_add]
  · conv => lhs; rw [e]
    rw [Nat.add_mul_mod_self_left, Nat.mod_eq_of_lt hlt]

theorem gd_loop2_spec (inner : ρ → Nat → Nat → List α → List α → R (List α × List α)) (f g' : α → α → ρ → α)
    (P : α → Prop) (Q : ρ → Prop) (gap m : Nat) (rs : List ρ) (rsf : Nat → ρ)
    (hrs : ∀ i, i < m → rs[i]? = some (rsf i)) (hQ : ∀ i, i < m → Q (rsf i))
    (hin : ∀ r, Q r → ∀ (l0 r0 : Nat → α), (∀ t, t < gap → P (l0 t)) → (∀ t, t < gap → P (r0 t)) → ∀ L R : List α,
        L.length = gap → R.length = gap → (∀ t, t < gap → L[t]? = some (l0 t)) → (∀ t, t < gap → R[t]? = some (r0 t)) →
        ∃ L' R', inner r (min L.length R.length) 0 L R = .ok (L', R') ∧ L'.length = gap ∧ R'.length = gap ∧
          (∀ t, t < gap → L'[t]? = some (f (l0 t) (r0 t) r)) ∧ (∀ t, t < gap → R'[t]? = some (g' (l0 t) (r0 t) r)))
    (n : Nat) (hn64 : n < 2^64) (v0 : Nat → α) (hP0 : ∀ p, p < n → P (v0 p)) :
    ∀ fuel i off (a : List α), i + fuel = m → off = i * (2*gap) → off + fuel * (2*gap) = n → a.length = n →
      (∀ p, p < n → a[p]? = some (if p < off then gd_layer f g' gap rsf v0 p else v0 p)) →
      ∃ a', gd_loop2 inner gap rs fuel i a off = .ok (a', n) ∧ a'.length = n ∧
        ∀ p, p < n → a'[p]? = some (gd_layer f g' gap rsf v0 p) := by
  intro fuel
  induction fuel with
  | zero =>
    intro i off a hi hoff hle hlen ha
    refine ⟨a, ?_, hlen, fun p hp => ?_⟩
    · have : off = n := by omega
      rw [this]; rfl
    · rw [ha p hp, if_pos (by omega)]
  | succ fuel ih =>
    intro i off a hi hoff hle hlen ha
    rw [Nat.succ_mul] at hle
    have him : i < m := by omega
    have e1 : idxG rs i = .ok (rsf i) := gd_idxG_ok (hrs i him)
    have e2 : ckMul 2 gap = .ok (2 * gap) := gd_ckMul_ok (by omega)
    have e3 : ckAdd off (2 * gap) = .ok (off + 2 * gap) := gd_ckAdd_ok (by omega)
    have e4 : sliceG a off (off + 2 * gap) = .ok ((a.drop off).take (off + 2 * gap - off)) := gd_sliceG_ok (by omega) (by omega)
    have hsl : ((a.drop off).take (off + 2 * gap - off)).length = 2 * gap := by
      rw [List.length_take, List.length_drop]; omega
    have e5 : splitAtG ((a.drop off).take (off + 2 * gap - off)) gap
        = .ok (((a.drop off).take (off + 2 * gap - off)).take gap, ((a.drop off).take (off + 2 * gap - off)).drop gap) :=
      gd_splitAtG_ok (by omega)
    have hLlen : (((a.drop off).take (off + 2 * gap - off)).take gap).length = gap := by rw [List.length_take]; omega
    have hRlen : (((a.drop off).take (off + 2 * gap - off)).drop gap).length = gap := by rw [List.length_drop]; omega
    have hval : ∀ p, off ≤ p → p < n → a[p]? = some (v0 p) := fun p h1 h2 => by rw [ha p h2, if_neg (by omega)]
    obtain ⟨L', R', e6, hL', hR', hLv, hRv⟩ := hin (rsf i) (hQ i him) (fun t => v0 (off + t)) (fun t => v0 (off + gap + t))
      (fun t ht => hP0 _ (by omega)) (fun t ht => hP0 _ (by omega)) _ _ hLlen hRlen
      (fun t ht => by rw [gd_slice_left a off gap t ht]; exact hval _ (by omega) (by omega))
      (fun t ht => by rw [gd_slice_right a off gap t ht]; exact hval _ (by omega) (by omega))
    have e7 : ckAdd off ((gap <<< 1) % B64) = .ok (off + 2 * gap) := by
      have hB : B64 = 2^64 := by decide
      rw [Nat.shiftLeft_eq, hB, Nat.pow_one, Nat.mod_eq_of_lt (by omega), Nat.mul_comm gap 2]
      exact gd_ckAdd_ok (by omega)
    unfold gd_loop2
    simp only [e1, e2, e3, e4, e5, e6, e7, bind, Except.bind]
    have hoff' : off + 2 * gap = (i + 1) * (2 * gap) := by rw [hoff, Nat.add_mul, Nat.one_mul]
    apply ih (i + 1) (off + 2 * gap) _ (by omega) hoff' (by omega)
    · unfold spliceG
      simp only [List.length_append, List.length_take, List.length_drop, hL', hR']; omega
    · intro p hp
      rw [gd_splice_get a off L' R' gap hL' hR' (by omega) p]
      by_cases h1 : p < off
      · rw [if_pos h1, ha p hp, if_pos h1, if_pos (by omega)]
      · rw [if_neg h1]
        by_cases h2 : p < off + gap
        · rw [if_pos h2, hLv _ (by omega), if_pos (by omega)]
          obtain ⟨d1, d2⟩ := gd_divmod hoff (Nat.le_of_not_lt h1) (show p < off + 2 * gap by omega)
          unfold gd_layer
          rw [d1, d2, if_pos (by omega)]
          have c1 : off + (p - off) = p := by omega
          have c2 : off + gap + (p - off) = p + gap := by omega
          simp only [c1, c2]
        · rw [if_neg h2]
          by_cases h3 : p < off + 2 * gap
          · rw [if_pos h3, hRv _ (by omega), if_pos (by omega)]
            obtain ⟨d1, d2⟩ := gd_divmod hoff (Nat.le_of_not_lt h1) h3
            unfold gd_layer
            rw [d1, d2, if_neg (by omega)]
            have c1 : off + (p - off - gap) = p - gap := by omega
            have c2 : off + gap + (p - off - gap) = p := by omega
            simp only [c1, c2]
          · rw [if_neg h3, ha p hp, if_neg h1, if_neg h3]

/-! ### the layer loop `for layer in 0..log_n` against `runFwdA` / `runInvA` -/

theorem gd_ext {l1 l2 : List α} (h1 : l1.length = l2.length) (h : ∀ p, p < l1.length → l1[p]? = l2[p]?) : l1 = l2 := by
  apply List.ext_getElem? 
  intro p
  by_cases hp : p < l1.length
  · exact h p hp
  · rw [List.getElem?_eq_none (by omega), List.getElem?_eq_none (by omega)]

theorem gd_arrFn_get [Inhabited α] (a : Array α) (p : Nat) (h : p < a.size) : a.toList[p]? = some (arrFn a p) := by
  unfold arrFn
  simp [Array.getD, h]

theorem gd_ofFn_get (n : Nat) (F : Nat → α) (p : Nat) (h : p < n) :
    (Array.ofFn (n := n) (fun i => F i.val)).toList[p]? = some (F p) := by
  simp [h]

theorem gd_runFwdA_size [Inhabited α] (A : Arith α ρ) (k : Nat) (rf : Nat → ρ) (a : Array α) (ha : a.size = 2^k) :
    ∀ l, (runFwdA A k rf a l).size = 2^k
  | 0 => ha
  | l+1 => by simp [runFwdA]

theorem gd_runInvA_size [Inhabited α] (A : Arith α ρ) (k : Nat) (rf : Nat → ρ) (a : Array α) (ha : a.size = 2^k) :
    ∀ l, (runInvA A k rf a l).size = 2^k
  | 0 => ha
  | l+1 => by simp [runInvA]

theorem gd_pow_lt64 {k : Nat} (hk : k < 64) : 2^k < 2^64 := Nat.pow_lt_pow_right (by decide) hk

theorem gd_shl_one {l : Nat} (hl : l < 64) : ((1 <<< l) % 2^64) = 2^l := by
  rw [Nat.shiftLeft_eq, Nat.one_mul, Nat.mod_eq_of_lt (gd_pow_lt64 hl)]

theorem gd_shr_pow {k l : Nat} (hl : l < k) : (2^k) >>> (1 + l) = 2^(k - l - 1) := by
  rw [Nat.shiftRight_eq_div_pow, Nat.pow_div (by omega) (by decide)]
  congr 1; omega

theorem gd_pow_split {k l : Nat} (hl : l < k) : 2^l * (2 * 2^(k - l - 1)) = 2^k := by
  rw [← Nat.pow_succ', ← Nat.pow_add]; congr 1; omega

theorem gd_fwd_loop1 {A' : GenD.Arithmetic α ρ σ} {A : Arith α ρ} {P : α → Prop} {Q : ρ → Prop} [Inhabited α]
    (h : RealFwd A' A P Q) (k : Nat) (hk : k < 64) (a : Array α) (ha : a.size = 2^k)
    (roots : List ρ) (rf : Nat → ρ) (hrf : ∀ j, j < 2^k → roots[j]? = some (rf j)) (hQ : ∀ j, 0 < j → j < 2^k → Q (rf j))
    (hP : ∀ l, l < k → ∀ p, p < 2^k → P (arrFn (runFwdA A k rf a l) p)) :
    ∀ fuel l, l + fuel = k →
      transform_to_rev_loop1 A' roots (2^k) fuel l (runFwdA A k rf a l).toList = .ok (runFwdA A k rf a k).toList := by
  intro fuel
  induction fuel with
  | zero => intro l hl; have : l = k := by omega
            subst this; rfl
  | succ fuel ih =>
    intro l hl
    have hlk : l < k := by omega
    have hk64 := gd_pow_lt64 hk
    have hpos : 0 < 2^l := Nat.pow_pos (by decide)
    have hgpos : 0 < 2^(k - l - 1) := Nat.pow_pos (by decide)
    have hsplit := gd_pow_split hlk
    have h2m : 2 * 2^l ≤ 2^k := by
      have : 2^(l+1) ≤ 2^k := Nat.pow_le_pow_right (by decide) (by omega)
      rw [Nat.pow_succ'] at this; exact this
    have hroots : 2^k ≤ roots.length := by
      have := hrf (2^k - 1) (by omega)
      have h3 : 2^k - 1 < roots.length := by
        by_cases hc : 2^k - 1 < roots.length
        · exact hc
        · rw [List.getElem?_eq_none (by omega)] at this; cases this
      omega
    have e1 : GenW.ckShl 64 1 l = .ok (2^l) := by rw [gd_ckShl_ok (by omega), gd_shl_one (by omega)]
    have e2 : ckAdd 1 l = .ok (1 + l) := gd_ckAdd_ok (by omega)
    have e3 : GenW.ckShr 64 (2^k) (1 + l) = .ok (2^(k - l - 1)) := by rw [gd_ckShr_ok (by omega), gd_shr_pow hlk]
    have e4 : ckMul 2 (2^l) = .ok (2 * 2^l) := gd_ckMul_ok (by omega)
    have e5 : sliceG roots (2^l) (2 * 2^l) = .ok ((roots.drop (2^l)).take (2 * 2^l - 2^l)) := gd_sliceG_ok (by omega) (by omega)
    have hrslen : ((roots.drop (2^l)).take (2 * 2^l - 2^l)).length = 2^l := by
      rw [List.length_take, List.length_drop]; omega
    have hsz := gd_runFwdA_size A k rf a ha l
    obtain ⟨a', e6, hlen', hval'⟩ := gd_loop2_spec (transform_to_rev_loop3 A')
      (fun x y r => A.add (A.guard x) (A.mulRoot y r)) (fun x y r => A.sub (A.guard x) (A.mulRoot y r)) P Q
      (2^(k - l - 1)) (2^l) ((roots.drop (2^l)).take (2 * 2^l - 2^l)) (fun i => rf (2^l + i))
      (fun i hi => by rw [List.getElem?_take, if_pos (by omega), List.getElem?_drop]; exact hrf _ (by omega))
      (fun i hi => hQ _ (by omega) (by omega))
      (fun r hr l0 r0 hl0 hr0 L R hL hR hLv hRv => by
        rw [hL, hR, Nat.min_self]
        exact gd_fwd_loop3 h r hr _ l0 r0 hl0 hr0 _ 0 L R (by omega)
          (fun t ht => by rw [hLv t ht, if_neg (by omega)]) (fun t ht => by rw [hRv t ht, if_neg (by omega)]) hL hR)
      (2^k) hk64 (arrFn (runFwdA A k rf a l)) (hP l hlk)
      (2^l) 0 0 (runFwdA A k rf a l).toList (by omega) (by omega) (by rw [Nat.zero_add]; exact hsplit) (by simpa using hsz)
      (fun p hp => by rw [if_neg (by omega)]; exact gd_arrFn_get _ p (by omega))
    have hnext : a' = (runFwdA A k rf a (l + 1)).toList := by
      apply gd_ext
      · rw [hlen']; simp [runFwdA]
      · intro p hp
        rw [hval' p (by omega)]
        show _ = (Array.ofFn (n := 2^k) (fun i => fwdLayer A k l rf (arrFn (runFwdA A k rf a l)) i.val)).toList[p]?
        rw [gd_ofFn_get (2^k) (fun i => fwdLayer A k l rf (arrFn (runFwdA A k rf a l)) i) p (by omega)]
        rfl
    unfold transform_to_rev_loop1
    simp only [e1, e2, e3, e4, e5, hrslen, gd_fwd_loop2_eq, e6, bind, Except.bind]
    rw [hnext]
    exact ih (l + 1) (by omega)

theorem gd_shr_pow' {k l : Nat} (hl : l < k) : (2^k) >>> (1 + l) = 2^(k - 1 - l) := by
  rw [Nat.shiftRight_eq_div_pow, Nat.pow_div (by omega) (by decide)]
  congr 1; omega

theorem gd_pow_split' {k l : Nat} (hl : l < k) : 2^(k - 1 - l) * (2 * 2^l) = 2^k := by
  rw [← Nat.pow_succ', ← Nat.pow_add]; congr 1; omega

theorem gd_inv_loop1 {A' : GenD.Arithmetic α ρ σ} {A : Arith α ρ} {P : α → Prop} {Q : ρ → Prop} [Inhabited α]
    (h : RealInv A' A P Q) (k : Nat) (hk : k < 64) (a : Array α) (ha : a.size = 2^k)
    (roots : List ρ) (rf : Nat → ρ) (hrf : ∀ j, j < 2^k → roots[j]? = some (rf j)) (hQ : ∀ j, 0 < j → j < 2^k → Q (rf j))
    (hP : ∀ l, l < k → ∀ p, p < 2^k → P (arrFn (runInvA A k rf a l) p)) :
    ∀ fuel l, l + fuel = k →
      transform_from_rev_loop1 A' roots (2^k) fuel l (runInvA A k rf a l).toList = .ok (runInvA A k rf a k).toList := by
  intro fuel
  induction fuel with
  | zero => intro l hl; have : l = k := by omega
            subst this; rfl
  | succ fuel ih =>
    intro l hl
    have hlk : l < k := by omega
    have hk64 := gd_pow_lt64 hk
    have hpos : 0 < 2^l := Nat.pow_pos (by decide)
    have hmpos : 0 < 2^(k - 1 - l) := Nat.pow_pos (by decide)
    have hsplit := gd_pow_split' hlk
    have h2m : 2 * 2^(k - 1 - l) ≤ 2^k := by
      have : 2^(k - 1 - l + 1) ≤ 2^k := Nat.pow_le_pow_right (by decide) (by omega)
      rw [Nat.pow_succ'] at this; exact this
    have hroots : 2^k ≤ roots.length := by
      have := hrf (2^k - 1) (by omega)
      have h3 : 2^k - 1 < roots.length := by
        by_cases hc : 2^k - 1 < roots.length
        · exact hc
        · rw [List.getElem?_eq_none (by omega)] at this; cases this
      omega
    have e1 : GenW.ckShl 64 1 l = .ok (2^l) := by rw [gd_ckShl_ok (by omega), gd_shl_one (by omega)]
    have e2 : ckAdd 1 l = .ok (1 + l) := gd_ckAdd_ok (by omega)
    have e3 : GenW.ckShr 64 (2^k) (1 + l) = .ok (2^(k - 1 - l)) := by rw [gd_ckShr_ok (by omega), gd_shr_pow' hlk]
    have e4 : ckMul 2 (2^(k - 1 - l)) = .ok (2 * 2^(k - 1 - l)) := gd_ckMul_ok (by omega)
    have e5 : ckSub (2^k) (2 * 2^(k - 1 - l)) = .ok (2^k - 2 * 2^(k - 1 - l)) := gd_ckSub_ok h2m
    have e6 : ckAdd (2^k - 2 * 2^(k - 1 - l)) 1 = .ok (2^k - 2 * 2^(k - 1 - l) + 1) := gd_ckAdd_ok (by omega)
    have e7 : ckSub (2^k) (2^(k - 1 - l)) = .ok (2^k - 2^(k - 1 - l)) := gd_ckSub_ok (by omega)
    have e8 : ckAdd (2^k - 2^(k - 1 - l)) 1 = .ok (2^k - 2^(k - 1 - l) + 1) := gd_ckAdd_ok (by omega)
    have e9 : sliceG roots (2^k - 2 * 2^(k - 1 - l) + 1) (2^k - 2^(k - 1 - l) + 1)
        = .ok ((roots.drop (2^k - 2 * 2^(k - 1 - l) + 1)).take (2^k - 2^(k - 1 - l) + 1 - (2^k - 2 * 2^(k - 1 - l) + 1))) :=
      gd_sliceG_ok (by omega) (by omega)
    have hrslen : ((roots.drop (2^k - 2 * 2^(k - 1 - l) + 1)).take (2^k - 2^(k - 1 - l) + 1 - (2^k - 2 * 2^(k - 1 - l) + 1))).length
        = 2^(k - 1 - l) := by
      rw [List.length_take, List.length_drop]; omega
    have hsz := gd_runInvA_size A k rf a ha l
    obtain ⟨a', e10, hlen', hval'⟩ := gd_loop2_spec (transform_from_rev_loop3 A')
      (fun x y _ => A.guard (A.add x y)) (fun x y r => A.mulRoot (A.sub x y) r) P Q
      (2^l) (2^(k - 1 - l))
      ((roots.drop (2^k - 2 * 2^(k - 1 - l) + 1)).take (2^k - 2^(k - 1 - l) + 1 - (2^k - 2 * 2^(k - 1 - l) + 1)))
      (fun i => rf (2^k - 2 * 2^(k - 1 - l) + 1 + i))
      (fun i hi => by rw [List.getElem?_take, if_pos (by omega), List.getElem?_drop]; exact hrf _ (by omega))
      (fun i hi => hQ _ (by omega) (by omega))
      (fun r hr l0 r0 hl0 hr0 L R hL hR hLv hRv => by
        rw [hL, hR, Nat.min_self]
        exact gd_inv_loop3 h r hr _ l0 r0 hl0 hr0 _ 0 L R (by omega)
          (fun t ht => by rw [hLv t ht, if_neg (by omega)]) (fun t ht => by rw [hRv t ht, if_neg (by omega)]) hL hR)
      (2^k) hk64 (arrFn (runInvA A k rf a l)) (hP l hlk)
      (2^(k - 1 - l)) 0 0 (runInvA A k rf a l).toList (by omega) (by omega) (by rw [Nat.zero_add]; exact hsplit) (by simpa using hsz)
      (fun p hp => by rw [if_neg (by omega)]; exact gd_arrFn_get _ p (by omega))
    have hnext : a' = (runInvA A k rf a (l + 1)).toList := by
      apply gd_ext
      · rw [hlen']; simp [runInvA]
      · intro p hp
        rw [hval' p (by omega)]
        show _ = (Array.ofFn (n := 2^k) (fun i => invLayer A k l rf (arrFn (runInvA A k rf a l)) i.val)).toList[p]?
        rw [gd_ofFn_get (2^k) (fun i => invLayer A k l rf (arrFn (runInvA A k rf a l)) i) p (by omega)]
        rfl
    unfold transform_from_rev_loop1
    simp only [e1, e2, e3, e4, e5, e6, e7, e8, e9, hrslen, gd_inv_loop2_eq, e10, bind, Except.bind]
    rw [hnext]
    exact ih (l + 1) (by omega)

/-! ### the scalar pass `if let Some(scalar) = scalar { for value in values.iter_mut() { .. } }` -/

theorem gd_loop4 (A' : GenD.Arithmetic α ρ σ) (s : σ) (ms : α → α) (g : Nat) (a0 : Nat → α)
    (hs : ∀ t, t < g → A'.mul_scalar (a0 t) s = .ok (ms (a0 t))) :
    ∀ fuel j (a : List α), j + fuel = g → a.length = g →
      (∀ t, t < g → a[t]? = some (if t < j then ms (a0 t) else a0 t)) →
      ∃ a', transform_to_rev_loop4 A' s fuel j a = .ok a' ∧ a'.length = g ∧ ∀ t, t < g → a'[t]? = some (ms (a0 t)) := by
  intro fuel
  induction fuel with
  | zero =>
    intro j a hj hlen ha
    exact ⟨a, rfl, hlen, fun t ht => by rw [ha t ht, if_pos (by omega)]⟩
  | succ fuel ih =>
    intro j a hj hlen ha
    have hjg : j < g := by omega
    have e1 : idxG a j = .ok (a0 j) := gd_idxG_ok (by rw [ha j hjg, if_neg (Nat.lt_irrefl j)])
    unfold transform_to_rev_loop4
    simp only [e1, hs j hjg, gd_setIdxG_ok _ (show j < a.length by omega), bind, Except.bind]
    apply ih (j + 1) _ (by omega) (by rw [List.length_set]; exact hlen)
    intro t ht
    rw [List.getElem?_set]
    by_cases hjt : j = t
    · subst hjt; rw [if_pos rfl, if_pos (by omega), if_pos (by omega)]
    · rw [if_neg hjt, ha t ht]
      by_cases h2 : t < j
      · rw [if_pos h2, if_pos (by omega)]
      · rw [if_neg h2, if_neg (by omega)]

theorem gd_loop4_eq (A' : GenD.Arithmetic α ρ σ) (s : σ) : ∀ fuel j (a : List α),
    transform_from_rev_loop4 A' s fuel j a = transform_to_rev_loop4 A' s fuel j a := by
  intro fuel
  induction fuel with
  | zero => intros; rfl
  | succ n ih => intro j a; unfold transform_from_rev_loop4 transform_to_rev_loop4; simp only [ih]

/-- the scalar pass on a list all of whose elements are multiplied without a trap: `List.map` -/
theorem gd_scalar_pass [Inhabited α] (A' : GenD.Arithmetic α ρ σ) (s : σ) (ms : α → α) (out : Array α)
    (hs : ∀ p, p < out.size → A'.mul_scalar (arrFn out p) s = .ok (ms (arrFn out p))) :
    transform_to_rev_loop4 A' s out.toList.length 0 out.toList = .ok (out.toList.map ms) := by
  obtain ⟨a', e, hlen, hv⟩ := gd_loop4 A' s ms out.size (arrFn out) hs out.size 0 out.toList (by omega) (by simp)
    (fun t ht => by rw [if_neg (by omega)]; exact gd_arrFn_get out t ht)
  have hl : out.toList.length = out.size := by simp
  rw [hl, e]
  congr 1
  apply gd_ext
  · rw [hlen]; simp
  · intro p hp
    rw [hv p (by omega), List.getElem?_map, gd_arrFn_get out p (by omega)]
    rfl

/-! ### the two functions -/

/-- the optional scalar pass on the model side -/
def gd_scaled (ms : α → σ → α) (sc : Option σ) (out : List α) : List α :=
  match sc with
  | none => out
  | some s => out.map (fun x => ms x s)

/-- GENERATED = MODEL, forward: `DWTHandler::transform_to_rev` run with operations `A'` that realise the arithmetic `A` (no trap on any
    butterfly of the run: invariant `P` on the values of every layer, `Q` on the roots used) returns `runFwdA A log_n roots values log_n`;
    with `Some(scalar)` every output is then multiplied by the scalar.  For every `log_n < 64` (`1 << log_n` traps at 64), every table
    whose first `2^log_n` entries are `rf` and every input of length `2^log_n`. -/
theorem gd_transform_to_rev_eq {A' : GenD.Arithmetic α ρ σ} {A : Arith α ρ} {P : α → Prop} {Q : ρ → Prop} [Inhabited α]
    (h : RealFwd A' A P Q) (k : Nat) (hk : k < 64) (vals : List α) (hv : vals.length = 2^k)
    (roots : List ρ) (rf : Nat → ρ) (hrf : ∀ j, j < 2^k → roots[j]? = some (rf j)) (hQ : ∀ j, 0 < j → j < 2^k → Q (rf j))
    (hP : ∀ l, l < k → ∀ p, p < 2^k → P (arrFn (runFwdA A k rf vals.toArray l) p))
    (sc : Option σ) (ms : α → σ → α)
    (hs : ∀ s, sc = some s → ∀ p, p < 2^k → A'.mul_scalar (arrFn (runFwdA A k rf vals.toArray k) p) s
            = .ok (ms (arrFn (runFwdA A k rf vals.toArray k) p) s)) :
    transform_to_rev A' vals k roots sc = .ok (gd_scaled ms sc (runFwdA A k rf vals.toArray k).toList) := by
  have e1 : GenW.ckShl 64 1 k = .ok (2^k) := by rw [gd_ckShl_ok hk, gd_shl_one hk]
  have e2 := gd_fwd_loop1 h k hk vals.toArray (by simpa using hv) roots rf hrf hQ hP k 0 (by omega)
  have e3 : (runFwdA A k rf vals.toArray 0).toList = vals := by simp [runFwdA]
  rw [e3] at e2
  unfold transform_to_rev
  simp only [e1, e2, bind, Except.bind]
  cases sc with
  | none => rfl
  | some s =>
    have hsz := gd_runFwdA_size A k rf vals.toArray (by simpa using hv) k
    have e4 := gd_scalar_pass A' s (fun x => ms x s) (runFwdA A k rf vals.toArray k) (fun p hp => hs s rfl p (by omega))
    simp only [e4, bind, Except.bind]
    rfl

/-- GENERATED = MODEL, inverse: `DWTHandler::transform_from_rev` returns `runInvA A log_n roots values log_n`, then the scalar pass -/
theorem gd_transform_from_rev_eq {A' : GenD.Arithmetic α ρ σ} {A : Arith α ρ} {P : α → Prop} {Q : ρ → Prop} [Inhabited α]
    (h : RealInv A' A P Q) (k : Nat) (hk : k < 64) (vals : List α) (hv : vals.length = 2^k)
    (roots : List ρ) (rf : Nat → ρ) (hrf : ∀ j, j < 2^k → roots[j]? = some (rf j)) (hQ : ∀ j, 0 < j → j < 2^k → Q (rf j))
    (hP : ∀ l, l < k → ∀ p, p < 2^k → P (arrFn (runInvA A k rf vals.toArray l) p))
    (sc : Option σ) (ms : α → σ → α)
    (hs : ∀ s, sc = some s → ∀ p, p < 2^k → A'.mul_scalar (arrFn (runInvA A k rf vals.toArray k) p) s
            = .ok (ms (arrFn (runInvA A k rf vals.toArray k) p) s)) :
    transform_from_rev A' vals k roots sc = .ok (gd_scaled ms sc (runInvA A k rf vals.toArray k).toList) := by
  have e1 : GenW.ckShl 64 1 k = .ok (2^k) := by rw [gd_ckShl_ok hk, gd_shl_one hk]
  have e2 := gd_inv_loop1 h k hk vals.toArray (by simpa using hv) roots rf hrf hQ hP k 0 (by omega)
  have e3 : (runInvA A k rf vals.toArray 0).toList = vals := by simp [runInvA]
  rw [e3] at e2
  unfold transform_from_rev
  simp only [e1, e2, bind, Except.bind]
  cases sc with
  | none => rfl
  | some s =>
    have e4 := gd_scalar_pass A' s (fun x => ms x s) (runInvA A k rf vals.toArray k) (fun p hp => hs s rfl p (by
      rw [gd_runInvA_size A k rf vals.toArray (by simpa using hv) k] at hp; exact hp))
    simp only [gd_loop4_eq, e4, bind, Except.bind]
    rfl

/-! ### ANY arithmetic with total operations -/

/-- total operations as a `GenD.Arithmetic` -/
def gd_total (A : Arith α ρ) (ms : α → σ → α) : GenD.Arithmetic α ρ σ :=
  { add := fun a b => pure (A.add a b), sub := fun a b => pure (A.sub a b), mul_root := fun a r => pure (A.mulRoot a r),
    mul_scalar := fun a s => pure (ms a s), guard := fun a => pure (A.guard a) }

theorem gd_total_fwd (A : Arith α ρ) (ms : α → σ → α) : RealFwd (gd_total A ms) A (fun _ => True) (fun _ => True) :=
  ⟨fun _ _ => rfl, fun _ _ _ _ => rfl, fun _ _ _ _ _ _ => rfl, fun _ _ _ _ _ _ => rfl⟩

theorem gd_total_inv (A : Arith α ρ) (ms : α → σ → α) : RealInv (gd_total A ms) A (fun _ => True) (fun _ => True) :=
  ⟨fun _ _ _ _ => rfl, fun _ _ _ _ => rfl, fun _ _ _ _ => rfl, fun _ _ _ _ _ _ => rfl⟩

/-- for ANY arithmetic structure with total operations the generated forward network IS the model network (no further hypothesis) -/
theorem gd_transform_to_rev_total [Inhabited α] (A : Arith α ρ) (ms : α → σ → α) (k : Nat) (hk : k < 64) (vals : List α)
    (hv : vals.length = 2^k) (roots : List ρ) (rf : Nat → ρ) (hrf : ∀ j, j < 2^k → roots[j]? = some (rf j)) (sc : Option σ) :
    transform_to_rev (gd_total A ms) vals k roots sc = .ok (gd_scaled ms sc (runFwdA A k rf vals.toArray k).toList) :=
  gd_transform_to_rev_eq (gd_total_fwd A ms) k hk vals hv roots rf hrf (fun _ _ _ => trivial) (fun _ _ _ _ => trivial) sc ms
    (fun _ _ _ _ => rfl)

theorem gd_transform_from_rev_total [Inhabited α] (A : Arith α ρ) (ms : α → σ → α) (k : Nat) (hk : k < 64) (vals : List α)
    (hv : vals.length = 2^k) (roots : List ρ) (rf : Nat → ρ) (hrf : ∀ j, j < 2^k → roots[j]? = some (rf j)) (sc : Option σ) :
    transform_from_rev (gd_total A ms) vals k roots sc = .ok (gd_scaled ms sc (runInvA A k rf vals.toArray k).toList) :=
  gd_transform_from_rev_eq (gd_total_inv A ms) k hk vals hv roots rf hrf (fun _ _ _ => trivial) (fun _ _ _ _ => trivial) sc ms
    (fun _ _ _ _ => rfl)

end HC
