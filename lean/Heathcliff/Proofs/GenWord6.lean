import Heathcliff.Gen.Word2Fns
import Heathcliff.Proofs.GenWord5

/-!
  Translator tie (phase 4d) for `util::naf` (src/util/number_theory.rs; i32 arithmetic), generated into Gen/Word2Fns.lean
  (`GenW2.naf`, `GenW2.naf_loop1`), against `HC.naf` / `nafLoop` of Model/Word.lean.  Helper names start with `gn_`.
-/
namespace HC
open HC.GenW2

theorem gn_toNat_mod (v : Nat) (hv : v < 2^31) : ((v : Int) % 4294967296).toNat = v := by omega

theorem gn_asI32_small (n : Nat) (hn : n < 2^31) : GenW2.asI32 n = (n : Int) := by
  unfold GenW2.asI32
  have : n % 4294967296 = n := Nat.mod_eq_of_lt (by omega)
  rw [this, if_pos (by omega)]; rfl

theorem gn_andI32_1 (v : Nat) (hv : v < 2^31) : GenW2.andI32 (v : Int) 1 = ((v % 2 : Nat) : Int) := by
  unfold GenW2.andI32
  rw [gn_toNat_mod v hv, show ((1 : Int) % 4294967296).toNat = 1 by decide, Nat.and_one_is_mod, gn_asI32_small _ (by omega)]

theorem gn_andI32_3 (v : Nat) (hv : v < 2^31) : GenW2.andI32 (v : Int) 3 = ((v % 4 : Nat) : Int) := by
  unfold GenW2.andI32
  rw [gn_toNat_mod v hv, show ((3 : Int) % 4294967296).toNat = 3 by decide,
    show (3 : Nat) = 2^2 - 1 by decide, Nat.and_two_pow_sub_one_eq_mod, gn_asI32_small _ (by omega)]

theorem gn_ckI32_ok (z : Int) (h1 : -(2^31 : Int) ≤ z) (h2 : z < 2^31) : GenW2.ckI32 z = .ok z := by
  unfold GenW2.ckI32; rw [if_pos ⟨h1, h2⟩]; rfl

theorem gn_shl_one (i : Nat) (hi : i ≤ 30) : GenW2.ckShlI32 1 (i : Int) = .ok ((2^i : Nat) : Int) := by
  unfold GenW2.ckShlI32
  have hp : 2^i ≤ 2^30 := Nat.pow_le_pow_right (by omega) hi
  rw [if_pos (by omega), show ((1 : Int) % 4294967296).toNat = 1 by decide, Int.toNat_natCast, Nat.one_mul,
    gn_asI32_small _ (by omega)]

/-- the model's digit at a non-zero `v`, and what is left after it -/
def gn_zi (v : Nat) : Int := if v % 2 = 1 then 2 - ((v % 4 : Nat) : Int) else 0
def gn_next (v : Nat) : Nat := (((v : Int) - gn_zi v) / 2).toNat

theorem gn_zi_range (v : Nat) : -1 ≤ gn_zi v ∧ gn_zi v ≤ 1 := by unfold gn_zi; split <;> omega
theorem gn_next_le (v : Nat) : gn_next v ≤ (v + 1) / 2 := by unfold gn_next gn_zi; split <;> omega
theorem gn_next_pos (v : Nat) (h : 1 ≤ gn_next v) : 2 ≤ v := by unfold gn_next gn_zi at h; split at h <;> omega
theorem gn_next_nonneg (v : Nat) : (0 : Int) ≤ ((v : Int) - gn_zi v) / 2 := by unfold gn_zi; split <;> omega

/-- one step of the model's loop in terms of `gn_zi` / `gn_next` -/
theorem gn_nafLoop_succ (fuel v i : Nat) (s : Bool) (acc : List Int) (hv : v ≠ 0) :
    nafLoop (fuel + 1) v i s acc =
      nafLoop fuel (gn_next v) (i + 1) s (if gn_zi v ≠ 0 then ((if s then -gn_zi v else gn_zi v) * ((2^i : Nat) : Int)) :: acc else acc) := by
  rw [nafLoop, if_neg hv]; rfl

theorem gn_nafLoop_acc : ∀ fuel v i s acc, nafLoop fuel v i s acc = acc.reverse ++ nafLoop fuel v i s [] := by
  intro fuel
  induction fuel with
  | zero => intro v i s acc; simp [nafLoop]
  | succ n ih =>
    intro v i s acc
    by_cases hv : v = 0
    · subst hv; simp [nafLoop]
    · rw [gn_nafLoop_succ _ _ _ _ _ hv, gn_nafLoop_succ _ _ _ _ _ hv]
      by_cases hz : gn_zi v ≠ 0
      · rw [if_pos hz, if_pos hz, ih _ _ _ (_ :: acc), ih _ _ _ [_]]; simp
      · rw [if_neg hz, if_neg hz]; exact ih _ _ _ _

/-- loop invariant: `V` = |value|; `v` = what is left at bit position `i` -/
def gn_Inv (V v i : Nat) : Prop := v * 2^i < V + 2^i ∧ (1 ≤ v → 2^i ≤ 2 * V)

theorem gn_Inv_bounds {V v i : Nat} (hV : V < 2^30) (h : gn_Inv V v i) (hv : 1 ≤ v) : v < 2^30 ∧ i ≤ 30 := by
  obtain ⟨h1, h2⟩ := h
  have h3 := h2 hv
  have hpos : 0 < 2^i := Nat.two_pow_pos i
  constructor
  · have : (v - 1) * 2^i < V := by
      have : (v - 1) * 2^i + 2^i = v * 2^i := by rw [← Nat.succ_mul]; congr 1; omega
      omega
    have : v - 1 ≤ (v - 1) * 2^i := Nat.le_mul_of_pos_right _ hpos
    omega
  · by_contra hc
    have : 2^31 ≤ 2^i := Nat.pow_le_pow_right (by omega) (by omega)
    omega

theorem gn_Inv_step {V v i : Nat} (h : gn_Inv V v i) (hv : 1 ≤ v) : gn_Inv V (gn_next v) (i + 1) := by
  obtain ⟨h1, h2⟩ := h
  have hpos : 0 < 2^i := Nat.two_pow_pos i
  have hv' := gn_next_le v
  have h6 : 2^(i+1) = 2^i + 2^i := by rw [Nat.pow_succ]; omega
  refine ⟨?_, ?_⟩
  · have : gn_next v * 2^(i+1) ≤ (v + 1) / 2 * 2^(i+1) := Nat.mul_le_mul_right _ hv'
    have h4 : (v + 1) / 2 * 2^(i+1) ≤ (v + 1) * 2^i := by
      rw [Nat.pow_succ, ← Nat.mul_assoc, Nat.mul_right_comm]
      exact Nat.mul_le_mul_right _ (Nat.div_mul_le_self _ _)
    have h5 : (v + 1) * 2^i = v * 2^i + 2^i := by rw [Nat.succ_mul]
    omega
  · intro h
    have hv2 := gn_next_pos v h
    have : 2 * 2^i ≤ v * 2^i := Nat.mul_le_mul_right _ hv2
    omega

theorem gn_loop_eq (V : Nat) (hV : V < 2^30) (s : Bool) : ∀ fuel v i (res : List Int), gn_Inv V v i →
    GenW2.naf_loop1 res s fuel (v : Int) (i : Int) = .ok (res ++ nafLoop fuel v i s []) := by
  intro fuel
  induction fuel with
  | zero => intro v i res _; simp [GenW2.naf_loop1, nafLoop, gq_pure_eq]
  | succ n ih =>
    intro v i res hinv
    by_cases hv0 : v = 0
    · subst hv0; simp [GenW2.naf_loop1, nafLoop, gq_pure_eq]
    · have hv : 1 ≤ v := by omega
      obtain ⟨hvb, hib⟩ := gn_Inv_bounds hV hinv hv
      have hnext := gn_Inv_step hinv hv
      have hpos : ((v : Int) > 0) := by omega
      have hp : 2^i ≤ 1073741824 := Nat.pow_le_pow_right (by omega) hib
      have hzr := gn_zi_range v
      rw [GenW2.naf_loop1, gn_nafLoop_succ _ _ _ _ _ hv0, if_pos hpos, gn_andI32_1 v (by omega), gn_andI32_3 v (by omega)]
      have hzi : (if ((v % 2 : Nat) : Int) ≠ 0 then GenW2.ckI32 (2 - ((v % 4 : Nat) : Int)) else pure 0) = .ok (gn_zi v) := by
        unfold gn_zi
        by_cases hodd : v % 2 = 1
        · rw [if_pos (by omega), if_pos hodd, gn_ckI32_ok _ (by omega) (by omega)]
        · rw [if_neg (by omega), if_neg hodd]; rfl
      have hsub : GenW2.ckI32 ((v : Int) - gn_zi v) = .ok ((v : Int) - gn_zi v) := gn_ckI32_ok _ (by omega) (by omega)
      have hshr : GenW2.shrI32 ((v : Int) - gn_zi v) 1 = ((gn_next v : Nat) : Int) := by
        unfold GenW2.shrI32 gn_next
        rw [Int.toNat_of_nonneg (gn_next_nonneg v)]; rfl
      have hinc : GenW2.ckI32 ((i : Int) + 1) = .ok (((i + 1 : Nat)) : Int) := by
        rw [gn_ckI32_ok _ (by omega) (by omega)]; rfl
      simp only [hzi, gq_ok_bind, hsub, hshr]
      by_cases hz : gn_zi v ≠ 0
      · have hzc : gn_zi v = 1 ∨ gn_zi v = -1 := by omega
        have hsg : (if s = true then GenW2.ckI32 (-gn_zi v) else (Except.ok (gn_zi v) : R Int)) = .ok (if s = true then -gn_zi v else gn_zi v) := by
          cases s
          · rfl
          · simp only [if_true]; exact gn_ckI32_ok _ (by omega) (by omega)
        have hd : GenW2.ckI32 ((if s = true then -gn_zi v else gn_zi v) * ((2^i : Nat) : Int)) =
            .ok ((if s = true then -gn_zi v else gn_zi v) * ((2^i : Nat) : Int)) := by
          have hq0 : (0 : Int) ≤ ((2^i : Nat) : Int) := Int.natCast_nonneg _
          have hq1 : ((2^i : Nat) : Int) ≤ ((1073741824 : Nat) : Int) := Int.ofNat_le.mpr hp
          generalize ((2^i : Nat) : Int) = P at hq0 hq1 ⊢
          apply gn_ckI32_ok <;> rcases hzc with h | h <;> rw [h] <;> cases s <;> simp only [if_true, Bool.false_eq_true, if_false] <;> omega
        simp only [if_pos hz, hsg, gq_ok_bind, gn_shl_one i hib, hd, gq_pure_eq, hinc]
        rw [ih _ _ _ hnext, gn_nafLoop_acc _ _ _ _ [_]]
        simp
      · simp only [if_neg hz, gq_pure_eq, gq_ok_bind, hinc]
        exact ih _ _ _ hnext

/-- `util::naf` (generated) = `HC.naf` of the hand model for `|value| < 2^30`.  The bound is where the two can part: the code computes the
    digit at position `i` as `±1 * (1_i32 << i)`; for `2^30 ≤ |value| < 2^31` a digit at `i = 31` can occur, where `1 << 31 = i32::MIN` (so
    `+2^31` becomes `-2^31`, and `-1 * i32::MIN` panics), whereas the model's `2^i` is unbounded.  Rotation steps are `< N/2 ≤ 2^16`. -/
theorem gn_naf_eq (value : Int) (h : value.natAbs < 2^30) : GenW2.naf value = HC.naf value := by
  unfold GenW2.naf HC.naf
  have habs : GenW2.ckI32 (Int.ofNat value.natAbs) = .ok ((value.natAbs : Nat) : Int) := gn_ckI32_ok _ (by simp only [Int.ofNat_eq_natCast]; omega) (by simp only [Int.ofNat_eq_natCast]; omega)
  rw [if_neg (by omega)]
  simp only [habs, gq_ok_bind]
  have hinv : gn_Inv value.natAbs value.natAbs 0 := ⟨by omega, by intro _; omega⟩
  have := gn_loop_eq value.natAbs h (decide (value < 0)) 40 value.natAbs 0 [] hinv
  rw [Nat.cast_zero] at this
  rw [this]; simp [gq_pure_eq]

/-- outside the range of `i32::abs`: `naf(i32::MIN)` panics in the code and is refused by the model -/
theorem gn_naf_min : GenW2.naf (-2147483648) = .error .overflow ∧ HC.naf (-2147483648) = .error .overflow := by
  constructor <;> decide

end HC
