/-
  C14S: serialization — closed-form sizes, the selected-terms mask identity, the byte-width rule of the
  compact format and stream framing as a monoid law (helpers tagged `c14s_`).
  Everything except the section "instantiation with the model's NTT" is core Lean; that section uses the C09
  theorems (`intt_ntt`, `ntt_intt`, `intt_sim`, `NTTTables.new_wf_u64`).
-/
import Heathcliff.Proofs.Codec
import Heathcliff.Proofs.CodecExact
import Heathcliff.Proofs.C09G
namespace HC.Codec

/-! ## S3  the byte-width rule `get_u64_limit` -/

theorem c14s_pow256 (w : Nat) : (256 : Nat) ^ w = 2 ^ (8 * w) := by
  rw [show (256 : Nat) = 2 ^ 8 by rfl, ← Nat.pow_mul]

theorem c14s_u64Limit_zero : u64Limit 0 = 0 := by decide

theorem c14s_bitCount_pos (q : Nat) (hq : q ≠ 0) : bitCount q = Nat.log2 q + 1 := by
  simp [bitCount, hq]

theorem c14s_u64Limit_pos (q : Nat) (hq : q ≠ 0) : 1 ≤ u64Limit q := by
  unfold u64Limit; rw [c14s_bitCount_pos q hq]; omega

/-- the chosen width holds the modulus itself (strictly) … -/
theorem c14s_u64Limit_upper (q : Nat) : q < 256 ^ u64Limit q := by
  by_cases hq : q = 0
  · subst hq; decide
  · exact u64Limit_width (q + 1) q (Nat.lt_succ_self q) |> fun h => by
      -- `u64Limit_width` is stated for residues; redo it for `q` itself
      have h1 : q < 2 ^ (Nat.log2 q + 1) := Nat.lt_log2_self
      have h4 : Nat.log2 q + 1 ≤ 8 * u64Limit q := by
        unfold u64Limit; rw [c14s_bitCount_pos q hq]; omega
      have h5 : 2 ^ (Nat.log2 q + 1) ≤ 2 ^ (8 * u64Limit q) := Nat.pow_le_pow_right (by decide) h4
      rw [c14s_pow256]; omega

/-- … and one byte less does not -/
theorem c14s_u64Limit_lower (q : Nat) (hq : q ≠ 0) : 256 ^ (u64Limit q - 1) ≤ q := by
  have h1 : 2 ^ Nat.log2 q ≤ q := Nat.log2_self_le hq
  have h4 : 8 * (u64Limit q - 1) ≤ Nat.log2 q := by
    unfold u64Limit; rw [c14s_bitCount_pos q hq]; omega
  have h5 : 2 ^ (8 * (u64Limit q - 1)) ≤ 2 ^ Nat.log2 q := Nat.pow_le_pow_right (by decide) h4
  rw [c14s_pow256]; omega

/-- THE RULE, exactly as the code has it: `get_u64_limit q` is the least `w` with `q < 256^w`
    (every `q`, including `0` ↦ `0`) -/
theorem c14s_u64Limit_le_iff (q w : Nat) : u64Limit q ≤ w ↔ q < 256 ^ w := by
  constructor
  · intro h
    exact Nat.lt_of_lt_of_le (c14s_u64Limit_upper q) (Nat.pow_le_pow_right (by decide) h)
  · intro h
    by_cases hq : q = 0
    · subst hq; rw [c14s_u64Limit_zero]; exact Nat.zero_le _
    · apply Nat.le_of_not_lt
      intro hlt
      have h1 : w ≤ u64Limit q - 1 := by omega
      have h2 : 256 ^ w ≤ 256 ^ (u64Limit q - 1) := Nat.pow_le_pow_right (by decide) h1
      have h3 := c14s_u64Limit_lower q hq
      omega

theorem c14s_u64Limit_eq_iff (q w : Nat) (hq : q ≠ 0) :
    u64Limit q = w ↔ (1 ≤ w ∧ 256 ^ (w - 1) ≤ q ∧ q < 256 ^ w) := by
  constructor
  · intro h; subst h
    exact ⟨c14s_u64Limit_pos q hq, c14s_u64Limit_lower q hq, c14s_u64Limit_upper q⟩
  · intro ⟨h1, h2, h3⟩
    have a : u64Limit q ≤ w := (c14s_u64Limit_le_iff q w).mpr h3
    have b : ¬ u64Limit q ≤ w - 1 := by
      intro hb
      have := (c14s_u64Limit_le_iff q (w - 1)).mp hb
      omega
    omega

theorem c14s_u64Limit_mono (a b : Nat) (h : a ≤ b) : u64Limit a ≤ u64Limit b :=
  (c14s_u64Limit_le_iff a _).mpr (Nat.lt_of_le_of_lt h (c14s_u64Limit_upper b))

/-- a `u64` never needs more than 8 bytes -/
theorem c14s_u64Limit_le_8 (q : Nat) (h : q < 2 ^ 64) : u64Limit q ≤ 8 :=
  (c14s_u64Limit_le_iff q 8).mpr (by rw [c14s_pow256]; exact h)

/-- the admissible moduli `2 ≤ q < 2^61` get between 1 and 8 bytes -/
theorem c14s_u64Limit_range (q : Nat) (h2 : 2 ≤ q) (h61 : q < 2 ^ 61) : 1 ≤ u64Limit q ∧ u64Limit q ≤ 8 :=
  ⟨c14s_u64Limit_pos q (by omega), c14s_u64Limit_le_8 q (by omega)⟩

/-- what the reader gets back from `w` bytes: the value modulo `256^w` -/
theorem c14s_leVal_leBytes_mod (w v : Nat) : leVal (leBytes w v) = v % 256 ^ w := by
  induction w generalizing v with
  | zero => simp [leBytes, leVal, Nat.mod_one]
  | succ n ih =>
    simp only [leBytes, leVal, ih]
    rw [Nat.pow_succ, Nat.mul_comm (256 ^ n) 256, Nat.mod_mul]

theorem c14s_u8_valid_of_lt (b : Nat) (h : b < 256) : u8C.valid b := by
  show b < 256 ^ 1; simpa using h

theorem c14s_leBytes_valid (w v : Nat) : (repC w u8C).valid (leBytes w v) :=
  repC_valid_of u8C w (leBytes w v) (leBytes_length w v) (fun b hb => c14s_u8_valid_of_lt b (leBytes_lt w v b hb))

/-- `read_u64_limited` after the byte loop of `write_u64_limited` with ANY width `w` and ANY value
    (ignoring the writer's final assertion): the value modulo `256^w` -/
theorem c14s_limC_dec_enc (w v : Nat) (rest : Bytes) :
    (limC w).dec ((limC w).enc v ++ rest) = .ok (v % 256 ^ w, rest) := by
  have hv := c14s_leBytes_valid w v
  have h := (mapC_lawful (repC w u8C) (leBytes w) leVal (repC_lawful w u8C u8C_lawful)).rt v hv rest
  have h2 : (mapC (repC w u8C) (leBytes w) leVal).norm v = v % 256 ^ w := by
    show leVal ((repC w u8C).norm (leBytes w v)) = _
    rw [repC_exact w u8C u8C_exact (leBytes w v) hv, c14s_leVal_leBytes_mod]
  rw [h2] at h
  exact h

/-- a width is lossless for a value iff the value is below `256^w` -/
theorem c14s_limC_lossless_iff (w v : Nat) (rest : Bytes) :
    (limC w).dec ((limC w).enc v ++ rest) = .ok (v, rest) ↔ v < 256 ^ w := by
  rw [c14s_limC_dec_enc]
  constructor
  · intro h
    have h1 : v % 256 ^ w = v := by injection h with h; injection h
    rw [← h1]; exact Nat.mod_lt _ (Nat.pow_pos (by decide))
  · intro h; rw [Nat.mod_eq_of_lt h]

/-- the largest residue `q - 1` survives `w` bytes iff `q ≤ 256^w` -/
theorem c14s_largest_residue_lossless_iff (q w : Nat) (hq : 1 ≤ q) (rest : Bytes) :
    (limC w).dec ((limC w).enc (q - 1) ++ rest) = .ok (q - 1, rest) ↔ q ≤ 256 ^ w := by
  rw [c14s_limC_lossless_iff]; omega

/-- if `q` is not a power of 256, the chosen width is exactly the number of bytes the largest residue needs -/
theorem c14s_width_exact (q w : Nat) (hq : 1 ≤ q) (hp : ∀ m, q ≠ 256 ^ m) (rest : Bytes) :
    (limC w).dec ((limC w).enc (q - 1) ++ rest) = .ok (q - 1, rest) ↔ u64Limit q ≤ w := by
  rw [c14s_largest_residue_lossless_iff q w hq, c14s_u64Limit_le_iff]
  have := hp w
  omega

/-- in particular no smaller width is lossless -/
theorem c14s_width_tight (q w : Nat) (hq : 1 ≤ q) (hp : ∀ m, q ≠ 256 ^ m) (hw : w < u64Limit q) (rest : Bytes) :
    (limC w).dec ((limC w).enc (q - 1) ++ rest) ≠ .ok (q - 1, rest) := by
  intro h
  have := (c14s_width_exact q w hq hp rest).mp h
  omega

/-- the target's tentative wording ("least `w` with `q ≤ 256^w`") is NOT what the code does -/
def c14s_WidthLeStatement : Prop :=
  ∀ q w : Nat, 2 ≤ q → q < 2 ^ 61 → (u64Limit q ≤ w ↔ q ≤ 256 ^ w)

theorem c14s_WidthLeStatement_false : ¬ c14s_WidthLeStatement := by
  intro h
  have := (h 256 1 (by decide) (by decide)).mpr (by decide)
  revert this; decide

/-- … and "no smaller width is lossless for the largest residue" fails exactly at powers of 256 -/
def c14s_WidthTightStatement : Prop :=
  ∀ q w : Nat, 2 ≤ q → q < 2 ^ 61 → w < u64Limit q → ∀ rest,
    (limC w).dec ((limC w).enc (q - 1) ++ rest) ≠ .ok (q - 1, rest)

theorem c14s_WidthTightStatement_false : ¬ c14s_WidthTightStatement := by
  intro h
  have h1 : u64Limit 256 = 2 := by decide
  have := h 256 1 (by decide) (by decide) (by rw [h1]; decide) []
  exact this ((c14s_largest_residue_lossless_iff 256 1 (by decide) []).mpr (by decide))

/-! ## S1  closed-form sizes -/

theorem c14s_seqValid_length {α} : ∀ (cs : List (Codec α)) (xs : List α), seqValid cs xs → xs.length = cs.length := by
  intro cs
  induction cs with
  | nil => intro xs h; cases xs with
    | nil => rfl
    | cons _ _ => exact absurd h (by simp [seqValid])
  | cons c cs ih => intro xs h; cases xs with
    | nil => exact absurd h (by simp [seqValid])
    | cons x xs => simp only [List.length_cons, ih xs h.2]

theorem c14s_seqValid_replicate_mem {α} (c : Codec α) : ∀ (n : Nat) (l : List α),
    seqValid (List.replicate n c) l → ∀ x ∈ l, c.valid x := by
  intro n
  induction n with
  | zero => intro l h; cases l with
    | nil => intro x hx; cases hx
    | cons _ _ => exact absurd h (by simp [seqValid])
  | succ n ih => intro l h; cases l with
    | nil => intro x hx; cases hx
    | cons y ys =>
      intro x hx
      rcases List.mem_cons.mp hx with rfl | hx
      · exact h.1
      · exact ih ys h.2 x hx

theorem c14s_repC_valid_length {α} (n : Nat) (c : Codec α) (l : List α) (h : (repC n c).valid l) : l.length = n := by
  have := c14s_seqValid_length _ _ h
  simpa using this

theorem c14s_seqSize_replicate {α} (c : Codec α) : ∀ (n : Nat) (l : List α), l.length = n →
    seqSize (List.replicate n c) l = (l.map c.size).sum := by
  intro n
  induction n with
  | zero => intro l h; cases l with
    | nil => rfl
    | cons _ _ => simp at h
  | succ n ih => intro l h; cases l with
    | nil => simp at h
    | cons x xs =>
      have hl : xs.length = n := by simpa using h
      simp only [List.replicate_succ, seqSize, ih xs hl, List.map_cons, List.sum_cons]

/-- `n` items without a length prefix: the sum of the item sizes -/
theorem c14s_repC_size {α} (n : Nat) (c : Codec α) (l : List α) (h : l.length = n) :
    (repC n c).size l = (l.map c.size).sum := c14s_seqSize_replicate c n l h

theorem c14s_sum_const {α} (f : α → Nat) (s : Nat) : ∀ (l : List α), (∀ x ∈ l, f x = s) → (l.map f).sum = l.length * s := by
  intro l
  induction l with
  | nil => intro _; simp
  | cons x xs ih =>
    intro h
    simp only [List.map_cons, List.sum_cons, List.length_cons, h x (by simp), ih (fun y hy => h y (by simp [hy]))]
    rw [Nat.succ_mul, Nat.add_comm]

theorem c14s_repC_size_const {α} (n : Nat) (c : Codec α) (l : List α) (s : Nat) (h : l.length = n)
    (hs : ∀ x ∈ l, c.size x = s) : (repC n c).size l = n * s := by
  rw [c14s_repC_size n c l h, c14s_sum_const c.size s l hs, h]

/-- `Vec<I>`: 8 bytes of length, then the items -/
theorem c14s_vecC_size {α} (c : Codec α) (l : List α) : (vecC c).size l = 8 + (l.map c.size).sum := by
  show usizeC.size l.length + (repC l.length c).size l = _
  rw [c14s_repC_size _ _ _ rfl]; rfl

theorem c14s_vecC_size_const {α} (c : Codec α) (l : List α) (s : Nat) (hs : ∀ x ∈ l, c.size x = s) :
    (vecC c).size l = 8 + l.length * s := by
  rw [c14s_vecC_size, c14s_sum_const c.size s l hs]

theorem c14s_scalarC_size (k : SK) (n v : Nat) : (scalarC k n).size v = n := rfl
theorem c14s_boolC_size (b : Bool) : boolC.size b = 1 := rfl
theorem c14s_schemeC_size (v : Nat) : schemeC.size v = 1 := rfl

theorem c14s_repC_u64_size (n : Nat) (l : List Nat) (h : l.length = n) : (repC n u64C).size l = n * 8 :=
  c14s_repC_size_const n u64C l 8 h (fun _ _ => rfl)

theorem c14s_pidC_size (pid : List Nat) (h : pid.length = 4) : pidC.size pid = 32 :=
  c14s_repC_u64_size 4 pid h

theorem c14s_pidC_valid_length (pid : List Nat) (h : pidC.valid pid) : pid.length = 4 :=
  c14s_repC_valid_length 4 u64C pid h

/-- one residue in the compact format: `limit` bytes, whatever the value -/
theorem c14s_limC_size (l v : Nat) : (limC l).size v = l := by
  show (repC l u8C).size (leBytes l v) = l
  rw [c14s_repC_size_const l u8C (leBytes l v) 1 (leBytes_length l v) (fun _ _ => rfl), Nat.mul_one]

theorem c14s_sum_map_mul (a : Nat) (f : Nat → Nat) : ∀ (qs : List Nat), (qs.map (fun q => a * f q)).sum = a * (qs.map f).sum := by
  intro qs
  induction qs with
  | nil => simp
  | cons q qs ih => simp only [List.map_cons, List.sum_cons, ih, Nat.mul_add]

/-- `m` coefficients per component, `limit(q_j)` bytes each -/
theorem c14s_compSeq_size (m : Nat) : ∀ (qs : List Nat) (p : Poly),
    seqValid (qs.map fun q => repC m (limC (u64Limit q))) p →
    seqSize (qs.map fun q => repC m (limC (u64Limit q))) p = m * (qs.map u64Limit).sum := by
  intro qs
  induction qs with
  | nil => intro p h; cases p with
    | nil => rfl
    | cons _ _ => exact absurd h (by simp [seqValid])
  | cons q qs ih => intro p h; cases p with
    | nil => exact absurd h (by simp [seqValid])
    | cons comp p =>
      have h1 : (repC m (limC (u64Limit q))).valid comp := h.1
      have hl := c14s_repC_valid_length _ _ _ h1
      have hs := c14s_repC_size_const m (limC (u64Limit q)) comp (u64Limit q) hl (fun x _ => c14s_limC_size _ x)
      show (repC m (limC (u64Limit q))).size comp + seqSize (qs.map fun q => repC m (limC (u64Limit q))) p = _
      rw [hs, ih p h.2, List.map_cons, List.sum_cons, Nat.mul_add]

/-- one polynomial, compact format: `N · Σ_j limit(q_j)` -/
theorem c14s_polyC_size (lv : Level) (p : Poly) (h : (polyC lv).valid p) : (polyC lv).size p = lv.n * sumLimits lv :=
  c14s_compSeq_size lv.n lv.moduli p h

/-- polynomial 0 of the terms format: `|T| · Σ_j limit(q_j)` -/
theorem c14s_termsPolyC_size (t : Nat) (lv : Level) (p : Poly) (h : (termsPolyC t lv).valid p) :
    (termsPolyC t lv).size p = t * sumLimits lv :=
  c14s_compSeq_size t lv.moduli p h

theorem c14s_extraC_size (s : Nat) (e : List Nat) (h : (extraC s).valid e) :
    (extraC s).size e = if s == 2 || s == 3 then 8 else 0 := by
  unfold extraC at h ⊢
  by_cases h2 : s = 2
  · subst h2
    simp only [beq_self_eq_true, if_true] at h ⊢
    have hl := c14s_repC_valid_length _ _ _ h
    exact c14s_repC_size_const 1 f64C e 8 hl (fun _ _ => rfl)
  · by_cases h3 : s = 3
    · subst h3
      have e1 : ((3 : Nat) == 2) = false := by decide
      simp only [e1, beq_self_eq_true, if_true, Bool.false_eq_true, if_false, Bool.or_true] at h ⊢
      have hl := c14s_repC_valid_length _ _ _ h
      exact c14s_repC_size_const 1 u64C e 8 hl (fun _ _ => rfl)
    · have e2 : (s == 2) = false := by simp [h2]
      have e3 : (s == 3) = false := by simp [h3]
      simp only [e2, e3, Bool.false_eq_true, if_false, Bool.or_false] at h ⊢
      have hl := c14s_repC_valid_length _ _ _ h
      exact c14s_repC_size_const 0 u64C e 8 hl (fun _ _ => rfl)

/-- bytes of the polynomial block + seed block of a ciphertext body whose polynomial 0 takes `f0` bytes -/
def c14s_bodyBytes (lv : Level) (size : Nat) (seeded : Bool) (f0 : Nat) : Nat :=
  if seeded then f0 + 64 else if size = 0 then 0 else f0 + (size - 1) * (lv.n * sumLimits lv)

theorem c14s_ctBodyC_size (lv : Level) (size : Nat) (first : Codec Poly) (w : Bool × List Poly × List Nat)
    (hv : (ctBodyC lv size first).valid w) :
    (ctBodyC lv size first).size w = 1 + c14s_bodyBytes lv size w.1 (first.size (w.2.1.headD [])) := by
  obtain ⟨seeded, polys, seed⟩ := w
  obtain ⟨_, _, hp, hs⟩ := hv
  simp only at hp hs
  have hsl := c14s_repC_valid_length _ _ _ hs
  show 1 + (seqSize _ polys + (repC _ u64C).size seed) = _
  rw [c14s_repC_u64_size _ seed hsl]
  cases seeded with
  | true =>
    simp only [if_true] at hp
    cases polys with
    | nil => exact absurd hp (by simp [seqC, seqValid])
    | cons p0 ps =>
      cases ps with
      | cons _ _ => exact absurd hp.2 (by simp [seqValid])
      | nil => simp [c14s_bodyBytes, seqSize, seedWords]
  | false =>
    simp only [Bool.false_eq_true, if_false] at hp
    cases size with
    | zero =>
      cases polys with
      | nil => simp [c14s_bodyBytes, seqSize]
      | cons _ _ => exact absurd hp (by simp [seqC, seqValid])
    | succ k =>
      have e : (first :: List.replicate (k + 1 - 1) (polyC lv)).take (k + 1) = first :: List.replicate k (polyC lv) := by
        simp
      rw [e] at hp
      cases polys with
      | nil => exact absurd hp (by simp [seqC, seqValid])
      | cons p0 ps =>
        have hps : seqValid (List.replicate k (polyC lv)) ps := hp.2
        have hl : ps.length = k := by simpa using c14s_seqValid_length _ _ hps
        have hsz := c14s_repC_size_const k (polyC lv) ps (lv.n * sumLimits lv) hl
          (fun x hx => c14s_polyC_size lv x (c14s_seqValid_replicate_mem _ _ _ hps x hx))
        have hsz' : seqSize (List.replicate k (polyC lv)) ps = k * (lv.n * sumLimits lv) := hsz
        simp only [e, seqSize, hsz', c14s_bodyBytes, Bool.false_eq_true, if_false, List.headD_cons]
        simp

theorem c14s_guard_pid_valid_length (g : List Nat → Bool) (pid : List Nat) (h : (guardC pidC g).valid pid) :
    pid.length = 4 := c14s_pidC_valid_length pid h.1

/-- header (parms id, size, NTT flag, scheme field) + body -/
theorem c14s_ctWireC_size (ctx : Ctx) (first : Level → Codec Poly) (w : CtWire) (hv : (ctWireC ctx first).valid w) :
    (ctWireC ctx first).size w
      = headerSize ((ctx.find w.1).getD noLevel)
        + (ctBodyC ((ctx.find w.1).getD noLevel) w.2.1 (first ((ctx.find w.1).getD noLevel))).size w.2.2.2.2 := by
  obtain ⟨pid, size, ntt, extra, body⟩ := w
  obtain ⟨hpid, _, _, _, _, hex, _⟩ := hv
  simp only at hpid hex
  have h1 := c14s_pidC_size pid (c14s_guard_pid_valid_length _ pid hpid)
  have h2 := c14s_extraC_size _ extra hex
  show pidC.size pid + (8 + (1 + ((extraC _).size extra + _))) = _
  rw [h1, h2]
  simp only [headerSize]
  omega

theorem c14s_match_polys_id (l : List Poly) : (match l with | [] => [] | p0 :: ps => p0 :: ps) = l := by
  cases l <;> rfl

theorem c14s_bodyBytes_congr (lv : Level) (size : Nat) (seeded : Bool) (a b : Nat)
    (h : seeded = true ∨ size ≠ 0 → a = b) : c14s_bodyBytes lv size seeded a = c14s_bodyBytes lv size seeded b := by
  unfold c14s_bodyBytes
  cases seeded with
  | true => simp [h (Or.inl rfl)]
  | false =>
    by_cases hs : size = 0
    · simp [hs]
    · simp [hs, h (Or.inr hs)]

theorem c14s_ctBodyC_head_valid (lv : Level) (size : Nat) (first : Codec Poly) (w : Bool × List Poly × List Nat)
    (hv : (ctBodyC lv size first).valid w) (h : w.1 = true ∨ size ≠ 0) : first.valid (w.2.1.headD []) := by
  obtain ⟨seeded, polys, seed⟩ := w
  obtain ⟨_, _, hp, _⟩ := hv
  simp only at hp h
  cases seeded with
  | true =>
    simp only [if_true] at hp
    cases polys with
    | nil => exact absurd hp (by simp [seqC, seqValid])
    | cons p0 ps => exact hp.1
  | false =>
    simp only [Bool.false_eq_true, if_false] at hp
    cases size with
    | zero => simp at h
    | succ k =>
      have e : (first :: List.replicate (k + 1 - 1) (polyC lv)).take (k + 1) = first :: List.replicate k (polyC lv) := by
        simp
      rw [e] at hp
      cases polys with
      | nil => exact absurd hp (by simp [seqC, seqValid])
      | cons p0 ps => exact hp.1

theorem c14s_ctWireC_body_valid (ctx : Ctx) (first : Level → Codec Poly) (w : CtWire) (hv : (ctWireC ctx first).valid w) :
    (ctBodyC ((ctx.find w.1).getD noLevel) w.2.1 (first ((ctx.find w.1).getD noLevel))).valid w.2.2.2.2 := by
  obtain ⟨pid, size, ntt, extra, body⟩ := w
  obtain ⟨_, _, _, _, _, _, hb⟩ := hv
  exact hb

/-- total size of the compact / terms wire formats when polynomial 0 takes `f0` bytes -/
theorem c14s_ctWireC_total (ctx : Ctx) (first : Level → Codec Poly) (w : CtWire) (hv : (ctWireC ctx first).valid w)
    (f0 : Nat)
    (hf : ∀ p, (first ((ctx.find w.1).getD noLevel)).valid p → (first ((ctx.find w.1).getD noLevel)).size p = f0) :
    (ctWireC ctx first).size w
      = headerSize ((ctx.find w.1).getD noLevel) + 1
        + c14s_bodyBytes ((ctx.find w.1).getD noLevel) w.2.1 w.2.2.2.2.1 f0 := by
  have hb := c14s_ctWireC_body_valid ctx first w hv
  rw [c14s_ctWireC_size ctx first w hv, c14s_ctBodyC_size _ _ _ _ hb,
    c14s_bodyBytes_congr _ _ _ _ f0 (fun h => hf _ (c14s_ctBodyC_head_valid _ _ _ _ hb h))]
  omega

/-- closed form of the compact ciphertext size -/
def c14s_ctSize (lv : Level) (size : Nat) (seeded : Bool) : Nat :=
  headerSize lv + 1 + (if seeded then 1 else size) * (lv.n * sumLimits lv) + (if seeded then 64 else 0)

theorem c14s_bodyBytes_compact (lv : Level) (size : Nat) (seeded : Bool) :
    c14s_bodyBytes lv size seeded (lv.n * sumLimits lv)
      = (if seeded then 1 else size) * (lv.n * sumLimits lv) + (if seeded then 64 else 0) := by
  unfold c14s_bodyBytes
  cases seeded with
  | true => simp
  | false =>
    cases size with
    | zero => simp
    | succ k => simp [Nat.succ_mul, Nat.add_comm]

/-- the Rust formula `Ciphertext::serialized_size` in closed form -/
theorem c14s_ctSerializedSize_eq (lv : Level) (size : Nat) (seeded : Bool) :
    ctSerializedSize lv size seeded = c14s_ctSize lv size seeded := by
  unfold ctSerializedSize c14s_ctSize sumLimits
  rw [c14s_sum_map_mul ((if seeded then 1 else size) * lv.n) u64Limit lv.moduli, Nat.mul_assoc]
  rfl

theorem c14s_ctToWire_pid (ctx : Ctx) (tr : Level → Bool → Poly → Poly) (c : Ct) : (ctToWire ctx tr c).1 = c.pid := rfl
theorem c14s_ctToWire_size (ctx : Ctx) (tr : Level → Bool → Poly → Poly) (c : Ct) : (ctToWire ctx tr c).2.1 = c.size := rfl
theorem c14s_ctToWire_seeded (ctx : Ctx) (tr : Level → Bool → Poly → Poly) (c : Ct) :
    (ctToWire ctx tr c).2.2.2.2.1 = c.seeded := rfl

/-- S1 (compact format = `Ciphertext`, `PublicKey`): model size = closed form -/
theorem c14s_ctC_size (ctx : Ctx) (expand : List Nat → Level → Poly) (c : Ct) (hv : (ctC ctx expand).valid c) :
    (ctC ctx expand).size c = c14s_ctSize ((ctx.find c.pid).getD noLevel) c.size c.seeded := by
  have h := c14s_ctWireC_total ctx polyC (ctToWire ctx (fun _ _ p => p) c) hv
    (((ctx.find c.pid).getD noLevel).n * sumLimits ((ctx.find c.pid).getD noLevel))
    (fun p hp => c14s_polyC_size _ p hp)
  rw [c14s_ctToWire_pid, c14s_ctToWire_size, c14s_ctToWire_seeded, c14s_bodyBytes_compact] at h
  show (ctWireC ctx polyC).size _ = _
  rw [h]; unfold c14s_ctSize; omega

/-- closed form of the selected-terms size -/
def c14s_ctTermsSize (lv : Level) (size : Nat) (seeded : Bool) (nTerms : Nat) : Nat :=
  headerSize lv + 1 +
    (if seeded then nTerms * sumLimits lv + 64
     else if size = 0 then 0 else nTerms * sumLimits lv + (size - 1) * (lv.n * sumLimits lv))

/-- S1 (selected-terms format) -/
theorem c14s_ctTermsC_size (ctx : Ctx) (expand : List Nat → Level → Poly)
    (fwd inv : Level → Nat → List Nat → List Nat) (terms : List Nat) (c : Ct)
    (hv : (ctTermsC ctx expand fwd inv terms).valid c) :
    (ctTermsC ctx expand fwd inv terms).size c
      = c14s_ctTermsSize ((ctx.find c.pid).getD noLevel) c.size c.seeded terms.length := by
  have h := c14s_ctWireC_total ctx (termsPolyC terms.length) _ hv
    (terms.length * sumLimits ((ctx.find c.pid).getD noLevel))
    (fun p hp => c14s_termsPolyC_size _ _ p hp)
  rw [c14s_ctToWire_pid, c14s_ctToWire_size, c14s_ctToWire_seeded] at h
  show (ctWireC ctx (termsPolyC terms.length)).size _ = _
  rw [h]; rfl

/-- the Rust formula `serialized_terms_size` agrees with the bytes written whenever the ciphertext is
    seeded or has at least one polynomial -/
theorem c14s_ctSerializedTermsSize_eq (lv : Level) (size : Nat) (seeded : Bool) (nTerms : Nat)
    (h : seeded = true ∨ size ≠ 0) :
    ctSerializedTermsSize lv size seeded nTerms = c14s_ctTermsSize lv size seeded nTerms := by
  unfold ctSerializedTermsSize c14s_ctTermsSize
  rw [c14s_sum_map_mul (nTerms + ((if seeded then 1 else size) - 1) * lv.n) u64Limit lv.moduli]
  show _ + _ * sumLimits lv + _ = _
  cases seeded with
  | true => simp [seedWords]; omega
  | false =>
    have hs : size ≠ 0 := by simpa using h
    simp only [Bool.false_eq_true, if_false, hs, Nat.add_mul, Nat.mul_assoc, Nat.add_zero]

/-- … and does NOT at `size = 0` (model: saturating `upper - 1`; in Rust `usize` underflow) -/
def c14s_TermsSizeStatement : Prop :=
  ∀ (lv : Level) (size : Nat) (seeded : Bool) (nTerms : Nat),
    ctSerializedTermsSize lv size seeded nTerms = c14s_ctTermsSize lv size seeded nTerms

theorem c14s_TermsSizeStatement_false : ¬ c14s_TermsSizeStatement := by
  intro h
  have := h ⟨[0, 0, 0, 0], 1, 2, [17]⟩ 0 false 1
  revert this; decide

/-! ### full format, parameters, plaintexts -/

theorem c14s_vec_u64_size (l : List Nat) : (vecC u64C).size l = 8 + l.length * 8 :=
  c14s_vecC_size_const u64C l 8 (fun _ _ => rfl)

/-- number of `u64` words the full format puts on the wire -/
def c14s_fullWords (lv : Level) (c : CtFull) : Nat := min (fullSent lv c) c.data.length

/-- S1 (full format): header + 8 (length) + 8 per word sent = the Rust `serialized_full_size` -/
theorem c14s_ctFullC_size (ctx : Ctx) (expand : List Nat → Level → List Nat) (c : CtFull)
    (hv : (ctFullC ctx expand).valid c) :
    (ctFullC ctx expand).size c
      = ctSerializedFullSize ((ctx.find c.pid).getD noLevel) (c14s_fullWords ((ctx.find c.pid).getD noLevel) c) := by
  obtain ⟨⟨hpid, _, _, _, hex, _⟩, _⟩ := hv
  simp only at hpid hex
  have h1 := c14s_pidC_size c.pid (c14s_guard_pid_valid_length _ c.pid hpid)
  have h2 := c14s_extraC_size _ _ hex
  show pidC.size c.pid + (8 + (1 + ((extraC _).size _ + (vecC u64C).size (c.data.take _)))) = _
  rw [h1, h2, c14s_vec_u64_size, List.length_take]
  simp only [ctSerializedFullSize, headerSize, c14s_fullWords]
  omega

/-- an expanded (or size ≠ 2) ciphertext sends its whole buffer -/
theorem c14s_fullWords_unseeded (lv : Level) (c : CtFull)
    (h : ¬ (c.size = 2 ∧ c.data.getD (lv.moduli.length * lv.n) 0 = seedFlag)) :
    c14s_fullWords lv c = c.data.length := by
  unfold c14s_fullWords fullSent
  have : (c.size == 2 && c.data.getD (lv.moduli.length * lv.n) 0 == seedFlag) = false := by
    cases hb : (c.size == 2 && c.data.getD (lv.moduli.length * lv.n) 0 == seedFlag) with
    | false => rfl
    | true =>
      simp only [Bool.and_eq_true, beq_iff_eq] at hb
      exact absurd hb h
  simp only [this, Bool.false_eq_true, if_false, Nat.min_self]

/-- a flagged size-2 ciphertext with a full buffer sends `k·N + 1 + 8` words -/
theorem c14s_fullWords_seeded (lv : Level) (c : CtFull)
    (h : c.size = 2 ∧ c.data.getD (lv.moduli.length * lv.n) 0 = seedFlag)
    (hl : lv.moduli.length * lv.n + 9 ≤ c.data.length) :
    c14s_fullWords lv c = lv.moduli.length * lv.n + 9 := by
  unfold c14s_fullWords fullSent
  have : (c.size == 2 && c.data.getD (lv.moduli.length * lv.n) 0 == seedFlag) = true := by
    simp only [Bool.and_eq_true, beq_iff_eq]; exact h
  simp only [this, if_true, seedWords]
  omega

/-- S1 (`EncryptionParameters`): the Rust formula, unconditionally -/
theorem c14s_paramsC_size (p : Params) : paramsC.size p = paramsSerializedSize p := by
  show 1 + (8 + ((vecC modulusC).size p.coeffMod
      + ((repC (if hasPlain p.scheme then 1 else 0) modulusC).size (if hasPlain p.scheme then [p.plainMod] else []) + 1))) = _
  have h1 : (vecC modulusC).size p.coeffMod = 8 + p.coeffMod.length * 8 :=
    c14s_vecC_size_const modulusC p.coeffMod 8 (fun _ _ => rfl)
  have h2 : (repC (if hasPlain p.scheme then 1 else 0) modulusC).size (if hasPlain p.scheme then [p.plainMod] else [])
      = if hasPlain p.scheme then 8 else 0 := by
    cases hasPlain p.scheme <;> rfl
  rw [h1, h2]; unfold paramsSerializedSize; omega

/-- S1 (`Plaintext`, `SecretKey`): 32 + 8 + 8·|data| + 8 -/
theorem c14s_plainC_size (p : Plain) (hv : plainC.valid p) : plainC.size p = plainSerializedSize p := by
  have h1 := c14s_pidC_size p.pid (c14s_pidC_valid_length p.pid hv.1)
  show pidC.size p.pid + ((vecC u64C).size p.data + 8) = _
  rw [h1, c14s_vec_u64_size]; unfold plainSerializedSize; omega

/-! ### key sets and containers -/

theorem c14s_sum_rows' {γ} (s : Nat) : ∀ (rows : List (List γ)),
    (rows.map (fun r => 8 + r.length * s)).sum = 8 * rows.length + s * (rows.map List.length).sum := by
  intro rows
  induction rows with
  | nil => simp
  | cons r rs ih =>
    simp only [List.map_cons, List.sum_cons, List.length_cons, ih, Nat.mul_add, Nat.mul_comm r.length s]
    omega

theorem c14s_map_congr_sum {α} (f g : α → Nat) : ∀ (l : List α), (∀ x ∈ l, f x = g x) → (l.map f).sum = (l.map g).sum := by
  intro l
  induction l with
  | nil => intro _; rfl
  | cons x xs ih =>
    intro h
    simp only [List.map_cons, List.sum_cons, h x (by simp), ih (fun y hy => h y (by simp [hy]))]

/-- `Vec<Vec<I>>` in general: 8 + Σ_rows (8 + Σ items) -/
theorem c14s_vec2_size {γ} (c : Codec γ) (rows : List (List γ)) :
    (vecC (vecC c)).size rows = 8 + (rows.map (fun r => 8 + (r.map c.size).sum)).sum := by
  rw [c14s_vecC_size]
  congr 1
  exact c14s_map_congr_sum _ _ rows (fun r _ => c14s_vecC_size c r)

/-- `Vec<Vec<I>>` with items of one size `s` (rows may be empty = missing keys, or ragged):
    8 + 8·rows + s·(total number of items) -/
theorem c14s_vec2_size_const {γ} (c : Codec γ) (rows : List (List γ)) (s : Nat)
    (hs : ∀ r ∈ rows, ∀ x ∈ r, c.size x = s) :
    (vecC (vecC c)).size rows = 8 + (8 * rows.length + s * (rows.map List.length).sum) := by
  rw [c14s_vecC_size]
  congr 1
  rw [c14s_map_congr_sum _ (fun r => 8 + r.length * s) rows (fun r hr => c14s_vecC_size_const c r s (hs r hr))]
  exact c14s_sum_rows' s rows

/-- S1 (`KSwitchKeys` = `RelinKeys` = `GaloisKeys`): parms id, outer length, one length word per entry
    (present or missing), then the keys -/
theorem c14s_kswitchC_size {γ} (pk : Codec γ) (k : KSwitch γ) (s : Nat) (hv : (kswitchC pk).valid k)
    (hs : ∀ r ∈ k.keys, ∀ x ∈ r, pk.size x = s) :
    (kswitchC pk).size k = 32 + 8 + 8 * k.keys.length + s * (k.keys.map List.length).sum := by
  have h1 := c14s_pidC_size k.pid (c14s_pidC_valid_length k.pid hv.1)
  show pidC.size k.pid + (vecC (vecC pk)).size k.keys = _
  rw [h1, c14s_vec2_size_const pk k.keys s hs]; omega

/-- an entry that is missing costs exactly the 8 bytes of its (zero) length -/
theorem c14s_kswitch_missing_entry {γ} (pk : Codec γ) : (vecC pk).size [] = 8 := by
  rw [c14s_vecC_size]; rfl

/-- S1 (`Cipher1d` / `Plain1d`) -/
theorem c14s_c1dC_size {γ} (c : Codec γ) (l : List γ) (s : Nat) (hs : ∀ x ∈ l, c.size x = s) :
    (c1dC c).size l = 8 + l.length * s := c14s_vecC_size_const c l s hs

/-- S1 (`Cipher2d` / `Plain2d`) of dimensions `d1 × d2` -/
theorem c14s_c2dC_size {γ} (c : Codec γ) (l : List (List γ)) (s d2 : Nat)
    (hd : ∀ r ∈ l, r.length = d2) (hs : ∀ r ∈ l, ∀ x ∈ r, c.size x = s) :
    (c2dC c).size l = 8 + l.length * (8 + d2 * s) :=
  c14s_vecC_size_const (vecC c) l (8 + d2 * s) (fun r hr => by
    rw [c14s_vecC_size_const c r s (hs r hr), hd r hr])

/-- S1 (`Cipher3d` / `Plain3d`) of dimensions `d1 × d2 × d3` -/
theorem c14s_c3dC_size {γ} (c : Codec γ) (l : List (List (List γ))) (s d2 d3 : Nat)
    (hd2 : ∀ m ∈ l, m.length = d2) (hd3 : ∀ m ∈ l, ∀ r ∈ m, r.length = d3)
    (hs : ∀ m ∈ l, ∀ r ∈ m, ∀ x ∈ r, c.size x = s) :
    (c3dC c).size l = 8 + l.length * (8 + d2 * (8 + d3 * s)) :=
  c14s_vecC_size_const (vecC (vecC c)) l (8 + d2 * (8 + d3 * s)) (fun m hm =>
    c14s_c2dC_size c m s d3 (hd3 m hm) (hs m hm) |>.trans (by rw [hd2 m hm]))

/-- S1 (rns_plain objects, any fixed sequence): the sum of the component sizes -/
theorem c14s_seqC_size {α} : ∀ (cs : List (Codec α)) (xs : List α),
    (seqC cs).size xs = ((cs.zip xs).map (fun p => p.1.size p.2)).sum := by
  intro cs
  induction cs with
  | nil => intro xs; cases xs <;> rfl
  | cons c cs ih =>
    intro xs
    cases xs with
    | nil => rfl
    | cons x xs =>
      show c.size x + (seqC cs).size xs = _
      rw [ih xs]; rfl

theorem c14s_rnspC_size {γ} (cs : List (Codec γ)) (xs : List γ) :
    (rnspC cs).size xs = ((cs.zip xs).map (fun p => p.1.size p.2)).sum := c14s_seqC_size cs xs

/-- S1 (`PolynomialSerializer`): parms id + `N` plaintext coefficients of `limit(t)` bytes, or one compact polynomial -/
theorem c14s_polySerC_size (ctx : Ctx) (w : List Nat × Poly) (hv : (polySerC ctx).valid w) :
    (polySerC ctx).size w
      = 32 + (if w.1 == pidZero then ctx.firstN * u64Limit ctx.plainMod
              else ((ctx.find w.1).getD noLevel).n * sumLimits ((ctx.find w.1).getD noLevel)) := by
  obtain ⟨pid, p⟩ := w
  obtain ⟨hpid, _, hp⟩ := hv
  simp only at hpid hp
  have h1 := c14s_pidC_size pid (c14s_guard_pid_valid_length _ pid hpid)
  show pidC.size pid + (if pid == pidZero then _ else _ : Codec Poly).size p = _
  rw [h1]
  congr 1
  by_cases hz : (pid == pidZero) = true
  · simp only [hz, if_true]
    exact c14s_repC_size_const _ _ _ _ (by simp; omega) (fun x _ => c14s_limC_size _ x)
  · simp only [hz] at hp ⊢
    exact c14s_polyC_size _ p hp

/-! ### monotonicity facts -/

theorem c14s_sumLimits_le (lv : Level) (h : ∀ q ∈ lv.moduli, q < 2 ^ 64) : sumLimits lv ≤ 8 * lv.moduli.length := by
  unfold sumLimits
  generalize lv.moduli = qs at h
  induction qs with
  | nil => simp
  | cons q qs ih =>
    have h1 := c14s_u64Limit_le_8 q (h q (by simp))
    have h2 := ih (fun x hx => h x (by simp [hx]))
    simp only [List.map_cons, List.sum_cons, List.length_cons]
    omega

theorem c14s_sumLimits_ge (lv : Level) (h : ∀ q ∈ lv.moduli, q ≠ 0) : lv.moduli.length ≤ sumLimits lv := by
  unfold sumLimits
  generalize lv.moduli = qs at h
  induction qs with
  | nil => simp
  | cons q qs ih =>
    have h1 := c14s_u64Limit_pos q (h q (by simp))
    have h2 := ih (fun x hx => h x (by simp [hx]))
    simp only [List.map_cons, List.sum_cons, List.length_cons]
    omega

/-- compact < full: an expanded ciphertext of `size` polynomials (buffer of `k·N·size` words) -/
theorem c14s_compact_lt_full (lv : Level) (size : Nat) (h : ∀ q ∈ lv.moduli, q < 2 ^ 64) :
    c14s_ctSize lv size false < ctSerializedFullSize lv (lv.moduli.length * lv.n * size) := by
  have h1 := c14s_sumLimits_le lv h
  have h2 : size * (lv.n * sumLimits lv) ≤ size * (lv.n * (8 * lv.moduli.length)) :=
    Nat.mul_le_mul_left _ (Nat.mul_le_mul_left _ h1)
  have h3 : size * (lv.n * (8 * lv.moduli.length)) = lv.moduli.length * lv.n * size * 8 := by
    ac_rfl
  unfold c14s_ctSize ctSerializedFullSize
  simp only [Bool.false_eq_true, if_false]
  omega

/-- the compact format saves exactly `8·k·N·size − size·N·Σ limit + 7` bytes -/
theorem c14s_compact_le_full (lv : Level) (size : Nat) (h : ∀ q ∈ lv.moduli, q < 2 ^ 64) :
    c14s_ctSize lv size false ≤ ctSerializedFullSize lv (lv.moduli.length * lv.n * size) :=
  Nat.le_of_lt (c14s_compact_lt_full lv size h)

/-- seeded vs expanded size-2 ciphertext (compact format): smaller exactly when one polynomial is more than 64 bytes -/
theorem c14s_seeded_lt_expanded_iff (lv : Level) :
    c14s_ctSize lv 2 true < c14s_ctSize lv 2 false ↔ 64 < lv.n * sumLimits lv := by
  unfold c14s_ctSize
  simp only [if_true, Bool.false_eq_true, if_false]
  omega

/-- in particular for every level with `N ≥ 65` and at least one non-zero modulus -/
theorem c14s_seeded_lt_expanded (lv : Level) (hn : 65 ≤ lv.n) (hk : lv.moduli ≠ []) (hq : ∀ q ∈ lv.moduli, q ≠ 0) :
    c14s_ctSize lv 2 true < c14s_ctSize lv 2 false := by
  rw [c14s_seeded_lt_expanded_iff]
  have h1 := c14s_sumLimits_ge lv hq
  have h2 : 1 ≤ lv.moduli.length := by
    cases hm : lv.moduli with
    | nil => exact absurd hm hk
    | cons _ _ => simp
  have h3 : lv.n * 1 ≤ lv.n * sumLimits lv := Nat.mul_le_mul_left _ (by omega)
  omega

/-- the saving of the seed: one polynomial minus 64 bytes -/
theorem c14s_seeded_saving (lv : Level) :
    c14s_ctSize lv 2 true + lv.n * sumLimits lv = c14s_ctSize lv 2 false + 64 := by
  unfold c14s_ctSize
  simp only [if_true, Bool.false_eq_true, if_false]
  omega

/-- terms ≤ compact as soon as no more than `N` terms are selected -/
theorem c14s_terms_le_compact (lv : Level) (size : Nat) (seeded : Bool) (nTerms : Nat) (h : nTerms ≤ lv.n) :
    c14s_ctTermsSize lv size seeded nTerms ≤ c14s_ctSize lv size seeded := by
  have h1 : nTerms * sumLimits lv ≤ lv.n * sumLimits lv := Nat.mul_le_mul_right _ h
  unfold c14s_ctTermsSize c14s_ctSize
  cases seeded with
  | true => simp only [if_true]; omega
  | false =>
    simp only [Bool.false_eq_true, if_false]
    cases size with
    | zero => simp
    | succ k =>
      simp only [Nat.succ_ne_zero, if_false, Nat.add_sub_cancel, Nat.succ_mul]
      omega

/-- the terms format with all `N` terms costs exactly the compact size (seeded or `size ≥ 1`) -/
theorem c14s_terms_all_eq_compact (lv : Level) (size : Nat) (seeded : Bool) (h : seeded = true ∨ size ≠ 0) :
    c14s_ctTermsSize lv size seeded lv.n = c14s_ctSize lv size seeded := by
  unfold c14s_ctTermsSize c14s_ctSize
  cases seeded with
  | true => simp only [if_true]; omega
  | false =>
    have hs : size ≠ 0 := by simpa using h
    obtain ⟨k, rfl⟩ := Nat.exists_eq_succ_of_ne_zero hs
    simp only [Bool.false_eq_true, if_false, Nat.succ_ne_zero, Nat.succ_sub_one, Nat.succ_mul]
    omega

/-- terms size is monotone in the number of terms -/
theorem c14s_terms_mono (lv : Level) (size : Nat) (seeded : Bool) (a b : Nat) (h : a ≤ b) :
    c14s_ctTermsSize lv size seeded a ≤ c14s_ctTermsSize lv size seeded b := by
  have h1 : a * sumLimits lv ≤ b * sumLimits lv := Nat.mul_le_mul_right _ h
  unfold c14s_ctTermsSize
  cases seeded with
  | true => simp only [if_true]; omega
  | false =>
    simp only [Bool.false_eq_true, if_false]
    by_cases hs : size = 0
    · simp [hs]
    · simp only [hs, if_false]; omega

/-- full format: a flagged (seeded) size-2 buffer is shorter than the expanded one iff `k·N > 9` -/
theorem c14s_full_seeded_lt_iff (lv : Level) :
    ctSerializedFullSize lv (lv.moduli.length * lv.n + 9) < ctSerializedFullSize lv (lv.moduli.length * lv.n * 2)
      ↔ 9 < lv.moduli.length * lv.n := by
  unfold ctSerializedFullSize; omega

/-! ## S2  the selected-terms format: mask identity -/

/-- keep the coefficients whose index is in `T` (and below `n`), zero elsewhere; length `n` -/
def c14s_mask (n : Nat) (T v : List Nat) : List Nat :=
  (List.range n).map (fun i => if i ∈ T then v.getD i 0 else 0)

theorem c14s_mask_length (n : Nat) (T v : List Nat) : (c14s_mask n T v).length = n := by
  simp [c14s_mask]

theorem c14s_mask_getElem? (n : Nat) (T v : List Nat) (i : Nat) :
    (c14s_mask n T v)[i]? = if i < n then some (if i ∈ T then v.getD i 0 else 0) else none := by
  unfold c14s_mask
  by_cases h : i < n
  · simp [h]
  · simp [h]

/-- coefficient view: the selected coefficient on `T`, zero elsewhere -/
theorem c14s_mask_getD (n : Nat) (T v : List Nat) (i : Nat) :
    (c14s_mask n T v).getD i 0 = if i < n ∧ i ∈ T then v.getD i 0 else 0 := by
  rw [List.getD_eq_getElem?_getD, c14s_mask_getElem?]
  by_cases h : i < n <;> by_cases h2 : i ∈ T <;> simp [h, h2]

theorem c14s_fold_set_length : ∀ (tv : List (Nat × Nat)) (acc : List Nat),
    (tv.foldl (fun acc tv => acc.set tv.1 tv.2) acc).length = acc.length := by
  intro tv
  induction tv with
  | nil => intro acc; rfl
  | cons x xs ih => intro acc; simp only [List.foldl_cons, ih, List.length_set]

theorem c14s_fold_set_get (f : Nat → Nat) : ∀ (T : List Nat) (acc : List Nat) (i : Nat), i < acc.length →
    ((T.zip (T.map f)).foldl (fun acc tv => acc.set tv.1 tv.2) acc)[i]?
      = if i ∈ T then some (f i) else acc[i]? := by
  intro T
  induction T with
  | nil => intro acc i _; simp
  | cons t T ih =>
    intro acc i hi
    simp only [List.map_cons, List.zip_cons_cons, List.foldl_cons]
    rw [ih (acc.set t (f t)) i (by rw [List.length_set]; exact hi)]
    by_cases h1 : i ∈ T
    · simp [h1]
    · by_cases h2 : i = t
      · subst h2; simp [h1, hi]
      · have h3 : ¬ t = i := fun e => h2 e.symm
        simp [h1, h2, h3]

/-- `TermsMaskStatement` of Props/C14 (without its side conditions, which are not needed):
    scattering the gathered coefficients into a zero vector is masking -/
theorem c14s_scatter_gather (n : Nat) (T v : List Nat) : scatter n T (gather T v) = c14s_mask n T v := by
  apply List.ext_getElem?
  intro i
  rw [c14s_mask_getElem?]
  unfold scatter gather
  by_cases h : i < n
  · rw [c14s_fold_set_get (fun t => v.getD t 0) T (List.replicate n 0) i (by simpa using h)]
    by_cases h2 : i ∈ T <;> simp [h, h2]
  · rw [if_neg h]
    apply List.getElem?_eq_none
    rw [c14s_fold_set_length]; simp; omega

theorem c14s_mask_idem (n : Nat) (T v : List Nat) : c14s_mask n T (c14s_mask n T v) = c14s_mask n T v := by
  apply List.ext_getElem?
  intro i
  rw [c14s_mask_getElem?, c14s_mask_getElem?, c14s_mask_getD]
  by_cases h : i < n <;> by_cases h2 : i ∈ T <;> simp [h, h2]

/-- selecting every index below `n` changes nothing -/
theorem c14s_mask_all (n : Nat) (T v : List Nat) (hl : v.length = n) (hT : ∀ i, i < n → i ∈ T) :
    c14s_mask n T v = v := by
  apply List.ext_getElem?
  intro i
  rw [c14s_mask_getElem?]
  by_cases h : i < n
  · have hi : i < v.length := by omega
    simp [h, hT i h, List.getD_eq_getElem?_getD, List.getElem?_eq_getElem hi]
  · rw [if_neg h]; symm; apply List.getElem?_eq_none; omega

theorem c14s_mapIdx_mapIdx {α β γ} (f : Nat → α → β) (g : Nat → β → γ) : ∀ (p : List α) (i : Nat),
    mapIdx g i (mapIdx f i p) = mapIdx (fun j x => g j (f j x)) i p := by
  intro p
  induction p with
  | nil => intro i; rfl
  | cons x xs ih => intro i; simp only [mapIdx, ih]

theorem c14s_mapIdx_congr {α β} (f g : Nat → α → β) : ∀ (p : List α) (i : Nat),
    (∀ j x, p[j]? = some x → f (i + j) x = g (i + j) x) → mapIdx f i p = mapIdx g i p := by
  intro p
  induction p with
  | nil => intro i _; rfl
  | cons x xs ih =>
    intro i h
    have h0 := h 0 x (by simp)
    have hr := ih (i + 1) (fun j y hy => by
      have := h (j + 1) y (by simpa using hy)
      rw [show i + 1 + j = i + (j + 1) by omega]; exact this)
    simp only [mapIdx, hr]
    rw [show f i x = g i x from h0]

theorem c14s_mapIdx_id {α} (f : Nat → α → α) (p : List α) (i : Nat)
    (h : ∀ j x, p[j]? = some x → f (i + j) x = x) : mapIdx f i p = p := by
  rw [c14s_mapIdx_congr f (fun _ x => x) p i h]
  clear h
  induction p generalizing i with
  | nil => rfl
  | cons x xs ih => simp only [mapIdx, ih]

/-- polynomial 0 after a terms round trip: per component, mask in coefficient form -/
def c14s_maskPoly (lv : Level) (fwd inv : Level → Nat → List Nat → List Nat) (T : List Nat) (ntt : Bool) (p : Poly) : Poly :=
  mapIdx (fun j comp => if ntt then fwd lv j (c14s_mask lv.n T (inv lv j comp)) else c14s_mask lv.n T comp) 0 p

/-- the object `deserialize_terms ∘ serialize_terms` returns: polynomial 0 masked, all other polynomials
    and header fields as they are, a seed expanded (as in the compact format), scheme-foreign header fields
    (scale outside CKKS, correction factor outside BGV) at their defaults -/
def c14s_maskTerms (ctx : Ctx) (expand : List Nat → Level → Poly)
    (fwd inv : Level → Nat → List Nat → List Nat) (T : List Nat) (c : Ct) : Ct :=
  let lv := (ctx.find c.pid).getD noLevel
  { pid := c.pid, size := c.size, ntt := c.ntt,
    scale := if lv.scheme == 2 then c.scale else oneF64,
    cf := if lv.scheme == 3 then c.cf else 1,
    polys := (match c.polys with
        | [] => []
        | p0 :: ps => c14s_maskPoly lv fwd inv T c.ntt p0 :: ps) ++ (if c.seeded then [expand c.seed lv] else []),
    seed := [] }

theorem c14s_ctOfWire_toWire (ctx : Ctx) (expand : List Nat → Level → Poly)
    (trR trW : Level → Bool → Poly → Poly) (c : Ct) :
    ctOfWire ctx expand trR (ctToWire ctx trW c)
      = { pid := c.pid, size := c.size, ntt := c.ntt,
          scale := if ((ctx.find c.pid).getD noLevel).scheme == 2 then c.scale else oneF64,
          cf := if ((ctx.find c.pid).getD noLevel).scheme == 3 then c.cf else 1,
          polys := (match c.polys with
              | [] => []
              | p0 :: ps => trR ((ctx.find c.pid).getD noLevel) c.ntt (trW ((ctx.find c.pid).getD noLevel) c.ntt p0) :: ps)
            ++ (if c.seeded then [expand c.seed ((ctx.find c.pid).getD noLevel)] else []),
          seed := [] } := by
  cases c with
  | mk pid size ntt scale cf polys seed =>
    cases hse : seed.isEmpty <;> cases polys <;>
    · simp only [ctOfWire, ctToWire, Ct.seeded, hse]
      by_cases e2 : ((ctx.find pid).getD noLevel).scheme = 2
      · simp [e2]
      · by_cases e3 : ((ctx.find pid).getD noLevel).scheme = 3
        · simp [e3]
        · simp [e2, e3]

theorem c14s_terms_tr (lv : Level) (fwd inv : Level → Nat → List Nat → List Nat) (T : List Nat) (ntt : Bool) (p : Poly) :
    mapIdx (fun j vals =>
        let comp := scatter lv.n T vals
        if ntt then fwd lv j comp else comp) 0
      (mapIdx (fun j comp => gather T (if ntt then inv lv j comp else comp)) 0 p)
      = c14s_maskPoly lv fwd inv T ntt p := by
  rw [c14s_mapIdx_mapIdx]
  unfold c14s_maskPoly
  apply c14s_mapIdx_congr
  intro j x _
  cases ntt <;> simp [c14s_scatter_gather]

/-- S2: `decodeTerms (encodeTerms ct T ++ rest) = (maskTerms ct T, rest)` -/
theorem c14s_terms_mask_identity (ctx : Ctx) (expand : List Nat → Level → Poly)
    (fwd inv : Level → Nat → List Nat → List Nat) (T : List Nat) (c : Ct)
    (hv : (ctTermsC ctx expand fwd inv T).valid c) (rest : Bytes) :
    (ctTermsC ctx expand fwd inv T).dec ((ctTermsC ctx expand fwd inv T).enc c ++ rest)
      = .ok (c14s_maskTerms ctx expand fwd inv T c, rest) := by
  rw [(ctTermsC_lawful ctx expand fwd inv T).rt c hv rest, ctTermsC_norm ctx expand fwd inv T c hv,
    c14s_ctOfWire_toWire]
  unfold c14s_maskTerms
  cases hp : c.polys with
  | nil => rfl
  | cons p0 ps => simp only [c14s_terms_tr]

/-- `inv ∘ fwd` is the identity on the masked coefficient vectors of `p` (all that idempotence needs;
    for the real transforms: C09 `intt_ntt` on reduced vectors of length `N`) -/
def c14s_InvFwdOnMasked (lv : Level) (fwd inv : Level → Nat → List Nat → List Nat) (T : List Nat) (p : Poly) : Prop :=
  ∀ j comp, p[j]? = some comp →
    inv lv j (fwd lv j (c14s_mask lv.n T (inv lv j comp))) = c14s_mask lv.n T (inv lv j comp)

theorem c14s_maskPoly_idem (lv : Level) (fwd inv : Level → Nat → List Nat → List Nat) (T : List Nat) (ntt : Bool)
    (p : Poly) (h : ntt = true → c14s_InvFwdOnMasked lv fwd inv T p) :
    c14s_maskPoly lv fwd inv T ntt (c14s_maskPoly lv fwd inv T ntt p) = c14s_maskPoly lv fwd inv T ntt p := by
  unfold c14s_maskPoly
  rw [c14s_mapIdx_mapIdx]
  apply c14s_mapIdx_congr
  intro j x hx
  rw [Nat.zero_add]
  cases ntt with
  | false => simp [c14s_mask_idem]
  | true =>
    simp only [if_true]
    rw [h rfl j x hx, c14s_mask_idem]

/-- S2 idempotence: masking twice = masking once.  Needs only: a seeded object has its polynomial 0
    (always true of valid objects), and for NTT-form objects `inv ∘ fwd = id` on the masked vectors. -/
theorem c14s_maskTerms_idem (ctx : Ctx) (expand : List Nat → Level → Poly)
    (fwd inv : Level → Nat → List Nat → List Nat) (T : List Nat) (c : Ct)
    (hne : c.polys ≠ [] ∨ c.seed = [])
    (h : c.ntt = true → ∀ p0, c.polys.head? = some p0 →
      c14s_InvFwdOnMasked ((ctx.find c.pid).getD noLevel) fwd inv T p0) :
    c14s_maskTerms ctx expand fwd inv T (c14s_maskTerms ctx expand fwd inv T c)
      = c14s_maskTerms ctx expand fwd inv T c := by
  cases c with
  | mk pid size ntt scale cf polys seed =>
    simp only at hne h
    cases polys with
    | nil =>
      have hs : seed = [] := by simpa using hne
      subst hs
      simp only [c14s_maskTerms, Ct.seeded, List.isEmpty_nil, Bool.not_true, Bool.false_eq_true, if_false, List.append_nil]
      by_cases e2 : ((ctx.find pid).getD noLevel).scheme = 2
      · simp [e2]
      · by_cases e3 : ((ctx.find pid).getD noLevel).scheme = 3
        · simp [e3]
        · simp [e2, e3]
    | cons p0 ps =>
      have hi := c14s_maskPoly_idem ((ctx.find pid).getD noLevel) fwd inv T ntt p0 (fun e => h e p0 rfl)
      simp only [c14s_maskTerms, Ct.seeded, List.isEmpty_nil, Bool.not_true, Bool.false_eq_true, if_false,
        List.append_nil, List.cons_append, hi]
      by_cases e2 : ((ctx.find pid).getD noLevel).scheme = 2
      · simp [e2]
      · by_cases e3 : ((ctx.find pid).getD noLevel).scheme = 3
        · simp [e3]
        · simp [e2, e3]

/-- uniform sufficient condition: `inv ∘ fwd = id` on all vectors of length `N` -/
theorem c14s_invFwdOnMasked_of_length (lv : Level) (fwd inv : Level → Nat → List Nat → List Nat) (T : List Nat) (p : Poly)
    (h : ∀ j x, x.length = lv.n → inv lv j (fwd lv j x) = x) : c14s_InvFwdOnMasked lv fwd inv T p :=
  fun j _ _ => h j _ (c14s_mask_length _ _ _)

/-- sufficient condition matching the real transforms: `inv ∘ fwd = id` on reduced vectors of length `N`,
    and `inv` returns reduced values (`0 < q_j`) -/
theorem c14s_invFwdOnMasked_of_reduced (lv : Level) (fwd inv : Level → Nat → List Nat → List Nat) (T : List Nat) (p : Poly)
    (h : ∀ j x, j < p.length → x.length = lv.n → (∀ i, x.getD i 0 < lv.moduli.getD j 0) → inv lv j (fwd lv j x) = x)
    (hr : ∀ j x i, j < p.length → (inv lv j x).getD i 0 < lv.moduli.getD j 0) :
    c14s_InvFwdOnMasked lv fwd inv T p := by
  intro j comp hj
  have hjl : j < p.length := by
    rcases Nat.lt_or_ge j p.length with h1 | h1
    · exact h1
    · rw [List.getElem?_eq_none h1] at hj; cases hj
  apply h j _ hjl (c14s_mask_length _ _ _)
  intro i
  rw [c14s_mask_getD]
  have h0 := hr j comp i hjl
  by_cases hc : i < lv.n ∧ i ∈ T
  · rw [if_pos hc]; exact h0
  · rw [if_neg hc]; omega

theorem c14s_maskPoly_all (lv : Level) (fwd inv : Level → Nat → List Nat → List Nat) (T : List Nat) (ntt : Bool) (p : Poly)
    (hT : ∀ i, i < lv.n → i ∈ T)
    (hlen : ntt = false → ∀ comp ∈ p, comp.length = lv.n)
    (hntt : ntt = true → ∀ j comp, p[j]? = some comp →
      (inv lv j comp).length = lv.n ∧ fwd lv j (inv lv j comp) = comp) :
    c14s_maskPoly lv fwd inv T ntt p = p := by
  unfold c14s_maskPoly
  apply c14s_mapIdx_id
  intro j x hx
  rw [Nat.zero_add]
  cases ntt with
  | false =>
    simp only [Bool.false_eq_true, if_false]
    exact c14s_mask_all _ _ _ (hlen rfl x (List.mem_of_getElem? hx)) hT
  | true =>
    simp only [if_true]
    obtain ⟨h1, h2⟩ := hntt rfl j x hx
    rw [c14s_mask_all _ _ _ h1 hT, h2]

/-- S2 `T = all`: selecting every coefficient restores exactly what the compact format restores
    (`(ctC ctx expand).norm c`: the object itself with a seed expanded) -/
theorem c14s_maskTerms_all (ctx : Ctx) (expand : List Nat → Level → Poly)
    (fwd inv : Level → Nat → List Nat → List Nat) (T : List Nat) (c : Ct)
    (hT : ∀ i, i < ((ctx.find c.pid).getD noLevel).n → i ∈ T)
    (hlen : c.ntt = false → ∀ p0, c.polys.head? = some p0 → ∀ comp ∈ p0, comp.length = ((ctx.find c.pid).getD noLevel).n)
    (hntt : c.ntt = true → ∀ p0, c.polys.head? = some p0 → ∀ j comp, p0[j]? = some comp →
      (inv ((ctx.find c.pid).getD noLevel) j comp).length = ((ctx.find c.pid).getD noLevel).n ∧
      fwd ((ctx.find c.pid).getD noLevel) j (inv ((ctx.find c.pid).getD noLevel) j comp) = comp) :
    c14s_maskTerms ctx expand fwd inv T c
      = ctOfWire ctx expand (fun _ _ p => p) (ctToWire ctx (fun _ _ p => p) c) := by
  rw [c14s_ctOfWire_toWire]
  unfold c14s_maskTerms
  cases hp : c.polys with
  | nil => rfl
  | cons p0 ps =>
    have := c14s_maskPoly_all ((ctx.find c.pid).getD noLevel) fwd inv T c.ntt p0 hT
      (fun e => hlen e p0 (by rw [hp]; rfl)) (fun e => hntt e p0 (by rw [hp]; rfl))
    simp only [this]

/-- … hence the identity on an unseeded API-built object -/
theorem c14s_maskTerms_all_id (ctx : Ctx) (expand : List Nat → Level → Poly)
    (fwd inv : Level → Nat → List Nat → List Nat) (T : List Nat) (c : Ct)
    (hT : ∀ i, i < ((ctx.find c.pid).getD noLevel).n → i ∈ T)
    (hlen : c.ntt = false → ∀ p0, c.polys.head? = some p0 → ∀ comp ∈ p0, comp.length = ((ctx.find c.pid).getD noLevel).n)
    (hntt : c.ntt = true → ∀ p0, c.polys.head? = some p0 → ∀ j comp, p0[j]? = some comp →
      (inv ((ctx.find c.pid).getD noLevel) j comp).length = ((ctx.find c.pid).getD noLevel).n ∧
      fwd ((ctx.find c.pid).getD noLevel) j (inv ((ctx.find c.pid).getD noLevel) j comp) = comp)
    (hd : CtDefaults ctx c) (hs : c.seed = []) :
    c14s_maskTerms ctx expand fwd inv T c = c := by
  rw [c14s_maskTerms_all ctx expand fwd inv T c hT hlen hntt, ctOfWire_toWire_id ctx expand c hd hs]

/-! ## S4  stream framing as a monoid law -/

/-- items written back to back (no prefix): what `for x in xs { x.serialize(stream) }` produces -/
def c14s_encodeMany {α} (c : Codec α) (xs : List α) : Bytes := (xs.map c.enc).flatten

/-- read `n` items back to back (`for _ in 0..n { deserialize(stream) }`) — the model's `repC` reader -/
def c14s_decodeMany {α} (c : Codec α) (n : Nat) (bs : Bytes) : Except DErr (List α × Bytes) := (repC n c).dec bs

theorem c14s_encodeMany_nil {α} (c : Codec α) : c14s_encodeMany c [] = [] := rfl

theorem c14s_encodeMany_cons {α} (c : Codec α) (x : α) (xs : List α) :
    c14s_encodeMany c (x :: xs) = c.enc x ++ c14s_encodeMany c xs := by
  simp [c14s_encodeMany]

/-- the monoid law -/
theorem c14s_encodeMany_append {α} (c : Codec α) (xs ys : List α) :
    c14s_encodeMany c (xs ++ ys) = c14s_encodeMany c xs ++ c14s_encodeMany c ys := by
  simp [c14s_encodeMany]

theorem c14s_encodeMany_length {α} (c : Codec α) (hc : c.Lawful) : ∀ (xs : List α), (∀ x ∈ xs, c.valid x) →
    (c14s_encodeMany c xs).length = (xs.map c.size).sum := by
  intro xs
  induction xs with
  | nil => intro _; rfl
  | cons x xs ih =>
    intro h
    rw [c14s_encodeMany_cons, List.length_append, hc.len x (h x (by simp)), ih (fun y hy => h y (by simp [hy]))]
    simp

theorem c14s_seqC_enc_nil {α} : (seqC ([] : List (Codec α))).enc [] = [] := rfl

/-- the model's fixed-count writer is `encodeMany` -/
theorem c14s_repC_enc {α} (c : Codec α) : ∀ (n : Nat) (xs : List α), xs.length = n →
    (repC n c).enc xs = c14s_encodeMany c xs := by
  intro n
  induction n with
  | zero => intro xs h; cases xs with
    | nil => rfl
    | cons _ _ => simp at h
  | succ n ih => intro xs h; cases xs with
    | nil => simp at h
    | cons x xs =>
      have hl : xs.length = n := by simpa using h
      have := ih xs hl
      unfold repC at this ⊢
      rw [List.replicate_succ, seqC_enc_cons, this, c14s_encodeMany_cons]

/-- heterogeneous sequences (RNS components, rns_plain objects): concatenation of formats = concatenation of bytes -/
theorem c14s_seqC_enc_append {α} : ∀ (cs ds : List (Codec α)) (xs ys : List α), xs.length = cs.length →
    (seqC (cs ++ ds)).enc (xs ++ ys) = (seqC cs).enc xs ++ (seqC ds).enc ys := by
  intro cs
  induction cs with
  | nil => intro ds xs ys h; cases xs with
    | nil => rfl
    | cons _ _ => simp at h
  | cons c cs ih => intro ds xs ys h; cases xs with
    | nil => simp at h
    | cons x xs =>
      have hl : xs.length = cs.length := by simpa using h
      simp only [List.cons_append, seqC_enc_cons, ih ds xs ys hl, List.append_assoc]

theorem c14s_repC_enc_append {α} (c : Codec α) (m n : Nat) (xs ys : List α) (hx : xs.length = m) (hy : ys.length = n) :
    (repC (m + n) c).enc (xs ++ ys) = (repC m c).enc xs ++ (repC n c).enc ys := by
  rw [c14s_repC_enc c (m + n) (xs ++ ys) (by simp [hx, hy]), c14s_repC_enc c m xs hx, c14s_repC_enc c n ys hy,
    c14s_encodeMany_append]

/-- `Vec<I>` (and `Cipher1d`, …): the 8-byte length, then `encodeMany`; only the item part is a homomorphism -/
theorem c14s_vecC_enc {α} (c : Codec α) (l : List α) : (vecC c).enc l = leBytes 8 l.length ++ c14s_encodeMany c l := by
  show (depC usizeC (fun n => repC n c)).enc (l.length, l) = _
  rw [depC_enc]
  show usizeC.enc l.length ++ (repC l.length c).enc l = _
  rw [c14s_repC_enc c l.length l rfl]
  show (scalarC .usize 8).enc l.length ++ _ = _
  rw [scalarC_enc]

theorem c14s_vecC_enc_append {α} (c : Codec α) (xs ys : List α) :
    (vecC c).enc (xs ++ ys)
      = leBytes 8 (xs.length + ys.length) ++ ((vecC c).enc xs).drop 8 ++ ((vecC c).enc ys).drop 8 := by
  have hd : ∀ l : List α, ((vecC c).enc l).drop 8 = c14s_encodeMany c l := by
    intro l
    rw [c14s_vecC_enc]
    have := @List.drop_left _ (leBytes 8 l.length) (c14s_encodeMany c l)
    rw [leBytes_length] at this; exact this
  rw [hd xs, hd ys, c14s_vecC_enc, c14s_encodeMany_append, List.length_append, List.append_assoc]

theorem c14s_seqNorm_replicate {α} (c : Codec α) : ∀ (n : Nat) (xs : List α), xs.length = n →
    seqNorm (List.replicate n c) xs = xs.map c.norm := by
  intro n
  induction n with
  | zero => intro xs h; cases xs with
    | nil => rfl
    | cons _ _ => simp at h
  | succ n ih => intro xs h; cases xs with
    | nil => simp at h
    | cons x xs =>
      have hl : xs.length = n := by simpa using h
      simp only [List.replicate_succ, seqNorm, ih xs hl, List.map_cons]

/-- `decodeMany (encodeMany xs ++ rest) = (xs (normalised), rest)` -/
theorem c14s_decodeMany_encodeMany {α} (c : Codec α) (hc : c.Lawful) (xs : List α) (hv : ∀ x ∈ xs, c.valid x)
    (rest : Bytes) :
    c14s_decodeMany c xs.length (c14s_encodeMany c xs ++ rest) = .ok (xs.map c.norm, rest) := by
  have hval := repC_valid_of c xs.length xs rfl hv
  have h := (repC_lawful xs.length c hc).rt xs hval rest
  rw [c14s_repC_enc c xs.length xs rfl] at h
  unfold c14s_decodeMany
  rw [h]
  show Except.ok (seqNorm (List.replicate xs.length c) xs, rest) = _
  rw [c14s_seqNorm_replicate c xs.length xs rfl]

/-- for exact item formats the items themselves come back -/
theorem c14s_decodeMany_encodeMany_exact {α} (c : Codec α) (hc : c.Lawful) (he : c.Exact) (xs : List α)
    (hv : ∀ x ∈ xs, c.valid x) (rest : Bytes) :
    c14s_decodeMany c xs.length (c14s_encodeMany c xs ++ rest) = .ok (xs, rest) := by
  rw [c14s_decodeMany_encodeMany c hc xs hv rest]
  congr 2
  have : ∀ (l : List α), (∀ x ∈ l, c.valid x) → l.map c.norm = l := by
    intro l
    induction l with
    | nil => intro _; rfl
    | cons y ys ih =>
      intro h
      rw [List.map_cons, he y (h y (by simp)), ih (fun z hz => h z (by simp [hz]))]
  exact this xs hv

/-- reading a prefix of a longer stream: the first `|xs|` items, and the untouched encoding of the others -/
theorem c14s_decodeMany_prefix {α} (c : Codec α) (hc : c.Lawful) (xs ys : List α) (hv : ∀ x ∈ xs, c.valid x)
    (rest : Bytes) :
    c14s_decodeMany c xs.length (c14s_encodeMany c (xs ++ ys) ++ rest)
      = .ok (xs.map c.norm, c14s_encodeMany c ys ++ rest) := by
  rw [c14s_encodeMany_append, List.append_assoc]
  exact c14s_decodeMany_encodeMany c hc xs hv _

/-- reading `m + n` items = reading `m`, then `n` from what is left -/
theorem c14s_decodeMany_add {α} (c : Codec α) : ∀ (m n : Nat) (bs : Bytes),
    c14s_decodeMany c (m + n) bs = (match c14s_decodeMany c m bs with
      | .error e => .error e
      | .ok (xs, r) => match c14s_decodeMany c n r with
        | .error e => .error e
        | .ok (ys, r') => .ok (xs ++ ys, r')) := by
  intro m
  induction m with
  | zero =>
    intro n bs
    rw [Nat.zero_add]
    have e0 : c14s_decodeMany c 0 bs = .ok ([], bs) := rfl
    rw [e0]
    dsimp only
    cases c14s_decodeMany c n bs with
    | error e => rfl
    | ok p => rfl
  | succ m ih =>
    intro n bs
    have e1 : ∀ k bs, c14s_decodeMany c (k + 1) bs = (match c.dec bs with
        | .error e => .error e
        | .ok (x, r) => match c14s_decodeMany c k r with
          | .error e => .error e
          | .ok (xs, r') => .ok (x :: xs, r')) := by
      intro k bs
      unfold c14s_decodeMany repC
      rw [List.replicate_succ, seqC_dec_cons]
      rfl
    rw [show m + 1 + n = (m + n) + 1 by omega, e1 (m + n), e1 m]
    cases c.dec bs with
    | error e => rfl
    | ok p =>
      obtain ⟨x, r⟩ := p
      simp only [ih n r]
      cases c14s_decodeMany c m r with
      | error e => rfl
      | ok q =>
        obtain ⟨xs, r1⟩ := q
        simp only
        cases c14s_decodeMany c n r1 with
        | error e => rfl
        | ok q2 => rfl

/-! ## validity in plain terms (discharging the `valid` hypotheses of S1 / S2) -/

/-- one component per modulus, `m` coefficients each, every coefficient below `bound q_j` -/
def c14s_CompsFit (m : Nat) (bound : Nat → Nat) : List Nat → Poly → Prop
  | [], [] => True
  | q :: qs, comp :: p => (comp.length = m ∧ ∀ v ∈ comp, v < bound q) ∧ c14s_CompsFit m bound qs p
  | _, _ => False

/-- a polynomial fits the compact layout: every coefficient representable in `limit(q_j)` bytes -/
def c14s_PolyFits (m : Nat) (qs : List Nat) (p : Poly) : Prop := c14s_CompsFit m (fun q => 256 ^ u64Limit q) qs p

theorem c14s_polyFits_valid (m : Nat) : ∀ (qs : List Nat) (p : Poly), c14s_PolyFits m qs p →
    seqValid (qs.map fun q => repC m (limC (u64Limit q))) p := by
  intro qs
  induction qs with
  | nil => intro p h; cases p with
    | nil => trivial
    | cons _ _ => exact absurd h (by simp [c14s_PolyFits, c14s_CompsFit])
  | cons q qs ih => intro p h; cases p with
    | nil => exact absurd h (by simp [c14s_PolyFits, c14s_CompsFit])
    | cons comp p =>
      obtain ⟨hd, ht⟩ : (comp.length = m ∧ ∀ v ∈ comp, v < 256 ^ u64Limit q) ∧ c14s_PolyFits m qs p := h
      exact ⟨repC_valid_of _ _ _ hd.1 (fun v hv => limC_valid_of_lt _ v (hd.2 v hv)), ih p ht⟩

/-- residues below their modulus always fit -/
theorem c14s_polyFits_of_reduced (m : Nat) : ∀ (qs : List Nat) (p : Poly),
    c14s_CompsFit m (fun q => q) qs p → c14s_PolyFits m qs p := by
  intro qs
  induction qs with
  | nil => intro p h; cases p with
    | nil => trivial
    | cons _ _ => exact absurd h (by simp [c14s_CompsFit])
  | cons q qs ih => intro p h; cases p with
    | nil => exact absurd h (by simp [c14s_CompsFit])
    | cons comp p =>
      obtain ⟨hd, ht⟩ : (comp.length = m ∧ ∀ v ∈ comp, v < q) ∧ c14s_CompsFit m (fun q => q) qs p := h
      exact ⟨⟨hd.1, fun v hv => u64Limit_width _ v (hd.2 v hv)⟩, ih p ht⟩

theorem c14s_boolC_valid (b : Bool) : boolC.valid b := by
  cases b
  · show (0 : Nat) < 256 ^ 1; decide
  · show (1 : Nat) < 256 ^ 1; decide

theorem c14s_boolC_norm (b : Bool) : boolC.norm b = b := by cases b <;> rfl

theorem c14s_u64_valid (v : Nat) (h : v < 2 ^ 64) : u64C.valid v := by
  show v < 256 ^ 8
  rw [c14s_pow256]; exact h

theorem c14s_repC_u64_valid (n : Nat) (l : List Nat) (hl : l.length = n) (h : ∀ w ∈ l, w < 2 ^ 64) :
    (repC n u64C).valid l := repC_valid_of u64C n l hl (fun w hw => c14s_u64_valid w (h w hw))

theorem c14s_pidC_valid (pid : List Nat) (hl : pid.length = 4) (h : ∀ w ∈ pid, w < 2 ^ 64) : pidC.valid pid :=
  c14s_repC_u64_valid 4 pid hl h

theorem c14s_guard_pid_valid (g : List Nat → Bool) (pid : List Nat) (hl : pid.length = 4) (h : ∀ w ∈ pid, w < 2 ^ 64)
    (hg : g pid = true) : (guardC pidC g).valid pid ∧ (guardC pidC g).norm pid = pid := by
  have hv := c14s_pidC_valid pid hl h
  have hn : pidC.norm pid = pid := pidC_exact pid hv
  exact ⟨⟨hv, by rw [hn]; exact hg⟩, hn⟩

theorem c14s_extraC_valid (s scale cf : Nat) (h1 : scale < 2 ^ 64) (h2 : cf < 2 ^ 64) :
    (extraC s).valid (if s == 2 then [scale] else if s == 3 then [cf] else []) := by
  unfold extraC
  by_cases e2 : s = 2
  · subst e2
    simp only [beq_self_eq_true, if_true]
    exact c14s_repC_u64_valid 1 [scale] rfl (fun w hw => by rw [List.mem_singleton.mp hw]; exact h1)
  · by_cases e3 : s = 3
    · subst e3
      have e1 : ((3 : Nat) == 2) = false := by decide
      simp only [e1, beq_self_eq_true, if_true, Bool.false_eq_true, if_false]
      exact c14s_repC_u64_valid 1 [cf] rfl (fun w hw => by rw [List.mem_singleton.mp hw]; exact h2)
    · have e2' : (s == 2) = false := by simp [e2]
      have e3' : (s == 3) = false := by simp [e3]
      simp only [e2', e3', Bool.false_eq_true, if_false]
      exact c14s_repC_u64_valid 0 [] rfl (fun w hw => by cases hw)

/-- header and shape conditions common to the compact and the terms format -/
structure c14s_CtWF (ctx : Ctx) (c : Ct) : Prop where
  pid_len : c.pid.length = 4
  pid_u64 : ∀ w ∈ c.pid, w < 2 ^ 64
  known : (ctx.find c.pid).isSome = true
  size_u64 : c.size < 2 ^ 64
  scale_u64 : c.scale < 2 ^ 64
  cf_u64 : c.cf < 2 ^ 64
  count : c.polys.length = if c.seeded then 1 else c.size
  seed_ok : c.seed = [] ∨ (c.seed.length = 8 ∧ ∀ w ∈ c.seed, w < 2 ^ 64)
  tail_fit : ∀ p ∈ c.polys.tail,
    c14s_PolyFits ((ctx.find c.pid).getD noLevel).n ((ctx.find c.pid).getD noLevel).moduli p

theorem c14s_body_valid (lv : Level) (first : Codec Poly) (size : Nat) (polys : List Poly) (seed : List Nat) (p0' : Poly)
    (hcount : polys.length = if (!seed.isEmpty) then 1 else size)
    (hseed : seed = [] ∨ (seed.length = 8 ∧ ∀ w ∈ seed, w < 2 ^ 64))
    (h0 : polys ≠ [] → first.valid p0')
    (htail : ∀ p ∈ polys.tail, c14s_PolyFits lv.n lv.moduli p) :
    (ctBodyC lv size first).valid (!seed.isEmpty, (match polys with | [] => [] | _ :: ps => p0' :: ps), seed) := by
  refine ⟨c14s_boolC_valid _, c14s_boolC_norm _, ?_, ?_⟩
  · show seqValid _ _
    cases hse : seed.isEmpty with
    | false =>
      simp only [hse, Bool.not_false, if_true] at hcount ⊢
      cases polys with
      | nil => simp at hcount
      | cons p0 ps =>
        cases ps with
        | cons _ _ => simp at hcount
        | nil => exact ⟨h0 (by simp), trivial⟩
    | true =>
      simp only [hse, Bool.not_true, Bool.false_eq_true, if_false] at hcount ⊢
      cases size with
      | zero =>
        cases polys with
        | nil => trivial
        | cons _ _ => simp at hcount
      | succ k =>
        have e : (first :: List.replicate (k + 1 - 1) (polyC lv)).take (k + 1) = first :: List.replicate k (polyC lv) := by
          simp
        rw [e]
        cases polys with
        | nil => simp at hcount
        | cons p0 ps =>
          have hl : ps.length = k := by simpa using hcount
          exact ⟨h0 (by simp), repC_valid_of (polyC lv) k ps hl
            (fun p hp => c14s_polyFits_valid _ _ p (htail p hp))⟩
  · show (repC _ u64C).valid seed
    rcases hseed with hs | ⟨hl, hu⟩
    · subst hs; exact c14s_repC_u64_valid _ [] rfl (fun w hw => by cases hw)
    · have hse : seed.isEmpty = false := by
        cases seed with
        | nil => simp at hl
        | cons _ _ => rfl
      simp only [hse, Bool.not_false, if_true]
      exact c14s_repC_u64_valid _ seed hl hu

theorem c14s_ctWire_valid (ctx : Ctx) (first : Level → Codec Poly) (tr : Level → Bool → Poly → Poly) (c : Ct)
    (hw : c14s_CtWF ctx c)
    (h0 : ∀ p0, c.polys.head? = some p0 →
      (first ((ctx.find c.pid).getD noLevel)).valid (tr ((ctx.find c.pid).getD noLevel) c.ntt p0)) :
    (ctWireC ctx first).valid (ctToWire ctx tr c) := by
  obtain ⟨hg1, hg2⟩ := c14s_guard_pid_valid (fun pid => (ctx.find pid).isSome) c.pid hw.pid_len hw.pid_u64 hw.known
  have hbody := c14s_body_valid ((ctx.find c.pid).getD noLevel) (first ((ctx.find c.pid).getD noLevel)) c.size c.polys c.seed
    (tr ((ctx.find c.pid).getD noLevel) c.ntt (c.polys.headD [])) hw.count hw.seed_ok
    (fun hne => by
      cases hp : c.polys with
      | nil => exact absurd hp hne
      | cons p0 ps => exact h0 p0 (by rw [hp]; rfl))
    hw.tail_fit
  have hpolys : (match c.polys with | [] => [] | _ :: ps => tr ((ctx.find c.pid).getD noLevel) c.ntt (c.polys.headD []) :: ps)
      = (match c.polys with | [] => [] | p0 :: ps => tr ((ctx.find c.pid).getD noLevel) c.ntt p0 :: ps) := by
    cases c.polys <;> rfl
  rw [hpolys] at hbody
  exact ⟨hg1, hg2, c14s_u64_valid _ hw.size_u64, rfl, c14s_boolC_valid _,
    c14s_extraC_valid _ _ _ hw.scale_u64 hw.cf_u64, hbody⟩

/-- discharge of `(ctC ctx expand).valid c`: header fields are `u64`s, the parms id is known to the context,
    the polynomial count matches, every polynomial has the level's shape with representable coefficients -/
theorem c14s_ctC_valid (ctx : Ctx) (expand : List Nat → Level → Poly) (c : Ct) (hw : c14s_CtWF ctx c)
    (h0 : ∀ p0, c.polys.head? = some p0 →
      c14s_PolyFits ((ctx.find c.pid).getD noLevel).n ((ctx.find c.pid).getD noLevel).moduli p0) :
    (ctC ctx expand).valid c :=
  c14s_ctWire_valid ctx polyC (fun _ _ p => p) c hw (fun p0 hp => c14s_polyFits_valid _ _ p0 (h0 p0 hp))

/-- discharge of `(ctTermsC …).valid c`: as above, with polynomial 0 judged on its gathered coefficients -/
theorem c14s_ctTermsC_valid (ctx : Ctx) (expand : List Nat → Level → Poly)
    (fwd inv : Level → Nat → List Nat → List Nat) (T : List Nat) (c : Ct) (hw : c14s_CtWF ctx c)
    (h0 : ∀ p0, c.polys.head? = some p0 →
      c14s_PolyFits T.length ((ctx.find c.pid).getD noLevel).moduli
        (mapIdx (fun j comp => gather T (if c.ntt then inv ((ctx.find c.pid).getD noLevel) j comp else comp)) 0 p0)) :
    (ctTermsC ctx expand fwd inv T).valid c :=
  c14s_ctWire_valid ctx (termsPolyC T.length) _ c hw (fun p0 hp => c14s_polyFits_valid _ _ _ (h0 p0 hp))

/-! ### non-vacuity: a concrete context, ciphertexts and term set satisfying every hypothesis bundle -/

/-- one BFV level, `N = 4`, moduli 17 (1 byte) and 257 (2 bytes) -/
def c14s_exCtx : Ctx := ⟨[⟨[1, 2, 3, 4], 1, 4, [17, 257]⟩], 5, 4⟩

def c14s_exCt : Ct :=
  ⟨[1, 2, 3, 4], 2, false, oneF64, 1, [[[1, 2, 3, 16], [0, 256, 5, 7]], [[4, 5, 6, 7], [8, 9, 10, 11]]], []⟩

/-- seeded, NTT form -/
def c14s_exCtSeeded : Ct :=
  ⟨[1, 2, 3, 4], 2, true, oneF64, 1, [[[1, 2, 3, 16], [0, 256, 5, 7]]], [1, 2, 3, 4, 5, 6, 7, 8]⟩

theorem c14s_exCt_wf : c14s_CtWF c14s_exCtx c14s_exCt where
  pid_len := rfl
  pid_u64 := by decide
  known := by decide
  size_u64 := by decide
  scale_u64 := by decide
  cf_u64 := by decide
  count := rfl
  seed_ok := Or.inl rfl
  tail_fit := by
    intro p hp
    have : p = [[4, 5, 6, 7], [8, 9, 10, 11]] := by simpa [c14s_exCt] using hp
    subst this
    exact ⟨⟨rfl, by decide⟩, ⟨rfl, by decide⟩, trivial⟩

theorem c14s_exCtSeeded_wf : c14s_CtWF c14s_exCtx c14s_exCtSeeded where
  pid_len := rfl
  pid_u64 := by decide
  known := by decide
  size_u64 := by decide
  scale_u64 := by decide
  cf_u64 := by decide
  count := rfl
  seed_ok := Or.inr ⟨rfl, by decide⟩
  tail_fit := by
    intro p hp
    simp [c14s_exCtSeeded] at hp

theorem c14s_exCt_valid (expand : List Nat → Level → Poly) : (ctC c14s_exCtx expand).valid c14s_exCt :=
  c14s_ctC_valid _ _ _ c14s_exCt_wf (by
    intro p0 hp
    have : p0 = [[1, 2, 3, 16], [0, 256, 5, 7]] := by
      have h : some [[1, 2, 3, 16], [0, 256, 5, 7]] = some p0 := hp
      injection h with h; exact h.symm
    subst this
    exact ⟨⟨rfl, by decide⟩, ⟨rfl, by decide⟩, trivial⟩)

theorem c14s_exCt_terms_valid (expand : List Nat → Level → Poly) (fwd inv : Level → Nat → List Nat → List Nat) :
    (ctTermsC c14s_exCtx expand fwd inv [0, 2]).valid c14s_exCt :=
  c14s_ctTermsC_valid _ _ _ _ _ _ c14s_exCt_wf (by
    intro p0 hp
    have : p0 = [[1, 2, 3, 16], [0, 256, 5, 7]] := by
      have h : some [[1, 2, 3, 16], [0, 256, 5, 7]] = some p0 := hp
      injection h with h; exact h.symm
    subst this
    show c14s_PolyFits 2 [17, 257] [[1, 3], [0, 5]]
    exact ⟨⟨rfl, by decide⟩, ⟨rfl, by decide⟩, trivial⟩)

/-- seeded NTT-form instance with the (trivially invertible) transforms `fwd = inv = reverse` -/
theorem c14s_exCtSeeded_terms_valid (expand : List Nat → Level → Poly) :
    (ctTermsC c14s_exCtx expand (fun _ _ x => x.reverse) (fun _ _ x => x.reverse) [0, 2]).valid c14s_exCtSeeded :=
  c14s_ctTermsC_valid _ _ _ _ _ _ c14s_exCtSeeded_wf (by
    intro p0 hp
    have : p0 = [[1, 2, 3, 16], [0, 256, 5, 7]] := by
      have h : some [[1, 2, 3, 16], [0, 256, 5, 7]] = some p0 := hp
      injection h with h; exact h.symm
    subst this
    exact ⟨⟨rfl, by decide⟩, ⟨rfl, by decide⟩, trivial⟩)

/-- what the mask is on the instance: coefficients 0 and 2 of polynomial 0 survive, polynomial 1 untouched -/
example (expand : List Nat → Level → Poly) (fwd inv : Level → Nat → List Nat → List Nat) :
    c14s_maskTerms c14s_exCtx expand fwd inv [0, 2] c14s_exCt
      = { c14s_exCt with polys := [[[1, 0, 3, 0], [0, 0, 5, 0]], [[4, 5, 6, 7], [8, 9, 10, 11]]] } := by
  rfl

/-- sizes on the instance: 32+8+1 header, 1 flag, 2·4·(1+2) coefficient bytes = 66; terms {0,2}: 2·3 + 4·3 = 18 → 60 -/
example (expand : List Nat → Level → Poly) : ((ctC c14s_exCtx expand).enc c14s_exCt).length = 66 := by
  rw [(ctC_lawful _ _).len _ (c14s_exCt_valid expand), c14s_ctC_size _ _ _ (c14s_exCt_valid expand)]
  decide

example (expand : List Nat → Level → Poly) (fwd inv : Level → Nat → List Nat → List Nat) :
    ((ctTermsC c14s_exCtx expand fwd inv [0, 2]).enc c14s_exCt).length = 60 := by
  rw [(ctTermsC_lawful _ _ _ _ _).len _ (c14s_exCt_terms_valid expand fwd inv),
    c14s_ctTermsC_size _ _ _ _ _ _ (c14s_exCt_terms_valid expand fwd inv)]
  decide

/-- the idempotence hypothesis is satisfiable for NTT-form objects (`reverse ∘ reverse = id`) -/
example (p : Poly) : c14s_InvFwdOnMasked (⟨[1, 2, 3, 4], 1, 4, [17, 257]⟩ : Level)
    (fun _ _ x => x.reverse) (fun _ _ x => x.reverse) [0, 2] p :=
  c14s_invFwdOnMasked_of_length _ _ _ _ _ (fun _ x _ => List.reverse_reverse x)

/-! ### validity of vectors, plaintexts and key sets in plain terms -/

theorem c14s_vecC_valid {α} (c : Codec α) (l : List α) (hl : l.length < 2 ^ 64) (h : ∀ x ∈ l, c.valid x) :
    (vecC c).valid l :=
  ⟨c14s_u64_valid _ hl, rfl, repC_valid_of c l.length l rfl h⟩

theorem c14s_plainC_valid (p : Plain) (h1 : p.pid.length = 4) (h2 : ∀ w ∈ p.pid, w < 2 ^ 64)
    (h3 : p.data.length < 2 ^ 64) (h4 : ∀ w ∈ p.data, w < 2 ^ 64) (h5 : p.scale < 2 ^ 64) : plainC.valid p :=
  ⟨c14s_pidC_valid p.pid h1 h2, c14s_vecC_valid u64C p.data h3 (fun w hw => c14s_u64_valid w (h4 w hw)),
    c14s_u64_valid _ h5⟩

theorem c14s_kswitchC_valid {γ} (pk : Codec γ) (k : KSwitch γ) (h1 : k.pid.length = 4) (h2 : ∀ w ∈ k.pid, w < 2 ^ 64)
    (h3 : k.keys.length < 2 ^ 64) (h4 : ∀ r ∈ k.keys, r.length < 2 ^ 64) (h5 : ∀ r ∈ k.keys, ∀ x ∈ r, pk.valid x) :
    (kswitchC pk).valid k :=
  ⟨c14s_pidC_valid k.pid h1 h2,
    c14s_vecC_valid (vecC pk) k.keys h3 (fun r hr => c14s_vecC_valid pk r (h4 r hr) (h5 r hr))⟩

/-! ## instantiation with the model's NTT (C09): the `fwd` / `inv` the driver plugs in -/

/-- forward / inverse negacyclic NTT of component `j` through the C09 model, for a family of tables -/
def c14s_nttFwd (tab : Level → Nat → HC.NTTTables) (lv : Level) (j : Nat) (x : List Nat) : List Nat :=
  (HC.ntt (tab lv j) x.toArray).toList
def c14s_nttInv (tab : Level → Nat → HC.NTTTables) (lv : Level) (j : Nat) (x : List Nat) : List Nat :=
  (HC.intt (tab lv j) x.toArray).toList

/-- the tables belong to the level: well formed (what `NTTTables.new` establishes, `NTTTables.new_wf_u64`),
    degree `N`, modulus `q_j` -/
structure c14s_TablesFor (tab : Level → Nat → HC.NTTTables) (lv : Level) : Prop where
  wf : ∀ j, j < lv.moduli.length → (tab lv j).WF
  deg : ∀ j, j < lv.moduli.length → 2 ^ (tab lv j).k = lv.n
  q : ∀ j, j < lv.moduli.length → (tab lv j).modulus.value = lv.moduli.getD j 0

theorem c14s_intt_list (t : HC.NTTTables) (hw : t.WF) (x : List Nat) (hl : x.length = 2 ^ t.k)
    (hx : ∀ i, x.getD i 0 < 2 * t.modulus.value) :
    (HC.intt t x.toArray).toList.length = 2 ^ t.k ∧ ∀ i, (HC.intt t x.toArray).toList.getD i 0 < t.modulus.value := by
  obtain ⟨g1, g2⟩ := HC.intt_sim hw x.toArray (by simpa using hl) (fun j _ => by simpa using hx j)
  refine ⟨by simpa using g1, fun i => ?_⟩
  by_cases hi : i < 2 ^ t.k
  · have := (g2 i hi).1
    simpa using this
  · have h2 := hw.mwf.two_le
    have hlen : (HC.intt t x.toArray).toList.length ≤ i := by simp [g1]; omega
    rw [List.getD_eq_getElem?_getD, List.getElem?_eq_none hlen]
    show 0 < t.modulus.value
    omega

theorem c14s_intt_ntt_list (t : HC.NTTTables) (hw : t.WF) (y : List Nat) (hl : y.length = 2 ^ t.k)
    (hy : ∀ i, y.getD i 0 < t.modulus.value) :
    (HC.intt t (HC.ntt t y.toArray).toList.toArray).toList = y := by
  simp [HC.intt_ntt hw y.toArray (by simpa using hl) (fun j _ => by simpa using hy j)]

theorem c14s_ntt_intt_list (t : HC.NTTTables) (hw : t.WF) (y : List Nat) (hl : y.length = 2 ^ t.k)
    (hy : ∀ i, y.getD i 0 < t.modulus.value) :
    (HC.ntt t (HC.intt t y.toArray).toList.toArray).toList = y := by
  simp [HC.ntt_intt hw y.toArray (by simpa using hl) (fun j _ => by simpa using hy j)]

theorem c14s_getElem?_lt {α} (p : List α) (j : Nat) (x : α) (h : p[j]? = some x) : j < p.length := by
  rcases Nat.lt_or_ge j p.length with h1 | h1
  · exact h1
  · rw [List.getElem?_eq_none h1] at h; cases h

/-- with the real transforms the idempotence hypothesis holds as soon as polynomial 0 has the level's shape
    and lazily reduced (`< 2 q_j`) components -/
theorem c14s_ntt_invFwdOnMasked (tab : Level → Nat → HC.NTTTables) (lv : Level) (ht : c14s_TablesFor tab lv)
    (T : List Nat) (p : Poly) (hp : p.length ≤ lv.moduli.length)
    (hc : ∀ j comp, p[j]? = some comp → comp.length = lv.n ∧ ∀ i, comp.getD i 0 < 2 * lv.moduli.getD j 0) :
    c14s_InvFwdOnMasked lv (c14s_nttFwd tab) (c14s_nttInv tab) T p := by
  intro j comp hj
  have hjk : j < lv.moduli.length := Nat.lt_of_lt_of_le (c14s_getElem?_lt p j comp hj) hp
  obtain ⟨hcl, hcv⟩ := hc j comp hj
  have hw := ht.wf j hjk
  have hd := ht.deg j hjk
  have hq := ht.q j hjk
  obtain ⟨_, h2⟩ := c14s_intt_list (tab lv j) hw comp (by rw [hd]; exact hcl) (fun i => by rw [hq]; exact hcv i)
  unfold c14s_nttFwd c14s_nttInv
  apply c14s_intt_ntt_list (tab lv j) hw
  · rw [c14s_mask_length, hd]
  · intro i
    rw [c14s_mask_getD]
    have h0 := hw.mwf.two_le
    by_cases hcnd : i < lv.n ∧ i ∈ T
    · rw [if_pos hcnd]; exact h2 i
    · rw [if_neg hcnd]; omega

/-- … and the `T = all` hypotheses hold for reduced components -/
theorem c14s_ntt_fwd_inv (tab : Level → Nat → HC.NTTTables) (lv : Level) (ht : c14s_TablesFor tab lv)
    (p : Poly) (hp : p.length ≤ lv.moduli.length)
    (hc : ∀ j comp, p[j]? = some comp → comp.length = lv.n ∧ ∀ i, comp.getD i 0 < lv.moduli.getD j 0) :
    ∀ j comp, p[j]? = some comp →
      (c14s_nttInv tab lv j comp).length = lv.n ∧ c14s_nttFwd tab lv j (c14s_nttInv tab lv j comp) = comp := by
  intro j comp hj
  have hjk : j < lv.moduli.length := Nat.lt_of_lt_of_le (c14s_getElem?_lt p j comp hj) hp
  obtain ⟨hcl, hcv⟩ := hc j comp hj
  have hw := ht.wf j hjk
  have hd := ht.deg j hjk
  have hq := ht.q j hjk
  obtain ⟨h1, _⟩ := c14s_intt_list (tab lv j) hw comp (by rw [hd]; exact hcl)
    (fun i => by rw [hq]; have := hcv i; omega)
  refine ⟨by unfold c14s_nttInv; rw [h1, hd], ?_⟩
  unfold c14s_nttFwd c14s_nttInv
  exact c14s_ntt_intt_list (tab lv j) hw comp (by rw [hd]; exact hcl) (fun i => by rw [hq]; exact hcv i)

/-- a concrete table built by `NTTTables.new`: `N = 4`, `q = 97`, primitive 8th root handed in: 64 -/
def c14s_m97 : HC.Modulus := ⟨97, 11600529778312192253, 190172619316593315, 35, 7⟩
theorem c14s_m97_mk : HC.Modulus.mk? 97 = .ok c14s_m97 := by rfl
theorem c14s_m97_wf : c14s_m97.WF := (HC.Modulus.mk?_wf c14s_m97_mk (by decide)).1

def c14s_t97 : HC.NTTTables :=
  (HC.NTTTables.new 2 c14s_m97 true 64).toOption.getD ⟨0, c14s_m97, 0, #[], #[], ⟨0, 0⟩⟩

theorem c14s_t97_new : HC.NTTTables.new 2 c14s_m97 true 64 = .ok c14s_t97 := by
  have h : (HC.NTTTables.new 2 c14s_m97 true 64).toOption.isSome = true := by decide +kernel
  unfold c14s_t97
  cases hr : HC.NTTTables.new 2 c14s_m97 true 64 with
  | error e => rw [hr] at h; simp [Except.toOption] at h
  | ok b => simp [Except.toOption]

theorem c14s_t97_facts : c14s_t97.WF ∧ c14s_t97.k = 2 ∧ c14s_t97.modulus = c14s_m97 := by
  obtain ⟨h1, h2, h3, _⟩ := HC.NTTTables.new_wf_u64 c14s_m97_wf (by decide) (by decide) c14s_t97_new
  exact ⟨h1, h2, h3⟩

def c14s_exTab : Level → Nat → HC.NTTTables := fun _ _ => c14s_t97
def c14s_exLevelNtt : Level := ⟨[1, 2, 3, 4], 1, 4, [97]⟩

theorem c14s_exTab_for : c14s_TablesFor c14s_exTab c14s_exLevelNtt where
  wf := fun _ _ => c14s_t97_facts.1
  deg := by
    intro j _
    show 2 ^ c14s_t97.k = 4
    rw [c14s_t97_facts.2.1]; rfl
  q := by
    intro j hj
    have hj1 : j < 1 := hj
    have : j = 0 := by omega
    subst this
    show c14s_t97.modulus.value = 97
    rw [c14s_t97_facts.2.2]; rfl

/-! ## Property theorems -/

/-! ### S1: `(encode x).length = closed form` -/

/-- scalars: `u64`/`usize`/`f64`/`Modulus` 8 bytes, `u8`/`bool`/`SchemeType` 1 byte, `ParmsID` 32 bytes -/
theorem c14s_len_scalars :
    (∀ v, (u64C.enc v).length = 8) ∧ (∀ v, (usizeC.enc v).length = 8) ∧ (∀ v, (f64C.enc v).length = 8) ∧
    (∀ v, (modulusC.enc v).length = 8) ∧ (∀ v, (u8C.enc v).length = 1) ∧ (∀ b, (boolC.enc b).length = 1) ∧
    (∀ v, (schemeC.enc v).length = 1) ∧ (∀ pid, pid.length = 4 → (pidC.enc pid).length = 32) := by
  refine ⟨fun v => ?_, fun v => ?_, fun v => ?_, fun v => ?_, fun v => ?_, fun b => ?_, fun v => ?_, fun pid h => ?_⟩
  · exact (scalarC_enc _ _ v).symm ▸ leBytes_length 8 v
  · exact (scalarC_enc _ _ v).symm ▸ leBytes_length 8 v
  · exact (scalarC_enc _ _ v).symm ▸ leBytes_length 8 v
  · exact (scalarC_enc _ _ v).symm ▸ leBytes_length 8 v
  · exact (scalarC_enc _ _ v).symm ▸ leBytes_length 1 v
  · exact (scalarC_enc .u8 1 (if b then 1 else 0)).symm ▸ leBytes_length 1 _
  · exact (scalarC_enc .u8 1 v).symm ▸ leBytes_length 1 v
  · show ((repC 4 u64C).enc pid).length = 32
    rw [c14s_repC_enc u64C 4 pid h]
    match pid, h with
    | [a, b, c, d], _ =>
      simp only [c14s_encodeMany, List.map_cons, List.map_nil, List.flatten_cons, List.flatten_nil,
        List.length_append, List.length_nil]
      have e : ∀ v, (u64C.enc v).length = 8 := fun v => (scalarC_enc _ _ v).symm ▸ leBytes_length 8 v
      rw [e, e, e, e]

/-- a residue written with width `w` takes `w` bytes (whatever its value) -/
theorem c14s_len_residue (w v : Nat) : ((limC w).enc v).length = w := by
  have h := (repC_lawful w u8C u8C_lawful).len (leBytes w v) (c14s_leBytes_valid w v)
  have h2 : (repC w u8C).size (leBytes w v) = w := c14s_limC_size w v
  show ((repC w u8C).enc (leBytes w v)).length = w
  rw [h, h2]

/-- `Vec<I>` and the 1-d containers: 8 + the item sizes -/
theorem c14s_len_vec {α} (c : Codec α) (hc : c.Lawful) (l : List α) (hv : (vecC c).valid l) :
    ((vecC c).enc l).length = 8 + (l.map c.size).sum := by
  rw [(vecC_lawful c hc).len l hv, c14s_vecC_size]

/-- `EncryptionParameters`: 1 + 8 + (8 + 8k) + [8 if BFV/BGV] + 1 -/
theorem c14s_len_params (p : Params) (hv : paramsC.valid p) :
    (paramsC.enc p).length = 1 + 8 + (8 + 8 * p.coeffMod.length) + (if hasPlain p.scheme then 8 else 0) + 1 := by
  rw [paramsC_lawful.len p hv, c14s_paramsC_size]; rfl

/-- `Plaintext` / `SecretKey`: 32 + (8 + 8·|data|) + 8 -/
theorem c14s_len_plain (p : Plain) (hv : plainC.valid p) : (plainC.enc p).length = 32 + (8 + 8 * p.data.length) + 8 := by
  rw [plainC_lawful.len p hv, c14s_plainC_size p hv]; rfl

/-- one polynomial in the compact format: `N · Σ_j limit(q_j)` -/
theorem c14s_len_poly (lv : Level) (p : Poly) (hv : (polyC lv).valid p) :
    ((polyC lv).enc p).length = lv.n * (lv.moduli.map u64Limit).sum := by
  rw [(polyC_lawful lv).len p hv, c14s_polyC_size lv p hv]; rfl

/-- `Ciphertext` / `PublicKey`, compact format, fully explicit:
    32 (parms id) + 8 (size) + 1 (NTT flag) + [8 scale/correction factor if CKKS/BGV] + 1 (seed flag)
    + (1 if seeded else size) · N · Σ_j limit(q_j) + [64 seed bytes if seeded] -/
theorem c14s_len_ct (ctx : Ctx) (expand : List Nat → Level → Poly) (c : Ct) (hv : (ctC ctx expand).valid c) :
    ((ctC ctx expand).enc c).length
      = 32 + 8 + 1 + (if ((ctx.find c.pid).getD noLevel).scheme == 2 || ((ctx.find c.pid).getD noLevel).scheme == 3 then 8 else 0)
        + 1 + (if c.seeded then 1 else c.size)
            * (((ctx.find c.pid).getD noLevel).n * (((ctx.find c.pid).getD noLevel).moduli.map u64Limit).sum)
        + (if c.seeded then 64 else 0) := by
  rw [(ctC_lawful ctx expand).len c hv, c14s_ctC_size ctx expand c hv]; rfl

/-- … and this is the Rust `Ciphertext::serialized_size` -/
theorem c14s_len_ct_rust (ctx : Ctx) (expand : List Nat → Level → Poly) (c : Ct) (hv : (ctC ctx expand).valid c) :
    ((ctC ctx expand).enc c).length = ctSerializedSize ((ctx.find c.pid).getD noLevel) c.size c.seeded := by
  rw [(ctC_lawful ctx expand).len c hv, c14s_ctC_size ctx expand c hv, c14s_ctSerializedSize_eq]

/-- selected-terms format: header + 1 + |T|·Σ limit for polynomial 0 + (size−1)·N·Σ limit for the others
    (seeded: |T|·Σ limit + 64) -/
theorem c14s_len_ct_terms (ctx : Ctx) (expand : List Nat → Level → Poly)
    (fwd inv : Level → Nat → List Nat → List Nat) (T : List Nat) (c : Ct)
    (hv : (ctTermsC ctx expand fwd inv T).valid c) :
    ((ctTermsC ctx expand fwd inv T).enc c).length
      = 32 + 8 + 1 + (if ((ctx.find c.pid).getD noLevel).scheme == 2 || ((ctx.find c.pid).getD noLevel).scheme == 3 then 8 else 0)
        + 1 + (if c.seeded then T.length * (((ctx.find c.pid).getD noLevel).moduli.map u64Limit).sum + 64
               else if c.size = 0 then 0
               else T.length * (((ctx.find c.pid).getD noLevel).moduli.map u64Limit).sum
                    + (c.size - 1) * (((ctx.find c.pid).getD noLevel).n * (((ctx.find c.pid).getD noLevel).moduli.map u64Limit).sum)) := by
  rw [(ctTermsC_lawful ctx expand fwd inv T).len c hv, c14s_ctTermsC_size ctx expand fwd inv T c hv]; rfl

/-- … which is the Rust `serialized_terms_size` except at `size = 0` unseeded (see `c14s_TermsSizeStatement_false`) -/
theorem c14s_len_ct_terms_rust (ctx : Ctx) (expand : List Nat → Level → Poly)
    (fwd inv : Level → Nat → List Nat → List Nat) (T : List Nat) (c : Ct)
    (hv : (ctTermsC ctx expand fwd inv T).valid c) (h : c.seeded = true ∨ c.size ≠ 0) :
    ((ctTermsC ctx expand fwd inv T).enc c).length
      = ctSerializedTermsSize ((ctx.find c.pid).getD noLevel) c.size c.seeded T.length := by
  rw [(ctTermsC_lawful ctx expand fwd inv T).len c hv, c14s_ctTermsC_size ctx expand fwd inv T c hv,
    c14s_ctSerializedTermsSize_eq _ _ _ _ h]

/-- full format: header + 8 (word count) + 8 per word sent -/
theorem c14s_len_ct_full (ctx : Ctx) (expand : List Nat → Level → List Nat) (c : CtFull)
    (hv : (ctFullC ctx expand).valid c) :
    ((ctFullC ctx expand).enc c).length
      = 32 + 8 + 1 + (if ((ctx.find c.pid).getD noLevel).scheme == 2 || ((ctx.find c.pid).getD noLevel).scheme == 3 then 8 else 0)
        + 8 + min (fullSent ((ctx.find c.pid).getD noLevel) c) c.data.length * 8 := by
  rw [(ctFullC_lawful ctx expand).len c hv, c14s_ctFullC_size ctx expand c hv]; rfl

/-- key sets: 32 + 8 + 8 per entry (present or missing) + `s` per key, all keys of size `s` -/
theorem c14s_len_kswitch {γ} (pk : Codec γ) (hpk : pk.Lawful) (k : KSwitch γ) (s : Nat) (hv : (kswitchC pk).valid k)
    (hs : ∀ r ∈ k.keys, ∀ x ∈ r, pk.size x = s) :
    ((kswitchC pk).enc k).length = 32 + 8 + 8 * k.keys.length + s * (k.keys.map List.length).sum := by
  rw [(kswitchC_lawful pk hpk).len k hv, c14s_kswitchC_size pk k s hv hs]

/-- containers of dimensions `d1`, `d1 × d2`, `d1 × d2 × d3` with items of size `s` -/
theorem c14s_len_c1d {γ} (c : Codec γ) (hc : c.Lawful) (l : List γ) (s : Nat) (hv : (c1dC c).valid l)
    (hs : ∀ x ∈ l, c.size x = s) : ((c1dC c).enc l).length = 8 + l.length * s := by
  rw [(c1dC_lawful c hc).len l hv, c14s_c1dC_size c l s hs]

theorem c14s_len_c2d {γ} (c : Codec γ) (hc : c.Lawful) (l : List (List γ)) (s d2 : Nat) (hv : (c2dC c).valid l)
    (hd : ∀ r ∈ l, r.length = d2) (hs : ∀ r ∈ l, ∀ x ∈ r, c.size x = s) :
    ((c2dC c).enc l).length = 8 + l.length * (8 + d2 * s) := by
  rw [(c2dC_lawful c hc).len l hv, c14s_c2dC_size c l s d2 hd hs]

theorem c14s_len_c3d {γ} (c : Codec γ) (hc : c.Lawful) (l : List (List (List γ))) (s d2 d3 : Nat) (hv : (c3dC c).valid l)
    (hd2 : ∀ m ∈ l, m.length = d2) (hd3 : ∀ m ∈ l, ∀ r ∈ m, r.length = d3)
    (hs : ∀ m ∈ l, ∀ r ∈ m, ∀ x ∈ r, c.size x = s) :
    ((c3dC c).enc l).length = 8 + l.length * (8 + d2 * (8 + d3 * s)) := by
  rw [(c3dC_lawful c hc).len l hv, c14s_c3dC_size c l s d2 d3 hd2 hd3 hs]

/-- rns_plain objects: the component sizes added up -/
theorem c14s_len_rnsp {γ} (cs : List (Codec γ)) (hc : ∀ c ∈ cs, c.Lawful) (xs : List γ) (hv : (rnspC cs).valid xs) :
    ((rnspC cs).enc xs).length = ((cs.zip xs).map (fun p => p.1.size p.2)).sum := by
  rw [(rnspC_lawful cs hc).len xs hv, c14s_rnspC_size]

/-- `PolynomialSerializer` -/
theorem c14s_len_polySer (ctx : Ctx) (w : List Nat × Poly) (hv : (polySerC ctx).valid w) :
    ((polySerC ctx).enc w).length
      = 32 + (if w.1 == pidZero then ctx.firstN * u64Limit ctx.plainMod
              else ((ctx.find w.1).getD noLevel).n * (((ctx.find w.1).getD noLevel).moduli.map u64Limit).sum) := by
  rw [(polySerC_lawful ctx).len w hv, c14s_polySerC_size ctx w hv]; rfl

/-- monotonicity facts (see also `c14s_terms_le_compact`, `c14s_terms_mono`, `c14s_seeded_saving`,
    `c14s_full_seeded_lt_iff`): compact < full for `u64` moduli; seeded < expanded iff a polynomial exceeds 64 bytes -/
theorem c14s_size_monotonicity (lv : Level) :
    ((∀ q ∈ lv.moduli, q < 2 ^ 64) → ∀ size,
        ctSerializedSize lv size false < ctSerializedFullSize lv (lv.moduli.length * lv.n * size)) ∧
    (ctSerializedSize lv 2 true < ctSerializedSize lv 2 false ↔ 64 < lv.n * sumLimits lv) ∧
    (∀ size seeded nTerms, nTerms ≤ lv.n →
        c14s_ctTermsSize lv size seeded nTerms ≤ ctSerializedSize lv size seeded) := by
  refine ⟨fun h size => ?_, ?_, fun size seeded nTerms h => ?_⟩
  · rw [c14s_ctSerializedSize_eq]; exact c14s_compact_lt_full lv size h
  · rw [c14s_ctSerializedSize_eq, c14s_ctSerializedSize_eq]; exact c14s_seeded_lt_expanded_iff lv
  · rw [c14s_ctSerializedSize_eq]; exact c14s_terms_le_compact lv size seeded nTerms h

/-! ### S2: selected terms -/

/-- `decodeTerms (encodeTerms ct T ++ rest) = (maskTerms ct T, rest)`; `maskTerms` idempotent; `T ⊇ [0, N)` ⇒ identity -/
theorem c14s_terms_format (ctx : Ctx) (expand : List Nat → Level → Poly)
    (fwd inv : Level → Nat → List Nat → List Nat) (T : List Nat) (c : Ct)
    (hv : (ctTermsC ctx expand fwd inv T).valid c) :
    (∀ rest, (ctTermsC ctx expand fwd inv T).dec ((ctTermsC ctx expand fwd inv T).enc c ++ rest)
        = .ok (c14s_maskTerms ctx expand fwd inv T c, rest)) ∧
    ((c.ntt = true → ∀ p0, c.polys.head? = some p0 →
        c14s_InvFwdOnMasked ((ctx.find c.pid).getD noLevel) fwd inv T p0) →
      c14s_maskTerms ctx expand fwd inv T (c14s_maskTerms ctx expand fwd inv T c)
        = c14s_maskTerms ctx expand fwd inv T c) := by
  refine ⟨fun rest => c14s_terms_mask_identity ctx expand fwd inv T c hv rest, fun h => ?_⟩
  apply c14s_maskTerms_idem ctx expand fwd inv T c _ h
  -- a valid seeded object has its polynomial 0
  have hb := c14s_ctWireC_body_valid ctx _ _ hv
  obtain ⟨_, _, hp, hs⟩ := hb
  cases hse : c.seed with
  | nil => exact Or.inr rfl
  | cons a l =>
    left
    intro hpn
    have h1 : (ctToWire ctx (fun lv ntt p => mapIdx (fun j comp => gather T (if ntt then inv lv j comp else comp)) 0 p) c).2.2.2.2.1
        = true := by
      show c.seeded = true
      simp [Ct.seeded, hse]
    have h2 : (ctToWire ctx (fun lv ntt p => mapIdx (fun j comp => gather T (if ntt then inv lv j comp else comp)) 0 p) c).2.2.2.2.2.1
        = [] := by
      show (match c.polys with | [] => [] | p0 :: ps => _ :: ps) = []
      rw [hpn]
    rw [h1, h2] at hp
    exact absurd hp (by simp [seqC, seqValid])

/-- `T ⊇ [0, N)`: the terms format restores what the compact format restores; on an unseeded API-built
    object that is the object itself -/
theorem c14s_terms_all (ctx : Ctx) (expand : List Nat → Level → Poly)
    (fwd inv : Level → Nat → List Nat → List Nat) (T : List Nat) (c : Ct)
    (hT : ∀ i, i < ((ctx.find c.pid).getD noLevel).n → i ∈ T)
    (hlen : c.ntt = false → ∀ p0, c.polys.head? = some p0 → ∀ comp ∈ p0, comp.length = ((ctx.find c.pid).getD noLevel).n)
    (hntt : c.ntt = true → ∀ p0, c.polys.head? = some p0 → ∀ j comp, p0[j]? = some comp →
      (inv ((ctx.find c.pid).getD noLevel) j comp).length = ((ctx.find c.pid).getD noLevel).n ∧
      fwd ((ctx.find c.pid).getD noLevel) j (inv ((ctx.find c.pid).getD noLevel) j comp) = comp) :
    c14s_maskTerms ctx expand fwd inv T c = ctOfWire ctx expand (fun _ _ p => p) (ctToWire ctx (fun _ _ p => p) c) ∧
    (CtDefaults ctx c → c.seed = [] → c14s_maskTerms ctx expand fwd inv T c = c) :=
  ⟨c14s_maskTerms_all ctx expand fwd inv T c hT hlen hntt,
   fun hd hs => c14s_maskTerms_all_id ctx expand fwd inv T c hT hlen hntt hd hs⟩

/-- the two statements Props/C14 left open, verbatim -/
theorem c14s_TermsMaskStatement_proof :
    ∀ (n : Nat) (terms v : List Nat), v.length = n → (∀ t ∈ terms, t < n) →
      scatter n terms (gather terms v) = (List.range n).map (fun i => if i ∈ terms then v.getD i 0 else 0) :=
  fun n terms v _ _ => c14s_scatter_gather n terms v

theorem c14s_SizeClosedFormStatement_proof :
    ∀ (ctx : Ctx) (expand : List Nat → Level → Poly) (c : Ct), (ctC ctx expand).valid c →
      (ctC ctx expand).size c = ctSerializedSize ((ctx.find c.pid).getD noLevel) c.size c.seeded :=
  fun ctx expand c hv => by rw [c14s_ctC_size ctx expand c hv, c14s_ctSerializedSize_eq]

/-! ### S3: the byte-width rule -/

/-- for every admissible modulus `2 ≤ q < 2^61`: `get_u64_limit q` is the least `w` with `q < 256^w`, lies in
    `[1, 8]`, every residue round-trips with it, and — unless `q` is a power of 256 — a width is lossless for
    the largest residue `q − 1` iff it is at least `get_u64_limit q` -/
theorem c14s_width_rule (q : Nat) (h2 : 2 ≤ q) (h61 : q < 2 ^ 61) :
    (∀ w, u64Limit q ≤ w ↔ q < 256 ^ w) ∧
    (1 ≤ u64Limit q ∧ u64Limit q ≤ 8) ∧
    (∀ v, v < q → ∀ rest, (limC (u64Limit q)).dec ((limC (u64Limit q)).enc v ++ rest) = .ok (v, rest)) ∧
    ((∀ m, q ≠ 256 ^ m) → ∀ w rest,
      ((limC w).dec ((limC w).enc (q - 1) ++ rest) = .ok (q - 1, rest) ↔ u64Limit q ≤ w)) :=
  ⟨c14s_u64Limit_le_iff q, c14s_u64Limit_range q h2 h61,
   fun v hv rest => (c14s_limC_lossless_iff _ v rest).mpr (u64Limit_width q v hv),
   fun hp w rest => c14s_width_exact q w (by omega) hp rest⟩

/-! ### S4: framing as a monoid law -/

theorem c14s_framing_monoid {α} (c : Codec α) :
    c14s_encodeMany c [] = [] ∧
    (∀ xs ys, c14s_encodeMany c (xs ++ ys) = c14s_encodeMany c xs ++ c14s_encodeMany c ys) ∧
    (∀ n xs, xs.length = n → (repC n c).enc xs = c14s_encodeMany c xs) ∧
    (∀ l, (vecC c).enc l = leBytes 8 l.length ++ c14s_encodeMany c l) ∧
    (c.Lawful → ∀ xs, (∀ x ∈ xs, c.valid x) → ∀ rest,
      c14s_decodeMany c xs.length (c14s_encodeMany c xs ++ rest) = .ok (xs.map c.norm, rest)) ∧
    (c.Lawful → c.Exact → ∀ xs, (∀ x ∈ xs, c.valid x) → ∀ rest,
      c14s_decodeMany c xs.length (c14s_encodeMany c xs ++ rest) = .ok (xs, rest)) :=
  ⟨rfl, c14s_encodeMany_append c, c14s_repC_enc c, c14s_vecC_enc c,
   fun hc xs hv rest => c14s_decodeMany_encodeMany c hc xs hv rest,
   fun hc he xs hv rest => c14s_decodeMany_encodeMany_exact c hc he xs hv rest⟩

/-! ## refusals (error branches of the readers / writers, stated separately) -/

/-- the writer's `assert_eq!(value, 0)`: a value that does not fit the width is outside the writer's domain -/
theorem c14s_limC_refuses (w v : Nat) (h : 256 ^ w ≤ v) : ¬ (limC w).valid v :=
  fun hv => absurd hv.2 (by omega)

/-- any strict prefix of any valid encoding is refused with `UnexpectedEof` (every lawful format) -/
theorem c14s_truncated_eof {α} (c : Codec α) (hc : c.Lawful) (x : α) (hx : c.valid x) (k : Nat)
    (hk : k < (c.enc x).length) : ∃ s, c.dec ((c.enc x).take k) = .error (.eof s) := hc.pre x hx k hk

theorem c14s_guard_pid_dec_bad (g : List Nat → Bool) (pid : List Nat) (hv : pidC.valid pid) (hg : g pid = false)
    (rest : Bytes) : (guardC pidC g).dec (pidC.enc pid ++ rest) = .error .bad := by
  have h1 := pidC_lawful.rt pid hv rest
  have h2 := pidC_exact pid hv
  simp only [guardC, h1, h2, hg]
  rfl

/-- a parms id unknown to the context is refused by every ciphertext reader (compact, terms, full)
    right after the 32 id bytes, whatever follows -/
theorem c14s_unknown_pid_refused (ctx : Ctx) (pid : List Nat) (hv : pidC.valid pid) (hn : ctx.find pid = none)
    (rest : Bytes) :
    (∀ expand, (ctC ctx expand).dec (pidC.enc pid ++ rest) = .error .bad) ∧
    (∀ expand fwd inv T, (ctTermsC ctx expand fwd inv T).dec (pidC.enc pid ++ rest) = .error .bad) ∧
    (∀ expand, (ctFullC ctx expand).dec (pidC.enc pid ++ rest) = .error .bad) := by
  have hg := c14s_guard_pid_dec_bad (fun pid => (ctx.find pid).isSome) pid hv (by simp [hn]) rest
  refine ⟨fun expand => ?_, fun expand fwd inv T => ?_, fun expand => ?_⟩
  · simp only [ctC, mapC, ctWireC, depC, hg]
  · simp only [ctTermsC, mapC, ctWireC, depC, hg]
  · simp only [ctFullC, mapC, guardC, ctFullWireC, depC] at hg ⊢
    simp only [hg]

/-- a scheme byte above 3 is refused (`SchemeType::from` panics) -/
theorem c14s_scheme_refused (v : Nat) (h1 : 3 < v) (h2 : v < 256) (rest : Bytes) :
    schemeC.dec (u8C.enc v ++ rest) = .error .bad := by
  have hv : u8C.valid v := c14s_u8_valid_of_lt v h2
  have h := u8C_lawful.rt v hv rest
  have hn : u8C.norm v = v := rfl
  have hd : decide (v ≤ 3) = false := by simp; omega
  simp only [schemeC, guardC, h, hn, hd]
  rfl

/-- S1 for a key set of expanded public keys at one level: every present key costs the compact size of a
    size-2 ciphertext -/
theorem c14s_kswitch_ct_size (ctx : Ctx) (expand : List Nat → Level → Poly) (k : KSwitch Ct) (lv : Level)
    (hv : (kswitchC (ctC ctx expand)).valid k)
    (hk : ∀ r ∈ k.keys, ∀ x ∈ r, (ctC ctx expand).valid x ∧ (ctx.find x.pid).getD noLevel = lv ∧ x.size = 2 ∧ x.seeded = false) :
    ((kswitchC (ctC ctx expand)).enc k).length
      = 32 + 8 + 8 * k.keys.length + c14s_ctSize lv 2 false * (k.keys.map List.length).sum := by
  apply c14s_len_kswitch _ (ctC_lawful ctx expand) k _ hv
  intro r hr x hx
  obtain ⟨h1, h2, h3, h4⟩ := hk r hr x hx
  rw [c14s_ctC_size ctx expand x h1, h2, h3, h4]

/-! ### S2 with the model's NTT -/

/-- for the transforms the driver uses (C09 `ntt` / `intt` on tables belonging to the level) and an NTT- or
    coefficient-form ciphertext whose polynomial 0 has reduced components of length `N`: masking is idempotent,
    and selecting all terms restores what the compact format restores -/
theorem c14s_terms_format_ntt (ctx : Ctx) (expand : List Nat → Level → Poly) (tab : Level → Nat → HC.NTTTables)
    (T : List Nat) (c : Ct)
    (ht : c14s_TablesFor tab ((ctx.find c.pid).getD noLevel))
    (hne : c.polys ≠ [] ∨ c.seed = [])
    (hp0 : ∀ p0, c.polys.head? = some p0 → p0.length ≤ ((ctx.find c.pid).getD noLevel).moduli.length ∧
      ∀ j comp, p0[j]? = some comp → comp.length = ((ctx.find c.pid).getD noLevel).n ∧
        ∀ i, comp.getD i 0 < ((ctx.find c.pid).getD noLevel).moduli.getD j 0) :
    c14s_maskTerms ctx expand (c14s_nttFwd tab) (c14s_nttInv tab) T
        (c14s_maskTerms ctx expand (c14s_nttFwd tab) (c14s_nttInv tab) T c)
      = c14s_maskTerms ctx expand (c14s_nttFwd tab) (c14s_nttInv tab) T c ∧
    ((∀ i, i < ((ctx.find c.pid).getD noLevel).n → i ∈ T) →
      c14s_maskTerms ctx expand (c14s_nttFwd tab) (c14s_nttInv tab) T c
        = ctOfWire ctx expand (fun _ _ p => p) (ctToWire ctx (fun _ _ p => p) c)) := by
  refine ⟨?_, fun hT => ?_⟩
  · apply c14s_maskTerms_idem ctx expand _ _ T c hne
    intro _ p0 hp
    obtain ⟨hl, hc⟩ := hp0 p0 hp
    exact c14s_ntt_invFwdOnMasked tab _ ht T p0 hl
      (fun j comp hj => ⟨(hc j comp hj).1, fun i => by have := (hc j comp hj).2 i; omega⟩)
  · apply c14s_maskTerms_all ctx expand _ _ T c hT
    · intro _ p0 hp comp hcomp
      obtain ⟨_, hc⟩ := hp0 p0 hp
      obtain ⟨j, hj⟩ := List.getElem?_of_mem hcomp
      exact (hc j comp hj).1
    · intro _ p0 hp
      obtain ⟨hl, hc⟩ := hp0 p0 hp
      exact c14s_ntt_fwd_inv tab _ ht p0 hl hc

theorem c14s_getD_lt_of_all (l : List Nat) (q : Nat) (hq : 0 < q) (h : ∀ v ∈ l, v < q) : ∀ i, l.getD i 0 < q := by
  intro i
  rw [List.getD_eq_getElem?_getD]
  rcases Nat.lt_or_ge i l.length with h1 | h1
  · rw [List.getElem?_eq_getElem h1]; exact h _ (List.getElem_mem h1)
  · rw [List.getElem?_eq_none h1]; exact hq

def c14s_exCtxNtt : Ctx := ⟨[c14s_exLevelNtt], 17, 4⟩

/-- NTT-form, seeded, reduced residues mod 97 -/
def c14s_exCtNtt : Ct :=
  ⟨[1, 2, 3, 4], 2, true, oneF64, 1, [[[96, 5, 0, 41]]], [1, 2, 3, 4, 5, 6, 7, 8]⟩

theorem c14s_exCtNtt_hp0 : ∀ p0, c14s_exCtNtt.polys.head? = some p0 →
    p0.length ≤ ((c14s_exCtxNtt.find c14s_exCtNtt.pid).getD noLevel).moduli.length ∧
    ∀ j comp, p0[j]? = some comp → comp.length = ((c14s_exCtxNtt.find c14s_exCtNtt.pid).getD noLevel).n ∧
      ∀ i, comp.getD i 0 < ((c14s_exCtxNtt.find c14s_exCtNtt.pid).getD noLevel).moduli.getD j 0 := by
  intro p0 hp
  have : p0 = [[96, 5, 0, 41]] := by
    have h : some [[96, 5, 0, 41]] = some p0 := hp
    injection h with h; exact h.symm
  subst this
  refine ⟨by decide, ?_⟩
  intro j comp hj
  have hj1 : j < 1 := c14s_getElem?_lt _ j comp hj
  have : j = 0 := by omega
  subst this
  have : comp = [96, 5, 0, 41] := by
    have h : some [96, 5, 0, 41] = some comp := hj
    injection h with h; exact h.symm
  subst this
  exact ⟨rfl, c14s_getD_lt_of_all _ 97 (by decide) (by decide)⟩

/-- the hypotheses of `c14s_terms_format_ntt` hold on a concrete NTT-form seeded ciphertext with tables built by `NTTTables.new` -/
theorem c14s_ex_ntt_instance (expand : List Nat → Level → Poly) (T : List Nat) :
    c14s_maskTerms c14s_exCtxNtt expand (c14s_nttFwd c14s_exTab) (c14s_nttInv c14s_exTab) T
        (c14s_maskTerms c14s_exCtxNtt expand (c14s_nttFwd c14s_exTab) (c14s_nttInv c14s_exTab) T c14s_exCtNtt)
      = c14s_maskTerms c14s_exCtxNtt expand (c14s_nttFwd c14s_exTab) (c14s_nttInv c14s_exTab) T c14s_exCtNtt :=
  (c14s_terms_format_ntt c14s_exCtxNtt expand c14s_exTab T c14s_exCtNtt c14s_exTab_for
    (Or.inl (by decide)) c14s_exCtNtt_hp0).1

end HC.Codec
