import Heathcliff.Proofs.GenRns10
import Heathcliff.Proofs.C10I

/-!
  Phase 4k, END TO END for `RNSTool::fastbconv_sk`: composition of `gr_fastbconv_sk_eq` with the C10 theorems `fastbconvSk_spec` and
  `fastbconvSk_scalar_bound` (Shenoy–Kumaresan: the conversion is EXACT in the window `2|V| + 2kB ≤ B·m_sk`).  Helper names start with `gr_`.
-/
namespace HC
open HC.GenW HC.GenR

/-- two converters with the same input base make the same conversion error `α` on the same input -/
theorem gr_fcaD_crt2 (c1 c2 : BaseConverter) (hi : c1.ibase.WF) (he : c2.ibase = c1.ibase) (p : RnsPoly) (j : Nat) {x : Nat} (hxl : x < c1.ibase.prod)
    (hxr : ∀ i, i < c1.ibase.size → x % (c1.ibase.q i).value = (p.getD i #[]).getD j 0 % (c1.ibase.q i).value) :
    ∃ alpha, alpha < c1.ibase.size ∧ (∀ o, gr_fcaD c1 p o j = (x + alpha * c1.ibase.prod) % (c1.obase.q o).value) ∧
      (∀ o, gr_fcaD c2 p o j = (x + alpha * c1.ibase.prod) % (c2.obase.q o).value) := by
  obtain ⟨alpha, ha, hS⟩ := RNSH.crt_sum hi (xs := ((List.range c1.ibase.size).map (fun i => (p.getD i #[]).getD j 0)).toArray) hxl
    (fun i hi' => by rw [getD_rangeMap _ _ hi']; exact hxr i hi')
  refine ⟨alpha, ha, fun o => ?_, fun o => ?_⟩
  · unfold gr_fcaD gr_fcaT
    rw [← hS]
    congr 2
    apply List.map_congr_left
    intro i hi'
    rw [getD_rangeMap _ _ (List.mem_range.mp hi')]
  · unfold gr_fcaD gr_fcaT
    rw [he, ← hS]
    congr 2
    apply List.map_congr_left
    intro i hi'
    rw [getD_rangeMap _ _ (List.mem_range.mp hi')]

theorem gr_skComp_length {b msk : Modulus} {pqv half n : Nat} {alpha ci y : List Nat} (hy : gr_skComp b msk pqv half n alpha ci = .ok y) : y.length = n := by
  unfold gr_skComp at hy
  cases h1 : MulOperand.new pqv b with
  | error e => rw [h1] at hy; cases hy
  | ok pb =>
    rw [h1, gr_ok_bind] at hy
    cases h2 : ckSub b.value pqv with
    | error e => rw [h2] at hy; cases hy
    | ok v =>
      rw [h2, gr_ok_bind] at hy
      cases h3 : MulOperand.new v b with
      | error e => rw [h3] at hy; cases hy
      | ok npb =>
        rw [h3, gr_ok_bind] at hy
        rw [gr_mapM_length _ _ _ hy, List.length_range']

theorem gr_sk_shape {r : RNSTool} {p destA tempA out : RnsPoly}
    (hdest : r.bToQ.fastConvertArray (p.extract 0 r.baseB.size) r.n = .ok destA)
    (htemp : r.bToMsk.fastConvertArray (p.extract 0 r.baseB.size) r.n = .ok tempA)
    (hn : (tempA.getD 0 #[]).size = r.n) (h : r.fastbconvSk p = .ok out) :
    out.size = r.baseQ.size ∧ ∀ i, i < r.baseQ.size → (out.getD i #[]).size = r.n := by
  rw [gr_sk_model r p destA tempA hdest htemp hn] at h
  cases hm : (List.range' 0 r.n).mapM (fun j => gr_skAlpha r.mSk r.invProdBModMsk ((tempA.getD 0 #[]).toList.getD j 0)
          ((p.getD r.baseB.size #[]).toList.getD j 0)) with
  | error e => rw [hm] at h; cases h
  | ok alpha =>
    rw [hm, gr_ok_bind] at h
    exact gr_bind_ok_shape (fun i y hy => gr_skComp_length hy) h

/-- **END TO END (Shenoy–Kumaresan conversion Bsk → q)**: the function generated from the Rust source of `RNSTool::fastbconv_sk`, run on the flat buffer
    of a polynomial whose coefficient `j` holds the residues of an integer `V j` modulo every prime of `B` and modulo `m_sk`, writes at position
    `i·n + j` of ANY destination buffer `V j mod q_i` EXACTLY, provided `2|V j| + 2·|B|·prod(B) ≤ prod(B)·m_sk`
    (composition of `gr_fastbconv_sk_eq` with `fastbconvSk_spec`, `fastbconvSk_scalar_bound`; both conversions make the same error α) -/
theorem gr_fastbconv_sk_exact (r : RNSTool) (p d : RnsPoly) (V : Nat → Int) {bMsk : RNSBase}
    (hB : r.baseB.WF) (hQ : r.baseQ.WF) (hMs : bMsk.WF) (hMs1 : bMsk.size = 1) (hMs0 : bMsk.q 0 = r.mSk)
    (hcq : BaseConverter.new r.baseB r.baseQ = .ok r.bToQ) (hcm : BaseConverter.new r.baseB bMsk = .ok r.bToMsk)
    (hp1 : p.size = r.baseB.size + 1) (hp2 : ∀ i, i < r.baseB.size + 1 → (p.getD i #[]).size = r.n)
    (hd1 : d.size = r.baseQ.size) (hd2 : ∀ i, i < r.baseQ.size → (d.getD i #[]).size = r.n)
    (hpq : r.prodBModQ.size = r.baseQ.size)
    (hsn : r.baseQ.size * r.n < 2^64) (hbn : (r.baseB.size + 1) * r.n < 2^64)
    (hmsk : r.mSk.WF) (hinvB : WFOp r.mSk r.invProdBModMsk) (hinv : (r.invProdBModMsk.operand * r.baseB.prod) % r.mSk.value = 1)
    (hpb : ∀ i, i < r.baseQ.size → 0 < r.prodBModQ.getD i 0 ∧ r.prodBModQ.getD i 0 < (r.baseQ.q i).value ∧
      ((r.prodBModQ.getD i 0 : Nat) : Int) ≡ r.baseB.prod [ZMOD (r.baseQ.q i).value])
    (hcan : ∀ i j, i < r.baseB.size → j < r.n → (p.getD i #[]).getD j 0 < 2^64 ∧
      (((p.getD i #[]).getD j 0 : Nat) : Int) ≡ V j [ZMOD (r.baseB.q i).value])
    (hsk : ∀ j, j < r.n → (p.getD r.baseB.size #[]).getD j 0 ≤ r.mSk.value ∧
      (((p.getD r.baseB.size #[]).getD j 0 : Nat) : Int) ≡ V j [ZMOD r.mSk.value])
    (hV : ∀ j, j < r.n → 2 * |V j| + 2 * (r.baseB.size : Int) * r.baseB.prod ≤ r.baseB.prod * r.mSk.value) :
    ∃ out, GenR.fastbconv_sk (flatP p) (flatP d) r.baseQ.size r.baseB.size r.n r.mSk r.invProdBModMsk r.baseQ.base.toList r.prodBModQ.toList
        (gr_convF r.bToQ) (gr_convF r.bToMsk) = .ok out ∧
      ∀ i j, i < r.baseQ.size → j < r.n → ((out.getD (i * r.n + j) 0 : Nat) : Int) = V j % (r.baseQ.q i).value := by
  have hc1 := gr_convOK_new hB hQ hcq
  have hc2 := gr_convOK_new hB hMs hcm
  rw [hMs1] at hc2
  obtain ⟨ei1, eo1, hM1⟩ := gr_matOK_new hB hQ hcq
  obtain ⟨ei2, eo2, hM2⟩ := gr_matOK_new hB hMs hcm
  have hm2 := hmsk.two_le
  have hm61 := hmsk.lt
  have hBpos := hB.prod_pos
  have hexg : ∀ i, i < r.baseB.size → (p.extract 0 r.baseB.size).getD i #[] = p.getD i #[] := fun i hi' => gr_extract_getD p _ i (by omega) hi'
  have hex1 : (p.extract 0 r.baseB.size).size = r.bToQ.ibase.size := by rw [ei1]; simp; omega
  have hex2 : (p.extract 0 r.baseB.size).size = r.bToMsk.ibase.size := by rw [ei2]; simp; omega
  have hexw1 : ∀ i j, i < r.bToQ.ibase.size → j < r.n → ((p.extract 0 r.baseB.size).getD i #[]).getD j 0 < 2^64 := by
    intro i j hi' hj; rw [ei1] at hi'; rw [hexg i hi']; exact (hcan i j hi' hj).1
  have hexw2 : ∀ i j, i < r.bToMsk.ibase.size → j < r.n → ((p.extract 0 r.baseB.size).getD i #[]).getD j 0 < 2^64 := by
    intro i j hi' hj; rw [ei2] at hi'; rw [hexg i hi']; exact (hcan i j hi' hj).1
  have hmodel1 := gr_fca_model r.bToQ (ei1 ▸ hB) (eo1 ▸ hQ) hM1 (p.extract 0 r.baseB.size) r.n hex1 hexw1
  have hmodel2 := gr_fca_model r.bToMsk (ei2 ▸ hB) (eo2 ▸ hMs) hM2 (p.extract 0 r.baseB.size) r.n hex2 hexw2
  have hdv : ∀ i j, i < r.baseQ.size → j < r.n →
      ((((List.range r.bToQ.obase.size).map (fun o => ((List.range r.n).map (fun j => gr_fcaD r.bToQ (p.extract 0 r.baseB.size) o j)).toArray)).toArray : RnsPoly).getD i #[]).getD j 0
        = gr_fcaD r.bToQ (p.extract 0 r.baseB.size) i j := by
    intro i j hi' hj
    rw [getD_rangeMap' _ _ _ (by rw [eo1]; exact hi'), getD_rangeMap _ _ hj]
  have htvv : ∀ j, j < r.n →
      ((((List.range r.bToMsk.obase.size).map (fun o => ((List.range r.n).map (fun j => gr_fcaD r.bToMsk (p.extract 0 r.baseB.size) o j)).toArray)).toArray : RnsPoly).getD 0 #[]).getD j 0
        = gr_fcaD r.bToMsk (p.extract 0 r.baseB.size) 0 j := by
    intro j hj
    rw [getD_rangeMap' _ _ _ (by rw [eo2, hMs1]; omega), getD_rangeMap _ _ hj]
  obtain ⟨hT1, hT2⟩ := gr_fca_model_shape r.bToMsk (p.extract 0 r.baseB.size) r.n
  have hT0 := hT2 0 (by rw [eo2, hMs1]; omega)
  generalize hdestA : (((List.range r.bToQ.obase.size).map (fun o => ((List.range r.n).map (fun j => gr_fcaD r.bToQ (p.extract 0 r.baseB.size) o j)).toArray)).toArray : RnsPoly) = destA at hmodel1 hdv
  generalize htempA : (((List.range r.bToMsk.obase.size).map (fun o => ((List.range r.n).map (fun j => gr_fcaD r.bToMsk (p.extract 0 r.baseB.size) o j)).toArray)).toArray : RnsPoly) = tempA at hmodel2 htvv hT0
  -- the CRT value of coefficient j in base B and the common conversion error
  have hcrt : ∀ j, j < r.n → ∃ alpha : Nat, alpha < r.baseB.size ∧
      (∀ i, i < r.baseQ.size → (((destA.getD i #[]).getD j 0 : Nat) : Int) ≡ V j % r.baseB.prod + alpha * r.baseB.prod [ZMOD (r.baseQ.q i).value]) ∧
      (((tempA.getD 0 #[]).getD j 0 : Nat) : Int) ≡ V j % r.baseB.prod + alpha * r.baseB.prod [ZMOD r.mSk.value] ∧
      (tempA.getD 0 #[]).getD j 0 < r.mSk.value ∧ ∀ i, i < r.baseQ.size → (destA.getD i #[]).getD j 0 < (r.baseQ.q i).value := by
    intro j hj
    have hx0 : 0 ≤ V j % (r.baseB.prod : Int) := Int.emod_nonneg _ (by omega)
    have hxl : (V j % (r.baseB.prod : Int)).toNat < r.bToQ.ibase.prod := by
      rw [ei1]
      have := Int.emod_lt_of_pos (V j) (show (0 : Int) < r.baseB.prod by omega)
      omega
    obtain ⟨alpha, ha, h1, h2⟩ := gr_fcaD_crt2 r.bToQ r.bToMsk (ei1 ▸ hB) (by rw [ei1, ei2]) (p.extract 0 r.baseB.size) j hxl (by
      intro i hi'
      rw [ei1] at hi' ⊢
      rw [hexg i hi']
      have hdvd : ((r.baseB.q i).value : Int) ∣ (r.baseB.prod : Int) := by exact_mod_cast hB.q_dvd_prod hi'
      have e1 : (((V j % (r.baseB.prod : Int)).toNat % (r.baseB.q i).value : Nat) : Int) = (((p.getD i #[]).getD j 0 % (r.baseB.q i).value : Nat) : Int) := by
        rw [Int.natCast_mod, Int.natCast_mod, Int.toNat_of_nonneg hx0, Int.emod_emod_of_dvd _ hdvd]
        exact ((hcan i j hi' hj).2).symm
      exact_mod_cast e1)
    rw [ei1] at ha h1 h2
    have hxc : ((V j % (r.baseB.prod : Int)).toNat : Int) = V j % r.baseB.prod := Int.toNat_of_nonneg hx0
    refine ⟨alpha, ha, fun i hi' => ?_, ?_, ?_, fun i hi' => ?_⟩
    · rw [hdv i j hi' hj, h1 i, eo1]
      refine (cast_mod_modEq _ _).trans ?_
      push_cast
      rw [hxc]
    · rw [htvv j hj, h2 0, eo2, hMs0]
      refine (cast_mod_modEq _ _).trans ?_
      push_cast
      rw [hxc]
    · rw [htvv j hj, h2 0, eo2, hMs0]; exact Nat.mod_lt _ (by omega)
    · rw [hdv i j hi' hj, h1 i, eo1]; exact Nat.mod_lt _ (by have := (hQ.mwf i hi').two_le; omega)
  obtain ⟨out, hok, hv⟩ := fastbconvSk_spec hmodel1 hmodel2 hmsk hinvB (fun i hi' => ⟨hQ.mwf i hi', (hpb i hi').1, (hpb i hi').2.1⟩) hT0
    (fun j hj => by obtain ⟨a, _, _, _, h3, _⟩ := hcrt j hj; omega) (fun j hj => (hsk j hj).1)
    (fun i j hi' hj => by obtain ⟨a, _, _, _, _, h4⟩ := hcrt j hj; have := h4 i hi'; have := (hQ.mwf i hi').lt; omega)
  obtain ⟨ho1, ho2⟩ := gr_sk_shape hmodel1 hmodel2 hT0 hok
  obtain ⟨hos, hon⟩ := gr_shape_cs' ho1 ho2
  have hpqw : ∀ x ∈ r.prodBModQ, x < 2^64 := by
    apply mem_lt_of_getD
    intro i hi'
    rw [hpq] at hi'
    have := (hpb i hi').2.1
    have := (hQ.mwf i hi').lt
    omega
  rw [gr_fastbconv_sk_eq r p d hc1 hc2 hp1 hp2 (fun i j hi' hj => (hcan i j hi' hj).1) hd1 hd2 hpq hpqw
    (fun i hi' => by have := (hQ.mwf i hi').lt; omega) hsn hbn, hok]
  refine ⟨flatP out, rfl, fun i j hi' hj => ?_⟩
  have hget : (flatP out).getD (i * r.n + j) 0 = (out.getD i #[]).getD j 0 := by
    unfold flatP
    rw [gr_flat_getD r.n _ i j hon (by omega) hj, gr_cs_getD, ← gr_arr_getD]
  rw [hget, hv i j hi' hj]
  obtain ⟨alpha, ha, h1, h2, _, _⟩ := hcrt j hj
  exact (fastbconvSk_scalar_bound (k := r.baseB.size) (α := (alpha : Int)) (B := r.baseB.prod) (V := V j) (hsk j hj).1
    (Nat.le_of_lt (hpb i hi').2.1) (hpb i hi').2.2 hinv (hsk j hj).2 h2 (h1 i hi') (by omega) (by exact_mod_cast ha) (hV j hj)).2

end HC
