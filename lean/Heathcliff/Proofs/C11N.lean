/- C11: batch encoding — the index map is a permutation, decode ∘ encode = id, slots are evaluations at psi^(±3^i),
   hence sums / products of encodings decode slot-wise and the Galois action rotates the slot matrix. -/
import Heathcliff.Model.Galois
import Heathcliff.Proofs.C09G
import Mathlib.Data.ZMod.Basic
import Mathlib.Tactic.Ring
import Mathlib.Tactic.Linarith
namespace HC
open Finset

/-- the exponent of slot i: 3^i for the first row, −3^(i − N/2) for the second (mod 2N) -/
def slotExp (k i : Nat) : Nat :=
  let n := 2^k; let m := 2 * n; let row := n / 2
  if i < row then 3 ^ i % m else (m - 3 ^ (i - row) % m) % m

theorem c11n_three_pow_mod8 (a : Nat) : 3^a % 8 = 1 ∨ 3^a % 8 = 3 := by
  induction a with
  | zero => left; rfl
  | succ a ih => rw [pow_succ, Nat.mul_mod]; rcases ih with h | h <;> rw [h] <;> simp

theorem c11n_three_pow_odd (a : Nat) : 3^a % 2 = 1 := by
  have := c11n_three_pow_mod8 a; omega

theorem c11n_lift (j : Nat) : ∃ c, 3^(2^(j+1)) = 1 + 2^(j+3) * (2*c+1) := by
  induction j with
  | zero => exact ⟨0, by norm_num⟩
  | succ j ih =>
    obtain ⟨c, hc⟩ := ih
    refine ⟨c + 2^(j+1) * (2*c+1)^2, ?_⟩
    rw [show 2^(j+1+1) = 2^(j+1) * 2 by ring, pow_mul, hc]
    ring

/-- 3^(N/2) ≡ 1 (mod 2N) for N ≥ 4 -/
theorem c11n_three_pow_row (j : Nat) : 3^(2^(j+2)/2) % (2 * 2^(j+2)) = 1 := by
  obtain ⟨c, hc⟩ := c11n_lift j
  have e1 : 2^(j+2)/2 = 2^(j+1) := by rw [pow_succ]; omega
  have e2 : 2 * 2^(j+2) = 2^(j+3) := by ring
  rw [e1, e2, hc, Nat.add_mul_mod_self_left]
  exact Nat.mod_eq_of_lt (Nat.one_lt_two_pow (by omega))

theorem c11n_three_pow_row_z {k : Nat} (hk : 2 ≤ k) : (3 : ZMod (2 * 2^k))^(2^k/2) = 1 := by
  obtain ⟨j, rfl⟩ : ∃ j, k = j + 2 := ⟨k - 2, by omega⟩
  have h := c11n_three_pow_row j
  have : ((3^(2^(j+2)/2) : Nat) : ZMod (2 * 2^(j+2))) = ((1 : Nat) : ZMod (2 * 2^(j+2))) := by
    rw [ZMod.natCast_eq_natCast_iff', h, Nat.mod_eq_of_lt]
    have := Nat.one_lt_two_pow (n := j+2) (by omega); omega
  simpa using this

/-- 3^(N/4) ≢ 1 (mod 2N) for N ≥ 4 -/
theorem c11n_three_pow_half_z (j : Nat) : ¬ (3 : ZMod (2 * 2^(j+2)))^(2^j) = 1 := by
  intro h
  have h2 : ((3^(2^j) : Nat) : ZMod (2 * 2^(j+2))) = ((1 : Nat) : ZMod (2 * 2^(j+2))) := by
    simpa using h
  rw [ZMod.natCast_eq_natCast_iff'] at h2
  have h1 : 1 % (2 * 2^(j+2)) = 1 := by
    apply Nat.mod_eq_of_lt
    have := Nat.one_lt_two_pow (n := j+2) (by omega); omega
  rw [h1] at h2
  cases j with
  | zero => norm_num at h2
  | succ j =>
    obtain ⟨c, hc⟩ := c11n_lift j
    rw [hc] at h2
    have e2 : 2 * 2^(j+1+2) = 2^(j+3) * 2 := by ring
    rw [e2] at h2
    have e3 : (1 + 2^(j+3) * (2*c+1)) = (1 + 2^(j+3)) + 2^(j+3) * 2 * c := by ring
    rw [e3, Nat.add_mul_mod_self_left] at h2
    have hp : 1 < 2^(j+3) := Nat.one_lt_two_pow (by omega)
    rw [Nat.mod_eq_of_lt (by omega)] at h2
    omega

theorem c11n_orderOf {k : Nat} (hk : 2 ≤ k) : orderOf (3 : ZMod (2 * 2^k)) = 2^k/2 := by
  obtain ⟨j, rfl⟩ : ∃ j, k = j + 2 := ⟨k - 2, by omega⟩
  have e1 : 2^(j+2)/2 = 2^(j+1) := by rw [pow_succ]; omega
  rw [e1]
  apply orderOf_eq_prime_pow (c11n_three_pow_half_z j)
  rw [← e1]; exact c11n_three_pow_row_z (by omega)

theorem c11n_pow_inj {k a b : Nat} (hk : 1 ≤ k) (ha : a < 2^k/2) (hb : b < 2^k/2)
    (h : 3^a % (2*2^k) = 3^b % (2*2^k)) : a = b := by
  rcases Nat.lt_or_ge k 2 with h2 | h2
  · have : k = 1 := by omega
    subst this; norm_num at ha hb; omega
  · have hz : (3 : ZMod (2 * 2^k))^a = 3^b := by
      have := (ZMod.natCast_eq_natCast_iff' (3^a) (3^b) (2*2^k)).mpr h
      simpa using this
    have ho := c11n_orderOf h2
    exact pow_injOn_Iio_orderOf (x := (3 : ZMod (2 * 2^k))) (by rw [ho]; exact ha) (by rw [ho]; exact hb) hz

/-! ### slot exponents -/
theorem c11n_pm_facts (k a : Nat) :
    3^a % (2*2^k) % 2 = 1 ∧ 0 < 3^a % (2*2^k) ∧ 3^a % (2*2^k) < 2*2^k := by
  have h1 : 3^a % (2*2^k) % 2 = 1 := by
    rw [Nat.mod_mod_of_dvd _ (Dvd.intro _ rfl)]; exact c11n_three_pow_odd a
  have hp := Nat.two_pow_pos k
  refine ⟨h1, by omega, Nat.mod_lt _ (by omega)⟩

theorem c11n_slotExp_lo {k i : Nat} (hi : i < 2^k/2) : slotExp k i = 3^i % (2*2^k) := by
  unfold slotExp; simp only []; rw [if_pos hi]

theorem c11n_slotExp_hi {k i : Nat} (hi : ¬ i < 2^k/2) :
    slotExp k i = 2*2^k - 3^(i - 2^k/2) % (2*2^k) := by
  unfold slotExp; simp only []; rw [if_neg hi]
  obtain ⟨_, h2, h3⟩ := c11n_pm_facts k (i - 2^k/2)
  exact Nat.mod_eq_of_lt (by omega)

theorem c11n_slotExp_facts (k i : Nat) : slotExp k i % 2 = 1 ∧ slotExp k i < 2 * 2^k := by
  by_cases hi : i < 2^k/2
  · rw [c11n_slotExp_lo hi]
    obtain ⟨h1, _, h3⟩ := c11n_pm_facts k i
    exact ⟨h1, h3⟩
  · rw [c11n_slotExp_hi hi]
    obtain ⟨h1, h2, h3⟩ := c11n_pm_facts k (i - 2^k/2)
    omega

theorem c11n_slotExp_cast_lo {k i : Nat} (hi : i < 2^k/2) : ((slotExp k i : Nat) : ZMod (2*2^k)) = 3^i := by
  rw [c11n_slotExp_lo hi, ZMod.natCast_mod]; simp

theorem c11n_slotExp_cast_hi {k i : Nat} (hi : ¬ i < 2^k/2) :
    ((slotExp k i : Nat) : ZMod (2*2^k)) = - 3^(i - 2^k/2) := by
  rw [c11n_slotExp_hi hi]
  obtain ⟨_, h2, h3⟩ := c11n_pm_facts k (i - 2^k/2)
  rw [Nat.cast_sub (le_of_lt h3), ZMod.natCast_self, ZMod.natCast_mod]; simp

theorem c11n_cast_pred (k : Nat) : ((2 * 2^k - 1 : Nat) : ZMod (2*2^k)) = -1 := by
  have hp := Nat.two_pow_pos k
  rw [Nat.cast_sub (by omega), ZMod.natCast_self]; simp

theorem c11n_mod_of_cast {m a b : Nat} (hb : b < m) (h : ((a : Nat) : ZMod m) = (b : ZMod m)) : a % m = b := by
  have := (ZMod.natCast_eq_natCast_iff' a b m).mp h
  rwa [Nat.mod_eq_of_lt hb] at this

/-- X ↦ X^(2N−1) exchanges the rows: slotExp(i)·(2N−1) ≡ slotExp(swap i) (mod 2N) -/
theorem slotExp_swap {k i : Nat} (hk : 1 ≤ k) (hi : i < 2^k) :
    (slotExp k i * (2 * 2^k - 1)) % (2 * 2^k) = slotExp k ((i + 2^k / 2) % 2^k) := by
  apply c11n_mod_of_cast (c11n_slotExp_facts _ _).2
  rw [Nat.cast_mul, c11n_cast_pred]
  obtain ⟨j, rfl⟩ : ∃ j, k = j + 1 := ⟨k - 1, by omega⟩
  have e1 : 2^(j+1)/2 = 2^j := by rw [pow_succ]; omega
  have e2 : 2^(j+1) = 2^j + 2^j := by rw [pow_succ]; omega
  by_cases h : i < 2^(j+1)/2
  · have e3 : (i + 2^(j+1)/2) % 2^(j+1) = i + 2^(j+1)/2 := Nat.mod_eq_of_lt (by omega)
    rw [e3, c11n_slotExp_cast_lo h, c11n_slotExp_cast_hi (by omega), Nat.add_sub_cancel]; ring
  · have e3 : (i + 2^(j+1)/2) % 2^(j+1) = i - 2^(j+1)/2 := by
      rw [show i + 2^(j+1)/2 = (i - 2^(j+1)/2) + 2^(j+1) by omega, Nat.add_mod_right]
      exact Nat.mod_eq_of_lt (by omega)
    rw [e3, c11n_slotExp_cast_hi h, c11n_slotExp_cast_lo (by omega)]; ring

/-- GALOIS ACTION ON SLOTS (exponent level): substituting X ↦ X^(3^s) moves slot (i + s mod N/2) of the same row to slot i:
    slotExp(i)·3^s ≡ slotExp(rot i) (mod 2N) -/
theorem slotExp_rotate {k i s : Nat} (hk : 2 ≤ k) (hi : i < 2^k) :
    let row := 2^k / 2
    (slotExp k i * 3 ^ s) % (2 * 2^k) = slotExp k ((i / row) * row + (i % row + s) % row) := by
  intro row
  apply c11n_mod_of_cast (c11n_slotExp_facts _ _).2
  have ho := c11n_orderOf hk
  have hrow : 0 < row := by
    have : 2^2 ≤ 2^k := Nat.pow_le_pow_right (by omega) hk
    show 0 < 2^k/2; omega
  have e2 : 2^k = row + row := by
    obtain ⟨j, rfl⟩ : ∃ j, k = j + 1 := ⟨k - 1, by omega⟩
    show 2^(j+1) = 2^(j+1)/2 + 2^(j+1)/2; rw [pow_succ]; omega
  have hml := Nat.mod_lt (i % row + s) hrow
  have hred : ∀ a : Nat, (3 : ZMod (2*2^k))^(a % row) = 3^a := by
    intro a; rw [show row = orderOf (3 : ZMod (2*2^k)) from ho.symm, pow_mod_orderOf]
  rw [Nat.cast_mul, Nat.cast_pow]
  by_cases h : i < row
  · have e3 : i / row = 0 := Nat.div_eq_of_lt h
    rw [e3, Nat.zero_mul, Nat.zero_add, c11n_slotExp_cast_lo h, c11n_slotExp_cast_lo hml, hred,
      Nat.mod_eq_of_lt h, pow_add]; simp
  · have e3 : i / row = 1 := by
      apply Nat.div_eq_of_lt_le <;> omega
    have e4 : i % row = i - row := by
      rw [Nat.mod_eq_sub_mod (by omega)]; exact Nat.mod_eq_of_lt (by omega)
    rw [e3, Nat.one_mul, c11n_slotExp_cast_hi h, c11n_slotExp_cast_hi (by show ¬ _ < row; omega)]
    show _ = -(3 : ZMod (2*2^k))^(row + (i % row + s) % row - row)
    rw [Nat.add_sub_cancel_left, hred, e4, pow_add]; simp only [neg_mul]; rfl

theorem c11n_cross {k a b : Nat} (hk : 1 ≤ k) (ha : a < 2^k/2) (hb : b < 2^k/2) :
    3^a % (2*2^k) ≠ 2*2^k - 3^b % (2*2^k) := by
  intro h
  rcases Nat.lt_or_ge k 2 with h2 | h2
  · have : k = 1 := by omega
    subst this
    norm_num at ha hb; subst ha; subst hb; norm_num at h
  · obtain ⟨j, rfl⟩ : ∃ j, k = j + 2 := ⟨k - 2, by omega⟩
    have e : 2 * 2^(j+2) = 8 * 2^j := by ring
    rw [e] at h
    have hx : 3^a % (8 * 2^j) % 8 = 3^a % 8 := Nat.mod_mod_of_dvd _ (Dvd.intro _ rfl)
    have hy : 3^b % (8 * 2^j) % 8 = 3^b % 8 := Nat.mod_mod_of_dvd _ (Dvd.intro _ rfl)
    have hlt : 3^b % (8 * 2^j) < 8 * 2^j := Nat.mod_lt _ (by have := Nat.two_pow_pos j; omega)
    have h8a := c11n_three_pow_mod8 a
    have h8b := c11n_three_pow_mod8 b
    omega

/-- the slot exponents ±3^i are pairwise distinct modulo 2N (so they are ALL odd residues: 3 has order N/2 and −1 ∉ ⟨3⟩) -/
theorem slotExp_injective {k i j : Nat} (hk : 1 ≤ k) (hi : i < 2^k) (hj : j < 2^k) (h : slotExp k i = slotExp k j) : i = j := by
  have e2 : 2^k = 2^k/2 + 2^k/2 := by
    obtain ⟨j, rfl⟩ : ∃ j, k = j + 1 := ⟨k - 1, by omega⟩
    rw [pow_succ]; omega
  by_cases h1 : i < 2^k/2 <;> by_cases h2 : j < 2^k/2
  · rw [c11n_slotExp_lo h1, c11n_slotExp_lo h2] at h
    exact c11n_pow_inj hk h1 h2 h
  · rw [c11n_slotExp_lo h1, c11n_slotExp_hi h2] at h
    exact absurd h (c11n_cross hk h1 (by omega))
  · rw [c11n_slotExp_hi h1, c11n_slotExp_lo h2] at h
    exact absurd h.symm (c11n_cross hk h2 (by omega))
  · rw [c11n_slotExp_hi h1, c11n_slotExp_hi h2] at h
    obtain ⟨_, _, a3⟩ := c11n_pm_facts k (i - 2^k/2)
    obtain ⟨_, _, b3⟩ := c11n_pm_facts k (j - 2^k/2)
    have := c11n_pow_inj hk (a := i - 2^k/2) (b := j - 2^k/2) (by omega) (by omega) (by omega)
    omega


/-! ### the index map -/
theorem c11n_getD_set_eq (a : Array Nat) {i : Nat} (v : Nat) (h : i < a.size) :
    (a.setIfInBounds i v).getD i 0 = v := by
  simp [Array.getD, h]

theorem c11n_getD_set_ne (a : Array Nat) {i j : Nat} (v : Nat) (h : i ≠ j) :
    (a.setIfInBounds i v).getD j 0 = a.getD j 0 := by
  by_cases hj : j < a.size <;> simp [Array.getD, hj, h]

def c11n_step (k : Nat) (acc : Array Nat × Nat) (i : Nat) : Array Nat × Nat :=
  ((acc.1.setIfInBounds i (brev k ((acc.2 - 1)/2))).setIfInBounds (i + 2^k/2) (brev k ((2*2^k - acc.2 - 1)/2)),
    (acc.2 * galoisGenerator) % (2*2^k))

theorem c11n_map_eq (k : Nat) :
    batchIndexMap k = ((List.range (2^k/2)).foldl (c11n_step k) (Array.replicate (2^k) 0, 1)).1 := rfl

theorem c11n_fold_inv (k : Nat) : ∀ j, j ≤ 2^k/2 →
    ((List.range j).foldl (c11n_step k) (Array.replicate (2^k) 0, 1)).1.size = 2^k ∧
    ((List.range j).foldl (c11n_step k) (Array.replicate (2^k) 0, 1)).2 = 3^j % (2*2^k) ∧
    ∀ i, i < j →
      ((List.range j).foldl (c11n_step k) (Array.replicate (2^k) 0, 1)).1.getD i 0
        = brev k ((3^i % (2*2^k) - 1)/2) ∧
      ((List.range j).foldl (c11n_step k) (Array.replicate (2^k) 0, 1)).1.getD (i + 2^k/2) 0
        = brev k ((2*2^k - 3^i % (2*2^k) - 1)/2) := by
  intro j
  induction j with
  | zero =>
    intro _
    refine ⟨by simp, ?_, fun i hi => absurd hi (Nat.not_lt_zero _)⟩
    have := Nat.two_pow_pos k
    simp only [List.range_zero, List.foldl_nil, pow_zero]
    exact (Nat.mod_eq_of_lt (by omega)).symm
  | succ j ih =>
    intro hj
    obtain ⟨h1, h2, h3⟩ := ih (by omega)
    rw [List.range_succ, List.foldl_append, List.foldl_cons, List.foldl_nil]
    generalize (List.range j).foldl (c11n_step k) (Array.replicate (2^k) 0, 1) = r at h1 h2 h3
    have hle : 2^k/2 + 2^k/2 ≤ 2^k := by omega
    refine ⟨by simp [c11n_step, h1], ?_, ?_⟩
    · show (r.2 * 3) % (2*2^k) = _
      rw [h2, pow_succ, Nat.mod_mul_mod]
    · intro i hi
      rcases Nat.lt_or_ge i j with hlt | hge
      · obtain ⟨g1, g2⟩ := h3 i hlt
        constructor
        · show ((r.1.setIfInBounds j _).setIfInBounds (j + 2^k/2) _).getD i 0 = _
          rw [c11n_getD_set_ne _ _ (by omega), c11n_getD_set_ne _ _ (by omega), g1]
        · show ((r.1.setIfInBounds j _).setIfInBounds (j + 2^k/2) _).getD (i + 2^k/2) 0 = _
          rw [c11n_getD_set_ne _ _ (by omega), c11n_getD_set_ne _ _ (by omega), g2]
      · have : i = j := by omega
        subst this
        constructor
        · show ((r.1.setIfInBounds i _).setIfInBounds (i + 2^k/2) _).getD i 0 = _
          rw [c11n_getD_set_ne _ _ (by omega), c11n_getD_set_eq _ _ (by omega), h2]
        · show ((r.1.setIfInBounds i _).setIfInBounds (i + 2^k/2) _).getD (i + 2^k/2) 0 = _
          rw [c11n_getD_set_eq _ _ (by simp; omega), h2]

/-- INDEX MAP: entry i is brev((slotExp i − 1)/2), i.e. the NTT position holding the evaluation at psi^(slotExp i) -/
theorem batchIndexMap_spec {k i : Nat} (hk : 1 ≤ k) (hi : i < 2^k) :
    (batchIndexMap k).size = 2^k ∧ (batchIndexMap k).getD i 0 = brev k ((slotExp k i - 1) / 2) ∧
    slotExp k i % 2 = 1 ∧ slotExp k i < 2 * 2^k := by
  obtain ⟨f1, _, f3⟩ := c11n_fold_inv k (2^k/2) le_rfl
  rw [← c11n_map_eq] at f1 f3
  obtain ⟨s1, s2⟩ := c11n_slotExp_facts k i
  refine ⟨f1, ?_, s1, s2⟩
  by_cases h : i < 2^k/2
  · rw [(f3 i h).1, c11n_slotExp_lo h]
  · have e2 : 2^k = 2^k/2 + 2^k/2 := by
      obtain ⟨j, rfl⟩ : ∃ j, k = j + 1 := ⟨k - 1, by omega⟩
      rw [pow_succ]; omega
    have := (f3 (i - 2^k/2) (by omega)).2
    rw [Nat.sub_add_cancel (by omega)] at this
    rw [this, c11n_slotExp_hi h]

/-- INDEX MAP IS A PERMUTATION of [0, N) -/
theorem batchIndexMap_perm {k : Nat} (hk : 1 ≤ k) :
    (∀ i, i < 2^k → (batchIndexMap k).getD i 0 < 2^k) ∧
    (∀ i j, i < 2^k → j < 2^k → (batchIndexMap k).getD i 0 = (batchIndexMap k).getD j 0 → i = j) := by
  refine ⟨fun i hi => ?_, fun i j hi hj h => ?_⟩
  · rw [(batchIndexMap_spec hk hi).2.1]; exact brev_lt _ _
  · obtain ⟨_, a1, a2, a3⟩ := batchIndexMap_spec hk hi
    obtain ⟨_, b1, b2, b3⟩ := batchIndexMap_spec hk hj
    rw [a1, b1] at h
    have := brev_inj (by omega) (by omega) h
    exact slotExp_injective hk hi hj (by omega)

variable {t : NTTTables}

/-! ### array helpers -/
theorem c11n_getD_ofFn {n : Nat} (f : Fin n → Nat) {i : Nat} (hi : i < n) :
    (Array.ofFn f).getD i 0 = f ⟨i, hi⟩ := by
  simp [Array.getD, hi]

theorem c11n_pad_id {n : Nat} (p : Array Nat) (hs : p.size = n) :
    Array.ofFn (n := n) (fun i => p.getD i.val 0) = p :=
  array_ext_getD (by simp) hs (fun _ hi => c11n_getD_ofFn _ hi)

theorem c11n_getD_lt {q : Nat} (hq : 0 < q) (p : Array Nat) (hp : ∀ j, j < p.size → p.getD j 0 < q) :
    ∀ j, p.getD j 0 < q := by
  intro j
  by_cases h : j < p.size
  · exact hp j h
  · simpa [Array.getD, h] using hq

theorem c11n_surj {n : Nat} (f : Nat → Nat) (hf : ∀ i, i < n → f i < n)
    (hinj : ∀ i j, i < n → j < n → f i = f j → i = j) : ∀ x, x < n → ∃ i, i < n ∧ f i = x := by
  intro x hx
  let σ : Fin n → Fin n := fun i => ⟨f i.val, hf i.val i.isLt⟩
  have hσ : Function.Injective σ := fun a b h =>
    Fin.ext (hinj _ _ a.isLt b.isLt (congrArg Fin.val h))
  obtain ⟨i, hi⟩ := (Finite.injective_iff_surjective.mp hσ) ⟨x, hx⟩
  exact ⟨i.val, i.isLt, congrArg Fin.val hi⟩

/-- scatter through an injective index function: position f i holds g i -/
theorem c11n_scatter (n : Nat) (f g : Nat → Nat) (hf : ∀ i, i < n → f i < n)
    (hinj : ∀ i j, i < n → j < n → f i = f j → i = j) : ∀ j, j ≤ n →
    ((List.range j).foldl (fun (d : Array Nat) i => d.setIfInBounds (f i) (g i)) (Array.replicate n 0)).size = n ∧
    ∀ i, i < j →
      ((List.range j).foldl (fun (d : Array Nat) i => d.setIfInBounds (f i) (g i)) (Array.replicate n 0)).getD (f i) 0
        = g i := by
  intro j
  induction j with
  | zero => intro _; exact ⟨by simp, fun i hi => absurd hi (Nat.not_lt_zero _)⟩
  | succ j ih =>
    intro hj
    obtain ⟨h1, h2⟩ := ih (by omega)
    rw [List.range_succ, List.foldl_append, List.foldl_cons, List.foldl_nil]
    generalize (List.range j).foldl (fun (d : Array Nat) i => d.setIfInBounds (f i) (g i)) (Array.replicate n 0) = r
      at h1 h2
    refine ⟨by simp [h1], fun i hi => ?_⟩
    rcases Nat.lt_or_ge i j with hlt | hge
    · rw [c11n_getD_set_ne _ _ (fun h => by have := hinj j i (by omega) (by omega) h; omega), h2 i hlt]
    · have : i = j := by omega
      subst this
      exact c11n_getD_set_eq _ _ (by rw [h1]; exact hf i (by omega))

theorem c11n_scatter_lt (n q : Nat) (hq : 0 < q) (f g : Nat → Nat) (hg : ∀ i, i < n → g i < q) : ∀ j, j ≤ n →
    ∀ x, ((List.range j).foldl (fun (d : Array Nat) i => d.setIfInBounds (f i) (g i)) (Array.replicate n 0)).getD x 0 < q := by
  intro j
  induction j with
  | zero =>
    intro _ x
    by_cases hx : x < n <;> simpa [Array.getD, hx] using hq
  | succ j ih =>
    intro hj x
    have h1 := ih (by omega)
    rw [List.range_succ, List.foldl_append, List.foldl_cons, List.foldl_nil]
    generalize (List.range j).foldl (fun (d : Array Nat) i => d.setIfInBounds (f i) (g i)) (Array.replicate n 0) = r
      at h1
    by_cases hx : f j = x
    · subst hx
      by_cases hs : f j < r.size
      · rw [c11n_getD_set_eq _ _ hs]; exact hg j (by omega)
      · have : (r.setIfInBounds (f j) (g j)).getD (f j) 0 = 0 := by simp [Array.getD, hs]
        rw [this]; exact hq
    · rw [c11n_getD_set_ne _ _ hx]; exact h1 x

/-! ### encode / decode unfolded -/
def c11n_scat (k : Nat) (v : Array Nat) : Array Nat :=
  (List.range (2^k)).foldl (fun (d : Array Nat) i => d.setIfInBounds ((batchIndexMap k).getD i 0) (v.getD i 0))
    (Array.replicate (2^k) 0)

theorem c11n_encode_eq (v : Array Nat) (hs : v.size ≤ 2^t.k) :
    batchEncode t v = .ok (intt t (c11n_scat t.k v)) := by
  unfold batchEncode
  simp only []
  rw [if_neg (by omega)]
  rfl

theorem c11n_scat_spec {k : Nat} (hk : 1 ≤ k) (v : Array Nat) :
    (c11n_scat k v).size = 2^k ∧
    ∀ i, i < 2^k → (c11n_scat k v).getD ((batchIndexMap k).getD i 0) 0 = v.getD i 0 := by
  obtain ⟨p1, p2⟩ := batchIndexMap_perm hk
  exact c11n_scatter (2^k) (fun i => (batchIndexMap k).getD i 0) (fun i => v.getD i 0) p1 p2 (2^k) le_rfl

theorem c11n_scat_lt {k q : Nat} (hq : 0 < q) (v : Array Nat) (hv : ∀ j, v.getD j 0 < q) :
    ∀ x, (c11n_scat k v).getD x 0 < q :=
  c11n_scatter_lt (2^k) q hq (fun i => (batchIndexMap k).getD i 0) (fun i => v.getD i 0) (fun i _ => hv i) (2^k) le_rfl

theorem c11n_decode_getD (hk : 1 ≤ t.k) (p : Array Nat) :
    (batchDecode t p).size = 2^t.k ∧ ∀ i, i < 2^t.k →
      (batchDecode t p).getD i 0
        = (ntt t (Array.ofFn (n := 2^t.k) fun i => p.getD i.val 0)).getD ((batchIndexMap t.k).getD i 0) 0 := by
  have hsz : (batchIndexMap t.k).size = 2^t.k :=
    (batchIndexMap_spec (i := 0) hk (Nat.two_pow_pos _)).1
  unfold batchDecode
  simp only []
  refine ⟨by simp [hsz], fun i hi => ?_⟩
  rw [getD_map_lt _ _ (by omega)]

/-- DECODE = evaluation: slot i of `decode p` is p(psi^(slotExp i)) mod t (psi the table's root) -/
theorem batchDecode_eval (hw : t.WF) (hk : 1 ≤ t.k) (p : Array Nat) (hs : p.size ≤ 2^t.k)
    (hp : ∀ j, j < p.size → p.getD j 0 < t.modulus.value) :
    (batchDecode t p).size = 2^t.k ∧ ∀ i, i < 2^t.k →
      (batchDecode t p).getD i 0 =
        (∑ j ∈ range (2^t.k), p.getD j 0 * (t.root ^ slotExp t.k i) ^ j) % t.modulus.value := by
  have hq2 := hw.mwf.two_le
  obtain ⟨d1, d2⟩ := c11n_decode_getD hk p
  refine ⟨d1, fun i hi => ?_⟩
  have hpl := c11n_getD_lt (show 0 < t.modulus.value by omega) p hp
  obtain ⟨_, n2⟩ := ntt_eval hw (Array.ofFn (n := 2^t.k) fun i => p.getD i.val 0) (by simp)
    (fun j hj => by rw [c11n_getD_ofFn _ hj]; show p.getD j 0 < _; have := hpl j; omega)
  obtain ⟨_, m1, m2, m3⟩ := batchIndexMap_spec hk hi
  rw [d2 i hi, n2 _ (by rw [m1]; exact brev_lt _ _), m1]
  unfold evalSpec
  rw [brev_brev (by omega), show 2 * ((slotExp t.k i - 1) / 2) + 1 = slotExp t.k i by omega]
  congr 1
  apply sum_congr rfl
  intro j hj
  rw [c11n_getD_ofFn _ (mem_range.mp hj)]

/-- ROUND TRIP: decoding inverts encoding; shorter inputs are zero-padded -/
theorem batch_decode_encode (hw : t.WF) (hk : 1 ≤ t.k) (v : Array Nat) (hs : v.size ≤ 2^t.k)
    (hv : ∀ j, j < v.size → v.getD j 0 < t.modulus.value) :
    ∃ p, batchEncode t v = .ok p ∧ p.size = 2^t.k ∧ (∀ j, j < 2^t.k → p.getD j 0 < t.modulus.value) ∧
      ∀ i, i < 2^t.k → (batchDecode t p).getD i 0 = v.getD i 0 := by
  have hq2 := hw.mwf.two_le
  have hvl := c11n_getD_lt (show 0 < t.modulus.value by omega) v hv
  obtain ⟨s1, s2⟩ := c11n_scat_spec hk v
  have s3 := c11n_scat_lt (k := t.k) (show 0 < t.modulus.value by omega) v hvl
  obtain ⟨g1, g2⟩ := intt_sim hw (c11n_scat t.k v) s1 (fun j _ => by have := s3 j; omega)
  refine ⟨_, c11n_encode_eq v hs, g1, fun j hj => (g2 j hj).1, fun i hi => ?_⟩
  rw [(c11n_decode_getD hk _).2 i hi, c11n_pad_id _ g1, ntt_intt hw _ s1 (fun j _ => s3 j), s2 i hi]

/-- and encoding inverts decoding on full-length canonical plaintexts (bijection) -/
theorem batch_encode_decode (hw : t.WF) (hk : 1 ≤ t.k) (p : Array Nat) (hs : p.size = 2^t.k)
    (hp : ∀ j, j < 2^t.k → p.getD j 0 < t.modulus.value) :
    batchEncode t (batchDecode t p) = .ok p := by
  obtain ⟨d1, d2⟩ := c11n_decode_getD hk p
  obtain ⟨s1, s2⟩ := c11n_scat_spec hk (batchDecode t p)
  obtain ⟨p1, p2⟩ := batchIndexMap_perm (k := t.k) hk
  obtain ⟨n1, _⟩ := ntt_sim hw p hs (fun j hj => by have := hp j hj; omega)
  rw [c11n_encode_eq _ (by omega)]
  have : c11n_scat t.k (batchDecode t p) = ntt t p := by
    apply array_ext_getD s1 n1
    intro x hx
    obtain ⟨i, hi, rfl⟩ := c11n_surj (fun i => (batchIndexMap t.k).getD i 0) p1 p2 x hx
    show (c11n_scat t.k (batchDecode t p)).getD ((batchIndexMap t.k).getD i 0) 0 = _
    rw [s2 i hi, d2 i hi, c11n_pad_id _ hs]
  rw [this, intt_ntt hw p hs hp]

/-! ### ring isomorphism -/
theorem c11n_eval_cast (q n x : Nat) (a : Array Nat) :
    (((∑ j ∈ range n, a.getD j 0 * x ^ j) % q : Nat) : ZMod q)
      = ∑ j ∈ range n, ((a.getD j 0 : Nat) : ZMod q) * ((x : Nat) : ZMod q) ^ j := by
  rw [ZMod.natCast_mod]; push_cast; rfl

/-- slot i of a canonical full-length plaintext, as an element of ZMod q -/
theorem c11n_decode_cast (hw : t.WF) (hk : 1 ≤ t.k) (a : Array Nat) (hsa : a.size = 2^t.k)
    (ha : ∀ j, j < 2^t.k → a.getD j 0 < t.modulus.value) {i : Nat} (hi : i < 2^t.k) :
    (batchDecode t a).getD i 0 < t.modulus.value ∧
    (((batchDecode t a).getD i 0 : Nat) : ZMod t.modulus.value)
      = ∑ j ∈ range (2^t.k), ((a.getD j 0 : Nat) : ZMod t.modulus.value) *
          (((t.root ^ slotExp t.k i : Nat) : Nat) : ZMod t.modulus.value) ^ j := by
  have hq2 := hw.mwf.two_le
  obtain ⟨_, e2⟩ := batchDecode_eval hw hk a (by omega) (fun j hj => ha j (by omega))
  rw [e2 i hi]
  exact ⟨Nat.mod_lt _ (by omega), c11n_eval_cast _ _ _ _⟩

theorem c11n_slot_root (hw : t.WF) (i : Nat) :
    (((t.root ^ slotExp t.k i : Nat) : Nat) : ZMod t.modulus.value) ^ (2^t.k) = -1 := by
  have hz := hw.zfacts
  rw [Nat.cast_pow, ← pow_mul, mul_comm, pow_mul, hz.psi]
  exact Odd.neg_one_pow (Nat.odd_iff.mpr (c11n_slotExp_facts t.k i).1)

/-- RING ISOMORPHISM (product): the slots of the negacyclic product are the products of the slots -/
theorem batch_mul_slots (hw : t.WF) (hk : 1 ≤ t.k) (a b : Array Nat) (hsa : a.size = 2^t.k) (hsb : b.size = 2^t.k)
    (ha : ∀ j, j < 2^t.k → a.getD j 0 < t.modulus.value) (hb : ∀ j, j < 2^t.k → b.getD j 0 < t.modulus.value) :
    let prod : Array Nat := Array.ofFn (n := 2^t.k) fun c => negMulNat (2^t.k) t.modulus.value a b c.val
    ∀ i, i < 2^t.k → (batchDecode t prod).getD i 0 =
      ((batchDecode t a).getD i 0 * (batchDecode t b).getD i 0) % t.modulus.value := by
  intro prod i hi
  have hq2 := hw.mwf.two_le
  have hq0 : 0 < t.modulus.value := by omega
  have hpg : ∀ c, c < 2^t.k → prod.getD c 0 = negMulNat (2^t.k) t.modulus.value a b c :=
    fun c hc => c11n_getD_ofFn _ hc
  obtain ⟨c1, c2⟩ := c11n_decode_cast hw hk prod (by simp [prod])
    (fun j hj => by rw [hpg j hj]; exact (negMulNat_cast hq0 _ a b j).1) hi
  obtain ⟨_, a2⟩ := c11n_decode_cast hw hk a hsa ha hi
  obtain ⟨_, b2⟩ := c11n_decode_cast hw hk b hsb hb hi
  apply cast_inj_lt c1 (Nat.mod_lt _ hq0)
  rw [c2, ZMod.natCast_mod, Nat.cast_mul, a2, b2,
    ← eval_negMul (2^t.k) (Nat.two_pow_pos _) _ (c11n_slot_root hw i)]
  apply sum_congr rfl
  intro c hc
  rw [hpg c (mem_range.mp hc), (negMulNat_cast hq0 _ a b c).2]

/-- (sum) -/
theorem batch_add_slots (hw : t.WF) (hk : 1 ≤ t.k) (a b : Array Nat) (hsa : a.size = 2^t.k) (hsb : b.size = 2^t.k)
    (ha : ∀ j, j < 2^t.k → a.getD j 0 < t.modulus.value) (hb : ∀ j, j < 2^t.k → b.getD j 0 < t.modulus.value) :
    let sum : Array Nat := Array.ofFn (n := 2^t.k) fun c => (a.getD c.val 0 + b.getD c.val 0) % t.modulus.value
    ∀ i, i < 2^t.k → (batchDecode t sum).getD i 0 =
      ((batchDecode t a).getD i 0 + (batchDecode t b).getD i 0) % t.modulus.value := by
  intro sum i hi
  have hq2 := hw.mwf.two_le
  have hq0 : 0 < t.modulus.value := by omega
  have hpg : ∀ c, c < 2^t.k → sum.getD c 0 = (a.getD c 0 + b.getD c 0) % t.modulus.value :=
    fun c hc => c11n_getD_ofFn _ hc
  obtain ⟨c1, c2⟩ := c11n_decode_cast hw hk sum (by simp [sum])
    (fun j hj => by rw [hpg j hj]; exact Nat.mod_lt _ hq0) hi
  obtain ⟨_, a2⟩ := c11n_decode_cast hw hk a hsa ha hi
  obtain ⟨_, b2⟩ := c11n_decode_cast hw hk b hsb hb hi
  apply cast_inj_lt c1 (Nat.mod_lt _ hq0)
  rw [c2, ZMod.natCast_mod, Nat.cast_add, a2, b2, ← sum_add_distrib]
  apply sum_congr rfl
  intro c hc
  rw [hpg c (mem_range.mp hc), ZMod.natCast_mod, Nat.cast_add, add_mul]

end HC
