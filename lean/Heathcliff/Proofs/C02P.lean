/- C02 (task P, part 1): algebra of the integer Horner phase `c02x_phZ` under the ciphertext operations, and norm bounds.
   All helper names carry the prefix `c02p_`.

   A ciphertext of `m` polynomials is read through integer coefficient functions `A k c` (polynomial k, coefficient c); its phase for
   the integer secret `s` is `c02x_phZ n s m A` (coefficient function of Σ_k A_k ⋆ s^k over ℤ[X]/(X^n+1), ⋆ = `negMulR`).  The
   operations on readings (`c02p_trZ`: balanced add / sub of any two sizes, `c02w_Z`: Cauchy product, `c02p_plZ`: product with one
   polynomial) act on the phase as the ring operations.  Method as in C02X: evaluate in ℤ[X]/(X^n+1), where the C02K ring identities
   (`translate_phase`, `ct_mul_phase`, `mul_plain_phase`) hold, and pull back to coefficients (`c02x_pull`). -/
import Heathcliff.Proofs.C02X
namespace HC
open Finset Polynomial

/-- reading of `e1·a ± e2·b` for operands of `n1`, `n2` polynomials (absent polynomials are zero) -/
def c02p_trZ (sub : Bool) (e1 e2 : Int) (n1 n2 : Nat) (A B : Nat → Nat → Int) (k c : Nat) : Int :=
  (if k < n1 then e1 * A k c else 0) + (if k < n2 then (if sub then -e2 else e2) * B k c else 0)

/-- reading of the product with one polynomial `P` -/
def c02p_plZ (n : Nat) (A : Nat → Nat → Int) (P : Nat → Int) (k c : Nat) : Int := negMulR n (A k) P c

theorem c02p_ctPhase_trunc {S : Type} [CommRing S] {n1 m : Nat} (h : n1 ≤ m) (f : Nat → S) (s : S) :
    ctPhase m (fun k => if k < n1 then f k else 0) s = ctPhase n1 f s := by
  unfold ctPhase
  rw [← Finset.sum_range_add_sum_Ico _ h]
  have h2 : ∑ k ∈ Finset.Ico n1 m, (if k < n1 then f k else 0) * s ^ k = 0 := by
    apply Finset.sum_eq_zero
    intro k hk
    have := (Finset.mem_Ico.mp hk).1
    rw [if_neg (by omega), zero_mul]
  rw [h2, add_zero]
  apply Finset.sum_congr rfl
  intro k hk
  beta_reduce
  rw [if_pos (Finset.mem_range.mp hk)]

theorem c02p_ctPhase_add {S : Type} [CommRing S] (m : Nat) (f g : Nat → S) (s : S) :
    ctPhase m (fun k => f k + g k) s = ctPhase m f s + ctPhase m g s := by
  unfold ctPhase
  rw [← Finset.sum_add_distrib]
  apply Finset.sum_congr rfl
  intro k _
  ring

theorem c02p_ctPhase_smul {S : Type} [CommRing S] (m : Nat) (a : S) (f : Nat → S) (s : S) :
    ctPhase m (fun k => a * f k) s = a * ctPhase m f s := by
  unfold ctPhase
  rw [Finset.mul_sum]
  apply Finset.sum_congr rfl
  intro k _
  ring

/-- (T) phase of the balanced sum / difference, all size pairs -/
theorem c02p_phZ_tr {n : Nat} (hn : 0 < n) (s : Nat → Int) (sub : Bool) (e1 e2 : Int) (n1 n2 : Nat) (A B : Nat → Nat → Int) :
    ∀ c, c < n → c02x_phZ n s (max n1 n2) (c02p_trZ sub e1 e2 n1 n2 A B) c =
      e1 * c02x_phZ n s n1 A c + (if sub then -e2 else e2) * c02x_phZ n s n2 B c := by
  apply c02x_pull hn
  have hξ := c02x_root_pow n
  rw [c02x_ev_phZ hn hξ, c02w_ev_lin, c02w_ev_smul, c02x_ev_phZ hn hξ, c02x_ev_phZ hn hξ]
  have e : (fun k => c02w_ev n (AdjoinRoot.root ((X : ℤ[X])^n + 1)) (c02p_trZ sub e1 e2 n1 n2 A B k)) =
      fun k => (if k < n1 then ((e1 : Int) : c02x_Rn n) * c02w_ev n (AdjoinRoot.root ((X : ℤ[X])^n + 1)) (A k) else 0) +
        (if k < n2 then (((if sub then -e2 else e2) : Int) : c02x_Rn n) * c02w_ev n (AdjoinRoot.root ((X : ℤ[X])^n + 1)) (B k) else 0) := by
    funext k
    unfold c02p_trZ
    rw [c02x_ev_add]
    congr 1
    · split
      · exact c02w_ev_smul _ _ _ _
      · exact c02x_ev_zero _ _
    · split
      · exact c02w_ev_smul _ _ _ _
      · exact c02x_ev_zero _ _
  rw [e, c02p_ctPhase_add, c02p_ctPhase_trunc (Nat.le_max_left _ _), c02p_ctPhase_trunc (Nat.le_max_right _ _),
    c02p_ctPhase_smul, c02p_ctPhase_smul]

/-- (M) phase of the Cauchy product, all size pairs -/
theorem c02p_phZ_mul {n : Nat} (hn : 0 < n) (s : Nat → Int) {n1 n2 : Nat} (h1 : 1 ≤ n1) (h2 : 1 ≤ n2) (A B : Nat → Nat → Int) :
    ∀ c, c < n → c02x_phZ n s (n1 + n2 - 1) (c02w_Z n1 n2 n A B) c =
      negMulR n (c02x_phZ n s n1 A) (c02x_phZ n s n2 B) c := by
  apply c02x_pull hn
  have hξ := c02x_root_pow n
  rw [c02x_ev_phZ hn hξ, c02w_ev_negMul hn hξ, c02x_ev_phZ hn hξ, c02x_ev_phZ hn hξ, ← ct_mul_phase h1 h2]
  congr 1
  funext k
  exact c02w_ev_Z hn hξ n1 n2 A B k

/-- (P) phase of the product with one polynomial -/
theorem c02p_phZ_pl {n : Nat} (hn : 0 < n) (s : Nat → Int) (m : Nat) (A : Nat → Nat → Int) (P : Nat → Int) :
    ∀ c, c < n → c02x_phZ n s m (c02p_plZ n A P) c = negMulR n (c02x_phZ n s m A) P c := by
  apply c02x_pull hn
  have hξ := c02x_root_pow n
  rw [c02x_ev_phZ hn hξ, c02w_ev_negMul hn hξ, c02x_ev_phZ hn hξ, ← mul_plain_phase]
  congr 1
  funext k
  exact c02w_ev_negMul hn hξ _ _

/-- the phase only depends on the coefficients below `n` of the polynomials below `m` -/
theorem c02p_phZ_congr (n : Nat) (s : Nat → Int) : ∀ (m : Nat) (A B : Nat → Nat → Int),
    (∀ k, k < m → ∀ c, c < n → A k c = B k c) → ∀ c, c < n → c02x_phZ n s m A c = c02x_phZ n s m B c
  | 0, _, _, _, _, _ => rfl
  | m+1, A, B, h, c, hc => by
    show A 0 c + negMulR n (c02x_phZ n s m (fun k => A (k+1))) s c = B 0 c + negMulR n (c02x_phZ n s m (fun k => B (k+1))) s c
    rw [h 0 (by omega) c hc]
    congr 1
    exact c05u_negMul_congr n _ _ _ c (fun i hi => c02p_phZ_congr n s m _ _ (fun k hk c' hc' => h (k+1) (by omega) c' hc') i hi)

/-- additivity and homogeneity of the phase in the reading (no truncation) -/
theorem c02p_phZ_add {n : Nat} (hn : 0 < n) (s : Nat → Int) (m : Nat) (A B : Nat → Nat → Int) :
    ∀ c, c < n → c02x_phZ n s m (fun k c => A k c + B k c) c = c02x_phZ n s m A c + c02x_phZ n s m B c := by
  apply c02x_pull hn
  have hξ := c02x_root_pow n
  rw [c02x_ev_phZ hn hξ, c02x_ev_add, c02x_ev_phZ hn hξ, c02x_ev_phZ hn hξ, ← c02p_ctPhase_add]
  congr 1
  funext k
  exact c02x_ev_add _ _ _ _

theorem c02p_phZ_smul {n : Nat} (hn : 0 < n) (s : Nat → Int) (m : Nat) (a : Int) (A : Nat → Nat → Int) :
    ∀ c, c < n → c02x_phZ n s m (fun k c => a * A k c) c = a * c02x_phZ n s m A c := by
  apply c02x_pull hn
  have hξ := c02x_root_pow n
  rw [c02x_ev_phZ hn hξ, c02w_ev_smul, c02x_ev_phZ hn hξ, ← c02p_ctPhase_smul]
  congr 1
  funext k
  exact c02w_ev_smul _ _ _ _

/-- divisibility passes to the phase -/
theorem c02p_phZ_dvd (n : Nat) (s : Nat → Int) (t : Int) : ∀ (m : Nat) (A : Nat → Nat → Int),
    (∀ k, k < m → ∀ c, c < n → t ∣ A k c) → ∀ c, c < n → t ∣ c02x_phZ n s m A c
  | 0, _, _, _, _ => by simp [c02x_phZ]
  | m+1, A, h, c, hc => by
    show t ∣ A 0 c + negMulR n (c02x_phZ n s m (fun k => A (k+1))) s c
    exact dvd_add (h 0 (by omega) c hc)
      (c05u_negMul_dvd n t _ s c (fun i hi => c02p_phZ_dvd n s t m _ (fun k hk c' hc' => h (k+1) (by omega) c' hc') i hi))

/-! ## norm bounds -/

/-- ‖a ⋆ b‖∞ ≤ n·‖a‖∞·‖b‖∞ -/
theorem c02p_negMul_bound (n : Nat) (a b : Nat → Int) (Ba Bb c : Nat) (hc : c < n) (ha : ∀ i, i < n → (a i).natAbs ≤ Ba)
    (hb : ∀ i, i < n → (b i).natAbs ≤ Bb) : (negMulR n a b c).natAbs ≤ n * Ba * Bb := by
  refine le_trans (c05u_negMul_bound n a b Ba c hc ha) ?_
  have : ∑ k ∈ range n, (b k).natAbs ≤ ∑ _k ∈ range n, Bb := Finset.sum_le_sum (fun k hk => hb k (mem_range.mp hk))
  rw [Finset.sum_const, Finset.card_range, smul_eq_mul] at this
  calc Ba * ∑ k ∈ range n, (b k).natAbs ≤ Ba * (n * Bb) := Nat.mul_le_mul_left _ this
    _ = n * Ba * Bb := by ring

end HC
