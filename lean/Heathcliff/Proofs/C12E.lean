/- C12 part E: assembly of the exact-arithmetic embedding statements about the MODEL's pieces: the scatter loop of
   `encode_internal_c64_array` through `Ckks.indexMap`, encode = inverse network · (scale/N), decode = (· 1/scale), forward
   network, gather through the index map; root tables selected by `Ckks.rootPowerSel` / `invRootPowerSel` from exact octant values. -/
import Heathcliff.Proofs.C12B
import Heathcliff.Proofs.C12C
namespace HC
open Ckks Finset

variable {K : Type} [CommRing K] [StarRing K]

/-- the scatter loop: `conj_values[map[i]] = values[i]; conj_values[map[i + slots]] = values[i].conj()` for i < len, on a zero vector -/
def c12_scatter (k : Nat) (v : Nat → K) (len : Nat) : Nat → K :=
  (List.range len).foldl (fun a i =>
    Function.update (Function.update a ((indexMap k).getD i 0) (v i)) ((indexMap k).getD (i + 2^k/2) 0) (star (v i))) (fun _ => 0)

/-- coefficient j of the encoding in exact arithmetic: `transform_from_rev(conj_values, inv_root_powers, fix = scale / n)` -/
def c12_encodeExact (k : Nat) (iroots : Nat → K) (s Ninv : K) (v : Nat → K) (len : Nat) (j : Nat) : K :=
  runInv (exactArith K) k iroots (c12_scatter k v len) k j * (s * Ninv)

/-- slot i of the decoding in exact arithmetic: coefficients times `inv_scale`, `transform_to_rev(root_powers)`, gather at `map[i]` -/
def c12_decodeExact (k : Nat) (roots : Nat → K) (sinv : K) (c : Nat → K) (i : Nat) : K :=
  runFwd (exactArith K) k roots (fun j => c j * sinv) k ((indexMap k).getD i 0)

theorem c12e_scatter_succ (k : Nat) (v : Nat → K) (len : Nat) :
    c12_scatter k v (len+1) =
      Function.update (Function.update (c12_scatter k v len) ((indexMap k).getD len 0) (v len))
        ((indexMap k).getD (len + 2^k/2) 0) (star (v len)) := by
  unfold c12_scatter
  rw [List.range_succ, List.foldl_append]
  rfl

theorem c12e_half (k : Nat) (hk : 1 ≤ k) : 2^k = 2^k/2 + 2^k/2 := by
  obtain ⟨j, rfl⟩ : ∃ j, k = j + 1 := ⟨k - 1, by omega⟩
  rw [pow_succ]; omega

/-- what the scatter loop leaves at the position of slot i (both rows) -/
theorem c12e_scatter_at (k : Nat) (hk : 1 ≤ k) (v : Nat → K) : ∀ len, len ≤ 2^k/2 → ∀ i, i < 2^k →
    c12_scatter k v len ((indexMap k).getD i 0) =
      if i < 2^k/2 then (if i < len then v i else 0) else (if i - 2^k/2 < len then star (v (i - 2^k/2)) else 0) := by
  have inj := (indexMap_perm hk).2.1
  have e2 := c12e_half k hk
  intro len
  induction len with
  | zero =>
    intro _ i _
    simp [c12_scatter]
  | succ n ih =>
    intro hn i hi
    rw [c12e_scatter_succ, Function.update_apply, Function.update_apply]
    by_cases h1 : i = n + 2^k/2
    · subst h1
      rw [if_pos rfl, if_neg (by omega), Nat.add_sub_cancel, if_pos (by omega)]
    · have hne : (indexMap k).getD i 0 ≠ (indexMap k).getD (n + 2^k/2) 0 := fun h => h1 (inj i (n + 2^k/2) hi (by omega) h)
      rw [if_neg hne]
      by_cases h2 : i = n
      · subst h2
        rw [if_pos rfl, if_pos (by omega), if_pos (by omega)]
      · have hne2 : (indexMap k).getD i 0 ≠ (indexMap k).getD n 0 := fun h => h2 (inj i n hi (by omega) h)
        rw [if_neg hne2, ih (by omega) i hi]
        by_cases h3 : i < 2^k/2
        · rw [if_pos h3, if_pos h3]
          by_cases h4 : i < n
          · rw [if_pos h4, if_pos (by omega)]
          · rw [if_neg h4, if_neg (by omega)]
        · rw [if_neg h3, if_neg h3]
          by_cases h4 : i - 2^k/2 < n
          · rw [if_pos h4, if_pos (by omega)]
          · rw [if_neg h4, if_neg (by omega)]

/-- the scattered vector takes conjugate values at conjugate positions -/
theorem c12e_scatter_conj (k : Nat) (hk : 1 ≤ k) (v : Nat → K) (len : Nat) (hlen : len ≤ 2^k/2) :
    ∀ p, p < 2^k → c12_scatter k v len (c12_conjPos k p) = star (c12_scatter k v len p) := by
  obtain ⟨hlt, _, surj⟩ := indexMap_perm hk
  have e2 := c12e_half k hk
  intro p hp
  obtain ⟨i, hi, rfl⟩ := surj p hp
  by_cases h : i < 2^k/2
  · have hc : c12_conjPos k ((indexMap k).getD i 0) = (indexMap k).getD (i + 2^k/2) 0 := (indexMap_conj hk h).symm
    rw [hc, c12e_scatter_at k hk v len hlen (i + 2^k/2) (by omega), c12e_scatter_at k hk v len hlen i hi,
      if_neg (by omega), if_pos h, Nat.add_sub_cancel]
    by_cases h4 : i < len
    · rw [if_pos h4, if_pos h4]
    · rw [if_neg h4, if_neg h4, star_zero]
  · have hi' : i - 2^k/2 < 2^k/2 := by omega
    have hc : (indexMap k).getD i 0 = c12_conjPos k ((indexMap k).getD (i - 2^k/2) 0) := by
      have := indexMap_conj hk hi'
      rw [Nat.sub_add_cancel (by omega)] at this
      exact this
    rw [hc, c12c_conjPos_invol (hlt _ (by omega)), ← hc,
      c12e_scatter_at k hk v len hlen (i - 2^k/2) (by omega), c12e_scatter_at k hk v len hlen i hi,
      if_pos hi', if_neg h]
    by_cases h4 : i - 2^k/2 < len
    · rw [if_pos h4, if_pos h4, star_star]
    · rw [if_neg h4, if_neg h4, star_zero]

theorem c12e_star_inv (k : Nat) (Ninv : K) (hN : Ninv * 2^k = 1) : star Ninv = Ninv := by
  have h1 : star Ninv * 2^k = 1 := by
    have := congrArg star hN
    rwa [star_mul', c12c_star_two_pow, star_one] at this
  calc star Ninv = star Ninv * (Ninv * 2^k) := by rw [hN, mul_one]
    _ = (star Ninv * 2^k) * Ninv := by ring
    _ = Ninv := by rw [h1, one_mul]

/-- DECODE ∘ ENCODE = ID on at most N/2 slots (missing slots decode to 0) -/
theorem c12e_decode_encode (k : Nat) (hk : 1 ≤ k) (ψ : K) (hu : ψ * star ψ = 1) (roots iroots : Nat → K)
    (hroots : ∀ j, 0 < j → j < 2^k → roots j = ψ^(brev k j))
    (hiroots : ∀ p, 0 < p → p < 2^k → iroots p = (star ψ)^(brev k (p-1) + 1))
    (Ninv s sinv : K) (hN : Ninv * 2^k = 1) (hs : s * sinv = 1) (v : Nat → K) (len : Nat) (hlen : len ≤ 2^k/2) :
    ∀ i, i < 2^k/2 →
      c12_decodeExact k roots sinv (c12_encodeExact k iroots s Ninv v len) i = if i < len then v i else 0 := by
  intro i hi
  have e2 := c12e_half k hk
  have hp := (indexMap_perm hk).1 i (by omega)
  unfold c12_decodeExact c12_encodeExact
  rw [c12c_roundtrip k ψ (star ψ) hu roots iroots hroots hiroots Ninv s sinv hN hs _ _ hp,
    c12e_scatter_at k hk v len hlen i (by omega), if_pos hi]

/-- CONJUGATE SYMMETRY ⇒ REAL COEFFICIENTS: every coefficient of the encoding is fixed by star -/
theorem c12e_encode_real (k : Nat) (hk : 1 ≤ k) (ψ : K) (hψ : ψ^(2^k) = -1) (hu : ψ * star ψ = 1) (roots iroots : Nat → K)
    (hroots : ∀ j, 0 < j → j < 2^k → roots j = ψ^(brev k j))
    (hiroots : ∀ p, 0 < p → p < 2^k → iroots p = (star ψ)^(brev k (p-1) + 1))
    (Ninv s : K) (hN : Ninv * 2^k = 1) (hsr : star s = s) (v : Nat → K) (len : Nat) (hlen : len ≤ 2^k/2) :
    ∀ j, j < 2^k → star (c12_encodeExact k iroots s Ninv v len j) = c12_encodeExact k iroots s Ninv v len j := by
  intro j hj
  unfold c12_encodeExact
  rw [star_mul', star_mul', hsr, c12e_star_inv k Ninv hN,
    c12c_real_coeffs k ψ hψ hu roots iroots hroots hiroots Ninv hN _ (c12e_scatter_conj k hk v len hlen) j hj]

theorem c12e_slotExp_lo {k i : Nat} (hi : i < 2^k/2) : c12_slotExp k i = 3^i % (2*2^k) := by
  unfold c12_slotExp; simp only []; rw [if_pos hi]

/-- SLOT ORDER: slot i of decode is the evaluation of the (scaled-down) coefficient polynomial at ψ^(3^i);
    the position of slot i + N/2 holds the evaluation at the conjugate point -/
theorem c12e_decode_slot (k : Nat) (hk : 1 ≤ k) (ψ : K) (hψ : ψ^(2^k) = -1) (hu : ψ * star ψ = 1) (roots : Nat → K)
    (hroots : ∀ j, 0 < j → j < 2^k → roots j = ψ^(brev k j)) (sinv : K) (c : Nat → K) :
    ∀ i, i < 2^k/2 →
      c12_decodeExact k roots sinv c i = ∑ j ∈ range (2^k), (c j * sinv) * (ψ^(3^i))^j ∧
      c12_decodeExact k roots sinv c (i + 2^k/2) = ∑ j ∈ range (2^k), (c j * sinv) * (star (ψ^(3^i)))^j := by
  intro i hi
  have e2 := c12e_half k hk
  obtain ⟨_, m1, o1, l1⟩ := indexMap_spec hk (show i < 2^k by omega)
  obtain ⟨_, m2, o2, l2⟩ := indexMap_spec hk (show i + 2^k/2 < 2^k by omega)
  have hpow : ψ^(c12_slotExp k i) = ψ^(3^i) := by rw [c12e_slotExp_lo hi, c12c_pow_mod k ψ hψ]
  unfold c12_decodeExact
  constructor
  · rw [m1, c12c_fwd_at k ψ hψ roots hroots _ o1 l1, hpow]
  · rw [m2, c12c_fwd_at k ψ hψ roots hroots _ o2 l2]
    have hc := c12_slotExp_conj hk hi
    have hee : c12_slotExp k (i + 2^k/2) + c12_slotExp k i = 2 * 2^k := by omega
    rw [← hpow, ← c12c_star_pow k ψ hψ hu hee]

/-! ### the root tables the model selects -/

/-- `root_powers[j]` / `inv_root_powers[j]` computed by the model's index logic from exact octant values ψ^0 … ψ^(m/8) -/
def c12_rootTable (k : Nat) (ψ I : K) (j : Nat) : K :=
  match rootPowerSel k j with
  | .ok s => c12_selVal I (fun i => ψ^i) s
  | .error _ => 0
def c12_invRootTable (k : Nat) (ψ I : K) (j : Nat) : K :=
  match invRootPowerSel k j with
  | .ok s => c12_selVal I (fun i => ψ^i) s
  | .error _ => 0

theorem c12e_rootTable (k : Nat) (hk : 2 ≤ k) (ψ I : K) (hI : ψ^(2 * 2^k / 4) = I) (hI2 : I * I = -1) (hu : ψ * star ψ = 1) (j : Nat) :
    c12_rootTable k ψ I j = ψ^(brev k j) := by
  obtain ⟨s, h1, _, h3⟩ := rootPowerSel_spec k hk ψ I hI hI2 hu j
  unfold c12_rootTable; rw [h1]; exact h3

theorem c12e_invRootTable (k : Nat) (hk : 2 ≤ k) (ψ I : K) (hI : ψ^(2 * 2^k / 4) = I) (hI2 : I * I = -1) (hu : ψ * star ψ = 1) (j : Nat) :
    c12_invRootTable k ψ I j = (star ψ)^(brev k (j - 1) + 1) := by
  obtain ⟨s, h1, _, h3⟩ := invRootPowerSel_spec k hk ψ I hI hI2 hu j
  unfold c12_invRootTable; rw [h1]; exact h3

/-- ψ^(N/2) = I with I² = −1 gives ψ^N = −1 -/
theorem c12e_psi_pow (k : Nat) (hk : 2 ≤ k) (ψ I : K) (hI : ψ^(2 * 2^k / 4) = I) (hI2 : I * I = -1) : ψ^(2^k) = -1 := by
  obtain ⟨j, rfl⟩ : ∃ j, k = j + 2 := ⟨k - 2, by omega⟩
  have e : 2 * 2^(j+2) / 4 = 2 * 2^j := by rw [pow_succ, pow_succ]; omega
  rw [e] at hI
  have : ψ^(2^(j+2)) = (ψ^(2 * 2^j)) * (ψ^(2 * 2^j)) := by rw [← pow_add]; congr 1; ring
  rw [this, hI, hI2]

end HC
