/- C13 helper proofs: `get_primes` contract and Miller–Rabin completeness (a prime is never rejected). -/
import Heathcliff.Model.Context
import Heathcliff.Proofs.C08A
import Heathcliff.Proofs.C08B
import Mathlib.Data.Nat.Prime.Basic
import Mathlib.FieldTheory.Finite.Basic
import Mathlib.Data.ZMod.Basic
import Mathlib.Data.Nat.Log
import Mathlib.Tactic.NormNum.Prime
namespace HC.Ctx
open HC

/-- the values `get_primes` looks at, in the order it looks at them: `value, value - factor, …` while `> lower` -/
def cands (factor lower : Nat) : Nat → Nat → List Nat
  | 0, _ => []
  | fuel+1, value => if value > lower then value :: cands factor lower fuel (value - factor) else []

/-- first candidate: the largest value `≤ 2^b` that is `≡ 1 (mod factor)` -/
def startValue (factor b : Nat) : Nat := (2^b - 1) / factor * factor + 1

def candidates (factor b : Nat) : List Nat := cands factor (2^(b-1)) (startValue factor b + 1) (startValue factor b)

theorem ckSub_ok {a b v : Nat} (h : ckSub a b = .ok v) : v = a - b := by
  unfold ckSub at h
  split at h
  · injection h with h; exact h.symm
  · cases h

theorem getPrimesLoop_spec (isPrime : Nat → Bool) (factor lower : Nat) :
    ∀ (fuel value count : Nat) (acc l : List Nat),
      getPrimesLoop isPrime factor lower fuel value count acc = .ok l →
      l = acc ++ ((cands factor lower fuel value).filter isPrime).take count ∧ l.length = acc.length + count := by
  intro fuel
  induction fuel with
  | zero => intro value count acc l h; simp [getPrimesLoop] at h
  | succ fuel ih =>
    intro value count acc l h
    rw [getPrimesLoop] at h
    by_cases hc : count > 0 ∧ value > lower
    · rw [if_pos hc] at h
      split at h
      · cases h
      · simp only [bind, Except.bind] at h
        cases hs : ckSub value factor with
        | error e => rw [hs] at h; cases h
        | ok v' =>
          rw [hs] at h
          simp only at h
          have hv' := ckSub_ok hs
          subst hv'
          have hcd : cands factor lower (fuel+1) value = value :: cands factor lower fuel (value - factor) := by
            rw [cands, if_pos hc.2]
          obtain ⟨c, rfl⟩ : ∃ c, count = c + 1 := ⟨count - 1, by omega⟩
          by_cases hp : isPrime value = true
          · rw [if_pos hp] at h
            obtain ⟨h1, h2⟩ := ih _ _ _ _ h
            rw [hcd, List.filter_cons_of_pos hp, List.take_succ_cons]
            constructor
            · rw [h1]; simp
            · rw [h2]; simp; omega
          · rw [if_neg hp] at h
            obtain ⟨h1, h2⟩ := ih _ _ _ _ h
            rw [hcd, List.filter_cons_of_neg hp]
            exact ⟨h1, h2⟩
    · rw [if_neg hc] at h
      split at h
      · cases h
      · rename_i hc0
        have : count = 0 := by omega
        subst this
        simp only [pure, Except.pure] at h
        injection h with h
        subst h
        simp

theorem getPrimes_eq {isPrime : Nat → Bool} {factor b count : Nat} {l : List Nat}
    (h : getPrimes isPrime factor b count = .ok l) :
    l = ((candidates factor b).filter isPrime).take count ∧ l.length = count := by
  unfold getPrimes at h
  split at h
  · cases h
  split at h
  · cases h
  split at h
  · cases h
  have := getPrimesLoop_spec _ _ _ _ _ _ _ _ h
  simpa [candidates, startValue] using this

theorem cands_mem {factor lower : Nat} (hf : 1 ≤ factor) :
    ∀ (fuel value v : Nat), v ∈ cands factor lower fuel value →
      lower < v ∧ v ≤ value ∧ v % factor = value % factor ∧ (v ≠ value → v + factor ≤ value) := by
  intro fuel
  induction fuel with
  | zero => intro value v h; simp [cands] at h
  | succ fuel ih =>
    intro value v h
    rw [cands] at h
    split at h
    · rename_i hgt
      rcases List.mem_cons.mp h with h | h
      · subst h; exact ⟨hgt, le_refl _, rfl, fun hne => absurd rfl hne⟩
      · obtain ⟨h1, h2, h3, _⟩ := ih _ _ h
        have hfv : factor ≤ value := by omega
        refine ⟨h1, by omega, ?_, fun _ => by omega⟩
        rw [h3]
        exact (Nat.mod_eq_sub_mod hfv).symm
    · simp at h

theorem cands_pairwise {factor lower : Nat} (hf : 1 ≤ factor) :
    ∀ (fuel value : Nat), (cands factor lower fuel value).Pairwise (· > ·) := by
  intro fuel
  induction fuel with
  | zero => intro value; simp [cands]
  | succ fuel ih =>
    intro value
    rw [cands]
    split
    · refine List.Pairwise.cons ?_ (ih _)
      intro v hv
      obtain ⟨h1, h2, _, _⟩ := cands_mem hf _ _ _ hv
      show value > v
      omega
    · exact List.Pairwise.nil

theorem startValue_le {factor b : Nat} : startValue factor b ≤ 2^b := by
  unfold startValue
  have := Nat.div_mul_le_self (2^b - 1) factor
  have : 0 < 2^b := Nat.pow_pos (by norm_num)
  omega

theorem startValue_mod {factor b : Nat} : startValue factor b % factor = 1 % factor := by
  unfold startValue
  exact Nat.mul_add_mod' _ _ _

/-- the candidate list is strictly descending, inside `(2^(b-1), 2^b]`, and every member is `≡ 1 (mod factor)` -/
theorem candidates_props {factor b : Nat} (hb1 : 1 ≤ b) (hf : 1 ≤ factor) :
    (candidates factor b).Pairwise (· > ·) ∧
    ∀ v ∈ candidates factor b, 2^(b-1) < v ∧ v ≤ 2^b ∧ v % factor = 1 % factor := by
  have _ := hb1
  refine ⟨cands_pairwise hf _ _, ?_⟩
  intro v hv
  obtain ⟨h1, h2, h3, _⟩ := cands_mem hf _ _ _ hv
  exact ⟨h1, le_trans h2 startValue_le, h3.trans startValue_mod⟩

theorem step_down {factor v value : Nat} (hlt : v < value) (hm : v % factor = value % factor) :
    v + factor ≤ value := by
  have h1 := Nat.div_add_mod v factor
  have h2 := Nat.div_add_mod value factor
  have h3 : v / factor < value / factor := by
    by_contra hh
    have h4 : value / factor ≤ v / factor := by omega
    have := Nat.mul_le_mul_left factor h4
    omega
  have h5 := Nat.mul_le_mul_left factor (show v / factor + 1 ≤ value / factor from h3)
  rw [Nat.mul_add, Nat.mul_one] at h5
  omega

theorem cands_complete {factor lower : Nat} (hf : 1 ≤ factor) {v : Nat} (hlow : lower < v) :
    ∀ (fuel value : Nat), v ≤ value → value < fuel → v % factor = value % factor →
      v ∈ cands factor lower fuel value := by
  intro fuel
  induction fuel with
  | zero => intro value _ h; omega
  | succ fuel ih =>
    intro value hle hfuel hm
    rw [cands, if_pos (show value > lower by omega)]
    by_cases heq : v = value
    · subst heq; exact List.mem_cons_self
    · have hlt : v < value := by omega
      have hs := step_down hlt hm
      refine List.mem_cons_of_mem _ (ih _ (by omega) (by omega) ?_)
      rw [hm]
      exact Nat.mod_eq_sub_mod (by omega)

theorem le_startValue {factor b v : Nat} (hf : 1 ≤ factor) (h0 : 1 ≤ v) (h2 : v ≤ 2^b)
    (h3 : v % factor = 1 % factor) : v ≤ startValue factor b := by
  unfold startValue
  have hd : factor ∣ v - 1 := (Nat.modEq_iff_dvd' h0).mp h3.symm
  obtain ⟨k, hk⟩ := hd
  have hk' : k * factor ≤ 2^b - 1 := by rw [Nat.mul_comm, ← hk]; omega
  have h4 : k ≤ (2^b - 1) / factor := (Nat.le_div_iff_mul_le hf).mpr hk'
  have h5 := Nat.mul_le_mul_right factor h4
  rw [Nat.mul_comm] at hk
  omega

/-- … and it contains EVERY such value (so "first `count` accepted candidates" means the `count` largest accepted
    values of the residue class in the bit range) -/
theorem candidates_complete {factor b : Nat} (hb1 : 1 ≤ b) (hf : 1 ≤ factor) {v : Nat}
    (h1 : 2^(b-1) < v) (h2 : v ≤ 2^b) (h3 : v % factor = 1 % factor) : v ∈ candidates factor b := by
  have _ := hb1
  unfold candidates
  refine cands_complete hf h1 _ _ (le_startValue hf (Nat.lt_of_le_of_lt (Nat.zero_le _) h1) h2 h3) (Nat.lt_succ_self _) ?_
  rw [h3, startValue_mod]

theorem bitCount_eq_of_range {v b : Nat} (hb1 : 1 ≤ b) (h1 : 2^(b-1) < v) (h2 : v < 2^b) : bitCount v = b := by
  have hv : v ≠ 0 := Nat.ne_of_gt (Nat.lt_of_le_of_lt (Nat.zero_le _) h1)
  unfold bitCount
  rw [if_neg hv]
  have : Nat.log2 v = b - 1 := by
    rw [Nat.log2_eq_iff hv]
    refine ⟨le_of_lt h1, ?_⟩
    rwa [Nat.sub_add_cancel hb1]
  omega

/-- `get_primes` contract -/
theorem get_primes_spec {isPrime : Nat → Bool} {factor b count : Nat} {l : List Nat}
    (hb1 : 1 ≤ b) (hf : 1 ≤ factor) (h2 : isPrime (2^b) = false)
    (h : getPrimes isPrime factor b count = .ok l) :
    l.length = count ∧ l.Pairwise (· > ·) ∧ l.Nodup ∧
    (∀ v ∈ l, isPrime v = true ∧ v % factor = 1 % factor ∧ 2^(b-1) < v ∧ v < 2^b ∧ bitCount v = b) ∧
    l = ((candidates factor b).filter isPrime).take count := by
  obtain ⟨he, hlen⟩ := getPrimes_eq h
  obtain ⟨hpw, hmem⟩ := candidates_props (factor := factor) hb1 hf
  have hsub : l.Sublist (candidates factor b) := by
    rw [he]; exact (List.take_sublist _ _).trans List.filter_sublist
  have hpl : l.Pairwise (· > ·) := hpw.sublist hsub
  refine ⟨hlen, hpl, hpl.imp (fun h => ne_of_gt h), ?_, he⟩
  intro v hv
  have hvf : v ∈ (candidates factor b).filter isPrime := by
    rw [he] at hv; exact List.mem_of_mem_take hv
  obtain ⟨hvc, hvp⟩ := List.mem_filter.mp hvf
  obtain ⟨a1, a2, a3⟩ := hmem v hvc
  have hne : v ≠ 2^b := by
    intro heq; rw [heq, h2] at hvp; cases hvp
  have hlt : v < 2^b := lt_of_le_of_ne a2 hne
  exact ⟨hvp, a3, a1, hlt, bitCount_eq_of_range hb1 a1 hlt⟩

/-! ### Miller–Rabin completeness -/

theorem splitPow2_gen : ∀ (f d r : Nat), d ≠ 0 → d < 2^f →
    (splitPow2 f d r).1 * 2^(splitPow2 f d r).2 = d * 2^r ∧ (splitPow2 f d r).1 % 2 = 1 := by
  intro f
  induction f with
  | zero => intro d r h0 h1; simp at h1; exact absurd h1 h0
  | succ f ih =>
    intro d r h0 h1
    rw [splitPow2]
    split
    · rename_i he
      have h2 : d / 2 ≠ 0 := by omega
      have h3 : d / 2 < 2^f := by rw [Nat.pow_succ] at h1; omega
      obtain ⟨a1, a2⟩ := ih (d / 2) (r + 1) h2 h3
      refine ⟨?_, a2⟩
      rw [a1, Nat.pow_succ, ← Nat.mul_assoc, Nat.mul_right_comm, Nat.div_mul_cancel (Nat.dvd_of_mod_eq_zero he)]
    · exact ⟨rfl, by omega⟩

/-- `splitPow2` computes the odd part: `n = 2^r * d`, `d` odd (for `0 < n < 2^64`) -/
theorem splitPow2_spec {n : Nat} (h0 : 0 < n) (h : n < 2^64) :
    (splitPow2 64 n 0).1 * 2^(splitPow2 64 n 0).2 = n ∧ (splitPow2 64 n 0).1 % 2 = 1 := by
  have := splitPow2_gen 64 n 0 (Nat.ne_of_gt h0) h
  simpa using this

theorem sqrt_one {p x : Nat} (hp : p.Prime) (hx : x < p) (h : x * x % p = 1) : x = 1 ∨ x = p - 1 := by
  have : Fact p.Prime := ⟨hp⟩
  have h1 : ((x * x : ℕ) : ZMod p) = ((1 : ℕ) : ZMod p) := by
    rw [ZMod.natCast_eq_natCast_iff']
    rw [h, Nat.mod_eq_of_lt hp.one_lt]
  push_cast at h1
  rcases mul_self_eq_one_iff.mp h1 with h2 | h2
  · left
    have h3 : ((x : ℕ) : ZMod p) = ((1 : ℕ) : ZMod p) := by rw [h2]; simp
    rw [ZMod.natCast_eq_natCast_iff', Nat.mod_eq_of_lt hx, Nat.mod_eq_of_lt hp.one_lt] at h3
    exact h3
  · right
    have h3 : ((x + 1 : ℕ) : ZMod p) = 0 := by push_cast; rw [h2]; ring
    rw [ZMod.natCast_eq_zero_iff] at h3
    have := Nat.le_of_dvd (by omega) h3
    omega

theorem fermat_nat {p a : Nat} (hp : p.Prime) (ha : 0 < a) (hlt : a < p) : a^(p-1) % p = 1 := by
  have hc : Nat.Coprime a p :=
    Nat.Coprime.symm ((Nat.Prime.coprime_iff_not_dvd hp).mpr (Nat.not_dvd_of_pos_of_lt ha hlt))
  have h := Nat.ModEq.pow_totient hc
  rw [Nat.totient_prime hp] at h
  have h' : a^(p-1) % p = 1 % p := h
  rw [h', Nat.mod_eq_of_lt hp.one_lt]

section MR
variable {m : Modulus}

theorem mrInner_ok (hwf : m.WF) (hp : m.value.Prime) {r : Nat} :
    ∀ (k fuel x count : Nat), 2 ≤ k → k ≤ fuel + 1 → count + k = r → x < m.value → x ≠ 1 → x ≠ m.value - 1 →
      x^(2^k) % m.value = 1 → mrInner m fuel x count r = .ok (m.value - 1) := by
  intro k
  induction k with
  | zero => intro fuel x count h; omega
  | succ k ih =>
    intro fuel x count hk hfuel hcr hx hx1 hxm hpow
    have hp61 := hwf.lt
    obtain ⟨f, rfl⟩ : ∃ f, fuel = f + 1 := ⟨fuel - 1, by omega⟩
    rw [mrInner]
    have hx64 : x < 2^64 := by omega
    rw [mulMod_exact hwf hx64 hx64]
    simp only [bind, Except.bind]
    have hx'lt : x * x % m.value < m.value := Nat.mod_lt _ hp.pos
    have hx'pow : (x * x % m.value)^(2^k) % m.value = 1 := by
      rw [← Nat.pow_mod, ← Nat.pow_two, ← Nat.pow_mul, ← Nat.pow_succ'] 
      exact hpow
    have hx'1 : x * x % m.value ≠ 1 := by
      intro h
      rcases sqrt_one hp hx h with h | h
      · exact hx1 h
      · exact hxm h
    by_cases hm1 : x * x % m.value = m.value - 1
    · rw [if_pos (Or.inl hm1)]; simp only [pure, Except.pure, hm1]
    · by_cases hk2 : k = 1
      · exfalso
        subst hk2
        have h2 : (x * x % m.value) * (x * x % m.value) % m.value = 1 := by
          rw [← Nat.pow_two]; simpa using hx'pow
        rcases sqrt_one hp hx'lt h2 with h | h
        · exact hx'1 h
        · exact hm1 h
      · have hnot : ¬ (x * x % m.value = m.value - 1 ∨ count + 2 ≥ r) := by
          intro h; rcases h with h | h
          · exact hm1 h
          · omega
        rw [if_neg hnot]
        exact ih f _ (count + 1) (by omega) (by omega) (by omega) hx'lt hx'1 hm1 hx'pow

theorem mr_round (hwf : m.WF) (hp : m.value.Prime) {d r a : Nat} (hdr : d * 2^r = m.value - 1) (hd : d % 2 = 1)
    (hr : 1 ≤ r) (ha : 0 < a) (hlt : a < m.value) :
    ∃ x, exponentiateMod a d m = .ok x ∧
      (x = 1 ∨ x = m.value - 1 ∨ mrInner m 64 x 0 r = .ok (m.value - 1)) := by
  have hp61 := hwf.lt
  have hpos : 0 < 2^r := Nat.pow_pos (by norm_num)
  have hdle : d ≤ m.value - 1 := by rw [← hdr]; exact Nat.le_mul_of_pos_right _ hpos
  have hexp : exponentiateMod a d m = .ok (a^d % m.value) := by
    rw [exponentiateMod_exact (fun hx hy => mulMod_exact hwf hx hy) hwf (x := a) (e := d) (by omega) (by omega)]
    rw [if_neg (by omega)]
    by_cases h1 : d = 1
    · rw [if_pos h1, h1, Nat.pow_one, Nat.mod_eq_of_lt hlt]
    · rw [if_neg h1]
  refine ⟨_, hexp, ?_⟩
  have hxlt : a^d % m.value < m.value := Nat.mod_lt _ hp.pos
  have hpow : (a^d % m.value)^(2^r) % m.value = 1 := by
    rw [← Nat.pow_mod, ← Nat.pow_mul, hdr]
    exact fermat_nat hp ha hlt
  by_cases h1 : a^d % m.value = 1
  · exact Or.inl h1
  by_cases h2 : a^d % m.value = m.value - 1
  · exact Or.inr (Or.inl h2)
  right; right
  by_cases hr1 : r = 1
  · exfalso
    subst hr1
    have h3 : (a^d % m.value) * (a^d % m.value) % m.value = 1 := by
      rw [← Nat.pow_two]; simpa using hpow
    rcases sqrt_one hp hxlt h3 with h | h
    · exact h1 h
    · exact h2 h
  · have hr61 : r < 64 := by
      by_contra hh
      have : 2^64 ≤ 2^r := Nat.pow_le_pow_right (by norm_num) (by omega)
      have : 2^r ≤ d * 2^r := Nat.le_mul_of_pos_left _ (by omega)
      omega
    exact mrInner_ok hwf hp r 64 _ 0 (by omega) (by omega) (by omega) hxlt h1 h2 hpow

theorem mrRounds_ok (hwf : m.WF) (hp : m.value.Prime) {d r : Nat} (hdr : d * 2^r = m.value - 1) (hd : d % 2 = 1)
    (hr : 1 ≤ r) (h2 : 2 < m.value) (wit : Nat → Nat) (hw : ∀ i, 3 ≤ wit i ∧ wit i < m.value) :
    ∀ (n i : Nat), mrRounds m d r wit n i = .ok true := by
  intro n
  induction n with
  | zero => intro i; rfl
  | succ n ih =>
    intro i
    rw [mrRounds]
    have ha : 0 < (if i = 0 then 2 else wit i) ∧ (if i = 0 then 2 else wit i) < m.value := by
      split
      · exact ⟨by norm_num, h2⟩
      · exact ⟨by have := (hw i).1; omega, (hw i).2⟩
    obtain ⟨x, hx, hcase⟩ := mr_round hwf hp hdr hd hr ha.1 ha.2
    simp only [hx, bind, Except.bind]
    by_cases hc : x = 1 ∨ x = m.value - 1
    · rw [if_pos hc]; exact ih _
    · rw [if_neg hc]
      have hin : mrInner m 64 x 0 r = .ok (m.value - 1) := by
        rcases hcase with h | h | h
        · exact absurd (Or.inl h) hc
        · exact absurd (Or.inr h) hc
        · exact h
      rw [hin]
      simp only [ne_eq, not_true_eq_false, if_false]
      exact ih _

end MR

theorem prime_mod_ne {v q : Nat} (hp : v.Prime) (hq : q.Prime) (hne : ¬ v = q) : ¬ v % q = 0 := by
  intro h
  have := (Nat.prime_dvd_prime_iff_eq hq hp).mp (Nat.dvd_of_mod_eq_zero h)
  exact hne this.symm

/-- a prime is never rejected, whatever witnesses in `[3, v)` the random generator produces -/
theorem isPrimeW_no_false_negative {v : Nat} {m : Modulus} (hm : Modulus.mk? v = .ok m) (hp : v.Prime)
    (wit : Nat → Nat) (hw : ∀ i, 3 ≤ wit i ∧ wit i < v) : isPrimeW m wit = .ok true := by
  obtain ⟨hwf, hv⟩ := Modulus.mk?_wf hm hp.ne_zero
  subst hv
  have hp61 := hwf.lt
  unfold isPrimeW
  simp only
  rw [if_neg (by have := hp.two_le; omega)]
  by_cases h2 : m.value = 2
  · rw [if_pos h2]; rfl
  rw [if_neg h2, if_neg (prime_mod_ne hp Nat.prime_two h2)]
  by_cases h3 : m.value = 3
  · rw [if_pos h3]; rfl
  rw [if_neg h3, if_neg (prime_mod_ne hp Nat.prime_three h3)]
  by_cases h5 : m.value = 5
  · rw [if_pos h5]; rfl
  rw [if_neg h5, if_neg (prime_mod_ne hp Nat.prime_five h5)]
  by_cases h7 : m.value = 7
  · rw [if_pos h7]; rfl
  rw [if_neg h7, if_neg (prime_mod_ne hp (by norm_num) h7)]
  by_cases h11 : m.value = 11
  · rw [if_pos h11]; rfl
  rw [if_neg h11, if_neg (prime_mod_ne hp (by norm_num) h11)]
  by_cases h13 : m.value = 13
  · rw [if_pos h13]; rfl
  rw [if_neg h13, if_neg (prime_mod_ne hp (by norm_num) h13)]
  have hodd := prime_mod_ne hp Nat.prime_two h2
  have hge := hp.two_le
  obtain ⟨s1, s2⟩ := splitPow2_spec (n := m.value - 1) (by omega) (by omega)
  have hr : (splitPow2 64 (m.value - 1) 0).2 ≠ 0 := by
    intro h0
    rw [h0, Nat.pow_zero, Nat.mul_one] at s1
    rw [s1] at s2
    omega
  rw [if_neg hr]
  exact mrRounds_ok hwf hp s1 s2 (by omega) (by omega) wit hw _ _

end HC.Ctx
