/- C12 part B: the slot index map of `CKKSEncoder::new` is a permutation of [0, N) placing slot i at the network position of
   the evaluation point psi^(3^i) and slot i + N/2 at that of its conjugate; the 8-fold symmetry reduction of
   `ComplexRoots::get_root` returns zeta^j.

   Part 1 re-uses (renamed copies `c12b_*` of) the lemmas proved for the identical construction `batchIndexMap` in C11N. -/
import Heathcliff.Model.CkksEncoder
import Heathcliff.Model.Galois
import Heathcliff.Proofs.C09G
import Mathlib.Data.ZMod.Basic
import Mathlib.Algebra.Star.Basic
import Mathlib.Tactic.Ring
import Mathlib.Tactic.Linarith
namespace HC
open Ckks

/-- the exponent of slot i: 3^i for the first row, −3^(i − N/2) for the second (mod 2N) -/
def c12_slotExp (k i : Nat) : Nat :=
  let n := 2^k; let m := 2 * n; let row := n / 2
  if i < row then 3 ^ i % m else (m - 3 ^ (i - row) % m) % m

/-! ### copied from C11N (renamed) -/
theorem c12b_three_pow_mod8 (a : Nat) : 3^a % 8 = 1 ∨ 3^a % 8 = 3 := by
  induction a with
  | zero => left; rfl
  | succ a ih => rw [pow_succ, Nat.mul_mod]; rcases ih with h | h <;> rw [h] <;> simp

theorem c12b_three_pow_odd (a : Nat) : 3^a % 2 = 1 := by
  have := c12b_three_pow_mod8 a; omega

theorem c12b_lift (j : Nat) : ∃ c, 3^(2^(j+1)) = 1 + 2^(j+3) * (2*c+1) := by
  induction j with
  | zero => exact ⟨0, by norm_num⟩
  | succ j ih =>
    obtain ⟨c, hc⟩ := ih
    refine ⟨c + 2^(j+1) * (2*c+1)^2, ?_⟩
    rw [show 2^(j+1+1) = 2^(j+1) * 2 by ring, pow_mul, hc]
    ring

/-- 3^(N/2) ≡ 1 (mod 2N) for N ≥ 4 -/
theorem c12b_three_pow_row (j : Nat) : 3^(2^(j+2)/2) % (2 * 2^(j+2)) = 1 := by
  obtain ⟨c, hc⟩ := c12b_lift j
  have e1 : 2^(j+2)/2 = 2^(j+1) := by rw [pow_succ]; omega
  have e2 : 2 * 2^(j+2) = 2^(j+3) := by ring
  rw [e1, e2, hc, Nat.add_mul_mod_self_left]
  exact Nat.mod_eq_of_lt (Nat.one_lt_two_pow (by omega))

theorem c12b_three_pow_row_z {k : Nat} (hk : 2 ≤ k) : (3 : ZMod (2 * 2^k))^(2^k/2) = 1 := by
  obtain ⟨j, rfl⟩ : ∃ j, k = j + 2 := ⟨k - 2, by omega⟩
  have h := c12b_three_pow_row j
  have : ((3^(2^(j+2)/2) : Nat) : ZMod (2 * 2^(j+2))) = ((1 : Nat) : ZMod (2 * 2^(j+2))) := by
    rw [ZMod.natCast_eq_natCast_iff', h, Nat.mod_eq_of_lt]
    have := Nat.one_lt_two_pow (n := j+2) (by omega); omega
  simpa using this

/-- 3^(N/4) ≢ 1 (mod 2N) for N ≥ 4 -/
theorem c12b_three_pow_half_z (j : Nat) : ¬ (3 : ZMod (2 * 2^(j+2)))^(2^j) = 1 := by
  intro h
  have h2 : ((3^(2^j) : Nat) : ZMod (2 * 2^(j+2))) = ((1 : Nat) : ZMod (2 * 2^(j+2))) := by
    simpa using h
  rw [ZMod.natCast_eq_natCast_iff'] at h2
  have h1 : 1 % (2 * 2^(j+2)) = 1 := by
    apply Nat.mod_eq_of_lt
    have := Nat.one_lt_two_pow (n := j+2) (by omega); omega
  rw [h1] at h2
  cases j with
  | zero => norm_num at h2
  | succ j =>
    obtain ⟨c, hc⟩ := c12b_lift j
    rw [hc] at h2
    have e2 : 2 * 2^(j+1+2) = 2^(j+3) * 2 := by ring
    rw [e2] at h2
    have e3 : (1 + 2^(j+3) * (2*c+1)) = (1 + 2^(j+3)) + 2^(j+3) * 2 * c := by ring
    rw [e3, Nat.add_mul_mod_self_left] at h2
    have hp : 1 < 2^(j+3) := Nat.one_lt_two_pow (by omega)
    rw [Nat.mod_eq_of_lt (by omega)] at h2
    omega

theorem c12b_orderOf {k : Nat} (hk : 2 ≤ k) : orderOf (3 : ZMod (2 * 2^k)) = 2^k/2 := by
  obtain ⟨j, rfl⟩ : ∃ j, k = j + 2 := ⟨k - 2, by omega⟩
  have e1 : 2^(j+2)/2 = 2^(j+1) := by rw [pow_succ]; omega
  rw [e1]
  apply orderOf_eq_prime_pow (c12b_three_pow_half_z j)
  rw [← e1]; exact c12b_three_pow_row_z (by omega)

theorem c12b_pow_inj {k a b : Nat} (hk : 1 ≤ k) (ha : a < 2^k/2) (hb : b < 2^k/2)
    (h : 3^a % (2*2^k) = 3^b % (2*2^k)) : a = b := by
  rcases Nat.lt_or_ge k 2 with h2 | h2
  · have : k = 1 := by omega
    subst this; norm_num at ha hb; omega
  · have hz : (3 : ZMod (2 * 2^k))^a = 3^b := by
      have := (ZMod.natCast_eq_natCast_iff' (3^a) (3^b) (2*2^k)).mpr h
      simpa using this
    have ho := c12b_orderOf h2
    exact pow_injOn_Iio_orderOf (x := (3 : ZMod (2 * 2^k))) (by rw [ho]; exact ha) (by rw [ho]; exact hb) hz

/-! ### slot exponents -/
theorem c12b_pm_facts (k a : Nat) :
    3^a % (2*2^k) % 2 = 1 ∧ 0 < 3^a % (2*2^k) ∧ 3^a % (2*2^k) < 2*2^k := by
  have h1 : 3^a % (2*2^k) % 2 = 1 := by
    rw [Nat.mod_mod_of_dvd _ (Dvd.intro _ rfl)]; exact c12b_three_pow_odd a
  have hp := Nat.two_pow_pos k
  refine ⟨h1, by omega, Nat.mod_lt _ (by omega)⟩

theorem c12b_slotExp_lo {k i : Nat} (hi : i < 2^k/2) : c12_slotExp k i = 3^i % (2*2^k) := by
  unfold c12_slotExp; simp only []; rw [if_pos hi]

theorem c12b_slotExp_hi {k i : Nat} (hi : ¬ i < 2^k/2) :
    c12_slotExp k i = 2*2^k - 3^(i - 2^k/2) % (2*2^k) := by
  unfold c12_slotExp; simp only []; rw [if_neg hi]
  obtain ⟨_, h2, h3⟩ := c12b_pm_facts k (i - 2^k/2)
  exact Nat.mod_eq_of_lt (by omega)

theorem c12b_slotExp_facts (k i : Nat) : c12_slotExp k i % 2 = 1 ∧ c12_slotExp k i < 2 * 2^k := by
  by_cases hi : i < 2^k/2
  · rw [c12b_slotExp_lo hi]
    obtain ⟨h1, _, h3⟩ := c12b_pm_facts k i
    exact ⟨h1, h3⟩
  · rw [c12b_slotExp_hi hi]
    obtain ⟨h1, h2, h3⟩ := c12b_pm_facts k (i - 2^k/2)
    omega

theorem c12b_slotExp_cast_lo {k i : Nat} (hi : i < 2^k/2) : ((c12_slotExp k i : Nat) : ZMod (2*2^k)) = 3^i := by
  rw [c12b_slotExp_lo hi, ZMod.natCast_mod]; simp

theorem c12b_slotExp_cast_hi {k i : Nat} (hi : ¬ i < 2^k/2) :
    ((c12_slotExp k i : Nat) : ZMod (2*2^k)) = - 3^(i - 2^k/2) := by
  rw [c12b_slotExp_hi hi]
  obtain ⟨_, h2, h3⟩ := c12b_pm_facts k (i - 2^k/2)
  rw [Nat.cast_sub (le_of_lt h3), ZMod.natCast_self, ZMod.natCast_mod]; simp

theorem c12b_cast_pred (k : Nat) : ((2 * 2^k - 1 : Nat) : ZMod (2*2^k)) = -1 := by
  have hp := Nat.two_pow_pos k
  rw [Nat.cast_sub (by omega), ZMod.natCast_self]; simp

theorem c12b_mod_of_cast {m a b : Nat} (hb : b < m) (h : ((a : Nat) : ZMod m) = (b : ZMod m)) : a % m = b := by
  have := (ZMod.natCast_eq_natCast_iff' a b m).mp h
  rwa [Nat.mod_eq_of_lt hb] at this

theorem c12b_cross {k a b : Nat} (hk : 1 ≤ k) (ha : a < 2^k/2) (hb : b < 2^k/2) :
    3^a % (2*2^k) ≠ 2*2^k - 3^b % (2*2^k) := by
  intro h
  rcases Nat.lt_or_ge k 2 with h2 | h2
  · have : k = 1 := by omega
    subst this
    norm_num at ha hb; subst ha; subst hb; norm_num at h
  · obtain ⟨j, rfl⟩ : ∃ j, k = j + 2 := ⟨k - 2, by omega⟩
    have e : 2 * 2^(j+2) = 8 * 2^j := by ring
    rw [e] at h
    have hx : 3^a % (8 * 2^j) % 8 = 3^a % 8 := Nat.mod_mod_of_dvd _ (Dvd.intro _ rfl)
    have hy : 3^b % (8 * 2^j) % 8 = 3^b % 8 := Nat.mod_mod_of_dvd _ (Dvd.intro _ rfl)
    have hlt : 3^b % (8 * 2^j) < 8 * 2^j := Nat.mod_lt _ (by have := Nat.two_pow_pos j; omega)
    have h8a := c12b_three_pow_mod8 a
    have h8b := c12b_three_pow_mod8 b
    omega

/-- the slot exponents ±3^i are pairwise distinct modulo 2N (so they are ALL odd residues: 3 has order N/2 and −1 ∉ ⟨3⟩) -/
theorem c12_slotExp_injective {k i j : Nat} (hk : 1 ≤ k) (hi : i < 2^k) (hj : j < 2^k) (h : c12_slotExp k i = c12_slotExp k j) : i = j := by
  have e2 : 2^k = 2^k/2 + 2^k/2 := by
    obtain ⟨j, rfl⟩ : ∃ j, k = j + 1 := ⟨k - 1, by omega⟩
    rw [pow_succ]; omega
  by_cases h1 : i < 2^k/2 <;> by_cases h2 : j < 2^k/2
  · rw [c12b_slotExp_lo h1, c12b_slotExp_lo h2] at h
    exact c12b_pow_inj hk h1 h2 h
  · rw [c12b_slotExp_lo h1, c12b_slotExp_hi h2] at h
    exact absurd h (c12b_cross hk h1 (by omega))
  · rw [c12b_slotExp_hi h1, c12b_slotExp_lo h2] at h
    exact absurd h.symm (c12b_cross hk h2 (by omega))
  · rw [c12b_slotExp_hi h1, c12b_slotExp_hi h2] at h
    obtain ⟨_, _, a3⟩ := c12b_pm_facts k (i - 2^k/2)
    obtain ⟨_, _, b3⟩ := c12b_pm_facts k (j - 2^k/2)
    have := c12b_pow_inj hk (a := i - 2^k/2) (b := j - 2^k/2) (by omega) (by omega) (by omega)
    omega

/-! ### the index map -/
theorem c12b_getD_set_eq (a : Array Nat) {i : Nat} (v : Nat) (h : i < a.size) :
    (a.setIfInBounds i v).getD i 0 = v := by
  simp [Array.getD, h]

theorem c12b_getD_set_ne (a : Array Nat) {i j : Nat} (v : Nat) (h : i ≠ j) :
    (a.setIfInBounds i v).getD j 0 = a.getD j 0 := by
  by_cases hj : j < a.size <;> simp [Array.getD, hj, h]

def c12b_step (k : Nat) (acc : Array Nat × Nat) (i : Nat) : Array Nat × Nat :=
  ((acc.1.setIfInBounds i (brev k ((acc.2 - 1)/2))).setIfInBounds (i + 2^k/2) (brev k ((2*2^k - acc.2 - 1)/2)),
    (acc.2 * galoisGenerator) % (2*2^k))

theorem c12b_map_eq (k : Nat) :
    batchIndexMap k = ((List.range (2^k/2)).foldl (c12b_step k) (Array.replicate (2^k) 0, 1)).1 := rfl

theorem c12b_fold_inv (k : Nat) : ∀ j, j ≤ 2^k/2 →
    ((List.range j).foldl (c12b_step k) (Array.replicate (2^k) 0, 1)).1.size = 2^k ∧
    ((List.range j).foldl (c12b_step k) (Array.replicate (2^k) 0, 1)).2 = 3^j % (2*2^k) ∧
    ∀ i, i < j →
      ((List.range j).foldl (c12b_step k) (Array.replicate (2^k) 0, 1)).1.getD i 0
        = brev k ((3^i % (2*2^k) - 1)/2) ∧
      ((List.range j).foldl (c12b_step k) (Array.replicate (2^k) 0, 1)).1.getD (i + 2^k/2) 0
        = brev k ((2*2^k - 3^i % (2*2^k) - 1)/2) := by
  intro j
  induction j with
  | zero =>
    intro _
    refine ⟨by simp, ?_, fun i hi => absurd hi (Nat.not_lt_zero _)⟩
    have := Nat.two_pow_pos k
    simp only [List.range_zero, List.foldl_nil, pow_zero]
    exact (Nat.mod_eq_of_lt (by omega)).symm
  | succ j ih =>
    intro hj
    obtain ⟨h1, h2, h3⟩ := ih (by omega)
    rw [List.range_succ, List.foldl_append, List.foldl_cons, List.foldl_nil]
    generalize (List.range j).foldl (c12b_step k) (Array.replicate (2^k) 0, 1) = r at h1 h2 h3
    have hle : 2^k/2 + 2^k/2 ≤ 2^k := by omega
    refine ⟨by simp [c12b_step, h1], ?_, ?_⟩
    · show (r.2 * 3) % (2*2^k) = _
      rw [h2, pow_succ, Nat.mod_mul_mod]
    · intro i hi
      rcases Nat.lt_or_ge i j with hlt | hge
      · obtain ⟨g1, g2⟩ := h3 i hlt
        constructor
        · show ((r.1.setIfInBounds j _).setIfInBounds (j + 2^k/2) _).getD i 0 = _
          rw [c12b_getD_set_ne _ _ (by omega), c12b_getD_set_ne _ _ (by omega), g1]
        · show ((r.1.setIfInBounds j _).setIfInBounds (j + 2^k/2) _).getD (i + 2^k/2) 0 = _
          rw [c12b_getD_set_ne _ _ (by omega), c12b_getD_set_ne _ _ (by omega), g2]
      · have : i = j := by omega
        subst this
        constructor
        · show ((r.1.setIfInBounds i _).setIfInBounds (i + 2^k/2) _).getD i 0 = _
          rw [c12b_getD_set_ne _ _ (by omega), c12b_getD_set_eq _ _ (by omega), h2]
        · show ((r.1.setIfInBounds i _).setIfInBounds (i + 2^k/2) _).getD (i + 2^k/2) 0 = _
          rw [c12b_getD_set_eq _ _ (by simp; omega), h2]

/-- INDEX MAP: entry i is brev((c12_slotExp i − 1)/2), i.e. the NTT position holding the evaluation at psi^(c12_slotExp i) -/
theorem c12b_batchIndexMap_spec {k i : Nat} (hk : 1 ≤ k) (hi : i < 2^k) :
    (batchIndexMap k).size = 2^k ∧ (batchIndexMap k).getD i 0 = brev k ((c12_slotExp k i - 1) / 2) ∧
    c12_slotExp k i % 2 = 1 ∧ c12_slotExp k i < 2 * 2^k := by
  obtain ⟨f1, _, f3⟩ := c12b_fold_inv k (2^k/2) le_rfl
  rw [← c12b_map_eq] at f1 f3
  obtain ⟨s1, s2⟩ := c12b_slotExp_facts k i
  refine ⟨f1, ?_, s1, s2⟩
  by_cases h : i < 2^k/2
  · rw [(f3 i h).1, c12b_slotExp_lo h]
  · have e2 : 2^k = 2^k/2 + 2^k/2 := by
      obtain ⟨j, rfl⟩ : ∃ j, k = j + 1 := ⟨k - 1, by omega⟩
      rw [pow_succ]; omega
    have := (f3 (i - 2^k/2) (by omega)).2
    rw [Nat.sub_add_cancel (by omega)] at this
    rw [this, c12b_slotExp_hi h]

/-- INDEX MAP (batch form) IS A PERMUTATION of [0, N): range, injective -/
theorem c12b_batchIndexMap_perm {k : Nat} (hk : 1 ≤ k) :
    (∀ i, i < 2^k → (batchIndexMap k).getD i 0 < 2^k) ∧
    (∀ i j, i < 2^k → j < 2^k → (batchIndexMap k).getD i 0 = (batchIndexMap k).getD j 0 → i = j) := by
  refine ⟨fun i hi => ?_, fun i j hi hj h => ?_⟩
  · rw [(c12b_batchIndexMap_spec hk hi).2.1]; exact brev_lt _ _
  · obtain ⟨_, a1, a2, a3⟩ := c12b_batchIndexMap_spec hk hi
    obtain ⟨_, b1, b2, b3⟩ := c12b_batchIndexMap_spec hk hj
    rw [a1, b1] at h
    have h' := brev_inj (k := k) (by omega) (by omega) h
    exact c12_slotExp_injective hk hi hj (by omega)

/-! ### the CKKS index map -/

def c12b_stepOr (k : Nat) (acc : Array Nat × Nat) (i : Nat) : Array Nat × Nat :=
  ((acc.1.setIfInBounds i (brev k ((acc.2 - 1)/2))).setIfInBounds (i ||| 2^k/2) (brev k ((2*2^k - acc.2 - 1)/2)),
    (acc.2 * 3) % (2*2^k))

theorem c12b_indexMap_eq (k : Nat) :
    indexMap k = ((List.range (2^k/2)).foldl (c12b_stepOr k) (Array.replicate (2^k) 0, 1)).1 := rfl

theorem c12b_foldl_congr {α β : Type} (f g : α → β → α) :
    ∀ (l : List β) (acc : α), (∀ i ∈ l, ∀ a, f a i = g a i) → l.foldl f acc = l.foldl g acc := by
  intro l
  induction l with
  | nil => intro _ _; rfl
  | cons x l ih =>
    intro acc h
    rw [List.foldl_cons, List.foldl_cons, h x (by simp), ih _ (fun i hi a => h i (by simp [hi]) a)]

theorem c12b_or_eq_add {k i : Nat} (hk : 1 ≤ k) (hi : i < 2^k/2) : i ||| 2^k/2 = i + 2^k/2 := by
  obtain ⟨j, rfl⟩ : ∃ j, k = j + 1 := ⟨k - 1, by omega⟩
  have e1 : 2^(j+1)/2 = 2^j := by rw [pow_succ]; omega
  rw [e1] at hi ⊢
  have h := Nat.two_pow_add_eq_or_of_lt hi 1
  rw [Nat.mul_one] at h
  rw [Nat.or_comm, Nat.add_comm]
  exact h.symm

/-- the CKKS index map is the batch encoder's (same loop; `i | slots` = `i + slots` for i < slots) -/
theorem indexMap_eq_batch (k : Nat) (hk : 1 ≤ k) : indexMap k = batchIndexMap k := by
  rw [c12b_indexMap_eq, c12b_map_eq]
  congr 1
  apply c12b_foldl_congr
  intro i hi a
  have hi' : i < 2^k/2 := by simpa using hi
  unfold c12b_stepOr c12b_step
  rw [c12b_or_eq_add hk hi']
  rfl

/-- INDEX MAP: entry i is brev((slotExp i − 1)/2), the network position holding the evaluation at psi^(slotExp i) -/
theorem indexMap_spec {k i : Nat} (hk : 1 ≤ k) (hi : i < 2^k) :
    (indexMap k).size = 2^k ∧ (indexMap k).getD i 0 = brev k ((c12_slotExp k i - 1) / 2) ∧
    c12_slotExp k i % 2 = 1 ∧ c12_slotExp k i < 2 * 2^k := by
  rw [indexMap_eq_batch k hk]; exact c12b_batchIndexMap_spec hk hi

/-- the second row holds the conjugate evaluation points -/
theorem c12_slotExp_conj {k i : Nat} (hk : 1 ≤ k) (hi : i < 2^k / 2) :
    c12_slotExp k (i + 2^k / 2) = 2 * 2^k - c12_slotExp k i := by
  have _ := hk
  rw [c12b_slotExp_hi (by omega), c12b_slotExp_lo hi, Nat.add_sub_cancel]

theorem c12b_surj_of_inj (n : Nat) (f : Nat → Nat) (hr : ∀ i, i < n → f i < n)
    (hinj : ∀ i j, i < n → j < n → f i = f j → i = j) : ∀ p, p < n → ∃ i, i < n ∧ f i = p := by
  intro p hp
  let g : Fin n → Fin n := fun i => ⟨f i.1, hr i.1 i.2⟩
  have gi : Function.Injective g := by
    intro a b h
    have : f a.1 = f b.1 := congrArg Fin.val h
    exact Fin.ext (hinj a.1 b.1 a.2 b.2 this)
  obtain ⟨i, hi⟩ := (Finite.injective_iff_surjective.mp gi) ⟨p, hp⟩
  exact ⟨i.1, i.2, congrArg Fin.val hi⟩

/-- INDEX_MAP_PERM: a permutation of [0, N): range, injective, surjective -/
theorem indexMap_perm {k : Nat} (hk : 1 ≤ k) :
    (∀ i, i < 2^k → (indexMap k).getD i 0 < 2^k) ∧
    (∀ i j, i < 2^k → j < 2^k → (indexMap k).getD i 0 = (indexMap k).getD j 0 → i = j) ∧
    (∀ p, p < 2^k → ∃ i, i < 2^k ∧ (indexMap k).getD i 0 = p) := by
  rw [indexMap_eq_batch k hk]
  obtain ⟨h1, h2⟩ := c12b_batchIndexMap_perm hk
  exact ⟨h1, h2, c12b_surj_of_inj _ _ h1 h2⟩

/-- slot i + N/2 sits at the conjugate position of slot i -/
theorem indexMap_conj {k i : Nat} (hk : 1 ≤ k) (hi : i < 2^k / 2) :
    (indexMap k).getD (i + 2^k / 2) 0 = brev k (2^k - 1 - brev k ((indexMap k).getD i 0)) := by
  have e2 : 2^k = 2^k/2 + 2^k/2 := by
    obtain ⟨j, rfl⟩ : ∃ j, k = j + 1 := ⟨k - 1, by omega⟩
    rw [pow_succ]; omega
  obtain ⟨_, a1, a2, a3⟩ := indexMap_spec hk (show i < 2^k by omega)
  obtain ⟨_, b1, _, _⟩ := indexMap_spec hk (show i + 2^k/2 < 2^k by omega)
  rw [b1, a1, brev_brev (by omega), c12_slotExp_conj hk hi]
  congr 1
  omega

/-! ### get_root -/
variable {K : Type} [CommRing K] [StarRing K]

/-- meaning of a selection on ring elements: `mirror z` = (im z, re z) = I · star z;  (−re, im) = −star;  (re, −im) = star -/
def c12_selVal (I : K) (table : Nat → K) (s : RootSel) : K :=
  let w := if s.swap then I * star (table s.idx) else table s.idx
  if s.negRe then (if s.negIm then -w else -(star w)) else (if s.negIm then star w else w)

theorem c12_selVal_conj (I : K) (table : Nat → K) (s : RootSel) : c12_selVal I table s.conj = star (c12_selVal I table s) := by
  rcases s with ⟨idx, sw, nr, ni⟩
  cases sw <;> cases nr <;> cases ni <;> simp [c12_selVal, RootSel.conj]

theorem c12_selVal_neg (I : K) (table : Nat → K) (s : RootSel) : c12_selVal I table s.neg = -(c12_selVal I table s) := by
  rcases s with ⟨idx, sw, nr, ni⟩
  cases sw <;> cases nr <;> cases ni <;> simp [c12_selVal, RootSel.neg]

theorem c12b_conj_idx (s : RootSel) : s.conj.idx = s.idx := rfl
theorem c12b_neg_idx (s : RootSel) : s.neg.idx = s.idx := rfl

theorem c12b_getRootSel_succ (m f index : Nat) : getRootSel m (f+1) index =
    if index % m ≤ m / 8 then .ok ⟨index % m, false, false, false⟩
    else if index % m ≤ m / 4 then .ok ⟨m / 4 - index % m, true, false, false⟩
    else if index % m < m / 2 then (getRootSel m f (m / 2 - index % m)) >>= fun s => pure s.conj.neg
    else if index % m ≤ 3 * m / 4 then (getRootSel m f (index % m - m / 2)) >>= fun s => pure s.neg
    else (getRootSel m f (m - index % m)) >>= fun s => pure s.conj := rfl

/-- ζ^a · (star ζ)^(a−b) = ζ^b for b ≤ a -/
theorem c12b_pow_cancel {ζ : K} (hu : ζ * star ζ = 1) {a b : Nat} (h : b ≤ a) : ζ^a * (star ζ)^(a - b) = ζ^b := by
  obtain ⟨c, rfl⟩ : ∃ c, a = b + c := ⟨a - b, by omega⟩
  rw [Nat.add_sub_cancel_left, pow_add, mul_assoc, ← mul_pow, hu, one_pow, mul_one]

omit [StarRing K] in
theorem c12b_pow_mod {ζ : K} {m : Nat} (h1 : ζ^m = 1) (j : Nat) : ζ^(j % m) = ζ^j := by
  conv_rhs => rw [← Nat.div_add_mod j m]
  rw [pow_add, pow_mul, h1, one_pow, one_mul]

/-- depth 1: arguments ≤ m/4 are answered without recursion -/
theorem c12b_getRoot_low (g : Nat) (ζ I : K) (hI : ζ^(2*g) = I) (hu : ζ * star ζ = 1)
    (f idx : Nat) (hg : 0 < g) (hidx : idx ≤ 2 * g) :
    ∃ s, getRootSel (8*g) (f+1) idx = .ok s ∧ s.idx ≤ g ∧ c12_selVal I (fun i => ζ^i) s = ζ^idx := by
  have hm : idx % (8*g) = idx := Nat.mod_eq_of_lt (by omega)
  rw [c12b_getRootSel_succ, hm]
  by_cases h1 : idx ≤ g
  · rw [if_pos (by omega)]
    exact ⟨_, rfl, h1, by simp [c12_selVal]⟩
  · rw [if_neg (by omega), if_pos (by omega)]
    refine ⟨_, rfl, by show 8*g/4 - idx ≤ g; omega, ?_⟩
    have e : 8*g/4 - idx = 2*g - idx := by omega
    simp only [c12_selVal, if_true, Bool.false_eq_true, if_false]
    rw [e, star_pow, ← hI]
    exact c12b_pow_cancel hu hidx

theorem c12b_getRoot_full (g : Nat) (ζ I : K) (hI : ζ^(2*g) = I) (hI2 : I * I = -1) (hu : ζ * star ζ = 1)
    (f j : Nat) (hg : 0 < g) :
    ∃ s, getRootSel (8*g) (f+2) j = .ok s ∧ s.idx ≤ g ∧ c12_selVal I (fun i => ζ^i) s = ζ^j := by
  have h4 : ζ^(4*g) = -1 := by
    rw [show 4*g = 2*g + 2*g by omega, pow_add, hI, hI2]
  have h8 : ζ^(8*g) = 1 := by
    rw [show 8*g = 4*g + 4*g by omega, pow_add, h4]; simp
  have hlt : j % (8*g) < 8*g := Nat.mod_lt _ (by omega)
  rw [← c12b_pow_mod h8 j]
  rw [c12b_getRootSel_succ]
  generalize j % (8*g) = idx at hlt
  by_cases h2 : idx ≤ 2*g
  · -- branches 1 and 2: as in the depth-1 lemma
    obtain ⟨s, hs, hs1, hs2⟩ := c12b_getRoot_low g ζ I hI hu (f+1) idx hg h2
    rw [c12b_getRootSel_succ, Nat.mod_eq_of_lt hlt] at hs
    by_cases h1 : idx ≤ g
    · rw [if_pos (by omega)] at hs ⊢
      exact ⟨s, hs, hs1, hs2⟩
    · rw [if_neg (by omega), if_pos (by omega)] at hs
      rw [if_neg (by omega), if_pos (by omega)]
      exact ⟨s, hs, hs1, hs2⟩
  · rw [if_neg (by omega), if_neg (by omega)]
    by_cases h3 : idx < 4*g
    · rw [if_pos (by omega)]
      have e : 8*g/2 - idx = 4*g - idx := by omega
      rw [e]
      obtain ⟨s, hs, hs1, hs2⟩ := c12b_getRoot_low g ζ I hI hu f (4*g - idx) hg (by omega)
      refine ⟨s.conj.neg, by rw [hs]; rfl, hs1, ?_⟩
      rw [c12_selVal_neg, c12_selVal_conj, hs2, star_pow, ← c12b_pow_cancel hu (show idx ≤ 4*g by omega), h4]
      simp
    · rw [if_neg (by omega)]
      by_cases h5 : idx ≤ 6*g
      · rw [if_pos (by omega)]
        have e : idx - 8*g/2 = idx - 4*g := by omega
        rw [e]
        obtain ⟨s, hs, hs1, hs2⟩ := c12b_getRoot_low g ζ I hI hu f (idx - 4*g) hg (by omega)
        refine ⟨s.neg, by rw [hs]; rfl, hs1, ?_⟩
        rw [c12_selVal_neg, hs2]
        conv_rhs => rw [show idx = 4*g + (idx - 4*g) by omega, pow_add, h4]
        simp
      · rw [if_neg (by omega)]
        obtain ⟨s, hs, hs1, hs2⟩ := c12b_getRoot_low g ζ I hI hu f (8*g - idx) hg (by omega)
        refine ⟨s.conj, by rw [hs]; rfl, hs1, ?_⟩
        rw [c12_selVal_conj, hs2, star_pow, ← c12b_pow_cancel hu (show idx ≤ 8*g by omega), h8, one_mul]

/-- GET_ROOT_INDEX: for m = 2^t ≥ 8 and EVERY index j (masking included) the reduction succeeds within recursion depth 3,
    uses a stored octant entry (idx ≤ m/8) and, given exact octant values zeta^i, returns zeta^j.
    zeta is any element with zeta^(m/4) = I, I² = −1, zeta·star zeta = 1 (over ℂ: exp(2πi/m)). -/
theorem getRootSel_spec (t : Nat) (ht : 3 ≤ t) (ζ I : K) (hI : ζ^(2^t / 4) = I) (hI2 : I * I = -1) (hu : ζ * star ζ = 1) (j : Nat) :
    ∃ s, getRootSel (2^t) 3 j = .ok s ∧ s.idx ≤ 2^t / 8 ∧ c12_selVal I (fun i => ζ^i) s = ζ^j := by
  obtain ⟨u, rfl⟩ : ∃ u, t = u + 3 := ⟨t - 3, by omega⟩
  have e : 2^(u+3) = 8 * 2^u := by ring
  have hg : 0 < 2^u := Nat.two_pow_pos u
  rw [e] at hI ⊢
  have e4 : 8 * 2^u / 4 = 2 * 2^u := by omega
  have e8 : 8 * 2^u / 8 = 2^u := by omega
  rw [e4] at hI
  rw [e8]
  exact c12b_getRoot_full (2^u) ζ I hI hI2 hu 1 j hg

/-- the tables of `CKKSEncoder::new` are the ones the network theorems ask for (N = 2^k ≥ 4, psi = zeta, m = 2N) -/
theorem rootPowerSel_spec (k : Nat) (hk : 2 ≤ k) (ζ I : K) (hI : ζ^(2 * 2^k / 4) = I) (hI2 : I * I = -1) (hu : ζ * star ζ = 1) (i : Nat) :
    ∃ s, rootPowerSel k i = .ok s ∧ s.idx ≤ 2 * 2^k / 8 ∧ c12_selVal I (fun i => ζ^i) s = ζ^(brev k i) := by
  have e : 2 * 2^k = 2^(k+1) := by ring
  unfold rootPowerSel
  rw [e] at hI ⊢
  exact getRootSel_spec (k+1) (by omega) ζ I hI hI2 hu (brev k i)

theorem invRootPowerSel_spec (k : Nat) (hk : 2 ≤ k) (ζ I : K) (hI : ζ^(2 * 2^k / 4) = I) (hI2 : I * I = -1) (hu : ζ * star ζ = 1) (i : Nat) :
    ∃ s, invRootPowerSel k i = .ok s ∧ s.idx ≤ 2 * 2^k / 8 ∧ c12_selVal I (fun i => ζ^i) s = (star ζ)^(brev k (i - 1) + 1) := by
  have e : 2 * 2^k = 2^(k+1) := by ring
  unfold invRootPowerSel
  rw [e] at hI ⊢
  obtain ⟨s, hs, hs1, hs2⟩ := getRootSel_spec (k+1) (by omega) ζ I hI hI2 hu (brev k (i - 1) + 1)
  refine ⟨s.conj, by rw [hs]; rfl, hs1, ?_⟩
  rw [c12_selVal_conj, hs2, star_pow]

/-- non-vacuity: m = 8, j = 3 is −conj(get_root(1)): stored entry 1, re negated -/
example : getRootSel 8 3 3 = .ok ⟨1, false, true, false⟩ := by decide

end HC
