/- C07 (noise budget laws) and C05 (modulus-switch message preservation): integer lemmas.
   `Spec.budget bfv t Q ph = (bits Q − bits ‖ν‖∞ − 1).toNat` with ν_c = centred([t·x_c]_Q) (BFV) resp. x_c (BGV), see
   Heathcliff/Spec/Scheme.lean; `bitCount v = 0 if v = 0 else log2 v + 1`. -/
import Heathcliff.Spec.Scheme
import Mathlib.Data.Int.ModEq
import Mathlib.Data.Nat.Log
import Mathlib.Tactic.Ring
import Mathlib.Tactic.Linarith
import Mathlib.Tactic.Positivity
import Mathlib.Tactic.LinearCombination
namespace HC

/-- bit count is monotone and characterised by powers of two -/
theorem bitCount_le_iff (v k : Nat) : bitCount v ≤ k ↔ v < 2^k := by
  unfold bitCount
  split
  · rename_i h; subst h; simp
  · rename_i h
    rw [Nat.succ_le_iff]
    exact Nat.log2_lt h
theorem bitCount_mono {a b : Nat} (h : a ≤ b) : bitCount a ≤ bitCount b := by
  rw [bitCount_le_iff]
  exact Nat.lt_of_le_of_lt h ((bitCount_le_iff b _).1 (Nat.le_refl _))

/-- the infinity norm the budget is computed from -/
def noiseNorm (bfv : Bool) (t Q : Nat) (ph : Array Int) : Nat :=
  ph.foldl (fun acc x =>
      let v := if bfv then Spec.centred (Spec.imod (t * x) Q) Q else x
      max acc v.natAbs) 0

theorem budget_eq (bfv : Bool) (t Q : Nat) (ph : Array Int) :
    Spec.budget bfv t Q ph = ((bitCount Q : Int) - (bitCount (noiseNorm bfv t Q ph) : Int) - 1).toNat := rfl

theorem c07l_imod_lt {Q : Nat} (hQ : 0 < Q) (x : Int) : Spec.imod x Q < Q := by
  unfold Spec.imod
  have h1 : 0 ≤ x % (Q : Int) := Int.emod_nonneg _ (by omega)
  have h2 : x % (Q : Int) < Q := Int.emod_lt_of_pos _ (by omega)
  omega

theorem c07l_imod_cast {Q : Nat} (hQ : 0 < Q) (x : Int) : ((Spec.imod x Q : Nat) : Int) = x % (Q : Int) := by
  unfold Spec.imod
  exact Int.toNat_of_nonneg (Int.emod_nonneg _ (by omega))

theorem c07l_imod_neg {Q : Nat} (hQ : 0 < Q) (x : Int) :
    Spec.imod (-x) Q = if Spec.imod x Q = 0 then 0 else Q - Spec.imod x Q := by
  have hlt := c07l_imod_lt hQ x
  have hc := c07l_imod_cast hQ x
  have hcn := c07l_imod_cast hQ (-x)
  have hltn := c07l_imod_lt hQ (-x)
  split
  · rename_i h0
    rw [h0] at hc
    have : (-x) % (Q : Int) = 0 := by
      have hd : (Q : Int) ∣ x := Int.dvd_of_emod_eq_zero hc.symm
      exact Int.emod_eq_zero_of_dvd ((Int.dvd_neg).2 hd)
    rw [this] at hcn
    exact_mod_cast hcn
  · rename_i h0
    have hx : -x = ((Q : Int) - (Spec.imod x Q : Nat)) + (Q : Int) * (-(x / (Q : Int)) - 1) := by
      have := Int.mul_ediv_add_emod x (Q : Int)
      rw [hc]; linarith
    have : (-x) % (Q : Int) = (Q : Int) - (Spec.imod x Q : Nat) := by
      rw [hx, Int.add_mul_emod_self_left]
      apply Int.emod_eq_of_lt <;> omega
    rw [this] at hcn
    omega

/-- centred lift is odd for odd moduli (coefficient moduli are odd primes) -/
theorem centred_neg {Q : Nat} (hQ : Q % 2 = 1) (x : Int) :
    Spec.centred (Spec.imod (-x) Q) Q = - Spec.centred (Spec.imod x Q) Q := by
  have hQ0 : 0 < Q := by omega
  have hlt := c07l_imod_lt hQ0 x
  rw [c07l_imod_neg hQ0]
  generalize Spec.imod x Q = r at *
  unfold Spec.centred
  split
  · rename_i h0; subst h0; simp
  · rename_i h0
    rw [Nat.mod_eq_of_lt hlt, Nat.mod_eq_of_lt (by omega : Q - r < Q)]
    split_ifs <;> omega

theorem c07l_noiseNorm_map_neg (bfv : Bool) {t Q : Nat} (hQ : Q % 2 = 1) (ph : Array Int) :
    noiseNorm bfv t Q (ph.map (fun x => -x)) = noiseNorm bfv t Q ph := by
  unfold noiseNorm
  rw [Array.foldl_map]
  congr 1
  funext acc x
  cases bfv
  · simp
  · simp only [if_true]
    rw [mul_neg, centred_neg hQ, Int.natAbs_neg]

/-- NEGATION preserves the budget exactly (Q odd) -/
theorem budget_negate (bfv : Bool) {t Q : Nat} (hQ : Q % 2 = 1) (ph : Array Int) :
    Spec.budget bfv t Q (ph.map (fun x => -x)) = Spec.budget bfv t Q ph := by
  rw [budget_eq, budget_eq, c07l_noiseNorm_map_neg bfv hQ]

theorem c07l_imod_add {Q : Nat} (hQ : 0 < Q) (x y : Int) :
    Spec.imod (x + y) Q = (Spec.imod x Q + Spec.imod y Q) % Q := by
  have h := c07l_imod_cast hQ (x + y)
  rw [Int.add_emod, ← c07l_imod_cast hQ x, ← c07l_imod_cast hQ y] at h
  exact_mod_cast h

/-- triangle inequality for the centred reduction -/
theorem centred_add_le {Q : Nat} (hQ : 0 < Q) (x y : Int) :
    (Spec.centred (Spec.imod (x + y) Q) Q).natAbs ≤ (Spec.centred (Spec.imod x Q) Q).natAbs + (Spec.centred (Spec.imod y Q) Q).natAbs := by
  rw [c07l_imod_add hQ]
  have hx := c07l_imod_lt hQ x
  have hy := c07l_imod_lt hQ y
  generalize Spec.imod x Q = a at *
  generalize Spec.imod y Q = b at *
  unfold Spec.centred
  rw [Nat.mod_mod, Nat.mod_eq_of_lt hx, Nat.mod_eq_of_lt hy]
  by_cases hab : a + b < Q
  · rw [Nat.mod_eq_of_lt hab]
    split_ifs <;> omega
  · have : (a + b) % Q = a + b - Q := by
      rw [Nat.mod_eq_sub_mod (by omega), Nat.mod_eq_of_lt (by omega)]
    rw [this]
    split_ifs <;> omega


/-- per-coefficient noise value -/
def c07l_v (bfv : Bool) (t Q : Nat) (x : Int) : Int :=
  if bfv then Spec.centred (Spec.imod (t * x) Q) Q else x

theorem c07l_noiseNorm_list (bfv : Bool) (t Q : Nat) (ph : Array Int) :
    noiseNorm bfv t Q ph = ph.toList.foldl (fun acc x => max acc (c07l_v bfv t Q x).natAbs) 0 := by
  unfold noiseNorm c07l_v
  rw [Array.foldl_toList]

theorem c07l_foldl_max_le_iff {α : Type} (g : α → Nat) (l : List α) (a c : Nat) :
    l.foldl (fun acc x => max acc (g x)) a ≤ c ↔ a ≤ c ∧ ∀ x ∈ l, g x ≤ c := by
  induction l generalizing a with
  | nil => simp
  | cons y l ih =>
    rw [List.foldl_cons, ih]
    simp only [List.mem_cons, forall_eq_or_imp, Nat.max_le]
    tauto

theorem c07l_noiseNorm_le_iff (bfv : Bool) (t Q : Nat) (ph : Array Int) (c : Nat) :
    noiseNorm bfv t Q ph ≤ c ↔ ∀ x ∈ ph.toList, (c07l_v bfv t Q x).natAbs ≤ c := by
  rw [c07l_noiseNorm_list, c07l_foldl_max_le_iff]
  simp

theorem c07l_v_zero (bfv : Bool) (t Q : Nat) : c07l_v bfv t Q 0 = 0 := by
  unfold c07l_v
  cases bfv
  · simp
  · simp [Spec.imod, Spec.centred]

theorem c07l_v_add (bfv : Bool) {t Q : Nat} (hQ : 0 < Q) (x y : Int) :
    (c07l_v bfv t Q (x + y)).natAbs ≤ (c07l_v bfv t Q x).natAbs + (c07l_v bfv t Q y).natAbs := by
  unfold c07l_v
  cases bfv
  · simpa using Int.natAbs_add_le x y
  · simp only [if_true]
    rw [mul_add]
    exact centred_add_le hQ _ _

theorem c07l_v_sum_le (bfv : Bool) {t Q : Nat} (hQ : 0 < Q) {α : Type} (f : α → Int) (c : Nat) (l : List α)
    (h : ∀ a ∈ l, (c07l_v bfv t Q (f a)).natAbs ≤ c) :
    (c07l_v bfv t Q ((l.map f).sum)).natAbs ≤ l.length * c := by
  induction l with
  | nil => simp [c07l_v_zero]
  | cons a l ih =>
    rw [List.map_cons, List.sum_cons, List.length_cons]
    have h1 := c07l_v_add bfv (t := t) hQ (f a) ((l.map f).sum)
    have h2 := h a (List.mem_cons_self ..)
    have h3 := ih (fun b hb => h b (List.mem_cons_of_mem _ hb))
    have : (l.length + 1) * c = l.length * c + c := by ring
    omega

theorem c07l_getD_le (bfv : Bool) (t Q : Nat) (ph : Array Int) (j : Nat) :
    (c07l_v bfv t Q (ph.getD j 0)).natAbs ≤ noiseNorm bfv t Q ph := by
  by_cases hj : j < ph.size
  · have hmem : ph.getD j 0 ∈ ph.toList := by
      simp [Array.getD, hj]
    exact (c07l_noiseNorm_le_iff bfv t Q ph _).1 (Nat.le_refl _) _ hmem
  · have : ph.getD j 0 = 0 := by simp [Array.getD, hj]
    rw [this, c07l_v_zero]; simp

/-- the noise norm of a coefficient-wise sum of k phases is at most k times any common bound of the operands' norms -/
theorem c07l_noiseNorm_sum_le (bfv : Bool) {t Q n : Nat} (hQ : 0 < Q) (phs : List (Array Int)) (c : Nat)
    (hc : ∀ ph ∈ phs, noiseNorm bfv t Q ph ≤ c) :
    noiseNorm bfv t Q (Array.ofFn (n := n) fun j => (phs.map (fun ph => ph.getD j.val 0)).sum) ≤ phs.length * c := by
  rw [c07l_noiseNorm_le_iff]
  intro x hx
  rw [Array.toList_ofFn, List.mem_ofFn] at hx
  obtain ⟨j, rfl⟩ := hx
  apply c07l_v_sum_le bfv hQ
  intro ph hph
  exact Nat.le_trans (c07l_getD_le bfv t Q ph j.val) (hc ph hph)

/-- the sharp form: the budget drops by at most ⌈log2 k⌉ (no extra bit, and no size hypothesis needed) -/
theorem c07l_budget_add_k_sharp (bfv : Bool) {t Q n : Nat} (hQ : 0 < Q) (phs : List (Array Int)) (hk : phs ≠ [])
    (b : Nat) (hb : ∀ ph ∈ phs, b ≤ Spec.budget bfv t Q ph) :
    b ≤ Spec.budget bfv t Q (Array.ofFn (n := n) fun j => (phs.map (fun ph => ph.getD j.val 0)).sum)
          + Nat.clog 2 phs.length := by
  rcases Nat.eq_zero_or_pos b with hb0 | hb0
  · omega
  have hop : ∀ ph ∈ phs, noiseNorm bfv t Q ph ≤ 2 ^ (bitCount Q - 1 - b) - 1 := by
    intro ph hph
    have h1 := hb ph hph
    rw [budget_eq] at h1
    have h2 : bitCount (noiseNorm bfv t Q ph) ≤ bitCount Q - 1 - b := by omega
    have h3 := (bitCount_le_iff _ _).1 h2
    omega
  have hbQ : b ≤ bitCount Q - 1 := by
    obtain ⟨ph, hph⟩ := List.exists_mem_of_ne_nil phs hk
    have h1 := hb ph hph
    rw [budget_eq] at h1
    omega
  have hs := c07l_noiseNorm_sum_le bfv (t := t) (n := n) hQ phs _ hop
  have hlen : 0 < phs.length := List.length_pos_iff.2 hk
  have hclog : phs.length ≤ 2 ^ Nat.clog 2 phs.length := Nat.le_pow_clog (by omega) _
  have hpos : 0 < 2 ^ (bitCount Q - 1 - b) := Nat.two_pow_pos _
  have hlt : noiseNorm bfv t Q (Array.ofFn (n := n) fun j => (phs.map (fun ph => ph.getD j.val 0)).sum)
      < 2 ^ (bitCount Q - 1 - b + Nat.clog 2 phs.length) := by
    calc _ ≤ phs.length * (2 ^ (bitCount Q - 1 - b) - 1) := hs
      _ < phs.length * 2 ^ (bitCount Q - 1 - b) := Nat.mul_lt_mul_of_pos_left (by omega) hlen
      _ ≤ 2 ^ Nat.clog 2 phs.length * 2 ^ (bitCount Q - 1 - b) := Nat.mul_le_mul_right _ hclog
      _ = 2 ^ (bitCount Q - 1 - b + Nat.clog 2 phs.length) := by rw [Nat.pow_add, Nat.mul_comm]
  have hbits := (bitCount_le_iff _ _).2 hlt
  rw [budget_eq]
  omega

/-- SUM OF k CIPHERTEXTS: the noise norm of a coefficient-wise sum of k phases is at most k times the largest norm,
    hence the budget drops by at most ⌈log2 k⌉ (the property allows one more bit) -/
theorem budget_add_k (bfv : Bool) {t Q n : Nat} (hQ : 0 < Q) (phs : List (Array Int)) (hk : phs ≠ [])
    (hn : ∀ ph ∈ phs, ph.size = n) (b : Nat) (hb : ∀ ph ∈ phs, b ≤ Spec.budget bfv t Q ph) :
    let sum : Array Int := Array.ofFn (n := n) fun j => (phs.map (fun ph => ph.getD j.val 0)).sum
    b ≤ Spec.budget bfv t Q sum + Nat.clog 2 phs.length + 1 := by
  intro sum
  exact Nat.le_succ_of_le (c07l_budget_add_k_sharp bfv (t := t) (n := n) hQ phs hk b hb)

/-- EXACTNESS BELOW THE THRESHOLD (BFV): if t·x = Q·m' + ν with 2|ν| < Q then rounding t·x/Q gives m' -/
theorem exact_below_threshold {t Q : Nat} (hQ : 0 < Q) {x m' ν : Int} (h : t * x = Q * m' + ν) (hν : 2 * ν.natAbs < Q) :
    Spec.roundDiv (t * x) Q = m' := by
  unfold Spec.roundDiv
  rw [h]
  have e : 2 * ((Q : Int) * m' + ν) + Q = (2 * ν + Q) + 2 * (Q : Int) * m' := by ring
  rw [e, Int.add_mul_ediv_left _ _ (by omega : (2 * (Q : Int)) ≠ 0)]
  have : (2 * ν + Q) / (2 * (Q : Int)) = 0 := by
    apply Int.ediv_eq_zero_of_lt <;> omega
  omega

/-! ### C05: switching down preserves the message -/

/-- BFV: dividing the phase by q_L with rounding keeps round(t·x/Q): if t·x = Q·m + ν with Q = Q'·q_L and
    x' = (x + δ)/q_L·… precisely x' = x/q_L + ε with 2|ε|·… we state it on integers: x = q_L·x' + ρ, |ρ| ≤ q_L·E
    (E bounds the accumulated rounding of the ciphertext polynomials), then t·x' = Q'·m + ν' with |ν'| ≤ |ν|/q_L + t·E + 1 -/
theorem bfv_switch_noise {t Q' qL : Nat} (hq : 0 < qL) {x x' m ν ρ : Int} {E : Nat}
    (h : t * x = (Q' * qL : Nat) * m + ν) (hx : x = qL * x' + ρ) (hρ : ρ.natAbs ≤ qL * E) :
    ∃ ν' : Int, t * x' = Q' * m + ν' ∧ ν'.natAbs * qL ≤ ν.natAbs + t * qL * E := by
  refine ⟨t * x' - Q' * m, by ring, ?_⟩
  have key : (t * x' - Q' * m) * (qL : Int) = ν - t * ρ := by
    rw [hx] at h
    push_cast at h
    linear_combination h
  have h1 : (t * x' - Q' * m).natAbs * qL = (ν - t * ρ).natAbs := by
    rw [← key, Int.natAbs_mul, Int.natAbs_natCast]
  rw [h1]
  have h2 : (ν - (t : Int) * ρ).natAbs ≤ ν.natAbs + ((t : Int) * ρ).natAbs := Int.natAbs_sub_le _ _
  have h3 : ((t : Int) * ρ).natAbs = t * ρ.natAbs := by rw [Int.natAbs_mul, Int.natAbs_natCast]
  have h4 : t * ρ.natAbs ≤ t * (qL * E) := Nat.mul_le_mul_left _ hρ
  have h5 : t * (qL * E) = t * qL * E := by ring
  omega

/-- hence the decrypted message is unchanged as long as the new noise is below the new threshold -/
theorem bfv_switch_message {t Q' qL : Nat} (hq : 0 < qL) (hQ' : 0 < Q') {x x' m ν ρ : Int} {E : Nat}
    (h : t * x = (Q' * qL : Nat) * m + ν) (hx : x = qL * x' + ρ) (hρ : ρ.natAbs ≤ qL * E)
    (hsmall : 2 * (ν.natAbs + t * qL * E) < Q' * qL) :
    Spec.roundDiv (t * x') Q' = m := by
  obtain ⟨ν', h1, h2⟩ := bfv_switch_noise hq h hx hρ
  apply exact_below_threshold hQ' h1
  have : 2 * ν'.natAbs * qL < Q' * qL := by
    have : 2 * ν'.natAbs * qL = 2 * (ν'.natAbs * qL) := by ring
    omega
  exact Nat.lt_of_mul_lt_mul_right this

/-- BGV: x' = (x + δ)/q_L with δ ≡ −x (mod q_L), δ ≡ 0 (mod t) gives x' ≡ q_L^{-1}·x (mod t); with the new correction
    factor f' = f·q_L^{-1} the decoded message f'^{-1}·x' ≡ f^{-1}·x is unchanged -/
theorem bgv_switch_message {t qL : Nat} {x x' δ f f' m iq : Int}
    (hδt : δ ≡ 0 [ZMOD t]) (hdiv : x + δ = qL * x') (hiq : iq * qL ≡ 1 [ZMOD t])
    (hf' : f' ≡ f * iq [ZMOD t]) (hm : x ≡ f * m [ZMOD t]) :
    x' ≡ f' * m [ZMOD t] := by
  have h1 : (qL : Int) * x' ≡ f * m [ZMOD t] := by
    rw [← hdiv]
    simpa using hm.add hδt
  have h2 : iq * ((qL : Int) * x') ≡ iq * (f * m) [ZMOD t] := h1.mul_left iq
  have h3 : iq * ((qL : Int) * x') ≡ x' [ZMOD t] := by
    have := hiq.mul_right x'
    rw [one_mul] at this
    rw [← mul_assoc]; exact this
  have h4 : f' * m ≡ iq * (f * m) [ZMOD t] := by
    have := hf'.mul_right m
    have e : f * iq * m = iq * (f * m) := by ring
    rw [e] at this; exact this
  exact h3.symm.trans (h2.trans h4.symm)

/-- CKKS drop: the residues are a prefix, so the phase is the same integer polynomial modulo the smaller product -/
theorem ckks_drop_phase {Q' qL : Nat} (x : Int) : (x % ((Q' * qL : Nat) : Int)) % (Q' : Int) = x % (Q' : Int) := by
  apply Int.emod_emod_of_dvd
  push_cast
  exact Dvd.intro _ rfl

/-- CKKS rescale: |x' − x/q_L| ≤ E when x = q_L·x' + ρ, |ρ| ≤ q_L·E (exact integers) -/
theorem ckks_rescale_error {qL : Nat} (hq : 0 < qL) {x x' ρ : Int} {E : Nat} (hx : x = qL * x' + ρ) (hρ : ρ.natAbs ≤ qL * E) :
    (x' * qL - x).natAbs ≤ qL * E := by
  have : x' * qL - x = -ρ := by rw [hx]; ring
  rw [this, Int.natAbs_neg]; exact hρ

end HC
