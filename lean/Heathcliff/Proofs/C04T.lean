import Heathcliff.Model.KeySwitch
import Heathcliff.Proofs.C01O
import Heathcliff.Proofs.C04M
import Mathlib.Tactic.Ring
import Mathlib.Tactic.Linarith
import Mathlib.Tactic.IntervalCases
namespace HC
open Finset

/-! ## Well-formed key level -/

/-- key level whose NTT tables are the well-formed tables of its moduli, all of degree `n` -/
structure KeyLevel.WF (kl : KeyLevel) : Prop where
  tsize : kl.tables.size = kl.ms.size
  twf : ∀ i, i < kl.ms.size → (kl.tb i).WF ∧ (kl.tb i).modulus = kl.m i ∧ 2^(kl.tb i).k = kl.n

theorem c04t_kl_comp {kl : KeyLevel} (hkl : kl.WF) {i : Nat} (hi : i < kl.ms.size) :
    (kl.tb i).WF ∧ (kl.tb i).modulus.value = (kl.m i).value ∧ 2^(kl.tb i).k = kl.n ∧ (kl.m i).WF := by
  obtain ⟨h1, h2, h3⟩ := hkl.twf i hi
  exact ⟨h1, by rw [h2], h3, h2 ▸ h1.mwf⟩

/-! ## small helpers -/

theorem c04t_list_getD_rangeMap {β : Type} (n : Nat) (F : Nat → β) (d : β) {j : Nat} (hj : j < n) :
    ((List.range n).map F).getD j d = F j := by
  simp [List.getD, hj]

theorem c04t_foldl_sum (f : Nat → Nat) (n : Nat) :
    (List.range n).foldl (fun tot j => tot + f j) 0 = ∑ j ∈ range n, f j := by
  induction n with
  | zero => simp
  | succ n ih => rw [List.range_succ, List.foldl_append, ih, Finset.sum_range_succ]; rfl

theorem c04t_map_mod_id {a : Array Nat} {q n : Nat} (hs : a.size = n) (h : ∀ l, l < n → a.getD l 0 < q) :
    a.map (fun x => x % q) = a := by
  apply array_ext_getD (n := n) (by simp [hs]) hs
  intro l hl
  rw [c10i_getD_map_lt _ _ (by omega), Nat.mod_eq_of_lt (h l hl)]

/-- `negMulNat` only sees the first factor modulo q -/
theorem c04t_negMulNat_congr {q : Nat} (hq : 0 < q) (n : Nat) {a a' : Array Nat} (b : Array Nat) (c : Nat)
    (h : ∀ p, p < n → a.getD p 0 % q = a'.getD p 0 % q) :
    negMulNat n q a b c = negMulNat n q a' b c := by
  obtain ⟨l1, e1⟩ := negMulNat_cast hq n a b c
  obtain ⟨l2, e2⟩ := negMulNat_cast hq n a' b c
  apply cast_inj_lt l1 l2
  rw [e1, e2]
  unfold negMulR
  apply Finset.sum_congr rfl
  intro i hi
  have : ((a.getD i 0 : Nat) : ZMod q) = ((a'.getD i 0 : Nat) : ZMod q) :=
    (ZMod.natCast_eq_natCast_iff' _ _ _).mpr (h i (mem_range.mp hi))
  simp only [this]

/-- `intt` of the zero vector is zero -/
theorem c04t_intt_zero {t : NTTTables} (hw : t.WF) {z : Array Nat} (hz : z.size = 2^t.k)
    (hz0 : ∀ j, j < 2^t.k → z.getD j 0 = 0) : ∀ j, j < 2^t.k → (intt t z).getD j 0 = 0 := by
  have hq2 := hw.mwf.two_le
  intro j hj
  have hlt : ∀ j, j < 2^t.k → z.getD j 0 < t.modulus.value := fun j hj => by rw [hz0 j hj]; omega
  have h := c01o_intt_add hw hz hz hz hlt hlt (fun j hj => by rw [hz0 j hj]; simp) j hj
  obtain ⟨_, a2⟩ := intt_sim hw z hz (fun j hj => by have := hlt j hj; omega)
  have hl := (a2 j hj).1
  generalize (intt t z).getD j 0 = a at *
  by_cases h2 : a + a < t.modulus.value
  · rw [Nat.mod_eq_of_lt h2] at h; omega
  · rw [Nat.mod_eq_sub_mod (by omega), Nat.mod_eq_of_lt (by omega)] at h; omega

/-! ## T1: `ksAccumulate` -/

/-- the key-level modulus index used for RNS index `i` (index `dsz` = special prime) -/
def c04t_keyIndex (kl : KeyLevel) (dsz i : Nat) : Nat := if i = dsz then kl.ms.size - 1 else i

/-- operand `j` of `ksAccumulate` (monadic, as in the model) -/
def c04t_opM (kl : KeyLevel) (dsz : Nat) (isNtt : Bool) (target targetCoef : RnsPoly) (i j : Nat) : R Poly :=
  if isNtt ∧ i = j then pure (target.getD j #[])
  else do
    let src := targetCoef.getD j #[]
    let red ← if (kl.m j).value ≤ (kl.m (c04t_keyIndex kl dsz i)).value then pure src
      else mapM' src (fun x => barrett64 x (kl.m (c04t_keyIndex kl dsz i)))
    pure (nttLazy (kl.tb (c04t_keyIndex kl dsz i)) red)

/-- operand `j` as a value -/
def c04t_op (kl : KeyLevel) (dsz : Nat) (isNtt : Bool) (target targetCoef : RnsPoly) (i j : Nat) : Poly :=
  if isNtt ∧ i = j then target.getD j #[]
  else nttLazy (kl.tb (c04t_keyIndex kl dsz i))
    ((targetCoef.getD j #[]).map fun x => x % (kl.m (c04t_keyIndex kl dsz i)).value)

/-- the exact accumulated sum at slot `l` -/
def c04t_accSum (dsz : Nat) (ops : List Poly) (key : KSKey) (keyIndex k l : Nat) : Nat :=
  (List.range dsz).foldl (fun tot j =>
    tot + (ops.getD j #[]).getD l 0 * (((key.getD j #[]).getD k #[]).getD keyIndex #[]).getD l 0) 0

theorem c04t_ksAccumulate_eq (kl : KeyLevel) (dsz : Nat) (isNtt : Bool) (target targetCoef : RnsPoly) (key : KSKey)
    (i kcc : Nat) :
    ksAccumulate kl dsz isNtt target targetCoef key i kcc = (do
      let ops ← (List.range dsz).mapM (c04t_opM kl dsz isNtt target targetCoef i)
      (List.range kcc).mapM fun k =>
        (List.range kl.n).foldlM (fun (acc : Array Nat) l =>
          if c04t_accSum dsz ops key (c04t_keyIndex kl dsz i) k l ≥ 2^128 then .error .overflow else do
          let r ← barrett128 (c04t_accSum dsz ops key (c04t_keyIndex kl dsz i) k l % B64)
            (c04t_accSum dsz ops key (c04t_keyIndex kl dsz i) k l / B64) (kl.m (c04t_keyIndex kl dsz i))
          pure (acc.push r)) #[]) := rfl

/-- canonical coefficient/NTT data over the first `dsz` key-level moduli -/
def c04t_Canon (kl : KeyLevel) (dsz : Nat) (p : RnsPoly) : Prop :=
  ∀ j, j < dsz → (p.getD j #[]).size = kl.n ∧ ∀ l, l < kl.n → (p.getD j #[]).getD l 0 < (kl.m j).value

theorem c04t_keyIndex_lt {kl : KeyLevel} {dsz i : Nat} (hd : dsz + 1 ≤ kl.ms.size) (hi : i ≤ dsz) :
    c04t_keyIndex kl dsz i < kl.ms.size := by
  unfold c04t_keyIndex; split <;> omega

theorem c04t_map_mod_id' {a : Array Nat} {q : Nat} (h : ∀ x ∈ a, x < q) : a.map (fun x => x % q) = a := by
  apply Array.ext (by simp)
  intro i h1 h2
  simp only [Array.getElem_map]
  exact Nat.mod_eq_of_lt (h _ (Array.getElem_mem _))

theorem c04t_opM_ok {kl : KeyLevel} (hkl : kl.WF) {dsz : Nat} (hd : dsz + 1 ≤ kl.ms.size) (isNtt : Bool)
    (target : RnsPoly) {targetCoef : RnsPoly} (hc : c04t_Canon kl dsz targetCoef) {i : Nat} (hi : i ≤ dsz)
    {j : Nat} (hj : j < dsz) :
    c04t_opM kl dsz isNtt target targetCoef i j = .ok (c04t_op kl dsz isNtt target targetCoef i j) := by
  unfold c04t_opM c04t_op
  by_cases h1 : isNtt = true ∧ i = j
  · rw [if_pos h1, if_pos h1]; rfl
  · rw [if_neg h1, if_neg h1]
    obtain ⟨_, _, _, hmw⟩ := c04t_kl_comp hkl (c04t_keyIndex_lt hd hi)
    obtain ⟨_, _, _, hjw⟩ := c04t_kl_comp hkl (show j < kl.ms.size by omega)
    have hlt : ∀ x ∈ targetCoef.getD j #[], x < (kl.m j).value :=
      mem_lt_of_getD (fun l hl => (hc j hj).2 l (by rw [← (hc j hj).1]; exact hl))
    by_cases h2 : (kl.m j).value ≤ (kl.m (c04t_keyIndex kl dsz i)).value
    · rw [if_pos h2]
      rw [c04t_map_mod_id' (fun x hx => Nat.lt_of_lt_of_le (hlt x hx) h2)]
      rfl
    · rw [if_neg h2]
      rw [mapM'_ok (fun x => x % (kl.m (c04t_keyIndex kl dsz i)).value) (fun x hx => by
        apply barrett64_exact hmw
        have := hlt x hx; have := hjw.lt; omega)]
      rfl

theorem c04t_keyIndex_of_lt (kl : KeyLevel) {dsz i : Nat} (hi : i < dsz) : c04t_keyIndex kl dsz i = i := by
  unfold c04t_keyIndex; rw [if_neg (by omega)]

/-- operand facts: size, lazy range, and value modulo q = NTT of the reduced digit -/
theorem c04t_op_facts {kl : KeyLevel} (hkl : kl.WF) {dsz : Nat} (hd : dsz + 1 ≤ kl.ms.size) {isNtt : Bool}
    {target targetCoef : RnsPoly} (hc : c04t_Canon kl dsz targetCoef)
    (hT : isNtt = true → c04t_Canon kl dsz target ∧
      ∀ j, j < dsz → targetCoef.getD j #[] = intt (kl.tb j) (target.getD j #[]))
    {i : Nat} (hi : i ≤ dsz) {j : Nat} (hj : j < dsz) :
    (c04t_op kl dsz isNtt target targetCoef i j).size = kl.n ∧ ∀ l, l < kl.n →
      (c04t_op kl dsz isNtt target targetCoef i j).getD l 0 < 4 * (kl.m (c04t_keyIndex kl dsz i)).value ∧
      (c04t_op kl dsz isNtt target targetCoef i j).getD l 0 % (kl.m (c04t_keyIndex kl dsz i)).value =
        (ntt (kl.tb (c04t_keyIndex kl dsz i))
          ((targetCoef.getD j #[]).map fun x => x % (kl.m (c04t_keyIndex kl dsz i)).value)).getD l 0 := by
  obtain ⟨htw, htm, htn, hmw⟩ := c04t_kl_comp hkl (c04t_keyIndex_lt hd hi)
  have hq2 := hmw.two_le
  unfold c04t_op
  by_cases h1 : isNtt = true ∧ i = j
  · rw [if_pos h1]
    obtain ⟨hn, rfl⟩ := h1
    obtain ⟨hTc, hTe⟩ := hT hn
    have hki := c04t_keyIndex_of_lt kl hj
    rw [hki] at htw htm htn hmw hq2 ⊢
    refine ⟨(hTc i hj).1, fun l hl => ⟨by have := (hTc i hj).2 l hl; omega, ?_⟩⟩
    rw [c04t_map_mod_id (hc i hj).1 (hc i hj).2, hTe i hj,
      ntt_intt htw _ (by rw [(hTc i hj).1, htn]) (fun l hl => by rw [htm]; exact (hTc i hj).2 l (by omega)),
      Nat.mod_eq_of_lt ((hTc i hj).2 l hl)]
  · rw [if_neg h1]
    generalize hred : (targetCoef.getD j #[]).map (fun x => x % (kl.m (c04t_keyIndex kl dsz i)).value) = red
    have hrs : red.size = 2^(kl.tb (c04t_keyIndex kl dsz i)).k := by rw [← hred, htn, Array.size_map]; exact (hc j hj).1
    have hrl : ∀ l, l < 2^(kl.tb (c04t_keyIndex kl dsz i)).k →
        red.getD l 0 < 4 * (kl.tb (c04t_keyIndex kl dsz i)).modulus.value := by
      intro l hl
      rw [← hred, c10i_getD_map_lt _ _ (by rw [(hc j hj).1, ← htn]; exact hl), htm]
      have := Nat.mod_lt ((targetCoef.getD j #[]).getD l 0) (show 0 < (kl.m (c04t_keyIndex kl dsz i)).value by omega)
      omega
    obtain ⟨e1, e2⟩ := nttLazy_sim htw red hrs hrl
    obtain ⟨f1, f2⟩ := ntt_sim htw red hrs hrl
    rw [← htn, ← htm]
    exact ⟨e1, fun l hl => ⟨(e2 l hl).1, ((f2 l hl).1).symm⟩⟩

/-- `intt` of a pointwise sum (mod q) of canonical vectors is the sum (mod q) of the `intt`s -/
theorem c04t_intt_sum {t : NTTTables} (hw : t.WF) (d : Nat → Array Nat) (m : Nat)
    (hds : ∀ j, j < m → (d j).size = 2^t.k)
    (hdl : ∀ j, j < m → ∀ l, l < 2^t.k → (d j).getD l 0 < t.modulus.value) :
    ∀ r : Array Nat, r.size = 2^t.k →
      (∀ l, l < 2^t.k → r.getD l 0 = (∑ j ∈ range m, (d j).getD l 0) % t.modulus.value) →
      ∀ c, c < 2^t.k → (intt t r).getD c 0 = (∑ j ∈ range m, (intt t (d j)).getD c 0) % t.modulus.value := by
  have hq2 := hw.mwf.two_le
  induction m with
  | zero =>
    intro r hr hrv c hc
    rw [c04t_intt_zero hw hr (fun l hl => by rw [hrv l hl]; simp) c hc]; simp
  | succ m ih =>
    intro r hr hrv c hc
    generalize hr' : ((List.range (2^t.k)).map fun l => (∑ j ∈ range m, (d j).getD l 0) % t.modulus.value).toArray = r'
    have hr's : r'.size = 2^t.k := by rw [← hr']; simp
    have hr'v : ∀ l, l < 2^t.k → r'.getD l 0 = (∑ j ∈ range m, (d j).getD l 0) % t.modulus.value := by
      intro l hl; rw [← hr']; exact getD_rangeMap _ _ hl
    have h1 := ih (fun j hj => hds j (by omega)) (fun j hj => hdl j (by omega)) r' hr's hr'v c hc
    have h2 := c01o_intt_add hw hr's (hds m (by omega)) hr
      (fun l hl => by rw [hr'v l hl]; exact Nat.mod_lt _ (by omega)) (hdl m (by omega))
      (fun l hl => by rw [hrv l hl, hr'v l hl, Finset.sum_range_succ, Nat.mod_add_mod]) c hc
    rw [h2, h1, Finset.sum_range_succ, Nat.mod_add_mod]

/-- the accumulation identity behind `ksAccumulate`: Σ_j o_j ⊙ K_j (mod q) is the NTT of Σ_j red_j ⋆ intt(K_j) -/
theorem c04t_acc_math {t : NTTTables} (hw : t.WF) (m : Nat) (o K red : Nat → Array Nat)
    (hrs : ∀ j, j < m → (red j).size = 2^t.k) (hrl : ∀ j, j < m → ∀ l, l < 2^t.k → (red j).getD l 0 < t.modulus.value)
    (hKs : ∀ j, j < m → (K j).size = 2^t.k) (hKl : ∀ j, j < m → ∀ l, l < 2^t.k → (K j).getD l 0 < t.modulus.value)
    (ho : ∀ j, j < m → ∀ l, l < 2^t.k → (o j).getD l 0 % t.modulus.value = (ntt t (red j)).getD l 0)
    {r : Array Nat} (hr : r.size = 2^t.k)
    (hrv : ∀ l, l < 2^t.k → r.getD l 0 = (∑ j ∈ range m, (o j).getD l 0 * (K j).getD l 0) % t.modulus.value) :
    ∀ c, c < 2^t.k → (intt t r).getD c 0 =
      (∑ j ∈ range m, negMulNat (2^t.k) t.modulus.value (red j) (intt t (K j)) c) % t.modulus.value := by
  have hq2 := hw.mwf.two_le
  intro c hc
  let d : Nat → Array Nat := fun j =>
    ((List.range (2^t.k)).map fun l => ((ntt t (red j)).getD l 0 * (K j).getD l 0) % t.modulus.value).toArray
  have hds : ∀ j, (d j).size = 2^t.k := fun j => by simp [d]
  have hdv : ∀ j l, l < 2^t.k → (d j).getD l 0 = ((ntt t (red j)).getD l 0 * (K j).getD l 0) % t.modulus.value :=
    fun j l hl => getD_rangeMap _ _ hl
  have h1 := c04t_intt_sum hw d m (fun j _ => hds j)
    (fun j _ l hl => by rw [hdv j l hl]; exact Nat.mod_lt _ (by omega)) r hr
    (fun l hl => by
      rw [hrv l hl, Finset.sum_nat_mod]
      congr 1
      apply Finset.sum_congr rfl
      intro j hj
      rw [hdv j l hl, ← ho j (mem_range.mp hj) l hl, Nat.mod_mul_mod]) c hc
  rw [h1]
  congr 1
  apply Finset.sum_congr rfl
  intro j hj
  have hj' := mem_range.mp hj
  obtain ⟨n1, n2⟩ := ntt_sim hw (red j) (hrs j hj') (fun l hl => by have := hrl j hj' l hl; omega)
  obtain ⟨a1, a2⟩ := intt_sim hw (K j) (hKs j hj') (fun l hl => by have := hKl j hj' l hl; omega)
  have := c01o_conv hw (x := ntt t (red j)) (b := intt t (K j)) (d := d j) n1 a1 (hds j)
    (fun l hl => (n2 l hl).2.1) (fun l hl => (a2 l hl).1)
    (fun l hl => by rw [hdv j l hl, ntt_intt hw (K j) (hKs j hj') (hKl j hj')]) c hc
  rw [this, intt_ntt hw (red j) (hrs j hj') (hrl j hj')]

/-- key polynomial (j, k) at key-level modulus `idx` -/
def c04t_K (key : KSKey) (j k idx : Nat) : Poly := ((key.getD j #[]).getD k #[]).getD idx #[]

/-- key residues at modulus `idx` are canonical (size n, values < q_idx) -/
def c04t_KeyCanonAt (kl : KeyLevel) (dsz kcc : Nat) (key : KSKey) (idx : Nat) : Prop :=
  ∀ j, j < dsz → ∀ k, k < kcc → (c04t_K key j k idx).size = kl.n ∧
    ∀ l, l < kl.n → (c04t_K key j k idx).getD l 0 < (kl.m idx).value

/-- the value `ksAccumulate` returns for component k -/
def c04t_accRes (kl : KeyLevel) (dsz : Nat) (isNtt : Bool) (target targetCoef : RnsPoly) (key : KSKey) (i k : Nat) : Poly :=
  ((List.range kl.n).map fun l =>
    (∑ j ∈ range dsz, (c04t_op kl dsz isNtt target targetCoef i j).getD l 0 *
      (c04t_K key j k (c04t_keyIndex kl dsz i)).getD l 0) % (kl.m (c04t_keyIndex kl dsz i)).value).toArray

theorem c04t_accSum_eq (kl : KeyLevel) (dsz : Nat) (isNtt : Bool) (target targetCoef : RnsPoly) (key : KSKey)
    (i ki k l : Nat) :
    c04t_accSum dsz ((List.range dsz).map (c04t_op kl dsz isNtt target targetCoef i)) key ki k l =
      ∑ j ∈ range dsz, (c04t_op kl dsz isNtt target targetCoef i j).getD l 0 * (c04t_K key j k ki).getD l 0 := by
  unfold c04t_accSum
  rw [c04t_foldl_sum (fun j => (((List.range dsz).map (c04t_op kl dsz isNtt target targetCoef i)).getD j #[]).getD l 0 *
    (((key.getD j #[]).getD k #[]).getD ki #[]).getD l 0)]
  apply Finset.sum_congr rfl
  intro j hj
  rw [c04t_list_getD_rangeMap _ _ _ (mem_range.mp hj)]
  rfl

theorem c04t_step_ok {m : Modulus} (hm : m.WF) {S : Nat} (hS : S < 2^128) (acc : Array Nat) :
    (if S ≥ 2^128 then (Except.error Err.overflow : R (Array Nat)) else do
      let r ← barrett128 (S % B64) (S / B64) m
      pure (acc.push r)) = .ok (acc.push (S % m.value)) := by
  rw [if_neg (by omega)]
  have h0 : S % B64 < 2^64 := by rw [← B64_eq]; exact Nat.mod_lt _ B64_pos
  have h1 : S / B64 < 2^64 := by
    rw [B64_eq]; apply Nat.div_lt_of_lt_mul; rw [← pow_add]; exact hS
  rw [barrett128_exact hm h0 h1, ← B64_eq, Nat.mod_add_div]
  rfl

/-- the 128-bit accumulator does not overflow -/
theorem c04t_sum_bound {dsz q : Nat} (f g : Nat → Nat) (hf : ∀ j, j < dsz → f j < 4 * q) (hg : ∀ j, j < dsz → g j < q)
    (hov : dsz * (4 * q * q) < 2^128) : ∑ j ∈ range dsz, f j * g j < 2^128 := by
  refine Nat.lt_of_le_of_lt ?_ hov
  have : ∑ j ∈ range dsz, f j * g j ≤ ∑ _j ∈ range dsz, 4 * q * q :=
    Finset.sum_le_sum (fun j hj => Nat.mul_le_mul (hf j (mem_range.mp hj)).le (hg j (mem_range.mp hj)).le)
  simpa using this

/-- `ksAccumulate` succeeds and returns the explicit accumulated values -/
theorem c04t_ksAccumulate_val {kl : KeyLevel} (hkl : kl.WF) {dsz : Nat} (hd : dsz + 1 ≤ kl.ms.size) {isNtt : Bool}
    {target targetCoef : RnsPoly} (hc : c04t_Canon kl dsz targetCoef)
    (hT : isNtt = true → c04t_Canon kl dsz target ∧
      ∀ j, j < dsz → targetCoef.getD j #[] = intt (kl.tb j) (target.getD j #[]))
    {key : KSKey} {i kcc : Nat} (hi : i ≤ dsz) (hK : c04t_KeyCanonAt kl dsz kcc key (c04t_keyIndex kl dsz i))
    (hov : dsz * (4 * (kl.m (c04t_keyIndex kl dsz i)).value * (kl.m (c04t_keyIndex kl dsz i)).value) < 2^128) :
    ksAccumulate kl dsz isNtt target targetCoef key i kcc =
      .ok ((List.range kcc).map (c04t_accRes kl dsz isNtt target targetCoef key i)) := by
  obtain ⟨_, _, _, hmw⟩ := c04t_kl_comp hkl (c04t_keyIndex_lt hd hi)
  rw [c04t_ksAccumulate_eq,
    listMapM_ok (List.range dsz) _ (c04t_op kl dsz isNtt target targetCoef i)
      (fun j hj => c04t_opM_ok hkl hd isNtt target hc hi (List.mem_range.mp hj))]
  rw [ok_bind]
  apply listMapM_ok
  intro k hk
  have hk' := List.mem_range.mp hk
  have := foldlM_push (fun (acc : Array Nat) l =>
      if c04t_accSum dsz ((List.range dsz).map (c04t_op kl dsz isNtt target targetCoef i)) key
          (c04t_keyIndex kl dsz i) k l ≥ 2^128 then .error .overflow else do
      let r ← barrett128 (c04t_accSum dsz ((List.range dsz).map (c04t_op kl dsz isNtt target targetCoef i)) key
          (c04t_keyIndex kl dsz i) k l % B64)
        (c04t_accSum dsz ((List.range dsz).map (c04t_op kl dsz isNtt target targetCoef i)) key
          (c04t_keyIndex kl dsz i) k l / B64) (kl.m (c04t_keyIndex kl dsz i))
      pure (acc.push r))
    (fun l => (∑ j ∈ range dsz, (c04t_op kl dsz isNtt target targetCoef i j).getD l 0 *
      (c04t_K key j k (c04t_keyIndex kl dsz i)).getD l 0) % (kl.m (c04t_keyIndex kl dsz i)).value)
    (List.range kl.n) (fun acc l hl => by
      have hl' := List.mem_range.mp hl
      rw [c04t_accSum_eq]
      exact c04t_step_ok hmw (c04t_sum_bound _ _
        (fun j hj => ((c04t_op_facts hkl hd hc hT hi hj).2 l hl').1)
        (fun j hj => (hK j hj k hk').2 l hl') hov) acc) #[]
  rw [this]
  unfold c04t_accRes
  simp

theorem c04t_accRes_size (kl : KeyLevel) (dsz : Nat) (isNtt : Bool) (target targetCoef : RnsPoly) (key : KSKey) (i k : Nat) :
    (c04t_accRes kl dsz isNtt target targetCoef key i k).size = kl.n := by
  simp [c04t_accRes]

theorem c04t_accRes_getD (kl : KeyLevel) (dsz : Nat) (isNtt : Bool) (target targetCoef : RnsPoly) (key : KSKey) (i k : Nat)
    {l : Nat} (hl : l < kl.n) :
    (c04t_accRes kl dsz isNtt target targetCoef key i k).getD l 0 =
      (∑ j ∈ range dsz, (c04t_op kl dsz isNtt target targetCoef i j).getD l 0 *
        (c04t_K key j k (c04t_keyIndex kl dsz i)).getD l 0) % (kl.m (c04t_keyIndex kl dsz i)).value :=
  getD_rangeMap _ _ hl

/-- the accumulated polynomial in coefficient form: Σ_j D_j ⋆ K_{j,k} mod q, with D_j the digit polynomial (component j of
    the coefficient-form target, as integers in [0, q_j)) and K_{j,k} the coefficient form of the key row -/
def c04t_accCoef (kl : KeyLevel) (dsz : Nat) (targetCoef : RnsPoly) (key : KSKey) (idx k c : Nat) : Nat :=
  (∑ j ∈ range dsz, negMulNat kl.n (kl.m idx).value (targetCoef.getD j #[])
      (intt (kl.tb idx) (c04t_K key j k idx)) c) % (kl.m idx).value

theorem c04t_accRes_intt {kl : KeyLevel} (hkl : kl.WF) {dsz : Nat} (hd : dsz + 1 ≤ kl.ms.size) {isNtt : Bool}
    {target targetCoef : RnsPoly} (hc : c04t_Canon kl dsz targetCoef)
    (hT : isNtt = true → c04t_Canon kl dsz target ∧
      ∀ j, j < dsz → targetCoef.getD j #[] = intt (kl.tb j) (target.getD j #[]))
    {key : KSKey} {i kcc : Nat} (hi : i ≤ dsz) (hK : c04t_KeyCanonAt kl dsz kcc key (c04t_keyIndex kl dsz i))
    {k : Nat} (hk : k < kcc) {c : Nat} (hcn : c < kl.n) :
    (intt (kl.tb (c04t_keyIndex kl dsz i)) (c04t_accRes kl dsz isNtt target targetCoef key i k)).getD c 0 =
      c04t_accCoef kl dsz targetCoef key (c04t_keyIndex kl dsz i) k c := by
  obtain ⟨htw, htm, htn, hmw⟩ := c04t_kl_comp hkl (c04t_keyIndex_lt hd hi)
  have hq2 := hmw.two_le
  generalize hki : c04t_keyIndex kl dsz i = ki at *
  have h := c04t_acc_math htw dsz (fun j => c04t_op kl dsz isNtt target targetCoef i j) (fun j => c04t_K key j k ki)
    (fun j => (targetCoef.getD j #[]).map fun x => x % (kl.m ki).value)
    (fun j hj => by rw [Array.size_map, htn]; exact (hc j hj).1)
    (fun j hj l hl => by
      rw [c10i_getD_map_lt _ _ (by rw [(hc j hj).1, ← htn]; exact hl), htm]
      exact Nat.mod_lt _ (by omega))
    (fun j hj => by rw [htn]; exact (hK j hj k hk).1)
    (fun j hj l hl => by rw [htm]; exact (hK j hj k hk).2 l (by omega))
    (fun j hj l hl => by
      have := ((c04t_op_facts hkl hd hc hT hi hj).2 l (by omega)).2
      rw [hki] at this
      rw [htm]; exact this)
    (r := c04t_accRes kl dsz isNtt target targetCoef key i k) (by rw [c04t_accRes_size, htn])
    (fun l hl => by rw [c04t_accRes_getD _ _ _ _ _ _ _ _ (by omega), hki, htm]) c (by omega)
  rw [h, htm, htn]
  unfold c04t_accCoef
  congr 1
  apply Finset.sum_congr rfl
  intro j hj
  apply c04t_negMulNat_congr (by omega)
  intro p hp
  rw [c10i_getD_map_lt _ _ (by rw [(hc j (mem_range.mp hj)).1]; exact hp), Nat.mod_mod]

/-- the guard `s < 2^128` of the model follows from `dsz ≤ 64` for moduli below 2^60 (the user-modulus bound of the library) -/
theorem c04t_no_overflow_60 {dsz q : Nat} (hd : dsz ≤ 64) (hq : q < 2^60) : dsz * (4 * q * q) < 2^128 := by
  have h1 : q * q ≤ (2^60 - 1) * (2^60 - 1) := Nat.mul_le_mul (by omega) (by omega)
  have h2 : dsz * (4 * q * q) ≤ 64 * (4 * ((2^60 - 1) * (2^60 - 1))) := by
    rw [Nat.mul_assoc 4]
    exact Nat.mul_le_mul hd (Nat.mul_le_mul_left 4 h1)
  refine Nat.lt_of_le_of_lt h2 (by norm_num)

/-- … and from `dsz ≤ 16` for any well-formed modulus (< 2^61) -/
theorem c04t_no_overflow_61 {dsz q : Nat} (hd : dsz ≤ 16) (hq : q < 2^61) : dsz * (4 * q * q) < 2^128 := by
  have h1 : q * q ≤ (2^61 - 1) * (2^61 - 1) := Nat.mul_le_mul (by omega) (by omega)
  have h2 : dsz * (4 * q * q) ≤ 16 * (4 * ((2^61 - 1) * (2^61 - 1))) := by
    rw [Nat.mul_assoc 4]
    exact Nat.mul_le_mul hd (Nat.mul_le_mul_left 4 h1)
  refine Nat.lt_of_le_of_lt h2 (by norm_num)

/-! ## refusal branches of `switchKey` -/

theorem c04t_switchKey_refuse_size (kl : KeyLevel) (scheme : Scheme) (dsz : Nat) (ct : Ct) (target : RnsPoly) (key : KSKey)
    (h : kl.ms.size < 2 ∨ dsz + 1 > kl.ms.size ∨ key.size < dsz) :
    switchKey kl scheme dsz ct target key = .error .refused := by
  unfold switchKey
  simp only []
  rw [if_pos h]

theorem c04t_switchKey_refuse_bfv_ntt (kl : KeyLevel) (dsz : Nat) (ct : Ct) (target : RnsPoly) (key : KSKey)
    (h : ct.ntt = true) : switchKey kl .bfv dsz ct target key = .error .refused := by
  unfold switchKey
  simp only []
  split
  · rfl
  · simp [bind, Except.bind]

theorem c04t_switchKey_refuse_coeff (kl : KeyLevel) (scheme : Scheme) (hs : scheme ≠ .bfv) (dsz : Nat) (ct : Ct)
    (target : RnsPoly) (key : KSKey) (h : ct.ntt = false) : switchKey kl scheme dsz ct target key = .error .refused := by
  unfold switchKey
  simp only []
  split
  · rfl
  · cases scheme
    · exact absurd rfl hs
    · simp [h, bind, Except.bind]
    · simp [h, bind, Except.bind]

/-! ## satisfiability of `KeyLevel.WF`: a concrete key level (N = 2, moduli 13 · 17 with special prime 17, t = 5) -/

def c04t_isOk {α : Type} : R α → Bool
  | .ok _ => true
  | .error _ => false

theorem c04t_isOk_ok {α : Type} {x : R α} (h : c04t_isOk x = true) : ∃ v, x = .ok v := by
  cases x with
  | ok v => exact ⟨v, rfl⟩
  | error e => cases h

def c04t_exMod (v : Nat) : Modulus := match Modulus.mk? v with | .ok m => m | .error _ => default
def c04t_exTbl (v r : Nat) : NTTTables :=
  match NTTTables.new 1 (c04t_exMod v) true r with | .ok t => t | .error _ => ⟨0, default, 0, #[], #[], default⟩
def c04t_exOp (y v : Nat) : MulOperand := match MulOperand.new y (c04t_exMod v) with | .ok o => o | .error _ => default

theorem c04t_exMod_wf {v : Nat} (h : c04t_isOk (Modulus.mk? v) = true) (hv : v ≠ 0) :
    (c04t_exMod v).WF ∧ (c04t_exMod v).value = v := by
  obtain ⟨m, hm⟩ := c04t_isOk_ok h
  have : c04t_exMod v = m := by unfold c04t_exMod; rw [hm]
  rw [this]; exact Modulus.mk?_wf hm hv

theorem c04t_exTbl_wf {v r : Nat} (hm : (c04t_exMod v).WF) (hr : r < 2^64)
    (h : c04t_isOk (NTTTables.new 1 (c04t_exMod v) true r) = true) :
    (c04t_exTbl v r).WF ∧ (c04t_exTbl v r).k = 1 ∧ (c04t_exTbl v r).modulus = c04t_exMod v := by
  obtain ⟨t, ht⟩ := c04t_isOk_ok h
  have : c04t_exTbl v r = t := by unfold c04t_exTbl; rw [ht]
  rw [this]
  obtain ⟨h1, h2, h3, _⟩ := NTTTables.new_wf_u64 hm (by norm_num) hr ht
  exact ⟨h1, h2, h3⟩

def c04t_exKL : KeyLevel :=
  ⟨2, #[c04t_exMod 13, c04t_exMod 17], #[c04t_exTbl 13 5, c04t_exTbl 17 4], #[c04t_exOp 10 13], 3, c04t_exMod 5⟩

theorem c04t_exKL_wf : c04t_exKL.WF := by
  obtain ⟨m13, _⟩ := c04t_exMod_wf (v := 13) (by decide) (by decide)
  obtain ⟨m17, _⟩ := c04t_exMod_wf (v := 17) (by decide) (by decide)
  obtain ⟨a1, a2, a3⟩ := c04t_exTbl_wf (v := 13) (r := 5) m13 (by norm_num) (by decide)
  obtain ⟨b1, b2, b3⟩ := c04t_exTbl_wf (v := 17) (r := 4) m17 (by norm_num) (by decide)
  refine ⟨rfl, ?_⟩
  intro i hi
  have hi2 : i < 2 := hi
  interval_cases i
  · exact ⟨a1, a3, by show 2^(c04t_exTbl 13 5).k = 2; rw [a2]; rfl⟩
  · exact ⟨b1, b3, by show 2^(c04t_exTbl 17 4).k = 2; rw [b2]; rfl⟩

/-! ## T2: scalar mod-down lemmas -/

/-- the centred lift used by the code: ((b + ⌊P/2⌋) mod P) − ⌊P/2⌋ -/
def c04t_center (P b : Nat) : Int := (((b + P / 2) % P : Nat) : Int) - ((P / 2 : Nat) : Int)

theorem c04t_center_round {P : Nat} (hP : 0 < P) (b : Nat) (X : Int) (hXb : X % (P : Int) = b) :
    X = P * Spec.roundDiv X P + c04t_center P b ∧
    -((P / 2 : Nat) : Int) ≤ c04t_center P b ∧ 2 * c04t_center P b < P := by
  have hPz : (0 : Int) < (P : Int) := by exact_mod_cast hP
  have e1 : (((b + P / 2) % P : Nat) : Int) = (b : Int) + ((P / 2 : Nat) : Int) - P * (((b + P / 2) / P : Nat) : Int) := by
    have := Nat.mod_add_div (b + P / 2) P
    have h2 : (((b + P / 2) % P + P * ((b + P / 2) / P) : Nat) : Int) = ((b + P / 2 : Nat) : Int) := by rw [this]
    push_cast at h2 ⊢
    linarith
  have hlt : (b + P / 2) % P < P := Nat.mod_lt _ hP
  have hX : X = P * (X / P) + b := by rw [← hXb]; exact (Int.mul_ediv_add_emod X P).symm
  have hhalf : 2 * (P / 2) + 1 ≥ P ∧ 2 * (P / 2) ≤ P := by omega
  have hr1 : -((P / 2 : Nat) : Int) ≤ c04t_center P b := by unfold c04t_center; omega
  have hr2 : 2 * c04t_center P b < P := by unfold c04t_center; omega
  have hXY : X = P * (X / P + (((b + P / 2) / P : Nat) : Int)) + c04t_center P b := by
    unfold c04t_center; rw [e1]; linarith
  obtain ⟨m1, _⟩ := moddown_round hP X _ _ hXY
  have hz : Spec.roundDiv (c04t_center P b) P = 0 := by
    unfold Spec.roundDiv
    apply Int.ediv_eq_zero_of_lt <;> omega
  rw [hz, add_zero] at m1
  refine ⟨?_, hr1, hr2⟩
  rw [m1]; exact hXY

/-- scalar mod-down (rounding branch): the added value is round(X/P) modulo q -/
theorem c04t_std_scalar {q P : Nat} (hP : 0 < P) {y a b : Nat} (hy : ((y : ZMod q)) * (P : ZMod q) = 1)
    {δz : ZMod q}
    (hδ : δz = ((a : ZMod q) - ((((b + P / 2) % P : Nat) : ZMod q) - ((P / 2 : Nat) : ZMod q))) * y)
    (X : Int) (hXa : (X : ZMod q) = a) (hXb : X % (P : Int) = b) :
    δz = ((Spec.roundDiv X P : Int) : ZMod q) := by
  obtain ⟨h1, _, _⟩ := c04t_center_round hP b X hXb
  have h2 : (X : ZMod q) = (P : ZMod q) * ((Spec.roundDiv X P : Int) : ZMod q)
      + ((((b + P / 2) % P : Nat) : ZMod q) - ((P / 2 : Nat) : ZMod q)) := by
    have hc : ((c04t_center P b : Int) : ZMod q)
        = (((b + P / 2) % P : Nat) : ZMod q) - ((P / 2 : Nat) : ZMod q) := by
      unfold c04t_center; rw [Int.cast_sub, Int.cast_natCast, Int.cast_natCast]
    conv_lhs => rw [h1]
    rw [Int.cast_add, Int.cast_mul, Int.cast_natCast, hc]
  rw [hδ, ← hXa, h2]
  have : ∀ (A B Y : ZMod q), (A * Y + B - B) * (y : ZMod q) = Y * (y * A) := by intros; ring
  rw [this, hy, mul_one]


/-- BGV correction digit: (−b)·P^{-1} mod t -/
def c04t_bgvKK (t it b : Nat) : Nat := (((t - b % t) % t) * it) % t

/-- BGV: the multiple-of-t representative of X mod P that is subtracted before dividing by P -/
def c04t_bgvE (P t it b : Nat) : Nat := b + P * c04t_bgvKK t it b

theorem c04t_bgvE_facts {P t it : Nat} (ht : 0 < t) (hit : (it * P) % t = 1 % t) {b : Nat} (hb : b < P) :
    t ∣ c04t_bgvE P t it b ∧ c04t_bgvE P t it b < P * t ∧ c04t_bgvE P t it b % P = b := by
  have hkk : c04t_bgvKK t it b < t := Nat.mod_lt _ ht
  refine ⟨?_, ?_, ?_⟩
  · apply (ZMod.natCast_eq_zero_iff _ _).mp
    have h1 : ((it : ZMod t)) * (P : ZMod t) = 1 := by
      have := (ZMod.natCast_eq_natCast_iff' (it * P) 1 t).mpr hit
      simpa using this
    have h2 : (((t - b % t) % t : Nat) : ZMod t) = -(b : ZMod t) := by
      rw [ZMod.natCast_mod, Nat.cast_sub (Nat.mod_lt _ ht).le, ZMod.natCast_self, ZMod.natCast_mod, zero_sub]
    unfold c04t_bgvE c04t_bgvKK
    rw [Nat.cast_add, Nat.cast_mul, ZMod.natCast_mod, Nat.cast_mul, h2]
    have : ∀ (B Pz I : ZMod t), I * Pz = 1 → B + Pz * (-B * I) = 0 := by
      intro B Pz I h; linear_combination (-B) * h
    exact this _ _ _ h1
  · unfold c04t_bgvE
    calc b + P * c04t_bgvKK t it b < P + P * c04t_bgvKK t it b := by omega
      _ = P * (c04t_bgvKK t it b + 1) := by ring
      _ ≤ P * t := Nat.mul_le_mul_left _ hkk
  · unfold c04t_bgvE
    rw [Nat.add_mul_mod_self_left, Nat.mod_eq_of_lt hb]

/-- scalar mod-down (BGV branch): the added value is (X − E)/P modulo q, E the multiple of t congruent to X mod P -/
theorem c04t_bgv_scalar {q P t it : Nat} (_hP : 0 < P) {y a b : Nat} (hy : ((y : ZMod q)) * (P : ZMod q) = 1)
    {δz : ZMod q} (hδ : δz = ((a : ZMod q) - ((c04t_bgvE P t it b : Nat) : ZMod q)) * y)
    (X : Int) (hXa : (X : ZMod q) = a) (hXb : X % (P : Int) = b) :
    X = P * (X / P - (c04t_bgvKK t it b : Int)) + (c04t_bgvE P t it b : Int) ∧
    δz = ((X / P - (c04t_bgvKK t it b : Int) : Int) : ZMod q) := by
  have hX : X = P * (X / P) + b := by rw [← hXb]; exact (Int.mul_ediv_add_emod X P).symm
  have h1 : X = P * (X / P - (c04t_bgvKK t it b : Int)) + (c04t_bgvE P t it b : Int) := by
    unfold c04t_bgvE; push_cast; linarith
  refine ⟨h1, ?_⟩
  have h2 : (X : ZMod q) = (P : ZMod q) * ((X / P - (c04t_bgvKK t it b : Int) : Int) : ZMod q)
      + ((c04t_bgvE P t it b : Nat) : ZMod q) := by
    conv_lhs => rw [h1]
    rw [Int.cast_add, Int.cast_mul, Int.cast_natCast, Int.cast_natCast]
  rw [hδ, ← hXa, h2]
  have : ∀ (A B Y : ZMod q), (A * Y + B - B) * (y : ZMod q) = Y * (y * A) := by intros; ring
  rw [this, hy, mul_one]

/-! ## T2: monadic steps of the mod-down -/

theorem c04t_tmp0_ok {mj : Modulus} (hm : mj.WF) {P : Nat} {tLast : Array Nat} (hl : ∀ x ∈ tLast, x < P) (hP : P < 2^64) :
    (if P > mj.value then mapM' tLast (fun x => barrett64 x mj) else pure tLast)
      = .ok (tLast.map (fun x => x % mj.value)) := by
  by_cases h : P > mj.value
  · rw [if_pos h]
    exact mapM'_ok _ (fun x hx => barrett64_exact hm (by have := hl x hx; omega))
  · rw [if_neg h, c04t_map_mod_id' (fun x hx => by have := hl x hx; omega)]
    rfl

theorem c04t_addfix_ok {a : Array Nat} {f : Nat} (h : ∀ x ∈ a, x + f < B64) :
    mapM' a (fun x => ckAdd x f) = .ok (a.map (fun x => x + f)) :=
  mapM'_ok _ (fun x hx => by unfold ckAdd; rw [if_pos (h x hx)])

theorem c04t_subadd_ok {pp tmp2 : Array Nat} {L : Nat}
    (h : ∀ i, i < pp.size → tmp2.getD i 0 ≤ L ∧ pp.getD i 0 + (L - tmp2.getD i 0) < B64) :
    zipM' pp tmp2 (fun a b => do let z ← ckSub L b; ckAdd a z)
      = .ok ((List.range pp.size).map (fun i => pp.getD i 0 + (L - tmp2.getD i 0))).toArray :=
  zipM'_ok (fun a b => a + (L - b)) (fun i hi => by
    unfold ckSub ckAdd
    rw [if_pos (h i hi).1]
    simp only [bind, Except.bind]
    rw [if_pos (h i hi).2])

theorem c04t_mulop_ok {mj : Modulus} (hm : mj.WF) {op : MulOperand} (hop : WFOp mj op) {d : Array Nat}
    (h : ∀ x ∈ d, x < 2^64) :
    mapM' d (fun x => mulOperandMod x op mj) = .ok (d.map (fun x => (x * op.operand) % mj.value)) :=
  mapM'_ok _ (fun x hx => mulOperandMod_exact hm (h x hx) hop.1 (wfop_new hm hop))

theorem c04t_zipadd_ok {mj : Modulus} (hm : mj.WF) {a d : Array Nat}
    (h : ∀ i, i < a.size → a.getD i 0 < mj.value ∧ d.getD i 0 < mj.value) :
    zipM' a d (fun x y => addMod x y mj)
      = .ok ((List.range a.size).map (fun i => (a.getD i 0 + d.getD i 0) % mj.value)).toArray :=
  zipM'_ok (fun x y => (x + y) % mj.value) (fun i hi => addMod_exact hm (h i hi).1 (h i hi).2)

theorem c04t_zipsub_ok {mj : Modulus} (hm : mj.WF) {a d : Array Nat}
    (h : ∀ i, i < a.size → a.getD i 0 < mj.value ∧ d.getD i 0 < mj.value) :
    zipM' a d (fun x y => subMod x y mj)
      = .ok ((List.range a.size).map (fun i => (a.getD i 0 + mj.value - d.getD i 0) % mj.value)).toArray :=
  zipM'_ok (fun x y => (x + mj.value - y) % mj.value) (fun i hi => subMod_exact hm (h i hi).1 (h i hi).2)

theorem c04t_tlast_ok {P : Modulus} (hP : P.WF) {tl0 : Array Nat} {half : Nat} (h : ∀ x ∈ tl0, x + half < B64) :
    mapM' tl0 (fun x => do let y ← ckAdd x half; barrett64 y P) = .ok (tl0.map (fun x => (x + half) % P.value)) :=
  mapM'_ok _ (fun x hx => by
    unfold ckAdd
    rw [if_pos (h x hx)]
    simp only [bind, Except.bind]
    exact barrett64_exact hP (by rw [← B64_eq]; exact h x hx))

theorem c04t_kk0_ok {t : Modulus} (ht : t.WF) {tLast : Array Nat} (h : ∀ x ∈ tLast, x < 2^64) :
    mapM' tLast (fun x => do let y ← barrett64 x t; negateMod y t)
      = .ok (tLast.map (fun x => (t.value - x % t.value) % t.value)) :=
  mapM'_ok _ (fun x hx => by
    rw [barrett64_exact ht (h x hx)]
    simp only [bind, Except.bind]
    exact negateMod_exact ht (Nat.mod_lt _ (by have := ht.two_le; omega)).le)

theorem c04t_kk_ok {t : Modulus} (ht : t.WF) {it : Nat} (hit : it < 2^64) {kk0 : Array Nat} (h : ∀ x ∈ kk0, x < t.value) :
    (if it ≠ 1 then mapM' kk0 (fun x => mulMod x it t) else pure kk0)
      = .ok (kk0.map (fun x => (x * it) % t.value)) := by
  by_cases h1 : it ≠ 1
  · rw [if_pos h1]
    exact mapM'_ok _ (fun x hx => mulMod_exact ht (by have := h x hx; have := ht.lt; omega) hit)
  · rw [if_neg h1]
    have h1' : it = 1 := by omega
    subst h1'
    have : kk0.map (fun x => (x * 1) % t.value) = kk0 := by
      simp only [Nat.mul_one]; exact c04t_map_mod_id' h
    rw [this]; rfl

theorem c04t_delta0_ok {mj : Modulus} (hm : mj.WF) {P : Nat} (hP : P < 2^64) {kk : Array Nat} (h : ∀ x ∈ kk, x < 2^64) :
    mapM' kk (fun x => do let y ← barrett64 x mj; mulMod y P mj)
      = .ok (kk.map (fun x => ((x % mj.value) * P) % mj.value)) :=
  mapM'_ok _ (fun x hx => by
    rw [barrett64_exact hm (h x hx)]
    simp only [bind, Except.bind]
    exact mulMod_exact hm (by have := Nat.mod_lt x (show 0 < mj.value by have := hm.two_le; omega); have := hm.lt; omega) hP)


/-! ## T2: the rounding (BFV / CKKS) branch, one component -/

theorem c04t_forall_map {a : Array Nat} {f : Nat → Nat} {p : Nat → Prop} (h : ∀ y ∈ a, p (f y)) : ∀ x ∈ a.map f, p x := by
  intro x hx
  obtain ⟨y, hy, rfl⟩ := Array.mem_map.mp hx
  exact h y hy

/-- non-BGV branch, one (k, j) component (monadic, as in the model) -/
def c04t_stdCompM (kl : KeyLevel) (isNtt : Bool) (ctkj prodkj tLast : Poly) (j : Nat) : R Poly := do
  let P := kl.m (kl.ms.size - 1)
  let half := P.value / 2
  let mj := kl.m j
  let qi := mj.value
  let tmp0 ← if P.value > qi then mapM' tLast (fun x => barrett64 x mj) else pure tLast
  let hm ← barrett64 half mj
  let fix ← ckSub qi hm
  let tmp1 ← mapM' tmp0 (fun x => ckAdd x fix)
  let (tmp2, pp, qiLazy) :=
    if isNtt then (nttLazy (kl.tb j) tmp1, prodkj, qi * 4)
    else (tmp1, inttLazy (kl.tb j) prodkj, qi * 2)
  let d ← zipM' pp tmp2 (fun a b => do let z ← ckSub qiLazy b; ckAdd a z)
  let d ← mapM' d (fun x => mulOperandMod x (kl.invPModQ.getD j default) mj)
  zipM' ctkj d (fun a b => addMod a b mj)

/-- the special prime P -/
def KeyLevel.c04t_P (kl : KeyLevel) : Nat := (kl.m (kl.ms.size - 1)).value

/-- `tmp1` of the code: (tLast mod q_j) + (q_j − ⌊P/2⌋ mod q_j) -/
def c04t_stdTmp1 (kl : KeyLevel) (tLast : Poly) (j : Nat) : Poly :=
  (tLast.map (fun x => x % (kl.m j).value)).map (fun x => x + ((kl.m j).value - (kl.c04t_P / 2) % (kl.m j).value))

def c04t_stdD (kl : KeyLevel) (isNtt : Bool) (prodkj tLast : Poly) (j : Nat) : Poly :=
  if isNtt then
    ((List.range prodkj.size).map fun i =>
      prodkj.getD i 0 + ((kl.m j).value * 4 - (nttLazy (kl.tb j) (c04t_stdTmp1 kl tLast j)).getD i 0)).toArray
  else
    ((List.range (inttLazy (kl.tb j) prodkj).size).map fun i =>
      (inttLazy (kl.tb j) prodkj).getD i 0 + ((kl.m j).value * 2 - (c04t_stdTmp1 kl tLast j).getD i 0)).toArray

/-- multiply by P^{-1} mod q_j -/
def c04t_deltaOf (kl : KeyLevel) (d : Poly) (j : Nat) : Poly :=
  d.map fun x => (x * (kl.invPModQ.getD j default).operand) % (kl.m j).value

def c04t_addCt (kl : KeyLevel) (ctkj δ : Poly) (j : Nat) : Poly :=
  ((List.range ctkj.size).map fun i => (ctkj.getD i 0 + δ.getD i 0) % (kl.m j).value).toArray

theorem c04t_stdTmp1_facts {kl : KeyLevel} {j : Nat} (hq : 0 < (kl.m j).value) {tLast : Poly} :
    (c04t_stdTmp1 kl tLast j).size = tLast.size ∧ ∀ i, i < tLast.size →
      (c04t_stdTmp1 kl tLast j).getD i 0 =
        tLast.getD i 0 % (kl.m j).value + ((kl.m j).value - (kl.c04t_P / 2) % (kl.m j).value) ∧
      (c04t_stdTmp1 kl tLast j).getD i 0 < 2 * (kl.m j).value := by
  unfold c04t_stdTmp1
  refine ⟨by simp, fun i hi => ?_⟩
  rw [c10i_getD_map_lt _ _ (by simpa using hi), c10i_getD_map_lt _ _ hi]
  have := Nat.mod_lt (tLast.getD i 0) hq
  have := Nat.mod_lt (kl.c04t_P / 2) hq
  exact ⟨rfl, by omega⟩

theorem c04t_stdD_facts {kl : KeyLevel} (hkl : kl.WF) {j : Nat} (hj : j < kl.ms.size) (isNtt : Bool) {prodkj tLast : Poly}
    (hps : prodkj.size = kl.n) (hpl : ∀ i, i < kl.n → prodkj.getD i 0 < (kl.m j).value) (hts : tLast.size = kl.n) :
    (c04t_stdD kl isNtt prodkj tLast j).size = kl.n ∧
    (∀ i, i < kl.n → (c04t_stdD kl isNtt prodkj tLast j).getD i 0 < 5 * (kl.m j).value) ∧
    (isNtt = true → ∀ i, i < kl.n →
      (nttLazy (kl.tb j) (c04t_stdTmp1 kl tLast j)).getD i 0 ≤ (kl.m j).value * 4 ∧
      (c04t_stdD kl isNtt prodkj tLast j).getD i 0 =
        prodkj.getD i 0 + ((kl.m j).value * 4 - (nttLazy (kl.tb j) (c04t_stdTmp1 kl tLast j)).getD i 0)) ∧
    (isNtt = false → ∀ i, i < kl.n →
      (inttLazy (kl.tb j) prodkj).getD i 0 < 2 * (kl.m j).value ∧
      (c04t_stdD kl isNtt prodkj tLast j).getD i 0 =
        (inttLazy (kl.tb j) prodkj).getD i 0 + ((kl.m j).value * 2 - (c04t_stdTmp1 kl tLast j).getD i 0)) := by
  obtain ⟨htw, htm, htn, hmw⟩ := c04t_kl_comp hkl hj
  have hq2 := hmw.two_le
  obtain ⟨t1, t2⟩ := c04t_stdTmp1_facts (kl := kl) (j := j) (by omega) (tLast := tLast)
  cases isNtt with
  | true =>
    obtain ⟨e1, e2⟩ := nttLazy_sim htw (c04t_stdTmp1 kl tLast j) (by rw [t1, hts, htn])
      (fun i hi => by rw [htm]; have := (t2 i (by omega)).2; omega)
    have hv : ∀ i, i < kl.n → (c04t_stdD kl true prodkj tLast j).getD i 0 =
        prodkj.getD i 0 + ((kl.m j).value * 4 - (nttLazy (kl.tb j) (c04t_stdTmp1 kl tLast j)).getD i 0) :=
      fun i hi => by unfold c04t_stdD; rw [if_pos rfl]; exact getD_rangeMap _ _ (by omega)
    refine ⟨by unfold c04t_stdD; rw [if_pos rfl]; simp [hps], fun i hi => ?_, fun _ i hi => ⟨?_, hv i hi⟩,
      fun h => by cases h⟩
    · rw [hv i hi]; have := hpl i hi; omega
    · have := (e2 i (by omega)).1; rw [htm] at this; omega
  | false =>
    obtain ⟨e1, e2⟩ := inttLazy_range htw prodkj (by rw [hps, htn])
      (fun i hi => by rw [htm]; have := hpl i (by omega); omega)
    have hv : ∀ i, i < kl.n → (c04t_stdD kl false prodkj tLast j).getD i 0 =
        (inttLazy (kl.tb j) prodkj).getD i 0 + ((kl.m j).value * 2 - (c04t_stdTmp1 kl tLast j).getD i 0) :=
      fun i hi => by
        unfold c04t_stdD; rw [if_neg (by simp)]; exact getD_rangeMap _ _ (by omega)
    have hlt : ∀ i, i < kl.n → (inttLazy (kl.tb j) prodkj).getD i 0 < 2 * (kl.m j).value :=
      fun i hi => by have := e2 i (by omega); rw [htm] at this; exact this
    refine ⟨by unfold c04t_stdD; rw [if_neg (by simp)]; simp [e1, htn], fun i hi => ?_, (fun h => by cases h),
      fun _ i hi => ⟨hlt i hi, hv i hi⟩⟩
    rw [hv i hi]; have := hlt i hi; omega


/-- the continuation of `c04t_stdCompM` after the reduction of `tLast` modulo q_j -/
def c04t_stdContM (kl : KeyLevel) (isNtt : Bool) (ctkj prodkj : Poly) (j : Nat) (tmp0 : Poly) : R Poly := do
  let hm ← barrett64 (kl.c04t_P / 2) (kl.m j)
  let fix ← ckSub (kl.m j).value hm
  let tmp1 ← mapM' tmp0 (fun x => ckAdd x fix)
  let d ← zipM' (if isNtt = true then (nttLazy (kl.tb j) tmp1, prodkj, (kl.m j).value * 4)
      else (tmp1, inttLazy (kl.tb j) prodkj, (kl.m j).value * 2)).2.1
    (if isNtt = true then (nttLazy (kl.tb j) tmp1, prodkj, (kl.m j).value * 4)
      else (tmp1, inttLazy (kl.tb j) prodkj, (kl.m j).value * 2)).1
    (fun a b => do
      let z ← ckSub (if isNtt = true then (nttLazy (kl.tb j) tmp1, prodkj, (kl.m j).value * 4)
        else (tmp1, inttLazy (kl.tb j) prodkj, (kl.m j).value * 2)).2.2 b
      ckAdd a z)
  let d ← mapM' d (fun x => mulOperandMod x (kl.invPModQ.getD j default) (kl.m j))
  zipM' ctkj d (fun a b => addMod a b (kl.m j))

theorem c04t_stdCompM_eq (kl : KeyLevel) (isNtt : Bool) (ctkj prodkj tLast : Poly) (j : Nat) :
    c04t_stdCompM kl isNtt ctkj prodkj tLast j =
      if kl.c04t_P > (kl.m j).value then mapM' tLast (fun x => barrett64 x (kl.m j)) >>= c04t_stdContM kl isNtt ctkj prodkj j
      else c04t_stdContM kl isNtt ctkj prodkj j tLast := rfl

theorem c04t_stdContM_ok {kl : KeyLevel} (hkl : kl.WF) {j : Nat} (hj : j + 1 < kl.ms.size) (isNtt : Bool)
    {ctkj prodkj tLast : Poly}
    (hcs : ctkj.size = kl.n) (hcl : ∀ i, i < kl.n → ctkj.getD i 0 < (kl.m j).value)
    (hps : prodkj.size = kl.n) (hpl : ∀ i, i < kl.n → prodkj.getD i 0 < (kl.m j).value)
    (hts : tLast.size = kl.n)
    (hop : WFOp (kl.m j) (kl.invPModQ.getD j default)) :
    c04t_stdContM kl isNtt ctkj prodkj j (tLast.map (fun x => x % (kl.m j).value)) =
      .ok (c04t_addCt kl ctkj (c04t_deltaOf kl (c04t_stdD kl isNtt prodkj tLast j) j) j) := by
  obtain ⟨htw, htm, htn, hmw⟩ := c04t_kl_comp hkl (show j < kl.ms.size by omega)
  obtain ⟨_, _, _, hPw⟩ := c04t_kl_comp hkl (show kl.ms.size - 1 < kl.ms.size by omega)
  have hq2 := hmw.two_le
  have hq61 := hmw.lt
  have hP61 : kl.c04t_P < 2^61 := hPw.lt
  obtain ⟨t1, t2⟩ := c04t_stdTmp1_facts (kl := kl) (j := j) (by omega) (tLast := tLast)
  obtain ⟨d1, d2, d3, d4⟩ := c04t_stdD_facts hkl (show j < kl.ms.size by omega) isNtt hps hpl hts
  have e1 : barrett64 (kl.c04t_P / 2) (kl.m j) = .ok ((kl.c04t_P / 2) % (kl.m j).value) := barrett64_exact hmw (by omega)
  have e2 : ckSub (kl.m j).value ((kl.c04t_P / 2) % (kl.m j).value) = .ok ((kl.m j).value - (kl.c04t_P / 2) % (kl.m j).value) := by
    unfold ckSub; rw [if_pos (Nat.mod_lt _ (by omega)).le]
  have e3 := c04t_addfix_ok (a := tLast.map (fun x => x % (kl.m j).value))
    (f := (kl.m j).value - (kl.c04t_P / 2) % (kl.m j).value)
    (c04t_forall_map (fun y _ => by
      have := Nat.mod_lt y (show 0 < (kl.m j).value by omega)
      rw [B64_eq]; omega))
  have e5 := c04t_mulop_ok hmw hop (d := c04t_stdD kl isNtt prodkj tLast j)
    (mem_lt_of_getD (fun i hi => by have := d2 i (by omega); omega))
  have e6 := c04t_zipadd_ok hmw (a := ctkj) (d := c04t_deltaOf kl (c04t_stdD kl isNtt prodkj tLast j) j)
    (fun i hi => ⟨hcl i (by omega), by
      unfold c04t_deltaOf
      rw [c10i_getD_map_lt _ _ (by omega)]
      exact Nat.mod_lt _ (by omega)⟩)
  unfold c04t_stdContM
  rw [e1, ok_bind, e2, ok_bind, e3, ok_bind]
  have e4 : zipM' (if isNtt = true then (nttLazy (kl.tb j) (c04t_stdTmp1 kl tLast j), prodkj, (kl.m j).value * 4)
        else (c04t_stdTmp1 kl tLast j, inttLazy (kl.tb j) prodkj, (kl.m j).value * 2)).2.1
      (if isNtt = true then (nttLazy (kl.tb j) (c04t_stdTmp1 kl tLast j), prodkj, (kl.m j).value * 4)
        else (c04t_stdTmp1 kl tLast j, inttLazy (kl.tb j) prodkj, (kl.m j).value * 2)).1
      (fun a b => do
        let z ← ckSub (if isNtt = true then (nttLazy (kl.tb j) (c04t_stdTmp1 kl tLast j), prodkj, (kl.m j).value * 4)
          else (c04t_stdTmp1 kl tLast j, inttLazy (kl.tb j) prodkj, (kl.m j).value * 2)).2.2 b
        ckAdd a z) = .ok (c04t_stdD kl isNtt prodkj tLast j) := by
    cases isNtt with
    | true =>
      simp only [if_true]
      rw [c04t_subadd_ok (fun i hi => by
        have h := (d3 rfl i (by omega))
        refine ⟨h.1, ?_⟩
        have := hpl i (by omega)
        rw [B64_eq]; omega)]
      unfold c04t_stdD; rw [if_pos rfl]
    | false =>
      simp only [Bool.false_eq_true, if_false]
      rw [c04t_subadd_ok (fun i hi => by
        have hi' : i < kl.n := by
          have := (inttLazy_range htw prodkj (by rw [hps, htn])
            (fun i hi => by rw [htm]; have := hpl i (by omega); omega)).1
          omega
        have h := (d4 rfl i hi')
        have := (t2 i (by omega)).2
        refine ⟨by omega, ?_⟩
        rw [B64_eq]; omega)]
      unfold c04t_stdD; rw [if_neg (by simp)]
  exact (congrArg (fun x => x >>= _) e4).trans (by rw [ok_bind, e5, ok_bind]; exact e6)

theorem c04t_stdCompM_ok {kl : KeyLevel} (hkl : kl.WF) {j : Nat} (hj : j + 1 < kl.ms.size) (isNtt : Bool)
    {ctkj prodkj tLast : Poly}
    (hcs : ctkj.size = kl.n) (hcl : ∀ i, i < kl.n → ctkj.getD i 0 < (kl.m j).value)
    (hps : prodkj.size = kl.n) (hpl : ∀ i, i < kl.n → prodkj.getD i 0 < (kl.m j).value)
    (hts : tLast.size = kl.n) (htl : ∀ i, i < kl.n → tLast.getD i 0 < kl.c04t_P)
    (hop : WFOp (kl.m j) (kl.invPModQ.getD j default)) :
    c04t_stdCompM kl isNtt ctkj prodkj tLast j =
      .ok (c04t_addCt kl ctkj (c04t_deltaOf kl (c04t_stdD kl isNtt prodkj tLast j) j) j) := by
  obtain ⟨_, _, _, hmw⟩ := c04t_kl_comp hkl (show j < kl.ms.size by omega)
  obtain ⟨_, _, _, hPw⟩ := c04t_kl_comp hkl (show kl.ms.size - 1 < kl.ms.size by omega)
  have hP61 : kl.c04t_P < 2^61 := hPw.lt
  have hmem : ∀ x ∈ tLast, x < kl.c04t_P := mem_lt_of_getD (fun i hi => htl i (by omega))
  rw [c04t_stdCompM_eq]
  by_cases h : kl.c04t_P > (kl.m j).value
  · rw [if_pos h, mapM'_ok _ (fun x hx => barrett64_exact hmw (by have := hmem x hx; omega)), ok_bind]
    exact c04t_stdContM_ok hkl hj isNtt hcs hcl hps hpl hts hop
  · rw [if_neg h]
    have := c04t_stdContM_ok hkl hj isNtt hcs hcl hps hpl hts hop
    rw [c04t_map_mod_id' (fun x hx => by have := hmem x hx; omega)] at this
    exact this

/-! ## T2: linearity of the transform (NTT-form branches) -/

/-- if δ = (A − NTT(B))·y pointwise in NTT form, then intt δ = (intt A − B)·y coefficientwise (all modulo q) -/
theorem c04t_ntt_affine {t : NTTTables} (hw : t.WF) {A Bc δ : Array Nat} {y : Nat}
    (hA : A.size = 2^t.k) (hAl : ∀ l, l < 2^t.k → A.getD l 0 < t.modulus.value)
    (hδ : δ.size = 2^t.k) (hδl : ∀ l, l < 2^t.k → δ.getD l 0 < t.modulus.value)
    (hv : ∀ l, l < 2^t.k → ((δ.getD l 0 : Nat) : ZMod t.modulus.value) =
      (((A.getD l 0 : Nat) : ZMod t.modulus.value) - ((evalSpec t Bc l : Nat) : ZMod t.modulus.value)) * (y : ZMod t.modulus.value)) :
    ∀ c, c < 2^t.k → (((intt t δ).getD c 0 : Nat) : ZMod t.modulus.value) =
      ((((intt t A).getD c 0 : Nat) : ZMod t.modulus.value) - ((Bc.getD c 0 : Nat) : ZMod t.modulus.value)) * (y : ZMod t.modulus.value) := by
  have hq2 := hw.mwf.two_le
  have hq0 : 0 < t.modulus.value := by omega
  obtain ⟨a1, a2⟩ := intt_sim hw A hA (fun l hl => by have := hAl l hl; omega)
  generalize hwd : ((List.range (2^t.k)).map fun c =>
    (((intt t A).getD c 0 + (t.modulus.value - Bc.getD c 0 % t.modulus.value)) * y) % t.modulus.value).toArray = w
  have hws : w.size = 2^t.k := by rw [← hwd]; simp
  have hwv : ∀ c, c < 2^t.k → w.getD c 0 =
      (((intt t A).getD c 0 + (t.modulus.value - Bc.getD c 0 % t.modulus.value)) * y) % t.modulus.value := by
    intro c hc; rw [← hwd]; exact getD_rangeMap _ _ hc
  have hwl : ∀ c, c < 2^t.k → w.getD c 0 < t.modulus.value := fun c hc => by rw [hwv c hc]; exact Nat.mod_lt _ hq0
  have hwc : ∀ c, c < 2^t.k → ((w.getD c 0 : Nat) : ZMod t.modulus.value) =
      ((((intt t A).getD c 0 : Nat) : ZMod t.modulus.value) - ((Bc.getD c 0 : Nat) : ZMod t.modulus.value))
        * (y : ZMod t.modulus.value) := by
    intro c hc
    rw [hwv c hc, ZMod.natCast_mod, Nat.cast_mul, Nat.cast_add, Nat.cast_sub (Nat.mod_lt _ hq0).le,
      ZMod.natCast_self, ZMod.natCast_mod]
    ring
  have hnw : ntt t w = δ := by
    obtain ⟨e1, e2⟩ := ntt_eval hw w hws (fun c hc => by have := hwl c hc; omega)
    apply array_ext_getD e1 hδ
    intro l hl
    apply cast_inj_lt (by rw [e2 l hl]; exact c01o_evalSpec_lt t hq0 _ _) (hδl l hl)
    obtain ⟨_, eA⟩ := ntt_eval hw (intt t A) a1 (fun c hc => by have := (a2 c hc).1; omega)
    have hAe : A.getD l 0 = evalSpec t (intt t A) l := by rw [← eA l hl, ntt_intt hw A hA hAl]
    rw [e2 l hl, hv l hl, hAe, c01o_evalSpec_cast, c01o_evalSpec_cast, c01o_evalSpec_cast, ← Finset.sum_sub_distrib,
      Finset.sum_mul]
    apply Finset.sum_congr rfl
    intro c hc
    rw [hwc c (mem_range.mp hc)]
    ring
  intro c hc
  rw [← hnw, intt_ntt hw w hws hwl, hwc c hc]

theorem c04t_intt_eq_lazy_mod {t : NTTTables} (hw : t.WF) {a : Array Nat} (hs : a.size = 2^t.k)
    (ha : ∀ j, j < 2^t.k → a.getD j 0 < 2 * t.modulus.value) {i : Nat} (hi : i < 2^t.k) :
    (intt t a).getD i 0 = (inttLazy t a).getD i 0 % t.modulus.value := by
  have hq2 := hw.mwf.two_le
  obtain ⟨e1, e2⟩ := inttLazy_range hw a hs ha
  unfold intt
  simp only []
  rw [getD_map_lt _ _ (by omega)]
  exact reduce2 (by omega) (e2 i hi)


/-! ## T2: coefficient form of the added polynomial, generic in the table -/

theorem c04t_cast_of_emod {q : Nat} {X : Int} {a : Nat} (h : X % (q : Int) = a) : (X : ZMod q) = (a : ZMod q) := by
  rw [← ZMod.intCast_mod X q, h, Int.cast_natCast]

theorem c04t_emod_of_cast {q : Nat} {d : Nat} {Y : Int} (h : (d : ZMod q) = (Y : ZMod q)) :
    (d : Int) % (q : Int) = Y % (q : Int) := by
  have : (((d : Int)) : ZMod q) = (Y : ZMod q) := by rw [Int.cast_natCast]; exact h
  exact (ZMod.intCast_eq_intCast_iff' _ _ _).mp this

theorem c04t_inv_cast {q y P : Nat} (h : (y * P) % q = 1 % q) : (y : ZMod q) * (P : ZMod q) = 1 := by
  have := (ZMod.natCast_eq_natCast_iff' (y * P) 1 q).mpr h
  simpa using this

/-- coefficient form (as seen through `intt` when the data is in NTT form) -/
def c04t_coefOf (t : NTTTables) (isNtt : Bool) (p : Poly) : Poly := if isNtt then intt t p else p

/-- generic core of both branches: δ = (A − B̂)·y in the working representation ⇒ coef(δ) = (coef A − B)·y -/
theorem c04t_delta_generic {t : NTTTables} (hw : t.WF) (isNtt : Bool) {prodkj B d δ : Array Nat} {y : Nat}
    (hps : prodkj.size = 2^t.k) (hpl : ∀ i, i < 2^t.k → prodkj.getD i 0 < t.modulus.value)
    (hB : B.size = 2^t.k) (hBl : ∀ i, i < 2^t.k → B.getD i 0 < 4 * t.modulus.value)
    (hδs : δ.size = 2^t.k) (hδv : ∀ i, i < 2^t.k → δ.getD i 0 = (d.getD i 0 * y) % t.modulus.value)
    (hd1 : isNtt = true → ∀ i, i < 2^t.k → ∃ L, (nttLazy t B).getD i 0 ≤ L ∧ t.modulus.value ∣ L ∧
      d.getD i 0 = prodkj.getD i 0 + (L - (nttLazy t B).getD i 0))
    (hd2 : isNtt = false → ∀ i, i < 2^t.k → ∃ L, B.getD i 0 ≤ L ∧ t.modulus.value ∣ L ∧
      d.getD i 0 = (inttLazy t prodkj).getD i 0 + (L - B.getD i 0)) :
    ∀ c, c < 2^t.k → (((c04t_coefOf t isNtt δ).getD c 0 : Nat) : ZMod t.modulus.value) =
      ((((intt t prodkj).getD c 0 : Nat) : ZMod t.modulus.value) - ((B.getD c 0 : Nat) : ZMod t.modulus.value))
        * (y : ZMod t.modulus.value) := by
  have hq2 := hw.mwf.two_le
  have hq0 : 0 < t.modulus.value := by omega
  have hδl : ∀ i, i < 2^t.k → δ.getD i 0 < t.modulus.value := fun i hi => by rw [hδv i hi]; exact Nat.mod_lt _ hq0
  have hLz : ∀ L : Nat, t.modulus.value ∣ L → ((L : Nat) : ZMod t.modulus.value) = 0 :=
    fun L h => (ZMod.natCast_eq_zero_iff _ _).mpr h
  cases isNtt with
  | true =>
    have := c04t_ntt_affine hw (A := prodkj) (Bc := B) (δ := δ) (y := y) hps hpl hδs hδl (fun l hl => by
      obtain ⟨L, h1, h2, h3⟩ := hd1 rfl l hl
      have hs := ((nttLazy_spec hw B hB hBl).2 l hl).2
      rw [hδv l hl, ZMod.natCast_mod, Nat.cast_mul, h3, Nat.cast_add, Nat.cast_sub h1, hLz L h2, ← hs,
        ZMod.natCast_mod]
      ring)
    intro c hc
    unfold c04t_coefOf; rw [if_pos rfl]
    exact this c hc
  | false =>
    intro c hc
    unfold c04t_coefOf; rw [if_neg (by simp)]
    obtain ⟨L, h1, h2, h3⟩ := hd2 rfl c hc
    rw [hδv c hc, ZMod.natCast_mod, Nat.cast_mul, h3, Nat.cast_add, Nat.cast_sub h1, hLz L h2,
      c04t_intt_eq_lazy_mod hw hps (fun j hj => by have := hpl j hj; omega) hc, ZMod.natCast_mod]
    ring


/-! ## T2: the rounding branch, semantics of the added polynomial -/

/-- `t_last` of the rounding branch: (inttLazy(prod_P) + ⌊P/2⌋) mod P -/
def c04t_stdTLast (kl : KeyLevel) (prodP : Poly) : Poly :=
  (inttLazy (kl.tb (kl.ms.size - 1)) prodP).map fun x => (x + kl.c04t_P / 2) % kl.c04t_P

theorem c04t_stdTLast_facts {kl : KeyLevel} (hkl : kl.WF) (hk : 0 < kl.ms.size) {prodP : Poly}
    (hps : prodP.size = kl.n) (hpl : ∀ i, i < kl.n → prodP.getD i 0 < kl.c04t_P) :
    (c04t_stdTLast kl prodP).size = kl.n ∧ ∀ i, i < kl.n →
      (c04t_stdTLast kl prodP).getD i 0 = ((intt (kl.tb (kl.ms.size - 1)) prodP).getD i 0 + kl.c04t_P / 2) % kl.c04t_P ∧
      (c04t_stdTLast kl prodP).getD i 0 < kl.c04t_P ∧
      (inttLazy (kl.tb (kl.ms.size - 1)) prodP).getD i 0 < 2 * kl.c04t_P := by
  obtain ⟨htw, htm, htn, hmw⟩ := c04t_kl_comp hkl (show kl.ms.size - 1 < kl.ms.size by omega)
  have hP2 : 2 ≤ kl.c04t_P := hmw.two_le
  have htm' : (kl.tb (kl.ms.size - 1)).modulus.value = kl.c04t_P := htm
  obtain ⟨e1, e2⟩ := inttLazy_range htw prodP (by rw [hps, htn]) (fun i hi => by
    rw [htm']; have := hpl i (by omega); omega)
  unfold c04t_stdTLast
  refine ⟨by rw [Array.size_map, e1, htn], fun i hi => ?_⟩
  rw [c10i_getD_map_lt _ _ (by rw [e1, htn]; exact hi)]
  refine ⟨?_, Nat.mod_lt _ (by omega), by have := e2 i (by omega); rw [htm'] at this; exact this⟩
  rw [c04t_intt_eq_lazy_mod htw (by rw [hps, htn]) (fun i hi => by rw [htm']; have := hpl i (by omega); omega)
    (by rw [htn]; exact hi), htm', Nat.mod_add_mod]

theorem c04t_deltaOf_facts {kl : KeyLevel} {j : Nat} (hq : 0 < (kl.m j).value) (d : Poly) :
    (c04t_deltaOf kl d j).size = d.size ∧ ∀ i, i < d.size →
      (c04t_deltaOf kl d j).getD i 0 = (d.getD i 0 * (kl.invPModQ.getD j default).operand) % (kl.m j).value ∧
      (c04t_deltaOf kl d j).getD i 0 < (kl.m j).value := by
  unfold c04t_deltaOf
  refine ⟨by simp, fun i hi => ?_⟩
  rw [c10i_getD_map_lt _ _ hi]
  exact ⟨rfl, Nat.mod_lt _ hq⟩

/-- the P^{-1} operands of the key level -/
def c04t_InvP (kl : KeyLevel) (dsz : Nat) : Prop :=
  ∀ j, j < dsz → WFOp (kl.m j) (kl.invPModQ.getD j default) ∧
    ((kl.invPModQ.getD j default).operand * kl.c04t_P) % (kl.m j).value = 1

theorem c04t_std_delta_round {kl : KeyLevel} (hkl : kl.WF) {j : Nat} (hj : j + 1 < kl.ms.size) (isNtt : Bool)
    {prodkj prodP : Poly}
    (hps : prodkj.size = kl.n) (hpl : ∀ i, i < kl.n → prodkj.getD i 0 < (kl.m j).value)
    (hPs : prodP.size = kl.n) (hPl : ∀ i, i < kl.n → prodP.getD i 0 < kl.c04t_P)
    (hinv : ((kl.invPModQ.getD j default).operand * kl.c04t_P) % (kl.m j).value = 1) :
    ∀ c, c < kl.n → ∀ X : Int,
      X % ((kl.m j).value : Int) = ((intt (kl.tb j) prodkj).getD c 0 : Nat) →
      X % (kl.c04t_P : Int) = ((intt (kl.tb (kl.ms.size - 1)) prodP).getD c 0 : Nat) →
      (((c04t_coefOf (kl.tb j) isNtt
          (c04t_deltaOf kl (c04t_stdD kl isNtt prodkj (c04t_stdTLast kl prodP) j) j)).getD c 0 : Nat) : Int)
        % ((kl.m j).value : Int) = Spec.roundDiv X kl.c04t_P % ((kl.m j).value : Int) := by
  obtain ⟨htw, htm, htn, hmw⟩ := c04t_kl_comp hkl (show j < kl.ms.size by omega)
  obtain ⟨_, _, _, hPw⟩ := c04t_kl_comp hkl (show kl.ms.size - 1 < kl.ms.size by omega)
  have hP2 : 2 ≤ kl.c04t_P := hPw.two_le
  have hq2 := hmw.two_le
  obtain ⟨l1, l2⟩ := c04t_stdTLast_facts hkl (by omega) hPs hPl
  obtain ⟨t1, t2⟩ := c04t_stdTmp1_facts (kl := kl) (j := j) (by omega) (tLast := c04t_stdTLast kl prodP)
  obtain ⟨d1, d2, d3, d4⟩ := c04t_stdD_facts hkl (show j < kl.ms.size by omega) isNtt hps hpl l1
  obtain ⟨f1, f2⟩ := c04t_deltaOf_facts (kl := kl) (j := j) (by omega) (c04t_stdD kl isNtt prodkj (c04t_stdTLast kl prodP) j)
  have hn : ∀ {i : Nat}, i < 2^(kl.tb j).k → i < kl.n := fun h => by rw [← htn]; exact h
  have hg := c04t_delta_generic htw isNtt (prodkj := prodkj) (B := c04t_stdTmp1 kl (c04t_stdTLast kl prodP) j)
    (d := c04t_stdD kl isNtt prodkj (c04t_stdTLast kl prodP) j)
    (δ := c04t_deltaOf kl (c04t_stdD kl isNtt prodkj (c04t_stdTLast kl prodP) j) j)
    (y := (kl.invPModQ.getD j default).operand) (by rw [hps, htn]) (fun i hi => by rw [htm]; exact hpl i (hn hi))
    (by rw [t1, l1, htn])
    (fun i hi => by rw [htm]; have := (t2 i (by rw [l1]; exact hn hi)).2; omega) (by rw [f1, d1, htn])
    (fun i hi => by rw [htm]; exact (f2 i (by rw [d1]; exact hn hi)).1)
    (fun h i hi => ⟨_, (d3 h i (hn hi)).1, ⟨4, by rw [htm]⟩, (d3 h i (hn hi)).2⟩)
    (fun h i hi => ⟨_, by have := (t2 i (by rw [l1]; exact hn hi)).2; omega, ⟨2, by rw [htm]⟩, (d4 h i (hn hi)).2⟩)
  intro c hc X hXa hXb
  have hc' : c < 2^(kl.tb j).k := by rw [htn]; exact hc
  rw [← htm] at hXa hinv ⊢
  apply c04t_emod_of_cast
  refine c04t_std_scalar (by omega) (c04t_inv_cast (by rw [hinv, Nat.mod_eq_of_lt (by omega)])) ?_ X
    (c04t_cast_of_emod hXa) hXb
  rw [hg c hc', (t2 c (by rw [l1]; exact hc)).1, (l2 c hc).1, Nat.cast_add, htm, ZMod.natCast_mod,
    Nat.cast_sub (Nat.mod_lt _ (by omega)).le, ZMod.natCast_self, ZMod.natCast_mod]
  ring

/-! ## T2: assembling `switchKey` -/

def c04t_stdPolyM (kl : KeyLevel) (dsz : Nat) (isNtt : Bool) (ct : Ct) (prods : List (List Poly)) (k : Nat) : R RnsPoly := do
  let P := kl.m (kl.ms.size - 1)
  let tl0 := inttLazy (kl.tb (kl.ms.size - 1)) ((prods.getD dsz []).getD k #[])
  let half := P.value / 2
  let tLast ← mapM' tl0 (fun x => do let y ← ckAdd x half; barrett64 y P)
  let comps ← (List.range dsz).mapM fun j =>
    c04t_stdCompM kl isNtt ((ct.polys.getD k #[]).getD j #[]) ((prods.getD j []).getD k #[]) tLast j
  pure comps.toArray

def c04t_bgvCompM (kl : KeyLevel) (ctkj prodkj tLast kk : Poly) (j : Nat) : R Poly := do
  let P := kl.m (kl.ms.size - 1)
  let mj := kl.m j
  let delta0 ← mapM' kk (fun x => do let y ← barrett64 x mj; mulMod y P.value mj)
  let cmod ← mapM' tLast (fun x => barrett64 x mj)
  let delta1 ← zipM' delta0 cmod (fun a b => addMod a b mj)
  let delta2 := ntt (kl.tb j) delta1
  let d ← zipM' prodkj delta2 (fun a b => subMod a b mj)
  let d ← mapM' d (fun x => mulOperandMod x (kl.invPModQ.getD j default) mj)
  zipM' ctkj d (fun a b => addMod a b mj)

def c04t_bgvPolyM (kl : KeyLevel) (dsz : Nat) (ct : Ct) (prods : List (List Poly)) (k : Nat) : R RnsPoly := do
  let tLast := intt (kl.tb (kl.ms.size - 1)) ((prods.getD dsz []).getD k #[])
  let kk0 ← mapM' tLast (fun x => do let y ← barrett64 x kl.t; negateMod y kl.t)
  let kk ← if kl.invPModT ≠ 1 then mapM' kk0 (fun x => mulMod x kl.invPModT kl.t) else pure kk0
  let comps ← (List.range dsz).mapM fun j =>
    c04t_bgvCompM kl ((ct.polys.getD k #[]).getD j #[]) ((prods.getD j []).getD k #[]) tLast kk j
  pure comps.toArray

/-- the output ciphertext: the first `kcc` polynomials replaced -/
def c04t_updated (ct : Ct) (kcc : Nat) (newPolys : List RnsPoly) : Ct :=
  { ct with polys := ((List.range ct.polys.size).map fun idx =>
      if idx < kcc then newPolys.getD idx #[] else ct.polys.getD idx #[]).toArray }

/-- the coefficient-form target handed to `ksAccumulate` -/
def c04t_targetCoef (kl : KeyLevel) (dsz : Nat) (isNtt : Bool) (target : RnsPoly) : RnsPoly :=
  if isNtt then Array.ofFn (n := dsz) fun j => intt (kl.tb j.val) (target.getD j.val #[]) else target

theorem c04t_switchKey_eq (kl : KeyLevel) (scheme : Scheme) (dsz : Nat) (ct : Ct) (target : RnsPoly) (key : KSKey) :
    switchKey kl scheme dsz ct target key =
      (if kl.ms.size < 2 ∨ dsz + 1 > kl.ms.size ∨ key.size < dsz then .error .refused else do
        (match scheme with
         | .bfv => if ct.ntt then Except.error Err.refused else pure ()
         | _ => if !ct.ntt then Except.error Err.refused else pure ())
        let prods ← (List.range (dsz + 1)).mapM fun i =>
          ksAccumulate kl dsz ct.ntt target (c04t_targetCoef kl dsz ct.ntt target) key i (key.getD 0 #[]).size
        let newPolys ← (List.range (key.getD 0 #[]).size).mapM fun k =>
          match scheme with
          | .bgv => c04t_bgvPolyM kl dsz ct prods k
          | _ => c04t_stdPolyM kl dsz ct.ntt ct prods k
        pure (c04t_updated ct (key.getD 0 #[]).size newPolys)) := by
  cases scheme <;> rfl

/-- the scheme / representation pairs accepted by the rounding branch -/
def c04t_StdMode (scheme : Scheme) (isNtt : Bool) : Prop :=
  (scheme = .bfv ∧ isNtt = false) ∨ (scheme = .ckks ∧ isNtt = true)

theorem c04t_switchKey_std_eq {kl : KeyLevel} {scheme : Scheme} {dsz : Nat} {ct : Ct} (target : RnsPoly) {key : KSKey}
    (hsz : ¬ (kl.ms.size < 2 ∨ dsz + 1 > kl.ms.size ∨ key.size < dsz)) (hmode : c04t_StdMode scheme ct.ntt) :
    switchKey kl scheme dsz ct target key = (do
        let prods ← (List.range (dsz + 1)).mapM fun i =>
          ksAccumulate kl dsz ct.ntt target (c04t_targetCoef kl dsz ct.ntt target) key i (key.getD 0 #[]).size
        let newPolys ← (List.range (key.getD 0 #[]).size).mapM fun k => c04t_stdPolyM kl dsz ct.ntt ct prods k
        pure (c04t_updated ct (key.getD 0 #[]).size newPolys)) := by
  rw [c04t_switchKey_eq, if_neg hsz]
  rcases hmode with ⟨rfl, h⟩ | ⟨rfl, h⟩
  · simp only [h]; rfl
  · simp only [h]; rfl

theorem c04t_switchKey_bgv_eq {kl : KeyLevel} {dsz : Nat} {ct : Ct} (target : RnsPoly) {key : KSKey}
    (hsz : ¬ (kl.ms.size < 2 ∨ dsz + 1 > kl.ms.size ∨ key.size < dsz)) (hntt : ct.ntt = true) :
    switchKey kl .bgv dsz ct target key = (do
        let prods ← (List.range (dsz + 1)).mapM fun i =>
          ksAccumulate kl dsz ct.ntt target (c04t_targetCoef kl dsz ct.ntt target) key i (key.getD 0 #[]).size
        let newPolys ← (List.range (key.getD 0 #[]).size).mapM fun k => c04t_bgvPolyM kl dsz ct prods k
        pure (c04t_updated ct (key.getD 0 #[]).size newPolys)) := by
  rw [c04t_switchKey_eq, if_neg hsz]
  simp only [hntt]; rfl


/-- everything `switchKey` needs from its inputs (`kcc` = number of key components = `(key[0]).size`) -/
structure c04t_KSInput (kl : KeyLevel) (dsz : Nat) (ct : Ct) (target : RnsPoly) (key : KSKey) : Prop where
  hkl : kl.WF
  hsz : 2 ≤ kl.ms.size
  hd : dsz + 1 ≤ kl.ms.size
  hks : dsz ≤ key.size
  htarget : c04t_Canon kl dsz target
  hkey : ∀ i, i ≤ dsz → c04t_KeyCanonAt kl dsz (key.getD 0 #[]).size key (c04t_keyIndex kl dsz i)
  hov : ∀ i, i ≤ dsz →
    dsz * (4 * (kl.m (c04t_keyIndex kl dsz i)).value * (kl.m (c04t_keyIndex kl dsz i)).value) < 2^128
  hct : ∀ k, k < (key.getD 0 #[]).size → c04t_Canon kl dsz (ct.polys.getD k #[])
  hinv : c04t_InvP kl dsz

theorem c04t_targetCoef_facts {kl : KeyLevel} (hkl : kl.WF) {dsz : Nat} (hd : dsz + 1 ≤ kl.ms.size) (isNtt : Bool)
    {target : RnsPoly} (ht : c04t_Canon kl dsz target) :
    c04t_Canon kl dsz (c04t_targetCoef kl dsz isNtt target) ∧
    (isNtt = true → c04t_Canon kl dsz target ∧
      ∀ j, j < dsz → (c04t_targetCoef kl dsz isNtt target).getD j #[] = intt (kl.tb j) (target.getD j #[])) := by
  cases isNtt with
  | false => exact ⟨by unfold c04t_targetCoef; rw [if_neg (by simp)]; exact ht, fun h => by cases h⟩
  | true =>
    have he : ∀ j, j < dsz → (c04t_targetCoef kl dsz true target).getD j #[] = intt (kl.tb j) (target.getD j #[]) := by
      intro j hj
      unfold c04t_targetCoef; rw [if_pos rfl]
      exact c01o_ofFn_getD dsz _ _ hj
    refine ⟨fun j hj => ?_, fun _ => ⟨ht, he⟩⟩
    obtain ⟨htw, htm, htn, hmw⟩ := c04t_kl_comp hkl (show j < kl.ms.size by omega)
    obtain ⟨a1, a2⟩ := intt_sim htw (target.getD j #[]) (by rw [(ht j hj).1, htn])
      (fun l hl => by rw [htm]; have := (ht j hj).2 l (by omega); omega)
    rw [he j hj]
    exact ⟨by rw [a1, htn], fun l hl => by have := (a2 l (by omega)).1; rw [htm] at this; exact this⟩

/-- the list of accumulated products `poly_prod[i][k]` -/
def c04t_prods (kl : KeyLevel) (dsz : Nat) (isNtt : Bool) (target : RnsPoly) (key : KSKey) : List (List Poly) :=
  (List.range (dsz + 1)).map fun i => (List.range (key.getD 0 #[]).size).map
    (c04t_accRes kl dsz isNtt target (c04t_targetCoef kl dsz isNtt target) key i)

theorem c04t_prods_ok {kl : KeyLevel} {dsz : Nat} {ct : Ct} {target : RnsPoly} {key : KSKey}
    (h : c04t_KSInput kl dsz ct target key) (isNtt : Bool) :
    ((List.range (dsz + 1)).mapM fun i =>
      ksAccumulate kl dsz isNtt target (c04t_targetCoef kl dsz isNtt target) key i (key.getD 0 #[]).size)
      = .ok (c04t_prods kl dsz isNtt target key) := by
  obtain ⟨f1, f2⟩ := c04t_targetCoef_facts h.hkl h.hd isNtt h.htarget
  apply listMapM_ok
  intro i hi
  have hi' : i ≤ dsz := by have := List.mem_range.mp hi; omega
  exact c04t_ksAccumulate_val h.hkl h.hd f1 f2 hi' (h.hkey i hi') (h.hov i hi')

theorem c04t_prods_get (kl : KeyLevel) (dsz : Nat) (isNtt : Bool) (target : RnsPoly) (key : KSKey) {i k : Nat}
    (hi : i ≤ dsz) (hk : k < (key.getD 0 #[]).size) :
    ((c04t_prods kl dsz isNtt target key).getD i []).getD k #[] =
      c04t_accRes kl dsz isNtt target (c04t_targetCoef kl dsz isNtt target) key i k := by
  unfold c04t_prods
  rw [c04t_list_getD_rangeMap _ _ _ (by omega), c04t_list_getD_rangeMap _ _ _ hk]

theorem c04t_accRes_lt {kl : KeyLevel} (hkl : kl.WF) {dsz : Nat} (hd : dsz + 1 ≤ kl.ms.size) (isNtt : Bool)
    (target targetCoef : RnsPoly) (key : KSKey) {i : Nat} (hi : i ≤ dsz) (k : Nat) {l : Nat} (hl : l < kl.n) :
    (c04t_accRes kl dsz isNtt target targetCoef key i k).getD l 0 < (kl.m (c04t_keyIndex kl dsz i)).value := by
  obtain ⟨_, _, _, hmw⟩ := c04t_kl_comp hkl (c04t_keyIndex_lt hd hi)
  rw [c04t_accRes_getD _ _ _ _ _ _ _ _ hl]
  exact Nat.mod_lt _ (by have := hmw.two_le; omega)

theorem c04t_keyIndex_dsz (kl : KeyLevel) (dsz : Nat) : c04t_keyIndex kl dsz dsz = kl.ms.size - 1 := by
  unfold c04t_keyIndex; rw [if_pos rfl]

/-- new polynomial k of the rounding branch -/
def c04t_stdNew (kl : KeyLevel) (dsz : Nat) (isNtt : Bool) (ct : Ct) (prods : List (List Poly)) (k : Nat) : RnsPoly :=
  ((List.range dsz).map fun j =>
    c04t_addCt kl ((ct.polys.getD k #[]).getD j #[])
      (c04t_deltaOf kl (c04t_stdD kl isNtt ((prods.getD j []).getD k #[])
        (c04t_stdTLast kl ((prods.getD dsz []).getD k #[])) j) j) j).toArray

theorem c04t_stdPolyM_ok {kl : KeyLevel} {dsz : Nat} {ct : Ct} {target : RnsPoly} {key : KSKey}
    (h : c04t_KSInput kl dsz ct target key) (isNtt : Bool) {k : Nat} (hk : k < (key.getD 0 #[]).size) :
    c04t_stdPolyM kl dsz isNtt ct (c04t_prods kl dsz isNtt target key) k =
      .ok (c04t_stdNew kl dsz isNtt ct (c04t_prods kl dsz isNtt target key) k) := by
  have hd := h.hd
  obtain ⟨htw, htm, htn, hPw⟩ := c04t_kl_comp h.hkl (show kl.ms.size - 1 < kl.ms.size by omega)
  have hP2 : 2 ≤ kl.c04t_P := hPw.two_le
  have hP61 : kl.c04t_P < 2^61 := hPw.lt
  have hPl : ∀ i, i < kl.n → ((((c04t_prods kl dsz isNtt target key).getD dsz []).getD k #[])).getD i 0 < kl.c04t_P := by
    intro i hi
    rw [c04t_prods_get _ _ _ _ _ (Nat.le_refl _) hk]
    have := c04t_accRes_lt h.hkl h.hd isNtt target (c04t_targetCoef kl dsz isNtt target) key (Nat.le_refl dsz) k hi
    rw [c04t_keyIndex_dsz] at this
    exact this
  have hPs : ((((c04t_prods kl dsz isNtt target key).getD dsz []).getD k #[])).size = kl.n := by
    rw [c04t_prods_get _ _ _ _ _ (Nat.le_refl _) hk]; exact c04t_accRes_size _ _ _ _ _ _ _ _
  obtain ⟨l1, l2⟩ := c04t_stdTLast_facts h.hkl (by omega) hPs hPl
  have e1 := c04t_tlast_ok hPw
    (tl0 := inttLazy (kl.tb (kl.ms.size - 1)) (((c04t_prods kl dsz isNtt target key).getD dsz []).getD k #[]))
    (half := kl.c04t_P / 2)
    (fun x hx => by
      have hs := (inttLazy_range htw _ (by rw [hPs, htn]) (fun i hi => by
        have := hPl i (by omega); have : (kl.tb (kl.ms.size - 1)).modulus.value = kl.c04t_P := htm; omega)).1
      have := mem_lt_of_getD (B := 2 * kl.c04t_P) (fun i hi => (l2 i (by omega)).2.2) x hx
      rw [B64_eq]; omega)
  unfold c04t_stdPolyM
  simp only []
  refine (congrArg (fun x => x >>= _) e1).trans ?_
  rw [ok_bind]
  rw [listMapM_ok (List.range dsz) _ (fun j =>
    c04t_addCt kl ((ct.polys.getD k #[]).getD j #[])
      (c04t_deltaOf kl (c04t_stdD kl isNtt (((c04t_prods kl dsz isNtt target key).getD j []).getD k #[])
        (c04t_stdTLast kl (((c04t_prods kl dsz isNtt target key).getD dsz []).getD k #[])) j) j) j)]
  · rfl
  · intro j hj
    have hj' := List.mem_range.mp hj
    have hjk : c04t_keyIndex kl dsz j = j := c04t_keyIndex_of_lt kl hj'
    refine c04t_stdCompM_ok h.hkl (by omega) isNtt ((h.hct k hk j hj').1) ((h.hct k hk j hj').2) ?_ ?_ l1
      (fun i hi => (l2 i hi).2.1) (h.hinv j hj').1
    · rw [c04t_prods_get _ _ _ _ _ (by omega) hk]; exact c04t_accRes_size _ _ _ _ _ _ _ _
    · intro i hi
      rw [c04t_prods_get _ _ _ _ _ (by omega) hk]
      have := c04t_accRes_lt h.hkl h.hd isNtt target (c04t_targetCoef kl dsz isNtt target) key (show j ≤ dsz by omega) k hi
      rw [hjk] at this
      exact this


theorem c04t_hsz_of {kl : KeyLevel} {dsz : Nat} {ct : Ct} {target : RnsPoly} {key : KSKey}
    (h : c04t_KSInput kl dsz ct target key) : ¬ (kl.ms.size < 2 ∨ dsz + 1 > kl.ms.size ∨ key.size < dsz) := by
  have := h.hsz; have := h.hd; have := h.hks; omega

theorem c04t_switchKey_std_val {kl : KeyLevel} {scheme : Scheme} {dsz : Nat} {ct : Ct} {target : RnsPoly} {key : KSKey}
    (h : c04t_KSInput kl dsz ct target key) (hmode : c04t_StdMode scheme ct.ntt) :
    switchKey kl scheme dsz ct target key = .ok (c04t_updated ct (key.getD 0 #[]).size
      ((List.range (key.getD 0 #[]).size).map
        (c04t_stdNew kl dsz ct.ntt ct (c04t_prods kl dsz ct.ntt target key)))) := by
  rw [c04t_switchKey_std_eq target (c04t_hsz_of h) hmode, c04t_prods_ok h ct.ntt, ok_bind,
    listMapM_ok (List.range (key.getD 0 #[]).size) _
      (c04t_stdNew kl dsz ct.ntt ct (c04t_prods kl dsz ct.ntt target key))
      (fun k hk => c04t_stdPolyM_ok h ct.ntt (List.mem_range.mp hk))]
  rfl

theorem c04t_updated_facts (ct : Ct) (kcc : Nat) (newPolys : List RnsPoly) :
    (c04t_updated ct kcc newPolys).ntt = ct.ntt ∧ (c04t_updated ct kcc newPolys).cf = ct.cf ∧
    (c04t_updated ct kcc newPolys).polys.size = ct.polys.size ∧
    (∀ idx, kcc ≤ idx → (c04t_updated ct kcc newPolys).polys.getD idx #[] = ct.polys.getD idx #[]) ∧
    (∀ idx, idx < kcc → idx < ct.polys.size → (c04t_updated ct kcc newPolys).polys.getD idx #[] = newPolys.getD idx #[]) := by
  refine ⟨rfl, rfl, by simp [c04t_updated], fun idx hidx => ?_, fun idx h1 h2 => ?_⟩
  · by_cases h2 : idx < ct.polys.size
    · show (((List.range ct.polys.size).map _).toArray).getD idx #[] = _
      rw [getD_rangeMap' _ _ _ h2, if_neg (by omega)]
    · show (((List.range ct.polys.size).map _).toArray).getD idx #[] = _
      simp [Array.getD, h2]
  · show (((List.range ct.polys.size).map _).toArray).getD idx #[] = _
    rw [getD_rangeMap' _ _ _ h2, if_pos h1]

theorem c04t_addCt_facts (kl : KeyLevel) (ctkj δ : Poly) (j : Nat) :
    (c04t_addCt kl ctkj δ j).size = ctkj.size ∧ ∀ l, l < ctkj.size →
      (c04t_addCt kl ctkj δ j).getD l 0 = (ctkj.getD l 0 + δ.getD l 0) % (kl.m j).value := by
  unfold c04t_addCt
  exact ⟨by simp, fun l hl => getD_rangeMap _ _ hl⟩

theorem c04t_stdNew_get (kl : KeyLevel) (dsz : Nat) (isNtt : Bool) (ct : Ct) (prods : List (List Poly)) (k : Nat)
    {j : Nat} (hj : j < dsz) :
    (c04t_stdNew kl dsz isNtt ct prods k).size = dsz ∧
    (c04t_stdNew kl dsz isNtt ct prods k).getD j #[] =
      c04t_addCt kl ((ct.polys.getD k #[]).getD j #[])
        (c04t_deltaOf kl (c04t_stdD kl isNtt ((prods.getD j []).getD k #[])
          (c04t_stdTLast kl ((prods.getD dsz []).getD k #[])) j) j) j := by
  unfold c04t_stdNew
  exact ⟨by simp, getD_rangeMap' _ _ _ hj⟩


/-! ## T2: the BGV branch -/

/-- `k` of the code: (−t_last)·P^{-1} mod t, coefficientwise -/
def c04t_bgvKKArr (kl : KeyLevel) (tLast : Poly) : Poly :=
  (tLast.map (fun x => (kl.t.value - x % kl.t.value) % kl.t.value)).map (fun x => (x * kl.invPModT) % kl.t.value)

/-- `delta` of the code before the transform: (k·P + t_last) mod q_j -/
def c04t_bgvDelta1 (kl : KeyLevel) (tLast kk : Poly) (j : Nat) : Poly :=
  ((List.range (kk.map (fun x => ((x % (kl.m j).value) * kl.c04t_P) % (kl.m j).value)).size).map fun i =>
    ((kk.map (fun x => ((x % (kl.m j).value) * kl.c04t_P) % (kl.m j).value)).getD i 0 +
      (tLast.map (fun x => x % (kl.m j).value)).getD i 0) % (kl.m j).value).toArray

def c04t_bgvD (kl : KeyLevel) (prodkj tLast kk : Poly) (j : Nat) : Poly :=
  ((List.range prodkj.size).map fun i =>
    (prodkj.getD i 0 + (kl.m j).value - (ntt (kl.tb j) (c04t_bgvDelta1 kl tLast kk j)).getD i 0) % (kl.m j).value).toArray

theorem c04t_bgvDelta1_facts {kl : KeyLevel} {j : Nat} (hq : 0 < (kl.m j).value) {tLast kk : Poly} {n : Nat}
    (hts : tLast.size = n) (hks : kk.size = n) :
    (c04t_bgvDelta1 kl tLast kk j).size = n ∧ ∀ i, i < n →
      (c04t_bgvDelta1 kl tLast kk j).getD i 0 =
        (((kk.getD i 0 % (kl.m j).value) * kl.c04t_P) % (kl.m j).value + tLast.getD i 0 % (kl.m j).value) % (kl.m j).value ∧
      (c04t_bgvDelta1 kl tLast kk j).getD i 0 < (kl.m j).value := by
  unfold c04t_bgvDelta1
  refine ⟨by simp [hks], fun i hi => ?_⟩
  rw [getD_rangeMap _ _ (by simp [hks, hi]), c10i_getD_map_lt _ _ (by omega), c10i_getD_map_lt _ _ (by omega)]
  exact ⟨rfl, Nat.mod_lt _ hq⟩

theorem c04t_bgvCompM_ok {kl : KeyLevel} (hkl : kl.WF) {j : Nat} (hj : j + 1 < kl.ms.size)
    {ctkj prodkj tLast kk : Poly}
    (hcs : ctkj.size = kl.n) (hcl : ∀ i, i < kl.n → ctkj.getD i 0 < (kl.m j).value)
    (hps : prodkj.size = kl.n) (hpl : ∀ i, i < kl.n → prodkj.getD i 0 < (kl.m j).value)
    (hts : tLast.size = kl.n) (htl : ∀ i, i < kl.n → tLast.getD i 0 < 2^64)
    (hks : kk.size = kl.n) (hkl' : ∀ i, i < kl.n → kk.getD i 0 < 2^64)
    (hop : WFOp (kl.m j) (kl.invPModQ.getD j default)) :
    c04t_bgvCompM kl ctkj prodkj tLast kk j =
      .ok (c04t_addCt kl ctkj (c04t_deltaOf kl (c04t_bgvD kl prodkj tLast kk j) j) j) := by
  obtain ⟨htw, htm, htn, hmw⟩ := c04t_kl_comp hkl (show j < kl.ms.size by omega)
  obtain ⟨_, _, _, hPw⟩ := c04t_kl_comp hkl (show kl.ms.size - 1 < kl.ms.size by omega)
  have hq2 := hmw.two_le
  have hq61 := hmw.lt
  have hP61 : kl.c04t_P < 2^61 := hPw.lt
  have hq0 : 0 < (kl.m j).value := by omega
  obtain ⟨b1, b2⟩ := c04t_bgvDelta1_facts (kl := kl) (j := j) hq0 hts hks
  obtain ⟨n1, n2⟩ := ntt_sim htw (c04t_bgvDelta1 kl tLast kk j) (by rw [b1, htn])
    (fun i hi => by rw [htm]; have := (b2 i (by omega)).2; omega)
  have e1 := c04t_delta0_ok hmw (P := kl.c04t_P) (by omega) (kk := kk) (mem_lt_of_getD (fun i hi => hkl' i (by omega)))
  have e2 : mapM' tLast (fun x => barrett64 x (kl.m j)) = .ok (tLast.map (fun x => x % (kl.m j).value)) :=
    mapM'_ok _ (fun x hx => barrett64_exact hmw (mem_lt_of_getD (fun i hi => htl i (by omega)) x hx))
  have e3 := c04t_zipadd_ok hmw (a := kk.map (fun x => ((x % (kl.m j).value) * kl.c04t_P) % (kl.m j).value))
    (d := tLast.map (fun x => x % (kl.m j).value)) (fun i hi => by
      have hi' : i < kl.n := by simpa [hks] using hi
      rw [c10i_getD_map_lt _ _ (by omega), c10i_getD_map_lt _ _ (by omega)]
      exact ⟨Nat.mod_lt _ hq0, Nat.mod_lt _ hq0⟩)
  have e4 := c04t_zipsub_ok hmw (a := prodkj) (d := ntt (kl.tb j) (c04t_bgvDelta1 kl tLast kk j)) (fun i hi =>
    ⟨hpl i (by omega), by have := (n2 i (by omega)).2.1; rw [htm] at this; exact this⟩)
  have e5 := c04t_mulop_ok hmw hop (d := c04t_bgvD kl prodkj tLast kk j)
    (mem_lt_of_getD (fun i hi => by
      unfold c04t_bgvD
      rw [getD_rangeMap _ _ (by simpa [c04t_bgvD] using hi)]
      have := Nat.mod_lt (prodkj.getD i 0 + (kl.m j).value -
        (ntt (kl.tb j) (c04t_bgvDelta1 kl tLast kk j)).getD i 0) hq0
      omega))
  have e6 := c04t_zipadd_ok hmw (a := ctkj) (d := c04t_deltaOf kl (c04t_bgvD kl prodkj tLast kk j) j)
    (fun i hi => ⟨hcl i (by omega), by
      unfold c04t_deltaOf
      rw [c10i_getD_map_lt _ _ (by simp [c04t_bgvD]; omega)]
      exact Nat.mod_lt _ hq0⟩)
  unfold c04t_bgvCompM
  simp only []
  refine (congrArg (fun x => x >>= _) e1).trans ?_
  rw [ok_bind]
  refine (congrArg (fun x => x >>= _) e2).trans ?_
  rw [ok_bind]
  refine (congrArg (fun x => x >>= _) e3).trans ?_
  rw [ok_bind]
  refine (congrArg (fun x => x >>= _) e4).trans ?_
  rw [ok_bind]
  refine (congrArg (fun x => x >>= _) e5).trans ?_
  rw [ok_bind]
  exact e6


theorem c04t_bgvKKArr_facts (kl : KeyLevel) (ht : 0 < kl.t.value) (tLast : Poly) :
    (c04t_bgvKKArr kl tLast).size = tLast.size ∧ ∀ i, i < tLast.size →
      (c04t_bgvKKArr kl tLast).getD i 0 = c04t_bgvKK kl.t.value kl.invPModT (tLast.getD i 0) ∧
      (c04t_bgvKKArr kl tLast).getD i 0 < kl.t.value := by
  unfold c04t_bgvKKArr
  refine ⟨by simp, fun i hi => ?_⟩
  rw [c10i_getD_map_lt _ _ (by simpa using hi), c10i_getD_map_lt _ _ hi]
  exact ⟨rfl, Nat.mod_lt _ ht⟩

theorem c04t_bgv_delta_sem {kl : KeyLevel} (hkl : kl.WF) {j : Nat} (hj : j + 1 < kl.ms.size)
    {prodkj prodP : Poly}
    (hps : prodkj.size = kl.n) (hpl : ∀ i, i < kl.n → prodkj.getD i 0 < (kl.m j).value)
    (hPs : prodP.size = kl.n) (hPl : ∀ i, i < kl.n → prodP.getD i 0 < kl.c04t_P)
    (ht : 0 < kl.t.value)
    (hinv : ((kl.invPModQ.getD j default).operand * kl.c04t_P) % (kl.m j).value = 1) :
    ∀ c, c < kl.n → ∀ X : Int,
      X % ((kl.m j).value : Int) = ((intt (kl.tb j) prodkj).getD c 0 : Nat) →
      X % (kl.c04t_P : Int) = ((intt (kl.tb (kl.ms.size - 1)) prodP).getD c 0 : Nat) →
      X = kl.c04t_P * (X / kl.c04t_P - (c04t_bgvKK kl.t.value kl.invPModT ((intt (kl.tb (kl.ms.size - 1)) prodP).getD c 0) : Int))
        + (c04t_bgvE kl.c04t_P kl.t.value kl.invPModT ((intt (kl.tb (kl.ms.size - 1)) prodP).getD c 0) : Int) ∧
      (((intt (kl.tb j) (c04t_deltaOf kl (c04t_bgvD kl prodkj (intt (kl.tb (kl.ms.size - 1)) prodP)
          (c04t_bgvKKArr kl (intt (kl.tb (kl.ms.size - 1)) prodP)) j) j)).getD c 0 : Nat) : Int)
        % ((kl.m j).value : Int) =
        (X / kl.c04t_P - (c04t_bgvKK kl.t.value kl.invPModT ((intt (kl.tb (kl.ms.size - 1)) prodP).getD c 0) : Int))
          % ((kl.m j).value : Int) := by
  obtain ⟨htw, htm, htn, hmw⟩ := c04t_kl_comp hkl (show j < kl.ms.size by omega)
  obtain ⟨hPtw, hPtm, hPtn, hPw⟩ := c04t_kl_comp hkl (show kl.ms.size - 1 < kl.ms.size by omega)
  have hP2 : 2 ≤ kl.c04t_P := hPw.two_le
  have hq2 := hmw.two_le
  have hq0 : 0 < (kl.m j).value := by omega
  have hPtm' : (kl.tb (kl.ms.size - 1)).modulus.value = kl.c04t_P := hPtm
  obtain ⟨a1, a2⟩ := intt_sim hPtw prodP (by rw [hPs, hPtn]) (fun i hi => by
    rw [hPtm']; have := hPl i (by omega); omega)
  generalize htL : intt (kl.tb (kl.ms.size - 1)) prodP = tLast at *
  have hts : tLast.size = kl.n := by rw [a1, hPtn]
  obtain ⟨k1, k2⟩ := c04t_bgvKKArr_facts kl ht tLast
  obtain ⟨b1, b2⟩ := c04t_bgvDelta1_facts (kl := kl) (j := j) hq0 hts (k1.trans hts)
    (kk := c04t_bgvKKArr kl tLast)
  obtain ⟨n1, n2⟩ := ntt_eval htw (c04t_bgvDelta1 kl tLast (c04t_bgvKKArr kl tLast) j) (by rw [b1, htn])
    (fun i hi => by rw [htm]; have := (b2 i (by omega)).2; omega)
  obtain ⟨g1, g2⟩ := c04t_deltaOf_facts (kl := kl) (j := j) hq0 (c04t_bgvD kl prodkj tLast (c04t_bgvKKArr kl tLast) j)
  have hds : (c04t_bgvD kl prodkj tLast (c04t_bgvKKArr kl tLast) j).size = kl.n := by simp [c04t_bgvD, hps]
  have hdv : ∀ i, i < kl.n → (c04t_bgvD kl prodkj tLast (c04t_bgvKKArr kl tLast) j).getD i 0 =
      (prodkj.getD i 0 + (kl.m j).value -
        (ntt (kl.tb j) (c04t_bgvDelta1 kl tLast (c04t_bgvKKArr kl tLast) j)).getD i 0) % (kl.m j).value :=
    fun i hi => by unfold c04t_bgvD; exact getD_rangeMap _ _ (by omega)
  have hn : ∀ {i : Nat}, i < 2^(kl.tb j).k → i < kl.n := fun h => by rw [← htn]; exact h
  have hg := c04t_ntt_affine htw (A := prodkj) (Bc := c04t_bgvDelta1 kl tLast (c04t_bgvKKArr kl tLast) j)
    (δ := c04t_deltaOf kl (c04t_bgvD kl prodkj tLast (c04t_bgvKKArr kl tLast) j) j)
    (y := (kl.invPModQ.getD j default).operand) (by rw [hps, htn]) (fun i hi => by rw [htm]; exact hpl i (hn hi))
    (by rw [g1, hds, htn]) (fun i hi => by rw [htm]; exact (g2 i (by rw [hds]; exact hn hi)).2)
    (fun l hl => by
      have hlt : (ntt (kl.tb j) (c04t_bgvDelta1 kl tLast (c04t_bgvKKArr kl tLast) j)).getD l 0 < (kl.m j).value := by
        rw [n2 l hl, ← htm]; exact c01o_evalSpec_lt _ (by rw [htm]; exact hq0) _ _
      rw [(g2 l (by rw [hds]; exact hn hl)).1, hdv l (hn hl), ← n2 l hl, ← htm, ZMod.natCast_mod, Nat.cast_mul,
        ZMod.natCast_mod, Nat.cast_sub (by rw [htm]; omega), Nat.cast_add, ZMod.natCast_self, add_zero])
  intro c hc X hXa hXb
  have hc' : c < 2^(kl.tb j).k := by rw [htn]; exact hc
  have hb : tLast.getD c 0 < kl.c04t_P := by have := (a2 c (by rw [hPtn]; exact hc)).1; rw [hPtm'] at this; exact this
  rw [← htm] at hXa hinv ⊢
  have hsc := c04t_bgv_scalar (q := (kl.tb j).modulus.value) (P := kl.c04t_P) (t := kl.t.value) (it := kl.invPModT)
    (by omega) (y := (kl.invPModQ.getD j default).operand) (a := (intt (kl.tb j) prodkj).getD c 0)
    (b := tLast.getD c 0) (c04t_inv_cast (by rw [hinv, Nat.mod_eq_of_lt (by rw [htm]; omega)]))
    (δz := (((intt (kl.tb j) (c04t_deltaOf kl (c04t_bgvD kl prodkj tLast (c04t_bgvKKArr kl tLast) j) j)).getD c 0 : Nat)
      : ZMod (kl.tb j).modulus.value))
    (by
      rw [hg c hc', (b2 c hc).1, (k2 c (by rw [hts]; exact hc)).1, htm]
      unfold c04t_bgvE
      rw [ZMod.natCast_mod, Nat.cast_add, ZMod.natCast_mod, ZMod.natCast_mod, Nat.cast_mul, ZMod.natCast_mod,
        Nat.cast_add, Nat.cast_mul]
      ring) X (c04t_cast_of_emod hXa) hXb
  exact ⟨hsc.1, c04t_emod_of_cast (by rw [hsc.2])⟩


/-- additional BGV data of the key level: plain modulus and P^{-1} mod t -/
structure c04t_BgvData (kl : KeyLevel) : Prop where
  ht : kl.t.WF
  hit : kl.invPModT < 2^64
  hinvT : (kl.invPModT * kl.c04t_P) % kl.t.value = 1

def c04t_bgvContM (kl : KeyLevel) (dsz : Nat) (ct : Ct) (prods : List (List Poly)) (k : Nat) (tLast kk : Poly) : R RnsPoly := do
  let comps ← (List.range dsz).mapM fun j =>
    c04t_bgvCompM kl ((ct.polys.getD k #[]).getD j #[]) ((prods.getD j []).getD k #[]) tLast kk j
  pure comps.toArray

theorem c04t_bgvPolyM_eq (kl : KeyLevel) (dsz : Nat) (ct : Ct) (prods : List (List Poly)) (k : Nat) :
    c04t_bgvPolyM kl dsz ct prods k = (do
      let kk0 ← mapM' (intt (kl.tb (kl.ms.size - 1)) ((prods.getD dsz []).getD k #[]))
        (fun x => do let y ← barrett64 x kl.t; negateMod y kl.t)
      if kl.invPModT ≠ 1 then
        mapM' kk0 (fun x => mulMod x kl.invPModT kl.t) >>=
          c04t_bgvContM kl dsz ct prods k (intt (kl.tb (kl.ms.size - 1)) ((prods.getD dsz []).getD k #[]))
      else c04t_bgvContM kl dsz ct prods k (intt (kl.tb (kl.ms.size - 1)) ((prods.getD dsz []).getD k #[])) kk0) := rfl

def c04t_bgvNew (kl : KeyLevel) (dsz : Nat) (ct : Ct) (prods : List (List Poly)) (k : Nat) : RnsPoly :=
  ((List.range dsz).map fun j =>
    c04t_addCt kl ((ct.polys.getD k #[]).getD j #[])
      (c04t_deltaOf kl (c04t_bgvD kl ((prods.getD j []).getD k #[])
        (intt (kl.tb (kl.ms.size - 1)) ((prods.getD dsz []).getD k #[]))
        (c04t_bgvKKArr kl (intt (kl.tb (kl.ms.size - 1)) ((prods.getD dsz []).getD k #[]))) j) j) j).toArray

theorem c04t_bgvPolyM_ok {kl : KeyLevel} {dsz : Nat} {ct : Ct} {target : RnsPoly} {key : KSKey}
    (h : c04t_KSInput kl dsz ct target key) (hb : c04t_BgvData kl) (isNtt : Bool) {k : Nat}
    (hk : k < (key.getD 0 #[]).size) :
    c04t_bgvPolyM kl dsz ct (c04t_prods kl dsz isNtt target key) k =
      .ok (c04t_bgvNew kl dsz ct (c04t_prods kl dsz isNtt target key) k) := by
  have hd := h.hd
  obtain ⟨htw, htm, htn, hPw⟩ := c04t_kl_comp h.hkl (show kl.ms.size - 1 < kl.ms.size by omega)
  have htm' : (kl.tb (kl.ms.size - 1)).modulus.value = kl.c04t_P := htm
  have hP61 : kl.c04t_P < 2^61 := hPw.lt
  have ht2 := hb.ht.two_le
  have ht61 := hb.ht.lt
  have hPl : ∀ i, i < kl.n → ((((c04t_prods kl dsz isNtt target key).getD dsz []).getD k #[])).getD i 0 < kl.c04t_P := by
    intro i hi
    rw [c04t_prods_get _ _ _ _ _ (Nat.le_refl _) hk]
    have := c04t_accRes_lt h.hkl h.hd isNtt target (c04t_targetCoef kl dsz isNtt target) key (Nat.le_refl dsz) k hi
    rw [c04t_keyIndex_dsz] at this
    exact this
  have hPs : ((((c04t_prods kl dsz isNtt target key).getD dsz []).getD k #[])).size = kl.n := by
    rw [c04t_prods_get _ _ _ _ _ (Nat.le_refl _) hk]; exact c04t_accRes_size _ _ _ _ _ _ _ _
  obtain ⟨a1, a2⟩ := intt_sim htw _ (by rw [hPs, htn]) (fun i hi => by
    rw [htm']; have := hPl i (by omega); omega)
  generalize htL : intt (kl.tb (kl.ms.size - 1)) (((c04t_prods kl dsz isNtt target key).getD dsz []).getD k #[]) = tLast at *
  have hts : tLast.size = kl.n := by rw [a1, htn]
  have htl : ∀ i, i < kl.n → tLast.getD i 0 < kl.c04t_P := fun i hi => by
    have := (a2 i (by omega)).1; rw [htm'] at this; exact this
  obtain ⟨k1, k2⟩ := c04t_bgvKKArr_facts kl (by omega) tLast
  have e1 := c04t_kk0_ok hb.ht (tLast := tLast) (mem_lt_of_getD (fun i hi => by have := htl i (by omega); omega))
  have e2 := c04t_kk_ok hb.ht hb.hit (kk0 := tLast.map (fun x => (kl.t.value - x % kl.t.value) % kl.t.value))
    (c04t_forall_map (fun y _ => Nat.mod_lt _ (by omega)))
  have hcont : c04t_bgvContM kl dsz ct (c04t_prods kl dsz isNtt target key) k tLast (c04t_bgvKKArr kl tLast) =
      .ok (c04t_bgvNew kl dsz ct (c04t_prods kl dsz isNtt target key) k) := by
    unfold c04t_bgvContM
    rw [listMapM_ok (List.range dsz) _ (fun j =>
      c04t_addCt kl ((ct.polys.getD k #[]).getD j #[])
        (c04t_deltaOf kl (c04t_bgvD kl (((c04t_prods kl dsz isNtt target key).getD j []).getD k #[])
          tLast (c04t_bgvKKArr kl tLast) j) j) j)]
    · unfold c04t_bgvNew; rw [htL]; rfl
    · intro j hj
      have hj' := List.mem_range.mp hj
      have hjk : c04t_keyIndex kl dsz j = j := c04t_keyIndex_of_lt kl hj'
      refine c04t_bgvCompM_ok h.hkl (by omega) ((h.hct k hk j hj').1) ((h.hct k hk j hj').2) ?_ ?_ hts
        (fun i hi => by have := htl i hi; omega) (k1.trans hts)
        (fun i hi => by have := (k2 i (by omega)).2; omega) (h.hinv j hj').1
      · rw [c04t_prods_get _ _ _ _ _ (by omega) hk]; exact c04t_accRes_size _ _ _ _ _ _ _ _
      · intro i hi
        rw [c04t_prods_get _ _ _ _ _ (by omega) hk]
        have := c04t_accRes_lt h.hkl h.hd isNtt target (c04t_targetCoef kl dsz isNtt target) key (show j ≤ dsz by omega) k hi
        rw [hjk] at this
        exact this
  rw [c04t_bgvPolyM_eq, htL]
  refine (congrArg (fun x => x >>= _) e1).trans ?_
  rw [ok_bind]
  by_cases h1 : kl.invPModT ≠ 1
  · rw [if_pos h1]
    rw [if_pos h1] at e2
    refine (congrArg (fun x => x >>= _) e2).trans ?_
    rw [ok_bind]; exact hcont
  · rw [if_neg h1]
    rw [if_neg h1] at e2
    have e3 := Except.ok.inj e2
    have : c04t_bgvKKArr kl tLast = tLast.map (fun x => (kl.t.value - x % kl.t.value) % kl.t.value) := by
      unfold c04t_bgvKKArr; exact e3.symm
    rw [← this]; exact hcont

theorem c04t_switchKey_bgv_val {kl : KeyLevel} {dsz : Nat} {ct : Ct} {target : RnsPoly} {key : KSKey}
    (h : c04t_KSInput kl dsz ct target key) (hb : c04t_BgvData kl) (hntt : ct.ntt = true) :
    switchKey kl .bgv dsz ct target key = .ok (c04t_updated ct (key.getD 0 #[]).size
      ((List.range (key.getD 0 #[]).size).map
        (c04t_bgvNew kl dsz ct (c04t_prods kl dsz ct.ntt target key)))) := by
  rw [c04t_switchKey_bgv_eq target (c04t_hsz_of h) hntt, c04t_prods_ok h ct.ntt, ok_bind,
    listMapM_ok (List.range (key.getD 0 #[]).size) _
      (c04t_bgvNew kl dsz ct (c04t_prods kl dsz ct.ntt target key))
      (fun k hk => c04t_bgvPolyM_ok h hb ct.ntt (List.mem_range.mp hk))]
  rfl

theorem c04t_bgvNew_get (kl : KeyLevel) (dsz : Nat) (ct : Ct) (prods : List (List Poly)) (k : Nat)
    {j : Nat} (hj : j < dsz) :
    (c04t_bgvNew kl dsz ct prods k).getD j #[] =
      c04t_addCt kl ((ct.polys.getD k #[]).getD j #[])
        (c04t_deltaOf kl (c04t_bgvD kl ((prods.getD j []).getD k #[])
          (intt (kl.tb (kl.ms.size - 1)) ((prods.getD dsz []).getD k #[]))
          (c04t_bgvKKArr kl (intt (kl.tb (kl.ms.size - 1)) ((prods.getD dsz []).getD k #[]))) j) j) j := by
  unfold c04t_bgvNew
  exact getD_rangeMap' _ _ _ hj


/-! ## satisfiability of `c04t_KSInput` / `c04t_BgvData`: concrete instance on `c04t_exKL` (dsz = 1, two key components) -/

def c04t_exTarget : RnsPoly := #[#[1, 2]]
def c04t_exKey : KSKey := #[#[#[#[1, 2], #[3, 4]], #[#[5, 6], #[7, 8]]]]
def c04t_exCt (ntt : Bool) : Ct := ⟨#[#[#[1, 2]], #[#[3, 4]]], ntt, 1⟩

theorem c04t_exOp_wf : WFOp (c04t_exMod 13) (c04t_exOp 10 13) ∧ (c04t_exOp 10 13).operand = 10 := by
  obtain ⟨m13, v13⟩ := c04t_exMod_wf (v := 13) (by decide) (by decide)
  obtain ⟨o, ho⟩ := c04t_isOk_ok (x := MulOperand.new 10 (c04t_exMod 13)) (by decide)
  have : c04t_exOp 10 13 = o := by unfold c04t_exOp; rw [ho]
  rw [this]
  obtain ⟨h1, h2⟩ := mulOperand_new_eq m13 (by rw [v13]; norm_num) ho
  exact ⟨⟨by rw [h1, v13]; norm_num, by rw [h2, h1]⟩, h1⟩

theorem c04t_exKSInput (ntt : Bool) : c04t_KSInput c04t_exKL 1 (c04t_exCt ntt) c04t_exTarget c04t_exKey := by
  obtain ⟨m13, v13⟩ := c04t_exMod_wf (v := 13) (by decide) (by decide)
  obtain ⟨m17, v17⟩ := c04t_exMod_wf (v := 17) (by decide) (by decide)
  have hm0 : (c04t_exKL.m 0).value = 13 := v13
  have hm1 : (c04t_exKL.m 1).value = 17 := v17
  have hk0 : c04t_keyIndex c04t_exKL 1 0 = 0 := rfl
  have hk1 : c04t_keyIndex c04t_exKL 1 1 = 1 := rfl
  refine ⟨c04t_exKL_wf, by decide, by decide, by decide, ?_, ?_, ?_, ?_, ?_⟩
  · intro j hj
    interval_cases j
    refine ⟨rfl, fun l hl => ?_⟩
    have hl2 : l < 2 := hl
    rw [hm0]
    interval_cases l <;> decide
  · intro i hi j hj k hk
    have hk2 : k < 2 := hk
    interval_cases j
    interval_cases i
    · rw [hk0, hm0]
      interval_cases k
      · refine ⟨rfl, fun l hl => ?_⟩
        have hl2 : l < 2 := hl
        interval_cases l <;> decide
      · refine ⟨rfl, fun l hl => ?_⟩
        have hl2 : l < 2 := hl
        interval_cases l <;> decide
    · rw [hk1, hm1]
      interval_cases k
      · refine ⟨rfl, fun l hl => ?_⟩
        have hl2 : l < 2 := hl
        interval_cases l <;> decide
      · refine ⟨rfl, fun l hl => ?_⟩
        have hl2 : l < 2 := hl
        interval_cases l <;> decide
  · intro i hi
    interval_cases i
    · rw [hk0, hm0]; norm_num
    · rw [hk1, hm1]; norm_num
  · intro k hk j hj
    have hk2 : k < 2 := hk
    interval_cases j
    rw [hm0]
    have hp : (c04t_exCt ntt).polys = #[#[#[1, 2]], #[#[3, 4]]] := rfl
    rw [hp]
    interval_cases k
    · refine ⟨rfl, fun l hl => ?_⟩
      have hl2 : l < 2 := hl
      interval_cases l <;> decide
    · refine ⟨rfl, fun l hl => ?_⟩
      have hl2 : l < 2 := hl
      interval_cases l <;> decide
  · intro j hj
    interval_cases j
    obtain ⟨w1, w2⟩ := c04t_exOp_wf
    have hP : c04t_exKL.c04t_P = 17 := v17
    refine ⟨w1, ?_⟩
    show ((c04t_exOp 10 13).operand * c04t_exKL.c04t_P) % (c04t_exKL.m 0).value = 1
    rw [w2, hP, hm0]

theorem c04t_exBgvData : c04t_BgvData c04t_exKL := by
  obtain ⟨m5, v5⟩ := c04t_exMod_wf (v := 5) (by decide) (by decide)
  obtain ⟨_, v17⟩ := c04t_exMod_wf (v := 17) (by decide) (by decide)
  have hP : c04t_exKL.c04t_P = 17 := v17
  have ht : c04t_exKL.t.value = 5 := v5
  refine ⟨m5, by decide, ?_⟩
  rw [hP, ht]; rfl


/-! ## towards T3: ring-level phase identity of key switching followed by mod-down -/

/-- In any commutative ring (e.g. ℤ[X]/(X^N+1)): if the key rows satisfy k0_j + k1_j·s = e_j + P·g_j·s', the digits recombine
    (Σ_j d_j·g_j = c), and the two accumulated polynomials are divided by P with remainders r_0, r_1 (X_k = P·Y_k + r_k: the
    mod-down of `moddown_spec`, r_k the centred lift, or E_k in the BGV branch), then
    P·(Y_0 + Y_1·s) = P·c·s' + Σ_j d_j·e_j − (r_0 + r_1·s). -/
theorem c04t_phase_ring {R : Type} [CommRing R] (k : Nat) (d g e k0 k1 : Nat → R) (s s' P c Y0 Y1 r0 r1 : R)
    (hkey : ∀ j, j < k → k0 j + k1 j * s = e j + P * g j * s') (hg : ∑ j ∈ range k, d j * g j = c)
    (h0 : ∑ j ∈ range k, d j * k0 j = P * Y0 + r0) (h1 : ∑ j ∈ range k, d j * k1 j = P * Y1 + r1) :
    P * (Y0 + Y1 * s) = P * c * s' + ∑ j ∈ range k, d j * e j - (r0 + r1 * s) := by
  have h := keyswitch_phase k d g e k0 k1 s s' P c hkey hg
  rw [h0, h1] at h
  linear_combination h

/-! ## `relinearize` and `applyGalois`: reduction to `switchKey`, refusals -/

theorem c04t_relin_fuel0 (kl : KeyLevel) (scheme : Scheme) (dsz : Nat) (keys : Nat → Option KSKey) (ct : Ct) :
    relinearize kl scheme dsz keys 0 ct = .error .other := rfl

theorem c04t_relin_small (kl : KeyLevel) (scheme : Scheme) (dsz : Nat) (keys : Nat → Option KSKey) (fuel : Nat) (ct : Ct)
    (h : ct.polys.size < 2) : relinearize kl scheme dsz keys (fuel + 1) ct = .error .refused := by
  unfold relinearize
  simp only []
  rw [if_pos h]

theorem c04t_relin_two (kl : KeyLevel) (scheme : Scheme) (dsz : Nat) (keys : Nat → Option KSKey) (fuel : Nat) (ct : Ct)
    (h : ct.polys.size = 2) : relinearize kl scheme dsz keys (fuel + 1) ct = .ok ct := by
  unfold relinearize
  simp only []
  rw [if_neg (by omega), if_pos h]
  rfl

theorem c04t_relin_nokey (kl : KeyLevel) (scheme : Scheme) (dsz : Nat) (keys : Nat → Option KSKey) (fuel : Nat) (ct : Ct)
    (h : 2 < ct.polys.size) (hk : keys (ct.polys.size - 1) = none) :
    relinearize kl scheme dsz keys (fuel + 1) ct = .error .refused := by
  unfold relinearize
  simp only []
  rw [if_neg (by omega), if_neg (by omega)]
  rw [hk]

/-- one relinearization step: switch the last polynomial away with the key for its power of s, drop it, continue -/
theorem c04t_relin_step (kl : KeyLevel) (scheme : Scheme) (dsz : Nat) (keys : Nat → Option KSKey) (fuel : Nat) (ct : Ct)
    (h : 2 < ct.polys.size) {key : KSKey} (hk : keys (ct.polys.size - 1) = some key) {ct' : Ct}
    (hs : switchKey kl scheme dsz ct (ct.polys.getD (ct.polys.size - 1) #[]) key = .ok ct') :
    relinearize kl scheme dsz keys (fuel + 1) ct =
      relinearize kl scheme dsz keys fuel { ct' with polys := ct'.polys.extract 0 (ct.polys.size - 1) } := by
  conv_lhs => unfold relinearize
  simp only []
  rw [if_neg (by omega), if_neg (by omega)]
  rw [hk]
  simp only []
  rw [hs]
  rfl

/-- relinearization of a size-3 ciphertext = one key switch of c2 with the key for s², then truncation to 2 polynomials -/
theorem c04t_relin_three (kl : KeyLevel) (scheme : Scheme) (dsz : Nat) (keys : Nat → Option KSKey) (fuel : Nat) (ct : Ct)
    (h : ct.polys.size = 3) {key : KSKey} (hk : keys 2 = some key) {ct' : Ct}
    (hs : switchKey kl scheme dsz ct (ct.polys.getD 2 #[]) key = .ok ct') (hsz : ct'.polys.size = 3) :
    relinearize kl scheme dsz keys (fuel + 2) ct = .ok { ct' with polys := ct'.polys.extract 0 2 } := by
  have h2 : ct.polys.size - 1 = 2 := by omega
  rw [c04t_relin_step kl scheme dsz keys (fuel + 1) ct (by omega) (by rw [h2]; exact hk) (by rw [h2]; exact hs), h2]
  exact c04t_relin_two _ _ _ _ _ _ (by simp [hsz])

theorem c04t_galois_refuse_size (kl : KeyLevel) (l : Level) (scheme : Scheme) (ct : Ct) (g : Nat) (key : KSKey)
    (h : ct.polys.size ≠ 2) : applyGalois kl l scheme ct g key = .error .refused := by
  unfold applyGalois
  simp only []
  rw [if_pos h]

theorem c04t_galois_refuse_elt (kl : KeyLevel) (l : Level) (scheme : Scheme) (ct : Ct) (g : Nat) (key : KSKey)
    (h : g % 2 = 0 ∨ g > 2 * l.n) : applyGalois kl l scheme ct g key = .error .refused := by
  unfold applyGalois
  simp only []
  split
  · rfl
  · rfl


/-! ## Property theorems -/

/-- T1 `ksAccumulate_spec`.  For a well-formed key level (`KeyLevel.WF`), `dsz + 1 ≤ ksz`, an RNS index `i ≤ dsz`
    (index `dsz` = special prime; `c04t_keyIndex` is the key-level modulus used: `if i = dsz then ksz - 1 else i`), canonical
    coefficient-form target digits `targetCoef` (in NTT representation: `target` canonical and `targetCoef = intt target` per
    component, exactly what `switchKey` passes), canonical key residues at the key modulus, and the 128-bit accumulator bound
    `dsz·4q² < 2^128` (see `c04t_no_overflow_60`: implied by dsz ≤ 64 for q < 2^60, `c04t_no_overflow_61`: dsz ≤ 16 for q < 2^61):
    `ksAccumulate` succeeds; component k of the result has size n, canonical values, and is the NTT (w.r.t. the key modulus) of
    Σ_j D_j ⋆ K_{j,k} mod q — i.e. its `intt` is coefficientwise `(Σ_j negMulNat n q D_j (intt K_{j,k}) c) % q`, where D_j is the
    digit polynomial `targetCoef[j]` taken as integers in [0, q_j) (not reduced mod q) and ⋆ the negacyclic product. -/
theorem ksAccumulate_spec {kl : KeyLevel} (hkl : kl.WF) {dsz : Nat} (hd : dsz + 1 ≤ kl.ms.size) {isNtt : Bool}
    {target targetCoef : RnsPoly} (hc : c04t_Canon kl dsz targetCoef)
    (hT : isNtt = true → c04t_Canon kl dsz target ∧
      ∀ j, j < dsz → targetCoef.getD j #[] = intt (kl.tb j) (target.getD j #[]))
    {key : KSKey} {i kcc : Nat} (hi : i ≤ dsz) (hK : c04t_KeyCanonAt kl dsz kcc key (c04t_keyIndex kl dsz i))
    (hov : dsz * (4 * (kl.m (c04t_keyIndex kl dsz i)).value * (kl.m (c04t_keyIndex kl dsz i)).value) < 2^128) :
    ∃ res, ksAccumulate kl dsz isNtt target targetCoef key i kcc = .ok res ∧ res.length = kcc ∧
      ∀ k, k < kcc →
        (res.getD k #[]).size = kl.n ∧
        (∀ l, l < kl.n → (res.getD k #[]).getD l 0 < (kl.m (c04t_keyIndex kl dsz i)).value) ∧
        ∀ c, c < kl.n → (intt (kl.tb (c04t_keyIndex kl dsz i)) (res.getD k #[])).getD c 0 =
          (∑ j ∈ range dsz, negMulNat kl.n (kl.m (c04t_keyIndex kl dsz i)).value (targetCoef.getD j #[])
            (intt (kl.tb (c04t_keyIndex kl dsz i))
              (((key.getD j #[]).getD k #[]).getD (c04t_keyIndex kl dsz i) #[])) c)
            % (kl.m (c04t_keyIndex kl dsz i)).value := by
  obtain ⟨_, _, _, hmw⟩ := c04t_kl_comp hkl (c04t_keyIndex_lt hd hi)
  have hq2 := hmw.two_le
  refine ⟨_, c04t_ksAccumulate_val hkl hd hc hT hi hK hov, by simp, fun k hk => ?_⟩
  rw [c04t_list_getD_rangeMap _ _ _ hk]
  refine ⟨c04t_accRes_size _ _ _ _ _ _ _ _, fun l hl => ?_, fun c hcn => ?_⟩
  · rw [c04t_accRes_getD _ _ _ _ _ _ _ _ hl]; exact Nat.mod_lt _ (by omega)
  · exact c04t_accRes_intt hkl hd hc hT hi hK hk hcn

/-- T1 with the overflow guard discharged from `dsz ≤ 64` and key moduli below 2^60 -/
theorem ksAccumulate_spec_dsz64 {kl : KeyLevel} (hkl : kl.WF) {dsz : Nat} (hd : dsz + 1 ≤ kl.ms.size) (hd64 : dsz ≤ 64)
    {isNtt : Bool} {target targetCoef : RnsPoly} (hc : c04t_Canon kl dsz targetCoef)
    (hT : isNtt = true → c04t_Canon kl dsz target ∧
      ∀ j, j < dsz → targetCoef.getD j #[] = intt (kl.tb j) (target.getD j #[]))
    {key : KSKey} {i kcc : Nat} (hi : i ≤ dsz) (hK : c04t_KeyCanonAt kl dsz kcc key (c04t_keyIndex kl dsz i))
    (hq60 : (kl.m (c04t_keyIndex kl dsz i)).value < 2^60) :
    ∃ res, ksAccumulate kl dsz isNtt target targetCoef key i kcc = .ok res ∧ res.length = kcc ∧
      ∀ k, k < kcc →
        (res.getD k #[]).size = kl.n ∧
        (∀ l, l < kl.n → (res.getD k #[]).getD l 0 < (kl.m (c04t_keyIndex kl dsz i)).value) ∧
        ∀ c, c < kl.n → (intt (kl.tb (c04t_keyIndex kl dsz i)) (res.getD k #[])).getD c 0 =
          (∑ j ∈ range dsz, negMulNat kl.n (kl.m (c04t_keyIndex kl dsz i)).value (targetCoef.getD j #[])
            (intt (kl.tb (c04t_keyIndex kl dsz i))
              (((key.getD j #[]).getD k #[]).getD (c04t_keyIndex kl dsz i) #[])) c)
            % (kl.m (c04t_keyIndex kl dsz i)).value :=
  ksAccumulate_spec hkl hd hc hT hi hK (c04t_no_overflow_60 hd64 hq60)

/-- refusals of `switch_key_inplace_internal` -/
theorem switchKey_refuses_sizes (kl : KeyLevel) (scheme : Scheme) (dsz : Nat) (ct : Ct) (target : RnsPoly) (key : KSKey)
    (h : kl.ms.size < 2 ∨ dsz + 1 > kl.ms.size ∨ key.size < dsz) :
    switchKey kl scheme dsz ct target key = .error .refused := c04t_switchKey_refuse_size kl scheme dsz ct target key h

theorem switchKey_refuses_bfv_ntt (kl : KeyLevel) (dsz : Nat) (ct : Ct) (target : RnsPoly) (key : KSKey)
    (h : ct.ntt = true) : switchKey kl .bfv dsz ct target key = .error .refused :=
  c04t_switchKey_refuse_bfv_ntt kl dsz ct target key h

theorem switchKey_refuses_coeff_form (kl : KeyLevel) (scheme : Scheme) (hs : scheme ≠ .bfv) (dsz : Nat) (ct : Ct)
    (target : RnsPoly) (key : KSKey) (h : ct.ntt = false) : switchKey kl scheme dsz ct target key = .error .refused :=
  c04t_switchKey_refuse_coeff kl scheme hs dsz ct target key h

/-- T2 `moddown_spec` (rounding branch: BFV in coefficient form, CKKS in NTT form).  For inputs satisfying `c04t_KSInput`
    (well-formed key level, `dsz + 1 ≤ ksz`, canonical target / key residues / ciphertext residues, 128-bit accumulator bound,
    `invPModQ[j]·P ≡ 1 (mod q_j)`), `switchKey` succeeds; only the first `kcc` polynomials change; and for k < kcc, j < dsz the
    new component is `ct[k][j] + δ (mod q_j)` where, coefficient by coefficient (through `intt` when the data is in NTT form),
    δ ≡ round(X / P) (mod q_j) (`Spec.roundDiv`) for EVERY integer X with X ≡ X_j[c] (mod q_j) and X ≡ X_P[c] (mod P), X_* being
    the accumulated polynomials Σ_j D_j ⋆ K_{j,k} of T1 in coefficient form (`c04t_accCoef`).  `moddown_round` then splits
    round(X/P) for X = P·Y + E. -/
theorem moddown_spec {kl : KeyLevel} {scheme : Scheme} {dsz : Nat} {ct : Ct} {target : RnsPoly} {key : KSKey}
    (h : c04t_KSInput kl dsz ct target key) (hmode : c04t_StdMode scheme ct.ntt) :
    ∃ ct', switchKey kl scheme dsz ct target key = .ok ct' ∧ ct'.ntt = ct.ntt ∧ ct'.cf = ct.cf ∧
      ct'.polys.size = ct.polys.size ∧
      (∀ idx, (key.getD 0 #[]).size ≤ idx → ct'.polys.getD idx #[] = ct.polys.getD idx #[]) ∧
      ∀ k, k < (key.getD 0 #[]).size → k < ct.polys.size →
        (ct'.polys.getD k #[]).size = dsz ∧
        ∀ j, j < dsz → ∃ δ : Poly, δ.size = kl.n ∧ (∀ l, l < kl.n → δ.getD l 0 < (kl.m j).value) ∧
          ((ct'.polys.getD k #[]).getD j #[]).size = kl.n ∧
          (∀ l, l < kl.n → ((ct'.polys.getD k #[]).getD j #[]).getD l 0 =
            (((ct.polys.getD k #[]).getD j #[]).getD l 0 + δ.getD l 0) % (kl.m j).value) ∧
          ∀ c, c < kl.n → ∀ X : Int,
            X % ((kl.m j).value : Int) = (c04t_accCoef kl dsz (c04t_targetCoef kl dsz ct.ntt target) key j k c : Nat) →
            X % (kl.c04t_P : Int) =
              (c04t_accCoef kl dsz (c04t_targetCoef kl dsz ct.ntt target) key (kl.ms.size - 1) k c : Nat) →
            (((c04t_coefOf (kl.tb j) ct.ntt δ).getD c 0 : Nat) : Int) % ((kl.m j).value : Int)
              = Spec.roundDiv X kl.c04t_P % ((kl.m j).value : Int) := by
  obtain ⟨u1, u2, u3, u4, u5⟩ := c04t_updated_facts ct (key.getD 0 #[]).size
    ((List.range (key.getD 0 #[]).size).map (c04t_stdNew kl dsz ct.ntt ct (c04t_prods kl dsz ct.ntt target key)))
  refine ⟨_, c04t_switchKey_std_val h hmode, u1, u2, u3, u4, fun k hk hk2 => ?_⟩
  rw [u5 k hk hk2, c04t_list_getD_rangeMap _ _ _ hk]
  obtain ⟨f1, f2⟩ := c04t_targetCoef_facts h.hkl h.hd ct.ntt h.htarget
  have hd := h.hd
  refine ⟨by simp [c04t_stdNew], fun j hj => ?_⟩
  have hjk : c04t_keyIndex kl dsz j = j := c04t_keyIndex_of_lt kl hj
  obtain ⟨htw, htm, htn, hmw⟩ := c04t_kl_comp h.hkl (show j < kl.ms.size by omega)
  have hq2 := hmw.two_le
  rw [(c04t_stdNew_get kl dsz ct.ntt ct _ k hj).2, c04t_prods_get _ _ _ _ _ (show j ≤ dsz by omega) hk,
    c04t_prods_get _ _ _ _ _ (Nat.le_refl dsz) hk]
  have hps := c04t_accRes_size kl dsz ct.ntt target (c04t_targetCoef kl dsz ct.ntt target) key j k
  have hpl : ∀ i, i < kl.n → (c04t_accRes kl dsz ct.ntt target (c04t_targetCoef kl dsz ct.ntt target) key j k).getD i 0
      < (kl.m j).value := fun i hi => by
    have := c04t_accRes_lt h.hkl h.hd ct.ntt target (c04t_targetCoef kl dsz ct.ntt target) key (show j ≤ dsz by omega) k hi
    rw [hjk] at this; exact this
  have hPs := c04t_accRes_size kl dsz ct.ntt target (c04t_targetCoef kl dsz ct.ntt target) key dsz k
  have hPl : ∀ i, i < kl.n → (c04t_accRes kl dsz ct.ntt target (c04t_targetCoef kl dsz ct.ntt target) key dsz k).getD i 0
      < kl.c04t_P := fun i hi => by
    have := c04t_accRes_lt h.hkl h.hd ct.ntt target (c04t_targetCoef kl dsz ct.ntt target) key (Nat.le_refl dsz) k hi
    rw [c04t_keyIndex_dsz] at this; exact this
  obtain ⟨l1, l2⟩ := c04t_stdTLast_facts h.hkl (by omega) hPs hPl
  obtain ⟨d1, _, _, _⟩ := c04t_stdD_facts h.hkl (show j < kl.ms.size by omega) ct.ntt hps hpl l1
  obtain ⟨g1, g2⟩ := c04t_deltaOf_facts (kl := kl) (j := j) (by omega)
    (c04t_stdD kl ct.ntt (c04t_accRes kl dsz ct.ntt target (c04t_targetCoef kl dsz ct.ntt target) key j k)
      (c04t_stdTLast kl (c04t_accRes kl dsz ct.ntt target (c04t_targetCoef kl dsz ct.ntt target) key dsz k)) j)
  obtain ⟨a1, a2⟩ := c04t_addCt_facts kl ((ct.polys.getD k #[]).getD j #[])
    (c04t_deltaOf kl (c04t_stdD kl ct.ntt (c04t_accRes kl dsz ct.ntt target (c04t_targetCoef kl dsz ct.ntt target) key j k)
      (c04t_stdTLast kl (c04t_accRes kl dsz ct.ntt target (c04t_targetCoef kl dsz ct.ntt target) key dsz k)) j) j) j
  have hcs := (h.hct k hk j hj).1
  refine ⟨_, by rw [g1, d1], fun l hl => (g2 l (by rw [d1]; exact hl)).2, by rw [a1, hcs],
    fun l hl => a2 l (by rw [hcs]; exact hl), fun c hc X hXa hXb => ?_⟩
  have hint := c04t_accRes_intt h.hkl h.hd f1 f2 (show j ≤ dsz by omega) (h.hkey j (by omega)) hk hc
  have hintP := c04t_accRes_intt h.hkl h.hd f1 f2 (Nat.le_refl dsz) (h.hkey dsz (Nat.le_refl _)) hk hc
  rw [hjk] at hint
  rw [c04t_keyIndex_dsz] at hintP
  exact c04t_std_delta_round h.hkl (show j + 1 < kl.ms.size by omega) ct.ntt hps hpl hPs hPl (h.hinv j hj).2 c hc X
    (by rw [hint]; exact hXa) (by rw [hintP]; exact hXb)

/-- T2, BGV branch.  Same frame as `moddown_spec`; the added polynomial δ satisfies, coefficient by coefficient (through `intt`),
    δ ≡ (X − E)/P (mod q_j) for every integer X with X ≡ X_j[c] (mod q_j), X ≡ X_P[c] (mod P), where
    E = X_P[c] + P·((−X_P[c])·P^{-1} mod t) (`c04t_bgvE`) does not depend on j, is ≡ X (mod P), a multiple of t, and 0 ≤ E < P·t:
    the result is X·P^{-1} corrected so that the error is ≡ 0 (mod t). -/
theorem moddown_spec_bgv {kl : KeyLevel} {dsz : Nat} {ct : Ct} {target : RnsPoly} {key : KSKey}
    (h : c04t_KSInput kl dsz ct target key) (hb : c04t_BgvData kl) (hntt : ct.ntt = true) :
    ∃ ct', switchKey kl .bgv dsz ct target key = .ok ct' ∧ ct'.ntt = ct.ntt ∧ ct'.cf = ct.cf ∧
      ct'.polys.size = ct.polys.size ∧
      (∀ idx, (key.getD 0 #[]).size ≤ idx → ct'.polys.getD idx #[] = ct.polys.getD idx #[]) ∧
      ∀ k, k < (key.getD 0 #[]).size → k < ct.polys.size →
        (ct'.polys.getD k #[]).size = dsz ∧
        ∀ j, j < dsz → ∃ δ : Poly, δ.size = kl.n ∧ (∀ l, l < kl.n → δ.getD l 0 < (kl.m j).value) ∧
          ((ct'.polys.getD k #[]).getD j #[]).size = kl.n ∧
          (∀ l, l < kl.n → ((ct'.polys.getD k #[]).getD j #[]).getD l 0 =
            (((ct.polys.getD k #[]).getD j #[]).getD l 0 + δ.getD l 0) % (kl.m j).value) ∧
          ∀ c, c < kl.n → ∀ X : Int,
            X % ((kl.m j).value : Int) = (c04t_accCoef kl dsz (c04t_targetCoef kl dsz ct.ntt target) key j k c : Nat) →
            X % (kl.c04t_P : Int) =
              (c04t_accCoef kl dsz (c04t_targetCoef kl dsz ct.ntt target) key (kl.ms.size - 1) k c : Nat) →
            X = kl.c04t_P * (X / kl.c04t_P - (c04t_bgvKK kl.t.value kl.invPModT
                  (c04t_accCoef kl dsz (c04t_targetCoef kl dsz ct.ntt target) key (kl.ms.size - 1) k c) : Int))
                + (c04t_bgvE kl.c04t_P kl.t.value kl.invPModT
                  (c04t_accCoef kl dsz (c04t_targetCoef kl dsz ct.ntt target) key (kl.ms.size - 1) k c) : Int) ∧
            kl.t.value ∣ c04t_bgvE kl.c04t_P kl.t.value kl.invPModT
                  (c04t_accCoef kl dsz (c04t_targetCoef kl dsz ct.ntt target) key (kl.ms.size - 1) k c) ∧
            c04t_bgvE kl.c04t_P kl.t.value kl.invPModT
                  (c04t_accCoef kl dsz (c04t_targetCoef kl dsz ct.ntt target) key (kl.ms.size - 1) k c)
              < kl.c04t_P * kl.t.value ∧
            (((intt (kl.tb j) δ).getD c 0 : Nat) : Int) % ((kl.m j).value : Int)
              = (X / kl.c04t_P - (c04t_bgvKK kl.t.value kl.invPModT
                  (c04t_accCoef kl dsz (c04t_targetCoef kl dsz ct.ntt target) key (kl.ms.size - 1) k c) : Int))
                % ((kl.m j).value : Int) := by
  obtain ⟨u1, u2, u3, u4, u5⟩ := c04t_updated_facts ct (key.getD 0 #[]).size
    ((List.range (key.getD 0 #[]).size).map (c04t_bgvNew kl dsz ct (c04t_prods kl dsz ct.ntt target key)))
  refine ⟨_, c04t_switchKey_bgv_val h hb hntt, u1, u2, u3, u4, fun k hk hk2 => ?_⟩
  rw [u5 k hk hk2, c04t_list_getD_rangeMap _ _ _ hk]
  obtain ⟨f1, f2⟩ := c04t_targetCoef_facts h.hkl h.hd ct.ntt h.htarget
  have hd := h.hd
  have ht2 := hb.ht.two_le
  refine ⟨by simp [c04t_bgvNew], fun j hj => ?_⟩
  have hjk : c04t_keyIndex kl dsz j = j := c04t_keyIndex_of_lt kl hj
  obtain ⟨htw, htm, htn, hmw⟩ := c04t_kl_comp h.hkl (show j < kl.ms.size by omega)
  obtain ⟨_, _, _, hPw⟩ := c04t_kl_comp h.hkl (show kl.ms.size - 1 < kl.ms.size by omega)
  have hq2 := hmw.two_le
  rw [c04t_bgvNew_get kl dsz ct _ k hj, c04t_prods_get _ _ _ _ _ (show j ≤ dsz by omega) hk,
    c04t_prods_get _ _ _ _ _ (Nat.le_refl dsz) hk]
  have hps := c04t_accRes_size kl dsz ct.ntt target (c04t_targetCoef kl dsz ct.ntt target) key j k
  have hpl : ∀ i, i < kl.n → (c04t_accRes kl dsz ct.ntt target (c04t_targetCoef kl dsz ct.ntt target) key j k).getD i 0
      < (kl.m j).value := fun i hi => by
    have := c04t_accRes_lt h.hkl h.hd ct.ntt target (c04t_targetCoef kl dsz ct.ntt target) key (show j ≤ dsz by omega) k hi
    rw [hjk] at this; exact this
  have hPs := c04t_accRes_size kl dsz ct.ntt target (c04t_targetCoef kl dsz ct.ntt target) key dsz k
  have hPl : ∀ i, i < kl.n → (c04t_accRes kl dsz ct.ntt target (c04t_targetCoef kl dsz ct.ntt target) key dsz k).getD i 0
      < kl.c04t_P := fun i hi => by
    have := c04t_accRes_lt h.hkl h.hd ct.ntt target (c04t_targetCoef kl dsz ct.ntt target) key (Nat.le_refl dsz) k hi
    rw [c04t_keyIndex_dsz] at this; exact this
  generalize hdd : c04t_bgvD kl (c04t_accRes kl dsz ct.ntt target (c04t_targetCoef kl dsz ct.ntt target) key j k)
      (intt (kl.tb (kl.ms.size - 1)) (c04t_accRes kl dsz ct.ntt target (c04t_targetCoef kl dsz ct.ntt target) key dsz k))
      (c04t_bgvKKArr kl (intt (kl.tb (kl.ms.size - 1))
        (c04t_accRes kl dsz ct.ntt target (c04t_targetCoef kl dsz ct.ntt target) key dsz k))) j = dd
  have hds : dd.size = kl.n := by rw [← hdd]; simp [c04t_bgvD, hps]
  obtain ⟨g1, g2⟩ := c04t_deltaOf_facts (kl := kl) (j := j) (by omega) dd
  obtain ⟨a1, a2⟩ := c04t_addCt_facts kl ((ct.polys.getD k #[]).getD j #[]) (c04t_deltaOf kl dd j) j
  have hcs := (h.hct k hk j hj).1
  refine ⟨_, by rw [g1, hds], fun l hl => (g2 l (by rw [hds]; exact hl)).2, by rw [a1, hcs],
    fun l hl => a2 l (by rw [hcs]; exact hl), fun c hc X hXa hXb => ?_⟩
  have hint := c04t_accRes_intt h.hkl h.hd f1 f2 (show j ≤ dsz by omega) (h.hkey j (by omega)) hk hc
  have hintP := c04t_accRes_intt h.hkl h.hd f1 f2 (Nat.le_refl dsz) (h.hkey dsz (Nat.le_refl _)) hk hc
  rw [hjk] at hint
  rw [c04t_keyIndex_dsz] at hintP
  have hsem := c04t_bgv_delta_sem h.hkl (show j + 1 < kl.ms.size by omega) hps hpl hPs hPl (by omega) (h.hinv j hj).2 c hc X
    (by rw [hint]; exact hXa) (by rw [hintP]; exact hXb)
  rw [hintP, hdd] at hsem
  have hbP : c04t_accCoef kl dsz (c04t_targetCoef kl dsz ct.ntt target) key (kl.ms.size - 1) k c < kl.c04t_P := by
    have hP2 : 2 ≤ kl.c04t_P := hPw.two_le
    unfold c04t_accCoef; exact Nat.mod_lt _ (by show 0 < kl.c04t_P; omega)
  obtain ⟨e1, e2, _⟩ := c04t_bgvE_facts (P := kl.c04t_P) (t := kl.t.value) (it := kl.invPModT) (by omega)
    (by rw [hb.hinvT, Nat.mod_eq_of_lt (by omega)]) hbP
  exact ⟨hsem.1, e1, e2, hsem.2⟩


/-- non-vacuity: the hypotheses of `moddown_spec` / `moddown_spec_bgv` hold on the concrete instance, so the model succeeds there -/
example : ∃ ct', switchKey c04t_exKL .bfv 1 (c04t_exCt false) c04t_exTarget c04t_exKey = .ok ct' :=
  (moddown_spec (c04t_exKSInput false) (Or.inl ⟨rfl, rfl⟩)).imp fun _ h => h.1
example : ∃ ct', switchKey c04t_exKL .ckks 1 (c04t_exCt true) c04t_exTarget c04t_exKey = .ok ct' :=
  (moddown_spec (c04t_exKSInput true) (Or.inr ⟨rfl, rfl⟩)).imp fun _ h => h.1
example : ∃ ct', switchKey c04t_exKL .bgv 1 (c04t_exCt true) c04t_exTarget c04t_exKey = .ok ct' :=
  (moddown_spec_bgv (c04t_exKSInput true) c04t_exBgvData rfl).imp fun _ h => h.1

/-- ring-level phase identity of key switching + mod-down (algebraic core of T3; see `c04t_phase_ring`) -/
theorem keyswitch_moddown_phase_ring {R : Type} [CommRing R] (k : Nat) (d g e k0 k1 : Nat → R) (s s' P c Y0 Y1 r0 r1 : R)
    (hkey : ∀ j, j < k → k0 j + k1 j * s = e j + P * g j * s') (hg : ∑ j ∈ range k, d j * g j = c)
    (h0 : ∑ j ∈ range k, d j * k0 j = P * Y0 + r0) (h1 : ∑ j ∈ range k, d j * k1 j = P * Y1 + r1) :
    P * (Y0 + Y1 * s) = P * c * s' + ∑ j ∈ range k, d j * e j - (r0 + r1 * s) :=
  c04t_phase_ring k d g e k0 k1 s s' P c Y0 Y1 r0 r1 hkey hg h0 h1

/-- `relinearize_internal` on a size-3 ciphertext is one `switchKey` of c2 (key for s²) followed by dropping c2 -/
theorem relinearize_size3 (kl : KeyLevel) (scheme : Scheme) (dsz : Nat) (keys : Nat → Option KSKey) (fuel : Nat) (ct : Ct)
    (h : ct.polys.size = 3) {key : KSKey} (hk : keys 2 = some key) {ct' : Ct}
    (hs : switchKey kl scheme dsz ct (ct.polys.getD 2 #[]) key = .ok ct') (hsz : ct'.polys.size = 3) :
    relinearize kl scheme dsz keys (fuel + 2) ct = .ok { ct' with polys := ct'.polys.extract 0 2 } :=
  c04t_relin_three kl scheme dsz keys fuel ct h hk hs hsz

theorem relinearize_size2 (kl : KeyLevel) (scheme : Scheme) (dsz : Nat) (keys : Nat → Option KSKey) (fuel : Nat) (ct : Ct)
    (h : ct.polys.size = 2) : relinearize kl scheme dsz keys (fuel + 1) ct = .ok ct := c04t_relin_two kl scheme dsz keys fuel ct h

theorem relinearize_refuses_small (kl : KeyLevel) (scheme : Scheme) (dsz : Nat) (keys : Nat → Option KSKey) (fuel : Nat)
    (ct : Ct) (h : ct.polys.size < 2) : relinearize kl scheme dsz keys (fuel + 1) ct = .error .refused :=
  c04t_relin_small kl scheme dsz keys fuel ct h

theorem relinearize_refuses_missing_key (kl : KeyLevel) (scheme : Scheme) (dsz : Nat) (keys : Nat → Option KSKey) (fuel : Nat)
    (ct : Ct) (h : 2 < ct.polys.size) (hk : keys (ct.polys.size - 1) = none) :
    relinearize kl scheme dsz keys (fuel + 1) ct = .error .refused := c04t_relin_nokey kl scheme dsz keys fuel ct h hk

theorem applyGalois_refuses_size (kl : KeyLevel) (l : Level) (scheme : Scheme) (ct : Ct) (g : Nat) (key : KSKey)
    (h : ct.polys.size ≠ 2) : applyGalois kl l scheme ct g key = .error .refused :=
  c04t_galois_refuse_size kl l scheme ct g key h

theorem applyGalois_refuses_element (kl : KeyLevel) (l : Level) (scheme : Scheme) (ct : Ct) (g : Nat) (key : KSKey)
    (h : g % 2 = 0 ∨ g > 2 * l.n) : applyGalois kl l scheme ct g key = .error .refused :=
  c04t_galois_refuse_elt kl l scheme ct g key h


end HC
