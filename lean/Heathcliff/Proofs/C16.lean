/- C16 helper lemmas: BlakeRNG state machine (chunking, stream, cursor semantics). -/
import Heathcliff.Model.Rng
namespace HC.Rng
open HC

variable {xof : Xof}

/-! ### buffer slices -/

theorem bufSlice_zero (b : Array Nat) (p : Nat) : bufSlice b p 0 = [] := by simp [bufSlice]

theorem bufSlice_add (b : Array Nat) (p a c : Nat) :
    bufSlice b p (a + c) = bufSlice b p a ++ bufSlice b (p + a) c := by
  simp [bufSlice, List.range_add, List.map_append, List.map_map, Function.comp_def, Nat.add_assoc]

theorem bufSlice_one (b : Array Nat) (p : Nat) : bufSlice b p 1 = [b.getD p 0] := by
  simp [bufSlice, List.range_succ]

theorem bufSlice_length (b : Array Nat) (p n : Nat) : (bufSlice b p n).length = n := by simp [bufSlice]

/-! ### fillBytes: unfolding -/

theorem fillBytes_zero (s : St) : fillBytes xof s 0 = ([], s) := by rw [fillBytes]; simp

theorem fillBytes_unfold (s : St) {n : Nat} (h : n ≠ 0) :
    fillBytes xof s n =
      (bufSlice (preFill xof s).buffer (preFill xof s).pos (min n (BUF - (preFill xof s).pos)) ++
        (fillBytes xof { preFill xof s with pos := (preFill xof s).pos + min n (BUF - (preFill xof s).pos) }
          (n - min n (BUF - (preFill xof s).pos))).1,
       (fillBytes xof { preFill xof s with pos := (preFill xof s).pos + min n (BUF - (preFill xof s).pos) }
          (n - min n (BUF - (preFill xof s).pos))).2) := by
  rw [fillBytes]; simp [h]

/-- one byte: refill if the buffer is exhausted, take the byte at the cursor -/
def readByte (xof : Xof) (s : St) : Nat × St :=
  ((preFill xof s).buffer.getD (preFill xof s).pos 0, { preFill xof s with pos := (preFill xof s).pos + 1 })

theorem fillBytes_one (s : St) : fillBytes xof s 1 = ([(readByte xof s).1], (readByte xof s).2) := by
  have hp := preFill_pos_lt xof s
  rw [fillBytes_unfold s (by decide)]
  have h1 : min 1 (BUF - (preFill xof s).pos) = 1 := by omega
  rw [h1]; simp [fillBytes_zero, bufSlice_one, readByte]

theorem preFill_of_lt {s : St} (h : s.pos < BUF) : preFill xof s = s := by
  unfold preFill; rw [if_neg (by omega)]

/-- reading n+1 bytes = reading one byte, then n bytes (whatever the buffer position) -/
theorem fillBytes_succ (s : St) (n : Nat) :
    fillBytes xof s (n + 1) =
      ((readByte xof s).1 :: (fillBytes xof (readByte xof s).2 n).1, (fillBytes xof (readByte xof s).2 n).2) := by
  have hp := preFill_pos_lt xof s
  rw [fillBytes_unfold s (by omega)]
  by_cases hn : n = 0
  · subst hn
    have h1 : min (0 + 1) (BUF - (preFill xof s).pos) = 1 := by omega
    rw [h1]; simp [fillBytes_zero, bufSlice_one, readByte]
  · by_cases hlast : (preFill xof s).pos + 1 = BUF
    · -- the byte read is the last one of the buffer
      have h1 : min (n + 1) (BUF - (preFill xof s).pos) = 1 := by omega
      rw [h1]
      have h2 : n + 1 - 1 = n := by omega
      rw [h2]; simp [bufSlice_one, readByte]
    · -- more bytes left in the buffer after this one
      have hlt : (readByte xof s).2.pos < BUF := by simp [readByte]; omega
      rw [fillBytes_unfold (readByte xof s).2 hn, preFill_of_lt hlt]
      have h3 : min (n + 1) (BUF - (preFill xof s).pos) = 1 + min n (BUF - (readByte xof s).2.pos) := by
        simp [readByte]; omega
      rw [h3, bufSlice_add, bufSlice_one]
      have h4 : n + 1 - (1 + min n (BUF - (readByte xof s).2.pos)) = n - min n (BUF - (readByte xof s).2.pos) := by omega
      rw [h4]
      simp [readByte, Nat.add_assoc]

/-- chunking law: one read of a+b bytes = a read of a bytes followed by a read of b bytes,
    same bytes AND same final state, from ANY state -/
theorem fillBytes_add (s : St) (a b : Nat) :
    fillBytes xof s (a + b) =
      ((fillBytes xof s a).1 ++ (fillBytes xof (fillBytes xof s a).2 b).1, (fillBytes xof (fillBytes xof s a).2 b).2) := by
  induction a generalizing s with
  | zero => simp [fillBytes_zero]
  | succ a ih =>
    have e : a + 1 + b = (a + b) + 1 := by omega
    rw [e, fillBytes_succ, fillBytes_succ, ih]
    simp

theorem fillBytes_length (s : St) (n : Nat) : (fillBytes xof s n).1.length = n := by
  induction n generalizing s with
  | zero => simp [fillBytes_zero]
  | succ n ih => rw [fillBytes_succ]; simp [ih]

/-- successive reads = one read of the total -/
theorem runFills_eq (s : St) (ns : List Nat) :
    ((runFills xof s ns).1.flatten, (runFills xof s ns).2) = fillBytes xof s ns.sum := by
  induction ns generalizing s with
  | nil => simp [runFills, fillBytes_zero]
  | cons n ns ih =>
    have := ih (fillBytes xof s n).2
    simp only [runFills, List.flatten_cons, List.sum_cons]
    rw [fillBytes_add, ← this]

/-! ### the state as a cursor into the stream -/

theorem BUF_eq : BUF = 4096 := rfl

/-- `s` is the state of a generator whose cursor stands at absolute offset `off` of the stream of `s.seed`:
    `off + BUF = k·BUF + pos`, the counter is `k` (mod 2^64) and the unread part of the buffer is the stream -/
structure Rep (xof : Xof) (s : St) (off : Nat) : Prop where
  pos_le : s.pos ≤ BUF
  cnt : ∃ k, off + BUF = k * BUF + s.pos ∧ s.counter = k % B64
  buf : ∀ i, s.pos ≤ i → i < BUF → s.buffer.getD i 0 = byteAt xof s.seed (off + (i - s.pos))

theorem rep_fromSeed (seed : Seed) : Rep xof (fromSeed seed) 0 where
  pos_le := by simp [fromSeed]
  cnt := ⟨0, by simp [fromSeed], by simp [fromSeed]⟩
  buf := by intro i h1 h2; simp [fromSeed] at h1; omega

theorem rep_refill {s : St} {off : Nat} (h : Rep xof s off) (hp : s.pos = BUF) : Rep xof (refill xof s) off := by
  obtain ⟨k, hk, hc⟩ := h.cnt
  have hB := BUF_eq
  refine ⟨by simp [refill], ⟨k + 1, ?_, ?_⟩, ?_⟩
  · simp only [refill]; rw [hp] at hk; rw [hB] at hk ⊢; omega
  · simp only [refill]; rw [hc]; simp only [B64]; omega
  · intro i _ hi
    simp only [refill, byteAt, Nat.sub_zero]
    rw [hp] at hk
    have h1 : (off + i) / BUF = k := by rw [hB] at hk hi ⊢; omega
    have h2 : (off + i) % BUF = i := by rw [hB] at hk hi ⊢; omega
    rw [h1, h2, hc]

theorem refill_seed (s : St) : (refill xof s).seed = s.seed := rfl

theorem rep_preFill {s : St} {off : Nat} (h : Rep xof s off) : Rep xof (preFill xof s) off := by
  unfold preFill
  by_cases hp : s.pos ≥ BUF
  · rw [if_pos hp]; exact rep_refill h (Nat.le_antisymm h.pos_le hp)
  · rw [if_neg hp]; exact h

theorem preFill_seed (s : St) : (preFill xof s).seed = s.seed := by
  unfold preFill; split <;> rfl

/-- moving the cursor forward inside the buffer -/
theorem rep_move {s : St} {off : Nat} (h : Rep xof s off) (d : Nat) (hd : s.pos + d ≤ BUF) :
    Rep xof { s with pos := s.pos + d } (off + d) := by
  obtain ⟨k, hk, hc⟩ := h.cnt
  refine ⟨hd, ⟨k, by simp only; omega, hc⟩, ?_⟩
  intro i h1 h2
  simp only at h1 ⊢
  rw [h.buf i (by omega) h2]
  congr 1; omega

theorem rep_readByte {s : St} {off : Nat} (h : Rep xof s off) :
    (readByte xof s).1 = byteAt xof s.seed off ∧ Rep xof (readByte xof s).2 (off + 1) ∧ (readByte xof s).2.seed = s.seed := by
  have h1 := rep_preFill h
  have hlt := preFill_pos_lt xof s
  refine ⟨?_, ?_, ?_⟩
  · simp only [readByte]
    rw [h1.buf _ (Nat.le_refl _) hlt, preFill_seed]; simp
  · exact rep_move h1 1 (by omega)
  · simp [readByte, preFill_seed]

theorem streamSlice_succ (seed : Seed) (a n : Nat) :
    streamSlice xof seed a (n + 1) = byteAt xof seed a :: streamSlice xof seed (a + 1) n := by
  simp [streamSlice, List.range_succ_eq_map, List.map_map, Function.comp_def, Nat.add_assoc, Nat.add_comm 1]

/-- `fill_bytes` returns the next `n` bytes of the stream and moves the cursor by `n` -/
theorem rep_fillBytes {s : St} {off : Nat} (h : Rep xof s off) (n : Nat) :
    (fillBytes xof s n).1 = streamSlice xof s.seed off n ∧ Rep xof (fillBytes xof s n).2 (off + n) ∧
      (fillBytes xof s n).2.seed = s.seed := by
  induction n generalizing s off with
  | zero => simp [fillBytes_zero, streamSlice, h]
  | succ n ih =>
    obtain ⟨hb, hr, hs⟩ := rep_readByte h
    obtain ⟨i1, i2, i3⟩ := ih hr
    rw [fillBytes_succ, streamSlice_succ]
    refine ⟨?_, ?_, ?_⟩
    · simp only; rw [hb, i1, hs]
    · simp only; have e : off + (n + 1) = off + 1 + n := by omega
      rw [e]; exact i2
    · simp only; rw [i3, hs]

theorem foldr_range_congr (f g : Nat → Nat) (l : List Nat) (h : ∀ k ∈ l, f k = g k) :
    l.foldr (fun k acc => f k + 256 * acc) 0 = l.foldr (fun k acc => g k + 256 * acc) 0 := by
  induction l with
  | nil => rfl
  | cons a l ih =>
    simp only [List.foldr_cons]
    rw [h a (by simp), ih (fun k hk => h k (by simp [hk]))]

/-- a word read inside the buffer is the little-endian word of the stream at the cursor -/
theorem rep_leRead {s : St} {off : Nat} (h : Rep xof s off) (w : Nat) (hw : s.pos + w ≤ BUF) :
    leRead s.buffer s.pos w = streamWord xof s.seed off w := by
  unfold leRead streamWord
  apply foldr_range_congr
  intro k hk
  have hk' : k < w := List.mem_range.mp hk
  rw [h.buf (s.pos + k) (by omega) (by omega)]
  congr 1; omega

/-- the part of `nextWord` after the alignment -/
def takeWord (w : Nat) (xof : Xof) (s1 : St) : Nat × St :=
  (leRead (if s1.pos + w > BUF then refill xof s1 else s1).buffer (if s1.pos + w > BUF then refill xof s1 else s1).pos w,
   { (if s1.pos + w > BUF then refill xof s1 else s1) with pos := (if s1.pos + w > BUF then refill xof s1 else s1).pos + w })

theorem nextWord_eq (add mask w : Nat) (s : St) :
    nextWord add mask w xof s = takeWord w xof { s with pos := (s.pos + add) / (mask + 1) * (mask + 1) } := rfl

theorem rep_takeWord {s1 : St} {a : Nat} (h : Rep xof s1 a) (w : Nat) (hw : w ≤ BUF)
    (hfull : s1.pos + w > BUF → s1.pos = BUF) :
    (takeWord w xof s1).1 = streamWord xof s1.seed a w ∧ Rep xof (takeWord w xof s1).2 (a + w) ∧
      (takeWord w xof s1).2.seed = s1.seed := by
  by_cases hc : s1.pos + w > BUF
  · have hr := rep_refill h (hfull hc)
    have hw' : (refill xof s1).pos + w ≤ BUF := by simp [refill, hw]
    simp only [takeWord, if_pos hc]
    exact ⟨by rw [rep_leRead hr w hw']; rfl, rep_move hr w hw', rfl⟩
  · have hw' : s1.pos + w ≤ BUF := by omega
    simp only [takeWord, if_neg hc]
    exact ⟨rep_leRead h w hw', rep_move h w hw', trivial⟩

/-- `next_u32`: round the cursor up to a multiple of 4, read 4 bytes little endian -/
theorem rep_nextU32 {s : St} {off : Nat} (h : Rep xof s off) :
    (nextU32 xof s).1 = streamWord xof s.seed ((off + 3) / 4 * 4) 4 ∧
      Rep xof (nextU32 xof s).2 ((off + 3) / 4 * 4 + 4) ∧ (nextU32 xof s).2.seed = s.seed := by
  obtain ⟨k, hk, _⟩ := h.cnt
  have hB := BUF_eq
  have hle := h.pos_le
  rw [hB] at hk hle
  -- alignment = a move forward by the same amount in buffer and stream
  have hd : (s.pos + 3) / 4 * 4 = s.pos + ((off + 3) / 4 * 4 - off) := by omega
  have hmv := rep_move h ((off + 3) / 4 * 4 - off) (by rw [hB]; omega)
  have hoff : off + ((off + 3) / 4 * 4 - off) = (off + 3) / 4 * 4 := by omega
  rw [hoff, ← hd] at hmv
  have e : nextU32 xof s = takeWord 4 xof { s with pos := (s.pos + 3) / 4 * 4 } := rfl
  rw [e]
  exact rep_takeWord hmv 4 (by rw [hB]; omega) (by intro hc; simp only at hc ⊢; rw [hB] at hc ⊢; omega)

/-- `next_u64`: round the cursor up to a multiple of 8, read 8 bytes little endian -/
theorem rep_nextU64 {s : St} {off : Nat} (h : Rep xof s off) :
    (nextU64 xof s).1 = streamWord xof s.seed ((off + 7) / 8 * 8) 8 ∧
      Rep xof (nextU64 xof s).2 ((off + 7) / 8 * 8 + 8) ∧ (nextU64 xof s).2.seed = s.seed := by
  obtain ⟨k, hk, _⟩ := h.cnt
  have hB := BUF_eq
  have hle := h.pos_le
  rw [hB] at hk hle
  have hd : (s.pos + 7) / 8 * 8 = s.pos + ((off + 7) / 8 * 8 - off) := by omega
  have hmv := rep_move h ((off + 7) / 8 * 8 - off) (by rw [hB]; omega)
  have hoff : off + ((off + 7) / 8 * 8 - off) = (off + 7) / 8 * 8 := by omega
  rw [hoff, ← hd] at hmv
  have e : nextU64 xof s = takeWord 8 xof { s with pos := (s.pos + 7) / 8 * 8 } := rfl
  rw [e]
  exact rep_takeWord hmv 8 (by rw [hB]; omega) (by intro hc; simp only at hc ⊢; rw [hB] at hc ⊢; omega)

theorem rep_step {s : St} {off : Nat} (h : Rep xof s off) (o : Op) :
    (step xof s o).1 = (cursorStep xof s.seed off o).1 ∧ Rep xof (step xof s o).2 (cursorStep xof s.seed off o).2 ∧
      (step xof s o).2.seed = s.seed := by
  cases o with
  | fill n => obtain ⟨a, b, c⟩ := rep_fillBytes h n; exact ⟨by simp [step, cursorStep, a], b, c⟩
  | u32 => obtain ⟨a, b, c⟩ := rep_nextU32 h; exact ⟨by simp [step, cursorStep, a], b, c⟩
  | u64 => obtain ⟨a, b, c⟩ := rep_nextU64 h; exact ⟨by simp [step, cursorStep, a], b, c⟩

/-- every interleaving of `fill_bytes` / `next_u32` / `next_u64` is the cursor semantics over the stream -/
theorem rep_run {s : St} {off : Nat} (h : Rep xof s off) (ops : List Op) :
    (run xof s ops).1 = (cursorRun xof s.seed off ops).1 ∧ Rep xof (run xof s ops).2 (cursorRun xof s.seed off ops).2 := by
  induction ops generalizing s off with
  | nil => exact ⟨rfl, h⟩
  | cons o os ih =>
    obtain ⟨a, b, c⟩ := rep_step h o
    obtain ⟨i1, i2⟩ := ih b
    simp only [run, cursorRun]
    rw [c] at i1 i2
    exact ⟨by rw [a, i1], i2⟩

/-! ### the stream as the literal concatenation of blocks -/

/-- `xof seed 0 ++ xof seed 1 ++ … ++ xof seed (k-1)` -/
def blocksConcat (xof : Xof) (seed : Seed) (k : Nat) : List Nat := (List.range k).flatMap fun c => (xof seed c).toList

theorem blocksConcat_succ (seed : Seed) (k : Nat) :
    blocksConcat xof seed (k + 1) = blocksConcat xof seed k ++ (xof seed k).toList := by
  simp [blocksConcat, List.range_succ, List.flatMap_append]

theorem blocksConcat_length (seed : Seed) (hsz : ∀ c, (xof seed c).size = BUF) (k : Nat) :
    (blocksConcat xof seed k).length = k * BUF := by
  induction k with
  | zero => simp [blocksConcat]
  | succ k ih => rw [blocksConcat_succ, List.length_append, ih, Array.length_toList, hsz]; rw [Nat.succ_mul]

theorem blocksConcat_getD (seed : Seed) (hsz : ∀ c, (xof seed c).size = BUF) (k : Nat) (hk : k ≤ B64) (i : Nat)
    (hi : i < k * BUF) : (blocksConcat xof seed k).getD i 0 = byteAt xof seed i := by
  induction k with
  | zero => omega
  | succ k ih =>
    have hB := BUF_eq
    have hl := blocksConcat_length (xof := xof) seed hsz k
    rw [blocksConcat_succ]
    by_cases hlt : i < k * BUF
    · have e : (blocksConcat xof seed k ++ (xof seed k).toList).getD i 0 = (blocksConcat xof seed k).getD i 0 := by
        simp only [List.getD_eq_getElem?_getD]
        rw [List.getElem?_append_left (by rw [hl]; exact hlt)]
      rw [e]
      exact ih (by omega) hlt
    · have e : (blocksConcat xof seed k ++ (xof seed k).toList).getD i 0 = (xof seed k).toList.getD (i - k * BUF) 0 := by
        simp only [List.getD_eq_getElem?_getD]
        rw [List.getElem?_append_right (by rw [hl]; omega), hl]
      rw [e]
      simp only [byteAt]
      have h1 : i / BUF = k := by rw [hB] at hi hlt ⊢; omega
      have h2 : i % BUF = i - k * BUF := by rw [hB] at hi hlt ⊢; omega
      have h3 : k % B64 = k := Nat.mod_eq_of_lt (by omega)
      rw [h1, h2, h3]
      simp [Array.getD_eq_getD_getElem?, List.getD_eq_getElem?_getD]

theorem map_getD_range_eq_take (L : List Nat) : ∀ n, n ≤ L.length → (List.range n).map (fun i => L.getD i 0) = L.take n := by
  induction L with
  | nil => intro n hn; simp at hn; subst hn; simp
  | cons a t ih =>
    intro n hn
    cases n with
    | zero => simp
    | succ m =>
      rw [List.range_succ_eq_map, List.map_cons, List.map_map, List.take_succ_cons]
      simp only [List.length_cons] at hn
      have := ih m (by omega)
      simp only [List.getD_cons_zero]
      congr 1

/-- the first `n` stream bytes are the prefix of length `n` of the concatenated blocks -/
theorem streamSlice_eq_take (seed : Seed) (hsz : ∀ c, (xof seed c).size = BUF) (k : Nat) (hk : k ≤ B64) (n : Nat)
    (hn : n ≤ k * BUF) : streamSlice xof seed 0 n = (blocksConcat xof seed k).take n := by
  rw [← map_getD_range_eq_take _ n (by rw [blocksConcat_length seed hsz]; exact hn)]
  simp only [streamSlice, Nat.zero_add]
  apply List.map_congr_left
  intro i hi
  have := List.mem_range.mp hi
  exact (blocksConcat_getD seed hsz k hk i (by omega)).symm

/-! ### `x & !m` as coded = rounding down to a multiple of `m + 1` (the form used in the model) -/

theorem and_not_mask (k : Nat) (x : Nat) (hx : x < 2^64) :
    x &&& ((2^(64-k) - 1) * 2^k) = x / 2^k * 2^k := by
  apply Nat.eq_of_testBit_eq
  intro i
  rw [Nat.testBit_and, Nat.testBit_mul_two_pow, Nat.testBit_mul_two_pow, Nat.testBit_div_two_pow, Nat.testBit_two_pow_sub_one]
  by_cases h1 : k ≤ i
  · have e : i - k + k = i := by omega
    by_cases h2 : i < 64
    · have : i - k < 64 - k := by omega
      simp [h1, this, e]
    · have : x < 2 ^ i := Nat.lt_of_lt_of_le hx (Nat.pow_le_pow_right (by decide) (by omega))
      have hb := Nat.testBit_lt_two_pow this
      simp [hb, e]
  · simp [h1]

/-- `(pos + 3) & !3` on a 64-bit `usize` -/
theorem align4_as_coded (x : Nat) (hx : x < 2^64) : x &&& (2^64 - 1 - Gen.U32_ALIGN_MASK) = x / (Gen.U32_ALIGN_MASK + 1) * (Gen.U32_ALIGN_MASK + 1) :=
  and_not_mask 2 x hx

/-- `(pos + 7) & !7` on a 64-bit `usize` -/
theorem align8_as_coded (x : Nat) (hx : x < 2^64) : x &&& (2^64 - 1 - Gen.U64_ALIGN_MASK) = x / (Gen.U64_ALIGN_MASK + 1) * (Gen.U64_ALIGN_MASK + 1) :=
  and_not_mask 3 x hx

end HC.Rng
