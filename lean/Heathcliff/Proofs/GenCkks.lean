import Heathcliff.Gen.CkksFns
import Heathcliff.Proofs.C12A
import Heathcliff.Proofs.GenWord
import Mathlib.Tactic.Ring

/- Translator phase 4k (worker Y): the GENERATED integer side of the CKKS encoder (Gen/CkksFns.lean, regenerated from
   src/ckks_encoder.rs on every run) tied to the C12 mathematics: generic loop lemmas, the per-coefficient elements of the
   ≤ 64-bit and ≤ 128-bit paths (both sign branches = the lambdas of `Ckks.path64` / `Ckks.path128`, hence c mod q), the row /
   buffer invariants of the nested `for` loops, the maximum scan. -/
namespace HC
open Ckks GenK

/-! ### generic loop lemmas -/

theorem gk_forLoop_inv {σ : Type} (Inv : Nat → σ → Prop) (body : Nat → σ → R σ) (t lo : Nat) (s : σ)
    (h0 : Inv lo s)
    (hstep : ∀ i s, lo ≤ i → i < lo + t → Inv i s → ∃ s', body i s = .ok s' ∧ Inv (i + 1) s') :
    ∃ s', forLoop body t lo s = .ok s' ∧ Inv (lo + t) s' := by
  induction t generalizing lo s with
  | zero => exact ⟨s, rfl, h0⟩
  | succ t ih =>
    obtain ⟨s1, e1, i1⟩ := hstep lo s (Nat.le_refl _) (by omega) h0
    obtain ⟨s2, e2, i2⟩ := ih (lo + 1) s1 i1 (fun i s hi hlt hinv => hstep i s (by omega) (by omega) hinv)
    refine ⟨s2, ?_, by rw [show lo + (t + 1) = lo + 1 + t by omega]; exact i2⟩
    show (body lo s >>= fun s => forLoop body t (lo + 1) s) = _
    rw [e1]; exact e2

theorem gk_forRange_inv {σ : Type} (Inv : Nat → σ → Prop) (body : Nat → σ → R σ) (hi : Nat) (s : σ)
    (h0 : Inv 0 s)
    (hstep : ∀ i s, i < hi → Inv i s → ∃ s', body i s = .ok s' ∧ Inv (i + 1) s') :
    ∃ s', forRange 0 hi s body = .ok s' ∧ Inv hi s' := by
  have := gk_forLoop_inv Inv body hi 0 s h0 (fun i s _ hlt hinv => hstep i s (by omega) hinv)
  simpa [forRange] using this

/-- the two sign branches run the same loop with different bodies -/
theorem gk_if_forRange {σ : Type} (b : Bool) (lo hi : Nat) (s : σ) (f g : Nat → σ → R σ) :
    (if b = true then forRange lo hi s f else forRange lo hi s g) = forRange lo hi s (fun j s => if b = true then f j s else g j s) := by
  cases b <;> simp

/-! ### index arithmetic of the `[component][coefficient]` layout -/

theorem gk_pos_lt {cc k i j : Nat} (hi : i < cc) (hj : j < k) : i + j * cc < cc * k := by
  have : (j + 1) * cc ≤ k * cc := Nat.mul_le_mul_right cc hj
  rw [Nat.mul_comm cc k]
  calc i + j * cc < cc + j * cc := by omega
    _ = (j + 1) * cc := by ring
    _ ≤ k * cc := this

theorem gk_pos_mod {cc i j : Nat} (hi : i < cc) : (i + j * cc) % cc = i := by
  rw [Nat.add_mul_mod_self_right, Nat.mod_eq_of_lt hi]

theorem gk_pos_inj {cc i j j' : Nat} (hi : i < cc) (h : i + j * cc = i + j' * cc) : j = j' := by
  have : j * cc = j' * cc := by omega
  exact Nat.eq_of_mul_eq_mul_right (by omega) this

/-! ### one row: `for j in 0..k { dest[i + j * cc] = f j }` -/

/-- a loop whose body stores `f j` at position `i + j·cc` fills row `i` and leaves the other rows alone -/
theorem gk_row_spec {cc k i : Nat} (f : Nat → Nat) (body : Nat → List Nat → R (List Nat)) (d : List Nat)
    (hbody : ∀ j d, j < k → d.length = cc * k → body j d = .ok (d.set (i + j * cc) (f j)))
    (hi : i < cc) (hd : d.length = cc * k) :
    ∃ d', forRange 0 k d body = .ok d' ∧ d'.length = cc * k ∧ (∀ j, j < k → d'[i + j * cc]? = some (f j)) ∧
      (∀ p, p % cc ≠ i → d'[p]? = d[p]?) := by
  obtain ⟨d', e, hl, h1, h2⟩ := gk_forRange_inv
    (fun j d' => d'.length = cc * k ∧ (∀ j', j' < j → d'[i + j' * cc]? = some (f j')) ∧ (∀ p, p % cc ≠ i → d'[p]? = d[p]?))
    body k d ⟨hd, by intro j' h; omega, fun _ _ => rfl⟩
    (by
      intro j d1 hj ⟨hl, h1, h2⟩
      refine ⟨_, hbody j d1 hj hl, by simp [hl], ?_, ?_⟩
      · intro j' hj'
        by_cases e : j' = j
        · subst e
          rw [List.getElem?_set_self (by rw [hl]; exact gk_pos_lt hi hj)]
        · rw [List.getElem?_set_ne (by intro h; exact e (gk_pos_inj hi h).symm)]
          exact h1 j' (by omega)
      · intro p hp
        rw [List.getElem?_set_ne (by intro h; rw [← h, gk_pos_mod hi] at hp; exact hp rfl)]
        exact h2 p hp)
  exact ⟨d', e, hl, h1, h2⟩

/-- all rows: `for i in 0..n { row i }` with rows that satisfy `gk_row_spec`'s conclusion -/
theorem gk_rows_spec {cc k n : Nat} (F : Nat → Nat → Nat) (body : Nat → List Nat → R (List Nat)) (d : List Nat)
    (hrow : ∀ i d, i < n → d.length = cc * k → ∃ d', body i d = .ok d' ∧ d'.length = cc * k ∧
      (∀ j, j < k → d'[i + j * cc]? = some (F i j)) ∧ (∀ p, p % cc ≠ i → d'[p]? = d[p]?))
    (hn : n ≤ cc) (hd : d.length = cc * k) :
    ∃ d', forRange 0 n d body = .ok d' ∧ d'.length = cc * k ∧
      (∀ i j, i < n → j < k → d'[i + j * cc]? = some (F i j)) ∧ (∀ p, n ≤ p % cc → d'[p]? = d[p]?) := by
  obtain ⟨d', e, hl, h1, h2⟩ := gk_forRange_inv
    (fun i d' => d'.length = cc * k ∧ (∀ i' j, i' < i → j < k → d'[i' + j * cc]? = some (F i' j)) ∧ (∀ p, i ≤ p % cc → d'[p]? = d[p]?))
    body n d ⟨hd, by intro i' j h; omega, fun _ _ => rfl⟩
    (by
      intro i d1 hi ⟨hl, h1, h2⟩
      obtain ⟨d2, e2, hl2, r1, r2⟩ := hrow i d1 hi hl
      refine ⟨d2, e2, hl2, ?_, ?_⟩
      · intro i' j hi' hj
        by_cases e : i' = i
        · subst e; exact r1 j hj
        · rw [r2 _ (by rw [gk_pos_mod (by omega)]; exact e)]
          exact h1 i' j (by omega) hj
      · intro p hp
        rw [r2 p (by omega)]; exact h2 p (by omega))
  exact ⟨d', e, hl, h1, h2⟩

/-! ### the float readings on non-negative values -/

theorem gk_fabs_nat (c : Int) : fabs c = (c.natAbs : Int) := rfl
theorem gk_fToU64_nat (a : Nat) : fToU64 (a : Int) = satU64 a := by simp [fToU64]
theorem gk_fmod64_nat (a : Nat) : fmod64 (a : Int) = ((a % B64 : Nat) : Int) := by
  unfold fmod64 B64; rfl
theorem gk_fdiv64_nat (a : Nat) : fdiv64 (a : Int) = ((a / B64 : Nat) : Int) := by
  unfold fdiv64 B64; rfl

theorem gk_idxT_ok {l : List Modulus} {j : Nat} (h : j < l.length) : idxT l j = .ok l[j] := by
  simp [idxT, List.getElem?_eq_getElem h]
theorem gk_idxI_ok {l : List Int} {j : Nat} (h : j < l.length) : idxI l j = .ok l[j] := by
  simp [idxI, List.getElem?_eq_getElem h]
theorem gk_setIdx_ok {l : List Nat} {i : Nat} (v : Nat) (h : i < l.length) : setIdx l i v = .ok (l.set i v) := by
  simp [setIdx, h]
theorem gk_ckMul_ok {a b : Nat} (h : a * b < 2^64) : ckMul a b = .ok (a * b) := by
  unfold ckMul; rw [if_pos (by rw [B64_eq]; exact h)]
theorem gk_ckAdd_ok {a b : Nat} (h : a + b < 2^64) : ckAdd a b = .ok (a + b) := by
  unfold ckAdd; rw [if_pos (by rw [B64_eq]; exact h)]

/-! ### the per-coefficient element of each path (both sign branches) -/

/-- ≤ 64-bit path, negative branch and non-negative branch: `negate(reduce(|c| as u64))` / `reduce(|c| as u64)` = c mod q -/
theorem gk_elem64 {m : Modulus} (h : m.WF) {c : Int} (hc : c.natAbs < 2^64) :
    (if decide (c < 0) = true then (do let r ← GenP.mod_reduce m (fToU64 (fabs c)); GenW.negate_u64_mod r m)
     else GenP.mod_reduce m (fToU64 (fabs c))) = .ok (c12_res c m.value) := by
  have hs : fToU64 (fabs c) = c.natAbs := by
    rw [gk_fabs_nat, gk_fToU64_nat]; unfold satU64; rw [if_pos (by rw [B64_eq]; exact hc)]
  have hr : GenP.mod_reduce m c.natAbs = .ok (c.natAbs % m.value) := by
    unfold GenP.mod_reduce; rw [gw_barrett_reduce_u64_eq]; exact barrett64_exact h hc
  have := c12a_signFix h c
  unfold signFix at this
  rw [hs, hr]
  by_cases hn : c < 0
  · rw [decide_eq_true hn, if_pos rfl] at this ⊢
    show GenW.negate_u64_mod _ m = _
    rw [gw_negate_u64_mod_eq]; exact this
  · rw [decide_eq_false hn] at this ⊢
    simp only [Bool.false_eq_true, if_false] at this ⊢
    exact this

/-- ≤ 128-bit path: two-word split of |c|, `barrett_reduce_u128`, negate when negative = c mod q -/
theorem gk_elem128 {m : Modulus} (h : m.WF) {c : Int} (hc : c.natAbs < 2^128) :
    (if decide (c < 0) = true then
       (do let r ← GenW.barrett_reduce_u128 (fToU64 (fmod64 (fabs c))) (fToU64 (fdiv64 (fabs c))) m; GenW.negate_u64_mod r m)
     else GenW.barrett_reduce_u128 (fToU64 (fmod64 (fabs c))) (fToU64 (fdiv64 (fabs c))) m) = .ok (c12_res c m.value) := by
  have hhi : c.natAbs / B64 < 2^64 := by
    rw [B64_eq, Nat.div_lt_iff_lt_mul (by norm_num)]; norm_num at hc ⊢; exact hc
  have hlo : c.natAbs % B64 < 2^64 := by rw [B64_eq]; exact Nat.mod_lt _ (by norm_num)
  have h0 : fToU64 (fmod64 (fabs c)) = c.natAbs % B64 := by
    rw [gk_fabs_nat, gk_fmod64_nat, gk_fToU64_nat]; unfold satU64; rw [if_pos (by rw [B64_eq]; exact hlo)]
  have h1 : fToU64 (fdiv64 (fabs c)) = c.natAbs / B64 := by
    rw [gk_fabs_nat, gk_fdiv64_nat, gk_fToU64_nat]; unfold satU64; rw [if_pos (by rw [B64_eq]; exact hhi)]
  have e : c.natAbs % B64 + 2 ^ 64 * (c.natAbs / B64) = c.natAbs := by
    rw [← B64_eq]; exact Nat.mod_add_div _ _
  have hr : GenW.barrett_reduce_u128 (c.natAbs % B64) (c.natAbs / B64) m = .ok (c.natAbs % m.value) := by
    rw [gw_barrett_reduce_u128_eq, barrett128_exact h hlo hhi, e]
  have := c12a_signFix h c
  unfold signFix at this
  rw [h0, h1, hr]
  by_cases hn : c < 0
  · rw [decide_eq_true hn, if_pos rfl] at this ⊢
    show GenW.negate_u64_mod _ m = _
    rw [gw_negate_u64_mod_eq]; exact this
  · rw [decide_eq_false hn] at this ⊢
    simp only [Bool.false_eq_true, if_false] at this ⊢
    exact this

/-! ### the maximum scan -/

theorem gk_foldl_max_ge (l : List Nat) (x : Nat) : x ≤ l.foldl max x ∧ ∀ y ∈ l, y ≤ l.foldl max x := by
  induction l generalizing x with
  | nil => simp
  | cons a r ih =>
    obtain ⟨h1, h2⟩ := ih (max x a)
    refine ⟨by simp only [List.foldl_cons]; omega, ?_⟩
    intro y hy
    simp only [List.foldl_cons]
    rcases List.mem_cons.mp hy with rfl | hy
    · omega
    · exact h2 y hy

/-- the scan over ALL entries returns a bound of EVERY entry (and fails only on the empty list) -/
theorem gk_maxAll_spec {cb : List Nat} (h : cb ≠ []) : ∃ mb, maxAll cb = .ok mb ∧ ∀ i (hi : i < cb.length), cb[i] ≤ mb := by
  cases cb with
  | nil => exact absurd rfl h
  | cons x r =>
    refine ⟨r.foldl max x, rfl, ?_⟩
    intro i hi
    obtain ⟨h1, h2⟩ := gk_foldl_max_ge r x
    cases i with
    | zero => exact h1
    | succ i => exact h2 _ (List.getElem_mem _)

end HC

namespace HC
open Ckks GenK

theorem gk_satAdd_ge {mb total : Nat} (ht : total < 2^64) (h : mb + 1 ≥ total) : satAdd mb 1 ≥ total := by
  unfold satAdd; rw [B64_eq]; split <;> omega

/-- the GENERATED `encode_internal_c64_array` refuses ("Values are too large to encode") as soon as the scan over ALL
    coefficients gives a bit count ≥ the total bit count -/
theorem gk_c64_array_refuses {cb : List Nat} {mb total_bits slots nvalues : Nat} (hm : maxAll cb = .ok mb)
    (ht : total_bits < 2^64) (h : mb + 1 ≥ total_bits) (hs : slots * 2 < 2^64) (hv : nvalues ≤ slots)
    (moduli : List Modulus) (degree ntt_len : Nat) (rc : List Int) (decompose : List Nat → R (List Nat))
    (nttP : List Nat → Nat → R (List Nat)) (dest : List Nat) :
    encode_internal_c64_array true true nvalues slots true total_bits moduli degree ntt_len cb rc decompose nttP dest
      = .error .refused := by
  unfold encode_internal_c64_array
  have h1 : ¬ nvalues > slots := by omega
  simp only [not_true_eq_false, if_false, h1, gk_ckMul_ok hs, hm, bind, Except.bind, if_pos (gk_satAdd_ge ht h)]

theorem gk_f64_polynomial_refuses {cb : List Nat} {mb total_bits slots nvalues : Nat} (hm : maxAll cb = .ok mb)
    (ht : total_bits < 2^64) (h : mb + 1 ≥ total_bits) (hs : slots * 2 < 2^64) (hv : nvalues ≤ slots * 2)
    (moduli : List Modulus) (degree ntt_len : Nat) (hd : degree * moduli.length < 2^64) (rc : List Int) (decompose : List Nat → R (List Nat))
    (nttP : List Nat → Nat → R (List Nat)) (dest : List Nat) :
    encode_internal_f64_polynomial true true nvalues slots true total_bits moduli degree ntt_len cb rc decompose nttP dest
      = .error .refused := by
  unfold encode_internal_f64_polynomial
  have h1 : ¬ nvalues > slots * 2 := by omega
  simp only [not_true_eq_false, if_false, h1, gk_ckMul_ok hs, gk_ckMul_ok hd, hm, bind, Except.bind, if_pos (gk_satAdd_ge ht h)]

end HC
