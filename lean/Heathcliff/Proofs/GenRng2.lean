/- Translator phase 4j: the GENERATED samplers of Gen/RngFns.lean (`HC.GenRng.centered_binomial`, `ternary`, `uniform`) run on the
   generated `BlakeRNG` return what the hand model of Model/Rng.lean (`centeredBinomial`, `ternary`, `uniformPoly`) returns, laid out
   flat (`flatCM`: component `j`, coefficient `i` at position `i + j·n`).  Helper prefix `gs_`.  No Mathlib. -/
import Heathcliff.Proofs.GenRng
namespace HC.GenRng
open HC HC.Rng

/-! ### `BlakeRNG` as an instance of `T: Rng` -/

/-- `fill_bytes` is the GENERATED function; `rng.sample(Uniform)` is the model's abstract `Uniform` on the corresponding state -/
def blakeOps (U : Uniform) (xof : Xof) : RngOps BlakeRNG where
  fill_bytes := fun g dest => fill_bytes (xofL xof) g dest
  sample_i32 := fun lo hi g => match U.i32 lo hi xof (toSt g) with | .ok (v, s') => .ok (ofSt s', v) | .error e => .error e
  sample_u64 := fun lo hi g => match U.u64 lo hi xof (toSt g) with | .ok (v, s') => .ok (ofSt s', v) | .error e => .error e

/-- the flat destination buffer of the samplers: component `x / n`, coefficient `x % n` -/
def flatCM (k n : Nat) (c : List (List Nat)) : List Nat := (List.range (k * n)).map fun x => (c.getD (x / n) []).getD (x % n) 0

/-! ### positions `i + j·n` -/

theorem gs_pos_lt {i j k n : Nat} (hi : i < n) (hj : j < k) : i + j * n < k * n := by
  have h1 : (j + 1) * n ≤ k * n := Nat.mul_le_mul_right n hj
  rw [Nat.succ_mul] at h1
  omega

theorem gs_pos_inj {i i' j j' n : Nat} (hi : i < n) (hi' : i' < n) (h : i + j * n = i' + j' * n) : i = i' ∧ j = j' := by
  have hn : 0 < n := by omega
  have h1 : (i + j * n) % n = i := by rw [Nat.add_mul_mod_self_right, Nat.mod_eq_of_lt hi]
  have h2 : (i' + j' * n) % n = i' := by rw [Nat.add_mul_mod_self_right, Nat.mod_eq_of_lt hi']
  have h3 : (i + j * n) / n = j := by rw [Nat.add_mul_div_right _ _ hn, Nat.div_eq_of_lt hi, Nat.zero_add]
  have h4 : (i' + j' * n) / n = j' := by rw [Nat.add_mul_div_right _ _ hn, Nat.div_eq_of_lt hi', Nat.zero_add]
  rw [h] at h1 h3
  exact ⟨by omega, by omega⟩

theorem gs_setIdx {d : List Nat} {p v : Nat} (h : p < d.length) : setIdx d p v = .ok (d.set p v) := by simp [setIdx, h]
theorem gs_idx {l : List Nat} {i : Nat} (h : i < l.length) : idx l i = .ok (l.getD i 0) := by
  simp [idx, List.getD_eq_getElem?_getD, List.getElem?_eq_getElem h]
theorem gs_getD_set_eq {d : List Nat} {p v : Nat} (h : p < d.length) : (d.set p v).getD p 0 = v := by
  simp [List.getD_eq_getElem?_getD, h]
theorem gs_getD_set_ne {d : List Nat} {p q v : Nat} (h : p ≠ q) : (d.set p v).getD q 0 = d.getD q 0 := by
  simp [List.getD_eq_getElem?_getD, h]

/-! ### coefficient-major samplers (`ternary`, `centered_binomial`): one draw per coefficient, written to every component -/

/-- `for j in 0..k { destination[i + j * n] = enc(j) }` -/
def gs_refCol (encJ : Nat → R Nat) (n i : Nat) : Nat → Nat → List Nat → R (List Nat)
  | 0, _, d => pure d
  | c + 1, j, d => do
      let val ← encJ j
      let t ← ckMul j n
      let p ← ckAdd i t
      let d ← setIdx d p val
      gs_refCol encJ n i c (j + 1) d

theorem gs_refCol_ok (encJ : Nat → R Nat) (E : Nat → Nat) (k n i : Nat) (hi : i < n) (hB : k * n < B64) :
    ∀ (c j : Nat) (d : List Nat), j + c ≤ k → d.length = k * n → (∀ j', j ≤ j' → j' < j + c → encJ j' = .ok (E j')) →
      ∃ d', gs_refCol encJ n i c j d = .ok d' ∧ d'.length = k * n ∧
        (∀ j', j ≤ j' → j' < j + c → d'.getD (i + j' * n) 0 = E j') ∧
        (∀ p, (∀ j', j ≤ j' → j' < j + c → p ≠ i + j' * n) → d'.getD p 0 = d.getD p 0) := by
  intro c
  induction c with
  | zero => intro j d _ hd _; exact ⟨d, rfl, hd, fun j' h1 h2 => by omega, fun _ _ => rfl⟩
  | succ c ih =>
    intro j d hjk hd henc
    have hjlt : j < k := by omega
    have hpos := gs_pos_lt hi hjlt
    have hmul : j * n < B64 := by omega
    obtain ⟨d', h1, h2, h3, h4⟩ := ih (j + 1) (d.set (i + j * n) (E j)) (by omega) (by simp [hd])
      (fun j' a b => henc j' (by omega) (by omega))
    refine ⟨d', ?_, h2, ?_, ?_⟩
    · simp only [gs_refCol, henc j (Nat.le_refl _) (by omega), bind, Except.bind, gn_ckMul hmul,
        gn_ckAdd (by omega : i + j * n < B64), gs_setIdx (by rw [hd]; exact hpos : i + j * n < d.length)]
      exact h1
    · intro j' a b
      by_cases hj' : j' = j
      · subst hj'
        rw [h4 _ (fun j'' a' b' heq => by have := (gs_pos_inj hi hi heq).2; omega)]
        exact gs_getD_set_eq (by rw [hd]; exact hpos)
      · exact h3 j' (by omega) (by omega)
    · intro p hp
      rw [h4 p (fun j' a b => hp j' (by omega) (by omega))]
      exact gs_getD_set_ne (Ne.symm (hp j (Nat.le_refl _) (by omega)))

/-- `for i in 0..n { v = draw(rng); for j in 0..k { destination[i + j * n] = enc(v, j) } }` -/
def gs_refOuter {σ : Type} (draw : σ → R (σ × Int)) (encJ : Int → Nat → R Nat) (k n : Nat) : Nat → Nat → σ → List Nat → R (σ × List Nat)
  | 0, _, g, d => pure (g, d)
  | c + 1, i, g, d => do
      let (g, v) ← draw g
      let d ← gs_refCol (encJ v) n i k 0 d
      gs_refOuter draw encJ k n c (i + 1) g d

/-- `c` successive draws from `g` succeed, end in `g'`, and the draw for coefficient `t` encodes to `E t j` in every component `j < k` -/
inductive gs_Draws {σ : Type} (draw : σ → R (σ × Int)) (encJ : Int → Nat → R Nat) (k : Nat) (E : Nat → Nat → Nat) : Nat → Nat → σ → σ → Prop
  | nil (i : Nat) (g : σ) : gs_Draws draw encJ k E 0 i g g
  | cons {c i : Nat} {g g1 g' : σ} {v : Int} : draw g = .ok (g1, v) → (∀ j, j < k → encJ v j = .ok (E i j)) →
      gs_Draws draw encJ k E c (i + 1) g1 g' → gs_Draws draw encJ k E (c + 1) i g g'

theorem gs_refOuter_ok {σ : Type} (draw : σ → R (σ × Int)) (encJ : Int → Nat → R Nat) (E : Nat → Nat → Nat) (k n : Nat) (hB : k * n < B64) :
    ∀ (c i : Nat) (g g' : σ) (d : List Nat), i + c ≤ n → d.length = k * n → gs_Draws draw encJ k E c i g g' →
      ∃ d', gs_refOuter draw encJ k n c i g d = .ok (g', d') ∧ d'.length = k * n ∧
        (∀ t j, i ≤ t → t < i + c → j < k → d'.getD (t + j * n) 0 = E t j) ∧
        (∀ p, (∀ t j, i ≤ t → t < i + c → j < k → p ≠ t + j * n) → d'.getD p 0 = d.getD p 0) := by
  intro c
  induction c with
  | zero =>
    intro i g g' d _ hd hdr
    cases hdr
    exact ⟨d, rfl, hd, fun t j h1 h2 => by omega, fun _ _ => rfl⟩
  | succ c ih =>
    intro i g g' d hin hd hdr
    cases hdr with
    | cons hdraw henc hrest =>
      rename_i g1 v
      have hi : i < n := by omega
      obtain ⟨d1, c1, c2, c3, c4⟩ := gs_refCol_ok (encJ v) (E i) k n i hi hB k 0 d (by omega) hd (fun j' _ h => henc j' (by omega))
      obtain ⟨d', o1, o2, o3, o4⟩ := ih (i + 1) g1 g' d1 (by omega) c2 hrest
      refine ⟨d', ?_, o2, ?_, ?_⟩
      · simp only [gs_refOuter, hdraw, bind, Except.bind, c1]
        exact o1
      · intro t j ht1 ht2 hj
        by_cases hti : t = i
        · subst hti
          rw [o4 _ (fun t' j' a b hj' heq => by have := (gs_pos_inj hi (by omega) heq).1; omega)]
          exact c3 j (Nat.zero_le _) (by omega)
        · exact o3 t j (by omega) (by omega) hj
      · intro p hp
        rw [o4 p (fun t j a b hj => hp t j (by omega) (by omega) hj)]
        exact c4 p (fun j' _ hj' => hp i j' (Nat.le_refl _) (by omega) (by omega))

/-- a buffer that holds `c[j][t]` at every position `t + j·n` IS the flat layout of `c` -/
theorem gs_flat_of_pointwise (k n : Nat) (c : List (List Nat)) (d' : List Nat) (hl : d'.length = k * n)
    (h : ∀ t j, t < n → j < k → d'.getD (t + j * n) 0 = (c.getD j []).getD t 0) : d' = flatCM k n c := by
  apply List.ext_getElem
  · simp [flatCM, hl]
  · intro p h1 h2
    simp only [flatCM, List.getElem_map, List.getElem_range]
    have hp : p < k * n := by rw [← hl]; exact h1
    have hn : 0 < n := by
      rcases n with _ | n
      · simp at hp
      · omega
    have hq : p / n < k := (Nat.div_lt_iff_lt_mul hn).2 hp
    have := h (p % n) (p / n) (Nat.mod_lt _ hn) hq
    rw [Nat.mod_add_div'] at this
    rw [← this]
    simp [List.getD_eq_getElem?_getD, List.getElem?_eq_getElem h1]

/-! ### from the model's `sampleMany` / `mapR` to `gs_Draws` -/

theorem gs_mapR_get {α β : Type} (f : α → R β) (da : α) (db : β) : ∀ (l : List α) (bs : List β), mapR f l = .ok bs →
    bs.length = l.length ∧ ∀ i, i < l.length → f (l.getD i da) = .ok (bs.getD i db) := by
  intro l
  induction l with
  | nil =>
    intro bs h
    simp only [mapR, Except.ok.injEq] at h
    subst h
    exact ⟨rfl, fun i hi => by simp at hi⟩
  | cons a l ih =>
    intro bs h
    simp only [mapR] at h
    split at h
    · simp at h
    · rename_i b hb
      split at h
      · simp at h
      · rename_i bs2 h2
        simp only [Except.ok.injEq] at h
        subst h
        obtain ⟨i1, i2⟩ := ih bs2 h2
        refine ⟨by simp [i1], ?_⟩
        intro i hi
        rcases i with _ | i
        · simpa using hb
        · simpa using i2 i (by simpa using hi)

theorem gs_encodeAll_get (enc : Nat → Int → R Nat) (moduli : List Nat) (vs : List Int) (c : List (List Nat))
    (h : encodeAll enc moduli vs = .ok c) :
    ∀ t j, t < vs.length → j < moduli.length → enc (moduli.getD j 0) (vs.getD t 0) = .ok ((c.getD j []).getD t 0) := by
  intro t j ht hj
  obtain ⟨_, h2⟩ := gs_mapR_get (fun q => mapR (enc q) vs) 0 [] moduli c h
  obtain ⟨_, h4⟩ := gs_mapR_get (enc (moduli.getD j 0)) 0 0 vs _ (h2 j hj)
  exact h4 t ht

theorem gs_draws_of_sampleMany (drawM : St → R (Int × St)) (drawG : BlakeRNG → R (BlakeRNG × Int)) (Inv : St → Prop)
    (hstep : ∀ s v s1, Inv s → drawM s = .ok (v, s1) → drawG (ofSt s) = .ok (ofSt s1, v) ∧ Inv s1)
    (encJ : Int → Nat → R Nat) (k : Nat) (E : Nat → Nat → Nat) :
    ∀ (c i : Nat) (s s' : St) (vs : List Int), Inv s → sampleMany drawM c s = .ok (vs, s') →
      (∀ t, t < c → ∀ j, j < k → encJ (vs.getD t 0) j = .ok (E (i + t) j)) →
      vs.length = c ∧ gs_Draws drawG encJ k E c i (ofSt s) (ofSt s') ∧ Inv s' := by
  intro c
  induction c with
  | zero =>
    intro i s s' vs hinv h _
    simp only [sampleMany, Except.ok.injEq, Prod.mk.injEq] at h
    obtain ⟨rfl, rfl⟩ := h
    exact ⟨rfl, gs_Draws.nil _ _, hinv⟩
  | succ c ih =>
    intro i s s' vs hinv h henc
    simp only [sampleMany] at h
    split at h
    · simp at h
    · rename_i v s1 h1
      obtain ⟨g1, inv1⟩ := hstep _ _ _ hinv h1
      split at h
      · simp at h
      · rename_i vs2 s2 h2
        simp only [Except.ok.injEq, Prod.mk.injEq] at h
        obtain ⟨rfl, rfl⟩ := h
        obtain ⟨l2, d2, inv2⟩ := ih (i + 1) s1 s2 vs2 inv1 h2 (fun t ht j hj => by
          have := henc (t + 1) (by omega) j hj
          have e : i + (t + 1) = i + 1 + t := by omega
          rw [e] at this
          simpa using this)
        refine ⟨by simp [l2], gs_Draws.cons g1 (fun j hj => by simpa using henc 0 (by omega) j hj) d2, inv2⟩

/-! ### `centered_binomial` -/

theorem gs_ckI32 {v : Int} (h1 : -(2^31 : Int) ≤ v) (h2 : v < 2^31) : ckI32 v = .ok v := by
  unfold ckI32; rw [if_pos ⟨h1, h2⟩]; rfl

theorem gs_idx6_0 (a b c d e f : Nat) : idx [a, b, c, d, e, f] 0 = .ok a := id rfl
theorem gs_idx6_1 (a b c d e f : Nat) : idx [a, b, c, d, e, f] 1 = .ok b := id rfl
theorem gs_idx6_2 (a b c d e f : Nat) : idx [a, b, c, d, e, f] 2 = .ok c := id rfl
theorem gs_idx6_3 (a b c d e f : Nat) : idx [a, b, c, d, e, f] 3 = .ok d := id rfl
theorem gs_idx6_4 (a b c d e f : Nat) : idx [a, b, c, d, e, f] 4 = .ok e := id rfl
theorem gs_idx6_5 (a b c d e f : Nat) : idx [a, b, c, d, e, f] 5 = .ok f := id rfl
theorem gs_set6_2 (a b c d e f v : Nat) : setIdx [a, b, c, d, e, f] 2 v = .ok [a, b, v, d, e, f] := id rfl
theorem gs_set6_5 (a b c d e f v : Nat) : setIdx [a, b, c, d, e, f] 5 v = .ok [a, b, c, d, e, v] := id rfl

/-- (stated as a NON-`rfl` lemma on purpose: with definitional unfolding of the 21 binds the kernel runs into `deep recursion`) -/
theorem gs_ok_bind {α β : Type} (a : α) (f : α → R β) : (Except.ok a >>= f) = f a := id rfl

/-- the part of the `cbd` closure after `rng.fill_bytes(&mut x)` -/
def gs_cbdTail (v3 : List Nat) : R Int := do
  let t1 ← idx v3 2
  let v3 ← setIdx v3 2 (t1 &&& 31)
  let t2 ← idx v3 5
  let v3 ← setIdx v3 5 (t2 &&& 31)
  let t3 ← idx v3 0
  let t4 ← hamming_weight t3
  let t5 ← idx v3 1
  let t6 ← hamming_weight t5
  let t7 ← ckI32 (t4 + t6)
  let t8 ← idx v3 2
  let t9 ← hamming_weight t8
  let t10 ← ckI32 (t7 + t9)
  let t11 ← idx v3 3
  let t12 ← hamming_weight t11
  let t13 ← ckI32 (t10 - t12)
  let t14 ← idx v3 4
  let t15 ← hamming_weight t14
  let t16 ← ckI32 (t13 - t15)
  let t17 ← idx v3 5
  let t18 ← hamming_weight t17
  let t19 ← ckI32 (t16 - t18)
  pure t19

theorem gs_closure_tail {σ : Type} (G : RngOps σ) (g : σ) :
    centered_binomial_closure1 G g = (do let (g, x) ← G.fill_bytes g [0, 0, 0, 0, 0, 0]; let v ← gs_cbdTail x; pure (g, v)) := by
  simp only [centered_binomial_closure1, gs_cbdTail, bind_assoc]

theorem gs_cbdTail_eq (b0 b1 b2 b3 b4 b5 : Nat) (h0 : b0 < 256) (h1 : b1 < 256) (h2 : b2 < 256) (h3 : b3 < 256) (h4 : b4 < 256) (h5 : b5 < 256) :
    gs_cbdTail [b0, b1, b2, b3, b4, b5] = .ok (cbdValue [b0, b1, b2, b3, b4, b5]) := by
  have m2 : b2 &&& 31 < 256 := Nat.lt_of_le_of_lt Nat.and_le_right (by omega)
  have m5 : b5 &&& 31 < 256 := Nat.lt_of_le_of_lt Nat.and_le_right (by omega)
  have w0 := hammingWeight_le8 b0 h0
  have w1 := hammingWeight_le8 b1 h1
  have w2 := hammingWeight_le8 _ m2
  have w3 := hammingWeight_le8 b3 h3
  have w4 := hammingWeight_le8 b4 h4
  have w5 := hammingWeight_le8 _ m5
  have e0 := gn_hamming_weight_eq b0 h0
  have e1 := gn_hamming_weight_eq b1 h1
  have e2 := gn_hamming_weight_eq _ m2
  have e3 := gn_hamming_weight_eq b3 h3
  have e4 := gn_hamming_weight_eq b4 h4
  have e5 := gn_hamming_weight_eq _ m5
  rw [cbdValue_six]
  generalize hammingWeight b0 = x0 at *
  generalize hammingWeight b1 = x1 at *
  generalize hammingWeight (b2 &&& 31) = x2 at *
  generalize hammingWeight b3 = x3 at *
  generalize hammingWeight b4 = x4 at *
  generalize hammingWeight (b5 &&& 31) = x5 at *
  have c1 : ckI32 ((x0 : Int) + x1) = .ok ((x0 : Int) + x1) := gs_ckI32 (by omega) (by omega)
  have c2 : ckI32 ((x0 : Int) + x1 + x2) = .ok ((x0 : Int) + x1 + x2) := gs_ckI32 (by omega) (by omega)
  have c3 : ckI32 ((x0 : Int) + x1 + x2 - x3) = .ok ((x0 : Int) + x1 + x2 - x3) := gs_ckI32 (by omega) (by omega)
  have c4 : ckI32 ((x0 : Int) + x1 + x2 - x3 - x4) = .ok ((x0 : Int) + x1 + x2 - x3 - x4) := gs_ckI32 (by omega) (by omega)
  have c5 : ckI32 ((x0 : Int) + x1 + x2 - x3 - x4 - x5) = .ok ((x0 : Int) + x1 + x2 - x3 - x4 - x5) := gs_ckI32 (by omega) (by omega)
  simp only [Int.ofNat_eq_coe] at e0 e1 e2 e3 e4 e5
  simp only [gs_cbdTail, gs_ok_bind, gs_idx6_0, gs_idx6_1, gs_idx6_2, gs_idx6_3, gs_idx6_4, gs_idx6_5, gs_set6_2, gs_set6_5,
    e0, e1, e2, e3, e4, e5, c1, c2, c3, c4, c5]

/-- the `cbd` closure run on the generated `BlakeRNG` = the model's `cbdDraw`: 6 bytes from the GENERATED `fill_bytes`, the two masks, the
    six GENERATED `hamming_weight`s, five checked `i32` additions / subtractions (none traps: every weight is at most 8) -/
theorem gs_cbd_closure (U : Uniform) {xof : Xof} (hx : SizedXof xof) (hbx : ByteXof xof) (s : St) (hs : SizedSt s) (hbs : ByteSt s) :
    centered_binomial_closure1 (blakeOps U xof) (ofSt s) = .ok (ofSt (fillBytes xof s 6).2, cbdValue (fillBytes xof s 6).1) := by
  have hf := gn_fill_bytes_eq hx s hs [0, 0, 0, 0, 0, 0] (by simp)
  have hl := fillBytes_length (xof := xof) s 6
  obtain ⟨hb, _⟩ := byte_fillBytes hbx hbs 6
  simp only [List.length_cons, List.length_nil] at hf
  generalize fillBytes xof s 6 = r at hf hl hb
  obtain ⟨bytes, s1⟩ := r
  simp only at hf hl hb ⊢
  rcases bytes with _ | ⟨b0, _ | ⟨b1, _ | ⟨b2, _ | ⟨b3, _ | ⟨b4, _ | ⟨b5, _ | ⟨b6, r⟩⟩⟩⟩⟩⟩⟩ <;> simp at hl
  have ht := gs_cbdTail_eq b0 b1 b2 b3 b4 b5 (hb b0 (by simp)) (hb b1 (by simp)) (hb b2 (by simp)) (hb b3 (by simp)) (hb b4 (by simp)) (hb b5 (by simp))
  rw [gs_closure_tail]
  simp only [blakeOps, hf, bind, Except.bind, ht, pure, Except.pure]

/-- the per-component encoding as coded -/
def gs_encCB (qs : List Nat) (v : Int) (j : Nat) : R Nat := do
  let t21 ← idx qs j
  let t22 ← ckMod (Int.natAbs v) t21
  let t24 ← (if ((v ≥ 0) ∨ (t22 = 0)) then (pure t22) else (do let t23 ← ckSub t21 t22; pure t23))
  pure t24

theorem gs_encCB_eq {qs : List Nat} {j : Nat} (h : j < qs.length) (v : Int) : gs_encCB qs v j = encError (qs.getD j 0) v := by
  have e := gs_idx h
  generalize qs.getD j 0 = q at e ⊢
  simp only [gs_encCB, e, bind, Except.bind, ckMod, encError, pure, Except.pure]
  by_cases hq : q = 0
  · simp [hq]
  · simp only [hq, if_false]

theorem gs_cb_loop2 {σ : Type} (G : RngOps σ) (qs : List Nat) (n i : Nat) (v : Int) :
    ∀ (c j : Nat) (d : List Nat), centered_binomial_loop2 G qs n i v c j d = gs_refCol (gs_encCB qs v) n i c j d := by
  intro c
  induction c with
  | zero => intro j d; rfl
  | succ c ih => intro j d; simp only [centered_binomial_loop2, gs_refCol, gs_encCB, bind_assoc, ih]

theorem gs_cb_loop1 {σ : Type} (G : RngOps σ) (qs : List Nat) (n : Nat) :
    ∀ (c i : Nat) (g : σ) (d : List Nat), centered_binomial_loop1 G qs n qs.length c i g d =
      gs_refOuter (centered_binomial_closure1 G) (gs_encCB qs) qs.length n c i g d := by
  intro c
  induction c with
  | zero => intro i g d; rfl
  | succ c ih => intro i g d; simp only [centered_binomial_loop1, gs_refOuter, gs_cb_loop2, Nat.sub_zero, ih]

/-- forward direction: whenever the model returns, the generated code run on the same generator state returns the same polynomial (flat) and state -/
theorem gs_centered_binomial_fwd (U : Uniform) {xof : Xof} (hx : SizedXof xof) (hbx : ByteXof xof) (s : St) (hs : SizedSt s) (hbs : ByteSt s)
    (n : Nat) (moduli dest : List Nat) (hd : dest.length = moduli.length * n) (hB : moduli.length * n < B64)
    (c : List (List Nat)) (s' : St) (h : centeredBinomial xof s n moduli = .ok (c, s')) :
    centered_binomial (blakeOps U xof) (ofSt s) moduli n dest = .ok (ofSt s', flatCM moduli.length n c) := by
  unfold centeredBinomial at h
  rw [if_neg (by decide), if_neg (by decide)] at h
  split at h
  · simp at h
  · rename_i vs s1 h1
    split at h
    · simp at h
    · rename_i c' h2
      simp only [Except.ok.injEq, Prod.mk.injEq] at h
      obtain ⟨rfl, rfl⟩ := h
      have hget := gs_encodeAll_get encError moduli vs c' h2
      have hstep : ∀ s v s1, (SizedSt s ∧ ByteSt s) → cbdDraw xof s = .ok (v, s1) →
          centered_binomial_closure1 (blakeOps U xof) (ofSt s) = .ok (ofSt s1, v) ∧ (SizedSt s1 ∧ ByteSt s1) := by
        intro s v s1 hi he
        simp only [cbdDraw, Except.ok.injEq, Prod.mk.injEq] at he
        obtain ⟨rfl, rfl⟩ := he
        exact ⟨gs_cbd_closure U hx hbx s hi.1 hi.2, sizedSt_fillBytes hx 6 s hi.1, (byte_fillBytes hbx hi.2 6).2⟩
      have hlen : vs.length = n := (sampleMany_spec (cbdDraw xof) (fun _ => True)
        (fun s v s' hs he => ⟨trivial, (cbdDraw_spec hbx s v s' hs he).2⟩) n s vs s1 hbs h1).1
      obtain ⟨_, hdr, _⟩ := gs_draws_of_sampleMany (cbdDraw xof) (centered_binomial_closure1 (blakeOps U xof)) (fun s => SizedSt s ∧ ByteSt s)
        hstep (gs_encCB moduli) moduli.length (fun t j => (c'.getD j []).getD t 0) n 0 s s1 vs ⟨hs, hbs⟩ h1
        (fun t ht j hj => by rw [gs_encCB_eq hj, Nat.zero_add]; exact hget t j (by omega) hj)
      obtain ⟨d', o1, o2, o3, _⟩ := gs_refOuter_ok (centered_binomial_closure1 (blakeOps U xof)) (gs_encCB moduli)
        (fun t j => (c'.getD j []).getD t 0) moduli.length n hB n 0 (ofSt s) (ofSt s1) dest (by omega) hd hdr
      have hflat := gs_flat_of_pointwise moduli.length n c' d' o2 (fun t j ht hj => o3 t j (Nat.zero_le _) (by omega) hj)
      unfold centered_binomial
      simp only [gs_cb_loop1, Nat.sub_zero]
      rw [if_neg (by decide), if_neg (by decide), o1, hflat]
      rfl

end HC.GenRng
