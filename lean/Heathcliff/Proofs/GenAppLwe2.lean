/-
  Translator phase 4h (app mode): the slot / butterfly index structure of `pack_lwe_ciphertexts` (src/app/lwe.rs) regenerated into
  Gen/AppLweFns.lean as PLANS (skeleton reading: evaluator calls are opaque steps whose index arguments are recorded):
  the leaf loop (which input goes to which slot) and the merge layers (per butterfly: odd slot, shift, even slot, Galois element)
  = the index structure of `packLeaves` / `packLayer` of Model/Lwe.lean.  Helper prefix `ga_`.
-/
import Heathcliff.Proofs.GenAppLwe
import Heathcliff.Proofs.GenAppBrev

namespace HC
open HC.GenApp

/-! ### the second generated copy of `reverse_bits_u64` -/

theorem ga_lwe_reverse_bits_u64_eq (x k : Nat) (hk : k ≤ 64) (hx : x < 2^k) : lwe_reverse_bits_u64 x k = .ok (brev k x) := by
  unfold lwe_reverse_bits_u64
  by_cases h0 : k = 0
  · subst h0; rw [if_pos rfl]; rfl
  · rw [if_neg h0]; exact ga_rev_shift x k hk h0 hx

/-! ### the leaf loop -/

/-- **leaf loop of `pack_lwe_ciphertexts`, generated plan**: slot `i` of `rlwes` (`i < 2^l`) receives input `brev l i` (assembled and divided
    by N) when that index is below the number of inputs, and the zero ciphertext otherwise (recorded as `count`) — the index structure of
    the model's `packLeaves` -/
theorem ga_lwe_pack_leaves_eq (l c : Nat) (hl : l ≤ 63) :
    lwe_pack_leaves l c = .ok ((List.range (2^l)).map fun i => if brev l i < c then brev l i else c) := by
  have body : ∀ i plan, i < 2^l →
      lwe_pack_leaves_loop1 l c i plan = .ok (.next (plan ++ [if brev l i < c then brev l i else c])) := by
    intro i plan hi
    simp only [lwe_pack_leaves_loop1, ga_lwe_reverse_bits_u64_eq i l (by omega) hi, ga_ok_bind]
    by_cases h : brev l i < c <;> simp [h, pure, Except.pure]
  simp only [lwe_pack_leaves, ga_ckShl_one hl, ga_ok_bind, Nat.sub_zero,
    ga_forUp_push _ (fun i => if brev l i < c then brev l i else c) (2^l) [] body, List.nil_append]

/-- `packLeaves` reads its inputs through exactly this plan -/
theorem ga_packLeaves_plan {α : Type} [Zero α] [Add α] [Sub α] [Neg α] [Mul α] (k l : Nat) (ninv : α) (ins : Array (Array α)) (i : Nat)
    (hi : i < 2^l) :
    (packLeaves k l ninv ins).getD i #[] =
      let idx := ((List.range (2^l)).map fun i => if brev l i < ins.size then brev l i else ins.size).getD i 0
      if idx < ins.size then scalePoly (2^k) ninv (ins.getD idx #[]) else Array.replicate (2^k) 0 := by
  have e1 : ((List.range (2^l)).map fun i => if brev l i < ins.size then brev l i else ins.size).getD i 0
      = if brev l i < ins.size then brev l i else ins.size := by
    simp [List.getD_eq_getElem?_getD, hi]
  simp only [e1, packLeaves]
  rw [Array.getD_eq_getD_getElem?, Array.getElem?_ofFn]
  simp only [hi, dite_true, Option.getD_some]
  by_cases h : brev l i < ins.size
  · simp [h]
  · simp [h]

/-! ### the merge layers -/

/-- the butterflies of one layer, as the generated plan lists them: for `q = 0, 1, …` the pair (`q·2^(layer+1)`, `+ 2^layer`), the shift
    `N >> (layer+1)` and the Galois element `2^(layer+1) + 1` -/
def ga_mergeLayer (l n layer : Nat) : List Nat :=
  (List.range (2^l / 2^(layer+1))).flatMap fun q => [q * 2^(layer+1) + 2^layer, n >>> (layer+1), q * 2^(layer+1), 2^(layer+1) + 1]

theorem ga_unit_if (b : Bool) {β : Type} (f : Unit → R β) :
    ((if b = true then (pure () : R Unit) else pure ()) >>= f) = f () := by
  cases b <;> rfl

theorem ga_lwe_pack_merge_layer (l n : Nat) (ntt : Bool) (hl : l ≤ 62) (layer : Nat) (hlayer : layer < l) (plan : List Nat) :
    lwe_pack_merge_plan_loop2 l n ntt layer plan = .ok (.next (plan ++ ga_mergeLayer l n layer)) := by
  have hG : 2^(layer+1) = 2^layer * 2 := Nat.pow_succ 2 layer
  have hpos : 0 < 2^layer := Nat.two_pow_pos _
  have hm : 2^l / 2^(layer+1) = 2^(l - (layer+1)) := Nat.pow_div (by omega) (by omega)
  have hmG : 2^(l - (layer+1)) * 2^(layer+1) = 2^l := by rw [← Nat.pow_add]; congr 1; omega
  have hl62 : 2^l ≤ 2^62 := Nat.pow_le_pow_right (by omega) hl
  have hgap : 2^layer ≤ 2^62 := Nat.pow_le_pow_right (by omega) (by omega)
  generalize hGd : 2^(layer+1) = G at hG hm hmG
  generalize hmd : 2^(l - (layer+1)) = m at hm hmG
  have hmle : m ≤ m * G := Nat.le_mul_of_pos_right _ (by omega)
  let f := fun q => [q * G + 2^layer, n >>> (layer+1), q * G, G + 1]
  let st : Nat → List Nat × Nat := fun j => (plan ++ (List.range j).flatMap f, j * G)
  have hstep : ∀ j, j < m → lwe_pack_merge_plan_loop1 l ntt layer (2^layer) (n >>> (layer+1)) (st j) = .ok (.next (st (j+1))) := by
    intro j hj
    have hle : j * G + G ≤ m * G := ga_succ_mul_le hj
    simp only [st, lwe_pack_merge_plan_loop1, ga_ckShl_one (show l ≤ 63 by omega), ga_ok_bind, if_pos (show j * G < 2^l by omega),
      ga_ckAdd (show j * G + 2^layer < 2^64 by omega), ga_unit_if, ga_ckAdd (show layer + 1 < 2^64 by omega),
      ga_ckShl_one (show layer + 1 ≤ 63 by omega), hGd, ga_ckAdd (show G + 1 < 2^64 by omega),
      ga_ckMul (show 2^layer * 2 < 2^64 by omega), ← hG, ga_ckAdd (show j * G + G < 2^64 by omega)]
    simp only [pure, Except.pure, List.range_succ, List.flatMap_append, List.flatMap_cons, List.flatMap_nil, List.append_nil,
      List.append_assoc, List.cons_append, List.nil_append, Nat.succ_mul, f]
  have hend : lwe_pack_merge_plan_loop1 l ntt layer (2^layer) (n >>> (layer+1)) (st m) = .ok (.brk (st m)) := by
    simp only [st, lwe_pack_merge_plan_loop1, ga_ckShl_one (show l ≤ 63 by omega), ga_ok_bind, hmG, Nat.lt_irrefl, if_false]
    rfl
  have hw := ga_whileFuel_seq _ st m hstep hend m 0 18446744073709551616 (by omega) (by omega)
  have hst0 : st 0 = (plan, 0) := by simp [st]
  rw [hst0] at hw
  simp only [lwe_pack_merge_plan_loop2, ga_ckShl_one (show layer ≤ 63 by omega), ga_ok_bind, ga_ckAdd (show layer + 1 < 2^64 by omega),
    GenApp.ckShr, if_pos (show layer + 1 < 64 by omega), hw, st, ga_mergeLayer, hGd, hm, pure, Except.pure, f]

/-- **the merge layers of `pack_lwe_ciphertexts`, generated plan**: layer `0 … l−1`, in each the butterflies `q = 0 … 2^l/2^(layer+1) − 1`
    on the slots `q·2^(layer+1)` (even) and `+ 2^layer` (odd), with shift `N >> (layer+1)` and Galois element `2^(layer+1) + 1` — the index
    structure of the model's `packLayer` / `packMerge`; independent of `ntt_form` -/
theorem ga_lwe_pack_merge_plan_eq (l n : Nat) (ntt : Bool) (hl : l ≤ 62) :
    lwe_pack_merge_plan l n ntt = .ok ((List.range l).flatMap (ga_mergeLayer l n)) := by
  simp only [lwe_pack_merge_plan, Nat.sub_zero,
    ga_forUp_push_list _ (ga_mergeLayer l n) l [] (fun layer plan h => ga_lwe_pack_merge_layer l n ntt hl layer h plan), ga_ok_bind,
    List.nil_append]

/-- the model's `packLayer` performs, at the EVEN slot of every plan entry `(odd, shift, even, g)` of `ga_mergeLayer l (2^k) layer`, exactly the
    butterfly with these parameters: `temp = X^shift·rlwes[odd]`, `even' = (even + temp) + σ_g(even − temp)` -/
theorem ga_packLayer_plan {α : Type} [Zero α] [Add α] [Sub α] [Neg α] [Mul α] (k l layer : Nat) (arr : Array (Array α)) (q : Nat)
    (hlayer : layer < l) (hq : q < 2^l / 2^(layer+1)) :
    (packLayer k l layer arr).getD (q * 2^(layer+1)) #[] =
      addPoly (2^k) (addPoly (2^k) (arr.getD (q * 2^(layer+1)) #[]) (shiftPoly (2^k) (arr.getD (q * 2^(layer+1) + 2^layer) #[]) (2^k >>> (layer+1))))
        (sigmaPoly (2^k) (subPoly (2^k) (arr.getD (q * 2^(layer+1)) #[])
          (shiftPoly (2^k) (arr.getD (q * 2^(layer+1) + 2^layer) #[]) (2^k >>> (layer+1)))) (2^(layer+1) + 1)) := by
  have hm : 2^l / 2^(layer+1) = 2^(l - (layer+1)) := Nat.pow_div (by omega) (by omega)
  have hmG : 2^(l - (layer+1)) * 2^(layer+1) = 2^l := by rw [← Nat.pow_add]; congr 1; omega
  have hG : 2 * 2^layer = 2^(layer+1) := by rw [Nat.pow_succ, Nat.mul_comm]
  have hpos : 0 < 2^(layer+1) := Nat.two_pow_pos _
  rw [hm] at hq
  have hle : q * 2^(layer+1) + 2^(layer+1) ≤ 2^(l - (layer+1)) * 2^(layer+1) := ga_succ_mul_le hq
  have hlt : q * 2^(layer+1) < 2^l := by omega
  simp only [packLayer, hG]
  rw [Array.getD_eq_getD_getElem?, Array.getElem?_ofFn]
  simp only [hlt, dite_true, Option.getD_some, Nat.mul_mod_left, if_true, packMerge, Nat.shiftRight_eq_div_pow]

end HC
