/-
  Helper lemmas for property C20 (matrix products / convolutions): buffers filled by loop nests, sparse negacyclic
  products, digit (mixed radix) uniqueness, loop invariants.  All names carry the prefix `c20_`.
-/
import Heathcliff.Model.Matmul
import Heathcliff.Proofs.NTTDefs
import Mathlib.Algebra.BigOperators.Intervals
import Mathlib.Algebra.BigOperators.Ring.Finset
import Mathlib.Tactic.Ring
import Mathlib.Tactic.Linarith

namespace HC
open Finset HC.MM

/-! ### buffers -/

theorem c20_scatter_fold {α : Type} (lim : Nat) (ws : List (Nat × α)) :
    ∀ (a : Array α), (∀ pv ∈ ws, pv.1 < lim ∧ pv.1 < a.size) →
    ∃ a', ws.foldlM (fun (a : Array α) (pv : Nat × α) =>
              if pv.1 < lim ∧ pv.1 < a.size then (Except.ok (a.setIfInBounds pv.1 pv.2) : R (Array α)) else Except.error Err.oob) a = .ok a'
      ∧ a'.size = a.size
      ∧ (∀ q, (∀ pv ∈ ws, pv.1 ≠ q) → a'[q]? = a[q]?)
      ∧ (∀ q v, (q, v) ∈ ws → (∀ pv ∈ ws, pv.1 = q → pv.2 = v) → a'[q]? = some v) := by
  induction ws with
  | nil =>
    intro a _
    exact ⟨a, rfl, rfl, fun _ _ => rfl, fun q v h => by simp at h⟩
  | cons pv rest ih =>
    intro a hb
    have hpv := hb pv (by simp)
    have hrest : ∀ pv' ∈ rest, pv'.1 < lim ∧ pv'.1 < (a.setIfInBounds pv.1 pv.2).size := by
      intro pv' h'
      have := hb pv' (by simp [h'])
      simpa using this
    obtain ⟨a', hf, hs, hun, hval⟩ := ih (a.setIfInBounds pv.1 pv.2) hrest
    refine ⟨a', ?_, by simpa using hs, ?_, ?_⟩
    · simp only [List.foldlM_cons, hpv, and_self, if_true]
      exact hf
    · intro q hq
      have h1 : pv.1 ≠ q := hq pv (by simp)
      rw [hun q (fun pv' h' => hq pv' (by simp [h']))]
      exact Array.getElem?_setIfInBounds_ne h1
    · intro q v hmem huniq
      by_cases hex : ∃ pv' ∈ rest, pv'.1 = q
      · obtain ⟨pv', hm', hq'⟩ := hex
        have hv' : pv'.2 = v := huniq pv' (by simp [hm']) hq'
        have : (q, v) ∈ rest := by
          have : pv' = (q, v) := Prod.ext hq' hv'
          rwa [← this]
        exact hval q v this (fun p hp => huniq p (by simp [hp]))
      · have hne : ∀ pv' ∈ rest, pv'.1 ≠ q := fun pv' hm' hq' => hex ⟨pv', hm', hq'⟩
        have hhead : pv = (q, v) := by
          rcases List.mem_cons.mp hmem with h | h
          · exact h.symm
          · exact absurd rfl (hne _ h)
        rw [hun q hne, hhead]
        have hq : q < a.size := by rw [hhead] at hpv; exact hpv.2
        simp [hq]

/-- the buffer produced by a loop nest that writes `val k` at `pos k` for the indices `k` of `idx` -/
theorem c20_scatter_map {ι α : Type} (zero : α) (size lim : Nat) (idx : List ι) (pos : ι → Nat) (val : ι → α)
    (hb : ∀ k ∈ idx, pos k < lim ∧ pos k < size)
    (hinj : ∀ k ∈ idx, ∀ k' ∈ idx, pos k = pos k' → val k = val k') :
    ∃ a, scatterA zero size lim (idx.map fun k => (pos k, val k)) = .ok a ∧ a.size = size ∧
      (∀ q, (∀ k ∈ idx, pos k ≠ q) → a.getD q zero = zero) ∧ (∀ k ∈ idx, a.getD (pos k) zero = val k) := by
  obtain ⟨a, hf, hs, hun, hval⟩ := c20_scatter_fold lim (idx.map fun k => (pos k, val k)) (Array.replicate size zero)
    (by intro pv h; obtain ⟨k, hk, rfl⟩ := List.mem_map.mp h; simpa using hb k hk)
  refine ⟨a, hf, by simpa using hs, ?_, ?_⟩
  · intro q hq
    have := hun q (by intro pv h; obtain ⟨k, hk, rfl⟩ := List.mem_map.mp h; exact hq k hk)
    rw [Array.getD_eq_getD_getElem?, this]
    by_cases h : q < size <;> simp [h]
  · intro k hk
    have := hval (pos k) (val k) (List.mem_map.mpr ⟨k, hk, rfl⟩) (by
      intro pv h hq
      obtain ⟨k', hk', rfl⟩ := List.mem_map.mp h
      exact hinj k' hk' k hk hq)
    rw [Array.getD_eq_getD_getElem?, this]; rfl

theorem c20_mem_pairs {A C : Nat} {p : Nat × Nat} : p ∈ pairs A C ↔ p.1 < A ∧ p.2 < C := by
  unfold pairs
  simp only [List.mem_flatMap, List.mem_map, List.mem_range]
  constructor
  · rintro ⟨a, ha, c, hc, rfl⟩; exact ⟨ha, hc⟩
  · rintro ⟨h1, h2⟩; exact ⟨p.1, h1, p.2, h2, rfl⟩

theorem c20_mem_quads {A B C D : Nat} {q : Nat × Nat × Nat × Nat} :
    q ∈ quads A B C D ↔ q.1 < A ∧ q.2.1 < B ∧ q.2.2.1 < C ∧ q.2.2.2 < D := by
  unfold quads
  simp only [List.mem_flatMap, List.mem_map, List.mem_range]
  constructor
  · rintro ⟨a, ha, b, hb, c, hc, d, hd, rfl⟩; exact ⟨ha, hb, hc, hd⟩
  · rintro ⟨h1, h2, h3, h4⟩; exact ⟨q.1, h1, q.2.1, h2, q.2.2.1, h3, q.2.2.2, h4, rfl⟩

/-! ### sparse negacyclic products -/

/-- If below the read position `c` only the pairs `(pa k, c − pa k)`, `k ∈ s`, can be non-zero and no wrap-around pair is
    non-zero, coefficient `c` of the negacyclic product is the sum over `s`. -/
theorem c20_negMul_sparse {R : Type} [CommRing R] {ι : Type} (n : Nat) (a b : Nat → R) (c : Nat) (s : Finset ι) (pa : ι → Nat)
    (hinj : ∀ k ∈ s, ∀ k' ∈ s, pa k = pa k' → k = k')
    (hle : ∀ k ∈ s, pa k ≤ c) (hc : c < n)
    (hlow : ∀ p, p ≤ c → (∀ k ∈ s, pa k ≠ p) → a p * b (c - p) = 0)
    (hhigh : ∀ p, c < p → p < n → a p * b (n + c - p) = 0) :
    negMulR n a b c = ∑ k ∈ s, a (pa k) * b (c - pa k) := by
  classical
  unfold negMulR
  have hsub : s.image pa ⊆ range n := by
    intro p hp
    obtain ⟨k, hk, rfl⟩ := Finset.mem_image.mp hp
    exact Finset.mem_range.mpr (lt_of_le_of_lt (hle k hk) hc)
  rw [← Finset.sum_subset hsub]
  · rw [Finset.sum_image hinj]
    apply Finset.sum_congr rfl
    intro k hk
    rw [if_pos (hle k hk)]
  · intro p hp hnot
    have hpn : p < n := Finset.mem_range.mp hp
    by_cases hpc : p ≤ c
    · rw [if_pos hpc]
      exact hlow p hpc (fun k hk h => hnot (Finset.mem_image.mpr ⟨k, hk, h⟩))
    · rw [if_neg hpc, hhigh p (Nat.lt_of_not_le hpc) hpn, neg_zero]

/-! ### digits -/

theorem c20_digit_unique {W X u Y v : Nat} (hv : v < W) (hu : u < W) (h : X * W + u = Y * W + v) : u = v ∧ X = Y := by
  have hW : 0 < W := by omega
  have hd : (X * W + u) / W = (Y * W + v) / W := by rw [h]
  have hm : (X * W + u) % W = (Y * W + v) % W := by rw [h]
  rw [Nat.add_comm (X * W), Nat.add_comm (Y * W), Nat.add_mul_div_right _ _ hW, Nat.add_mul_div_right _ _ hW,
    Nat.div_eq_of_lt hv, Nat.div_eq_of_lt hu] at hd
  rw [Nat.add_comm (X * W), Nat.add_comm (Y * W), Nat.add_mul_mod_self_right, Nat.add_mul_mod_self_right,
    Nat.mod_eq_of_lt hv, Nat.mod_eq_of_lt hu] at hm
  exact ⟨hm, by omega⟩

/-- addition of two "digits" `u < 2W` against a target digit `v < W`: either no carry or one carry -/
theorem c20_carry {W X u Y v : Nat} (hv : v < W) (hu : u < 2 * W) (h : X * W + u = Y * W + v) :
    (u = v ∧ X = Y) ∨ (u = v + W ∧ X + 1 = Y) := by
  rcases Nat.lt_or_ge u W with h0 | h1
  · left; exact c20_digit_unique hv h0 h
  · right
    have h' : (X + 1) * W + (u - W) = Y * W + v := by rw [Nat.add_mul, Nat.one_mul]; omega
    have := c20_digit_unique hv (by omega) h'
    omega

/-! ### loops -/

theorem c20_foldl_inv {σ β : Type} (P : σ → Prop) (f : σ → β → σ) (l : List β) (init : σ)
    (h0 : P init) (hs : ∀ st x, x ∈ l → P st → P (f st x)) : P (l.foldl f init) := by
  induction l generalizing init with
  | nil => exact h0
  | cons x r ih =>
    simp only [List.foldl_cons]
    exact ih (f init x) (hs init x (by simp) h0) (fun st y hy hp => hs st y (by simp [hy]) hp)

/-- some iteration establishes `Q`, every iteration preserves it -/
theorem c20_foldl_reach {σ β : Type} (Q : σ → Prop) (f : σ → β → σ) (l : List β) (init : σ)
    (hex : ∃ x ∈ l, ∀ st, Q (f st x)) (hs : ∀ st x, x ∈ l → Q st → Q (f st x)) : Q (l.foldl f init) := by
  induction l generalizing init with
  | nil => obtain ⟨x, hx, _⟩ := hex; simp at hx
  | cons x r ih =>
    simp only [List.foldl_cons]
    obtain ⟨y, hy, hq⟩ := hex
    rcases List.mem_cons.mp hy with rfl | hyr
    · exact c20_foldl_inv Q f r _ (hq init) (fun st z hz hp => hs st z (by simp [hz]) hp)
    · exact ih _ ⟨y, hyr, hq⟩ (fun st z hz hp => hs st z (by simp [hz]) hp)

theorem c20_downLoop_inv {σ : Type} (P : σ → Prop) (f : σ → Nat → σ) (k : Nat) (init : σ)
    (h0 : P init) (hs : ∀ st b, 1 ≤ b → b ≤ k → P st → P (f st b)) : P (downLoop f k init) := by
  induction k generalizing init with
  | zero => exact h0
  | succ k ih =>
    simp only [downLoop]
    exact ih _ (hs init (k+1) (by omega) (by omega) h0) (fun st b h1 h2 hp => hs st b h1 (by omega) hp)

/-- the last iteration (`b = 1`) establishes `Q` -/
theorem c20_downLoop_last {σ : Type} (Q : σ → Prop) (f : σ → Nat → σ) (k : Nat) (hk : 1 ≤ k) (init : σ)
    (h1 : ∀ st, Q (f st 1)) : Q (downLoop f k init) := by
  induction k generalizing init with
  | zero => omega
  | succ k ih =>
    simp only [downLoop]
    rcases Nat.eq_zero_or_pos k with rfl | hpos
    · simp only [downLoop]; exact h1 init
    · exact ih hpos _

theorem c20_mem_downRange {lo hi x : Nat} : x ∈ downRange lo hi ↔ lo ≤ x ∧ x ≤ hi := by
  unfold downRange
  simp only [List.mem_map, List.mem_reverse, List.mem_range]
  constructor
  · rintro ⟨d, hd, rfl⟩; omega
  · rintro ⟨h1, h2⟩; exact ⟨x - lo, by omega, by omega⟩

end HC
