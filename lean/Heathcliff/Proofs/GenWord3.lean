import Heathcliff.Gen.WordFns
import Heathcliff.Model.Word
import Heathcliff.Proofs.GenWord

/-!
  Phase 2 of the translator tie, word layer: the multi-word loops of src/util/basic.rs that write through `&mut [u64]`
  (`add_uint`, `sub_uint`, `add_uint_u64`, `sub_uint_u64`), generated with the slice as an input list and first result, against the
  structurally recursive `addUint` / `subUint` / `addUintU64` / `subUintU64` of `Heathcliff/Model/Word.lean` (explicit length `n` =
  `result.len()`).  Index loop vs structural recursion: induction on the trip count.  Helper names start with `gx_`.
-/
namespace HC
open HC.GenW

theorem gx_idx_oob (l : List Nat) (i : Nat) (h : ¬ i < l.length) : GenW.idx l i = .error .oob := by
  unfold GenW.idx; rw [List.getElem?_eq_none (by omega)]

theorem gx_idx_cases (l : List Nat) (i : Nat) : (∃ x, GenW.idx l i = .ok x) ∨ GenW.idx l i = .error .oob := by
  by_cases h : i < l.length
  · exact Or.inl ⟨_, gw_idx_eq l i h⟩
  · exact Or.inr (gx_idx_oob l i h)

theorem gx_setIdx_ok (l : List Nat) (i v : Nat) (h : i < l.length) : GenW.setIdx l i v = .ok (l.set i v) := by
  unfold GenW.setIdx; rw [if_pos h]

theorem gx_headD_drop (l : List Nat) (i : Nat) (h : i < l.length) : (l.drop i).headD 0 = l[i] := by
  rw [List.drop_eq_getElem_cons h]; rfl

theorem gx_headD_drop_ge (l : List Nat) (i : Nat) (h : ¬ i < l.length) : (l.drop i).headD 0 = 0 := by
  rw [List.drop_eq_nil_of_le (by omega)]; rfl

theorem gx_tail_drop (l : List Nat) (i : Nat) : (l.drop i).tail = l.drop (i+1) := by
  rw [List.tail_drop]

theorem gx_take_set (l : List Nat) (i v : Nat) (h : i < l.length) : (l.set i v).take (i+1) = l.take i ++ [v] := by
  rw [List.take_succ_eq_append_getElem (by rw [List.length_set]; exact h), List.getElem_set_self, List.take_set_of_le (Nat.le_refl i)]

/-! ### add_uint -/
theorem gx_add_uint_loop_ok (a b : List Nat) : ∀ cnt i (r : List Nat) c, i + cnt = r.length → r.length ≤ a.length → r.length ≤ b.length →
    GenW.add_uint_loop1 a b cnt i r c =
      .ok (r.take i ++ (addLimbs cnt (a.drop i) (b.drop i) c).1, (addLimbs cnt (a.drop i) (b.drop i) c).2) := by
  intro cnt
  induction cnt with
  | zero =>
    intro i r c h _ _
    rw [GenW.add_uint_loop1, addLimbs, List.append_nil, List.take_of_length_le (by omega)]; rfl
  | succ n ih =>
    intro i r c h ha hb
    have hi : i < r.length := by omega
    have hia : i < a.length := by omega
    have hib : i < b.length := by omega
    rw [GenW.add_uint_loop1, addLimbs]
    simp only [gw_idx_eq _ _ hia, gw_idx_eq _ _ hib, gx_setIdx_ok _ _ _ hi, bind, Except.bind, gw_add_u64_carry_eq,
      gx_headD_drop _ _ hia, gx_headD_drop _ _ hib, gx_tail_drop]
    rw [ih (i+1) _ _ (by rw [List.length_set]; omega) (by rw [List.length_set]; exact ha) (by rw [List.length_set]; exact hb),
      gx_take_set _ _ _ hi, List.append_assoc]
    rfl

theorem gx_add_uint_loop_oob (a b : List Nat) : ∀ cnt i (r : List Nat) c, i + cnt = r.length →
    (a.length < r.length ∨ b.length < r.length) → i ≤ a.length → i ≤ b.length →
    GenW.add_uint_loop1 a b cnt i r c = .error .oob := by
  intro cnt
  induction cnt with
  | zero => intro i r c h hs h1 h2; omega
  | succ n ih =>
    intro i r c h hs h1 h2
    have hi : i < r.length := by omega
    rw [GenW.add_uint_loop1]
    by_cases hia : i < a.length
    · by_cases hib : i < b.length
      · simp only [gw_idx_eq _ _ hia, gw_idx_eq _ _ hib, gx_setIdx_ok _ _ _ hi, bind, Except.bind]
        exact ih (i+1) _ _ (by rw [List.length_set]; omega) (by rw [List.length_set]; exact hs) (by omega) (by omega)
      · simp only [gw_idx_eq _ _ hia, gx_idx_oob _ _ hib, bind, Except.bind]
    · simp only [gx_idx_oob _ _ hia, bind, Except.bind]

/-- `add_uint(operand1, operand2, result)`: the new contents of `result` and the returned carry are the hand model's
    `addUint operand1 operand2 result.len()` (including the out-of-bounds panics when an operand is shorter than `result`) -/
theorem gx_add_uint_eq (a b r : List Nat) : GenW.add_uint a b r = addUint a b r.length := by
  unfold GenW.add_uint addUint
  by_cases hbad : r.length = 0 ∨ a.length < r.length ∨ b.length < r.length
  · rw [if_pos hbad]
    by_cases ha0 : 0 < a.length
    · by_cases hb0 : 0 < b.length
      · by_cases hr0 : 0 < r.length
        · simp only [gw_idx_eq _ _ ha0, gw_idx_eq _ _ hb0, gw_idx_eq _ _ hr0, bind, Except.bind]
          have hs : a.length < r.length ∨ b.length < r.length := by omega
          exact gx_add_uint_loop_oob a b _ 1 _ _ (by rw [List.length_set]; omega) (by rw [List.length_set]; exact hs) (by omega) (by omega)
        · simp only [gw_idx_eq _ _ ha0, gw_idx_eq _ _ hb0, gx_idx_oob _ _ hr0, bind, Except.bind]
      · simp only [gw_idx_eq _ _ ha0, gx_idx_oob _ _ hb0, bind, Except.bind]
    · simp only [gx_idx_oob _ _ ha0, bind, Except.bind]
  · rw [if_neg hbad]
    have hr0 : 0 < r.length := by omega
    have ha0 : 0 < a.length := by omega
    have hb0 : 0 < b.length := by omega
    simp only [gw_idx_eq _ _ ha0, gw_idx_eq _ _ hb0, gw_idx_eq _ _ hr0, bind, Except.bind, gw_add_u64_eq]
    rw [gx_add_uint_loop_ok a b _ 1 _ _ (by rw [List.length_set]; omega) (by rw [List.length_set]; omega) (by rw [List.length_set]; omega)]
    have hh : ∀ (l : List Nat) (h : 0 < l.length), l.headD 0 = l[0] := by
      intro l h; cases l with
      | nil => simp at h
      | cons x t => rfl
    have ht : ∀ (l : List Nat), l.drop 1 = l.tail := by intro l; cases l <;> rfl
    have hset : (r.set 0 (addU64 a[0] b[0]).1).take 1 = [(addU64 a[0] b[0]).1] := by
      cases r with
      | nil => simp at hr0
      | cons x t => rfl
    rw [hset, ht, ht, hh a ha0, hh b hb0, List.length_set]
    rfl

/-! ### sub_uint (first limb read directly, later limbs zero-extended: no out-of-bounds read inside the loop) -/
theorem gx_getD_drop (l : List Nat) (i : Nat) : (l.drop i).headD 0 = if i < l.length then l[i]?.getD 0 else 0 := by
  by_cases h : i < l.length
  · rw [if_pos h, gx_headD_drop _ _ h, List.getElem?_eq_getElem h]; rfl
  · rw [if_neg h, gx_headD_drop_ge _ _ h]

theorem gx_sub_uint_loop_ok (a b : List Nat) : ∀ cnt i (r : List Nat) c, i + cnt = r.length →
    GenW.sub_uint_loop1 a b cnt i r c =
      .ok (r.take i ++ (subLimbs cnt (a.drop i) (b.drop i) c).1, (subLimbs cnt (a.drop i) (b.drop i) c).2) := by
  intro cnt
  induction cnt with
  | zero =>
    intro i r c h
    rw [GenW.sub_uint_loop1, subLimbs, List.append_nil, List.take_of_length_le (by omega)]; rfl
  | succ n ih =>
    intro i r c h
    have hi : i < r.length := by omega
    have hx : (if i < a.length then GenW.idx a i else pure 0) = .ok ((a.drop i).headD 0) := by
      by_cases hia : i < a.length
      · rw [if_pos hia, gw_idx_eq _ _ hia, gx_headD_drop _ _ hia]
      · rw [if_neg hia, gx_headD_drop_ge _ _ hia]; rfl
    have hy : (if i < b.length then GenW.idx b i else pure 0) = .ok ((b.drop i).headD 0) := by
      by_cases hib : i < b.length
      · rw [if_pos hib, gw_idx_eq _ _ hib, gx_headD_drop _ _ hib]
      · rw [if_neg hib, gx_headD_drop_ge _ _ hib]; rfl
    rw [GenW.sub_uint_loop1, subLimbs, hx, hy]
    simp only [gx_setIdx_ok _ _ _ hi, bind, Except.bind, gw_sub_u64_borrow_eq, gx_tail_drop]
    rw [ih (i+1) _ _ (by rw [List.length_set]; omega), gx_take_set _ _ _ hi, List.append_assoc]
    rfl

theorem gx_headD_zero (l : List Nat) (h : 0 < l.length) : l.headD 0 = l[0] := by
  cases l with
  | nil => simp at h
  | cons x t => rfl

theorem gx_drop_one (l : List Nat) : l.drop 1 = l.tail := by cases l <;> rfl

theorem gx_set_take_one (r : List Nat) (v : Nat) (h : 0 < r.length) : (r.set 0 v).take 1 = [v] := by
  cases r with
  | nil => simp at h
  | cons x t => rfl

/-- `sub_uint(operand1, operand2, result)` = `subUint operand1 operand2 result.len()` -/
theorem gx_sub_uint_eq (a b r : List Nat) : GenW.sub_uint a b r = subUint a b r.length := by
  unfold GenW.sub_uint subUint
  by_cases hbad : r.length = 0 ∨ a.length < 1 ∨ b.length < 1
  · rw [if_pos hbad]
    by_cases ha0 : 0 < a.length
    · by_cases hb0 : 0 < b.length
      · have hr0 : ¬ 0 < r.length := by omega
        simp only [gw_idx_eq _ _ ha0, gw_idx_eq _ _ hb0, gx_idx_oob _ _ hr0, bind, Except.bind]
      · simp only [gw_idx_eq _ _ ha0, gx_idx_oob _ _ hb0, bind, Except.bind]
    · simp only [gx_idx_oob _ _ ha0, bind, Except.bind]
  · rw [if_neg hbad]
    have hr0 : 0 < r.length := by omega
    have ha0 : 0 < a.length := by omega
    have hb0 : 0 < b.length := by omega
    simp only [gw_idx_eq _ _ ha0, gw_idx_eq _ _ hb0, gw_idx_eq _ _ hr0, bind, Except.bind, gw_sub_u64_eq]
    rw [gx_sub_uint_loop_ok a b _ 1 _ _ (by rw [List.length_set]; omega)]
    rw [gx_set_take_one _ _ hr0, gx_drop_one, gx_drop_one, gx_headD_zero a ha0, gx_headD_zero b hb0, List.length_set]
    rfl

/-! ### add_uint_u64 / sub_uint_u64 (second operand a single word: the later limbs add / subtract 0 = head of the empty list) -/
theorem gx_add_uint_u64_loop_ok (a : List Nat) : ∀ cnt i (r : List Nat) c, i + cnt = r.length → r.length ≤ a.length →
    GenW.add_uint_u64_loop1 a cnt i r c =
      .ok (r.take i ++ (addLimbs cnt (a.drop i) [] c).1, (addLimbs cnt (a.drop i) [] c).2) := by
  intro cnt
  induction cnt with
  | zero =>
    intro i r c h _
    rw [GenW.add_uint_u64_loop1, addLimbs, List.append_nil, List.take_of_length_le (by omega)]; rfl
  | succ n ih =>
    intro i r c h ha
    have hi : i < r.length := by omega
    have hia : i < a.length := by omega
    rw [GenW.add_uint_u64_loop1, addLimbs]
    simp only [gw_idx_eq _ _ hia, gx_setIdx_ok _ _ _ hi, bind, Except.bind, gw_add_u64_carry_eq,
      gx_headD_drop _ _ hia, gx_tail_drop, List.headD_nil, List.tail_nil]
    rw [ih (i+1) _ _ (by rw [List.length_set]; omega) (by rw [List.length_set]; exact ha), gx_take_set _ _ _ hi, List.append_assoc]
    rfl

theorem gx_add_uint_u64_loop_oob (a : List Nat) : ∀ cnt i (r : List Nat) c, i + cnt = r.length → a.length < r.length → i ≤ a.length →
    GenW.add_uint_u64_loop1 a cnt i r c = .error .oob := by
  intro cnt
  induction cnt with
  | zero => intro i r c h hs h1; omega
  | succ n ih =>
    intro i r c h hs h1
    have hi : i < r.length := by omega
    rw [GenW.add_uint_u64_loop1]
    by_cases hia : i < a.length
    · simp only [gw_idx_eq _ _ hia, gx_setIdx_ok _ _ _ hi, bind, Except.bind]
      exact ih (i+1) _ _ (by rw [List.length_set]; omega) (by rw [List.length_set]; exact hs) (by omega)
    · simp only [gx_idx_oob _ _ hia, bind, Except.bind]

/-- `add_uint_u64(operand1, operand2, result)` = `addUintU64 operand1 operand2 result.len()` -/
theorem gx_add_uint_u64_eq (a : List Nat) (w : Nat) (r : List Nat) : GenW.add_uint_u64 a w r = addUintU64 a w r.length := by
  unfold GenW.add_uint_u64 addUintU64
  by_cases hbad : r.length = 0 ∨ a.length < r.length
  · rw [if_pos hbad]
    by_cases ha0 : 0 < a.length
    · by_cases hr0 : 0 < r.length
      · simp only [gw_idx_eq _ _ ha0, gw_idx_eq _ _ hr0, bind, Except.bind]
        exact gx_add_uint_u64_loop_oob a _ 1 _ _ (by rw [List.length_set]; omega) (by rw [List.length_set]; omega) (by omega)
      · simp only [gw_idx_eq _ _ ha0, gx_idx_oob _ _ hr0, bind, Except.bind]
    · simp only [gx_idx_oob _ _ ha0, bind, Except.bind]
  · rw [if_neg hbad]
    have hr0 : 0 < r.length := by omega
    have ha0 : 0 < a.length := by omega
    simp only [gw_idx_eq _ _ ha0, gw_idx_eq _ _ hr0, bind, Except.bind, gw_add_u64_eq]
    rw [gx_add_uint_u64_loop_ok a _ 1 _ _ (by rw [List.length_set]; omega) (by rw [List.length_set]; omega)]
    rw [gx_set_take_one _ _ hr0, gx_drop_one, gx_headD_zero a ha0, List.length_set]
    rfl

theorem gx_sub_uint_u64_loop_ok (a : List Nat) : ∀ cnt i (r : List Nat) c, i + cnt = r.length → r.length ≤ a.length →
    GenW.sub_uint_u64_loop1 a cnt i r c =
      .ok (r.take i ++ (subLimbs cnt (a.drop i) [] c).1, (subLimbs cnt (a.drop i) [] c).2) := by
  intro cnt
  induction cnt with
  | zero =>
    intro i r c h _
    rw [GenW.sub_uint_u64_loop1, subLimbs, List.append_nil, List.take_of_length_le (by omega)]; rfl
  | succ n ih =>
    intro i r c h ha
    have hi : i < r.length := by omega
    have hia : i < a.length := by omega
    rw [GenW.sub_uint_u64_loop1, subLimbs]
    simp only [gw_idx_eq _ _ hia, gx_setIdx_ok _ _ _ hi, bind, Except.bind, gw_sub_u64_borrow_eq,
      gx_headD_drop _ _ hia, gx_tail_drop, List.headD_nil, List.tail_nil]
    rw [ih (i+1) _ _ (by rw [List.length_set]; omega) (by rw [List.length_set]; exact ha), gx_take_set _ _ _ hi, List.append_assoc]
    rfl

theorem gx_sub_uint_u64_loop_oob (a : List Nat) : ∀ cnt i (r : List Nat) c, i + cnt = r.length → a.length < r.length → i ≤ a.length →
    GenW.sub_uint_u64_loop1 a cnt i r c = .error .oob := by
  intro cnt
  induction cnt with
  | zero => intro i r c h hs h1; omega
  | succ n ih =>
    intro i r c h hs h1
    have hi : i < r.length := by omega
    rw [GenW.sub_uint_u64_loop1]
    by_cases hia : i < a.length
    · simp only [gw_idx_eq _ _ hia, gx_setIdx_ok _ _ _ hi, bind, Except.bind]
      exact ih (i+1) _ _ (by rw [List.length_set]; omega) (by rw [List.length_set]; exact hs) (by omega)
    · simp only [gx_idx_oob _ _ hia, bind, Except.bind]

/-- `sub_uint_u64(operand1, operand2, result)` = `subUintU64 operand1 operand2 result.len()` -/
theorem gx_sub_uint_u64_eq (a : List Nat) (w : Nat) (r : List Nat) : GenW.sub_uint_u64 a w r = subUintU64 a w r.length := by
  unfold GenW.sub_uint_u64 subUintU64
  by_cases hbad : r.length = 0 ∨ a.length < r.length
  · rw [if_pos hbad]
    by_cases ha0 : 0 < a.length
    · by_cases hr0 : 0 < r.length
      · simp only [gw_idx_eq _ _ ha0, gw_idx_eq _ _ hr0, bind, Except.bind]
        exact gx_sub_uint_u64_loop_oob a _ 1 _ _ (by rw [List.length_set]; omega) (by rw [List.length_set]; omega) (by omega)
      · simp only [gw_idx_eq _ _ ha0, gx_idx_oob _ _ hr0, bind, Except.bind]
    · simp only [gx_idx_oob _ _ ha0, bind, Except.bind]
  · rw [if_neg hbad]
    have hr0 : 0 < r.length := by omega
    have ha0 : 0 < a.length := by omega
    simp only [gw_idx_eq _ _ ha0, gw_idx_eq _ _ hr0, bind, Except.bind, gw_sub_u64_eq]
    rw [gx_sub_uint_u64_loop_ok a _ 1 _ _ (by rw [List.length_set]; omega) (by rw [List.length_set]; omega)]
    rw [gx_set_take_one _ _ hr0, gx_drop_one, gx_headD_zero a ha0, List.length_set]
    rfl

end HC
