/- C13 helper proofs: `CoeffModulus::create` / `PlainModulus::batching` return distinct primes of the requested sizes, ≡ 1 (mod 2N). -/
import Heathcliff.Proofs.C13Primes
namespace HC.Ctx
open HC

/-- unfolding of `createEntries` on a non-empty list -/
theorem createEntries_cons_ok {isPrime : Nat → Bool} {factor : Nat} {all seen rest l : List Nat} {b : Nat}
    (h : createEntries isPrime factor all seen (b :: rest) = .ok l) :
    ∃ ps p tl, getPrimes isPrime factor b (all.count b) = .ok ps ∧
      ps[all.count b - 1 - seen.count b]? = some p ∧
      createEntries isPrime factor all (seen ++ [b]) rest = .ok tl ∧ l = p :: tl := by
  unfold createEntries at h
  simp only [bind, Except.bind, pure, Except.pure] at h
  split at h
  · exact absurd h (by simp)
  · rename_i ps hps
    split at h
    · exact absurd h (by simp)
    · rename_i p hp
      split at h
      · exact absurd h (by simp)
      · rename_i tl htl
        refine ⟨ps, p, tl, hps, hp, htl, ?_⟩
        injection h with h; exact h.symm

/-- each entry is the `(v-1-j)`-th prime of `getPrimes factor b v`, `j` = number of earlier occurrences of `b` -/
theorem createEntries_inv {isPrime : Nat → Bool} {factor : Nat} {all : List Nat} :
    ∀ (rest seen l : List Nat), createEntries isPrime factor all seen rest = .ok l →
      l.length = rest.length ∧
      ∀ i (hi : i < rest.length) (hl : i < l.length), ∃ ps,
        getPrimes isPrime factor rest[i] (all.count rest[i]) = .ok ps ∧
        ps[all.count rest[i] - 1 - (seen ++ rest.take i).count rest[i]]? = some l[i] := by
  intro rest
  induction rest with
  | nil =>
    intro seen l h
    unfold createEntries at h
    simp only [pure, Except.pure] at h
    injection h with h
    subst h
    exact ⟨rfl, fun i hi => absurd hi (by simp)⟩
  | cons b rest ih =>
    intro seen l h
    obtain ⟨ps, p, tl, hps, hp, htl, rfl⟩ := createEntries_cons_ok h
    obtain ⟨hlen, hent⟩ := ih _ _ htl
    refine ⟨by simp [hlen], ?_⟩
    intro i hi hl
    cases i with
    | zero =>
      refine ⟨ps, by simpa using hps, ?_⟩
      simpa using hp
    | succ k =>
      have hk : k < rest.length := by simpa using hi
      have hk' : k < tl.length := by simpa using hl
      obtain ⟨qs, hqs, hq⟩ := hent k hk hk'
      refine ⟨qs, by simpa using hqs, ?_⟩
      simp only [List.getElem_cons_succ, List.take_succ_cons]
      rw [List.append_cons]
      exact hq

theorem count_take_succ {l : List Nat} {i : Nat} (hi : i < l.length) :
    (l.take (i + 1)).count l[i] = (l.take i).count l[i] + 1 := by
  rw [List.take_succ_eq_append_getElem hi, List.count_append]
  simp

theorem count_take_mono {l : List Nat} {i j : Nat} (hij : i ≤ j) (b : Nat) :
    (l.take i).count b ≤ (l.take j).count b := by
  have : l.take i = (l.take j).take i := by
    rw [List.take_take, Nat.min_eq_left hij]
  rw [this]
  exact (List.take_sublist _ _).count_le _

theorem count_take_le (l : List Nat) (i b : Nat) : (l.take i).count b ≤ l.count b :=
  (List.take_sublist _ _).count_le _

theorem degreeOk_two_le {n : Nat} (h : degreeOk n = true) : 2 ≤ n := by
  unfold degreeOk at h
  simp only [Bool.and_eq_true, Gen.HE_POLY_MOD_DEGREE_MIN] at h
  exact (of_decide_eq_true h.1).1

/-- `CoeffModulus::create`: one modulus per requested size, of exactly that many bits, accepted by `isPrime`,
    congruent to 1 modulo 2N, and all distinct (`isPrime (2^b) = false` excludes the out-of-range candidate `2^b`,
    which a genuine primality test never accepts for `b ≥ 2`) -/
theorem create_spec {isPrime : Nat → Bool} {n : Nat} {sizes l : List Nat}
    (h2 : ∀ b ∈ sizes, isPrime (2^b) = false)
    (h : create isPrime n sizes = .ok l) :
    l.length = sizes.length ∧
    (∀ i (hi : i < l.length) (hj : i < sizes.length),
        bitCount l[i] = sizes[i] ∧ isPrime l[i] = true ∧ l[i] % (2 * n) = 1) ∧
    l.Nodup ∧ 2 ≤ n ∧ (∀ b ∈ sizes, 2 ≤ b ∧ b ≤ 60) := by
  unfold create at h
  split at h
  · exact absurd h (by simp)
  rename_i hdeg
  split at h
  · exact absurd h (by simp)
  split at h
  · exact absurd h (by simp)
  split at h
  · exact absurd h (by simp)
  rename_i hmax
  split at h
  · exact absurd h (by simp)
  rename_i hmin
  have hn : 2 ≤ n := degreeOk_two_le (by simpa using hdeg)
  have hsz : ∀ b ∈ sizes, 2 ≤ b ∧ b ≤ 60 := by
    intro b hb
    simp [Gen.HE_USER_MOD_BIT_COUNT_MAX, Gen.HE_USER_MOD_BIT_COUNT_MIN] at hmax hmin
    have := hmax b hb
    have := hmin b hb
    omega
  obtain ⟨hlen, hent⟩ := createEntries_inv _ _ _ h
  -- per-entry facts
  have key : ∀ i (hi : i < l.length) (hj : i < sizes.length), ∃ ps,
      getPrimes isPrime (2 * n) sizes[i] (sizes.count sizes[i]) = .ok ps ∧
      ps.Nodup ∧ ps.length = sizes.count sizes[i] ∧
      ps[sizes.count sizes[i] - 1 - (sizes.take i).count sizes[i]]? = some l[i] ∧
      bitCount l[i] = sizes[i] ∧ isPrime l[i] = true ∧ l[i] % (2 * n) = 1 := by
    intro i hi hj
    obtain ⟨ps, hps, hp⟩ := hent i hj hi
    rw [List.nil_append] at hp
    have hmem : sizes[i] ∈ sizes := List.getElem_mem hj
    obtain ⟨hl, -, hnd, hall, -⟩ :=
      get_primes_spec (by have := (hsz _ hmem).1; omega) (by omega) (h2 _ hmem) hps
    have hin : l[i] ∈ ps := List.mem_of_getElem? hp
    obtain ⟨hpr, hmod, -, -, hbc⟩ := hall _ hin
    refine ⟨ps, hps, hnd, hl, hp, hbc, hpr, ?_⟩
    rw [hmod]; exact Nat.mod_eq_of_lt (by omega)
  refine ⟨hlen, ?_, ?_, hn, hsz⟩
  · intro i hi hj
    obtain ⟨ps, -, -, -, -, h1, h2', h3⟩ := key i hi hj
    exact ⟨h1, h2', h3⟩
  · rw [List.nodup_iff_injective_getElem]
    -- it suffices to exclude i < j
    have main : ∀ i j (hi : i < l.length) (hj : j < l.length), i < j → l[i] ≠ l[j] := by
      intro i j hi hj hij heq
      have hi' : i < sizes.length := hlen ▸ hi
      have hj' : j < sizes.length := hlen ▸ hj
      obtain ⟨ps, hps, hnd, hpl, hpi, hbi, -, -⟩ := key i hi hi'
      obtain ⟨qs, hqs, -, -, hqj, hbj, -, -⟩ := key j hj hj'
      have hb : sizes[i] = sizes[j] := by rw [← hbi, ← hbj, heq]
      rw [← hb] at hqs hqj
      have hpq : qs = ps := by
        rw [hps] at hqs; injection hqs with hqs; exact hqs.symm
      subst hpq
      rw [← heq] at hqj
      -- counters
      have c1 := count_take_succ hi'
      have c2 : (sizes.take (i+1)).count sizes[i] ≤ (sizes.take j).count sizes[i] :=
        count_take_mono (by omega) _
      have c3 := count_take_succ hj'
      rw [← hb] at c3
      have c4 := count_take_le sizes (j+1) sizes[i]
      obtain ⟨hki, hki'⟩ := List.getElem?_eq_some_iff.mp hpi
      obtain ⟨hkj, hkj'⟩ := List.getElem?_eq_some_iff.mp hqj
      have := (hnd.getElem_inj_iff (hi := hki) (hj := hkj)).mp (hki'.trans hkj'.symm)
      omega
    intro ⟨i, hi⟩ ⟨j, hj⟩ heq
    simp only at heq
    rcases Nat.lt_trichotomy i j with hlt | he | hgt
    · exact absurd heq (main i j hi hj hlt)
    · exact Fin.ext he
    · exact absurd heq.symm (main j i hj hi hgt)

/-- `PlainModulus::batching` -/
theorem batching_spec {isPrime : Nat → Bool} {n b v : Nat} (h2 : isPrime (2^b) = false)
    (h : batching isPrime n b = .ok v) :
    bitCount v = b ∧ isPrime v = true ∧ v % (2 * n) = 1 := by
  unfold batching at h
  simp only [bind, Except.bind, pure, Except.pure] at h
  split at h
  · exact absurd h (by simp)
  rename_i l hl
  obtain ⟨hlen, hent, -⟩ := create_spec (sizes := [b]) (by simpa using h2) hl
  split at h
  · rename_i p tl
    injection h with h
    subst h
    have := hent 0 (by simp) (by simp)
    simpa using this
  · exact absurd h (by simp)

end HC.Ctx
