import Heathcliff.Gen.ValidFns
import Heathcliff.Model.Evaluator

/-!
  Translator tie for decision logic: `Evaluator::is_scale_within_bounds` (src/evaluator.rs) and
  `Ciphertext::is_metadata_valid_for` / `is_buffer_valid` (src/valcheck.rs), generated into `Heathcliff/Gen/ValidFns.lean`
  (namespace `HC.GenV`; the accessor chains on contexts / ciphertexts / floats are INPUTS of the generated functions, TRANSLATOR.md),
  against `ckksScaleOk` and `ctValid` of `Heathcliff/Model/Evaluator.lean`.  Helper names start with `gx_`.
-/
namespace HC
open HC.GenV

/-! ### is_scale_within_bounds -/

/-- the decision of `is_scale_within_bounds` on the two facts it extracts from the float: `scale <= 0.0` and `scale.log2() as isize` -/
def gx_scaleOk (nonPos : Bool) (l2 : Int) (bound : Int) : Bool := !nonPos && decide (l2 < bound)

theorem gx_asI64_small (b : Nat) (hb : b < 2^63) : asI64 b = (b : Int) := by
  unfold asI64; rw [if_pos hb]; rfl

/-- the generated function is `gx_scaleOk` with the scheme's bound: plain-modulus bits (BFV/BGV), total coefficient-modulus bits (CKKS).
    (`as isize` of a bit count: exact below 2^63.) -/
theorem gx_is_scale_within_bounds_eq (s : Scheme) (plainBits totalBits : Nat) (nonPos : Bool) (l2 : Int)
    (hp : plainBits < 2^63) (ht : totalBits < 2^63) :
    GenV.is_scale_within_bounds s plainBits totalBits nonPos l2 =
      gx_scaleOk nonPos l2 (match s with | .bfv | .bgv => (plainBits : Int) | .ckks => (totalBits : Int)) := by
  unfold GenV.is_scale_within_bounds gx_scaleOk
  rw [gx_asI64_small _ hp, gx_asI64_small _ ht]
  cases s <;> cases nonPos <;> simp <;> omega

/-- against the hand model `ckksScaleOk` (which tests `scale < 2^bits` on the float instead of taking a logarithm).  Lean's `Float` is
    opaque to the kernel, so the one float fact the two formulations differ by is an explicit hypothesis:
    `scale < 2^bits  ↔  (scale.log2() as isize) < bits`  (true for positive finite doubles; exercised by the C03 correspondence runs). -/
theorem gx_is_scale_within_bounds_ckks (scale : Float) (plainBits totalBits : Nat) (l2 : Int) (ht : totalBits < 2^63) (hp : plainBits < 2^63)
    (hfl : (scale < Float.ofScientific 1 false 0 * (Float.ofNat 2) ^ (Float.ofNat totalBits)) ↔ l2 < (totalBits : Int)) :
    GenV.is_scale_within_bounds .ckks plainBits totalBits (decide (scale ≤ 0.0)) l2 = ckksScaleOk scale totalBits := by
  rw [gx_is_scale_within_bounds_eq _ _ _ _ _ hp ht]
  unfold gx_scaleOk ckksScaleOk
  simp only [hfl]

/-! ### Ciphertext::is_metadata_valid_for -/

/-- the buffer-shape and data part of `ctValid` (`is_buffer_valid`, `is_data_valid_for`): every polynomial has `l.size` components of
    `l.n` residues below the component's modulus -/
def gx_ctShapeOk (l : Level) (ct : Ct) : Bool :=
  ct.polys.all fun p => p.size = l.size ∧
    (List.range l.size).all fun i => let c := p.getD i #[]; c.size = l.n ∧ c.all (· < (l.q i).value)

/-- the metadata part of `ctValid`: size 0 or 2..16, scale flag, correction factor -/
def gx_ctMetaValid (l : Level) (ct : Ct) (scaleIsOne scaleIsZero : Bool) : Bool :=
  decide (ct.polys.size = 0 ∨ (2 ≤ ct.polys.size ∧ ct.polys.size ≤ 16)) &&
  (match l.scheme with | .bfv | .bgv => scaleIsOne | .ckks => !scaleIsZero) &&
  (match l.scheme with | .bfv | .ckks => decide (ct.cf = 1) | .bgv => decide (ct.cf ≠ 0 ∧ ct.cf < l.t.value))

theorem gx_ctValid_split (l : Level) (ct : Ct) (s1 s0 : Bool) :
    ctValid l ct s1 s0 = (gx_ctMetaValid l ct s1 s0 && gx_ctShapeOk l ct) := by
  unfold ctValid gx_ctMetaValid gx_ctShapeOk
  generalize (ct.polys.all _) = sh
  cases hs : l.scheme <;> cases s1 <;> cases s0 <;> cases sh <;> simp

/-- the generated `is_metadata_valid_for`, on a context whose parameters are set and that knows the ciphertext's parms id, at a level that is
    not a pure key level (or with pure key levels allowed), for a ciphertext whose declared shape (`coeff_modulus_size`, `poly_modulus_degree`)
    is the level's: exactly the metadata part of the hand model's `ctValid`. -/
theorem gx_ct_is_metadata_valid_for_eq (l : Level) (ct : Ct) (s1 s0 allow : Bool) (chain first : Nat)
    (hk : allow = true ∨ chain ≤ first) :
    GenV.ct_is_metadata_valid_for allow true false chain first l.size l.n l.size l.n ct.polys.size
        (decide (l.scheme = .bfv)) (decide (l.scheme = .bgv)) (decide (l.scheme = .ckks)) (!s1) s0 ct.cf l.t.value =
      gx_ctMetaValid l ct s1 s0 := by
  unfold GenV.ct_is_metadata_valid_for gx_ctMetaValid
  have hk' : ¬ ((¬ allow = true) ∧ decide (chain > first) = true) := by
    rcases hk with h | h
    · simp [h]
    · simp; intro _; omega
  simp only [hk', if_false]
  generalize ct.polys.size = n
  cases hs : l.scheme <;> cases s1 <;> cases s0 <;> simp <;> (rw [Bool.eq_iff_iff]; simp; omega)

/-- hence `ctValid` = generated metadata check ∧ shape/data part -/
theorem gx_ctValid_eq_gen (l : Level) (ct : Ct) (s1 s0 allow : Bool) (chain first : Nat) (hk : allow = true ∨ chain ≤ first) :
    ctValid l ct s1 s0 =
      (GenV.ct_is_metadata_valid_for allow true false chain first l.size l.n l.size l.n ct.polys.size
        (decide (l.scheme = .bfv)) (decide (l.scheme = .bgv)) (decide (l.scheme = .ckks)) (!s1) s0 ct.cf l.t.value
       && gx_ctShapeOk l ct) := by
  rw [gx_ctValid_split, gx_ct_is_metadata_valid_for_eq l ct s1 s0 allow chain first hk]

/-- refusals of the generated check that the hand model takes as given (it is only applied to ciphertexts of a known level):
    parameters not set, unknown parms id, pure key level without permission, declared shape different from the level's -/
theorem gx_ct_is_metadata_valid_for_refuses (allow pset missing : Bool) (chain first ls ln cc cn sz : Nat) (b1 b2 b3 sn sz0 : Bool) (cf t : Nat)
    (h : pset = false ∨ missing = true ∨ (allow = false ∧ chain > first) ∨ cc ≠ ls ∨ cn ≠ ln) :
    GenV.ct_is_metadata_valid_for allow pset missing chain first ls ln cc cn sz b1 b2 b3 sn sz0 cf t = false := by
  unfold GenV.ct_is_metadata_valid_for
  rcases h with h | h | ⟨h1, h2⟩ | h | h
  · simp [h]
  · cases pset <;> simp [h]
  · cases pset <;> cases missing <;> simp [h1, h2]
  · cases pset <;> cases missing <;> simp [h]
  · cases pset <;> cases missing <;> simp [h]

/-! ### Ciphertext::is_buffer_valid -/
/-- `data.len() == coeff_modulus_size * size * poly_modulus_degree` with checked products -/
theorem gx_ct_is_buffer_valid_eq (dataLen cc sz n : Nat) (h1 : cc * sz < 2^64) (h : cc * sz * n < 2^64) :
    GenV.ct_is_buffer_valid dataLen cc sz n = .ok (decide (dataLen = cc * sz * n)) := by
  unfold GenV.ct_is_buffer_valid ckMul
  have hB : B64 = 2^64 := by decide
  rw [if_pos (by rw [hB]; exact h1)]
  simp only [bind, Except.bind]
  rw [if_pos (by rw [hB]; exact h)]; rfl

end HC
