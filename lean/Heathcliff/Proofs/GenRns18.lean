import Heathcliff.Proofs.GenRns5
import Heathcliff.Proofs.GenRns17

/-!
  Phase 4k of the translator tie: `BaseConverter::exact_convey_array` generated from src/util/rns.rs (f64 pipeline erased into the abstract function
  input `roundQ`, see Proofs/GenRns17.lean) EQUALS the hand model's column-wise `BaseConverter.exactConvey` under the EXPLICIT hypothesis that
  `roundQ` returns the exact rational rounding `exactRound` on the scaled residues of every coefficient (DESIGN.md §4: floats are parameters
  constrained by hypotheses).  Helper names start with `gr_`.
-/
namespace HC
open HC.GenW HC.GenR

/-- the scaled residues of coefficient `j` as the model computes them -/
def gr_ecaScaled (c : BaseConverter) (p : RnsPoly) (j : Nat) : List Nat := (List.range c.ibase.size).map (fun i => gr_fcaT c p i j)

/-- the output word of coefficient `j` -/
def gr_ecaW (c : BaseConverter) (p : RnsPoly) (v : Nat) (j : Nat) : Nat :=
  subModV (gr_fcaD c p 0 j) ((v * (c.ibase.prod % (c.obase.q 0).value)) % (c.obase.q 0).value) (c.obase.q 0)

/-- one column of the model, with the rounded quotient made explicit -/
theorem gr_exactConvey_ok (c : BaseConverter) (hi : c.ibase.WF) (ho : c.obase.WF) (hM : gr_MatOK c) (ho1 : c.obase.size = 1) (p : RnsPoly) (j : Nat)
    (hp : p.size = c.ibase.size) (hw : ∀ i, i < c.ibase.size → (p.getD i #[]).getD j 0 < 2^64)
    (hv : exactRound c (gr_ecaScaled c p j) < 2^64) :
    c.exactConvey (p.map (fun comp => comp.getD j 0)) = .ok (gr_ecaW c p (exactRound c (gr_ecaScaled c p j)) j) := by
  have hpw := ho.mwf 0 (by omega)
  have hp2 := hpw.two_le
  have hp61 := hpw.lt
  unfold BaseConverter.exactConvey
  rw [if_neg (by omega), RNSH.scaled_ok c hi (fun i hi' => by rw [gr_col_getD p i j (by omega)]; exact hw i hi')]
  have hsc : ((List.range c.ibase.size).map fun i =>
      ((p.map (fun comp => comp.getD j 0)).getD i 0 * (c.ibase.invPunct.getD i default).operand) % (c.ibase.q i).value) = gr_ecaScaled c p j := by
    unfold gr_ecaScaled gr_fcaT
    apply List.map_congr_left
    intro i hi'
    rw [gr_col_getD p i j (by have := List.mem_range.mp hi'; omega)]
  simp only [gr_ok_bind]
  rw [hsc, RNSH.moduloUint_limbs hpw hi.pos hi.prod_lt]
  simp only [gr_ok_bind]
  have hdot : dotProductMod (gr_ecaScaled c p j) (c.matrix.getD 0 #[]).toList (c.obase.q 0) = .ok (gr_fcaD c p 0 j) := by
    rw [hM.2 0 (by omega)]
    unfold gr_ecaScaled
    rw [RNSH.dot_ok hi hpw (fun i => gr_fcaT c p i j) (fun i hi' => by
      unfold gr_fcaT; exact Nat.mod_lt _ (by have := (hi.mwf i hi').two_le; omega))]
    rfl
  rw [hdot]
  simp only [gr_ok_bind]
  rw [mulMod_exact hpw hv (by have := Nat.mod_lt c.ibase.prod (show 0 < (c.obase.q 0).value by omega); omega)]
  rfl

theorem gr_ecaCol_eq (c : BaseConverter) (p : RnsPoly) (j : Nat) : gr_ecaCol (gr_fcaT c p) c.ibase.size j = gr_ecaScaled c p j := by
  unfold gr_ecaCol gr_ecaScaled; rw [List.range_eq_range']

/-- **`BaseConverter::exact_convey_array` (generated from src/util/rns.rs, floats erased) = the hand model** (`exactConvey` on every column) for a converter
    with well-formed bases into ONE output modulus, word inputs, ANY output buffer of `n` words, PROVIDED the abstract function `roundQ` standing
    for the f64 pipeline (i) returns a u64 and (ii) equals the exact rational rounding `exactRound` on the scaled residues of every coefficient.
    Where a double cannot decide (`exactRoundAmbiguous`) hypothesis (ii) is a genuine assumption about the floating-point unit. -/
theorem gr_exact_convey_array_eq (c : BaseConverter) (hi : c.ibase.WF) (ho : c.obase.WF) (hM : gr_MatOK c) (ho1 : c.obase.size = 1)
    (p : RnsPoly) (d : Poly) (n : Nat) (roundQ : List Nat → Nat)
    (hp : p.size = c.ibase.size) (hpn : ∀ i, i < c.ibase.size → (p.getD i #[]).size = n)
    (hw : ∀ i j, i < c.ibase.size → j < n → (p.getD i #[]).getD j 0 < 2^64)
    (hd : d.size = n) (hkn : c.ibase.size * n < 2^64)
    (hrw : ∀ l, roundQ l < 2^64)
    (hround : ∀ j, j < n → roundQ (gr_ecaScaled c p j) = exactRound c (gr_ecaScaled c p j)) :
    GenR.exact_convey_array (flatP p) d.toList c.ibase.size c.obase.size c.ibase.invPunct.toList c.ibase.base.toList c.obase.base.toList
        (limbsOf c.ibase.size c.ibase.prod) (c.matrix.toList.map Array.toList) roundQ
      = ((transpose p n).toList.mapM (fun x => c.exactConvey x)) := by
  have hpw := ho.mwf 0 (by omega)
  have hp2 := hpw.two_le
  have hp61 := hpw.lt
  obtain ⟨hp1, hp2'⟩ := gr_shape_cs' hp hpn
  have hel : ∀ i j, ((p.toList.map Array.toList).getD i []).getD j 0 = (p.getD i #[]).getD j 0 := by
    intro i j; rw [gr_cs_getD, ← gr_arr_getD]
  -- the model
  have hmodel : (transpose p n).toList.mapM (fun x => c.exactConvey x)
      = .ok ((List.range' 0 n).map (fun j => gr_ecaW c p (roundQ (gr_ecaScaled c p j)) j)) := by
    rw [gr_transpose_toList, gr_mapM_map, List.range_eq_range']
    apply gr_mapM_ok
    intro j hj
    rw [List.mem_range'_1] at hj
    rw [hround j (by omega)]
    exact gr_exactConvey_ok c hi ho hM ho1 p j hp (fun i hi' => hw i j hi' (by omega)) (by rw [← hround j (by omega)]; exact hrw _)
  rw [hmodel]
  unfold flatP
  rw [ho1, gr_eca_list _ d.toList c.ibase.size n c.ibase.base.toList c.ibase.invPunct.toList c.obase.base.toList _ _ roundQ (gr_fcaT c p) hi.pos hkn
    hp1 hp2' (by simpa using hd) (by simp [RNSBase.size]) (by rw [Array.length_toList, hi.inv_size]) (by simp [RNSBase.size, ← ho1])
    (by rw [List.length_map, Array.length_toList, hM.1]; omega)
    (by intro h0; have hl := RNSH.fromNat_length c.ibase.size c.ibase.prod; unfold limbsOf at h0; rw [h0, List.length_nil] at hl; have := hi.pos; omega) ?_ ?_]
  · rw [gr_q_toList, RNSH.moduloUint_limbs hpw hi.pos hi.prod_lt, gr_ok_bind]
    apply gr_mapM_ok
    intro j hj
    rw [List.mem_range'_1] at hj
    have hrow : (c.matrix.toList.map Array.toList).getD 0 [] = (c.matrix.getD 0 #[]).toList := gr_cs_getD c.matrix 0
    unfold gr_ecaElt
    rw [gr_ecaCol_eq, hrow, hM.2 0 (by omega)]
    have hdot : dotProductMod (gr_ecaScaled c p j) ((List.range c.ibase.size).map (fun i => c.ibase.punct.getD i 0 % (c.obase.q 0).value)) (c.obase.q 0)
        = .ok (gr_fcaD c p 0 j) := by
      unfold gr_ecaScaled
      rw [RNSH.dot_ok hi hpw (fun i => gr_fcaT c p i j) (fun i hi' => by
        unfold gr_fcaT; exact Nat.mod_lt _ (by have := (hi.mwf i hi').two_le; omega))]
      rfl
    rw [hdot, gr_ok_bind, mulMod_exact hpw (hrw _) (by have := Nat.mod_lt c.ibase.prod (show 0 < (c.obase.q 0).value by omega); omega)]
    rfl
  · intro i j hi' hj hop
    rw [hel, gr_q_toList, gr_ops_toList] at *
    rw [barrett64_exact (hi.mwf i hi') (hw i j hi' hj)]
    unfold gr_fcaT
    rw [hop, Nat.mul_one]
  · intro i j hi' hj _
    rw [hel, gr_q_toList, gr_ops_toList]
    exact RNSH.mulOperandMod_wf (hi.mwf i hi') (hi.inv_wf i hi').1 (hw i j hi' hj)

end HC
