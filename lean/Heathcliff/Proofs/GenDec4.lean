/-
  Phase 4m, part 4: witnesses (non-vacuity) for the decryptor theorems: a COMPOSITE plain modulus t = 12 with correction factor 5.
-/
import Heathcliff.Proofs.GenDec3
import Heathcliff.Proofs.NonVac
namespace HC
open HC.GenDec

def gd_m12 : Modulus := ⟨12, 6148914691236517205, 1537228672809129301, 4, 4⟩
theorem gd_m12_mk : Modulus.mk? 12 = .ok gd_m12 := by rfl
theorem gd_m12_wf : gd_m12.WF := (Modulus.mk?_wf gd_m12_mk (by decide)).1

/-- composite t = 12, cf = 5 (5·5 = 25 = 1 mod 12; Fermat's 5^(t-2) = 5^10 = 1 mod 12 would be WRONG): the generated `bgv_decrypt`
    skeleton on `decrypt_mod_t` output [1, 2, 3, 11, 0, 0, 0, 0] multiplies by 5 and trims to 4 coefficients -/
theorem gd_bgv_witness :
    dec_bgv_decrypt true 8 2 5 gd_m12 [1, 2, 3, 11, 0, 0, 0, 0] [] [] = .ok ([5, 10, 3, 7], [1, 2, 3]) := by decide +kernel

/-- the hypotheses of `gd_bgvFixup_spec` are satisfiable at the composite modulus -/
theorem gd_bgvFixup_witness : ∃ inv, inv < 12 ∧ (inv * 5) % 12 = 1 ∧
    bgvFixupL 5 gd_m12 [1, 2, 3, 11] = .ok ([1, 2, 3, 11].map (fun x => (x * inv) % 12)) :=
  gd_bgvFixup_spec gd_m12 gd_m12_wf (by decide) (by decide) 5 (by decide) (by decide) (by decide) _ (by decide)

/-- budget tail at a concrete two-word modulus Q = 2^64 + 13 (65 bits), composed noise 5 and Q - 3 (norm 5, 3 bits): budget 65 - 3 - 1 = 61 -/
theorem gd_budget_witness :
    dec_invariant_noise_budget true 2 .bgv false 2 2 [13, 1] 65 [5, 0, 10, 1] [] = .ok ([1, 3], 61) := by decide +kernel

end HC
