/-
  C20K: the BOLT slot-packing helpers (model: `Model/Matmul.lean`, section "BOLT slot packing") — the algebra the rotation schedule
  of `bolt_cp` rests on, on slot vectors (two rows of N/2 slots; `rotRows` / `swapRows` are the slot actions of `rotate_rows` /
  `rotate_columns` proved in C11 / C04R):

    * `c20_rotRows_col`, `c20_swapRows_col`: the action of a rotation by whole columns / of the row exchange on the
      (column, entry) arrangement `slot = column·gap + entry`;
    * `c20_boltCpRotIn_col`: after `ir` baby steps (one column per step, reload with exchanged rows at `s/2`) column `c` of the
      rotated input holds the original column `boltShift half c ir`;
    * `c20_bolt_bsgs_sum`: as the total rotation `or·irc + ir` runs over `[0, s)`, `boltShift half k ·` runs over all columns exactly
      once (the baby-step / giant-step re-indexing of the dot product);
    * `c20_boltShift_split`, `c20_boltShift_lt`, `c20_shift_zero`, `c20_shift_half`, `c20_shift_step`.

  The end-to-end statements for the three helpers over the model are `BoltCpStatement`, `BoltCcCrStatement`, `BoltCcDcStatement`
  (Props/C20.lean); they are proved in C20L (generic lemmas), C20M (`bolt_cp`), C20N (`bolt_cc_cr`), C20O (`bolt_cc_dc`).  The model's
  whole schedule is compared with the code bit for bit by the driver.
-/
import Heathcliff.Proofs.C20I
import Mathlib.Algebra.BigOperators.Fin
import Mathlib.Data.Fintype.BigOperators
namespace HC
open Finset HC.MM

/-- summing over a rotation of `range n` -/
theorem c20_sum_rot {M : Type} [AddCommMonoid M] (g : Nat → M) (n k : Nat) :
    ∑ p ∈ range n, g ((p + k) % n) = ∑ c ∈ range n, g c := by
  cases n with
  | zero => simp
  | succ m =>
    rw [Finset.sum_range, Finset.sum_range]
    let k' : Fin (m + 1) := ⟨k % (m + 1), Nat.mod_lt _ (Nat.succ_pos m)⟩
    have : ∀ i : Fin (m + 1), g ((i.val + k) % (m + 1)) = (fun j : Fin (m + 1) => g j.val) (i + k') := by
      intro i
      show _ = g ((i + k').val)
      rw [Fin.val_add]
      show _ = g ((i.val + k % (m + 1)) % (m + 1))
      rw [Nat.add_mod_mod]
    rw [Finset.sum_congr rfl (fun i _ => this i)]
    exact Equiv.sum_comp (Equiv.addRight k') (fun j : Fin (m + 1) => g j.val)

theorem c20_boltShift_split (half k rot : Nat) (hh : 0 < half) :
    boltShift half k rot / half = (rot / half + k / half) % 2 ∧ boltShift half k rot % half = (rot + k) % half := by
  unfold boltShift
  have h1 := Nat.mod_lt (rot + k) hh
  rw [Nat.add_comm]
  exact c20_divmod h1

theorem c20_boltShift_lt (half k rot : Nat) (hh : 0 < half) : boltShift half k rot < 2 * half := by
  unfold boltShift
  have h1 := Nat.mod_lt (rot + k) hh
  have h2 : (rot / half + k / half) % 2 < 2 := Nat.mod_lt _ (by decide)
  have h3 : (rot / half + k / half) % 2 * half ≤ 1 * half := Nat.mul_le_mul_right _ (by omega)
  omega

/-- **baby-step / giant-step re-indexing**: as the total rotation runs over all `s = 2·half` values, the column read at column `k`
    runs over all columns exactly once -/
theorem c20_bolt_bsgs_sum {M : Type} [AddCommMonoid M] (f : Nat → M) (half k : Nat) (hh : 0 < half) :
    ∑ rot ∈ range (2 * half), f (boltShift half k rot) = ∑ c ∈ range (2 * half), f c := by
  have key : ∀ (F : Nat → M), ∑ x ∈ range (2 * half), F x = ∑ q ∈ range 2, ∑ p ∈ range half, F (q * half + p) := by
    intro F
    rw [Finset.sum_range_succ, Finset.sum_range_succ, Finset.sum_range_zero, zero_add, two_mul, Finset.sum_range_add]
    simp
  rw [key, key f]
  have e : ∀ q p, p < half → boltShift half k (q * half + p) = (q + k / half) % 2 * half + (p + k) % half := by
    intro q p hp
    unfold boltShift
    obtain ⟨d1, _⟩ := c20_divmod (X := q) hp
    rw [d1, Nat.add_comm ((q * half + p + k) % half)]
    congr 1
    rw [Nat.add_assoc, Nat.add_comm (q * half), Nat.add_mul_mod_self_right]
  have step1 : ∀ q, ∑ p ∈ range half, f (boltShift half k (q * half + p)) = ∑ c ∈ range half, f ((q + k / half) % 2 * half + c) := by
    intro q
    rw [Finset.sum_congr rfl (fun p hp => by rw [e q p (Finset.mem_range.mp hp)])]
    exact c20_sum_rot (fun c => f ((q + k / half) % 2 * half + c)) half k
  rw [Finset.sum_congr rfl (fun q _ => step1 q)]
  exact c20_sum_rot (fun b => ∑ c ∈ range half, f (b * half + c)) 2 (k / half)

theorem c20_getD_ofFn {α : Type} {n : Nat} (f : Fin n → α) (d : α) {i : Nat} (hi : i < n) :
    (Array.ofFn f).getD i d = f ⟨i, hi⟩ := by
  simp [Array.getD, hi]

/-- column arithmetic: `(x·gap + j) mod (w·gap) = (x mod w)·gap + j` and the quotient is `x / w` -/
theorem c20_col_divmod {x w gap j : Nat} (hw : 0 < w) (hj : j < gap) :
    (x * gap + j) / (w * gap) = x / w ∧ (x * gap + j) % (w * gap) = x % w * gap + j := by
  have h1 : x % w * gap + j < w * gap := by
    have := c20_succ_mul_le (ib := gap) (Nat.mod_lt x hw); omega
  have e : x * gap + j = x / w * (w * gap) + (x % w * gap + j) := by
    have := Nat.div_add_mod' x w
    calc x * gap + j = (x / w * w + x % w) * gap + j := by rw [this]
      _ = _ := by ring
  rw [e]
  exact c20_divmod h1

variable {α : Type}

/-- `rotate_rows` by `a` columns, read at column `c`, entry `j`: the column `a` places further in the same row -/
theorem c20_rotRows_col (zero : α) (half gap a c j : Nat) (v : Array α) (hh : 0 < half) (hc : c < 2 * half) (hj : j < gap) :
    (rotRows zero (2 * half * gap) (a * gap) v).getD (c * gap + j) zero
      = v.getD ((c / half * half + (c % half + a) % half) * gap + j) zero := by
  have hN : c * gap + j < 2 * half * gap := by
    have := c20_succ_mul_le (ib := gap) hc; omega
  unfold rotRows
  rw [c20_getD_ofFn _ _ hN]
  have hR : 2 * half * gap / 2 = half * gap := by
    rw [Nat.mul_assoc, Nat.mul_div_cancel_left _ (by decide : 0 < 2)]
  simp only [hR]
  obtain ⟨d1, d2⟩ := c20_col_divmod (x := c) (w := half) hh hj
  rw [d1, d2]
  have e : c % half * gap + j + a * gap = (c % half + a) * gap + j := by ring
  rw [e, (c20_col_divmod (x := c % half + a) (w := half) hh hj).2]
  congr 1
  ring

/-- `rotate_columns`, read at column `c`: the same column of the other row -/
theorem c20_swapRows_col (zero : α) (half gap c j : Nat) (v : Array α) (hh : 0 < half) (hc : c < 2 * half) (hj : j < gap) :
    (swapRows zero (2 * half * gap) v).getD (c * gap + j) zero = v.getD ((c + half) % (2 * half) * gap + j) zero := by
  have hN : c * gap + j < 2 * half * gap := by
    have := c20_succ_mul_le (ib := gap) hc; omega
  unfold swapRows
  rw [c20_getD_ofFn _ _ hN]
  have hR : 2 * half * gap / 2 = half * gap := by
    rw [Nat.mul_assoc, Nat.mul_div_cancel_left _ (by decide : 0 < 2)]
  simp only [hR]
  have e : c * gap + j + half * gap = (c + half) * gap + j := by ring
  rw [e, (c20_col_divmod (x := c + half) (w := 2 * half) (by omega) hj).2]

theorem c20_div_half {half x : Nat} (h1 : half ≤ x) (h2 : x < 2 * half) : x / half = 1 :=
  Nat.div_eq_of_lt_le (by omega) (by omega)

theorem c20_shift_zero {half c : Nat} (hh : 0 < half) (hc : c < 2 * half) : boltShift half c 0 = c := by
  unfold boltShift
  rw [Nat.zero_add, Nat.zero_div, Nat.zero_add]
  have h2 : c / half < 2 := by rw [Nat.div_lt_iff_lt_mul hh]; omega
  rw [Nat.mod_eq_of_lt h2]
  have := Nat.div_add_mod' c half
  omega

theorem c20_shift_half {half c : Nat} (hh : 0 < half) (hc : c < 2 * half) : boltShift half c half = (c + half) % (2 * half) := by
  unfold boltShift
  rw [Nat.add_mod_left, Nat.div_self hh]
  rcases Nat.lt_or_ge c half with h | h
  · rw [Nat.div_eq_of_lt h, Nat.mod_eq_of_lt h, Nat.mod_eq_of_lt (by omega : c + half < 2 * half)]
    simp
  · have d : c / half = 1 := c20_div_half h hc
    have m1 : c % half = c - half := by rw [Nat.mod_eq_sub_mod h]; exact Nat.mod_eq_of_lt (by omega)
    have m2 : (c + half) % (2 * half) = c - half := by
      have e : c + half = c - half + 2 * half := by omega
      rw [e, Nat.add_mod_right]; exact Nat.mod_eq_of_lt (by omega)
    rw [d, m1, m2]
    simp

theorem c20_shift_step {half c ir : Nat} (hh : 0 < half) (hir : ir + 1 < 2 * half) (hne : ir + 1 ≠ half) :
    boltShift half (c / half * half + (c % half + 1) % half) ir = boltShift half c (ir + 1) := by
  obtain ⟨d1, d2⟩ := c20_divmod (X := c / half) (Nat.mod_lt (c % half + 1) hh)
  unfold boltShift
  rw [d1]
  have e1 : (ir + (c / half * half + (c % half + 1) % half)) % half = (ir + 1 + c) % half := by
    have a1 : ir + (c / half * half + (c % half + 1) % half) = ir + (c % half + 1) % half + c / half * half := by ring
    rw [a1, Nat.add_mul_mod_self_right, Nat.add_mod_mod]
    have h1 : c % half ≡ c [MOD half] := Nat.mod_modEq c half
    have h2 : ir + (c % half + 1) ≡ ir + (c + 1) [MOD half] := Nat.ModEq.add_left ir (Nat.ModEq.add_right 1 h1)
    have e : ir + (c + 1) = ir + 1 + c := by ring
    rw [e] at h2; exact h2
  have e2 : ir / half = (ir + 1) / half := by
    rcases Nat.lt_or_ge (ir + 1) half with h | h
    · rw [Nat.div_eq_of_lt h, Nat.div_eq_of_lt (by omega)]
    · rw [c20_div_half (by omega) (by omega), c20_div_half h hir]
  rw [e1, e2]

/-- **the baby steps**: after `ir` steps of the input-rotation loop (one column per step, reload with the rows exchanged at `s/2`) the
    polynomial holds at column `c` the original column `boltShift half c ir` -/
theorem c20_boltCpRotIn_col (h : BoltCp) (zero : α) (half : Nat) (hh : 0 < half) (hs : h.s = 2 * half) (hN : h.N = 2 * half * h.gap)
    (a : Array α) : ∀ ir, ir < 2 * half → ∀ c j, c < 2 * half → j < h.gap →
      (boltCpRotIn h zero a ir).getD (c * h.gap + j) zero = a.getD (boltShift half c ir * h.gap + j) zero := by
  have hs2 : h.s / 2 = half := by rw [hs, Nat.mul_div_cancel_left _ (by decide : 0 < 2)]
  intro ir
  induction ir with
  | zero =>
    intro _ c j hc hj
    rw [c20_shift_zero hh hc]; rfl
  | succ ir ih =>
    intro hir c j hc hj
    unfold boltCpRotIn
    rw [hs2, hN]
    split
    · rename_i heq
      rw [c20_swapRows_col zero half h.gap c j a hh hc hj, heq, c20_shift_half hh hc]
    · rename_i hne
      have := c20_rotRows_col zero half h.gap 1 c j (boltCpRotIn h zero a ir) hh hc hj
      rw [Nat.one_mul] at this
      rw [this]
      have hc' : c / half * half + (c % half + 1) % half < 2 * half := by
        have h2 : c / half < 2 := by rw [Nat.div_lt_iff_lt_mul hh]; omega
        have := c20_succ_mul_le (ib := half) h2
        have := Nat.mod_lt (c % half + 1) hh
        omega
      rw [ih (by omega) _ j hc' hj, c20_shift_step hh hir hne]

end HC
