/- C02 (task P): non-vacuity of `hom_program_bfv_partial` (and, with it, of the bundles `MulOK` / `c02w_Window` of C02W/C02X) on a level built by the
   driver's constructor `Drv.Sch.mkLevel .bfv 4 [97, 113, 193] 17` (Q = 2115473) with the Bsk tables built by `NTTTables.new`. -/
import Heathcliff.Proofs.C02PF
import Heathcliff.Proofs.C01LW
import Heathcliff.Proofs.NonVac
namespace HC
open Finset
set_option maxRecDepth 8000

abbrev c02f_wL : Level := c01w_pl .bfv 17

/-- the NTT tables of the auxiliary base Bsk, built by `NTTTables.new` from the primitive root the driver's search finds -/
def c02f_wT : Array NTTTables :=
  Array.ofFn (n := c02f_wL.tool.baseBsk.size) fun i =>
    (NTTTables.new c02f_wL.k (c02f_wL.tool.baseBsk.q i.val) true
      ((Spec.somePrimitiveRoot (2^c02f_wL.k) (c02f_wL.tool.baseBsk.q i.val).value).getD 0)).toOption.getD default

theorem c02f_wT_ok : ∀ i, i < c02f_wL.tool.baseBsk.size →
    (NTTTables.new c02f_wL.k (c02f_wL.tool.baseBsk.q i) true
      ((Spec.somePrimitiveRoot (2^c02f_wL.k) (c02f_wL.tool.baseBsk.q i).value).getD 0)).toOption.isSome = true ∧
    (Spec.somePrimitiveRoot (2^c02f_wL.k) (c02f_wL.tool.baseBsk.q i).value).getD 0 < 2^64 := by decide +kernel

theorem c02f_wLevelOK : c02f_LevelOK c02f_wL c02f_wT := by
  obtain ⟨ms, tm, tbl, q, aux, tool, hms, htm, htbl, hq, haux, hnew, heq⟩ := c01q_mkLevel_inv c01w_pl_ok_bfv
  obtain ⟨a1, a2, a3, a4, a5, a6, a7, a8, a9⟩ := mkLevel_ok c01w_pl_ok_bfv
  have htm' : c02f_wL.t = tm := by show (c01w_pl .bfv 17).t = tm; rw [heq]
  have htool : c02f_wL.tool = tool := by show (c01w_pl .bfv 17).tool = tool; rw [heq]
  have hqs : c02f_wL.qs.toList = ms := by show (c01w_pl .bfv 17).qs.toList = ms; rw [heq]
  have hn : c02f_wL.n = 4 := a6
  have htwf : c02f_wL.t.WF := by rw [htm']; exact (Modulus.mk?_wf htm (by decide)).1
  have hmsF := RNSH.mapM_ok_inv _ _ _ hms
  have hmw : ∀ m ∈ ms, m.WF := by
    intro m hm
    obtain ⟨v, hv, hvm⟩ := c01q_forall2_right hmsF hm
    have hv0 : v ≠ 0 := by
      simp only [List.mem_cons, List.mem_nil_iff, or_false] at hv
      rcases hv with rfl | rfl | rfl <;> decide
    exact (Modulus.mk?_wf hvm hv0).1
  have hlen : ms.length = 3 := by rw [← hmsF.length_eq]; rfl
  obtain ⟨hqwf, hqbase⟩ := RNSBase.new_wf hmw (by omega) hq
  have hqsz : q.size = 3 := by unfold RNSBase.size; rw [hqbase]; simpa using hlen
  rw [hqsz] at haux
  have hauxF := RNSH.mapM_ok_inv _ _ _ haux
  have hprimes : ∀ v ∈ Spec.getPrimes (2 * 4) 61 (3 + 4), 2^61 - 2^54 ≤ v := by decide +kernel
  have haux61 : ∀ m ∈ aux, m.WF ∧ 2^61 - 2^54 ≤ m.value := by
    intro m hm
    obtain ⟨v, hv, hvm⟩ := c01q_forall2_right hauxF hm
    have hw := Modulus.mk?_wf hvm (c01q_getPrimes_ne_zero hv)
    exact ⟨hw.1, by rw [hw.2]; exact hprimes v hv⟩
  have haux32 : ∀ m ∈ aux, m.WF ∧ 2^32 ≤ m.value := by
    intro m hm
    have h1 := (haux61 m hm).2
    have h2 : (2:Nat)^32 ≤ 2^61 - 2^54 := by norm_num
    exact ⟨(haux61 m hm).1, by omega⟩
  have hnew' : RNSTool.new c02f_wL.n q c02f_wL.t aux = .ok c02f_wL.tool := by rw [hn, htm', htool]; exact hnew
  have hq' : RNSBase.new c02f_wL.qs.toList = .ok q := by rw [hqs]; exact hq
  have hmul : MulOK c02f_wL c02f_wT :=
    c02w_mulOK_of_new (q := q) (aux := aux) a1 (by decide +kernel) (by decide +kernel) htwf
      haux32 hq' hnew'
      (fun i hi => ⟨true, _, (c02f_wT_ok i hi).2, by
        have := nv_ok_of_isOk default (c02f_wT_ok i hi).1
        rw [this]
        unfold c02f_wT
        rw [c01o_ofFn_getD _ _ _ hi]⟩)
  refine ⟨hmul, (a4 (by decide)).1, a5, by rw [a9]; decide, fun n1 n2 h1 h2 => ?_⟩
  refine c02w_window_of_new (q := q) (aux := aux) hqwf (by omega) htwf (by decide +kernel)
    haux61 hnew' ?_
  rw [hn]
  have h3 : min n1 n2 ≤ 16 := le_trans (Nat.min_le_left _ _) h1
  have h4 : (16 * 4 : Nat) ≤ 2^30 := by norm_num
  have h5 : min n1 n2 * 4 ≤ 16 * 4 := Nat.mul_le_mul_right _ h3
  omega

end HC
