/- C02 (task P): non-vacuity of `hom_program_bfv_partial` (and, with it, of the bundles `MulOK` / `c02w_Window` of C02W/C02X) on a level built by the
   driver's constructor `Drv.Sch.mkLevel .bfv 4 [97, 113, 193] 17` (Q = 2115473) with the Bsk tables built by `NTTTables.new`. -/
import Heathcliff.Proofs.C02PF
import Heathcliff.Proofs.C01LW
import Heathcliff.Proofs.NonVac
namespace HC
open Finset
set_option maxRecDepth 8000

abbrev c02f_wL : Level := c01w_pl .bfv 17

/-- the NTT tables of the auxiliary base Bsk, built by `NTTTables.new` from the primitive root the driver's search finds -/
def c02f_wT : Array NTTTables :=
  Array.ofFn (n := c02f_wL.tool.baseBsk.size) fun i =>
    (NTTTables.new c02f_wL.k (c02f_wL.tool.baseBsk.q i.val) true
      ((Spec.somePrimitiveRoot (2^c02f_wL.k) (c02f_wL.tool.baseBsk.q i.val).value).getD 0)).toOption.getD default

theorem c02f_wT_ok : ∀ i, i < c02f_wL.tool.baseBsk.size →
    (NTTTables.new c02f_wL.k (c02f_wL.tool.baseBsk.q i) true
      ((Spec.somePrimitiveRoot (2^c02f_wL.k) (c02f_wL.tool.baseBsk.q i).value).getD 0)).toOption.isSome = true ∧
    (Spec.somePrimitiveRoot (2^c02f_wL.k) (c02f_wL.tool.baseBsk.q i).value).getD 0 < 2^64 := by decide +kernel

theorem c02f_wLevelOK : c02f_LevelOK c02f_wL c02f_wT := by
  obtain ⟨ms, tm, tbl, q, aux, tool, hms, htm, htbl, hq, haux, hnew, heq⟩ := c01q_mkLevel_inv c01w_pl_ok_bfv
  obtain ⟨a1, a2, a3, a4, a5, a6, a7, a8, a9⟩ := mkLevel_ok c01w_pl_ok_bfv
  have htm' : c02f_wL.t = tm := by show (c01w_pl .bfv 17).t = tm; rw [heq]
  have htool : c02f_wL.tool = tool := by show (c01w_pl .bfv 17).tool = tool; rw [heq]
  have hqs : c02f_wL.qs.toList = ms := by show (c01w_pl .bfv 17).qs.toList = ms; rw [heq]
  have hn : c02f_wL.n = 4 := a6
  have htwf : c02f_wL.t.WF := by rw [htm']; exact (Modulus.mk?_wf htm (by decide)).1
  have hmsF := RNSH.mapM_ok_inv _ _ _ hms
  have hmw : ∀ m ∈ ms, m.WF := by
    intro m hm
    obtain ⟨v, hv, hvm⟩ := c01q_forall2_right hmsF hm
    have hv0 : v ≠ 0 := by
      simp only [List.mem_cons, List.mem_nil_iff, or_false] at hv
      rcases hv with rfl | rfl | rfl <;> decide
    exact (Modulus.mk?_wf hvm hv0).1
  have hlen : ms.length = 3 := by rw [← hmsF.length_eq]; rfl
  obtain ⟨hqwf, hqbase⟩ := RNSBase.new_wf hmw (by omega) hq
  have hqsz : q.size = 3 := by unfold RNSBase.size; rw [hqbase]; simpa using hlen
  rw [hqsz] at haux
  have hauxF := RNSH.mapM_ok_inv _ _ _ haux
  have hprimes : ∀ v ∈ Spec.getPrimes (2 * 4) 61 (3 + 4), 2^61 - 2^54 ≤ v := by decide +kernel
  have haux61 : ∀ m ∈ aux, m.WF ∧ 2^61 - 2^54 ≤ m.value := by
    intro m hm
    obtain ⟨v, hv, hvm⟩ := c01q_forall2_right hauxF hm
    have hw := Modulus.mk?_wf hvm (c01q_getPrimes_ne_zero hv)
    exact ⟨hw.1, by rw [hw.2]; exact hprimes v hv⟩
  have haux32 : ∀ m ∈ aux, m.WF ∧ 2^32 ≤ m.value := by
    intro m hm
    have h1 := (haux61 m hm).2
    have h2 : (2:Nat)^32 ≤ 2^61 - 2^54 := by norm_num
    exact ⟨(haux61 m hm).1, by omega⟩
  have hnew' : RNSTool.new c02f_wL.n q c02f_wL.t aux = .ok c02f_wL.tool := by rw [hn, htm', htool]; exact hnew
  have hq' : RNSBase.new c02f_wL.qs.toList = .ok q := by rw [hqs]; exact hq
  have hmul : MulOK c02f_wL c02f_wT :=
    c02w_mulOK_of_new (q := q) (aux := aux) a1 (by decide +kernel) (by decide +kernel) htwf
      haux32 hq' hnew'
      (fun i hi => ⟨true, _, (c02f_wT_ok i hi).2, by
        have := nv_ok_of_isOk default (c02f_wT_ok i hi).1
        rw [this]
        unfold c02f_wT
        rw [c01o_ofFn_getD _ _ _ hi]⟩)
  refine ⟨hmul, (a4 (by decide)).1, a5, by rw [a9]; decide, fun n1 n2 h1 h2 => ?_⟩
  refine c02w_window_of_new (q := q) (aux := aux) hqwf (by omega) htwf (by decide +kernel)
    haux61 hnew' ?_
  rw [hn]
  have h3 : min n1 n2 ≤ 16 := le_trans (Nat.min_le_left _ _) h1
  have h4 : (16 * 4 : Nat) ≤ 2^30 := by norm_num
  have h5 : min n1 n2 * 4 ≤ 16 * 4 := Nat.mul_le_mul_right _ h3
  omega


/-! ### a concrete program: x0·x1 − x0 on two fresh BFV ciphertexts (Δ = ⌊Q/t⌋ = 124439, messages (1,2,0,−1), (3,−2,1,0), errors (1,0,−1,0),
      (0,1,0,−1), secret (1,−1,0,1)); invariant noises t·e − (Q mod t)·m = (7,−20,−17,10), (−30,37,−10,−17) -/

def c02f_wSk : Array Int := #[1, -1, 0, 1]
def c02f_wCt0 : Ct := ⟨#[#[#[21, 18, 62, 81], #[59, 94, 78, 43], #[180, 143, 158, 115]], #[#[5, 40, 77, 3], #[5, 40, 77, 3], #[5, 40, 77, 3]]], false, 1⟩
def c02f_wCt1 : Ct := ⟨#[#[#[19, 9, 57, 45], #[52, 30, 95, 77], #[109, 174, 23, 44]], #[#[90, 11, 2, 60], #[90, 11, 2, 60], #[90, 11, 2, 60]]], false, 1⟩
def c02f_wCts (i : Nat) : Ct := if i = 0 then c02f_wCt0 else c02f_wCt1
def c02f_wM (i j : Nat) : Int := if i = 0 then (#[1, 2, 0, -1] : Array Int).getD j 0 else (#[3, -2, 1, 0] : Array Int).getD j 0
def c02f_wNu (i j : Nat) : Int := if i = 0 then (#[7, -20, -17, 10] : Array Int).getD j 0 else (#[-30, 37, -10, -17] : Array Int).getD j 0
def c02f_wProg : FProg := .sub (.mul (.inp 0) (.inp 1)) (.inp 0)

theorem c02f_wFacts : c02f_wL.n = 4 ∧ c02f_wL.t.value = 17 ∧ c02f_wL.scheme = .bfv := by
  obtain ⟨_, _, _, _, a5, a6, _, _, a9⟩ := mkLevel_ok c01w_pl_ok_bfv
  exact ⟨a6, a9, a5⟩

theorem c02f_wQ : c02f_wL.tool.baseQ.prod = 2115473 := by decide +kernel

theorem c02f_wCanon (i : Nat) : CtCanon c02f_wL (c02f_wCts i) := by
  have hc : ∀ p ∈ [c02f_wCt0.polys.getD 0 #[], c02f_wCt0.polys.getD 1 #[], c02f_wCt1.polys.getD 0 #[], c02f_wCt1.polys.getD 1 #[]],
      RnsCanon c02f_wL p := by
    intro p hp
    simp only [List.mem_cons, List.mem_nil_iff, or_false] at hp
    rcases hp with rfl | rfl | rfl | rfl <;> (unfold RnsCanon; decide +kernel)
  have hcf : c02v_cfOk c02f_wL 1 := by
    unfold c02v_cfOk
    rw [c02f_wFacts.2.2]
  unfold c02f_wCts
  split
  · refine ⟨⟨Nat.le_refl 2, (by decide : 2 ≤ 16), fun k hk => ?_⟩, hcf⟩
    have hk' : k < 2 := hk
    interval_cases k
    · exact hc _ (by simp)
    · exact hc _ (by simp)
  · refine ⟨⟨Nat.le_refl 2, (by decide : 2 ≤ 16), fun k hk => ?_⟩, hcf⟩
    have hk' : k < 2 := hk
    interval_cases k
    · exact hc _ (by simp)
    · exact hc _ (by simp)

theorem c02f_wSplit : ∀ i, i < 2 → ∀ j, j < 4 →
    17 * c02f_ph c02f_wL c02f_wSk (c02f_wCts i) j = 2115473 * c02f_wM i j + c02f_wNu i j := by decide +kernel

theorem c02f_wEnc (i : Nat) (hi : i < 2) : c02f_Enc c02f_wL c02f_wSk (c02f_wCts i) (c02f_wM i) 37 ∧ (c02f_wCts i).polys.size = 2 := by
  refine ⟨c02f_enc_of_split c02f_wLevelOK (c02f_wCanon i) (by interval_cases i <;> rfl) (c02f_wM i) (c02f_wNu i) 37
    (fun j hj => by
      rw [c02f_wFacts.1] at hj
      rw [c02f_wFacts.2.1, c02f_wQ]
      exact c02f_wSplit i hi j hj)
    (fun j hj => by rw [c02f_wFacts.1] at hj; revert i j; decide)
    (by rw [c02f_wQ]; decide), by interval_cases i <;> rfl⟩

def c02f_wR : Ct := (c02f_wProg.eval c02f_wL c02f_wT c02f_wCts).toOption.getD default
theorem c02f_wEval : c02f_wProg.eval c02f_wL c02f_wT c02f_wCts = .ok c02f_wR := nv_ok_of_isOk default (by decide +kernel)
theorem c02f_wR_val : (c02f_wR.polys.size, c02f_wR.ntt, c02f_wR.cf) = (3, false, 1) := by decide +kernel

/-- the a-priori bookkeeping: BEHZ product bound 10949 (= `c02x_F 4 17 3 3 2 2 37 37 / 2^34`), plus 37 for the subtraction; every node below Q/2 -/
theorem c02f_wUB : c02f_wProg.noiseUB 4 17 3 2115473 3 (fun _ => (2, 37)) = some (3, 10986) := by decide +kernel

/-- NON-VACUITY of `hom_program_bfv_partial`: all hypotheses hold for the concrete program on the constructor-built level -/
theorem hom_program_bfv_example :
    bfvDecrypt c02f_wL c02f_wSk c02f_wR =
      .ok (Spec.trim (Array.ofFn (n := c02f_wL.n) fun j => Spec.imod (c02f_wProg.shadow c02f_wL.n c02f_wM j.val) c02f_wL.t.value)) :=
  hom_program_bfv_partial c02f_wLevelOK (sk := c02f_wSk) (by rw [c02f_wFacts.1]; rfl) (S := 3) (by rw [c02f_wFacts.1]; decide)
    c02f_wCts c02f_wM (fun _ => (2, 37)) c02f_wProg
    (fun i hi => by
      have hi2 : i < 2 := by
        simp [c02f_wProg, FProg.ctInputs] at hi
        omega
      exact c02f_wEnc i hi2)
    c02f_wEval (s := 3) (V := 10986)
    (by rw [c02f_wFacts.1, c02f_wFacts.2.1, c02f_wQ, show c02f_wL.size = 3 by decide +kernel]; exact c02f_wUB)
    (by rw [c02f_wQ, show c02f_wL.size = 3 by decide +kernel, show c02f_wL.tool.gamma.value = 2305843009213693561 by decide +kernel]; decide)

/-- … evaluated: (m0·m1 − m0) mod (X^4 + 1, 17) = (0, 3, 14, 0), trimmed -/
theorem hom_program_bfv_example_val : (bfvDecrypt c02f_wL c02f_wSk c02f_wR).toOption = some #[0, 3, 14] := by decide +kernel

end HC
